// Command stubtool stands in for shellcheck / pyflakes in the C20 harness. It reads the script from
// stdin, appends a record (args, stdin, start/end time) to $VERIF_STUB_LOG and behaves as the marker
// `STUB:<directive>` found in the script says.
package main

import (
	"encoding/hex"
	"encoding/json"
	"fmt"
	"io"
	"os"
	"regexp"
	"strconv"
	"strings"
	"syscall"
	"time"
)

type record struct {
	Args  []string `json:"args"`
	Stdin string   `json:"stdin_hex"`
	Start int64    `json:"start_ns"`
	End   int64    `json:"end_ns"`
	Pid   int      `json:"pid"`
	Out   string   `json:"stdout_hex,omitempty"` // general directives only: what was written to stdout
}

func main() {
	start := time.Now().UnixNano()
	in, _ := io.ReadAll(os.Stdin)
	script := string(in)
	json_ := false
	for i, a := range os.Args {
		if a == "-f" && i+1 < len(os.Args) && os.Args[i+1] == "json" {
			json_ = true
		}
	}
	directive := "ok"
	if m := regexp.MustCompile(`STUB:([a-z0-9=,]+)`).FindStringSubmatch(script); m != nil {
		directive = m[1]
	}
	sleep := 0
	if m := regexp.MustCompile(`SLEEP:(\d+)`).FindStringSubmatch(script); m != nil {
		sleep, _ = strconv.Atoi(m[1])
	}
	time.Sleep(time.Duration(sleep) * time.Millisecond)
	logRec := func() {
		rec := record{Args: os.Args[1:], Stdin: hex.EncodeToString(in), Start: start, End: time.Now().UnixNano(), Pid: os.Getpid()}
		b, _ := json.Marshal(rec)
		if p := os.Getenv("VERIF_STUB_LOG"); p != "" {
			f, err := os.OpenFile(p, os.O_APPEND|os.O_CREATE|os.O_WRONLY, 0o644)
			if err == nil {
				f.Write(append(b, '\n'))
				f.Close()
			}
		}
	}
	issues := func(n int) {
		if json_ {
			var items []string
			for i := 0; i < n; i++ {
				items = append(items, fmt.Sprintf(`{"file":"-","line":%d,"endLine":%d,"column":%d,"endColumn":%d,"level":"warning","code":%d,"message":"stub issue %d.","fix":null}`, i+2, i+2, i+1, i+2, 2000+i, i))
			}
			fmt.Print("[" + strings.Join(items, ",") + "]\n")
		} else {
			for i := 0; i < n; i++ {
				fmt.Printf("<stdin>:%d:%d: stub issue %d\n", i+1, i+1, i)
			}
		}
	}
	// general form `o=<none|issues1|issues3|garbage|partial>,t=<exit0|exit1|exit3|kill>`: output first, then termination
	if strings.HasPrefix(directive, "o=") {
		parts := strings.SplitN(directive, ",t=", 2)
		var out string
		switch strings.TrimPrefix(parts[0], "o=") {
		case "issues1", "issues3":
			n := 1
			if parts[0] == "o=issues3" {
				n = 3
			}
			if json_ {
				var items []string
				for i := 0; i < n; i++ {
					items = append(items, fmt.Sprintf(`{"file":"-","line":%d,"endLine":%d,"column":%d,"endColumn":%d,"level":"warning","code":%d,"message":"stub issue %d.","fix":null}`, i+2, i+2, i+1, i+2, 2000+i, i))
				}
				out = "[" + strings.Join(items, ",") + "]\n"
			} else {
				for i := 0; i < n; i++ {
					out += fmt.Sprintf("<stdin>:%d:%d: stub issue %d\n", i+1, i+1, i)
				}
			}
		case "garbage":
			out = "this is not JSON\n"
		case "partial":
			if json_ {
				out = `[{"file":"-","line":2,"endLine":2,"column":1,"endCol`
			} else {
				out = "<stdin>:1:1: stub issue 0\n<stdin>:2:2: stub iss"
			}
		}
		rec := record{Args: os.Args[1:], Stdin: hex.EncodeToString(in), Start: start, End: time.Now().UnixNano(), Pid: os.Getpid(), Out: hex.EncodeToString([]byte(out))}
		b, _ := json.Marshal(rec)
		if p := os.Getenv("VERIF_STUB_LOG"); p != "" {
			if f, err := os.OpenFile(p, os.O_APPEND|os.O_CREATE|os.O_WRONLY, 0o644); err == nil {
				f.Write(append(b, '\n'))
				f.Close()
			}
		}
		os.Stdout.WriteString(out)
		os.Stdout.Sync()
		term := "exit0"
		if len(parts) == 2 {
			term = parts[1]
		}
		switch term {
		case "kill":
			syscall.Kill(os.Getpid(), syscall.SIGKILL)
			time.Sleep(time.Second)
		case "exit1":
			os.Exit(1)
		case "exit3":
			os.Exit(3)
		}
		return
	}
	switch {
	case directive == "ok":
		logRec()
		issues(0)
	case strings.HasPrefix(directive, "issues="):
		n, _ := strconv.Atoi(strings.TrimPrefix(directive, "issues="))
		logRec()
		issues(n)
		if n > 0 {
			os.Exit(1)
		}
	case directive == "crash":
		logRec()
		os.Exit(2) // non-zero without output
	case directive == "kill":
		logRec()
		syscall.Kill(os.Getpid(), syscall.SIGKILL)
		time.Sleep(time.Second)
	case directive == "killissues":
		// complete output first (one issue: valid JSON / a complete <stdin> line), then killed by a signal
		logRec()
		issues(1)
		os.Stdout.Sync()
		syscall.Kill(os.Getpid(), syscall.SIGKILL)
		time.Sleep(time.Second)
	case directive == "garbage":
		logRec()
		fmt.Print("this is not JSON\n")
	case directive == "empty":
		logRec() // exit 0, no output at all
	default:
		logRec()
		issues(0)
	}
}
