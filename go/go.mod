module verif.local/harness

go 1.18

require (
	github.com/bmatcuk/doublestar/v4 v4.8.0
	github.com/fatih/color v1.18.0
	github.com/mattn/go-runewidth v0.0.16
	github.com/rhysd/actionlint v0.0.0
	github.com/robfig/cron/v3 v3.0.1
	gopkg.in/yaml.v3 v3.0.1
)

require (
	github.com/mattn/go-colorable v0.1.14 // indirect
	github.com/mattn/go-isatty v0.0.20 // indirect
	github.com/mattn/go-shellwords v1.0.12 // indirect
	github.com/rivo/uniseg v0.4.7 // indirect
	golang.org/x/sync v0.10.0 // indirect
	golang.org/x/sys v0.29.0 // indirect
)

replace github.com/rhysd/actionlint => /repo
