package main

import (
	"fmt"
	"strings"

	"github.com/rhysd/actionlint"
)

func (g *generator) genPopular() (string, error) {
	var b strings.Builder
	b.WriteString("namespace AL.Gen\n\n")
	names := sortedKeys(actionlint.PopularActions)
	// chunked definitions keep elaboration and kernel evaluation cheap
	const chunk = 16
	nChunks := 0
	for i := 0; i < len(names); i += chunk {
		j := i + chunk
		if j > len(names) {
			j = len(names)
		}
		fmt.Fprintf(&b, "def popular_%d : List (String × List (String × String × Bool) × List (String × String) × Bool × Bool) := [\n", nChunks)
		for k, n := range names[i:j] {
			m := actionlint.PopularActions[n]
			ins := make([]string, 0, len(m.Inputs))
			for _, id := range sortedKeys(m.Inputs) {
				in := m.Inputs[id]
				req := "false"
				if in.Required {
					req = "true"
				}
				ins = append(ins, fmt.Sprintf("(%s, %s, %s)", lstr(id), lstr(in.Name), req))
			}
			outs := make([]string, 0, len(m.Outputs))
			for _, id := range sortedKeys(m.Outputs) {
				outs = append(outs, fmt.Sprintf("(%s, %s)", lstr(id), lstr(m.Outputs[id].Name)))
			}
			sep := ","
			if k == j-i-1 {
				sep = ""
			}
			bs := func(x bool) string {
				if x {
					return "true"
				}
				return "false"
			}
			fmt.Fprintf(&b, "  (%s, [%s], [%s], %s, %s)%s\n", lstr(n), strings.Join(ins, ", "), strings.Join(outs, ", "), bs(m.SkipInputs), bs(m.SkipOutputs), sep)
		}
		b.WriteString("]\n\n")
		nChunks++
	}
	b.WriteString("/-- `PopularActions`: (spec, inputs (id, name, required), outputs (id, name), SkipInputs, SkipOutputs), in chunks -/\ndef popularChunks : List (List (String × List (String × String × Bool) × List (String × String) × Bool × Bool)) := [")
	for i := 0; i < nChunks; i++ {
		if i > 0 {
			b.WriteString(", ")
		}
		fmt.Fprintf(&b, "popular_%d", i)
	}
	b.WriteString("]\n\n")
	outdated := make([]string, 0, len(actionlint.OutdatedPopularActionSpecs))
	for k := range actionlint.OutdatedPopularActionSpecs {
		outdated = append(outdated, k)
	}
	sortStringsX(outdated)
	b.WriteString("/-- `OutdatedPopularActionSpecs` -/\ndef outdatedSpecs : List String := " + lstrs(outdated) + "\n\nend AL.Gen\n")
	g.facts["popular_actions"] = len(names)
	g.facts["outdated_specs"] = len(outdated)
	return b.String(), nil
}

func sortStringsX(s []string) {
	for i := 1; i < len(s); i++ {
		for j := i; j > 0 && s[j] < s[j-1]; j-- {
			s[j], s[j-1] = s[j-1], s[j]
		}
	}
}
