package main

import (
	"fmt"
	"go/ast"
	"go/importer"
	"go/parser"
	"go/token"
	"go/types"
	"os"
	"path/filepath"
	"sort"
	"strconv"
	"strings"
)

type pkgInfo struct {
	fset  *token.FileSet
	files map[string]*ast.File
	info  *types.Info
	pkg   *types.Package
}

var loaded *pkgInfo

// loadPkg parses and type-checks package actionlint from the working tree (non-test files, guard off).
func loadPkg(repo string) (*pkgInfo, error) {
	if loaded != nil {
		return loaded, nil
	}
	fset := token.NewFileSet()
	matches, _ := filepath.Glob(filepath.Join(repo, "*.go"))
	files := map[string]*ast.File{}
	var list []*ast.File
	for _, m := range matches {
		base := filepath.Base(m)
		if strings.HasSuffix(base, "_test.go") || base == "verif_export.go" || base == "verif_sched.go" {
			continue
		}
		f, err := parser.ParseFile(fset, m, nil, parser.ParseComments)
		if err != nil {
			return nil, err
		}
		files[base] = f
		list = append(list, f)
	}
	old, _ := os.Getwd()
	os.Chdir(repo)
	defer os.Chdir(old)
	var firstErr error
	conf := types.Config{Importer: importer.ForCompiler(fset, "source", nil), Error: func(err error) {
		if firstErr == nil {
			firstErr = err
		}
	}}
	info := &types.Info{Types: map[ast.Expr]types.TypeAndValue{}, Selections: map[*ast.SelectorExpr]*types.Selection{}, Uses: map[*ast.Ident]types.Object{}, Defs: map[*ast.Ident]types.Object{}}
	pkg, _ := conf.Check("github.com/rhysd/actionlint", fset, list, info)
	if firstErr != nil {
		return nil, fmt.Errorf("type check: %v", firstErr)
	}
	loaded = &pkgInfo{fset, files, info, pkg}
	return loaded, nil
}

func namedOf(t types.Type) string {
	for {
		switch tt := t.(type) {
		case *types.Pointer:
			t = tt.Elem()
			continue
		case *types.Named:
			return tt.Obj().Name()
		}
		return ""
	}
}

// leafKind classifies AST field types that carry user text which may contain ${{ }}.
func leafKind(t types.Type) string {
	switch tt := t.(type) {
	case *types.Pointer:
		if n, ok := tt.Elem().(*types.Named); ok {
			switch n.Obj().Name() {
			case "String", "Bool", "Int", "Float":
				return n.Obj().Name()
			}
		}
	case *types.Slice:
		if k := leafKind(tt.Elem()); k != "" {
			return "[]" + k
		}
	case *types.Named:
		if tt.Obj().Name() == "RawYAMLValue" {
			return "RawYAMLValue"
		}
	}
	return ""
}

func (g *generator) genSyntax() (string, error) {
	p, err := loadPkg(g.repo)
	if err != nil {
		return "", err
	}
	var b strings.Builder
	b.WriteString("namespace AL.Gen\n\n")

	// --- AST schema: leaf fields of the structs declared in ast.go
	type fld struct{ strct, field, kind string }
	var leaves []fld
	astFile := p.files["ast.go"]
	for _, d := range astFile.Decls {
		gd, ok := d.(*ast.GenDecl)
		if !ok || gd.Tok != token.TYPE {
			continue
		}
		for _, sp := range gd.Specs {
			ts := sp.(*ast.TypeSpec)
			st, ok := ts.Type.(*ast.StructType)
			if !ok {
				continue
			}
			for _, f := range st.Fields.List {
				tv, ok := p.info.Types[f.Type]
				if !ok {
					continue
				}
				k := leafKind(tv.Type)
				if k == "" {
					continue
				}
				for _, n := range f.Names {
					leaves = append(leaves, fld{ts.Name.Name, n.Name, k})
				}
			}
		}
	}
	sort.Slice(leaves, func(i, j int) bool {
		if leaves[i].strct != leaves[j].strct {
			return leaves[i].strct < leaves[j].strct
		}
		return leaves[i].field < leaves[j].field
	})
	b.WriteString("/-- every field of an AST struct (ast.go) that holds user text: (struct, field, kind) -/\ndef astLeaves : List (String × String × String) := [\n")
	for i, l := range leaves {
		sep := ","
		if i == len(leaves)-1 {
			sep = ""
		}
		fmt.Fprintf(&b, "  (%s, %s, %s)%s\n", lstr(l.strct), lstr(l.field), lstr(l.kind), sep)
	}
	b.WriteString("]\n\n")

	// --- rule_expression.go: (struct, field) pairs handed to a check* method, with the workflow key literal
	type site struct{ fn, strct, field, key, method string }
	var sites []site
	re := p.files["rule_expression.go"]
	for _, d := range re.Decls {
		fd, ok := d.(*ast.FuncDecl)
		if !ok || fd.Body == nil {
			continue
		}
		rangeOf := map[types.Object]ast.Expr{}
		ast.Inspect(fd.Body, func(n ast.Node) bool {
			if rs, ok := n.(*ast.RangeStmt); ok {
				if v, ok := rs.Value.(*ast.Ident); ok {
					if obj := p.info.Defs[v]; obj != nil {
						if x, ok := rs.X.(*ast.SelectorExpr); ok {
							rangeOf[obj] = x
						}
					}
				}
			}
			return true
		})
		ast.Inspect(fd.Body, func(n ast.Node) bool {
			ce, ok := n.(*ast.CallExpr)
			if !ok {
				return true
			}
			sel, ok := ce.Fun.(*ast.SelectorExpr)
			if !ok || !strings.HasPrefix(sel.Sel.Name, "check") || len(ce.Args) == 0 {
				return true
			}
			// the workflow key handed to the check: the last string-literal argument that is a key of the
			// availability table or "" ; "$param" when the key is passed on from the enclosing function
			key := "-"
			for _, a := range ce.Args[1:] {
				if bl, ok := a.(*ast.BasicLit); ok && bl.Kind == token.STRING {
					if s, err := strconv.Unquote(bl.Value); err == nil && (strings.Contains(s, ".") || s == "" || s == "env" || s == "concurrency" || s == "run-name") && !strings.Contains(s, " ") {
						key = s
					}
				} else if id, ok := a.(*ast.Ident); ok && strings.Contains(strings.ToLower(id.Name), "workflowkey") {
					key = "$" + id.Name
				} else if be, ok := a.(*ast.BinaryExpr); ok {
					if id, ok := be.X.(*ast.Ident); ok && strings.Contains(strings.ToLower(id.Name), "workflowkey") {
						if bl, ok := be.Y.(*ast.BasicLit); ok {
							suffix, _ := strconv.Unquote(bl.Value)
							key = "$" + id.Name + "+" + suffix
						}
					}
				}
			}
			arg := ce.Args[0]
			if id, ok := arg.(*ast.Ident); ok {
				// a loop variable ranging over x.Field stands for that field
				if obj := p.info.Uses[id]; obj != nil {
					if rs, ok := rangeOf[obj]; ok {
						arg = rs
					}
				}
			}
			if as, ok := arg.(*ast.SelectorExpr); ok {
				if s := p.info.Selections[as]; s != nil {
					sites = append(sites, site{fd.Name.Name, namedOf(s.Recv()), as.Sel.Name, key, sel.Sel.Name})
				}
			}
			return true
		})
	}
	sort.Slice(sites, func(i, j int) bool {
		a, c := sites[i], sites[j]
		return a.strct+"."+a.field+a.fn+a.key < c.strct+"."+c.field+c.fn+c.key
	})
	b.WriteString("/-- rule_expression.go: every `rule.check…(x.Field, …)` call: (enclosing func, struct, field, workflow-key literal, method) -/\ndef exprCheckSites : List (String × String × String × String × String) := [\n")
	for i, s := range sites {
		sep := ","
		if i == len(sites)-1 {
			sep = ""
		}
		fmt.Fprintf(&b, "  (%s, %s, %s, %s, %s)%s\n", lstr(s.fn), lstr(s.strct), lstr(s.field), lstr(s.key), lstr(s.method), sep)
	}
	b.WriteString("]\n\n")

	// --- parse.go: per parse function, the keys of each `switch kv.id` and the fields assigned in the case
	type pcase struct {
		fn, key string
		fields  []string
		dflt    bool
	}
	var cases []pcase
	type mapping struct {
		fn, section            string
		allowEmpty, caseSens   string
	}
	var mappings []mapping
	pf := p.files["parse.go"]
	for _, d := range pf.Decls {
		fd, ok := d.(*ast.FuncDecl)
		if !ok || fd.Body == nil {
			continue
		}
		ast.Inspect(fd.Body, func(n ast.Node) bool {
			if ce, ok := n.(*ast.CallExpr); ok {
				if sel, ok := ce.Fun.(*ast.SelectorExpr); ok && (sel.Sel.Name == "parseSectionMapping" || sel.Sel.Name == "parseMapping") && len(ce.Args) == 4 {
					sec := "?"
					if bl, ok := ce.Args[0].(*ast.BasicLit); ok {
						sec, _ = strconv.Unquote(bl.Value)
					} else if id, ok := ce.Args[0].(*ast.Ident); ok {
						sec = "$" + id.Name
					} else {
						sec = "$expr"
					}
					txt := func(e ast.Expr) string {
						if id, ok := e.(*ast.Ident); ok {
							return id.Name
						}
						return "?"
					}
					mappings = append(mappings, mapping{fd.Name.Name, sec, txt(ce.Args[2]), txt(ce.Args[3])})
				}
			}
			// single-key mappings: `if kv.id != "run" { p.unexpectedKey(…); continue }`
			if is, ok := n.(*ast.IfStmt); ok {
				if be, ok := is.Cond.(*ast.BinaryExpr); ok && be.Op == token.NEQ {
					if sel, ok := be.X.(*ast.SelectorExpr); ok && sel.Sel.Name == "id" {
						if bl, ok := be.Y.(*ast.BasicLit); ok && bl.Kind == token.STRING {
							k, _ := strconv.Unquote(bl.Value)
							cases = append(cases, pcase{fd.Name.Name, k, []string{"$single-key"}, false})
							reports := false
							ast.Inspect(is.Body, func(m ast.Node) bool {
								if ce, ok := m.(*ast.CallExpr); ok {
									if cs, ok := ce.Fun.(*ast.SelectorExpr); ok && cs.Sel.Name == "unexpectedKey" {
										reports = true
									}
								}
								return true
							})
							if reports {
								cases = append(cases, pcase{fd.Name.Name, "", []string{"!unexpectedKey"}, true})
							}
						}
					}
				}
			}
			sw, ok := n.(*ast.SwitchStmt)
			if !ok {
				return true
			}
			tag, ok := sw.Tag.(*ast.SelectorExpr)
			if !ok || tag.Sel.Name != "id" {
				return true
			}
			for _, st := range sw.Body.List {
				cc := st.(*ast.CaseClause)
				fields := map[string]bool{}
				for _, s := range cc.Body {
					ast.Inspect(s, func(m ast.Node) bool {
						if ce, ok := m.(*ast.CallExpr); ok {
							if cs, ok := ce.Fun.(*ast.SelectorExpr); ok && (cs.Sel.Name == "unexpectedKey" || cs.Sel.Name == "parseExpression" || cs.Sel.Name == "errorf" || cs.Sel.Name == "errorfAt") {
								fields["!"+cs.Sel.Name] = true
							}
						}
						if as, ok := m.(*ast.AssignStmt); ok {
							for _, l := range as.Lhs {
								if ls, ok := l.(*ast.SelectorExpr); ok {
									fields[ls.Sel.Name] = true
								} else if li, ok := l.(*ast.Ident); ok && li.Name != "_" && li.Name != "err" {
									fields["$"+li.Name] = true
								}
							}
						}
						return true
					})
				}
				fl := make([]string, 0, len(fields))
				for f := range fields {
					fl = append(fl, f)
				}
				sort.Strings(fl)
				if cc.List == nil {
					cases = append(cases, pcase{fd.Name.Name, "", fl, true})
				}
				for _, e := range cc.List {
					if bl, ok := e.(*ast.BasicLit); ok && bl.Kind == token.STRING {
						k, _ := strconv.Unquote(bl.Value)
						cases = append(cases, pcase{fd.Name.Name, k, fl, false})
					}
				}
			}
			return true
		})
	}
	b.WriteString("/-- parse.go: every `case \"key\":` of a `switch kv.id`: (function, key, fields assigned in the case body); key \"\" = default branch -/\ndef parseCases : List (String × String × List String) := [\n")
	for i, c := range cases {
		sep := ","
		if i == len(cases)-1 {
			sep = ""
		}
		fmt.Fprintf(&b, "  (%s, %s, %s)%s\n", lstr(c.fn), lstr(c.key), lstrs(c.fields), sep)
	}
	b.WriteString("]\n\n")
	b.WriteString("/-- parse.go: every parseMapping / parseSectionMapping call: (function, section, allowEmpty, caseSensitive) -/\ndef parseMappings : List (String × String × String × String) := [\n")
	for i, m := range mappings {
		sep := ","
		if i == len(mappings)-1 {
			sep = ""
		}
		fmt.Fprintf(&b, "  (%s, %s, %s, %s)%s\n", lstr(m.fn), lstr(m.section), lstr(m.allowEmpty), lstr(m.caseSens), sep)
	}
	b.WriteString("]\n\nend AL.Gen\n")
	g.facts["ast_leaves"] = len(leaves)
	g.facts["expr_check_sites"] = len(sites)
	g.facts["parse_cases"] = len(cases)
	return b.String(), nil
}

// genRuleState: for every rule type, which receiver fields are assigned in which Visit* callback.
func (g *generator) genRuleState() (string, error) {
	p, err := loadPkg(g.repo)
	if err != nil {
		return "", err
	}
	type rec struct{ rule, method, field string }
	var recs []rec
	names := make([]string, 0, len(p.files))
	for n := range p.files {
		names = append(names, n)
	}
	sort.Strings(names)
	for _, fname := range names {
		if !strings.HasPrefix(fname, "rule_") {
			continue
		}
		for _, d := range p.files[fname].Decls {
			fd, ok := d.(*ast.FuncDecl)
			if !ok || fd.Recv == nil || fd.Body == nil || !strings.HasPrefix(fd.Name.Name, "Visit") {
				continue
			}
			recvName := ""
			if len(fd.Recv.List) == 1 && len(fd.Recv.List[0].Names) == 1 {
				recvName = fd.Recv.List[0].Names[0].Name
			}
			rule := ""
			if tv, ok := p.info.Types[fd.Recv.List[0].Type]; ok {
				rule = namedOf(tv.Type)
			}
			seen := map[string]bool{}
			ast.Inspect(fd.Body, func(n ast.Node) bool {
				as, ok := n.(*ast.AssignStmt)
				if !ok {
					return true
				}
				for _, l := range as.Lhs {
					// rule.f = … , rule.f[k] = …
					e := l
					if ix, ok := e.(*ast.IndexExpr); ok {
						e = ix.X
					}
					if sel, ok := e.(*ast.SelectorExpr); ok {
						if id, ok := sel.X.(*ast.Ident); ok && id.Name == recvName && !seen[sel.Sel.Name] {
							seen[sel.Sel.Name] = true
							recs = append(recs, rec{rule, fd.Name.Name, sel.Sel.Name})
						}
					}
				}
				return true
			})
		}
	}
	sort.Slice(recs, func(i, j int) bool {
		a, b := recs[i], recs[j]
		return a.rule+"."+a.method+"."+a.field < b.rule+"."+b.method+"."+b.field
	})
	var b strings.Builder
	b.WriteString("namespace AL.Gen\n\n/-- rule_*.go: (rule type, Visit callback, receiver field assigned in it) -/\ndef ruleState : List (String × String × String) := [\n")
	for i, r := range recs {
		sep := ","
		if i == len(recs)-1 {
			sep = ""
		}
		fmt.Fprintf(&b, "  (%s, %s, %s)%s\n", lstr(r.rule), lstr(r.method), lstr(r.field), sep)
	}
	b.WriteString("]\n\nend AL.Gen\n")
	g.facts["rule_state_assignments"] = len(recs)
	return b.String(), nil
}

// genMapRanges: every `range` over a map-typed expression in non-test files.
func (g *generator) genMapRanges() (string, error) {
	p, err := loadPkg(g.repo)
	if err != nil {
		return "", err
	}
	type rec struct {
		file, fn, expr string
		n          int
		effects    string
	}
	var recs []rec
	names := make([]string, 0, len(p.files))
	for n := range p.files {
		names = append(names, n)
	}
	sort.Strings(names)
	exprText := func(e ast.Expr) string {
		var sb strings.Builder
		var w func(e ast.Expr)
		w = func(e ast.Expr) {
			switch x := e.(type) {
			case *ast.Ident:
				sb.WriteString(x.Name)
			case *ast.SelectorExpr:
				w(x.X)
				sb.WriteString("." + x.Sel.Name)
			case *ast.IndexExpr:
				w(x.X)
				sb.WriteString("[…]")
			case *ast.CallExpr:
				w(x.Fun)
				sb.WriteString("(…)")
			case *ast.ParenExpr:
				w(x.X)
			case *ast.TypeAssertExpr:
				w(x.X)
				sb.WriteString(".(T)")
			case *ast.StarExpr:
				w(x.X)
			default:
				sb.WriteString("?")
			}
		}
		w(e)
		return sb.String()
	}
	for _, fname := range names {
		for _, d := range p.files[fname].Decls {
			fd, ok := d.(*ast.FuncDecl)
			if !ok || fd.Body == nil {
				continue
			}
			count := map[string]int{}
			ast.Inspect(fd.Body, func(n ast.Node) bool {
				rs, ok := n.(*ast.RangeStmt)
				if !ok {
					return true
				}
				tv, ok := p.info.Types[rs.X]
				if !ok {
					return true
				}
				if _, isMap := tv.Type.Underlying().(*types.Map); !isMap {
					return true
				}
				// what the body does that could expose the order
				var eff []string
				seen := map[string]bool{}
				add := func(s string) {
					if !seen[s] {
						seen[s] = true
						eff = append(eff, s)
					}
				}
				ast.Inspect(rs.Body, func(m ast.Node) bool {
					switch x := m.(type) {
					case *ast.CallExpr:
						if sel, ok := x.Fun.(*ast.SelectorExpr); ok {
							switch sel.Sel.Name {
							case "Errorf", "Error", "errorf", "error", "errorAt", "errorfAt":
								add("report")
							}
						}
						if id, ok := x.Fun.(*ast.Ident); ok && id.Name == "append" {
							add("append")
						}
					case *ast.ReturnStmt:
						add("return")
					case *ast.BranchStmt:
						if x.Tok == token.BREAK {
							add("break")
						}
					}
					return true
				})
				sort.Strings(eff)
				t := exprText(rs.X)
				count[t]++
				recs = append(recs, rec{fname, fd.Name.Name, t, count[t], strings.Join(eff, "+")})
				return true
			})
		}
	}
	var b strings.Builder
	b.WriteString("namespace AL.Gen\n\n/-- every `range` over a map in non-test files: (file, function, ranged expression, occurrence in the function, order-sensitive effects in the body) -/\ndef mapRanges : List (String × String × String × Nat × String) := [\n")
	for i, r := range recs {
		sep := ","
		if i == len(recs)-1 {
			sep = ""
		}
		fmt.Fprintf(&b, "  (%s, %s, %s, %d, %s)%s\n", lstr(r.file), lstr(r.fn), lstr(r.expr), r.n, lstr(r.effects), sep)
	}
	b.WriteString("]\n\nend AL.Gen\n")
	g.facts["map_ranges"] = len(recs)
	return b.String(), nil
}

// genMutators: every in-place sort in non-test files, with the sorted expression and how that
// expression was created in the enclosing function (make / literal / append / parameter / other).
func (g *generator) genMutators() (string, error) {
	p, err := loadPkg(g.repo)
	if err != nil {
		return "", err
	}
	type rec struct{ file, fn, call, arg, origin string }
	var recs []rec
	names := make([]string, 0, len(p.files))
	for n := range p.files {
		names = append(names, n)
	}
	sort.Strings(names)
	for _, fname := range names {
		for _, d := range p.files[fname].Decls {
			fd, ok := d.(*ast.FuncDecl)
			if !ok || fd.Body == nil {
				continue
			}
			// origin of local identifiers
			origin := map[string]string{}
			if fd.Type.Params != nil {
				for _, f := range fd.Type.Params.List {
					for _, n := range f.Names {
						origin[n.Name] = "parameter"
					}
				}
			}
			ast.Inspect(fd.Body, func(n ast.Node) bool {
				as, ok := n.(*ast.AssignStmt)
				if !ok || as.Tok != token.DEFINE && as.Tok != token.ASSIGN {
					return true
				}
				for i, l := range as.Lhs {
					id, ok := l.(*ast.Ident)
					if !ok || i >= len(as.Rhs) {
						continue
					}
					o := "other"
					switch r := as.Rhs[i].(type) {
					case *ast.CallExpr:
						if f, ok := r.Fun.(*ast.Ident); ok && (f.Name == "make" || f.Name == "append") {
							o = "fresh"
							if f.Name == "append" {
								// appending to itself keeps the origin
								if a0, ok := r.Args[0].(*ast.Ident); ok && a0.Name == id.Name {
									continue
								}
								o = "append"
							}
						}
					case *ast.CompositeLit:
						o = "fresh"
					}
					if _, seen := origin[id.Name]; !seen || o == "fresh" {
						origin[id.Name] = o
					}
				}
				return true
			})
			ast.Inspect(fd.Body, func(n ast.Node) bool {
				ce, ok := n.(*ast.CallExpr)
				if !ok {
					return true
				}
				sel, ok := ce.Fun.(*ast.SelectorExpr)
				if !ok {
					return true
				}
				pkgID, ok := sel.X.(*ast.Ident)
				if !ok || pkgID.Name != "sort" || len(ce.Args) == 0 {
					return true
				}
				arg := ce.Args[0]
				// unwrap conversions like ByErrorPosition(all)
				if c2, ok := arg.(*ast.CallExpr); ok && len(c2.Args) == 1 {
					arg = c2.Args[0]
				}
				text, org := "?", "other"
				switch a := arg.(type) {
				case *ast.Ident:
					text = a.Name
					if o, ok := origin[a.Name]; ok {
						org = o
					}
				case *ast.SelectorExpr:
					if x, ok := a.X.(*ast.Ident); ok {
						text = x.Name + "." + a.Sel.Name
					}
					org = "field"
				}
				recs = append(recs, rec{fname, fd.Name.Name, "sort." + sel.Sel.Name, text, org})
				return true
			})
		}
	}
	var b strings.Builder
	b.WriteString("namespace AL.Gen\n\n/-- every in-place sort in non-test files: (file, function, call, sorted expression, origin of that expression in the function) -/\ndef inPlaceSorts : List (String × String × String × String × String) := [\n")
	for i, r := range recs {
		sep := ","
		if i == len(recs)-1 {
			sep = ""
		}
		fmt.Fprintf(&b, "  (%s, %s, %s, %s, %s)%s\n", lstr(r.file), lstr(r.fn), lstr(r.call), lstr(r.arg), lstr(r.origin), sep)
	}
	b.WriteString("]\n\nend AL.Gen\n")
	g.facts["in_place_sorts"] = len(recs)
	return b.String(), nil
}

// genPanics: every explicit panic in non-test files; for a panic in the default branch of a switch, the
// case labels of that switch and the universe of values that can reach it (implementers of the switched
// interface / constants of the switched type).
func (g *generator) genPanics() (string, error) {
	p, err := loadPkg(g.repo)
	if err != nil {
		return "", err
	}
	type rec struct {
		file, fn, kind string
		cases, universe []string
	}
	var recs []rec
	names := make([]string, 0, len(p.files))
	for n := range p.files {
		names = append(names, n)
	}
	sort.Strings(names)
	isPanic := func(s ast.Stmt) bool {
		es, ok := s.(*ast.ExprStmt)
		if !ok {
			return false
		}
		ce, ok := es.X.(*ast.CallExpr)
		if !ok {
			return false
		}
		id, ok := ce.Fun.(*ast.Ident)
		return ok && id.Name == "panic"
	}
	implementers := func(iface *types.Interface) []string {
		var out []string
		scope := p.pkg.Scope()
		for _, n := range scope.Names() {
			tn, ok := scope.Lookup(n).(*types.TypeName)
			if !ok {
				continue
			}
			t := tn.Type()
			if _, isIface := t.Underlying().(*types.Interface); isIface {
				continue
			}
			if types.Implements(t, iface) {
				out = append(out, n)
			} else if types.Implements(types.NewPointer(t), iface) {
				out = append(out, "*"+n)
			}
		}
		sort.Strings(out)
		return out
	}
	constsOf := func(t types.Type) []string {
		var out []string
		scope := p.pkg.Scope()
		for _, n := range scope.Names() {
			c, ok := scope.Lookup(n).(*types.Const)
			if ok && types.Identical(c.Type(), t) {
				out = append(out, n)
			}
		}
		sort.Strings(out)
		return out
	}
	typeText := func(e ast.Expr) string {
		switch x := e.(type) {
		case *ast.Ident:
			return x.Name
		case *ast.StarExpr:
			if id, ok := x.X.(*ast.Ident); ok {
				return "*" + id.Name
			}
		case *ast.SelectorExpr:
			if id, ok := x.X.(*ast.Ident); ok {
				return id.Name + "." + x.Sel.Name
			}
		case *ast.ArrayType:
			return "[]any"
		case *ast.MapType:
			return "map"
		}
		return "?"
	}
	for _, fname := range names {
		for _, d := range p.files[fname].Decls {
			fd, ok := d.(*ast.FuncDecl)
			if !ok || fd.Body == nil {
				continue
			}
			covered := map[ast.Stmt]bool{}
			ast.Inspect(fd.Body, func(n ast.Node) bool {
				switch sw := n.(type) {
				case *ast.TypeSwitchStmt:
					var cases []string
					hasPanicDefault := false
					for _, st := range sw.Body.List {
						cc := st.(*ast.CaseClause)
						if cc.List == nil {
							for _, s := range cc.Body {
								if isPanic(s) {
									hasPanicDefault = true
									covered[s] = true
								}
							}
						}
						for _, e := range cc.List {
							cases = append(cases, typeText(e))
						}
					}
					if hasPanicDefault {
						// switched expression's static type
						var x ast.Expr
						switch a := sw.Assign.(type) {
						case *ast.AssignStmt:
							x = a.Rhs[0].(*ast.TypeAssertExpr).X
						case *ast.ExprStmt:
							x = a.X.(*ast.TypeAssertExpr).X
						}
						var uni []string
						if tv, ok := p.info.Types[x]; ok {
							if it, ok := tv.Type.Underlying().(*types.Interface); ok && it.NumMethods() > 0 {
								uni = implementers(it)
							} else {
								uni = []string{"<any: values produced by a third-party decoder>"}
							}
						}
						sort.Strings(cases)
						recs = append(recs, rec{fname, fd.Name.Name, "type-switch-default", cases, uni})
					}
				case *ast.SwitchStmt:
					var cases []string
					hasPanicDefault := false
					for _, st := range sw.Body.List {
						cc := st.(*ast.CaseClause)
						if cc.List == nil {
							for _, s := range cc.Body {
								if isPanic(s) {
									hasPanicDefault = true
									covered[s] = true
								}
							}
						}
						for _, e := range cc.List {
							cases = append(cases, typeText(e))
						}
					}
					if hasPanicDefault && sw.Tag != nil {
						var uni []string
						if tv, ok := p.info.Types[sw.Tag]; ok {
							if _, isNamed := tv.Type.(*types.Named); isNamed {
								uni = constsOf(tv.Type)
							}
						}
						sort.Strings(cases)
						recs = append(recs, rec{fname, fd.Name.Name, "switch-default", cases, uni})
					}
				}
				return true
			})
			// remaining panics
			ast.Inspect(fd.Body, func(n ast.Node) bool {
				if s, ok := n.(*ast.ExprStmt); ok && isPanic(s) && !covered[s] {
					recs = append(recs, rec{fname, fd.Name.Name, "other", nil, nil})
				}
				return true
			})
		}
	}
	var b strings.Builder
	b.WriteString("namespace AL.Gen\n\n/-- every explicit `panic(...)` in non-test files: (file, function, kind, case labels of the enclosing switch, universe of values that can reach the switch) -/\ndef panicSites : List (String × String × String × List String × List String) := [\n")
	for i, r := range recs {
		sep := ","
		if i == len(recs)-1 {
			sep = ""
		}
		fmt.Fprintf(&b, "  (%s, %s, %s, %s, %s)%s\n", lstr(r.file), lstr(r.fn), lstr(r.kind), lstrs(r.cases), lstrs(r.universe), sep)
	}
	b.WriteString("]\n\nend AL.Gen\n")
	g.facts["panic_sites"] = len(recs)
	return b.String(), nil
}
