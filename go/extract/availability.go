package main

import (
	"bufio"
	"fmt"
	"go/ast"
	"go/parser"
	"go/token"
	"os"
	"path/filepath"
	"sort"
	"strconv"
	"strings"

	"github.com/rhysd/actionlint"
)

// caseKeys collects every string literal used as a case label in func WorkflowKeyAvailability.
func caseKeys(repo string) ([]string, error) {
	fset := token.NewFileSet()
	f, err := parser.ParseFile(fset, filepath.Join(repo, "availability.go"), nil, 0)
	if err != nil {
		return nil, err
	}
	var keys []string
	ast.Inspect(f, func(n ast.Node) bool {
		fd, ok := n.(*ast.FuncDecl)
		if !ok || fd.Name.Name != "WorkflowKeyAvailability" {
			return true
		}
		ast.Inspect(fd, func(n ast.Node) bool {
			if cc, ok := n.(*ast.CaseClause); ok {
				for _, e := range cc.List {
					if bl, ok := e.(*ast.BasicLit); ok && bl.Kind == token.STRING {
						if s, err := strconv.Unquote(bl.Value); err == nil {
							keys = append(keys, s)
						}
					}
				}
			}
			return true
		})
		return false
	})
	sort.Strings(keys)
	return keys, nil
}

// docsTable reads GitHub's context-availability table from the copy vendored in the repository
// (scripts/generate-availability/testdata/ok.md): rows `| <code>key</code> | <code>ctx, ctx</code> | <code>fn</code> |`.
func docsTable(repo string) (map[string][2][]string, error) {
	f, err := os.Open(filepath.Join(repo, "scripts", "generate-availability", "testdata", "ok.md"))
	if err != nil {
		return nil, err
	}
	defer f.Close()
	strip := func(s string) []string {
		s = strings.NewReplacer("<code>", "", "</code>", "", "`", "").Replace(s)
		var out []string
		for _, p := range strings.Split(s, ",") {
			p = strings.ToLower(strings.TrimSpace(p))
			if p != "" && p != "none" {
				out = append(out, p)
			}
		}
		sort.Strings(out)
		return out
	}
	tbl := map[string][2][]string{}
	sc := bufio.NewScanner(f)
	sc.Buffer(make([]byte, 1<<20), 1<<24)
	inTable := false
	for sc.Scan() {
		line := strings.TrimSpace(sc.Text())
		if !strings.HasPrefix(line, "|") {
			if inTable {
				break // the availability table ended
			}
			continue
		}
		if !inTable {
			// the table starts with the header row `| Workflow key | Context | Special functions |`
			if strings.Contains(strings.ToLower(line), "workflow key") {
				inTable = true
			}
			continue
		}
		cells := strings.Split(strings.Trim(line, "|"), "|")
		if len(cells) != 3 {
			continue
		}
		key := strip(cells[0])
		if len(key) != 1 || strings.HasPrefix(key[0], "-") || key[0] == "workflow key" {
			continue
		}
		tbl[key[0]] = [2][]string{strip(cells[1]), strip(cells[2])}
	}
	return tbl, sc.Err()
}

func (g *generator) genAvailability() (string, error) {
	keys, err := caseKeys(g.repo)
	if err != nil {
		return "", err
	}
	var b strings.Builder
	b.WriteString("namespace AL.Gen\n\n")
	b.WriteString("/-- `WorkflowKeyAvailability(key)` for every key that appears as a case label: (key, contexts, special functions), sorted -/\ndef availabilityCode : List (String × List String × List String) := [\n")
	for i, k := range keys {
		ctx, sp := actionlint.WorkflowKeyAvailability(k)
		c := append([]string{}, ctx...)
		s := append([]string{}, sp...)
		sort.Strings(c)
		sort.Strings(s)
		sep := ","
		if i == len(keys)-1 {
			sep = ""
		}
		fmt.Fprintf(&b, "  (%s, %s, %s)%s\n", lstr(k), lstrs(c), lstrs(s), sep)
	}
	b.WriteString("]\n\n")
	ctxU, spU := actionlint.WorkflowKeyAvailability("no.such.key")
	fmt.Fprintf(&b, "/-- what an unknown key yields (both must be empty: nothing is allowed) -/\ndef availabilityUnknown : List String × List String := (%s, %s)\n\n", lstrs(ctxU), lstrs(spU))
	tbl, err := docsTable(g.repo)
	if err != nil {
		return "", err
	}
	dkeys := sortedKeys(tbl)
	b.WriteString("/-- GitHub's table as vendored in scripts/generate-availability/testdata/ok.md, sorted -/\ndef availabilityDocs : List (String × List String × List String) := [\n")
	for i, k := range dkeys {
		sep := ","
		if i == len(dkeys)-1 {
			sep = ""
		}
		fmt.Fprintf(&b, "  (%s, %s, %s)%s\n", lstr(k), lstrs(tbl[k][0]), lstrs(tbl[k][1]), sep)
	}
	b.WriteString("]\n\nend AL.Gen\n")
	g.facts["availability_keys_code"] = len(keys)
	g.facts["availability_keys_docs"] = len(dkeys)
	return b.String(), nil
}
