package main

import (
	"bytes"
	"fmt"
	"go/ast"
	"go/printer"
	"go/token"
	"go/types"
	"sort"
	"strconv"
	"strings"
)

// genMessages: how the Message of a diagnostic comes into being. Facts for AL/Props/C16Messages.lean:
//   - every composite literal of type Error in the package (file, enclosing function, the expression of its Message field),
//   - every other write to the Message field of an Error (assignment, op-assignment, address taken),
//   - the old/new pairs of lineBreakEscaper (the arguments of strings.NewReplacer in its declaration).
func (g *generator) genMessages() (string, error) {
	p, err := loadPkg(g.repo)
	if err != nil {
		return "", err
	}
	errObj := p.pkg.Scope().Lookup("Error")
	if errObj == nil {
		return "", fmt.Errorf("type Error not found")
	}
	errT := errObj.Type()
	isErr := func(t types.Type) bool {
		if t == nil {
			return false
		}
		if pt, ok := t.(*types.Pointer); ok {
			t = pt.Elem()
		}
		return types.Identical(t, errT)
	}
	render := func(e ast.Expr) string {
		var b bytes.Buffer
		printer.Fprint(&b, token.NewFileSet(), e)
		return strings.Join(strings.Fields(b.String()), " ")
	}
	names := make([]string, 0, len(p.files))
	for n := range p.files {
		names = append(names, n)
	}
	sort.Strings(names)
	type lit struct{ file, fn, msg string }
	var lits []lit
	var writes [][2]string
	var pairs [][2]string
	pairsFound := false
	for _, name := range names {
		f := p.files[name]
		for _, d := range f.Decls {
			if gd, ok := d.(*ast.GenDecl); ok && gd.Tok == token.VAR {
				for _, sp := range gd.Specs {
					vs := sp.(*ast.ValueSpec)
					for i, id := range vs.Names {
						if id.Name != "lineBreakEscaper" || i >= len(vs.Values) {
							continue
						}
						ce, ok := vs.Values[i].(*ast.CallExpr)
						if !ok || render(ce.Fun) != "strings.NewReplacer" || len(ce.Args)%2 != 0 {
							return "", fmt.Errorf("lineBreakEscaper is not strings.NewReplacer(old, new, …)")
						}
						pairsFound = true
						for k := 0; k+1 < len(ce.Args); k += 2 {
							var ab [2]string
							for j := 0; j < 2; j++ {
								bl, ok := ce.Args[k+j].(*ast.BasicLit)
								if !ok || bl.Kind != token.STRING {
									return "", fmt.Errorf("lineBreakEscaper: argument %d is not a string literal", k+j)
								}
								s, err := strconv.Unquote(bl.Value)
								if err != nil {
									return "", err
								}
								ab[j] = s
							}
							pairs = append(pairs, ab)
						}
					}
				}
			}
			fd, ok := d.(*ast.FuncDecl)
			if !ok || fd.Body == nil {
				continue
			}
			fn := fd.Name.Name
			if fd.Recv != nil && len(fd.Recv.List) > 0 {
				fn = render(fd.Recv.List[0].Type) + "." + fn
			}
			ast.Inspect(fd.Body, func(n ast.Node) bool {
				switch x := n.(type) {
				case *ast.CompositeLit:
					if tv, ok := p.info.Types[x]; ok && isErr(tv.Type) {
						msg := "<absent>"
						for i, el := range x.Elts {
							if kv, ok := el.(*ast.KeyValueExpr); ok {
								if render(kv.Key) == "Message" {
									msg = render(kv.Value)
								}
							} else if i == 0 {
								msg = "<positional> " + render(el)
							}
						}
						lits = append(lits, lit{name, fn, msg})
					}
				case *ast.AssignStmt:
					for _, l := range x.Lhs {
						if se, ok := l.(*ast.SelectorExpr); ok && se.Sel.Name == "Message" {
							if tv, ok := p.info.Types[se.X]; ok && isErr(tv.Type) {
								writes = append(writes, [2]string{name, fn})
							}
						}
					}
				case *ast.UnaryExpr:
					if x.Op == token.AND {
						if se, ok := x.X.(*ast.SelectorExpr); ok && se.Sel.Name == "Message" {
							if tv, ok := p.info.Types[se.X]; ok && isErr(tv.Type) {
								writes = append(writes, [2]string{name, fn})
							}
						}
					}
				case *ast.IncDecStmt:
				}
				return true
			})
		}
	}
	if !pairsFound {
		return "", fmt.Errorf("var lineBreakEscaper not found")
	}
	var b strings.Builder
	b.WriteString("namespace AL.Gen\n\n")
	b.WriteString("/-- every composite literal of type `Error` in the package (non-test files): file, enclosing function, the expression of\nits `Message` field -/\n")
	b.WriteString("def errorLiterals : List (String × String × String) := [\n")
	for i, l := range lits {
		sep := ","
		if i == len(lits)-1 {
			sep = ""
		}
		fmt.Fprintf(&b, "  (%s, %s, %s)%s\n", lstr(l.file), lstr(l.fn), lstr(l.msg), sep)
	}
	b.WriteString("]\n\n/-- every other write to the `Message` field of an `Error` (assignment, address taken): file, function -/\n")
	b.WriteString("def messageWrites : List (String × String) := [")
	for i, w := range writes {
		if i > 0 {
			b.WriteString(", ")
		}
		fmt.Fprintf(&b, "(%s, %s)", lstr(w[0]), lstr(w[1]))
	}
	b.WriteString("]\n\n/-- the old / new pairs of `lineBreakEscaper` (arguments of `strings.NewReplacer` in its declaration) -/\n")
	b.WriteString("def lineBreakEscaperPairs : List (String × String) := [")
	for i, ab := range pairs {
		if i > 0 {
			b.WriteString(", ")
		}
		fmt.Fprintf(&b, "(%s, %s)", lstr(ab[0]), lstr(ab[1]))
	}
	b.WriteString("]\n\nend AL.Gen\n")
	g.facts["messages"] = map[string]interface{}{"error_literals": len(lits), "message_writes": len(writes), "escaper_pairs": len(pairs)}
	return b.String(), nil
}
