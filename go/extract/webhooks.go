package main

import (
	"fmt"
	"strings"

	"github.com/rhysd/actionlint"
)

// genWebhooks: AllWebhookTypes (all_webhooks.go) as data: event name ↦ activity types, names sorted
func (g *generator) genWebhooks() (string, error) {
	var b strings.Builder
	b.WriteString("namespace AL.Gen\n\n/-- `AllWebhookTypes`: Webhook event ↦ its activity types (as listed in the source) -/\ndef webhookTypes : List (String × List String) := [\n")
	names := sortedKeys(actionlint.AllWebhookTypes)
	for i, n := range names {
		sep := ","
		if i == len(names)-1 {
			sep = ""
		}
		fmt.Fprintf(&b, "  (%s, %s)%s\n", lstr(n), lstrs(actionlint.AllWebhookTypes[n]), sep)
	}
	b.WriteString("]\n\nend AL.Gen\n")
	g.facts["webhook_events"] = len(names)
	return b.String(), nil
}
