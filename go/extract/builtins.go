package main

import (
	"fmt"
	"sort"
	"strings"

	"github.com/rhysd/actionlint"
)

func leanTy(t actionlint.ExprType) string {
	switch t := t.(type) {
	case actionlint.AnyType:
		return "Ty.any"
	case actionlint.NullType:
		return "Ty.null"
	case actionlint.NumberType:
		return "Ty.number"
	case actionlint.BoolType:
		return "Ty.bool"
	case actionlint.StringType:
		return "Ty.string"
	case *actionlint.ArrayType:
		d := "false"
		if t.Deref {
			d = "true"
		}
		return fmt.Sprintf("(Ty.arr %s %s)", leanTy(t.Elem), d)
	case *actionlint.ObjectType:
		ps := make([]string, 0, len(t.Props))
		for _, k := range sortedKeys(t.Props) {
			ps = append(ps, fmt.Sprintf("(%s, %s)", lstr(k), leanTy(t.Props[k])))
		}
		m := "none"
		if t.Mapped != nil {
			m = "(some " + leanTy(t.Mapped) + ")"
		}
		return fmt.Sprintf("(Ty.obj [%s] %s)", strings.Join(ps, ", "), m)
	}
	return "Ty.any /- unknown type -/"
}

func leanTrie(m *actionlint.UntrustedInputMap) string {
	cs := make([]string, 0, len(m.Children))
	for _, k := range sortedKeys(m.Children) {
		cs = append(cs, leanTrie(m.Children[k]))
	}
	return fmt.Sprintf("(Trie.node %s [%s])", lstr(m.Name), strings.Join(cs, ", "))
}

func countLeaves(m *actionlint.UntrustedInputMap) int {
	if len(m.Children) == 0 {
		return 1
	}
	n := 0
	for _, c := range m.Children {
		n += countLeaves(c)
	}
	return n
}

func (g *generator) genBuiltins() (string, error) {
	var b strings.Builder
	b.WriteString("import AL.Model.Insecure\nnamespace AL.Gen\nopen AL AL.Sema AL.Insecure\n\n")

	// BuiltinGlobalVariableTypes, one definition per context to keep elaboration cheap
	names := sortedKeys(actionlint.BuiltinGlobalVariableTypes)
	for _, n := range names {
		fmt.Fprintf(&b, "def var_%s : Ty := %s\n", n, leanTy(actionlint.BuiltinGlobalVariableTypes[n]))
	}
	b.WriteString("\n/-- `BuiltinGlobalVariableTypes`, sorted by name -/\ndef globalVars : List (String × Ty) := [")
	for i, n := range names {
		if i > 0 {
			b.WriteString(", ")
		}
		fmt.Fprintf(&b, "(%s, var_%s)", lstr(n), n)
	}
	b.WriteString("]\n\n")

	// BuiltinFuncSignatures
	fnames := sortedKeys(actionlint.BuiltinFuncSignatures)
	b.WriteString("/-- `BuiltinFuncSignatures`, sorted by (lower-case) key -/\ndef funcSigs : List (String × List Sig) := [\n")
	for i, n := range fnames {
		sigs := actionlint.BuiltinFuncSignatures[n]
		ss := make([]string, len(sigs))
		for j, s := range sigs {
			ps := make([]string, len(s.Params))
			for k, p := range s.Params {
				ps[k] = leanTy(p)
			}
			v := "false"
			if s.VariableLengthParams {
				v = "true"
			}
			ss[j] = fmt.Sprintf("{ name := %s, ret := %s, params := [%s], variadic := %s }", lstr(s.Name), leanTy(s.Ret), strings.Join(ps, ", "), v)
		}
		sep := ","
		if i == len(fnames)-1 {
			sep = ""
		}
		fmt.Fprintf(&b, "  (%s, [%s])%s\n", lstr(n), strings.Join(ss, ", "), sep)
	}
	b.WriteString("]\n\n")

	// BuiltinUntrustedInputs
	roots := sortedKeys(actionlint.BuiltinUntrustedInputs)
	rs := make([]string, len(roots))
	leaves := 0
	for i, r := range roots {
		rs[i] = leanTrie(actionlint.BuiltinUntrustedInputs[r])
		leaves += countLeaves(actionlint.BuiltinUntrustedInputs[r])
	}
	fmt.Fprintf(&b, "/-- `BuiltinUntrustedInputs` (children sorted by name) -/\ndef untrustedRoots : List Trie := [%s]\n\n", strings.Join(rs, ", "))
	g.facts["untrusted_leaves"] = leaves

	// SpecialFunctionNames
	sp := sortedKeys(actionlint.SpecialFunctionNames)
	b.WriteString("/-- `SpecialFunctionNames`: special function ↦ workflow keys where it is available -/\ndef specialFuncKeys : List (String × List String) := [\n")
	for i, n := range sp {
		ks := append([]string{}, actionlint.SpecialFunctionNames[n]...)
		sort.Strings(ks)
		sep := ","
		if i == len(sp)-1 {
			sep = ""
		}
		fmt.Fprintf(&b, "  (%s, %s)%s\n", lstr(n), lstrs(ks), sep)
	}
	b.WriteString("]\n\ndef specialFuncs : List String := specialFuncKeys.map (·.1)\n\nend AL.Gen\n")
	g.facts["global_vars"] = len(names)
	g.facts["func_names"] = len(fnames)
	return b.String(), nil
}
