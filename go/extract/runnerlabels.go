package main

import (
	"fmt"
	"go/ast"
	"go/constant"
	"sort"
	"strings"
)

// genRunnerLabels: the unexported tables of rule_runner_label.go, read from the source with go/types:
// `defaultRunnerOSCompats` (label ↦ bit set, the constant expressions evaluated by the type checker) and
// `selfHostedRunnerPresetOtherLabels`.
func (g *generator) genRunnerLabels() (string, error) {
	p, err := loadPkg(g.repo)
	if err != nil {
		return "", err
	}
	f := p.files["rule_runner_label.go"]
	if f == nil {
		return "", fmt.Errorf("rule_runner_label.go not found")
	}
	type kv struct {
		k string
		v uint64
	}
	var compats []kv
	var others []string
	found := map[string]bool{}
	for _, d := range f.Decls {
		gd, ok := d.(*ast.GenDecl)
		if !ok {
			continue
		}
		for _, sp := range gd.Specs {
			vs, ok := sp.(*ast.ValueSpec)
			if !ok || len(vs.Names) != 1 || len(vs.Values) != 1 {
				continue
			}
			cl, ok := vs.Values[0].(*ast.CompositeLit)
			if !ok {
				continue
			}
			switch vs.Names[0].Name {
			case "defaultRunnerOSCompats":
				found["compats"] = true
				for _, e := range cl.Elts {
					x, ok := e.(*ast.KeyValueExpr)
					if !ok {
						return "", fmt.Errorf("defaultRunnerOSCompats: unexpected element")
					}
					kt, vt := p.info.Types[x.Key], p.info.Types[x.Value]
					if kt.Value == nil || vt.Value == nil {
						return "", fmt.Errorf("defaultRunnerOSCompats: non-constant entry")
					}
					n, _ := constant.Uint64Val(vt.Value)
					compats = append(compats, kv{constant.StringVal(kt.Value), n})
				}
			case "selfHostedRunnerPresetOtherLabels":
				found["others"] = true
				for _, e := range cl.Elts {
					t := p.info.Types[e]
					if t.Value == nil {
						return "", fmt.Errorf("selfHostedRunnerPresetOtherLabels: non-constant entry")
					}
					others = append(others, constant.StringVal(t.Value))
				}
			}
		}
	}
	if !found["compats"] || !found["others"] {
		return "", fmt.Errorf("runner label tables not found in rule_runner_label.go")
	}
	sort.Slice(compats, func(i, j int) bool { return compats[i].k < compats[j].k })
	var b strings.Builder
	b.WriteString("namespace AL.Gen\n\n/-- `defaultRunnerOSCompats`: label ↦ set of compatible OS images (bit set) -/\ndef runnerCompats : List (String × Nat) := [\n")
	for i, c := range compats {
		sep := ","
		if i == len(compats)-1 {
			sep = ""
		}
		fmt.Fprintf(&b, "  (%s, %d)%s\n", lstr(c.k), c.v, sep)
	}
	b.WriteString("]\n\n/-- `selfHostedRunnerPresetOtherLabels` -/\ndef runnerOtherLabels : List String := " + lstrs(others) + "\n\nend AL.Gen\n")
	g.facts["runner_compat_labels"] = len(compats)
	return b.String(), nil
}
