package main

import (
	"bytes"
	"encoding/json"
	"fmt"
	"math/rand"
	"os"
	"path/filepath"
	"regexp"
	"sort"
	"strings"

	"github.com/bmatcuk/doublestar/v4"
	"github.com/rhysd/actionlint"
	"gopkg.in/yaml.v3"
)

func init() { props["C15"] = runC15 }

type jsonErr struct {
	Message  string `json:"message"`
	Filepath string `json:"filepath"`
	Line     int    `json:"line"`
	Column   int    `json:"column"`
	Kind     string `json:"kind"`
}

// runMain runs Command.Main in-process from directory dir.
func runMain(dir string, args ...string) (int, string, string, error) {
	old, err := os.Getwd()
	if err != nil {
		return 0, "", "", err
	}
	if err := os.Chdir(dir); err != nil {
		return 0, "", "", err
	}
	defer os.Chdir(old)
	var out, errb bytes.Buffer
	cmd := actionlint.Command{Stdin: strings.NewReader(""), Stdout: &out, Stderr: &errb}
	st := cmd.Main(append([]string{"actionlint"}, args...))
	return st, out.String(), errb.String(), nil
}

const c15Workflow = `on: push
jobs:
  test:
    runs-on: linux-latest
    steps:
      - run: echo ${{ unknown.ctx }}
      - run: echo ${{ github.evnt }}
        id: Foo Bar
      - uses: actions/checkout@v4
        with:
          no-such-input: 1
  test2:
    needs: nobody
    runs-on: ubuntu-latest
    steps:
      - run: echo ${{ matrix.foo }} ${{ 1 + }}
`

func writeProject(root string, cfg string, files map[string]string) error {
	if err := os.MkdirAll(filepath.Join(root, ".git"), 0o755); err != nil {
		return err
	}
	if err := os.MkdirAll(filepath.Join(root, ".github", "workflows", "nested"), 0o755); err != nil {
		return err
	}
	if cfg != "" {
		if err := os.WriteFile(filepath.Join(root, ".github", "actionlint.yaml"), []byte(cfg), 0o644); err != nil {
			return err
		}
	} else {
		os.Remove(filepath.Join(root, ".github", "actionlint.yaml"))
	}
	for name, src := range files {
		if err := os.WriteFile(filepath.Join(root, ".github", "workflows", name), []byte(src), 0o644); err != nil {
			return err
		}
	}
	return nil
}

func runC15(c *ctx, r *Report) error {
	rng := rand.New(rand.NewSource(c.seed))
	var b batch
	nSort, nRel := 3000, 4000
	if !c.quick {
		nSort, nRel = 60000, 80000
	}
	r.Rule = fmt.Sprintf("(1) %d random diagnostic lists (0–12 entries, few distinct positions so ties are frequent, random ignore masks): real filter + sort.Stable(ByErrorPosition) vs model; (2) %d random (cwd, root, spelling) triples over a small directory alphabet with ., .. and // components: display path, path handed to PathConfigs (verif hook) and Project.Knows vs model; (3) Command.Main run in a scratch repository from 4 working directories × 3 spellings × ignore-pattern sets on the CLI, in `paths` config (globs relative to the root) and both; stdout (JSON format) and exit status compared with the filter applied by the harness to the unfiltered run; plus flag errors (exit 2) and fatal errors (exit 3); non-trivial = distinct inputs with ≥ 2 diagnostics or a path outside cwd", nSort, nRel)
	r.Rule += "; (5) two repositories with different paths configurations in one invocation (2–3 files, 5 argument orders, 3 working directories): each file as when linted alone, exit status accordingly"

	// (1) filter + stable sort
	for i := 0; i < nSort; i++ {
		n := rng.Intn(13)
		files := []string{"a.yml", "b.yml", "a.yml", "a/b.yml"}
		var items []string
		var errs []*actionlint.Error
		for k := 0; k < n; k++ {
			f := files[0]
			if rng.Intn(4) == 0 {
				f = files[rng.Intn(len(files))]
			}
			line, col := 1+rng.Intn(3), 1+rng.Intn(3)
			ign := rng.Intn(3) == 0
			id := fmt.Sprintf("e%d", k)
			items = append(items, fmt.Sprintf("(%s,%d,%d,%s,%d)", hx(f), line, col, id, map[bool]int{false: 0, true: 1}[ign]))
			if !ign {
				errs = append(errs, &actionlint.Error{Message: id, Filepath: f, Line: line, Column: col})
			}
		}
		sort.Stable(actionlint.ByErrorPosition(errs))
		ids := make([]string, len(errs))
		for k, e := range errs {
			ids[k] = e.Message
		}
		line := "lintsort (" + strings.Join(items, ",") + ")"
		if n == 0 {
			line = "lintsort ()"
		}
		b.add(line, strings.Join(ids, ","), Case{Op: "lintsort", Input: map[string]string{"items": strings.Join(items, ",")}})
		r.Evaluations++
		if n >= 2 {
			r.nontrivial(line)
		}
	}

	// (2) lexical paths
	dirs := []string{"home", "u", "repo", "repo2", "sub", ".github", "workflows", "x"}
	randAbs := func(minLen int) string {
		n := minLen + rng.Intn(4)
		parts := make([]string, n)
		for i := range parts {
			parts[i] = dirs[rng.Intn(len(dirs))]
		}
		return "/" + strings.Join(parts, "/")
	}
	for i := 0; i < nRel; i++ {
		root := randAbs(1)
		var cwd string
		switch rng.Intn(4) {
		case 0:
			cwd = root
		case 1:
			cwd = filepath.Dir(root)
		case 2:
			cwd = root + "/" + dirs[rng.Intn(len(dirs))]
		default:
			cwd = randAbs(0)
		}
		// target: mostly inside root
		target := root + "/.github/workflows/a.yml"
		switch rng.Intn(6) {
		case 0:
			target = root + "2/.github/workflows/a.yml" // sibling sharing a prefix
		case 1:
			target = randAbs(1) + "/a.yml"
		case 2:
			target = root + "/" + dirs[rng.Intn(len(dirs))] + "/b.yml"
		}
		spelled := target
		switch rng.Intn(4) {
		case 0:
			if rel, err := filepath.Rel(cwd, target); err == nil {
				spelled = rel
			}
		case 1:
			if rel, err := filepath.Rel(cwd, target); err == nil {
				spelled = "./" + rel
			}
		case 2:
			if rel, err := filepath.Rel(cwd, target); err == nil {
				spelled = "x/../" + rel
				if rng.Intn(2) == 0 {
					spelled = strings.Replace(rel, "/", "//", 1)
				}
			}
		}
		disp := spelled
		if rel, err := filepath.Rel(cwd, spelled); err == nil {
			disp = rel
		}
		got := actionlint.VerifPathFromProjectRoot(cwd, disp, root)
		abs := spelled
		if !filepath.IsAbs(abs) {
			abs = filepath.Join(cwd, abs)
		}
		knows := 0
		if actionlint.VerifProjectKnows(root, abs) {
			knows = 1
		}
		impl := fmt.Sprintf("%s %s %d", hx(filepath.Clean(disp)), hx(got), knows)
		b.add(fmt.Sprintf("relpath %s %s %s", hx(cwd), hx(root), hx(spelled)), impl,
			Case{Op: "relpath", Input: map[string]string{"cwd": cwd, "root": root, "spelled": spelled}})
		r.Evaluations++
		if !strings.HasPrefix(abs, cwd) {
			r.nontrivial(cwd + "|" + spelled)
		}
		// oracle: for a file inside the repository the result is its root-relative path, independent of cwd
		cleanAbs := filepath.Clean(abs)
		if cleanAbs == root || strings.HasPrefix(cleanAbs, root+"/") {
			want, _ := filepath.Rel(root, cleanAbs)
			if got != want {
				r.finding("paths-not-root-relative", fmt.Sprintf("path handed to PathConfigs is %q, the root-relative path is %q", got, want),
					Case{Op: "relpath", Input: map[string]string{"cwd": cwd, "root": root, "spelled": spelled}})
			}
			if knows != 1 {
				r.finding("knows-misses-own-file", "Project.Knows is false for a file inside the project", Case{Op: "relpath", Input: map[string]string{"root": root, "path": abs}})
			}
		} else if knows == 1 {
			r.finding("knows-foreign-file", "Project.Knows is true for a file outside the project directory", Case{Op: "relpath", Input: map[string]string{"root": root, "path": abs}})
		}
	}

	// (3) end to end through Command.Main
	tmp, err := os.MkdirTemp("", "verif-c15-")
	if err != nil {
		return err
	}
	defer os.RemoveAll(tmp)
	tmp, _ = filepath.EvalSymlinks(tmp)
	root := filepath.Join(tmp, "home", "repo")
	other := filepath.Join(tmp, "elsewhere")
	os.MkdirAll(other, 0o755)
	os.MkdirAll(filepath.Join(root, "sub", "dir"), 0o755)
	// broken.yml is not well-formed YAML: its only diagnostic comes from the YAML layer, not from a rule
	files := map[string]string{"a.yml": c15Workflow, "nested/b.yml": c15Workflow, "c.yml": "on: push\njobs:\n  ok:\n    runs-on: ubuntu-latest\n    steps:\n      - run: echo ok\n",
		"broken.yml": "on: push\njobs:\n  test: [\n", "nested/half.yml": "on: push\njobs:\n  t:\n    steps: 1\n"}
	if err := writeProject(root, "", files); err != nil {
		return err
	}
	base := []string{"-no-color", "-shellcheck=", "-pyflakes=", "-format", "{{json .}}"}
	parse := func(out string) ([]jsonErr, error) {
		var es []jsonErr
		if strings.TrimSpace(out) == "" {
			return nil, nil
		}
		err := json.Unmarshal([]byte(out), &es)
		return es, err
	}
	key := func(es []jsonErr, stripFile bool) string {
		var sb strings.Builder
		for _, e := range es {
			f := e.Filepath
			if stripFile {
				f = filepath.Base(f)
			}
			fmt.Fprintf(&sb, "%s:%d:%d:%s[%s]\n", f, e.Line, e.Column, e.Message, e.Kind)
		}
		return sb.String()
	}
	absFiles := []string{filepath.Join(root, ".github", "workflows", "a.yml"), filepath.Join(root, ".github", "workflows", "nested", "b.yml"), filepath.Join(root, ".github", "workflows", "c.yml"),
		filepath.Join(root, ".github", "workflows", "broken.yml"), filepath.Join(root, ".github", "workflows", "nested", "half.yml")}
	// unfiltered reference (from the root)
	st0, out0, err0, err := runMain(root, append(append([]string{}, base...), absFiles...)...)
	if err != nil {
		return err
	}
	ref, perr := parse(out0)
	for i := range ref {
		if !filepath.IsAbs(ref[i].Filepath) {
			ref[i].Filepath = filepath.Join(root, ref[i].Filepath)
		}
	}
	if perr == nil && len(ref) >= 6 && st0 != 1 {
		// the property's last sentence on the plainest run there is: diagnostics were printed, the status says none remain
		r.finding("exit-status", fmt.Sprintf("the unfiltered run printed %d diagnostics and exited with status %d (1 expected)", len(ref), st0),
			Case{Op: "main", Input: map[string]string{"args": strings.Join(append(append([]string{}, base...), absFiles...), " ")}, Note: truncate(out0, 600)})
		return nil
	}
	if perr != nil || st0 != 1 || len(ref) < 6 {
		return fmt.Errorf("C15: reference run unusable: status %d, %d diags, %v %s", st0, len(ref), perr, err0)
	}
	patSets := [][]string{
		{},
		{`no-such-pattern-xyz`},
		{`undefined variable`},
		{`^property .* is not defined`, `label ".+" is unknown`},
		{`.`},
		{`needs job`, `invalid`, `"id"`, `input "no-such-input"`},
		{`could not parse as YAML`},
		{`YAML|section is missing|must be`},
	}
	cfgSets := []struct {
		glob string
		pats []string
	}{
		{"", nil},
		{".github/workflows/*.yml", []string{`undefined variable`}},
		{".github/workflows/**/*.yml", []string{`label ".+" is unknown`}},
		{".github/workflows/nested/*.yml", []string{`.`}},
		{"**/a.yml", []string{`property`, `needs job`}},
		{".github/workflows/broken.yml", []string{`could not parse`}},
	}
	cwds := []string{root, filepath.Dir(root), filepath.Join(root, "sub", "dir"), other}
	if c.quick {
		patSets = append(patSets[:4:4], patSets[6:]...)
	}
	for ci, cs := range cfgSets {
		cfg := ""
		if cs.glob != "" {
			cfg = fmt.Sprintf("paths:\n  '%s':\n    ignore:\n", cs.glob)
			for _, p := range cs.pats {
				cfg += "      - '" + p + "'\n"
			}
		}
		if err := writeProject(root, cfg, nil); err != nil {
			return err
		}
		for pi, pats := range patSets {
			if c.quick && ci > 0 && pi > 2 && pi != len(patSets)-1 {
				continue
			}
			// expected: reference minus matched
			var want []jsonErr
			for _, e := range ref {
				ign := false
				for _, p := range pats {
					if regexp.MustCompile(p).MatchString(e.Message) {
						ign = true
					}
				}
				if cs.glob != "" {
					relp, _ := filepath.Rel(root, e.Filepath)
					m := false
					switch cs.glob {
					case ".github/workflows/*.yml":
						m = filepath.Dir(relp) == ".github/workflows"
					case ".github/workflows/**/*.yml":
						m = strings.HasPrefix(relp, ".github/workflows/")
					case ".github/workflows/nested/*.yml":
						m = filepath.Dir(relp) == ".github/workflows/nested"
					case "**/a.yml":
						m = filepath.Base(relp) == "a.yml"
					case ".github/workflows/broken.yml":
						m = relp == ".github/workflows/broken.yml"
					}
					if m {
						for _, p := range cs.pats {
							if regexp.MustCompile(p).MatchString(e.Message) {
								ign = true
							}
						}
					}
				}
				if !ign {
					want = append(want, e)
				}
			}
			wantStatus := 0
			if len(want) > 0 {
				wantStatus = 1
			}
			for _, cwd := range cwds {
				for sp := 0; sp < 3; sp++ {
					args := append([]string{}, base...)
					for _, p := range pats {
						args = append(args, "-ignore", p)
					}
					for _, f := range absFiles {
						s := f
						if sp > 0 {
							rel, _ := filepath.Rel(cwd, f)
							s = rel
							if sp == 2 {
								s = "./" + rel
							}
						}
						args = append(args, s)
					}
					st, out, errOut, err := runMain(cwd, args...)
					if err != nil {
						return err
					}
					r.Evaluations++
					got, perr := parse(out)
					desc := map[string]string{"cwd": strings.TrimPrefix(cwd, tmp), "spelling": []string{"absolute", "relative", "./relative"}[sp], "ignore": strings.Join(pats, " | "), "config_glob": cs.glob, "config_ignore": strings.Join(cs.pats, " | ")}
					r.nontrivial(fmt.Sprint(desc))
					if perr != nil {
						r.finding("output-unparsable", "JSON output could not be parsed: "+perr.Error()+" "+errOut, Case{Op: "main", Input: desc})
						continue
					}
					// file paths are displayed relative to cwd
					pathsOK := true
					for i := range got {
						abs := got[i].Filepath
						if !filepath.IsAbs(abs) {
							abs = filepath.Join(cwd, abs)
						}
						got[i].Filepath = abs
					}
					_ = pathsOK
					if key(got, false) != key(want, false) {
						k := "filter-not-exact"
						if cs.glob != "" && cwd != root {
							k = "paths-config-depends-on-cwd"
						}
						r.finding(k, fmt.Sprintf("output differs from the unfiltered list minus the matched diagnostics: got %d diagnostics, want %d", len(got), len(want)), Case{Op: "main", Input: desc, Impl: key(got, true), Model: key(want, true)})
					}
					if st == 3 {
						desc["stderr"] = errOut
					}
					if st != wantStatus {
						r.finding("exit-status", fmt.Sprintf("exit status %d with %d remaining diagnostics (want %d)", st, len(got), wantStatus), Case{Op: "main", Input: desc})
					}
					r.hist(fmt.Sprintf("main:status%d", st))
				}
			}
		}
	}
	writeProject(root, "", nil)
	// two repositories in one invocation: a `paths` entry belongs to the repository that contains the file. Each file's
	// diagnostics in the joint run equal those of the file linted alone (same cwd), in both argument orders.
	{
		rootB := filepath.Join(tmp, "repoB")
		writeProject(root, "paths:\n  '.github/workflows/a.yml':\n    ignore:\n      - 'undefined variable'\n", nil)
		if err := writeProject(rootB, "paths:\n  '.github/workflows/b.yml':\n    ignore:\n      - 'is not defined'\n      - 'label'\n", map[string]string{"b.yml": c15Workflow, "nested/n.yml": c15Workflow}); err != nil {
			return err
		}
		fa, fb, fn := filepath.Join(root, ".github", "workflows", "a.yml"), filepath.Join(rootB, ".github", "workflows", "b.yml"), filepath.Join(rootB, ".github", "workflows", "nested", "n.yml")
		per := func(cwd string, files ...string) (map[string]string, int, error) {
			st, out, _, err := runMain(cwd, append(append([]string{}, base...), files...)...)
			if err != nil {
				return nil, 0, err
			}
			es, perr := parse(out)
			if perr != nil {
				return nil, st, perr
			}
			m := map[string]string{}
			for _, e := range es {
				abs := e.Filepath
				if !filepath.IsAbs(abs) {
					abs = filepath.Join(cwd, abs)
				}
				m[abs] += fmt.Sprintf("%d:%d:%s[%s]\n", e.Line, e.Column, e.Message, e.Kind)
			}
			return m, st, nil
		}
		for _, cwd := range []string{root, rootB, tmp} {
			alone := map[string]string{}
			for _, f := range []string{fa, fb, fn} {
				m, _, err := per(cwd, f)
				if err != nil {
					return err
				}
				alone[f] = m[f]
				r.Evaluations++
			}
			for _, order := range [][]string{{fa, fb}, {fb, fa}, {fa, fb, fn}, {fn, fa, fb}, {fb, fn, fa}} {
				m, st, err := per(cwd, order...)
				if err != nil {
					return err
				}
				r.Evaluations++
				var names []string
				for _, f := range order {
					names = append(names, strings.TrimPrefix(f, tmp+"/"))
				}
				desc := map[string]string{"cwd": strings.TrimPrefix(cwd, tmp), "files_in_order": strings.Join(names, " ")}
				r.nontrivial("two-repos:" + fmt.Sprint(desc))
				remaining := 0
				for _, f := range order {
					if m[f] != alone[f] {
						r.finding("paths-config-of-other-repository", fmt.Sprintf("diagnostics of %s in a run over two repositories differ from linting it alone (the `paths` configuration of the wrong repository was applied)", strings.TrimPrefix(f, tmp+"/")), Case{Op: "main", Input: desc, Impl: m[f], Model: alone[f]})
					}
					remaining += strings.Count(alone[f], "\n")
				}
				want := 0
				if remaining > 0 {
					want = 1
				}
				if st != want {
					r.finding("exit-status", fmt.Sprintf("exit status %d with %d remaining diagnostics expected (want %d)", st, remaining, want), Case{Op: "main", Input: desc})
				}
			}
		}
		os.RemoveAll(rootB)
	}
	writeProject(root, "", nil)
	// flag errors and fatal errors
	type sc struct {
		args []string
		want int
		what string
	}
	for _, s := range []sc{
		{[]string{"-no-such-flag"}, 2, "unknown flag"},
		{[]string{"-ignore"}, 2, "flag without value"},
		{[]string{"-ignore", "(", absFiles[0]}, 3, "invalid -ignore regexp"},
		{[]string{filepath.Join(root, "does-not-exist.yml")}, 3, "missing file"},
		{[]string{"-format", "{{", absFiles[0]}, 3, "invalid format template"},
		{[]string{"-config-file", filepath.Join(root, "nope.yaml"), absFiles[0]}, 3, "missing config file"},
		{[]string{"-shellcheck=", "-pyflakes=", absFiles[2]}, 0, "clean file"},
		{[]string{"-shellcheck=", "-pyflakes=", absFiles[0]}, 1, "file with diagnostics"},
		{[]string{"-version"}, 0, "version"},
	} {
		st, _, _, err := runMain(root, s.args...)
		if err != nil {
			return err
		}
		r.Evaluations++
		r.hist(fmt.Sprintf("main:status%d", st))
		if st != s.want {
			r.finding("exit-status", fmt.Sprintf("%s: exit status %d, want %d", s.what, st, s.want), Case{Op: "main", Input: map[string]string{"args": strings.Join(s.args, " ")}})
		}
	}
	// broken config → fatal
	writeProject(root, "paths:\n  '[':\n    ignore: []\n", nil)
	if st, _, _, _ := runMain(root, "-shellcheck=", "-pyflakes=", absFiles[2]); st != 3 {
		r.finding("exit-status", fmt.Sprintf("invalid glob in paths config: exit status %d, want 3", st), Case{Op: "main", Input: map[string]string{"config": "paths: {'[': {ignore: []}}"}})
	}
	writeProject(root, "", nil)
	r.sample(map[string]interface{}{"op": "main", "cwd": "/home/repo/sub/dir", "spelling": "relative", "config_glob": ".github/workflows/*.yml", "reference_diagnostics": len(ref)})
	r.sample(map[string]string{"op": "relpath", "cwd": "/home/u/repo/sub", "root": "/home/u/repo", "spelled": "../.github/workflows/a.yml", "impl": actionlint.VerifPathFromProjectRoot("/home/u/repo/sub", "../.github/workflows/a.yml", "/home/u/repo")})
	// (6) the concrete ignore decision (AL.Ignore.lintTailOpt, op `ignoretail`; AL.C15D): scratch repositories with a generated
	// actionlint.yaml (0–3 `paths:` entries, globs that match / do not match the file, 0–2 `ignore:` patterns each; sometimes no
	// configuration at all) and 0–2 -ignore patterns; the file's raw diagnostics (no configuration, no -ignore) and the ones the
	// real Linter keeps with them; regexp and doublestar answer for the two match tables
	nIgn := 150
	if !c.quick {
		nIgn = 5000
	}
	if err := c15IgnoreTie(c, r, &b, rng, nIgn); err != nil {
		return err
	}
	if _, err = b.flush(c, r); err != nil {
		return err
	}
	// the configuration file itself: config.go ParseConfig (decoding incl. nil vs empty config-variables, null elements and
	// null keys that yaml.v3 drops, IgnorePatterns, the glob keys validated in sorted order) against AL.ConfigDecode
	nC := 1500
	if !c.quick {
		nC = 60000
	}
	if err := cfStandard(c, r, nC); err != nil {
		return err
	}
	r.Rule += fmt.Sprintf("; %d generated actionlint.yaml files parsed by the real ParseConfig and by the Lean model AL.ConfigDecode (op configmeta; regexp.Compile and doublestar.ValidatePattern answer for the model)", nC)
	return nil
}


const c15IgnoreWorkflow = `on: push
jobs:
  a:
    runs-on: nosuch-label
    steps:
      - run: echo ${{ github.nosuch }}
      - run: echo ${{ matrix.x }}
      - uses: actions/checkout@v4
        with:
          nosuchinput: 1
  b:
    needs: [zz]
    runs-on: ubuntu-latest
    steps:
      - run: echo ${{ github.nosuch }}
        id: 1bad
`

func c15IgnoreTie(c *ctx, r *Report, b *batch, rng *rand.Rand, n int) error {
	root, err := os.MkdirTemp("", "verif-c15-ignore-")
	if err != nil {
		return err
	}
	defer os.RemoveAll(root)
	root, _ = filepath.EvalSymlinks(root)
	rel := ".github/workflows/a.yml"
	file := filepath.Join(root, filepath.FromSlash(rel))
	lintWith := func(cfg string, cli []string) ([]*actionlint.Error, error) {
		if err := writeProject(root, cfg, map[string]string{"a.yml": c15IgnoreWorkflow}); err != nil {
			return nil, err
		}
		l, err := actionlint.NewLinter(nopWriter{}, &actionlint.LinterOptions{Shellcheck: "", Pyflakes: "", IgnorePatterns: cli})
		if err != nil {
			return nil, err
		}
		return l.LintFile(file, nil)
	}
	raw, err := lintWith("", nil)
	if err != nil {
		return err
	}
	if len(raw) < 5 {
		r.finding("ignore-workload-quiet", fmt.Sprintf("the workflow of the ignore tie yields only %d diagnostics", len(raw)), Case{Op: "ignoretail"})
	}
	globs := []string{".github/workflows/*.yml", "**/a.yml", ".github/**", "other/**", "*.yml", ".github/workflows/a.yml", "**", ".github/workflows/b*.yml", "{a,.github}/**/*.yml"}
	pats := []string{"undefined", "not defined", ".*", "^label", "job", "x{2}", "\\bid\\b", "input \"nosuchinput\"", "NOSUCH", "(?i)NOSUCH", "$^", "", "property|label"}
	lst := func(xs []string) string {
		if len(xs) == 0 {
			return "E"
		}
		return "(" + strings.Join(xs, ",") + ")"
	}
	for i := 0; i < n; i++ {
		var cli []string
		for k, m := 0, rng.Intn(3); k < m; k++ {
			cli = append(cli, pats[rng.Intn(len(pats))])
		}
		cfg := ""
		type entry struct {
			glob string
			pats []string
		}
		var entries []entry
		if rng.Intn(5) > 0 {
			var sb strings.Builder
			sb.WriteString("paths:\n")
			used := map[string]bool{}
			for k, m := 0, rng.Intn(4); k < m; k++ {
				g := globs[rng.Intn(len(globs))]
				if used[g] {
					continue
				}
				used[g] = true
				e := entry{glob: g}
				fmt.Fprintf(&sb, "  %q:\n    ignore:", g)
				m2 := rng.Intn(3)
				if m2 == 0 {
					sb.WriteString(" []\n")
				} else {
					sb.WriteString("\n")
				}
				for j := 0; j < m2; j++ {
					p := pats[rng.Intn(len(pats))]
					e.pats = append(e.pats, p)
					fmt.Fprintf(&sb, "      - %q\n", p)
				}
				entries = append(entries, e)
			}
			if len(entries) == 0 {
				sb.Reset()
				sb.WriteString("self-hosted-runner:\n  labels: []\n")
			}
			cfg = sb.String()
		}
		kept, err := lintWith(cfg, cli)
		r.Evaluations++
		cs := Case{Op: "ignoretail", Input: map[string]string{"config": cfg, "ignore": strings.Join(cli, " | ")}}
		if err != nil {
			cs.Note = err.Error()
			r.finding("ignore-run-error", "the linter fails with a well-formed configuration and valid -ignore patterns: "+err.Error(), cs)
			continue
		}
		var implParts []string
		for _, e := range kept {
			implParts = append(implParts, fmt.Sprintf("%d:%d:%s", e.Line, e.Column, hx(e.Message)))
		}
		impl := "none"
		if len(implParts) > 0 {
			impl = strings.Join(implParts, ",")
		}
		// the match tables, by the real engines
		allPats := map[string]bool{}
		for _, p := range cli {
			allPats[p] = true
		}
		var glt []string
		for _, e := range entries {
			for _, p := range e.pats {
				allPats[p] = true
			}
			if ok := doublestarMatch(e.glob, rel); ok {
				glt = append(glt, hx(e.glob))
			}
		}
		var ret []string
		for p := range allPats {
			re, err := regexp.Compile(p)
			if err != nil {
				continue
			}
			for _, e := range raw {
				if re.MatchString(e.Message) {
					ret = append(ret, "("+hx(p)+","+hx(e.Message)+")")
				}
			}
		}
		sort.Strings(ret)
		sort.Strings(glt)
		var rawParts []string
		for _, e := range raw {
			rawParts = append(rawParts, fmt.Sprintf("(%d,%d,%s)", e.Line, e.Column, hx(e.Message)))
		}
		node := "N"
		if cfg != "" {
			var rootNode yaml.Node
			if err := yaml.Unmarshal([]byte(cfg), &rootNode); err != nil {
				continue
			}
			node = nodeSexp(&rootNode, map[string]bool{})
		}
		var hcli []string
		for _, p := range cli {
			hcli = append(hcli, hx(p))
		}
		b.add(fmt.Sprintf("ignoretail %s E E %s %s %s %s %s %s", lst(hcli), node, hx(rel), hx(rel), lst(rawParts), lst(ret), lst(glt)), impl, cs)
		r.nontrivial("ignore:" + cfg + "|" + strings.Join(cli, "|"))
		r.hist(fmt.Sprintf("ignoretail:kept=%d/%d,entries=%d,cli=%d", len(kept), len(raw), len(entries), len(cli)))
		// the property itself on the implementation: kept = raw minus the diagnostics some applicable pattern matches, in order
		var want []string
		for _, e := range raw {
			drop := false
			for _, p := range cli {
				if regexp.MustCompile(p).MatchString(e.Message) {
					drop = true
				}
			}
			for _, en := range entries {
				if doublestarMatch(en.glob, rel) {
					for _, p := range en.pats {
						if regexp.MustCompile(p).MatchString(e.Message) {
							drop = true
						}
					}
				}
			}
			if !drop {
				want = append(want, fmt.Sprintf("%d:%d:%s", e.Line, e.Column, hx(e.Message)))
			}
		}
		w := "none"
		if len(want) > 0 {
			w = strings.Join(want, ",")
		}
		if w != impl {
			r.finding("filter-not-exact", "the kept diagnostics are not the raw ones minus those an applicable pattern matches", cs)
		}
	}
	return nil
}

// doublestarMatch: `doublestar.MatchUnvalidated`, as Config.PathConfigs calls it
func doublestarMatch(glob, path string) bool { return doublestar.MatchUnvalidated(glob, path) }
