package main

import (
	"fmt"
	"math/rand"
	"regexp"
	"sort"
	"strconv"
	"strings"

	"github.com/rhysd/actionlint"
)

func init() { props["C19"] = runC19 }

// ---- generator-side abstract matrix

type gval struct {
	kind  int // 0 string, 1 array, 2 object
	s     string
	elems []*gval
	keys  []string
	vals  []*gval
}

type gassign struct {
	key string
	val *gval
}
type gcombo struct {
	expr    bool
	assigns []gassign
}
type grow struct {
	key  string
	expr bool
	vals []*gval
}
type gmatrix struct {
	rows             []grow
	incExpr, excExpr bool
	hasInc, hasExc   bool
	inc, exc         []gcombo
}

func yamlScalar(s string) string {
	return "'" + strings.ReplaceAll(s, "'", "''") + "'"
}

func (v *gval) yaml() string {
	switch v.kind {
	case 0:
		return yamlScalar(v.s)
	case 1:
		parts := make([]string, len(v.elems))
		for i, e := range v.elems {
			parts[i] = e.yaml()
		}
		return "[" + strings.Join(parts, ", ") + "]"
	default:
		parts := make([]string, len(v.keys))
		for i, k := range v.keys {
			parts[i] = k + ": " + v.vals[i].yaml()
		}
		return "{" + strings.Join(parts, ", ") + "}"
	}
}

func (m *gmatrix) yaml() string {
	var b strings.Builder
	b.WriteString("on: push\njobs:\n  j:\n    runs-on: ubuntu-latest\n    strategy:\n      matrix:\n")
	for _, r := range m.rows {
		if r.expr {
			fmt.Fprintf(&b, "        %s: ${{ fromJSON(env.X) }}\n", r.key)
			continue
		}
		fmt.Fprintf(&b, "        %s:\n", r.key)
		for _, v := range r.vals {
			fmt.Fprintf(&b, "          - %s\n", v.yaml())
		}
		if len(r.vals) == 0 {
			// empty sequence
			b.Reset()
			return ""
		}
	}
	sec := func(name string, has, expr bool, cs []gcombo) {
		if !has {
			return
		}
		if expr {
			fmt.Fprintf(&b, "        %s: ${{ fromJSON(env.Y) }}\n", name)
			return
		}
		fmt.Fprintf(&b, "        %s:\n", name)
		for _, c := range cs {
			if c.expr {
				b.WriteString("          - ${{ fromJSON(env.Z) }}\n")
				continue
			}
			parts := make([]string, len(c.assigns))
			for i, a := range c.assigns {
				parts[i] = a.key + ": " + a.val.yaml()
			}
			fmt.Fprintf(&b, "          - {%s}\n", strings.Join(parts, ", "))
		}
	}
	sec("include", m.hasInc, m.incExpr, m.inc)
	sec("exclude", m.hasExc, m.excExpr, m.exc)
	b.WriteString("    steps:\n      - run: echo\n")
	return b.String()
}

var c19Strs = []string{"a", "b", "1", "a", "b", "${{ env.V }}", "x${{ env.V }}y", "}} ${{ env.V }}", "A"}
var c19Keys = []string{"k", "m", "n", "K"}

func genVal(rng *rand.Rand, depth int) *gval {
	k := rng.Intn(10)
	if depth == 0 || k < 5 {
		return &gval{kind: 0, s: c19Strs[rng.Intn(len(c19Strs))]}
	}
	if k < 7 {
		n := 1 + rng.Intn(3)
		v := &gval{kind: 1}
		for i := 0; i < n; i++ {
			v.elems = append(v.elems, genVal(rng, depth-1))
		}
		return v
	}
	v := &gval{kind: 2}
	used := map[string]bool{}
	n := 1 + rng.Intn(3)
	for i := 0; i < n; i++ {
		key := c19Keys[rng.Intn(len(c19Keys))]
		if used[strings.ToLower(key)] {
			continue
		}
		used[strings.ToLower(key)] = true
		v.keys = append(v.keys, key)
		v.vals = append(v.vals, genVal(rng, depth-1))
	}
	return v
}

func cloneVal(v *gval) *gval {
	c := &gval{kind: v.kind, s: v.s, keys: append([]string{}, v.keys...)}
	for _, e := range v.elems {
		c.elems = append(c.elems, cloneVal(e))
	}
	for _, e := range v.vals {
		c.vals = append(c.vals, cloneVal(e))
	}
	return c
}

// subsetOf derives a filter that should match v (drop members of mappings at random).
func subsetOf(rng *rand.Rand, v *gval) *gval {
	c := cloneVal(v)
	if c.kind == 2 && len(c.keys) > 1 {
		i := rng.Intn(len(c.keys))
		c.keys = append(c.keys[:i], c.keys[i+1:]...)
		c.vals = append(c.vals[:i], c.vals[i+1:]...)
	}
	for i := range c.vals {
		if rng.Intn(2) == 0 {
			c.vals[i] = subsetOf(rng, c.vals[i])
		}
	}
	return c
}

var c19RowKeys = []string{"os", "ver", "node", "OS"}

func genMatrix(rng *rand.Rand) *gmatrix {
	m := &gmatrix{}
	used := map[string]bool{}
	nr := rng.Intn(4)
	for i := 0; i < nr; i++ {
		key := c19RowKeys[rng.Intn(len(c19RowKeys))]
		if used[strings.ToLower(key)] {
			continue
		}
		used[strings.ToLower(key)] = true
		r := grow{key: key}
		if rng.Intn(8) == 0 {
			r.expr = true
		} else {
			n := 1 + rng.Intn(4)
			for k := 0; k < n; k++ {
				if k > 0 && rng.Intn(3) == 0 {
					r.vals = append(r.vals, cloneVal(r.vals[rng.Intn(len(r.vals))])) // deliberate duplicate
				} else {
					r.vals = append(r.vals, genVal(rng, 3))
				}
			}
		}
		m.rows = append(m.rows, r)
	}
	pickKey := func() string {
		if len(m.rows) > 0 && rng.Intn(4) != 0 {
			k := m.rows[rng.Intn(len(m.rows))].key
			if rng.Intn(4) == 0 {
				k = strings.ToUpper(k)
			}
			return k
		}
		return []string{"extra", "os", "zz", "ver"}[rng.Intn(4)]
	}
	candidate := func(key string) *gval {
		for _, r := range m.rows {
			if strings.EqualFold(r.key, key) && len(r.vals) > 0 && rng.Intn(3) != 0 {
				return subsetOf(rng, r.vals[rng.Intn(len(r.vals))])
			}
		}
		for _, c := range m.inc {
			for _, a := range c.assigns {
				if strings.EqualFold(a.key, key) && rng.Intn(2) == 0 {
					return subsetOf(rng, a.val)
				}
			}
		}
		return genVal(rng, 2)
	}
	genCombos := func(forExclude bool) []gcombo {
		n := 1 + rng.Intn(3)
		var cs []gcombo
		for i := 0; i < n; i++ {
			if rng.Intn(12) == 0 {
				cs = append(cs, gcombo{expr: true})
				continue
			}
			c := gcombo{}
			usedK := map[string]bool{}
			na := 1 + rng.Intn(2)
			for k := 0; k < na; k++ {
				key := pickKey()
				if usedK[strings.ToLower(key)] {
					continue
				}
				usedK[strings.ToLower(key)] = true
				var v *gval
				if forExclude {
					v = candidate(key)
				} else {
					v = genVal(rng, 2)
				}
				c.assigns = append(c.assigns, gassign{key, v})
			}
			cs = append(cs, c)
		}
		return cs
	}
	if rng.Intn(2) == 0 {
		m.hasInc = true
		if rng.Intn(10) == 0 {
			m.incExpr = true
		} else {
			m.inc = genCombos(false)
		}
	}
	if rng.Intn(4) != 0 {
		m.hasExc = true
		if rng.Intn(12) == 0 {
			m.excExpr = true
		} else {
			m.exc = genCombos(true)
		}
	}
	return m
}

func permuteVal(rng *rand.Rand, v *gval) *gval {
	c := &gval{kind: v.kind, s: v.s}
	for _, e := range v.elems {
		c.elems = append(c.elems, permuteVal(rng, e))
	}
	idx := rng.Perm(len(v.keys))
	for _, i := range idx {
		c.keys = append(c.keys, v.keys[i])
		c.vals = append(c.vals, permuteVal(rng, v.vals[i]))
	}
	return c
}

// permuteMatrix reorders row keys, row values, mapping members, entries and entry members.
func permuteMatrix(rng *rand.Rand, m *gmatrix) *gmatrix {
	p := &gmatrix{incExpr: m.incExpr, excExpr: m.excExpr, hasInc: m.hasInc, hasExc: m.hasExc}
	for _, i := range rng.Perm(len(m.rows)) {
		r := m.rows[i]
		nr := grow{key: r.key, expr: r.expr}
		for _, j := range rng.Perm(len(r.vals)) {
			nr.vals = append(nr.vals, permuteVal(rng, r.vals[j]))
		}
		p.rows = append(p.rows, nr)
	}
	pc := func(cs []gcombo) []gcombo {
		var out []gcombo
		for _, i := range rng.Perm(len(cs)) {
			c := cs[i]
			nc := gcombo{expr: c.expr}
			for _, j := range rng.Perm(len(c.assigns)) {
				nc.assigns = append(nc.assigns, gassign{c.assigns[j].key, permuteVal(rng, c.assigns[j].val)})
			}
			out = append(out, nc)
		}
		return out
	}
	p.inc, p.exc = pc(m.inc), pc(m.exc)
	return p
}

// ---- AST -> protocol

func encRaw(v actionlint.RawYAMLValue) string {
	switch v := v.(type) {
	case *actionlint.RawYAMLString:
		return fmt.Sprintf("(s,%s,%d,%d)", hx(v.Value), v.Pos().Line, v.Pos().Col)
	case *actionlint.RawYAMLArray:
		parts := make([]string, len(v.Elems))
		for i, e := range v.Elems {
			parts[i] = encRaw(e)
		}
		return fmt.Sprintf("(a,%d,%d,(%s))", v.Pos().Line, v.Pos().Col, strings.Join(parts, ","))
	case *actionlint.RawYAMLObject:
		keys := make([]string, 0, len(v.Props))
		for k := range v.Props {
			keys = append(keys, k)
		}
		sort.Strings(keys)
		parts := make([]string, len(keys))
		for i, k := range keys {
			parts[i] = fmt.Sprintf("(%s,%s)", hx(k), encRaw(v.Props[k]))
		}
		return fmt.Sprintf("(o,%d,%d,(%s))", v.Pos().Line, v.Pos().Col, strings.Join(parts, ","))
	}
	return "?"
}

func encCombos(cs *actionlint.MatrixCombinations) string {
	if cs == nil {
		return "N"
	}
	if cs.Expression != nil {
		return "E"
	}
	parts := make([]string, len(cs.Combinations))
	for i, c := range cs.Combinations {
		if c.Expression != nil {
			parts[i] = "E"
			continue
		}
		keys := make([]string, 0, len(c.Assigns))
		for k := range c.Assigns {
			keys = append(keys, k)
		}
		sort.Strings(keys)
		as := make([]string, len(keys))
		for j, k := range keys {
			a := c.Assigns[k]
			as[j] = fmt.Sprintf("(%s,%d,%d,%s)", hx(k), a.Key.Pos.Line, a.Key.Pos.Col, encRaw(a.Value))
		}
		parts[i] = "(" + strings.Join(as, ",") + ")"
	}
	return "(C,(" + strings.Join(parts, ",") + "))"
}

func encMatrix(m *actionlint.Matrix) string {
	keys := make([]string, 0, len(m.Rows))
	for k := range m.Rows {
		keys = append(keys, k)
	}
	sort.Strings(keys)
	rows := make([]string, len(keys))
	for i, k := range keys {
		r := m.Rows[k]
		if r.Expression != nil || r.Values == nil {
			rows[i] = fmt.Sprintf("(%s,E)", hx(k))
			continue
		}
		vs := make([]string, len(r.Values))
		for j, v := range r.Values {
			vs[j] = encRaw(v)
		}
		rows[i] = fmt.Sprintf("(%s,V,(%s))", hx(k), strings.Join(vs, ","))
	}
	return fmt.Sprintf("(%d,%d,(%s),%s,%s)", m.Pos.Line, m.Pos.Col, strings.Join(rows, ","), encCombos(m.Include), encCombos(m.Exclude))
}

var (
	reMxDup   = regexp.MustCompile(`(?s)^duplicate value .* is found in matrix ("(?:[^"\\]|\\.)*")\. the same value is at line:(\d+),col:(\d+)$`)
	reMxNoVar = regexp.MustCompile(`^"exclude" section exists but no matrix variation exists$`)
	reMxKey   = regexp.MustCompile(`(?s)^("(?:[^"\\]|\\.)*") in "exclude" section does not exist in matrix\. available matrix configurations are (.*)$`)
	reMxVal   = regexp.MustCompile(`(?s)^value .* in "exclude" does not match in matrix ("(?:[^"\\]|\\.)*") combinations\. possible values are .*$`)
	reQuoted  = regexp.MustCompile(`"(?:[^"\\]|\\.)*"`)
)

func canonMatrix(errs []*actionlint.Error) (string, []string, bool) {
	var out, kinds []string
	ok := true
	for _, e := range errs {
		m := e.Message
		if x := reMxDup.FindStringSubmatch(m); x != nil {
			out = append(out, fmt.Sprintf("dup,%d,%d,%s,%s,%s", e.Line, e.Column, hx(strings.ToLower(unq(x[1]))), x[2], x[3]))
			kinds = append(kinds, "dup:"+strings.ToLower(unq(x[1])))
		} else if reMxNoVar.MatchString(m) {
			out = append(out, fmt.Sprintf("novar,%d,%d", e.Line, e.Column))
			kinds = append(kinds, "novar")
		} else if x := reMxKey.FindStringSubmatch(m); x != nil {
			var av []string
			for _, q := range reQuoted.FindAllString(x[2], -1) {
				av = append(av, hx(unq(q)))
			}
			sort.Strings(av)
			out = append(out, fmt.Sprintf("exkey,%d,%d,%s,%s", e.Line, e.Column, hx(unq(x[1])), strings.Join(av, "/")))
			kinds = append(kinds, "exkey:"+unq(x[1]))
		} else if x := reMxVal.FindStringSubmatch(m); x != nil {
			out = append(out, fmt.Sprintf("exval,%d,%d,%s", e.Line, e.Column, hx(unq(x[1]))))
			kinds = append(kinds, "exval:"+unq(x[1]))
		} else {
			out = append(out, "unclassified:"+m)
			ok = false
		}
	}
	sort.Strings(out)
	sort.Strings(kinds)
	if len(out) == 0 {
		return "ok", kinds, ok
	}
	return strings.Join(out, "|"), kinds, ok
}

// ---- reference semantics (written from the property text, independent of rule_matrix.go)

var reExprRef = regexp.MustCompile(`(?s)\$\{\{.*\}\}`)

func refIsExpr(s string) bool { return reExprRef.MatchString(s) }

func refEq(a, b *gval) bool {
	if a.kind != b.kind {
		return false
	}
	switch a.kind {
	case 0:
		return a.s == b.s
	case 1:
		if len(a.elems) != len(b.elems) {
			return false
		}
		for i := range a.elems {
			if !refEq(a.elems[i], b.elems[i]) {
				return false
			}
		}
		return true
	}
	if len(a.keys) != len(b.keys) {
		return false
	}
	for i, k := range a.keys {
		found := false
		for j, k2 := range b.keys {
			if strings.EqualFold(k, k2) {
				found = refEq(a.vals[i], b.vals[j])
			}
		}
		if !found {
			return false
		}
	}
	return true
}

func refSubset(v, f *gval) bool {
	if f.kind == 0 && refIsExpr(f.s) {
		return true
	}
	if v.kind == 0 && refIsExpr(v.s) {
		return true
	}
	if v.kind != f.kind {
		return false
	}
	switch v.kind {
	case 0:
		return v.s == f.s
	case 1:
		if len(v.elems) != len(f.elems) {
			return false
		}
		for i := range v.elems {
			if !refSubset(v.elems[i], f.elems[i]) {
				return false
			}
		}
		return true
	}
	for i, k := range f.keys {
		found := false
		for j, k2 := range v.keys {
			if strings.EqualFold(k, k2) {
				found = refSubset(v.vals[j], f.vals[i])
			}
		}
		if !found {
			return false
		}
	}
	return true
}

// refKinds computes the expected verdict kinds of a generated matrix.
func refKinds(m *gmatrix) []string {
	var kinds []string
	for _, r := range m.rows {
		if r.expr {
			continue
		}
		for i, v := range r.vals {
			for j := 0; j < i; j++ {
				if refEq(r.vals[j], v) {
					kinds = append(kinds, "dup:"+strings.ToLower(r.key))
					break
				}
			}
		}
	}
	if m.hasExc && !m.excExpr && len(m.exc) > 0 {
		incHasExpr := m.hasInc && m.incExpr
		for _, c := range m.inc {
			if c.expr {
				incHasExpr = true
			}
		}
		if !incHasExpr {
			if len(m.rows) == 0 && (!m.hasInc || len(m.inc) == 0) {
				kinds = append(kinds, "novar")
			} else {
				cands := map[string][]*gval{}
				exprRow := map[string]bool{}
				defined := map[string]bool{}
				for _, r := range m.rows {
					k := strings.ToLower(r.key)
					if r.expr {
						exprRow[k] = true
						continue
					}
					defined[k] = true
					cands[k] = append(cands[k], r.vals...)
				}
				for _, c := range m.inc {
					for _, a := range c.assigns {
						k := strings.ToLower(a.key)
						if exprRow[k] {
							continue
						}
						defined[k] = true
						cands[k] = append(cands[k], a.val)
					}
				}
				for _, c := range m.exc {
					if c.expr {
						continue
					}
					for _, a := range c.assigns {
						k := strings.ToLower(a.key)
						if exprRow[k] {
							continue
						}
						if !defined[k] {
							kinds = append(kinds, "exkey:"+k)
							continue
						}
						match := false
						for _, v := range cands[k] {
							if refSubset(v, a.val) {
								match = true
							}
						}
						if !match {
							kinds = append(kinds, "exval:"+k)
						}
					}
				}
			}
		}
	}
	sort.Strings(kinds)
	return kinds
}

func lintMatrix(src string) (*actionlint.Matrix, []*actionlint.Error, []*actionlint.Error) {
	w, perrs := actionlint.Parse([]byte(src))
	if w == nil {
		return nil, nil, perrs
	}
	var job *actionlint.Job
	for _, j := range w.Jobs {
		job = j
	}
	if job == nil || job.Strategy == nil || job.Strategy.Matrix == nil {
		return nil, nil, perrs
	}
	rule := actionlint.NewRuleMatrix()
	_ = rule.VisitJobPre(job)
	return job.Strategy.Matrix, rule.Errs(), perrs
}

func runC19(c *ctx, r *Report) error {
	n, perms := 4000, 4
	if !c.quick {
		n, perms = 80000, 8
	}
	r.Rule = fmt.Sprintf("%d random matrices (0–3 rows, values nested to depth 3 over a small pool so that equal / subset / expression values are frequent, include/exclude entries derived from existing values, expression rows/sections/entries) written as YAML, parsed by the real parser, checked by the real RuleMatrix; the parsed matrix is sent to the model (matrix check); each matrix is re-run under %d random permutations of row keys, row values, mapping members, entries and entry members; verdict kinds are compared with a reference written from the property text; non-trivial = distinct YAML sources with at least one row value or exclude entry", n, perms)
	var b batch
	rng := rand.New(rand.NewSource(c.seed))
	for i := 0; i < n; i++ {
		gm := genMatrix(rng)
		src := gm.yaml()
		if src == "" {
			continue
		}
		mk := func(note string) Case {
			return Case{Op: "matrix check", Input: map[string]string{"yaml": src}, Note: note}
		}
		var mat *actionlint.Matrix
		var errs, perrs []*actionlint.Error
		pmsg, _ := guarded(10e9, func() { mat, errs, perrs = lintMatrix(src) })
		r.Evaluations++
		if pmsg != "" {
			r.Crashes = append(r.Crashes, mk(pmsg))
			continue
		}
		if mat == nil || len(perrs) > 0 {
			r.hist("parse-error")
			continue
		}
		canon, kinds, ok := canonMatrix(errs)
		cs := mk("")
		if !ok {
			cs.Impl = canon
			cs.Note = "message matches no known template"
			r.disagree(cs)
		}
		if mat.Expression == nil {
			b.add("matrix check "+encMatrix(mat), canon, cs)
		}
		if len(gm.rows) > 0 || len(gm.exc) > 0 {
			r.nontrivial(src)
		}
		for _, k := range kinds {
			r.hist(strings.SplitN(k, ":", 2)[0])
		}
		if len(kinds) == 0 {
			r.hist("clean")
		}
		// reference verdicts
		want := refKinds(gm)
		if strings.Join(want, ",") != strings.Join(kinds, ",") {
			key := "verdict-differs"
			if strings.Contains(src, "}} ${{") {
				key = "contains-expression-order"
			}
			r.finding(key, fmt.Sprintf("verdict kinds %v, reference (from the property text) %v", kinds, want), mk(canon))
		}
		// permutation invariance
		for p := 0; p < perms; p++ {
			pm := permuteMatrix(rng, gm)
			psrc := pm.yaml()
			_, perrs2, pe := lintMatrix(psrc)
			r.Evaluations++
			if len(pe) > 0 {
				continue
			}
			_, pk, _ := canonMatrix(perrs2)
			if strings.Join(pk, ",") != strings.Join(kinds, ",") {
				key := "permutation-changes-verdict"
				if strings.Contains(src, "}} ${{") {
					key = "contains-expression-order"
				}
				r.finding(key, fmt.Sprintf("verdict kinds %v become %v after reordering values / keys / members", kinds, pk),
					Case{Op: "matrix permute", Input: map[string]string{"yaml": src, "permuted_yaml": psrc}})
				break
			}
		}
		if i < 2 {
			r.sample(map[string]string{"yaml": src, "impl": canon})
		}
	}
	// direct Equals / subset probes on value pairs (both directions)
	for i := 0; i < n; i++ {
		a := genVal(rng, 3)
		var bb *gval
		switch rng.Intn(3) {
		case 0:
			bb = genVal(rng, 3)
		case 1:
			bb = permuteVal(rng, a)
		default:
			bb = subsetOf(rng, a)
		}
		src := fmt.Sprintf("on: push\njobs:\n  j:\n    runs-on: x\n    strategy:\n      matrix:\n        r:\n          - %s\n          - %s\n    steps:\n      - run: echo\n", a.yaml(), bb.yaml())
		mat, _, perrs := lintMatrix(src)
		if mat == nil || len(perrs) > 0 || mat.Rows["r"] == nil || len(mat.Rows["r"].Values) != 2 {
			continue
		}
		va, vb := mat.Rows["r"].Values[0], mat.Rows["r"].Values[1]
		r.Evaluations += 2
		eq1, eq2 := va.Equals(vb), vb.Equals(va)
		b.add("matrix equals "+encRaw(va)+" "+encRaw(vb), strconv.FormatBool(eq1), Case{Op: "matrix equals", Input: map[string]string{"a": a.yaml(), "b": bb.yaml()}})
		b.add("matrix equals "+encRaw(vb)+" "+encRaw(va), strconv.FormatBool(eq2), Case{Op: "matrix equals", Input: map[string]string{"a": bb.yaml(), "b": a.yaml()}})
		r.hist("equals:" + strconv.FormatBool(eq1))
		if eq1 != eq2 {
			r.finding("equals-asymmetric", "Equals(a,b) ≠ Equals(b,a)", Case{Op: "matrix equals", Input: map[string]string{"a": a.yaml(), "b": bb.yaml()}})
		}
		if eq1 != refEq(a, bb) {
			r.finding("equals-not-structural", fmt.Sprintf("Equals = %v but structural equality = %v", eq1, refEq(a, bb)), Case{Op: "matrix equals", Input: map[string]string{"a": a.yaml(), "b": bb.yaml()}})
		}
		r.nontrivial("eq:" + a.yaml() + "|" + bb.yaml())
	}
	_, err := b.flush(c, r)
	return err
}
