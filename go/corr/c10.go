package main

import (
	"crypto/sha256"
	"encoding/json"
	"fmt"
	"math/rand"
	"os"
	"path/filepath"
	"runtime"
	"sort"
	"strings"

	"github.com/rhysd/actionlint"
)

// a reusable workflow whose input / secret / output names are not all lower case, and a caller that spells them differently
const c10ReusableNames = "on:\n  workflow_call:\n    inputs:\n      MyInput:\n        type: string\n        required: true\n      other_Input:\n        type: number\n    secrets:\n      MyTok:\n        required: true\n    outputs:\n      buildVersion:\n        value: ${{ jobs.j.outputs.o }}\n      PLAIN:\n        value: x\njobs:\n  j:\n    runs-on: ubuntu-latest\n    outputs:\n      o: x\n    steps:\n      - run: echo ${{ inputs.MyInput }} ${{ inputs.myinput }}\n"
const c10CallerNames = "on: push\njobs:\n  c:\n    uses: ./.github/workflows/reusable-names.yml\n    with:\n      myinput: x\n      OTHER_INPUT: 3\n    secrets:\n      mytok: ${{ secrets.T }}\n  d:\n    needs: c\n    runs-on: ubuntu-latest\n    steps:\n      - run: echo ${{ needs.c.outputs.buildVersion }} ${{ needs.c.outputs.BUILDVERSION }} ${{ needs.c.outputs.plain }} ${{ needs.c.outputs.nope }}\n"

func init() { props["C10"] = runC10 }

// deepType prints a type with everything String() hides: the properties of loose objects, the mapped type and
// the Deref flag of arrays.
func deepType(t actionlint.ExprType) string {
	switch t := t.(type) {
	case *actionlint.ObjectType:
		ks := make([]string, 0, len(t.Props))
		for k := range t.Props {
			ks = append(ks, k)
		}
		sort.Strings(ks)
		var sb strings.Builder
		sb.WriteString("{")
		for _, k := range ks {
			sb.WriteString(k + ":" + deepType(t.Props[k]) + ";")
		}
		if t.Mapped != nil {
			sb.WriteString("=>" + deepType(t.Mapped))
		}
		sb.WriteString("}")
		return sb.String()
	case *actionlint.ArrayType:
		return fmt.Sprintf("[%s deref=%v]", deepType(t.Elem), t.Deref)
	case nil:
		return "nil"
	default:
		return t.String()
	}
}

// tableFingerprint hashes every exported built-in table of the package.
func tableFingerprint() string {
	h := sha256.New()
	dump := func(name string, v interface{}) {
		b, _ := json.Marshal(v)
		fmt.Fprintf(h, "%s=%s\n", name, b)
	}
	dump("AllWebhookTypes", actionlint.AllWebhookTypes)
	dump("PopularActions", actionlint.PopularActions)
	dump("OutdatedPopularActionSpecs", actionlint.OutdatedPopularActionSpecs)
	dump("SpecialFunctionNames", actionlint.SpecialFunctionNames)
	dump("BrandingColors", actionlint.BrandingColors)
	dump("BrandingIcons", actionlint.BrandingIcons)
	// types are interfaces: print their String() and the signatures
	names := make([]string, 0)
	for k := range actionlint.BuiltinGlobalVariableTypes {
		names = append(names, k)
	}
	sort.Strings(names)
	for _, k := range names {
		fmt.Fprintf(h, "var %s=%s\n", k, deepType(actionlint.BuiltinGlobalVariableTypes[k]))
	}
	fnames := make([]string, 0)
	for k := range actionlint.BuiltinFuncSignatures {
		fnames = append(fnames, k)
	}
	sort.Strings(fnames)
	for _, k := range fnames {
		for _, s := range actionlint.BuiltinFuncSignatures[k] {
			fmt.Fprintf(h, "fn %s=%s\n", k, s.String())
		}
	}
	var walk func(m *actionlint.UntrustedInputMap, depth int)
	walk = func(m *actionlint.UntrustedInputMap, depth int) {
		fmt.Fprintf(h, "%d:%s\n", depth, m.Name)
		ks := make([]string, 0)
		for k := range m.Children {
			ks = append(ks, k)
		}
		sort.Strings(ks)
		for _, k := range ks {
			walk(m.Children[k], depth+1)
		}
	}
	for _, m := range actionlint.BuiltinUntrustedInputs {
		walk(m, 0)
	}
	return fmt.Sprintf("%x", h.Sum(nil))
}

const c10Reusable = "on:\n  workflow_call:\n    inputs:\n      name:\n        type: string\n        required: true\n      count:\n        type: number\n    secrets:\n      tok:\n        required: true\n    outputs:\n      res:\n        value: ${{ jobs.j.outputs.o }}\njobs:\n  j:\n    runs-on: ubuntu-latest\n    outputs:\n      o: x\n    steps:\n      - run: echo ${{ inputs.name }} ${{ inputs.nope }}\n"
const c10Caller = "on: push\njobs:\n  c:\n    uses: ./.github/workflows/reusable.yml\n    with:\n      name: x\n      count: abc\n      extra: 1\n    secrets:\n      tok: ${{ secrets.T }}\n  d:\n    needs: c\n    runs-on: ubuntu-latest\n    steps:\n      - run: echo ${{ needs.c.outputs.res }} ${{ needs.c.outputs.nope }}\n      - uses: ./act\n        with:\n          x: 1\n          zz: 2\n"
const c10Misc = "on:\n  push:\n    branches: ['a b']\n  issues:\n    types: [opened, bogus]\njobs:\n  j:\n    runs-on: [self-hosted, gpu-box]\n    steps:\n      - run: echo ${{ vars.DEPLOY_ENV }} ${{ vars.UNKNOWN_VAR }} ${{ github.evnt }}\n      - uses: actions/checkout@v4\n        with:\n          nosuch: 1\n"
// jobs that derive matrix types from shared context types and then extend / narrow them, and a file that reads those contexts
const c10CtxMatrix = "on: push\njobs:\n  a:\n    runs-on: ubuntu-latest\n    strategy:\n      matrix:\n        include:\n          - ${{ github.event }}\n          - foo: 1\n    steps:\n      - run: echo ${{ matrix.foo }}\n  b:\n    runs-on: ubuntu-latest\n    strategy:\n      matrix:\n        include:\n          - ${{ vars }}\n          - zeta: {x: 1}\n    steps:\n      - run: echo ${{ github.event.commits.*.author.name }} ${{ github.event.*.id }}\n  c:\n    runs-on: ubuntu-latest\n    strategy:\n      matrix: ${{ github.event }}\n    steps:\n      - run: echo ${{ matrix.x }}\n"
const c10CtxReader = "on: push\njobs:\n  r:\n    runs-on: ubuntu-latest\n    steps:\n      - run: echo ${{ github.event.foo.bar }} ${{ github.event.include.x }} ${{ vars.zeta.x }} ${{ github.event.commits.id.x }}\n"
// a reusable workflow that spells its booleans the other ways YAML allows (True / TRUE), and a caller that supplies nothing
const c10ReusableCaps = "on:\n  workflow_call:\n    inputs:\n      need:\n        type: string\n        required: True\n      opt:\n        type: string\n        required: False\n    secrets:\n      tok:\n        required: TRUE\njobs:\n  j:\n    runs-on: ubuntu-latest\n    steps:\n      - run: echo\n"
const c10CallerCaps = "on: push\njobs:\n  c:\n    uses: ./.github/workflows/reusable-caps.yml\n"
const c10Action = "name: act\ndescription: d\ninputs:\n  x:\n    description: d\n    required: true\nruns:\n  using: composite\n  steps:\n    - run: echo\n      shell: bash\n"

func runC10(c *ctx, r *Report) error {
	rng := rand.New(rand.NewSource(c.seed))
	nOrders := 3
	if !c.quick {
		nOrders = 40
	}
	r.Rule = fmt.Sprintf("a scratch tree with two repositories whose directory names share a prefix (repo, repo2) and different configurations (config-variables, self-hosted labels), a well-formed local action and a local reusable workflow called from another file; every non-empty subset (quick tier: a sample of the larger ones) of the 11 workflow files (one of them builds matrices out of shared context types, one reads those contexts) × %d random argument orders × GOMAXPROCS ∈ {1,4,16}: the diagnostics LintFiles returns for each file must equal those of LintFile on a fresh linter for that file alone — in particular whether the called reusable workflow is part of the run or not — and a fingerprint of every exported built-in table (webhook types, popular actions, function signatures, context types, untrusted inputs, special functions, branding tables) must be unchanged after each run; non-trivial = distinct (subset, order, GOMAXPROCS) runs with ≥ 2 files", nOrders)
	tmp, err := os.MkdirTemp("", "verif-c10-")
	if err != nil {
		return err
	}
	defer os.RemoveAll(tmp)
	tmp, _ = filepath.EvalSymlinks(tmp)
	mk := func(repo, cfg string, files map[string]string) {
		root := filepath.Join(tmp, repo)
		os.MkdirAll(filepath.Join(root, ".git"), 0o755)
		os.MkdirAll(filepath.Join(root, ".github", "workflows"), 0o755)
		os.MkdirAll(filepath.Join(root, "act"), 0o755)
		os.WriteFile(filepath.Join(root, "act", "action.yml"), []byte(c10Action), 0o644)
		os.WriteFile(filepath.Join(root, ".github", "actionlint.yaml"), []byte(cfg), 0o644)
		for n, s := range files {
			os.WriteFile(filepath.Join(root, ".github", "workflows", n), []byte(s), 0o644)
		}
	}
	mk("repo", "self-hosted-runner:\n  labels: [gpu-box]\nconfig-variables: [ZETA, DEPLOY_ENV, ALPHA]\n", map[string]string{"reusable.yml": c10Reusable, "caller.yml": c10Caller, "misc.yml": c10Misc, "ctxmatrix.yml": c10CtxMatrix, "ctxreader.yml": c10CtxReader, "reusable-caps.yml": c10ReusableCaps, "caller-caps.yml": c10CallerCaps, "reusable-names.yml": c10ReusableNames, "caller-names.yml": c10CallerNames, "clean.yml": "on: push\njobs:\n  j:\n    runs-on: ubuntu-latest\n    steps:\n      - run: echo\n"})
	mk("repo2", "self-hosted-runner:\n  labels: []\nconfig-variables: [UNKNOWN_VAR]\n", map[string]string{"reusable.yml": c10Reusable, "caller.yml": c10Caller, "misc.yml": c10Misc})
	var files []string
	for _, repo := range []string{"repo", "repo2"} {
		for _, n := range []string{"reusable.yml", "caller.yml", "misc.yml", "clean.yml", "ctxmatrix.yml", "ctxreader.yml", "reusable-caps.yml", "caller-caps.yml"} {
			p := filepath.Join(tmp, repo, ".github", "workflows", n)
			if _, err := os.Stat(p); err == nil {
				files = append(files, p)
			}
		}
	}
	old, _ := os.Getwd()
	os.Chdir(tmp)
	defer os.Chdir(old)
	defer runtime.GOMAXPROCS(runtime.GOMAXPROCS(0))
	canon := func(errs []*actionlint.Error) map[string]string {
		per := map[string][]string{}
		for _, e := range errs {
			abs := e.Filepath
			if !filepath.IsAbs(abs) {
				abs = filepath.Join(tmp, abs)
			}
			per[abs] = append(per[abs], fmt.Sprintf("%d:%d [%s] %s", e.Line, e.Column, e.Kind, e.Message))
		}
		out := map[string]string{}
		for k, v := range per {
			out[k] = strings.Join(v, "\n")
		}
		return out
	}
	fp0 := tableFingerprint()
	alone := map[string]string{}
	for _, f := range files {
		l, err := actionlint.NewLinter(nopWriter{}, &actionlint.LinterOptions{Shellcheck: "", Pyflakes: ""})
		if err != nil {
			return err
		}
		errs, err := l.LintFile(f, nil)
		r.Evaluations++
		if err != nil {
			return fmt.Errorf("LintFile %s: %v", f, err)
		}
		alone[f] = canon(errs)[f]
		r.hist(fmt.Sprintf("alone-diags:%d", len(errs)))
		if fp := tableFingerprint(); fp != fp0 {
			r.finding("builtin-table-modified", "an exported built-in table changed during linting", Case{Op: "lintfile", Input: map[string]string{"file": strings.TrimPrefix(f, tmp+"/"), "source": func() string { b, _ := os.ReadFile(f); return string(b) }()}})
			fp0 = fp
		}
	}
	// sanity: the two repositories must give different results for misc.yml (different configuration)
	if alone[files[2]] == alone[filepath.Join(tmp, "repo2", ".github", "workflows", "misc.yml")] {
		r.Notes = append(r.Notes, "warning: misc.yml has the same diagnostics in both repositories; project attribution is not observable")
	}
	for mask := 1; mask < 1<<uint(len(files)); mask++ {
		var subset []string
		for i, f := range files {
			if mask&(1<<uint(i)) != 0 {
				subset = append(subset, f)
			}
		}
		if c.quick && len(subset) > 3 && rng.Intn(4) != 0 {
			continue
		}
		for o := 0; o < nOrders; o++ {
			order := append([]string{}, subset...)
			rng.Shuffle(len(order), func(a, b int) { order[a], order[b] = order[b], order[a] })
			procs := []int{1, 4, 16}[o%3]
			runtime.GOMAXPROCS(procs)
			l, err := actionlint.NewLinter(nopWriter{}, &actionlint.LinterOptions{Shellcheck: "", Pyflakes: ""})
			if err != nil {
				return err
			}
			// relative spelling for some files
			args := make([]string, len(order))
			for i, f := range order {
				args[i] = f
				if rng.Intn(2) == 0 {
					if rel, err := filepath.Rel(tmp, f); err == nil {
						args[i] = rel
					}
				}
			}
			errs, err := l.LintFiles(args, nil)
			r.Evaluations++
			short := func(fs []string) string {
				var s []string
				for _, f := range fs {
					s = append(s, strings.TrimPrefix(f, tmp+"/"))
				}
				return strings.Join(s, " ")
			}
			desc := map[string]string{"files_in_order": short(order), "gomaxprocs": fmt.Sprint(procs)}
			if err != nil {
				r.Crashes = append(r.Crashes, Case{Op: "lintfiles", Input: desc, Note: err.Error()})
				continue
			}
			if len(order) >= 2 {
				r.nontrivial(short(order) + fmt.Sprint(procs))
			}
			per := canon(errs)
			for _, f := range order {
				if per[f] != alone[f] {
					key := "file-depends-on-other-files"
					if strings.Contains(f, "repo2") && !strings.Contains(per[f], "UNKNOWN_VAR") == strings.Contains(alone[f], "UNKNOWN_VAR") {
						key = "file-depends-on-other-files"
					}
					r.finding(key, fmt.Sprintf("diagnostics of %s in this multi-file run differ from linting it alone", strings.TrimPrefix(f, tmp+"/")),
						Case{Op: "lintfiles", Input: desc, Impl: per[f], Model: alone[f]})
				}
			}
			for f := range per {
				found := false
				for _, g := range order {
					if g == f {
						found = true
					}
				}
				if !found {
					r.finding("diagnostic-for-foreign-file", "a diagnostic is attributed to a file that was not linted: "+f, Case{Op: "lintfiles", Input: desc})
				}
			}
			if fp := tableFingerprint(); fp != fp0 {
				r.finding("builtin-table-modified", "an exported built-in table changed during linting", Case{Op: "lintfiles", Input: desc})
				fp0 = fp
			}
		}
	}
	// the interface of a reusable workflow is derived from its file (when only the caller is linted) or from its AST (when
	// the reusable workflow itself was linted first): both must give the caller the same diagnostics. Deterministic form:
	// one Linter lints the callee and then the caller; a fresh Linter lints the caller alone. And the scheduled form: both
	// files in one call, both orders, GOMAXPROCS 1 / 4 / 16, repeated.
	for _, pair := range [][2]string{{"reusable.yml", "caller.yml"}, {"reusable-caps.yml", "caller-caps.yml"}, {"reusable-names.yml", "caller-names.yml"}} {
		callee := filepath.Join(tmp, "repo", ".github", "workflows", pair[0])
		caller := filepath.Join(tmp, "repo", ".github", "workflows", pair[1])
		fresh := func() *actionlint.Linter {
			l, _ := actionlint.NewLinter(nopWriter{}, &actionlint.LinterOptions{Shellcheck: "", Pyflakes: ""})
			return l
		}
		e0, err := fresh().LintFile(caller, nil)
		if err != nil {
			return err
		}
		want := canon(e0)[caller]
		l := fresh()
		if _, err := l.LintFile(callee, nil); err != nil {
			return err
		}
		e1, err := l.LintFile(caller, nil)
		if err != nil {
			return err
		}
		r.Evaluations += 2
		r.nontrivial("interface-two-ways:" + pair[0])
		if got := canon(e1)[caller]; got != want {
			r.finding("interface-from-file-and-from-ast-differ", fmt.Sprintf("the diagnostics of %s differ between a run that read %s from its file and a run that had linted it before (interface taken from the AST)", pair[1], pair[0]),
				Case{Op: "lintfile-sequence", Input: map[string]string{"callee": func() string { b, _ := os.ReadFile(callee); return string(b) }(), "caller": func() string { b, _ := os.ReadFile(caller); return string(b) }()}, Impl: got, Model: want})
		}
		reps := 10
		if !c.quick {
			reps = 100
		}
		for k := 0; k < reps*6; k++ {
			order := []string{callee, caller}
			if k%2 == 1 {
				order = []string{caller, callee}
			}
			runtime.GOMAXPROCS([]int{1, 4, 16}[(k/2)%3])
			errs, err := fresh().LintFiles(order, nil)
			r.Evaluations++
			if err != nil {
				return err
			}
			if got := canon(errs)[caller]; got != want {
				r.finding("interface-from-file-and-from-ast-differ", fmt.Sprintf("the diagnostics of %s linted together with %s differ from linting it alone", pair[1], pair[0]),
					Case{Op: "lintfiles", Input: map[string]string{"order": fmt.Sprint(k%2 == 1), "gomaxprocs": fmt.Sprint([]int{1, 4, 16}[(k/2)%3])}, Impl: got, Model: want})
				break
			}
		}
	}
	// two repositories whose root directories differ in letter case only (on a case-sensitive file system they are
	// different repositories with their own configuration): every order, GOMAXPROCS 1 / 4 / 16, vs each file alone
	{
		twinA, twinB := filepath.Join(tmp, "Site"), filepath.Join(tmp, "site")
		mkTwin := func(root, cfg string) string {
			os.MkdirAll(filepath.Join(root, ".git"), 0o755)
			os.MkdirAll(filepath.Join(root, ".github", "workflows"), 0o755)
			os.WriteFile(filepath.Join(root, ".github", "actionlint.yaml"), []byte(cfg), 0o644)
			p := filepath.Join(root, ".github", "workflows", "ci.yml")
			os.WriteFile(p, []byte("on: push\njobs:\n  j:\n    runs-on: gpu-box\n    steps:\n      - run: echo ${{ vars.TOKEN_NAME }}\n"), 0o644)
			return p
		}
		fa := mkTwin(twinA, "self-hosted-runner:\n  labels: [gpu-box]\nconfig-variables: [TOKEN_NAME]\n")
		fb := mkTwin(twinB, "self-hosted-runner:\n  labels: []\nconfig-variables: []\n")
		if st, err := os.Stat(fa); err == nil && st != nil && fa != fb {
			if ia, ib := func() (os.FileInfo, os.FileInfo) { a, _ := os.Stat(twinA); b, _ := os.Stat(twinB); return a, b }(); ia != nil && ib != nil && !os.SameFile(ia, ib) {
				want := map[string]string{}
				for _, f := range []string{fa, fb} {
					l, _ := actionlint.NewLinter(nopWriter{}, &actionlint.LinterOptions{Shellcheck: "", Pyflakes: ""})
					errs, err := l.LintFile(f, nil)
					if err != nil {
						return err
					}
					want[f] = canon(errs)[f]
				}
				if want[fa] == want[fb] {
					r.Notes = append(r.Notes, "warning: the case-twin repositories give the same diagnostics; attribution is not observable")
				}
				for k := 0; k < 12; k++ {
					order := []string{fa, fb}
					if k%2 == 1 {
						order = []string{fb, fa}
					}
					runtime.GOMAXPROCS([]int{1, 4, 16}[(k/2)%3])
					l, _ := actionlint.NewLinter(nopWriter{}, &actionlint.LinterOptions{Shellcheck: "", Pyflakes: ""})
					errs, err := l.LintFiles(order, nil)
					r.Evaluations++
					if err != nil {
						return err
					}
					per := canon(errs)
					for _, f := range order {
						if per[f] != want[f] {
							r.finding("file-attributed-to-case-twin-repository", "a file of a repository whose root differs from another repository's root in letter case only gets that other repository's configuration",
								Case{Op: "lintfiles", Input: map[string]string{"order": strings.TrimPrefix(order[0], tmp+"/") + " " + strings.TrimPrefix(order[1], tmp+"/")}, Impl: per[f], Model: want[f]})
						}
					}
				}
				r.nontrivial("case-twin-repositories")
			} else {
				r.Notes = append(r.Notes, "case-insensitive file system: the case-twin repository scenario was skipped")
			}
		}
	}
	r.sample(map[string]interface{}{"files": len(files), "repositories": []string{"repo", "repo2"}, "example_alone": alone[files[1]]})
	// the external tools cannot be found (the default configuration on a machine without shellcheck / pyflakes): several files
	// in one call, and the same Linter used for a second call — same results, and (race-detector build) no shared field
	// of the Linter written while files are linted in parallel
	{
		opts := &actionlint.LinterOptions{Shellcheck: "no-such-shellcheck-command-xyz", Pyflakes: "no-such-pyflakes-command-xyz"}
		l, err := actionlint.NewLinter(nopWriter{}, opts)
		if err != nil {
			return err
		}
		var first string
		for rep := 0; rep < 3; rep++ {
			runtime.GOMAXPROCS([]int{16, 4, 1}[rep])
			errs, err := l.LintFiles(files, nil)
			r.Evaluations++
			if err != nil {
				r.Crashes = append(r.Crashes, Case{Op: "lintfiles-tools-missing", Note: err.Error()})
				break
			}
			per := canon(errs)
			var all []string
			for _, f := range files {
				all = append(all, per[f])
				if per[f] != alone[f] {
					r.finding("file-depends-on-other-files", fmt.Sprintf("diagnostics of %s differ from linting it alone when the external tools cannot be found", strings.TrimPrefix(f, tmp+"/")),
						Case{Op: "lintfiles-tools-missing", Input: map[string]string{"call": fmt.Sprint(rep + 1)}, Impl: per[f], Model: alone[f]})
				}
			}
			if rep == 0 {
				first = strings.Join(all, "\n--\n")
			} else if strings.Join(all, "\n--\n") != first {
				r.finding("linter-state-survives-call", "the same Linter gives other results in a later LintFiles call", Case{Op: "lintfiles-tools-missing", Input: map[string]string{"call": fmt.Sprint(rep + 1)}})
			}
		}
		r.nontrivial("tools-missing")
		r.Rule += "; all files through one Linter whose shellcheck / pyflakes commands cannot be found, three calls in a row"
	}
	// nested repositories (a repository vendored inside another one): a file belongs to the innermost repository that
	// contains it, whatever was linted before it in the same run
	{
		outer := filepath.Join(tmp, "outer")
		inner := filepath.Join(outer, "vendor", "inner")
		for _, rr := range []struct{ root, label string }{{outer, "outer-box"}, {inner, "inner-box"}} {
			os.MkdirAll(filepath.Join(rr.root, ".git"), 0o755)
			os.MkdirAll(filepath.Join(rr.root, ".github", "workflows"), 0o755)
			os.WriteFile(filepath.Join(rr.root, ".github", "actionlint.yaml"), []byte("self-hosted-runner:\n  labels: ["+rr.label+"]\n"), 0o644)
			os.WriteFile(filepath.Join(rr.root, ".github", "workflows", "w.yml"), []byte("on: push\njobs:\n  j:\n    runs-on: "+rr.label+"\n    steps:\n      - run: echo\n"), 0o644)
		}
		fo, fi := filepath.Join(outer, ".github", "workflows", "w.yml"), filepath.Join(inner, ".github", "workflows", "w.yml")
		aloneN := map[string]string{}
		for _, f := range []string{fo, fi} {
			l, err := actionlint.NewLinter(nopWriter{}, &actionlint.LinterOptions{Shellcheck: "", Pyflakes: ""})
			if err != nil {
				return err
			}
			errs, err := l.LintFile(f, nil)
			r.Evaluations++
			if err != nil {
				return err
			}
			aloneN[f] = canon(errs)[f]
		}
		for _, order := range [][]string{{fo, fi}, {fi, fo}} {
			l, err := actionlint.NewLinter(nopWriter{}, &actionlint.LinterOptions{Shellcheck: "", Pyflakes: ""})
			if err != nil {
				return err
			}
			errs, err := l.LintFiles(order, nil)
			r.Evaluations++
			if err != nil {
				return err
			}
			per := canon(errs)
			for _, f := range order {
				r.nontrivial("nested:" + f + order[0])
				if per[f] != aloneN[f] {
					r.finding("nested-repository-attribution", fmt.Sprintf("a file of a repository nested inside another one gets other diagnostics in a joint run than alone (%s)", strings.TrimPrefix(f, tmp+"/")),
						Case{Op: "lintfiles", Input: map[string]string{"files_in_order": strings.TrimPrefix(order[0], tmp+"/") + " " + strings.TrimPrefix(order[1], tmp+"/")}, Impl: per[f], Model: aloneN[f]})
				}
			}
		}
		r.Rule += "; a repository nested inside another one (own configuration each), both argument orders"
	}
	// tie of the model AL.Projects (AL.Props.C10Projects: the answer of Projects.At is the innermost repository root above
	// the path, whatever was looked up before): random directory trees with repositories at random depths, also nested
	// in each other, random sequences of lookups through one Projects value
	{
		var b batch
		b.judge = func(cs Case) (string, string) {
			return "project-attribution-differs", "Projects.At attributes a path to another repository than the innermost one that contains it, or the answer depends on earlier lookups (got " + cs.Impl + ", innermost-root rule gives " + cs.Model + ")"
		}
		nTrees := 40
		if !c.quick {
			nTrees = 600
		}
		names := []string{"a", "b", "vendor", "x1"}
		for t := 0; t < nTrees; t++ {
			base := filepath.Join(tmp, fmt.Sprintf("tree%d", t))
			// directories: all paths of depth ≤ 3 over `names`, a random subset of them are repository roots
			var dirs [][]string
			var gen func(prefix []string, depth int)
			gen = func(prefix []string, depth int) {
				if len(prefix) > 0 {
					dirs = append(dirs, append([]string{}, prefix...))
				}
				if depth == 0 {
					return
				}
				for _, n := range names[:2+rng.Intn(2)] {
					if rng.Intn(3) != 0 {
						gen(append(prefix, n), depth-1)
					}
				}
			}
			gen(nil, 3)
			var roots [][]string
			for _, d := range dirs {
				if rng.Intn(4) == 0 {
					roots = append(roots, d)
					os.MkdirAll(filepath.Join(append([]string{base}, append(d, ".git")...)...), 0o755)
					os.MkdirAll(filepath.Join(append([]string{base}, append(d, ".github", "workflows")...)...), 0o755)
				} else {
					os.MkdirAll(filepath.Join(append([]string{base}, d...)...), 0o755)
				}
			}
			// lookups: files in random directories (also inside .github/workflows of a root)
			var paths [][]string
			for k := 0; k < 6 && len(dirs) > 0; k++ {
				d := dirs[rng.Intn(len(dirs))]
				p := append(append([]string{}, d...), "w.yml")
				if rng.Intn(2) == 0 && len(roots) > 0 {
					rt := roots[rng.Intn(len(roots))]
					p = append(append([]string{}, rt...), ".github", "workflows", "w.yml")
				}
				paths = append(paths, p)
			}
			ps := actionlint.NewProjects()
			var got []string
			for _, p := range paths {
				proj, err := ps.At(filepath.Join(append([]string{base}, p...)...))
				r.Evaluations++
				if err != nil || proj == nil {
					got = append(got, "-")
					continue
				}
				rel, _ := filepath.Rel(base, proj.RootDir())
				got = append(got, "/"+filepath.ToSlash(rel))
			}
			enc := func(ll [][]string) string {
				if len(ll) == 0 {
					return "E"
				}
				var items []string
				for _, l := range ll {
					var hs []string
					for _, x := range l {
						hs = append(hs, hx(x))
					}
					items = append(items, sexpList(hs))
				}
				return sexpList(items)
			}
			show := func(ll [][]string) string {
				var out []string
				for _, l := range ll {
					out = append(out, "/"+strings.Join(l, "/"))
				}
				return strings.Join(out, " ")
			}
			r.nontrivial(fmt.Sprintf("tree%d", t))
			b.add("projectat "+enc(roots)+" "+enc(paths), strings.Join(got, ";"), Case{Op: "projectat", Input: map[string]string{"repository_roots": show(roots), "lookups_in_order": show(paths)}})
			os.RemoveAll(base)
		}
		if _, err := b.flush(c, r); err != nil {
			return err
		}
		r.Rule += fmt.Sprintf("; model tie: %d random directory trees (depth ≤ 3, repositories at random places incl. nested), 6 lookups each through one Projects value vs AL.Projects.atAll", nTrees)
	}
	// "their own defects are reported once per run": a third repository whose local actions / reusable workflows are
	// defective (metadata without description, unparseable metadata, unparseable reusable workflow, missing one),
	// referenced from three files, by steps with and without id:. Every run that references a defective callee
	// reports that callee's own defect exactly once, whatever the subset, order and parallelism.
	{
		root := filepath.Join(tmp, "repo3")
		os.MkdirAll(filepath.Join(root, ".git"), 0o755)
		os.MkdirAll(filepath.Join(root, ".github", "workflows"), 0o755)
		os.MkdirAll(filepath.Join(root, "bad"), 0o755)
		os.MkdirAll(filepath.Join(root, "broken"), 0o755)
		os.WriteFile(filepath.Join(root, "bad", "action.yml"), []byte("name: bad\ninputs:\n  x:\n    description: d\nruns:\n  using: composite\n  steps:\n    - run: echo\n      shell: bash\n"), 0o644)
		os.WriteFile(filepath.Join(root, "broken", "action.yml"), []byte("name: [unclosed\n"), 0o644)
		os.WriteFile(filepath.Join(root, ".github", "workflows", "badwf.yml"), []byte("on:\n  workflow_call:\n    inputs: [a, b]\njobs: {}\n"), 0o644)
		os.MkdirAll(filepath.Join(root, ".github", "workflows", "adir"), 0o755) // exists, but is not a readable file
		mkCaller := func(withID bool) string {
			id := ""
			if withID {
				id = "        id: s\n"
			}
			return "on: push\njobs:\n  j:\n    runs-on: ubuntu-latest\n    steps:\n      - uses: ./bad\n" + id + "      - uses: ./bad\n      - uses: ./broken\n  k:\n    uses: ./.github/workflows/badwf.yml\n  m:\n    uses: ./.github/workflows/missing.yml\n  n:\n    uses: ./.github/workflows/adir\n  o:\n    needs: [m, n]\n    runs-on: ubuntu-latest\n    steps:\n      - run: echo ${{ needs.m.outputs.x }} ${{ needs.n.outputs.y }}\n"
		}
		var dfiles []string
		for i, withID := range []bool{true, false, true} {
			p := filepath.Join(root, ".github", "workflows", fmt.Sprintf("d%d.yml", i+1))
			os.WriteFile(p, []byte(mkCaller(withID)), 0o644)
			dfiles = append(dfiles, p)
		}
		classes := []struct{ key, needle string }{
			{"action-metadata-defect", "description is required in metadata"},
			{"action-metadata-unparseable", "could not parse action metadata"},
			{"reusable-workflow-unparseable", "error while parsing reusable workflow"},
			{"reusable-workflow-missing", "could not read reusable workflow file for \"./.github/workflows/missing.yml\""},
			{"reusable-workflow-is-a-directory", "could not read reusable workflow file for \"./.github/workflows/adir\""},
		}
		reps := 6
		if !c.quick {
			reps = 60
		}
		for mask := 1; mask < 8; mask++ {
			var subset []string
			for i, f := range dfiles {
				if mask&(1<<uint(i)) != 0 {
					subset = append(subset, f)
				}
			}
			for rep := 0; rep < reps; rep++ {
				order := append([]string{}, subset...)
				rng.Shuffle(len(order), func(a, b int) { order[a], order[b] = order[b], order[a] })
				procs := []int{1, 4, 16}[rep%3]
				runtime.GOMAXPROCS(procs)
				l, err := actionlint.NewLinter(nopWriter{}, &actionlint.LinterOptions{Shellcheck: "", Pyflakes: ""})
				if err != nil {
					return err
				}
				errs, err := l.LintFiles(order, nil)
				r.Evaluations++
				var names []string
				for _, f := range order {
					names = append(names, filepath.Base(f))
				}
				desc := map[string]string{"files_in_order": strings.Join(names, " "), "gomaxprocs": fmt.Sprint(procs), "caller_with_id": mkCaller(true)}
				if err != nil {
					r.Crashes = append(r.Crashes, Case{Op: "lintfiles-defective-callees", Input: desc, Note: err.Error()})
					continue
				}
				r.nontrivial("defects:" + strings.Join(names, " ") + fmt.Sprint(procs))
				for _, cl := range classes {
					n := 0
					var where []string
					for _, e := range errs {
						if strings.Contains(e.Message, cl.needle) {
							n++
							where = append(where, fmt.Sprintf("%s:%d:%d", filepath.Base(e.Filepath), e.Line, e.Column))
						}
					}
					r.hist(fmt.Sprintf("defect-reports:%s:%d", cl.key, n))
					if n != 1 {
						r.finding("callee-defect-not-once:"+cl.key, fmt.Sprintf("the callee's own defect (%q) is reported %d times in one run (%v)", cl.needle, n, where), Case{Op: "lintfiles-defective-callees", Input: desc})
					}
				}
			}
		}
		r.Rule += "; a third repository with defective callees (action metadata without description / unparseable, reusable workflow unparseable / missing / a directory; the callees are also referenced through needs.<job>.outputs) referenced from three files (steps with and without id:): each callee's own defect exactly once per run for every subset, order and GOMAXPROCS"
	}
	// the two derivations of a reusable workflow's interface (file / AST) on generated called workflows: tie to AL.CallMeta
	// (theorem AL.Props.C10Meta.interface_agrees) and the oracle file == AST on every parser-clean one
	{
		n := 1500
		if !c.quick {
			n = 60000
		}
		if err := cmStandard(c, r, n); err != nil {
			return err
		}
		if err := pjStandard(c, r, n/3); err != nil {
			return err
		}
		// runs over several files sharing the caches: AL.ProjRun (AL.Props.C10Files) against one real Linter, file after file
		nRun := 120
		if !c.quick {
			nRun = 4000
		}
		if err := pjRunTie(c, r, nRun); err != nil {
			return err
		}
		r.Rule += fmt.Sprintf("; %d runs of 2–3 files (generated callers, sometimes a well-formed callee itself; directed: two files referring to the same missing / unparseable callee in both orders) through one Linter file after file vs AL.ProjRun.callsRun (op callsrun): per file the workflow-call diagnostics and the expression diagnostics the look-ups add", nRun)
		r.Rule += fmt.Sprintf("; %d generated caller workflows in a scratch repository whose jobs call / need well-formed, broken and missing local workflows (a third of them after the called workflows were linted by the same linter) against AL.ProjCall — AL.Props.C10Once: a callee's own defect at most once per file, and the same diagnostics whether the callee's interface was in the cache or read from its file", n/3)
		r.Rule += fmt.Sprintf("; %d generated called workflows (a third well-formed by construction; every spelling of required / default / type / null sections / repeated and unknown keys / on: forms) plus 20 directed ones: interface read from the file (FindMetadata) vs taken from the AST (WriteWorkflowCallEvent) vs the Lean model AL.CallMeta of both (op callmeta); on every one the parser accepts without a diagnostic (no alias / !!binary) the two real interfaces must be equal", n)
	}
	return nil
}
