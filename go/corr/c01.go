package main

import (
	"runtime"
	"strconv"
	"bytes"
	"fmt"
	"math/rand"
	"os"
	"os/exec"
	"path/filepath"
	"strings"
	"time"

	"github.com/rhysd/actionlint"
	"gopkg.in/yaml.v3"
)

func init() { props["C01"] = runC01; props["C01-child"] = runC01Child }

// replacement nodes for the kind × tag × position enumeration
func c01Replacements() []*yaml.Node {
	sc := func(tag, val string, style yaml.Style) *yaml.Node {
		return &yaml.Node{Kind: yaml.ScalarNode, Tag: tag, Value: val, Style: style}
	}
	str := func(v string) *yaml.Node { return sc("!!str", v, 0) }
	anchorTarget := &yaml.Node{Kind: yaml.ScalarNode, Tag: "!!str", Value: "anchored"}
	_ = anchorTarget
	return []*yaml.Node{
		{Kind: yaml.MappingNode, Tag: "!!map", Content: []*yaml.Node{str("a"), str("b")}},
		{Kind: yaml.MappingNode, Tag: "!!map"},
		{Kind: yaml.SequenceNode, Tag: "!!seq", Content: []*yaml.Node{str("a")}},
		{Kind: yaml.SequenceNode, Tag: "!!seq"},
		{Kind: yaml.SequenceNode, Tag: "!!seq", Content: []*yaml.Node{{Kind: yaml.MappingNode, Tag: "!!map", Content: []*yaml.Node{str("k"), {Kind: yaml.SequenceNode, Tag: "!!seq"}}}}},
		{Kind: yaml.MappingNode, Tag: "!!map", Content: []*yaml.Node{sc("!!merge", "<<", 0), {Kind: yaml.MappingNode, Tag: "!!map", Content: []*yaml.Node{str("x"), str("y")}}}},
		sc("!!null", "~", 0), sc("!!null", "", 0), sc("!!str", "", yaml.DoubleQuotedStyle),
		sc("!!float", "nan", yaml.TaggedStyle), sc("!!float", ".nan", 0), sc("!!float", ".inf", 0), sc("!!float", "-.inf", 0), sc("!!float", "1e999", yaml.TaggedStyle), sc("!!float", "-0", yaml.TaggedStyle), sc("!!float", "abc", yaml.TaggedStyle),
		sc("!!int", "0x", yaml.TaggedStyle), sc("!!int", "99999999999999999999999", yaml.TaggedStyle), sc("!!int", "-1", 0), sc("!!int", "0", 0), sc("!!int", "abc", yaml.TaggedStyle),
		sc("!!bool", "maybe", yaml.TaggedStyle), sc("!!bool", "true", 0), sc("!!bool", "", yaml.TaggedStyle),
		sc("!!binary", "aGVsbG8=", yaml.TaggedStyle), sc("!custom", "x", yaml.TaggedStyle), sc("!!timestamp", "2001-12-14", 0),
		sc("!!str", "${{", 0), sc("!!str", "${{ }}", 0), sc("!!str", "}}", 0), sc("!!str", "${{ '", 0), sc("!!str", "a\nb", yaml.LiteralStyle), sc("!!str", "\u0000", yaml.DoubleQuotedStyle), sc("!!str", strings.Repeat("x", 70000), 0),
		sc("!!str", "${{ "+strings.Repeat("(", 200)+" }}", 0), sc("!!str", "${{ a"+strings.Repeat(".b", 300)+" }}", 0), sc("!!str", "${{ fromJSON('"+strings.Repeat("[", 300)+"') }}", 0),
	}
}

// lintFormatGuarded lints with a -format template (the other code path that renders diagnostics)
func lintFormatGuarded(name, src string) (pmsg string, to bool) {
	return guarded(20*time.Second, func() {
		l, err := actionlint.NewLinter(nopWriter{}, &actionlint.LinterOptions{Shellcheck: "", Pyflakes: "", Format: "{{json .}}"})
		if err != nil {
			return
		}
		l.Lint(name, []byte(src), nil)
	})
}

func lintGuarded(name, src string) (errs []*actionlint.Error, lerr error, pmsg string, to bool) {
	pmsg, to = guarded(20*time.Second, func() { errs, lerr = lintSrc(name, src) })
	return
}

func runC01(c *ctx, r *Report) error {
	rng := rand.New(rand.NewSource(c.seed))
	nMut := 1500
	if !c.quick {
		nMut = 40000
	}
	repl := c01Replacements()
	r.Rule = fmt.Sprintf("(1) node kind × tag × position: at EVERY node of the three base workflows (all sections of the syntax), of a local action.yml, of a reusable workflow and of actionlint.yaml, the node is replaced by each of %d replacements (mapping, empty mapping, sequence, nested, merge key, null, explicit !!float nan/.nan/.inf/1e999/-0/abc, !!int 0x/huge/abc, !!bool, !!binary, !custom, !!timestamp, broken placeholders, NUL, 70 kB scalar, deep parenthesis / property / JSON nesting) and keys are replaced by non-string nodes; an alias (with its anchor elsewhere) is planted at every position, bare and one / two levels inside a planted sequence or mapping, and as a mapping key; (2) %d random byte-level mutations (flip, insert special bytes, truncate, duplicate lines) of the four files incl. invalid UTF-8; (3) deep nesting and 64 KiB inputs in a child process; (4) 16 + 15 spellings of local workflow / action specs (well-formed, @ref, missing, directory, unparseable, placeholder, path tricks), each used twice in each of two files linted together, plain, with -verbose and with -debug logging (-verbose wins over -debug, so each is run alone); (1b) 110 texts that a downstream parser or slicing code consumes (cron specs incl. time-zone prefixes, filter patterns, action / docker / workflow specs, shell templates, numbers, format strings) at the scalar values of the base workflows; (4c) 1 … 2·NumCPU+3 unreadable paths (missing, directories; first or last) plus one workflow in one LintFiles call: a fatal error within the time limit; (4b) 8 of them in two files that belong to no repository, through Command.Main in a child process; every case must end in diagnostics or a fatal error (exit 0/1/3 through Command.Main for a sample), never a panic, fatal runtime error or a 20 s timeout; non-trivial = distinct mutated sources", len(repl), nMut)
	tmp, err := os.MkdirTemp("", "verif-c01-")
	if err != nil {
		return err
	}
	defer os.RemoveAll(tmp)
	tmp, _ = filepath.EvalSymlinks(tmp)
	root := filepath.Join(tmp, "repo")
	os.MkdirAll(filepath.Join(root, ".git"), 0o755)
	os.MkdirAll(filepath.Join(root, ".github", "workflows"), 0o755)
	os.MkdirAll(filepath.Join(root, "act"), 0o755)
	actionYml := "name: act\nauthor: me\ndescription: d\ninputs:\n  x:\n    description: d\n    required: true\n    default: v\noutputs:\n  o:\n    description: d\n    value: v\nbranding:\n  icon: activity\n  color: blue\nruns:\n  using: composite\n  steps:\n    - run: echo\n      shell: bash\n"
	configYml := "self-hosted-runner:\n  labels: [gpu]\nconfig-variables: [A, B]\npaths:\n  .github/workflows/**/*.yml:\n    ignore: [abc]\n"
	// (the caller has diagnostics of its own — an unknown label and an undefined input — so that everything that
	// post-processes diagnostics, e.g. the ignore patterns of the configuration, has something to work on)
	callerYml := "on: push\njobs:\n  c:\n    uses: ./.github/workflows/reusable.yml\n    with:\n      name: x\n    secrets: inherit\n  d:\n    runs-on: no-such-runner-label\n    steps:\n      - uses: ./act\n        with:\n          x: 1\n          nosuchinput: 2\n      - run: echo ${{ nosuchcontext.x }}\n"
	write := func(rel, src string) { os.WriteFile(filepath.Join(root, rel), []byte(src), 0o644) }
	restore := func() {
		write("act/action.yml", actionYml)
		write(".github/actionlint.yaml", configYml)
		write(".github/workflows/reusable.yml", wfBaseB)
		write(".github/workflows/caller.yml", callerYml)
	}
	restore()
	old, _ := os.Getwd()
	os.Chdir(root)
	defer os.Chdir(old)
	lintProject := func() (pmsg string, to bool, lerr error) {
		pmsg, to = guarded(20*time.Second, func() {
			l, err := actionlint.NewLinter(nopWriter{}, &actionlint.LinterOptions{Shellcheck: "", Pyflakes: ""})
			if err != nil {
				lerr = err
				return
			}
			_, lerr = l.LintFile(filepath.Join(".github", "workflows", "caller.yml"), nil)
		})
		return
	}
	report := func(channel, what, src, pmsg string, to bool) {
		note := pmsg
		if to {
			note = "timeout (20 s)"
		}
		key := "panic:" + channel
		if to {
			key = "hang:" + channel
		}
		// site key: first frame inside the repository
		for _, ln := range strings.Split(pmsg, "\n") {
			if i := strings.Index(ln, "/repo/"); i >= 0 && strings.Contains(ln, ".go:") {
				key = "panic:" + strings.Fields(ln[i+len("/repo/"):])[0]
				break
			}
		}
		r.finding(key, fmt.Sprintf("%s: %s → %s", channel, what, strings.SplitN(note, "\n", 2)[0]), Case{Op: "lint-crash", Input: map[string]string{"channel": channel, "mutation": what, "source": truncate(src, 4000)}, Note: truncate(note, 1500)})
	}
	// (1) structural enumeration
	type target struct{ channel, rel, src string }
	targets := []target{
		{"workflow", "", wfBaseA}, {"workflow", "", wfBaseB}, {"workflow", "", wfBaseC},
		{"action-metadata", "act/action.yml", actionYml}, {"reusable-workflow", ".github/workflows/reusable.yml", wfBaseB}, {"config", ".github/actionlint.yaml", configYml},
	}
	for _, tg := range targets {
		rootNode, err := parseYAML(tg.src)
		if err != nil {
			return err
		}
		var visits []yvisit
		walkYAML(rootNode, nil, nil, &visits)
		for vi, v := range visits {
			if len(v.path) == 0 {
				continue
			}
			for ri, rp := range repl {
				// quick tier: all replacements at workflow positions, every 3rd at the others
				if c.quick && tg.channel != "workflow" && tg.channel != "config" && (vi+ri)%3 != 0 {
					continue
				}
				if c.quick && tg.src == wfBaseA && (vi+ri)%2 != 0 {
					continue
				}
				m := cloneNode(rootNode)
				parent := nodeAt(m, v.path[:len(v.path)-1])
				parent.Content[v.path[len(v.path)-1]] = cloneNode(rp)
				src, err := emitYAML(m)
				if err != nil {
					continue
				}
				what := fmt.Sprintf("%s ← %s %q", strings.Join(v.keys, "."), rp.Tag, truncate(rp.Value, 20))
				r.Evaluations++
				r.nontrivial(tg.channel + what + fmt.Sprint(v.isKey))
				r.hist("channel:" + tg.channel)
				if tg.rel == "" {
					_, _, pmsg, to := lintGuarded("w.yaml", src)
					if pmsg != "" || to {
						report(tg.channel, what, src, pmsg, to)
					}
				} else {
					write(tg.rel, src)
					pmsg, to, _ := lintProject()
					if pmsg != "" || to {
						report(tg.channel, what, src, pmsg, to)
					}
				}
			}
			// alias at this position to an anchor on the first scalar of the document
			if !v.isKey {
				m := cloneNode(rootNode)
				var first *yaml.Node
				var vs2 []yvisit
				walkYAML(m, nil, nil, &vs2)
				for _, x := range vs2 {
					if x.node.Kind == yaml.ScalarNode && !x.isKey {
						first = x.node
						break
					}
				}
				// the same with the anchor on a null, a mapping and a sequence (planted as the value of an extra first key of the
				// document): the bare alias at this position
				if top := m.Content[0]; top.Kind == yaml.MappingNode {
					for _, tn := range []*yaml.Node{
						{Kind: yaml.ScalarNode, Tag: "!!null", Value: "~"},
						{Kind: yaml.MappingNode, Tag: "!!map", Content: []*yaml.Node{{Kind: yaml.ScalarNode, Tag: "!!str", Value: "a"}, {Kind: yaml.ScalarNode, Tag: "!!str", Value: "b"}}},
						{Kind: yaml.SequenceNode, Tag: "!!seq", Content: []*yaml.Node{{Kind: yaml.ScalarNode, Tag: "!!str", Value: "a"}}},
					} {
						m2 := cloneNode(rootNode)
						top2 := m2.Content[0]
						target := cloneNode(tn)
						target.Anchor = "anc"
						// the path of the position shifts by the planted pair when it goes through the top mapping
						p2 := append(ypath{}, v.path...)
						if len(p2) >= 2 {
							p2[1] += 2
						}
						top2.Content = append([]*yaml.Node{{Kind: yaml.ScalarNode, Tag: "!!str", Value: "zz-anchor"}, target}, top2.Content...)
						par := nodeAt(m2, p2[:len(p2)-1])
						if par == nil || p2[len(p2)-1] >= len(par.Content) {
							continue
						}
						par.Content[p2[len(p2)-1]] = &yaml.Node{Kind: yaml.AliasNode, Alias: target, Value: "anc"}
						src, err := emitYAML(m2)
						if err != nil {
							continue
						}
						what := "alias to an anchored " + tn.Tag + " at " + strings.Join(v.keys, ".")
						r.Evaluations++
						r.nontrivial(tg.channel + what)
						r.hist("alias-target:" + tn.Tag)
						if tg.rel == "" {
							_, _, pmsg, to := lintGuarded("w.yaml", src)
							if pmsg != "" || to {
								report(tg.channel, what, src, pmsg, to)
							}
						} else {
							write(tg.rel, src)
							pmsg, to, _ := lintProject()
							if pmsg != "" || to {
								report(tg.channel, what, src, pmsg, to)
							}
						}
					}
				}
				if first != nil && nodeAt(m, v.path) != first {
					first.Anchor = "anc"
					parent := nodeAt(m, v.path[:len(v.path)-1])
					alias := func() *yaml.Node { return &yaml.Node{Kind: yaml.AliasNode, Alias: first, Value: "anc"} }
					str := func(s string) *yaml.Node { return &yaml.Node{Kind: yaml.ScalarNode, Tag: "!!str", Value: s} }
					seq := func(c ...*yaml.Node) *yaml.Node { return &yaml.Node{Kind: yaml.SequenceNode, Tag: "!!seq", Content: c} }
					mp := func(c ...*yaml.Node) *yaml.Node { return &yaml.Node{Kind: yaml.MappingNode, Tag: "!!map", Content: c} }
					// the alias itself, and the alias one and two levels inside a sequence / mapping planted here
					shapes := []struct {
						name string
						n    *yaml.Node
					}{
						{"alias", alias()}, {"[x, alias]", seq(str("x"), alias())}, {"[[x, alias]]", seq(seq(str("x"), alias()))},
						{"{k: alias}", mp(str("k"), alias())}, {"{k: [alias]}", mp(str("k"), seq(alias()))}, {"[{k: alias}]", seq(mp(str("k"), alias()))},
						{"{alias: v}", mp(alias(), str("v"))},
					}
					for si, sh := range shapes {
						if c.quick && si > 0 && tg.channel != "workflow" {
							continue
						}
						parent.Content[v.path[len(v.path)-1]] = sh.n
						src, err := emitYAML(m)
						if err != nil {
							continue
						}
						what := sh.name + " at " + strings.Join(v.keys, ".")
						r.Evaluations++
						r.nontrivial(tg.channel + what)
						r.hist("alias-shape")
						if tg.rel == "" {
							_, _, pmsg, to := lintGuarded("w.yaml", src)
							if pmsg != "" || to {
								report(tg.channel, what, src, pmsg, to)
							}
						} else {
							write(tg.rel, src)
							pmsg, to, _ := lintProject()
							if pmsg != "" || to {
								report(tg.channel, what, src, pmsg, to)
							}
						}
					}
				}
			}
		}
		restore()
	}
	// (1b) text that another parser or slicing code consumes downstream (cron specs for robfig/cron, filter patterns, action /
	// docker / workflow specs, shell templates, numbers, format strings): every such text at every scalar VALUE of the base
	// workflows (quick tier: at the values whose key names one of those consumers, and every 4th elsewhere)
	{
		hostile := []string{
			"TZ=UTC", "CRON_TZ=Asia/Tokyo", "TZ=", "TZ=UTC 0 0 * * *", "CRON_TZ=Nowhere 0 0 * * *", "TZ=UTC\t0 0 * * *", "@every 1s", "@every", "@yearly", "@", "* * * * * *", "* * * *",
			"*/0 * * * *", "60 * * * *", "0-59/0 * * * *", "1-0 * * * *", "99999999999999999999 * * * *", "? ? ? ? ?", "*/99999999999999999999 * * * *", "0 0 31 2 *", "-1 * * * *", "1,,2 * * * *", "1- * * * *", "/ * * * *",
			"docker://", "docker://%zz", "docker://:@", "docker://a:b:c", "./", "./@", "../", "a/b@", "a/b/c/d@", "@", "@v1", "/", "//@", "a//@v1", "\\", "[", "[!", "[]", "[a-", "**[", "a\\", "!", "!!", "?", "+", "*?+",
			"%", "%!s(MISSING)", "%[1]d", "{0}", "bash {0", "{", "}", "{0} {1}", "sh -c {0} {0}", "0x1p-2", "1e", "1e+", ".", "-", "--", "+1", "1_000", "0b1", "0o7", "Inf", "NaN", "~/", "~",
			"${{ format('{0}') }}", "${{ format('{', 1) }}", "${{ format('{0', 1) }}", "${{ format('{999999999999999999999}', 1) }}", "${{ format('}}{{', 1) }}", "${{ x[ }}", "${{ 1e999 }}", "${{ 0x }}", "${{ 'a' }} ${{", "${{ fromJSON('{\"a\":') }}",
		}
		consumers := map[string]bool{"cron": true, "paths": true, "paths-ignore": true, "branches": true, "branches-ignore": true, "tags": true, "tags-ignore": true, "uses": true, "shell": true, "image": true, "timeout-minutes": true, "runs-on": true, "if": true, "working-directory": true, "types": true, "max-parallel": true, "ports": true, "volumes": true, "options": true, "url": true, "group": true, "run": true, "labels": true, "default": true, "type": true}
		for bi, base := range []string{wfBaseA, wfBaseB, wfBaseC} {
			rootNode, err := parseYAML(base)
			if err != nil {
				return err
			}
			var visits []yvisit
			walkYAML(rootNode, nil, nil, &visits)
			for vi, v := range visits {
				if len(v.path) == 0 || v.isKey || v.node.Kind != yaml.ScalarNode {
					continue
				}
				named := false
				for _, k := range v.keys {
					if consumers[k] {
						named = true
					}
				}
				for hi, h := range hostile {
					if c.quick && !named && (vi+hi+bi)%4 != 0 {
						continue
					}
					m := cloneNode(rootNode)
					parent := nodeAt(m, v.path[:len(v.path)-1])
					parent.Content[v.path[len(v.path)-1]] = &yaml.Node{Kind: yaml.ScalarNode, Tag: "!!str", Value: strings.ReplaceAll(h, "\\t", "\t"), Style: yaml.SingleQuotedStyle}
					src, err := emitYAML(m)
					if err != nil {
						continue
					}
					what := fmt.Sprintf("%s ← text %q", strings.Join(v.keys, "."), h)
					r.Evaluations++
					r.nontrivial("hostile" + what)
					r.hist("channel:hostile-text")
					if _, _, pmsg, to := lintGuarded("w.yaml", src); pmsg != "" || to {
						report("workflow", what, src, pmsg, to)
					}
				}
			}
		}
	}
	// (2) byte-level mutations
	special := []string{"\x00", "\xff", "\xc3", "\n", "\t", ":", "- ", "&a ", "*a", "!!float ", "${{", "}}", "'", "\"", "|", ">", "[", "{", "#", "%", "\r\n", "\r", "\u0085", "\u2028", "\ufeff", "? ", "<<: "}
	for i := 0; i < nMut; i++ {
		tg := targets[rng.Intn(len(targets))]
		b := []byte(tg.src)
		for k := 0; k < 1+rng.Intn(3); k++ {
			switch rng.Intn(5) {
			case 0:
				if len(b) > 0 {
					b[rng.Intn(len(b))] ^= byte(1 << uint(rng.Intn(8)))
				}
			case 1:
				p := rng.Intn(len(b) + 1)
				s := special[rng.Intn(len(special))]
				b = append(b[:p:p], append([]byte(s), b[p:]...)...)
			case 2:
				if len(b) > 0 {
					b = b[:rng.Intn(len(b))]
				}
			case 3:
				lines := bytes.Split(b, []byte("\n"))
				if len(lines) > 1 {
					j := rng.Intn(len(lines))
					lines = append(lines[:j+1:j+1], lines[j:]...)
					b = bytes.Join(lines, []byte("\n"))
				}
			default:
				if len(b) > 2 {
					p := rng.Intn(len(b) - 1)
					q := p + 1 + rng.Intn(min(len(b)-p-1, 30)+1)
					if q > len(b) {
						q = len(b)
					}
					b = append(b[:p:p], b[q:]...)
				}
			}
		}
		src := string(b)
		r.Evaluations++
		r.nontrivial(src)
		r.hist("mutation:" + tg.channel)
		if tg.rel == "" {
			_, _, pmsg, to := lintGuarded("w.yaml", src)
			if pmsg != "" || to {
				report(tg.channel, "byte mutation", src, pmsg, to)
			}
			if pmsg, to := lintFormatGuarded("w.yaml", src); pmsg != "" || to {
				report(tg.channel, "byte mutation, -format '{{json .}}'", src, pmsg, to)
			}
		} else {
			write(tg.rel, src)
			pmsg, to, _ := lintProject()
			if pmsg != "" || to {
				report(tg.channel, "byte mutation", src, pmsg, to)
			}
			write(tg.rel, tg.src)
		}
	}
	restore()
	// (2b) rendering: the diagnostics of the project's own test workflows (most of them have some) are printed in the
	// default way and through a -format template after one of their line breaks was replaced by a lone CR / NEL / LS
	// (YAML counts these as line breaks, the snippet printer's line scanner does not: columns no longer fit the lines)
	{
		n2b := 0
		for _, src := range pwCorpus() {
			var nl []int
			for i := 0; i < len(src); i++ {
				if src[i] == '\n' {
					nl = append(nl, i)
				}
			}
			if len(nl) == 0 {
				continue
			}
			k := 2
			if !c.quick {
				k = 12
			}
			for j := 0; j < k; j++ {
				at := nl[rng.Intn(len(nl))]
				for _, br := range []string{"\r", "\u0085", "\u2028"} {
					m := src[:at] + br + src[at+1:]
					r.Evaluations++
					n2b++
					r.hist("render:line-break-variant")
					if _, _, pmsg, to := lintGuarded("w.yaml", m); pmsg != "" || to {
						report("workflow", "line break replaced by "+strconv.Quote(br)+", default output", m, pmsg, to)
					}
					if pmsg, to := lintFormatGuarded("w.yaml", m); pmsg != "" || to {
						report("workflow", "line break replaced by "+strconv.Quote(br)+", -format '{{json .}}'", m, pmsg, to)
					}
				}
			}
		}
		r.Notes = append(r.Notes, fmt.Sprintf("(2b) %d corpus workflows with a line break replaced by CR / NEL / LS, rendered in default and -format mode", n2b))
	}
	// (4) references to local callees: every spelling of a `uses:` spec (well-formed, with @ref, missing, a directory,
	// unparseable, with a placeholder, path tricks), each used by TWO jobs / TWO steps of one file and by a second file
	// linted in the same call (the metadata caches see every spec several times, hit and miss, concurrently)
	{
		restore()
		os.MkdirAll(filepath.Join(root, ".github", "workflows", "adir.yml"), 0o755)
		write(".github/workflows/unparseable.yml", "on:\n  workflow_call:\n    inputs: [a, b]\njobs: {}\n")
		write(".github/workflows/notyaml.yml", "on: [unclosed\n")
		os.MkdirAll(filepath.Join(root, "brokenact"), 0o755)
		write("brokenact/action.yml", "name: [unclosed\n")
		os.MkdirAll(filepath.Join(root, "emptyact"), 0o755)
		write("emptyact/action.yml", "")
		wfSpecs := []string{"./.github/workflows/reusable.yml", "./.github/workflows/reusable.yml@main", "./.github/workflows/missing.yml", "./.github/workflows/missing.yml@v1",
			"./.github/workflows/adir.yml", "./.github/workflows/unparseable.yml", "./.github/workflows/notyaml.yml", "./", ".", "./.github/workflows/${{ matrix.x }}.yml",
			"./../repo/.github/workflows/reusable.yml", "./.github/workflows/REUSABLE.yml", "./.github//workflows/reusable.yml", "owner/repo/.github/workflows/x.yml@v1", "./.github/workflows/reusable.yml@", "@"}
		actSpecs := []string{"./act", "./act@v1", "./missingact", "./brokenact", "./emptyact", "./", ".", "./act/", "./act/../act", "./${{ matrix.x }}", "./ACT", "docker://alpine", "actions/checkout@v4", "./act@", "@"}
		for _, kind := range []string{"workflow", "action"} {
			specs := wfSpecs
			if kind == "action" {
				specs = actSpecs
			}
			for _, spec := range specs {
				var src string
				if kind == "workflow" {
					src = "on: push\njobs:\n  a:\n    uses: " + spec + "\n  b:\n    uses: " + spec + "\n    with:\n      name: x\n  c:\n    needs: [a, b]\n    runs-on: ubuntu-latest\n    steps:\n      - run: echo ${{ needs.a.outputs.o }}\n"
				} else {
					src = "on: push\njobs:\n  a:\n    runs-on: ubuntu-latest\n    steps:\n      - uses: " + spec + "\n        id: s\n      - uses: " + spec + "\n        with:\n          x: 1\n      - run: echo ${{ steps.s.outputs.o }}\n"
				}
				write(".github/workflows/caller.yml", src)
				write(".github/workflows/caller2.yml", src)
				what := kind + " spec " + strconv.Quote(spec) + " used twice in each of two files"
				r.Evaluations++
				r.nontrivial("spec:" + kind + spec)
				r.hist("callee-spec:" + kind)
				// … with the options as on a plain command line, and with -verbose / -debug logging switched on
				for _, opts := range []*actionlint.LinterOptions{{Shellcheck: "", Pyflakes: ""}, {Shellcheck: "", Pyflakes: "", Verbose: true, LogWriter: nopWriter{}}, {Shellcheck: "", Pyflakes: "", Debug: true, LogWriter: nopWriter{}}} {
					opts := opts
					pmsg, to := guarded(20*time.Second, func() {
						l, err := actionlint.NewLinter(nopWriter{}, opts)
						if err != nil {
							return
						}
						l.LintFiles([]string{filepath.Join(".github", "workflows", "caller.yml"), filepath.Join(".github", "workflows", "caller2.yml")}, nil)
					})
					r.Evaluations++
					if pmsg != "" || to {
						w2 := what
						if opts.Debug {
							w2 += " (with -debug)"
						} else if opts.Verbose {
							w2 += " (with -verbose)"
						}
						report("callee-spec", w2, src, pmsg, to)
					}
				}
			}
		}
		os.Remove(filepath.Join(root, ".github", "workflows", "caller2.yml"))
		restore()
	}
	// (4c) paths that cannot be read: k missing files, directories and one readable file in one LintFiles call, for k up to
	// twice the number of CPUs (the reads are bounded by a semaphore of that size: an error path that keeps its permit
	// would starve the later files). Every call must return a fatal error within the time limit
	{
		cpus := runtime.NumCPU()
		good := filepath.Join(root, ".github", "workflows", "caller.yml")
		for _, k := range []int{1, 2, cpus - 1, cpus, cpus + 1, cpus + 2, 2*cpus + 3} {
			if k < 1 {
				continue
			}
			for _, layout := range []string{"missing-first", "missing-last", "directories"} {
				var paths []string
				for i := 0; i < k; i++ {
					if layout == "directories" {
						paths = append(paths, filepath.Join(root, ".github"))
					} else {
						paths = append(paths, filepath.Join(root, fmt.Sprintf("no-such-file-%d.yml", i)))
					}
				}
				if layout == "missing-last" {
					paths = append([]string{good}, paths...)
				} else {
					paths = append(paths, good)
				}
				var lerr error
				pmsg, to := guarded(20*time.Second, func() {
					l, err := actionlint.NewLinter(nopWriter{}, &actionlint.LinterOptions{Shellcheck: "", Pyflakes: ""})
					if err != nil {
						lerr = err
						return
					}
					_, lerr = l.LintFiles(paths, nil)
				})
				r.Evaluations++
				r.nontrivial(fmt.Sprintf("unreadable:%d:%s", k, layout))
				r.hist("channel:unreadable-files")
				what := fmt.Sprintf("%d unreadable paths (%s) and one workflow in one LintFiles call, %d CPUs", k, layout, cpus)
				if pmsg != "" || to {
					report("unreadable-files", what, strings.Join(paths, "\n"), pmsg, to)
				} else if lerr == nil {
					r.finding("unreadable-file-not-fatal", what+": no fatal error", Case{Op: "lintfiles", Input: map[string]string{"paths": strings.Join(paths, "\n")}})
				}
			}
		}
	}
	// (4b) the same spec spellings in files that belong to NO repository (no .git above them), two files per invocation, in a
	// child process (a panic in one of the per-file goroutines cannot be recovered in-process)
	{
		self, _ := os.Executable()
		nodir := filepath.Join(tmp, "norepo")
		os.MkdirAll(nodir, 0o755)
		specs := []string{"./foo@bar", "./.github/workflows/x.yml", "./.github/workflows/x.yml@v1", "./", "owner/repo/.github/workflows/x.yml@v1", "./act", "./act@v1", "./${{ matrix.x }}"}
		for _, kind := range []string{"workflow", "action"} {
			for _, spec := range specs {
				var src string
				if kind == "workflow" {
					src = "on: push\njobs:\n  a:\n    uses: " + spec + "\n  b:\n    uses: " + spec + "\n"
				} else {
					src = "on: push\njobs:\n  a:\n    runs-on: ubuntu-latest\n    steps:\n      - uses: " + spec + "\n      - uses: " + spec + "\n"
				}
				p1, p2 := filepath.Join(nodir, "a.yml"), filepath.Join(nodir, "b.yml")
				os.WriteFile(p1, []byte(src), 0o644)
				os.WriteFile(p2, []byte(src), 0o644)
				cmd := exec.Command(self, "-replay", p1+","+p2, "C01-child")
				var out bytes.Buffer
				cmd.Stdout, cmd.Stderr = &out, &out
				cmd.Dir = nodir
				done := make(chan error, 1)
				cmd.Start()
				go func() { done <- cmd.Wait() }()
				r.Evaluations++
				r.nontrivial("norepo:" + kind + spec)
				cs := Case{Op: "lint-child", Input: map[string]string{"files": "a.yml b.yml (outside any repository)", "source": src}}
				select {
				case err := <-done:
					code := 0
					if ee, ok := err.(*exec.ExitError); ok {
						code = ee.ExitCode()
					}
					r.hist(fmt.Sprintf("norepo-exit:%d", code))
					if code != 0 && code != 1 && code != 3 {
						key := "crash:norepo"
						for _, ln := range strings.Split(out.String(), "\n") {
							if i := strings.Index(ln, "/repo/"); i >= 0 && strings.Contains(ln, ".go:") {
								key = "panic:" + strings.Fields(ln[i+len("/repo/"):])[0]
								break
							}
						}
						cs.Note = truncate(out.String(), 1500)
						r.finding(key, fmt.Sprintf("two files outside any repository with `uses: %s`: the process exits with status %d", spec, code), cs)
					}
				case <-time.After(60 * time.Second):
					cmd.Process.Kill()
					r.finding("hang:norepo", "child process did not finish within 60 s", cs)
				}
			}
		}
	}
	// (3) deep / large inputs in a child process (a fatal runtime error cannot be recovered in-process)
	self, _ := os.Executable()
	deep := map[string]string{
		"deep-parens":    "on: push\njobs:\n  j:\n    runs-on: ubuntu-latest\n    steps:\n      - run: echo ${{ " + strings.Repeat("(", 30000) + "1" + strings.Repeat(")", 30000) + " }}\n",
		"deep-not":       "on: push\njobs:\n  j:\n    runs-on: ubuntu-latest\n    if: ${{ " + strings.Repeat("!", 60000) + "true }}\n    steps:\n      - run: echo\n",
		"deep-index":     "on: push\njobs:\n  j:\n    runs-on: ubuntu-latest\n    steps:\n      - run: echo ${{ github" + strings.Repeat("[github", 8000) + strings.Repeat("]", 8000) + " }}\n",
		"deep-flow-seq":  "on: push\njobs:\n  j:\n    runs-on: ubuntu-latest\n    strategy:\n      matrix:\n        a: " + strings.Repeat("[", 9000) + strings.Repeat("]", 9000) + "\n    steps:\n      - run: echo\n",
		"deep-json":      "on: push\njobs:\n  j:\n    runs-on: ubuntu-latest\n    steps:\n      - run: echo ${{ fromJSON('" + strings.Repeat("[", 30000) + strings.Repeat("]", 30000) + "') }}\n",
		"many-jobs":      "on: push\njobs:\n" + strings.Repeat("  jX:\n    runs-on: ubuntu-latest\n    steps:\n      - run: echo\n", 1),
		"long-line-64k":  "on: push\njobs:\n  j:\n    runs-on: ubuntu-latest\n    steps:\n      - run: echo " + strings.Repeat("${{ github.sha }} ", 3500) + "\n",
		"needs-chain":    func() string { var sb strings.Builder; sb.WriteString("on: push\njobs:\n"); for i := 0; i < 600; i++ { fmt.Fprintf(&sb, "  j%d:\n    needs: j%d\n    runs-on: ubuntu-latest\n    steps:\n      - run: echo\n", i, (i+1)%600) }; return sb.String() }(),
	}
	for name, src := range deep {
		p := filepath.Join(tmp, name+".yaml")
		os.WriteFile(p, []byte(src), 0o644)
		cmd := exec.Command(self, "-replay", p, "C01-child")
		cmd.Env = append(os.Environ(), "GOMEMLIMIT=2GiB")
		var out bytes.Buffer
		cmd.Stdout, cmd.Stderr = &out, &out
		done := make(chan error, 1)
		cmd.Start()
		go func() { done <- cmd.Wait() }()
		r.Evaluations++
		r.nontrivial("deep:" + name)
		select {
		case err := <-done:
			code := 0
			if ee, ok := err.(*exec.ExitError); ok {
				code = ee.ExitCode()
			}
			r.hist(fmt.Sprintf("child-exit:%d", code))
			if code != 0 && code != 1 && code != 3 {
				r.finding("crash:"+name, fmt.Sprintf("child process for %s exited with status %d", name, code), Case{Op: "lint-child", Input: map[string]string{"case": name, "size": fmt.Sprint(len(src))}, Note: truncate(out.String(), 1500)})
			}
		case <-time.After(60 * time.Second):
			cmd.Process.Kill()
			r.finding("hang:"+name, "child process did not finish within 60 s", Case{Op: "lint-child", Input: map[string]string{"case": name, "size": fmt.Sprint(len(src))}})
		}
	}
	// part (5): the CRON check (rule_events.go checkCron = guard + robfig/cron's Parser.Parse + SpecSchedule.Next + the
	// 5-minute rule) against its model AL.Cron: generated specs (valid by construction, malformed, time-zone prefixes with and
	// without a blank, Unicode blanks, non-ASCII) through Parser.Parse alone under recover (a panic is an outcome the model
	// predicts: exactly the specs the guard stops), through the statements of checkCron and through the whole linter
	nCron := 4000
	if !c.quick {
		nCron = 90000
	}
	cb := &batch{}
	cronStandard(c, r, cb, rand.New(rand.NewSource(c.seed*7919+101)), nCron)
	if _, err := cb.flush(c, r); err != nil {
		return err
	}
	r.sample(map[string]string{"channel": "workflow", "mutation": "jobs.build.timeout-minutes ← !!float \"nan\""})
	r.sample(map[string]string{"channel": "config", "mutation": "paths ← !!seq"})
	return nil
}

// runC01Child lints one file through Command.Main and exits with its status.
func runC01Child(c *ctx, r *Report) error {
	var out, errb bytes.Buffer
	cmd := actionlint.Command{Stdin: strings.NewReader(""), Stdout: &out, Stderr: &errb}
	st := cmd.Main(append([]string{"actionlint", "-shellcheck=", "-pyflakes=", "-oneline"}, strings.Split(c.replay, ",")...))
	os.Exit(st)
	return nil
}
