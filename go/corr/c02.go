package main

import (
	"bytes"
	"fmt"
	"os"
	"path/filepath"
	"runtime"
	"strings"

	"github.com/rhysd/actionlint"
)

func init() { props["C02"] = runC02 }

// workflows built to produce two or more diagnostics at ONE source position, or several candidates
// (cycles, conflicts, missing inputs), at every site where the code ranges over a Go map
var c02Workflows = map[string]string{
	"format-holders.yml": "on: push\njobs:\n  j:\n    runs-on: ubuntu-latest\n    steps:\n      - run: echo ${{ format('{0}{3}{5}{9}{7}{2}', 1) }}\n",
	"action-required.yml": "on: push\njobs:\n  j:\n    runs-on: ubuntu-latest\n    steps:\n      - uses: actions/cache@v4\n      - uses: actions/upload-release-asset@v1\n      - uses: actions/checkout@v4\n        with:\n          zz1: 1\n          zz2: 2\n          zz3: 3\n",
	"runner-labels.yml": "on: push\njobs:\n  j:\n    runs-on: [ubuntu-latest, macos-latest, windows-latest, ubuntu-22.04]\n    steps:\n      - run: echo\n  k:\n    runs-on: [windows-2022, macos-14, ubuntu-latest, macos-latest]\n    steps:\n      - run: echo\n",
	"cycles.yml": "on: push\njobs:\n  a:\n    needs: b\n    runs-on: ubuntu-latest\n    steps:\n      - run: echo\n  b:\n    needs: a\n    runs-on: ubuntu-latest\n    steps:\n      - run: echo\n  c:\n    needs: d\n    runs-on: ubuntu-latest\n    steps:\n      - run: echo\n  d:\n    needs: [c, e]\n    runs-on: ubuntu-latest\n    steps:\n      - run: echo\n  e:\n    needs: e\n    runs-on: ubuntu-latest\n    steps:\n      - run: echo\n",
	"merge-order.yml": "on: push\njobs:\n  j:\n    runs-on: ubuntu-latest\n    services:\n      s:\n        image: x\n    steps:\n      - run: |\n          echo ${{ (job.services || fromJSON('{\"p\":{\"x\":1},\"q\":{\"x\":\"s\"},\"r\":{\"x\":true}}')).foo.x.y }}\n      - run: |\n          echo ${{ (fromJSON('{\"a\":1,\"b\":\"s\",\"c\":true,\"d\":null}') || job.services).zz.y }}\n",
	"undefined-many.yml": "on: push\njobs:\n  j:\n    runs-on: ubuntu-latest\n    strategy:\n      matrix:\n        a: [1]\n        b: [1]\n        c: [1]\n        exclude:\n          - x: 1\n            y: 2\n            z: 3\n    steps:\n      - run: echo ${{ nosuchvar }} ${{ nosuchfn() }}\n      - run: echo ${{ github.nosuch }}\n    permissions:\n      zz1: read\n      zz2: write\n",
	"workflow-call.yml": "on: push\njobs:\n  c1:\n    uses: ./.github/workflows/reusable.yml\n  c2:\n    uses: ./.github/workflows/reusable.yml\n    with:\n      x1: 1\n      x2: 2\n    secrets:\n      y1: a\n      y2: b\n  l1:\n    runs-on: ubuntu-latest\n    steps:\n      - uses: ./.github/actions/local\n      - uses: ./.github/actions/local\n        with:\n          q1: 1\n          q2: 2\n",
	// inputs / secrets / outputs that refer to each other in their description / default / options: what is in scope
	// while the declarations are being checked must not depend on the order the map hands them out
	"dispatch-cross-ref.yml": "on:\n  workflow_dispatch:\n    inputs:\n      alpha:\n        description: a ${{ inputs.bravo }}\n        default: ${{ inputs.charlie }}\n        type: string\n      bravo:\n        description: b ${{ inputs.delta }} ${{ github.event.inputs.alpha }}\n        type: choice\n        options: [\"${{ inputs.echo }}\", x]\n      charlie:\n        default: ${{ inputs.alpha }}\n        type: string\n      delta:\n        description: ${{ inputs.echo }}\n        type: boolean\n      echo:\n        description: ${{ inputs.alpha }} ${{ inputs.bravo }} ${{ inputs.charlie }} ${{ inputs.delta }}\n        type: number\njobs:\n  j:\n    runs-on: ubuntu-latest\n    steps:\n      - run: echo\n",
	"call-cross-ref.yml": "on:\n  workflow_call:\n    inputs:\n      alpha:\n        type: string\n        default: ${{ inputs.bravo }} ${{ inputs.charlie }}\n      bravo:\n        type: string\n        default: ${{ inputs.alpha }} ${{ inputs.charlie }}\n      charlie:\n        type: string\n        default: ${{ inputs.alpha }} ${{ inputs.bravo }}\n    secrets:\n      s1:\n        description: ${{ secrets.s2 }}\n      s2:\n        description: ${{ secrets.s1 }}\n    outputs:\n      o1:\n        description: ${{ jobs.j.outputs.x }}\n        value: ${{ jobs.j.outputs.x }} ${{ jobs.k.outputs.y }}\n      o2:\n        value: ${{ jobs.k.outputs.y }} ${{ jobs.nojob.outputs.z }}\njobs:\n  j:\n    runs-on: ubuntu-latest\n    outputs:\n      x: a\n    steps:\n      - run: echo\n  k:\n    runs-on: ubuntu-latest\n    outputs:\n      y: b\n    steps:\n      - run: echo\n",
	// two files that reference the same defective local action / reusable workflow: the callee's own defect must show
	// up at the same place in every run (the caches are filled by whichever file comes first)
	"callee-defect-1.yml": "on: push\njobs:\n  j:\n    runs-on: ubuntu-latest\n    steps:\n      - uses: ./.github/actions/bad\n        id: s\n      - uses: ./.github/actions/broken\n  k:\n    uses: ./.github/workflows/badwf.yml\n",
	// ONE file whose jobs reference the same defective callees: the callee's own defect is reported once, at the first job
	// in source order (the visitor used to walk the jobs in map order)
	"callee-defect-within.yml": "on: push\njobs:\n  a:\n    uses: ./.github/workflows/badwf.yml\n  b:\n    uses: ./.github/workflows/badwf.yml\n  c:\n    uses: ./.github/workflows/missing.yml\n  d:\n    uses: ./.github/workflows/missing.yml\n  e:\n    uses: ./.github/workflows/badwf.yml\n  f:\n    runs-on: ubuntu-latest\n    steps:\n      - uses: ./.github/actions/broken\n  g:\n    runs-on: ubuntu-latest\n    steps:\n      - uses: ./.github/actions/broken\n      - uses: ./.github/actions/bad\n  h:\n    runs-on: ubuntu-latest\n    steps:\n      - uses: ./.github/actions/bad\n",
	"callee-defect-2.yml": "on: push\njobs:\n  j:\n    runs-on: ubuntu-latest\n    steps:\n      - uses: ./.github/actions/bad\n      - uses: ./.github/actions/broken\n  k:\n    uses: ./.github/workflows/badwf.yml\n  m:\n    uses: ./.github/workflows/missing.yml\n",
	// candidates whose positions have an increasing line and a DECREASING column (flow style over several lines):
	// the order "first by position" must still be a total order there
	// incomplete jobs (no runs-on / no steps) between complete ones on different platforms: whatever a rule remembers about the
	// job it has just left (platform, default shells, seen ids) would show in the diagnostics of the next one — and the next
	// one is whichever the map iteration yields
	"incomplete-jobs.yml": "on: push\njobs:\n  w1: {runs-on: windows-latest, steps: [{run: echo, shell: bash}]}\n  n1: {steps: [{run: echo, shell: sh}, {run: echo, shell: cmd}]}\n  u1: {runs-on: ubuntu-latest, steps: [{run: echo, shell: pwsh}]}\n  n2: {steps: [{run: echo, shell: powershell}, {id: a, run: echo}, {id: a, run: echo}]}\n  m1: {runs-on: macos-latest, steps: [{id: a, run: echo, shell: bash}]}\n  n3: {steps: [{run: echo, shell: sh}]}\n  w2: {runs-on: windows-2022, defaults: {run: {shell: cmd}}, steps: [{run: echo}]}\n  n4: {steps: [{run: echo, shell: cmd}, {run: echo, shell: bash}]}\n  n5: {runs-on: ubuntu-latest}\n  n6: {steps: [{id: a, run: echo, shell: pwsh}]}\n",
	"staircase.yml": "on: push\njobs: {\n        aa: {needs: [bb], runs-on: ubuntu-latest, steps: [{run: echo}]},\n      bb: {needs: [aa], runs-on: ubuntu-latest, steps: [{run: echo}]},\n    cc: {needs: [dd], runs-on: ubuntu-latest, steps: [{run: echo}]},\n  dd: {needs: [cc], runs-on: ubuntu-latest, steps: [{run: echo}]},\n  l: {runs-on: [                 linux,\n          ubuntu-22.04,\n    windows-latest, macos-latest], steps: [{run: echo}]},\n  m: {strategy: {matrix: {include: [{os: linux}], os: [ubuntu-22.04], target: [windows-latest]}}, runs-on: [\"${{ matrix.os }}\", \"${{ matrix.target }}\"], steps: [{run: echo}]}\n}\n",
}

const c02Reusable = "on:\n  workflow_call:\n    inputs:\n      i1:\n        type: string\n        required: true\n      i2:\n        type: string\n        required: true\n      i3:\n        type: string\n        required: true\n    secrets:\n      s1:\n        required: true\n      s2:\n        required: true\n      s3:\n        required: true\njobs:\n  j:\n    runs-on: ubuntu-latest\n    steps:\n      - run: echo\n"
const c02LocalAction = "name: local\ndescription: d\ninputs:\n  r1:\n    description: d\n    required: true\n  r2:\n    description: d\n    required: true\n  r3:\n    description: d\n    required: true\nruns:\n  using: node20\n  main: index.js\n"

func runC02(c *ctx, r *Report) error {
	reps := 40
	if !c.quick {
		reps = 400
	}
	r.Rule = fmt.Sprintf("13 workflows built so that every site where the code ranges over a Go map yields two or more diagnostics at one source position or several candidates (surplus format placeholders, missing required inputs of bundled / local actions and of a local reusable workflow incl. secrets, undefined inputs, runner-label conflicts with several conflicting labels, several needs cycles, Merge of object types with ≥ 3 properties, several undefined matrix keys / permission scopes / variables, candidates laid out with increasing line and decreasing column, two files sharing defective local callees, one file whose jobs share them), plus eight files of two repositories with different configurations alternating in one call, in a scratch repository with a local action and a local reusable workflow; each file alone and all files in one LintFiles call are linted %d times by fresh linters under GOMAXPROCS ∈ {1,2,4,16}; output bytes (-oneline) and exit status must be identical in every repetition; non-trivial = distinct (file set, GOMAXPROCS) configurations that produce ≥ 2 diagnostics", reps)
	tmp, err := os.MkdirTemp("", "verif-c02-")
	if err != nil {
		return err
	}
	defer os.RemoveAll(tmp)
	tmp, _ = filepath.EvalSymlinks(tmp)
	root := filepath.Join(tmp, "repo")
	wfdir := filepath.Join(root, ".github", "workflows")
	os.MkdirAll(wfdir, 0o755)
	os.MkdirAll(filepath.Join(root, ".git"), 0o755)
	os.MkdirAll(filepath.Join(root, ".github", "actions", "local"), 0o755)
	os.WriteFile(filepath.Join(root, ".github", "actions", "local", "action.yml"), []byte(c02LocalAction), 0o644)
	os.WriteFile(filepath.Join(wfdir, "reusable.yml"), []byte(c02Reusable), 0o644)
	os.MkdirAll(filepath.Join(root, ".github", "actions", "bad"), 0o755)
	os.MkdirAll(filepath.Join(root, ".github", "actions", "broken"), 0o755)
	os.WriteFile(filepath.Join(root, ".github", "actions", "bad", "action.yml"), []byte("name: bad\nruns:\n  using: composite\n  steps:\n    - run: echo\n      shell: bash\n"), 0o644)
	os.WriteFile(filepath.Join(root, ".github", "actions", "broken", "action.yml"), []byte("name: [unclosed\n"), 0o644)
	os.WriteFile(filepath.Join(wfdir, "badwf.yml"), []byte("on:\n  workflow_call:\n    inputs: [a, b]\njobs: {}\n"), 0o644)
	var names []string
	for name, src := range c02Workflows {
		os.WriteFile(filepath.Join(wfdir, name), []byte(src), 0o644)
		names = append(names, name)
	}
	sortStrings(names)
	old, _ := os.Getwd()
	os.Chdir(root)
	defer os.Chdir(old)
	defer runtime.GOMAXPROCS(runtime.GOMAXPROCS(0))
	lintOnce := func(files []string) (string, int, error) {
		var out bytes.Buffer
		l, err := actionlint.NewLinter(&out, &actionlint.LinterOptions{Oneline: true, Shellcheck: "", Pyflakes: "", Color: actionlint.ColorOptionKindNever})
		if err != nil {
			return "", 0, err
		}
		var paths []string
		for _, f := range files {
			if filepath.IsAbs(f) {
				paths = append(paths, f)
			} else {
				paths = append(paths, filepath.Join(".github", "workflows", f))
			}
		}
		errs, err := l.LintFiles(paths, nil)
		if err != nil {
			return "", 3, err
		}
		st := 0
		if len(errs) > 0 {
			st = 1
		}
		return out.String(), st, nil
	}
	sets := [][]string{}
	for _, n := range names {
		sets = append(sets, []string{n})
	}
	sets = append(sets, names)
	rev := append([]string{}, names...)
	for i, j := 0, len(rev)-1; i < j; i, j = i+1, j-1 {
		rev[i], rev[j] = rev[j], rev[i]
	}
	sets = append(sets, rev)
	// files of two repositories with different configurations, alternating on the command line: each file must be
	// checked with its own repository's configuration in every run
	{
		var alt []string
		for _, rp := range []struct{ repo, label string }{{"alpha", "runner-alpha"}, {"beta", "runner-beta"}} {
			rr := filepath.Join(tmp, rp.repo)
			os.MkdirAll(filepath.Join(rr, ".git"), 0o755)
			os.MkdirAll(filepath.Join(rr, ".github", "workflows"), 0o755)
			os.WriteFile(filepath.Join(rr, ".github", "actionlint.yaml"), []byte("self-hosted-runner:\n  labels: ["+rp.label+"]\n"), 0o644)
			for i := 0; i < 4; i++ {
				p := filepath.Join(rr, ".github", "workflows", fmt.Sprintf("w%d.yml", i))
				os.WriteFile(p, []byte("on: push\njobs:\n  j:\n    runs-on: "+rp.label+"\n    steps:\n      - run: echo ${{ nosuch"+fmt.Sprint(i)+" }}\n"), 0o644)
			}
		}
		for i := 0; i < 4; i++ {
			alt = append(alt, filepath.Join(tmp, "alpha", ".github", "workflows", fmt.Sprintf("w%d.yml", i)), filepath.Join(tmp, "beta", ".github", "workflows", fmt.Sprintf("w%d.yml", i)))
		}
		sets = append(sets, alt)
	}
	for _, set := range sets {
		var ref string
		refSt := -1
		for _, procs := range []int{1, 2, 4, 16} {
			runtime.GOMAXPROCS(procs)
			n := reps / 4
			for i := 0; i < n; i++ {
				out, st, err := lintOnce(set)
				r.Evaluations++
				if err != nil {
					r.Crashes = append(r.Crashes, Case{Op: "lint-repeat", Input: map[string]string{"files": strings.Join(set, " ")}, Note: err.Error()})
					break
				}
				if refSt < 0 {
					ref, refSt = out, st
					if strings.Count(out, "\n") >= 2 {
						r.nontrivial(strings.Join(set, "+") + fmt.Sprint(procs))
					}
					r.hist(fmt.Sprintf("diagnostics:%d", min(strings.Count(out, "\n"), 20)))
					continue
				}
				if strings.Count(out, "\n") >= 2 {
					r.nontrivial(strings.Join(set, "+") + fmt.Sprint(procs))
				}
				if out != ref || st != refSt {
					// find first differing line
					a, b := strings.Split(ref, "\n"), strings.Split(out, "\n")
					diff := ""
					for k := 0; k < len(a) || k < len(b); k++ {
						x, y := "", ""
						if k < len(a) {
							x = a[k]
						}
						if k < len(b) {
							y = b[k]
						}
						if x != y {
							diff = fmt.Sprintf("line %d: %q vs %q", k+1, truncate(x, 200), truncate(y, 200))
							break
						}
					}
					key := "nondeterministic:" + strings.Join(set, "+")
					if len(set) > 1 {
						key = "nondeterministic:multi-file"
					}
					// the same diagnostics, except that a callee's own defect (reported once per run) is attributed to a
					// different one of the files that reference the callee
					if len(set) > 1 && calleeCanon(out) == calleeCanon(ref) && st == refSt {
						key = "nondeterministic:callee-defect-attribution"
					}
					r.finding(key, fmt.Sprintf("repetition %d (GOMAXPROCS=%d) differs from the first run: %s", i, procs, diff),
						Case{Op: "lint-repeat", Input: map[string]string{"files": strings.Join(set, " "), "gomaxprocs": fmt.Sprint(procs)}, Impl: truncate(out, 3000), Model: truncate(ref, 3000)})
					if key == "nondeterministic:callee-defect-attribution" {
						continue // keep comparing the remaining repetitions: another difference must not hide behind this one
					}
					break
				}
			}
		}
	}
	// the order on source positions used to pick "the first" candidate: Pos.IsBefore must be a strict total order
	// (checked law by law on the implementation over a grid), and equal to the model's (AL.SrcPos.isBefore, for
	// which AL.Props.C02Pos proves the laws and the order-independence of selection and sorting)
	{
		var b batch
		const g = 6
		before := func(l1, c1, l2, c2 int) bool {
			return (&actionlint.Pos{Line: l1, Col: c1}).IsBefore(&actionlint.Pos{Line: l2, Col: c2})
		}
		pc := func(l1, c1, l2, c2 int) Case {
			return Case{Op: "posbefore", Input: map[string]string{"p": fmt.Sprintf("line:%d,col:%d", l1, c1), "q": fmt.Sprintf("line:%d,col:%d", l2, c2)}}
		}
		for l1 := 0; l1 < g; l1++ {
			for c1 := 0; c1 < g; c1++ {
				for l2 := 0; l2 < g; l2++ {
					for c2 := 0; c2 < g; c2++ {
						r.Evaluations++
						ab, ba := before(l1, c1, l2, c2), before(l2, c2, l1, c1)
						same := l1 == l2 && c1 == c2
						if ab && ba {
							r.finding("position-order-not-strict-total", "p.IsBefore(q) and q.IsBefore(p) both hold: which candidate is 'first' depends on map iteration order", pc(l1, c1, l2, c2))
						}
						if !same && !ab && !ba {
							r.finding("position-order-not-strict-total", "neither p.IsBefore(q) nor q.IsBefore(p) for distinct positions", pc(l1, c1, l2, c2))
						}
						if same && ab {
							r.finding("position-order-not-strict-total", "p.IsBefore(p) holds", pc(l1, c1, l2, c2))
						}
						v := "0"
						if ab {
							v = "1"
						}
						b.add(fmt.Sprintf("posbefore %d %d %d %d", l1, c1, l2, c2), v, pc(l1, c1, l2, c2))
						if ab {
							for l3 := 0; l3 < g; l3++ {
								for c3 := 0; c3 < g; c3++ {
									if before(l2, c2, l3, c3) && !before(l1, c1, l3, c3) {
										cs := pc(l1, c1, l2, c2)
										cs.Input["r"] = fmt.Sprintf("line:%d,col:%d", l3, c3)
										r.finding("position-order-not-strict-total", "IsBefore is not transitive (p < q, q < r, not p < r)", cs)
									}
								}
							}
						}
					}
				}
			}
		}
		r.nontrivial("posbefore-grid")
		r.Rule += fmt.Sprintf("; Pos.IsBefore on the %d×%d grid of (line, col) pairs: irreflexive, asymmetric, total, transitive, and equal to the Lean model", g*g, g*g)
		b.judge = func(cs Case) (string, string) {
			return "position-order-differs-from-lexicographic", "Pos.IsBefore differs from the (line, column) lexicographic order the selection / sorting theorems are proved for"
		}
		if _, err := b.flush(c, r); err != nil {
			return err
		}
	}
	r.sample(map[string]interface{}{"files": names, "repetitions_per_set": reps, "gomaxprocs": []int{1, 2, 4, 16}})
	// AL.Rules.lint is a function of the YAML node tree (AL.Props.C02Rules): where the real linter's diagnostics of the modelled
	// kinds equal it on every source, they are a function of the input as well
	per := 3
	if !c.quick {
		per = 150
	}
	return lwStandard(c, r, nil, per, false)
}

func sortStrings(s []string) {
	for i := 1; i < len(s); i++ {
		for j := i; j > 0 && s[j] < s[j-1]; j-- {
			s[j], s[j-1] = s[j-1], s[j]
		}
	}
}

// calleeCanon: the output with the lines that report a callee's own defect replaced by their message alone
// (without file:line:col) and sorted to the end.
func calleeCanon(out string) string {
	var rest, callee []string
	for _, l := range strings.Split(out, "\n") {
		isCallee := false
		for _, needle := range []string{"in metadata of ", "in action metadata ", "could not parse action metadata", "error while parsing reusable workflow", "could not read reusable workflow file", "in local action "} {
			if strings.Contains(l, needle) {
				isCallee = true
			}
		}
		if isCallee {
			if i := strings.Index(l, ": "); i >= 0 {
				l = l[i+2:]
			}
			callee = append(callee, l)
		} else {
			rest = append(rest, l)
		}
	}
	sortStrings(callee)
	return strings.Join(rest, "\n") + "\n--callee--\n" + strings.Join(callee, "\n")
}
