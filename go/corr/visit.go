package main

import (
	"fmt"
	"math/rand"
	"sort"
	"strings"

	"github.com/rhysd/actionlint"
)

// Workflow-level tie of the Lean model AL.Visit (scope bookkeeping of rule_expression.go: which types the contexts
// steps / needs / matrix / inputs / secrets / jobs have where, and which workflow key — hence which availability row —
// each position is checked with). A generated workflow is written twice: as YAML for the real linter and as an
// S-expression for `aldriver visit`; every checked string ("probe") sits on its own line, and the diagnostics of
// kind [expression] on that line (incl. the type checks the rule puts on bool / number / template positions) are
// compared with the model's diagnostics for that probe.

type vProbe struct {
	line int
	key  string
	expr string
	kind string // "" = string template; b = bool; c = if condition; (n,<what>) = number
}

func (p vProbe) sexp() string {
	if p.kind == "" {
		return fmt.Sprintf("(%d,%s,%s)", p.line, hx(p.key), hx(p.expr+" }}"))
	}
	return fmt.Sprintf("(%d,%s,%s,%s)", p.line, hx(p.key), hx(p.expr+" }}"), p.kind)
}

func sexpList(items []string) string { return "(" + strings.Join(items, ",") + ")" }

type vBuilder struct {
	lines  []string
	probes []vProbe
}

func (b *vBuilder) add(l string) int {
	b.lines = append(b.lines, l)
	return len(b.lines)
}

// probe writes `prefix${{ expr }}` on a new line and registers it.
func (b *vBuilder) probe(prefix, expr, key string) vProbe { return b.probeK(prefix, expr, key, "") }

// probeK: a probe whose value gets a type check on top (kind b / c / (n,what))
func (b *vBuilder) probeK(prefix, expr, key, kind string) vProbe {
	ln := b.add(prefix + "${{ " + expr + " }}")
	p := vProbe{ln, key, expr, kind}
	b.probes = append(b.probes, p)
	return p
}

type vGen struct {
	rng      *rand.Rand
	stepIDs  []string
	jobIDs   []string
	matrixKs []string
	inputs   []string
	secrets  []string
	outs     []string
	bias     []string // expressions preferred while a directed scenario is being generated
}

func (g *vGen) pick(l []string) string { return l[g.rng.Intn(len(l))] }

// expr draws an expression that refers to one of the scoped contexts (defined and undefined names, random letter case).
func (g *vGen) expr() string {
	rc := func(s string) string { return randCase(g.rng, s) }
	if len(g.bias) > 0 && g.rng.Intn(2) == 0 {
		return g.pick(g.bias)
	}
	var e string
	k := g.rng.Intn(12)
	defer func() {}()
	switch k {
	case 0, 1:
		e = "steps." + rc(g.pick(g.stepIDs)) + "." + g.pick([]string{"outputs.x", "conclusion", "outcome", "outputs.ref", "nope", "outputs"})
	case 2:
		e = "needs." + rc(g.pick(g.jobIDs)) + "." + g.pick([]string{"result", "outputs." + g.pick(g.outs), "outputs", "nope"})
	case 3:
		e = "matrix." + rc(g.pick(g.matrixKs)) + g.pick([]string{"", "", ".name", ".foo", "[0]", ".cc", ".flags", ".std", ".deep.x", ".deep.y", ".Deep.nope"})
	case 4:
		e = "inputs." + rc(g.pick(g.inputs))
	case 5:
		e = "secrets." + rc(g.pick(g.secrets))
	case 6:
		e = "github.event.inputs." + rc(g.pick(g.inputs))
	case 7:
		e = "jobs." + rc(g.pick(g.jobIDs)) + ".outputs." + g.pick(g.outs)
	case 8:
		e = g.pick([]string{"matrix", "toJSON(needs)", "toJSON(steps)", "inputs", "github.sha", "env.FOO", "runner.os", "vars.X", "strategy.job-index", "job.status"})
	case 9:
		e = g.pick([]string{"always()", "success() && true", "hashFiles('a')", "failure()", "cancelled()"})
	case 10:
		e = "format('{0}', steps." + rc(g.pick(g.stepIDs)) + ".outputs.y)"
	default:
		e = "needs." + g.pick(g.jobIDs) + ".outputs." + g.pick(g.outs) + " || matrix." + g.pick(g.matrixKs)
	}
	if k <= 7 && g.rng.Intn(3) == 0 {
		// the same reference with some of its property accesses written as ['name'] (any letter case)
		e = bracketSpelling(g.rng, e)
	}
	if g.rng.Intn(9) == 0 {
		// reads of untrusted inputs (reported in script positions only)
		e = g.pick([]string{"github.event.issue.title", "github.head_ref", "github.event.pull_request.head.ref", "GITHUB.event.comment.Body", "github['event']['issue']['body']",
			"github.event.commits.*.message", "contains(github.event.issue.title, 'x')", "format('{0}', github.event.review.body)", "github.event.issue.number", "github.event.pages.*.page_name"})
	}
	return e
}

// bracketSpelling rewrites `a.b.c[0]` so that each `.name` (name an identifier) becomes `['name']` with probability 1/2
func bracketSpelling(rng *rand.Rand, e string) string {
	var sb strings.Builder
	i := 0
	for i < len(e) {
		if e[i] == '.' && i+1 < len(e) {
			j := i + 1
			for j < len(e) && (e[j] == '_' || e[j] == '-' || e[j] >= 'a' && e[j] <= 'z' || e[j] >= 'A' && e[j] <= 'Z' || e[j] >= '0' && e[j] <= '9') {
				j++
			}
			if j > i+1 && rng.Intn(2) == 0 {
				sb.WriteString("['" + e[i+1:j] + "']")
				i = j
				continue
			}
		}
		sb.WriteByte(e[i])
		i++
	}
	return sb.String()
}

func actionOutputsSexp(spec string) string {
	if strings.HasPrefix(spec, "actions/github-script@") {
		return "(obj,(),any)"
	}
	if meta, ok := actionlint.PopularActions[spec]; ok {
		if meta.SkipOutputs {
			return "(obj,(),any)"
		}
		props := map[string]actionlint.ExprType{}
		for n := range meta.Outputs {
			props[strings.ToLower(n)] = actionlint.StringType{}
		}
		return encTy(actionlint.NewStrictObjectType(props))
	}
	return "(obj,(),string)"
}

type vWorkflow struct {
	yaml   string
	sexp   string
	probes []vProbe
	lines  []string
	// per job: first / last line (1-based) of its block and the indices of the jobs it names in `needs:`
	jobStart, jobEnd []int
	jobNeeds         [][]int
	headerEnd        int // number of lines up to and including `jobs:`
}

func genVisitWorkflow(rng *rand.Rand) *vWorkflow {
	g := &vGen{rng: rng, stepIDs: []string{"alpha", "beta", "gamma", "nosuch"}, matrixKs: []string{"os", "ver", "extra", "cfg", "nokey"},
		inputs: []string{"who", "lvl", "flag", "nobody"}, secrets: []string{"tok", "key", "github_token", "nosecret"}, outs: []string{"o1", "o2", "zz"}}
	b := &vBuilder{}
	nJobs := 1 + rng.Intn(4)
	for i := 0; i < nJobs; i++ {
		g.jobIDs = append(g.jobIDs, fmt.Sprintf("job%d", i))
	}
	g.jobIDs = append(g.jobIDs, "ghost")
	hasCall, hasDispatch := rng.Intn(3) == 0, rng.Intn(3) == 0
	var callOutProbes, events, top []string
	b.add("on:")
	if !hasCall && !hasDispatch {
		b.add("  push:")
		events = append(events, "o")
	}
	type jobPlan struct {
		id      string
		outputs []string
	}
	plans := make([]jobPlan, nJobs)
	for i := range plans {
		plans[i].id = g.jobIDs[i]
		for _, o := range []string{"o1", "o2"} {
			if rng.Intn(2) == 0 {
				plans[i].outputs = append(plans[i].outputs, o)
			}
		}
	}
	inputRef := func() string { return "inputs." + randCase(rng, g.pick(g.inputs)) }
	emitCall := func() {
		b.add("  workflow_call:")
		ins := "()"
		if rng.Intn(4) != 0 {
			b.add("    inputs:")
			var items []string
			for _, n := range []string{"who", "lvl", "flag"} {
				if rng.Intn(2) == 0 {
					ty := g.pick([]string{"string", "boolean", "number"})
					b.add("      " + randCase(rng, n) + ":")
					b.add("        type: " + ty)
					d := "N"
					if rng.Intn(2) == 0 {
						// a default may refer to the inputs declared before it (and only to those)
						e := inputRef()
						if rng.Intn(4) == 0 {
							e = g.expr()
						}
						d = b.probe("        default: ", e, "on.workflow_call.inputs.<inputs_id>.default").sexp()
					}
					items = append(items, fmt.Sprintf("(%s,%s,%s)", hx(n), map[string]string{"string": "string", "boolean": "bool", "number": "number"}[ty], d))
				}
			}
			if len(items) == 0 {
				b.lines = b.lines[:len(b.lines)-1]
				b.add("    inputs: {}")
			}
			ins = sexpList(items)
		}
		secs := "N"
		if rng.Intn(2) == 0 {
			var items []string
			b.add("    secrets:")
			for _, n := range []string{"tok", "key"} {
				if rng.Intn(2) == 0 {
					b.add("      " + randCase(rng, n) + ":")
					b.add("        required: false")
					items = append(items, hx(n))
				}
			}
			if len(items) == 0 {
				b.lines = b.lines[:len(b.lines)-1]
				b.add("    secrets: {}")
			}
			secs = sexpList(items)
		}
		b.add("    outputs:")
		for k := 0; k < 3; k++ {
			b.add(fmt.Sprintf("      r%d:", k))
			e := "jobs." + randCase(rng, g.pick(g.jobIDs)) + ".outputs." + g.pick(g.outs)
			if rng.Intn(4) == 0 {
				e = g.expr()
			}
			p := b.probe("        value: ", e, "on.workflow_call.outputs.<output_id>.value")
			callOutProbes = append(callOutProbes, p.sexp())
		}
		events = append(events, fmt.Sprintf("(c,%s,%s)", ins, secs))
	}
	emitDispatch := func() {
		b.add("  workflow_dispatch:")
		if rng.Intn(3) == 0 {
			// the event without any input declaration
			events = append(events, "(d,())")
			return
		}
		b.add("    inputs:")
		var items []string
		for _, n := range []string{"who", "flag", "lvl"} {
			if rng.Intn(3) != 0 {
				ty := g.pick([]string{"string", "boolean", "number", "choice", "environment"})
				b.add("      " + randCase(rng, n) + ":")
				b.add("        type: " + ty)
				if ty == "choice" {
					b.add("        options: [a, b]")
				}
				// the strings of a declaration are checked without a workflow key, and while `inputs` is not yet updated
				var ps []string
				if rng.Intn(2) == 0 {
					ps = append(ps, b.probe("        description: ", inputRef(), "").sexp())
				}
				if rng.Intn(3) == 0 && ty == "string" {
					ps = append(ps, b.probe("        default: ", g.expr(), "").sexp())
				}
				items = append(items, fmt.Sprintf("(%s,%s,%s)", hx(n), map[string]string{"string": "string", "boolean": "bool", "number": "number", "choice": "string", "environment": "string"}[ty], sexpList(ps)))
			}
		}
		if len(items) == 0 {
			b.lines = b.lines[:len(b.lines)-1]
			b.add("    inputs: {}")
		}
		events = append(events, fmt.Sprintf("(d,%s)", sexpList(items)))
	}
	switch {
	case hasCall && hasDispatch && rng.Intn(2) == 0:
		emitDispatch()
		emitCall()
	case hasCall && hasDispatch:
		emitCall()
		emitDispatch()
	case hasCall:
		emitCall()
	case hasDispatch:
		emitDispatch()
	}
	// workflow-level strings, checked after `on:` with the final header
	if rng.Intn(3) == 0 {
		top = append(top, b.probe("run-name: ", g.expr(), "run-name").sexp())
	}
	if rng.Intn(3) == 0 {
		b.add("env:")
		top = append(top, b.probe("  TOPV: ", g.expr(), "env").sexp())
	}
	if rng.Intn(3) == 0 {
		b.add("concurrency:")
		top = append(top, b.probe("  group: ", g.expr(), "concurrency").sexp())
	}
	headerEnd := b.add("jobs:")
	var jobSexps []string
	var jobStart, jobEnd []int
	var jobNeeds [][]int
	for ji, pl := range plans {
		if len(jobStart) > len(jobEnd) {
			jobEnd = append(jobEnd, len(b.lines))
		}
		jobStart = append(jobStart, b.add("  "+pl.id+":"))
		jobNeeds = append(jobNeeds, nil)
		// needs
		var needs []string
		for k := range plans {
			if k != ji && rng.Intn(3) == 0 {
				needs = append(needs, randCase(rng, plans[k].id))
				jobNeeds[ji] = append(jobNeeds[ji], k)
			}
		}
		if rng.Intn(8) == 0 {
			needs = append(needs, "ghost")
		}
		if rng.Intn(10) == 0 {
			needs = append(needs, pl.id) // the job itself
		}
		if len(needs) > 0 {
			b.add("    needs: [" + strings.Join(needs, ", ") + "]")
		}
		// a job that calls a reusable workflow (remote spec: no metadata, outputs are {string => string}); it may have a
		// matrix, `with:` and `secrets:` but no steps / outputs / environment
		isCall := rng.Intn(5) == 0
		if isCall {
			b.add("    uses: octo/repo/.github/workflows/w.yml@v1")
		} else {
			b.add("    runs-on: ubuntu-latest")
		}
		// matrix
		mx := "N"
		fromJ := func(v string) (string, string) { return "${{ fromJSON(vars." + v + ") }}", hx("fromJSON(vars."+v+") }}") }
		switch rng.Intn(12) {
		case 0, 1:
		case 2:
			b.add("    strategy:")
			b.add("      matrix:")
			b.add("        os: [linux, mac]")
			b.add("        ver: [1, 2]")
			mx = fmt.Sprintf("(lit,((%s,(vals,s,s)),(%s,(vals,num,num))),N)", hx("os"), hx("ver"))
		case 3:
			b.add("    strategy:")
			b.add("      matrix:")
			b.add("        OS: [linux, 1, true]")
			b.add("        include:")
			b.add("          - os: win")
			b.add("            Extra: 1")
			b.add("          - ver: [1, [2]]")
			mx = fmt.Sprintf("(lit,((%s,(vals,s,num,b))),(combos,(assigns,(%s,s),(%s,num)),(assigns,(%s,(arr,num,(arr,num))))))", hx("os"), hx("os"), hx("extra"), hx("ver"))
		case 4:
			b.add("    strategy:")
			b.add("      matrix:")
			b.add("        cfg: [{name: a, n: 1}, {name: b, Deep: {k: [x, null]}}]")
			mx = fmt.Sprintf("(lit,((%s,(vals,(obj,(%s,s),(%s,num)),(obj,(%s,s),(%s,(obj,(%s,(arr,s,n)))))))),N)", hx("cfg"), hx("name"), hx("n"), hx("name"), hx("deep"), hx("k"))
		case 5:
			y, h := fromJ("ROW")
			b.add("    strategy:")
			b.add("      matrix:")
			b.add("        os: " + y)
			b.add("        ver: [1]")
			mx = fmt.Sprintf("(lit,((%s,(expr,%s)),(%s,(vals,num))),N)", hx("os"), h, hx("ver"))
		case 6:
			y, h := fromJ("INC")
			b.add("    strategy:")
			b.add("      matrix:")
			b.add("        os: [linux]")
			b.add("        include: " + y)
			mx = fmt.Sprintf("(lit,((%s,(vals,s))),(expr,%s))", hx("os"), h)
		case 7:
			y, h := fromJ("ELEM")
			b.add("    strategy:")
			b.add("      matrix:")
			b.add("        os: [linux]")
			b.add("        include:")
			b.add("          - " + y)
			b.add("          - extra: x")
			mx = fmt.Sprintf("(lit,((%s,(vals,s))),(combos,(expr,%s),(assigns,(%s,s))))", hx("os"), h, hx("extra"))
		case 8:
			y, h := fromJ("M")
			b.add("    strategy:")
			b.add("      matrix: " + y)
			mx = fmt.Sprintf("(expr,%s)", h)
		case 9:
			b.add("    strategy:")
			b.add("      matrix:")
			b.add("        ver: [1]")
			b.add("        include:")
			b.add("          - ${{ github.event }}")
			b.add("          - os: {name: n}")
			mx = fmt.Sprintf("(lit,((%s,(vals,num))),(combos,(expr,%s),(assigns,(%s,(obj,(%s,s))))))", hx("ver"), hx("github.event }}"), hx("os"), hx("name"))
		case 10:
			b.add("    strategy:")
			b.add("      matrix:")
			b.add("        os: [linux]")
			b.add("        include:")
			b.add("          - cfg: {cc: a}")
			b.add("          - cfg: {flags: b, Deep: {x: 1}}")
			b.add("            extra: 1")
			b.add("          - cfg: {std: c, deep: {y: [1]}}")
			b.add("            extra: s")
			mx = fmt.Sprintf("(lit,((%s,(vals,s))),(combos,(assigns,(%s,(obj,(%s,s)))),(assigns,(%s,(obj,(%s,s),(%s,(obj,(%s,num))))),(%s,num)),(assigns,(%s,(obj,(%s,s),(%s,(obj,(%s,(arr,num)))))),(%s,s))))",
				hx("os"), hx("cfg"), hx("cc"), hx("cfg"), hx("flags"), hx("deep"), hx("x"), hx("extra"), hx("cfg"), hx("std"), hx("deep"), hx("y"), hx("extra"))
		default:
			b.add("    strategy:")
			b.add("      matrix:")
			b.add("        os: [\"${{ github.sha }}\", linux]")
			b.add("        cfg: [[]]")
			mx = fmt.Sprintf("(lit,((%s,(vals,(e,%s),s)),(%s,(vals,(arr)))),N)", hx("os"), hx("github.sha }}"), hx("cfg"))
		}
		// job-level probes
		var pre, post, steps []string
		// strategy.fail-fast / max-parallel, with and without a matrix in the same strategy block
		if rng.Intn(4) == 0 {
			if mx == "N" {
				b.add("    strategy:")
			}
			if rng.Intn(2) == 0 {
				pre = append(pre, b.probeK("      fail-fast: ", g.expr(), "jobs.<job_id>.strategy", "b").sexp())
			} else {
				pre = append(pre, b.probeK("      max-parallel: ", g.expr(), "jobs.<job_id>.strategy", "(n,"+hx("integer value")+")").sexp())
			}
		}
		if isCall {
			if rng.Intn(2) == 0 {
				pre = append(pre, b.probe("    name: ", g.expr(), "jobs.<job_id>.name").sexp())
			}
			if rng.Intn(2) == 0 {
				pre = append(pre, b.probeK("    if: ", g.expr(), "jobs.<job_id>.if", "c").sexp())
			}
			b.add("    with:")
			pre = append(pre, b.probe("      a: ", g.expr(), "jobs.<job_id>.with.<with_id>").sexp())
			if rng.Intn(2) == 0 {
				b.add("    secrets:")
				pre = append(pre, b.probe("      s: ", g.expr(), "jobs.<job_id>.secrets.<secrets_id>").sexp())
			}
			var needsHex []string
			for _, n := range needs {
				needsHex = append(needsHex, hx(n))
			}
			jobSexps = append(jobSexps, fmt.Sprintf("(%s,%s,(),(obj,(),string),%s,%s,(),())", hx(pl.id), sexpList(needsHex), mx, sexpList(pre)))
			continue
		}
		if rng.Intn(2) == 0 {
			pre = append(pre, b.probe("    name: ", g.expr(), "jobs.<job_id>.name").sexp())
		}
		if rng.Intn(2) == 0 {
			b.add("    env:")
			pre = append(pre, b.probe("      P: ", g.expr(), "jobs.<job_id>.env").sexp())
		}
		if rng.Intn(2) == 0 {
			pre = append(pre, b.probeK("    if: ", g.expr(), "jobs.<job_id>.if", "c").sexp())
		}
		if rng.Intn(3) == 0 {
			b.add("    concurrency:")
			pre = append(pre, b.probe("      group: ", g.expr(), "jobs.<job_id>.concurrency").sexp())
		}
		if rng.Intn(3) == 0 {
			pre = append(pre, b.probeK("    continue-on-error: ", g.expr(), "jobs.<job_id>.continue-on-error", "b").sexp())
		}
		if rng.Intn(3) == 0 {
			pre = append(pre, b.probeK("    timeout-minutes: ", g.expr(), "jobs.<job_id>.timeout-minutes", "(n,"+hx("float number value")+")").sexp())
		}
		if rng.Intn(3) == 0 {
			b.add("    container:")
			pre = append(pre, b.probe("      image: ", g.expr(), "jobs.<job_id>.container.image").sexp())
			if rng.Intn(2) == 0 {
				b.add("      credentials:")
				b.add("        username: u")
				pre = append(pre, b.probe("        password: ", g.expr(), "jobs.<job_id>.container.credentials").sexp())
			}
			pre = append(pre, b.probe("      options: ", g.expr(), "jobs.<job_id>.container").sexp())
			if rng.Intn(2) == 0 {
				b.add("      volumes:")
				pre = append(pre, b.probe("        - ", g.expr(), "jobs.<job_id>.container").sexp())
			}
			if rng.Intn(2) == 0 {
				b.add("      ports:")
				pre = append(pre, b.probe("        - ", g.expr(), "jobs.<job_id>.container").sexp())
			}
			b.add("      env:")
			pre = append(pre, b.probe("        A: ", g.expr(), "jobs.<job_id>.container.env.<env_id>").sexp())
		}
		if !isCall && rng.Intn(4) == 0 {
			b.add("    services:")
			b.add("      db:")
			pre = append(pre, b.probe("        image: ", g.expr(), "jobs.<job_id>.services").sexp())
			if rng.Intn(2) == 0 {
				b.add("        credentials:")
				pre = append(pre, b.probe("          username: ", g.expr(), "jobs.<job_id>.services.<service_id>.credentials").sexp())
				b.add("          password: p")
			}
			if rng.Intn(2) == 0 {
				b.add("        env:")
				pre = append(pre, b.probe("          A: ", g.expr(), "jobs.<job_id>.services.<service_id>.env.<env_id>").sexp())
			}
			if rng.Intn(2) == 0 {
				b.add("        ports:")
				pre = append(pre, b.probe("          - ", g.expr(), "jobs.<job_id>.services").sexp())
			}
			if rng.Intn(2) == 0 {
				pre = append(pre, b.probe("        options: ", g.expr(), "jobs.<job_id>.services").sexp())
			}
		}
		if !isCall && rng.Intn(4) == 0 {
			b.add("    defaults:")
			b.add("      run:")
			if rng.Intn(2) == 0 {
				pre = append(pre, b.probe("        shell: ", g.expr(), "jobs.<job_id>.defaults.run").sexp())
			}
			pre = append(pre, b.probe("        working-directory: ", g.expr(), "jobs.<job_id>.defaults.run").sexp())
		}
		// outputs (values are checked in VisitJobPost, with all step ids in scope)
		if len(pl.outputs) > 0 {
			b.add("    outputs:")
			for _, o := range pl.outputs {
				post = append(post, b.probe("      "+randCase(rng, o)+": ", g.expr(), "jobs.<job_id>.outputs.<output_id>").sexp())
			}
		}
		if rng.Intn(3) == 0 {
			b.add("    environment:")
			b.add("      name: e")
			post = append(post, b.probe("      url: ", g.expr(), "jobs.<job_id>.environment.url").sexp())
		}
		b.add("    steps:")
		nSteps := 1 + rng.Intn(4)
		used := map[string]bool{}
		// directed scenario (1 job in 5): a step with an id that uses an action with a fixed set of outputs, then a step whose
		// id contains a placeholder (the steps object becomes open but keeps what it knows), then references to declared
		// and undeclared outputs of the first step
		scenario := rng.Intn(5) == 0
		if scenario {
			nSteps = 3 + rng.Intn(2)
		}
		g.bias = nil
		for si := 0; si < nSteps; si++ {
			id, idExpr := "N", 0
			first := "      - "
			cont := "        "
			forceSpec := ""
			if scenario && si == 0 {
				used["alpha"] = true
				w := randCase(rng, "alpha")
				b.add(first + "id: " + w)
				first = cont
				id = hx(w)
				forceSpec = g.pick([]string{"actions/cache@v4", "actions/checkout@v4", "actions/upload-artifact@v4"})
			} else if scenario && si == 1 {
				w := "dyn-${{ github.run_id }}"
				idExpr = 1
				b.add(first + "id: " + w)
				first = cont
				id = hx(w)
				g.bias = []string{"steps.alpha.outputs.cache-hit", "steps.alpha.outputs.cache_hit", "steps.ALPHA.outputs.ref", "steps.alpha.outputs.nope",
					"steps['Alpha'].outputs['artifact-id']", "steps.alpha.conclusion", "steps.unknown.outputs.x", "steps.alpha.nope"}
			} else if rng.Intn(2) == 0 {
				raw := g.pick([]string{"alpha", "beta", "gamma"})
				if !used[raw] {
					used[raw] = true
					w := randCase(rng, raw)
					if rng.Intn(8) == 0 {
						w = raw + "-${{ github.run_id }}"
						idExpr = 1
					}
					b.add(first + "id: " + w)
					first = cont
					id = hx(w)
				}
			}
			var ps []string
			out := "(obj,(),string)"
			if forceSpec != "" || rng.Intn(3) == 0 {
				spec := g.pick([]string{"actions/checkout@v4", "actions/github-script@v7", "actions/cache@v4", "actions/upload-artifact@v4"})
				if forceSpec != "" {
					spec = forceSpec
				}
				b.add(first + "uses: " + spec)
				out = actionOutputsSexp(spec)
				if rng.Intn(2) == 0 {
					b.add(cont + "with:")
					ps = append(ps, b.probe(cont+"  "+map[string]string{"actions/checkout@v4": "ref", "actions/github-script@v7": "result-encoding", "actions/cache@v4": "key", "actions/upload-artifact@v4": "name"}[spec]+": ", g.expr(), "jobs.<job_id>.steps.with").sexp())
					if spec == "actions/github-script@v7" {
						// the `script` input (in any letter case) is an inline script
						ps = append(ps, b.probeK(cont+"  "+randCase(rng, "script")+": return ", g.expr(), "jobs.<job_id>.steps.with", "x").sexp())
					}
				}
			} else {
				ps = append(ps, b.probeK(first+"run: echo ", g.expr(), "jobs.<job_id>.steps.run", "x").sexp())
				if rng.Intn(3) == 0 {
					ps = append(ps, b.probe(cont+"working-directory: ", g.expr(), "jobs.<job_id>.steps.working-directory").sexp())
				}
			}
			if rng.Intn(2) == 0 {
				ps = append(ps, b.probe(cont+"name: ", g.expr(), "jobs.<job_id>.steps.name").sexp())
			}
			if rng.Intn(2) == 0 {
				ps = append(ps, b.probeK(cont+"if: ", g.expr(), "jobs.<job_id>.steps.if", "c").sexp())
			}
			if rng.Intn(2) == 0 {
				b.add(cont + "env:")
				ps = append(ps, b.probe(cont+"  Q: ", g.expr(), "jobs.<job_id>.steps.env").sexp())
			}
			if rng.Intn(4) == 0 {
				ps = append(ps, b.probeK(cont+"continue-on-error: ", g.expr(), "jobs.<job_id>.steps.continue-on-error", "b").sexp())
			}
			if rng.Intn(4) == 0 {
				ps = append(ps, b.probeK(cont+"timeout-minutes: ", g.expr(), "jobs.<job_id>.steps.timeout-minutes", "(n,"+hx("float number value")+")").sexp())
			}
			steps = append(steps, fmt.Sprintf("(%s,%d,%s,%s)", id, idExpr, out, sexpList(ps)))
		}
		g.bias = nil
		var needsHex, outsHex []string
		for _, n := range needs {
			needsHex = append(needsHex, hx(n))
		}
		for _, o := range pl.outputs {
			outsHex = append(outsHex, hx(o))
		}
		jobSexps = append(jobSexps, fmt.Sprintf("(%s,%s,%s,N,%s,%s,%s,%s)", hx(pl.id), sexpList(needsHex), sexpList(outsHex), mx, sexpList(pre), sexpList(steps), sexpList(post)))
	}
	jobEnd = append(jobEnd, len(b.lines))
	return &vWorkflow{yaml: strings.Join(b.lines, "\n") + "\n",
		sexp:   fmt.Sprintf("(%s,%s,%s,%s)", sexpList(events), sexpList(top), sexpList(jobSexps), sexpList(callOutProbes)),
		probes: b.probes, lines: append([]string{}, b.lines...), jobStart: jobStart, jobEnd: jobEnd, jobNeeds: jobNeeds, headerEnd: headerEnd}
}

// visitCanon: `line=code|code;…` over the probes, codes sorted (untrusted-input reports of script positions included).
func visitCanon(w *vWorkflow, errs []*actionlint.Error) (string, bool) {
	byLine := map[int][]string{}
	ok := true
	for _, e := range errs {
		if e.Kind != "expression" {
			continue
		}
		if strings.HasPrefix(e.Message, "\"if\" condition should be") || strings.HasPrefix(e.Message, "type of input") {
			continue
		}
		code, untrusted := classifySema(e.Message)
		if untrusted != nil {
			hs := make([]string, len(untrusted))
			for i, p := range untrusted {
				hs[i] = hx(p)
			}
			byLine[e.Line] = append(byLine[e.Line], "untrusted("+strings.Join(hs, ",")+")")
			continue
		}
		if strings.HasPrefix(code, "unclassified:") {
			ok = false
		}
		byLine[e.Line] = append(byLine[e.Line], code)
	}
	ps := append([]vProbe{}, w.probes...)
	sort.Slice(ps, func(a, b int) bool { return ps[a].line < ps[b].line })
	parts := make([]string, len(ps))
	for i, p := range ps {
		cs := byLine[p.line]
		sort.Strings(cs)
		parts[i] = fmt.Sprintf("%d=%s", p.line, strings.Join(cs, "|"))
	}
	return strings.Join(parts, ";"), ok
}

// visitTie runs n generated workflows through the real linter and the model.
func visitTie(c *ctx, r *Report, n int, independence bool, judge func(cs Case) (string, string)) error {
	rng := rand.New(rand.NewSource(c.seed + 15485863))
	var b batch
	b.judge = judge
	nProbes := 0
	for i := 0; i < n; i++ {
		w := genVisitWorkflow(rng)
		errs, err := lintSrc("v.yaml", w.yaml)
		r.Evaluations++
		cs := Case{Op: "visit", Input: map[string]string{"yaml": w.yaml, "model_input": w.sexp}}
		if err != nil {
			cs.Note = err.Error()
			r.Crashes = append(r.Crashes, cs)
			continue
		}
		yamlBroken := false
		for _, e := range errs {
			if e.Kind == "syntax-check" && strings.HasPrefix(e.Message, "could not parse as YAML") {
				yamlBroken = true
			}
		}
		if yamlBroken {
			cs.Note = "generator produced unparseable YAML"
			r.disagree(cs)
			continue
		}
		canon, ok := visitCanon(w, errs)
		if !ok {
			cs.Impl, cs.Note = canon, "message matches no known template"
			r.disagree(cs)
		}
		nProbes += len(w.probes)
		if independence && len(w.jobStart) >= 2 {
			// C09 at workflow level, without the model: every job linted with only the jobs it needs (header unchanged) gets the
			// same [expression] diagnostics on its lines as in the whole workflow
			whole := map[int][]string{}
			for _, e := range errs {
				if e.Kind == "expression" {
					whole[e.Line] = append(whole[e.Line], fmt.Sprintf("%d:%s", e.Column, e.Message))
				}
			}
			for ji := range w.jobStart {
				keep := map[int]bool{ji: true}
				for _, k := range w.jobNeeds[ji] {
					keep[k] = true
				}
				if len(keep) == len(w.jobStart) {
					continue
				}
				sub := append([]string{}, w.lines[:w.headerEnd]...)
				shift := 0 // line of job ji in the sub-workflow minus its line in the whole one
				for k := range w.jobStart {
					if !keep[k] {
						continue
					}
					if k == ji {
						shift = len(sub) + 1 - w.jobStart[k]
					}
					sub = append(sub, w.lines[w.jobStart[k]-1:w.jobEnd[k]]...)
				}
				subErrs, err := lintSrc("v.yaml", strings.Join(sub, "\n")+"\n")
				r.Evaluations++
				if err != nil {
					continue
				}
				alone := map[int][]string{}
				for _, e := range subErrs {
					if e.Kind == "expression" {
						alone[e.Line-shift] = append(alone[e.Line-shift], fmt.Sprintf("%d:%s", e.Column, e.Message))
					}
				}
				for ln := w.jobStart[ji]; ln <= w.jobEnd[ji]; ln++ {
					a, b2 := strings.Join(alone[ln], " | "), strings.Join(whole[ln], " | ")
					if a != b2 {
						r.finding("job-depends-on-other-jobs", fmt.Sprintf("the [expression] diagnostics on line %d (%s) differ between the whole workflow and the workflow reduced to this job and the jobs it needs", ln, strings.TrimSpace(w.lines[ln-1])),
							Case{Op: "visit-independence", Input: map[string]string{"yaml": w.yaml, "reduced_yaml": strings.Join(sub, "\n") + "\n"}, Impl: b2, Model: a})
						break
					}
				}
			}
		}
		r.nontrivial(w.sexp)
		r.hist("tie:visit")
		b.add("visitsrc "+w.sexp, canon, cs)
	}
	r.Rule += fmt.Sprintf("; workflow-level model tie: %d generated workflows (1–4 jobs with needs incl. unknown / re-cased / self references, declared outputs, 12 matrix shapes incl. expression rows / include / matrix and nested values, workflow_call / workflow_dispatch events in either order with inputs (defaults / descriptions that refer to other inputs) and secrets, run-name / env / concurrency at the top, steps with ids incl. placeholder ids and bundled actions, jobs that call a reusable workflow (with matrix / with / secrets), %d probes at job name / env / if / concurrency / strategy fail-fast, max-parallel (with and without matrix) / container image, credentials, options, volumes, ports, env / services image, credentials, env, ports, options / defaults.run shell, working-directory / outputs / environment url / step run and github-script `script` (script positions: untrusted inputs reported), with, name, if, env, working-directory / workflow_call output values) through the real linter and the Lean model AL.Visit: the [expression] diagnostics on every probe line compared (codes with arguments)", n, nProbes)
	_, err := b.flush(c, r)
	return err
}

// visitCodes keeps, per probe line, only the codes with one of the given names.
func visitCodes(canon string, names ...string) string {
	var out []string
	for _, part := range strings.Split(canon, ";") {
		i := strings.Index(part, "=")
		if i < 0 {
			continue
		}
		var keep []string
		for _, code := range strings.Split(part[i+1:], "|") {
			for _, n := range names {
				if strings.HasPrefix(code, n+"(") {
					keep = append(keep, code)
				}
			}
		}
		if len(keep) > 0 {
			out = append(out, part[:i]+"="+strings.Join(keep, "|"))
		}
	}
	return strings.Join(out, ";")
}
