package main

import (
	"fmt"
	"math/rand"
	"os"
	"path/filepath"
	"regexp"
	"sort"
	"strings"

	"github.com/rhysd/actionlint"
)

func init() { props["C14"] = runC14 }

// supplied values for typed reusable-workflow inputs with the type the value has
var c14Values = []struct{ text, ty, shape string }{
	{"1", "number", "number"}, {"1.5e3", "number", "number"}, {"abc", "string", "other"}, {"true", "bool", "bool"}, {"null", "null", "null"}, {"'1'", "number", "number"},
	{"${{ 1 }}", "number", "whole:number"}, {"${{ 'str' }}", "string", "whole:string"}, {"${{ true }}", "bool", "whole:bool"}, {"${{ github.sha }}", "string", "whole:string"},
	{"${{ fromJSON('1') }}", "any", "whole:any"}, {"' ${{ 0x10 }} '", "number", "whole:number"}, {"${{ null }}", "null", "whole:null"},
	{"v${{ 42 }}", "string", "embedded"}, {"${{ 1 }}${{ 2 }}", "string", "several"}, {"enabled=${{ true }}", "string", "embedded"}, {"${{ 7 }} items", "string", "embedded"},
	{"${{ fromJSON('1') }}x", "string", "embedded"},
}

var (
	reInputUndef   = regexp.MustCompile(`^input "([^"]+)" is not defined in (?:action|"[^"]*" reusable workflow)`)
	reInputMissing = regexp.MustCompile(`^missing input "([^"]+)" which is required by action`)
	reWfInputReq   = regexp.MustCompile(`^input "([^"]+)" is required by "[^"]*" reusable workflow`)
	reWfInputUndef = regexp.MustCompile(`^input "([^"]+)" is not defined in "[^"]*" reusable workflow`)
	reWfSecretReq  = regexp.MustCompile(`^secret "([^"]+)" is required by "[^"]*" reusable workflow`)
	reWfSecretUnd  = regexp.MustCompile(`^secret "([^"]+)" is not defined in "[^"]*" reusable workflow`)
)

func encDecls(ids, names []string, req []bool) string {
	parts := make([]string, len(ids))
	for i := range ids {
		r := 0
		if req[i] {
			r = 1
		}
		parts[i] = fmt.Sprintf("(%s,%s,%d)", hx(ids[i]), hx(names[i]), r)
	}
	return "(" + strings.Join(parts, ",") + ")"
}

func canonCalls(errs []*actionlint.Error) (string, bool) {
	var out []string
	n := 0
	for _, e := range errs {
		m := e.Message
		switch {
		case reInputMissing.MatchString(m):
			out = append(out, "mi:"+hx(reInputMissing.FindStringSubmatch(m)[1]))
			n++
		case reWfInputReq.MatchString(m):
			out = append(out, "mi:"+hx(reWfInputReq.FindStringSubmatch(m)[1]))
			n++
		case reWfSecretReq.MatchString(m):
			out = append(out, "ms:"+hx(reWfSecretReq.FindStringSubmatch(m)[1]))
			n++
		case reWfSecretUnd.MatchString(m):
			out = append(out, "us:"+hx(strings.ToLower(reWfSecretUnd.FindStringSubmatch(m)[1])))
			n++
		case reInputUndef.MatchString(m):
			out = append(out, "ui:"+hx(strings.ToLower(reInputUndef.FindStringSubmatch(m)[1])))
			n++
		}
	}
	return fmt.Sprintf("%d|%s", n, strings.Join(dedupSorted(out), ",")), true
}

func runC14(c *ctx, r *Report) error {
	rng := rand.New(rand.NewSource(c.seed))
	var b batch
	// AL.Props.C14 / C14Calls / C14Type: the model reports an input / secret exactly when the callee's interface says so
	// (undefined, missing-required, type not assignable). A differing report is the implementation departing from that.
	b.judge = func(cs Case) (string, string) {
		switch {
		case cs.Op == "calltype":
			return "typed-input", "a supplied value is reported against the declared input type differently from the rule (reported=" + cs.Impl + ", rule=" + cs.Model + ")"
		case strings.HasPrefix(cs.Op, "calls "):
			return "interface-check-differs:" + strings.Fields(cs.Op)[1], "undefined / missing input or secret reports (" + cs.Impl + ") differ from the callee's declared interface (" + cs.Model + ")"
		}
		return "", ""
	}
	nLocal := 60
	if !c.quick {
		nLocal = 1500
	}
	specs := make([]string, 0, len(actionlint.PopularActions))
	for k := range actionlint.PopularActions {
		specs = append(specs, k)
	}
	sort.Strings(specs)
	r.Rule = fmt.Sprintf("(1) EVERY action spec of the bundled data set (%d, enumerated completely) × 5 call shapes (no inputs; all inputs in random letter case; all + 2 extra names; a random subset; required ones only) + a probe of every declared output and one undeclared output through steps.<id>.outputs.<name>; (2) %d random local action interfaces (action.yml in a scratch repository: required / not required × with / without default, outputs) × call shapes; (3) %d random local reusable-workflow interfaces (inputs with types, required × default, secrets, outputs) × call shapes incl. `secrets: inherit`, typed literal and expression values, needs.<job>.outputs.<name> probes; the real linter's diagnostics are compared with the model (calls action / calls workflow) and with expectations computed from the interface (declared / required-without-default / supplied); non-trivial = distinct (interface, call) pairs", len(specs), nLocal, nLocal)

	// (1) bundled actions
	var bundledSrcs []string
	for _, spec := range specs {
		meta := actionlint.PopularActions[spec]
		ids := make([]string, 0, len(meta.Inputs))
		for id := range meta.Inputs {
			ids = append(ids, id)
		}
		sort.Strings(ids)
		names := make([]string, len(ids))
		req := make([]bool, len(ids))
		for i, id := range ids {
			names[i], req[i] = meta.Inputs[id].Name, meta.Inputs[id].Required
		}
		shapes := [][]string{}
		shapes = append(shapes, nil)
		all := []string{}
		for _, n := range names {
			all = append(all, randCase(rng, n))
		}
		shapes = append(shapes, all)
		shapes = append(shapes, append(append([]string{}, all...), "zz-extra-one", "ZZ_EXTRA_TWO"))
		var sub, reqOnly []string
		for i, n := range names {
			if rng.Intn(2) == 0 {
				sub = append(sub, n)
			}
			if req[i] {
				reqOnly = append(reqOnly, strings.ToUpper(n))
			}
		}
		shapes = append(shapes, sub, reqOnly)
		for _, sup := range shapes {
			var sb strings.Builder
			sb.WriteString("on: push\njobs:\n  j:\n    runs-on: ubuntu-latest\n    steps:\n      - uses: " + spec + "\n        id: s\n")
			if len(sup) > 0 {
				sb.WriteString("        with:\n")
				for _, k := range sup {
					sb.WriteString("          " + k + ": x\n")
				}
			}
			src := sb.String()
			bundledSrcs = append(bundledSrcs, src)
			errs, err := lintSrc("b.yaml", src)
			r.Evaluations++
			if err != nil {
				r.Crashes = append(r.Crashes, Case{Op: "lint-call", Input: map[string]string{"yaml": src}, Note: err.Error()})
				continue
			}
			r.nontrivial(spec + "|" + strings.Join(sup, ","))
			impl, _ := canonCalls(errs)
			lower := make([]string, len(sup))
			for i, k := range sup {
				lower[i] = strings.ToLower(k)
			}
			mk := Case{Op: "calls action", Input: map[string]string{"spec": spec, "with": strings.Join(sup, ","), "yaml": src}}
			if meta.SkipInputs {
				if impl != "0|" {
					r.finding("skip-inputs-reported", "an action with SkipInputs gets input diagnostics", mk)
				}
				continue
			}
			b.add(fmt.Sprintf("calls action %s %s", encDecls(ids, names, req), encStrs(lower)), impl, mk)
			// independent expectation
			var want []string
			cnt := 0
			for _, k := range lower {
				if _, ok := meta.Inputs[k]; !ok {
					want = append(want, "ui:"+hx(k))
					cnt++
				}
			}
			for i, id := range ids {
				if req[i] {
					supplied := false
					for _, k := range lower {
						if k == id {
							supplied = true
						}
					}
					if !supplied {
						want = append(want, "mi:"+hx(names[i]))
						cnt++
					}
				}
			}
			exp := fmt.Sprintf("%d|%s", cnt, strings.Join(dedupSorted(want), ","))
			if impl != exp {
				r.finding("bundled-action-inputs", fmt.Sprintf("%s with {%s}: got %s, expected %s", spec, strings.Join(sup, ","), impl, exp), mk)
			}
			r.hist("bundled:" + strings.SplitN(impl, "|", 2)[0])
		}
		// outputs
		outs := make([]string, 0, len(meta.Outputs))
		for id := range meta.Outputs {
			outs = append(outs, id)
		}
		sort.Strings(outs)
		probes := append(append([]string{}, outs...), "zz_not_an_output")
		var sb strings.Builder
		sb.WriteString("on: push\njobs:\n  j:\n    runs-on: ubuntu-latest\n    steps:\n      - uses: " + spec + "\n        id: s\n")
		if len(names) > 0 && !meta.SkipInputs {
			sb.WriteString("        with:\n")
			for _, n := range names {
				sb.WriteString("          " + n + ": x\n")
			}
		}
		base := strings.Count(sb.String(), "\n")
		for _, o := range probes {
			sb.WriteString("      - run: echo ${{ steps.s.outputs." + randCase(rng, o) + " }}\n")
		}
		src := sb.String()
		errs, err := lintSrc("o.yaml", src)
		r.Evaluations++
		if err == nil {
			byLine := map[int]bool{}
			for _, e := range errs {
				if strings.Contains(e.Message, "is not defined in object type") {
					byLine[e.Line] = true
				}
			}
			for i, o := range probes {
				_, declared := meta.Outputs[o]
				// actions/github-script sets outputs dynamically: its outputs object is open
				want := !declared && !meta.SkipOutputs && !strings.HasPrefix(spec, "actions/github-script@")
				if byLine[base+1+i] != want {
					r.finding("bundled-action-outputs", fmt.Sprintf("%s: steps.s.outputs.%s reported=%v, declared=%v, SkipOutputs=%v", spec, o, byLine[base+1+i], declared, meta.SkipOutputs),
						Case{Op: "lint-call", Input: map[string]string{"spec": spec, "yaml": src}})
				}
			}
		}
	}

	// (2)+(3) local action and reusable workflow interfaces in a scratch repository
	tmp, err := os.MkdirTemp("", "verif-c14-")
	if err != nil {
		return err
	}
	defer os.RemoveAll(tmp)
	tmp, _ = filepath.EvalSymlinks(tmp)
	old, _ := os.Getwd()
	defer os.Chdir(old)
	pool := []string{"alpha", "beta", "gamma", "delta", "Epsilon"}
	for i := 0; i < nLocal; i++ {
		root := filepath.Join(tmp, fmt.Sprintf("r%d", i))
		os.MkdirAll(filepath.Join(root, ".git"), 0o755)
		os.MkdirAll(filepath.Join(root, ".github", "workflows"), 0o755)
		os.MkdirAll(filepath.Join(root, "act"), 0o755)
		// interface
		type decl struct {
			name           string
			required, dflt bool
			typ            string
		}
		var ins, secs []decl
		var outs []string
		for _, n := range pool {
			if rng.Intn(2) == 0 {
				ins = append(ins, decl{n, rng.Intn(2) == 0, rng.Intn(3) == 0, []string{"string", "number", "boolean"}[rng.Intn(3)]})
			}
			if rng.Intn(3) == 0 {
				secs = append(secs, decl{n, rng.Intn(2) == 0, false, ""})
			}
			if rng.Intn(3) == 0 {
				outs = append(outs, n)
			}
		}
		var am strings.Builder
		am.WriteString("name: local\ndescription: d\n")
		if len(ins) > 0 {
			am.WriteString("inputs:\n")
			for _, d := range ins {
				if d.required || rng.Intn(2) == 0 {
					fmt.Fprintf(&am, "  %s:\n    description: d\n    required: %v\n", d.name, d.required)
				} else {
					fmt.Fprintf(&am, "  %s:\n    description: d\n", d.name)
				}
				if d.dflt {
					am.WriteString("    default: dv\n")
				}
			}
		}
		if len(outs) > 0 {
			am.WriteString("outputs:\n")
			for _, o := range outs {
				fmt.Fprintf(&am, "  %s:\n    description: d\n    value: v\n", o)
			}
		}
		am.WriteString("runs:\n  using: composite\n  steps:\n    - run: echo\n      shell: bash\n")
		os.WriteFile(filepath.Join(root, "act", "action.yml"), []byte(am.String()), 0o644)
		var rw strings.Builder
		rw.WriteString("on:\n  workflow_call:\n")
		if len(ins) > 0 {
			rw.WriteString("    inputs:\n")
			for _, d := range ins {
				if d.required || rng.Intn(2) == 0 {
					fmt.Fprintf(&rw, "      %s:\n        type: %s\n        required: %v\n", d.name, d.typ, d.required)
				} else {
					fmt.Fprintf(&rw, "      %s:\n        type: %s\n", d.name, d.typ) // `required:` left out = not required
				}
				if d.dflt {
					dv := map[string]string{"string": "dv", "number": "1", "boolean": "true"}[d.typ]
					rw.WriteString("        default: " + dv + "\n")
				}
			}
		}
		if len(secs) > 0 {
			rw.WriteString("    secrets:\n")
			for _, d := range secs {
				switch {
				case d.required || rng.Intn(3) == 0:
					fmt.Fprintf(&rw, "      %s:\n        required: %v\n", d.name, d.required)
				case rng.Intn(2) == 0:
					fmt.Fprintf(&rw, "      %s:\n        description: d\n", d.name) // `required:` left out = not required
				default:
					fmt.Fprintf(&rw, "      %s:\n", d.name) // no specification at all
				}
			}
		}
		if len(outs) > 0 {
			rw.WriteString("    outputs:\n")
			for _, o := range outs {
				fmt.Fprintf(&rw, "      %s:\n        value: ${{ jobs.j.outputs.o }}\n", o)
			}
		}
		rw.WriteString("jobs:\n  j:\n    runs-on: ubuntu-latest\n    outputs:\n      o: x\n    steps:\n      - run: echo\n")
		os.WriteFile(filepath.Join(root, ".github", "workflows", "reusable.yml"), []byte(rw.String()), 0o644)
		// call
		var with, secIDs []string
		for _, n := range append(append([]string{}, pool...), "extra") {
			if rng.Intn(2) == 0 {
				with = append(with, randCase(rng, n))
			}
			if rng.Intn(3) == 0 {
				secIDs = append(secIDs, randCase(rng, n))
			}
		}
		inherit := rng.Intn(4) == 0
		var cw strings.Builder
		cw.WriteString("on: push\njobs:\n  call:\n    uses: ./.github/workflows/reusable.yml\n")
		typeErrs := 0
		type typedIn struct {
			line        int
			decl, shape string
			text        string
		}
		var typed []typedIn
		if len(with) > 0 {
			cw.WriteString("    with:\n")
			for _, k := range with {
				val := "x"
				for _, d := range ins {
					if strings.EqualFold(d.name, k) {
						// the value's type: a literal by its YAML spelling, a value that IS one placeholder by the
						// placeholder's type, anything else (text around a placeholder, several placeholders) a string
						v := c14Values[rng.Intn(len(c14Values))]
						val = v.text
						typed = append(typed, typedIn{strings.Count(cw.String(), "\n") + 1, map[string]string{"string": "string", "number": "number", "boolean": "bool"}[d.typ], v.shape, k + ": " + v.text})
						switch d.typ {
						case "number": // number ← number, any
							if v.ty != "number" && v.ty != "any" {
								typeErrs++
							}
						case "string": // string ← string, number, any
							if v.ty == "bool" || v.ty == "null" {
								typeErrs++
							}
						case "boolean":
							// bool accepts every type (everything is coerced to bool): never a mismatch
						}
					}
				}
				cw.WriteString("      " + k + ": " + val + "\n")
			}
		}
		if inherit {
			cw.WriteString("    secrets: inherit\n")
		} else if len(secIDs) > 0 {
			cw.WriteString("    secrets:\n")
			for _, k := range secIDs {
				cw.WriteString("      " + k + ": ${{ secrets.X }}\n")
			}
		}
		cw.WriteString("  use:\n    needs: call\n    runs-on: ubuntu-latest\n    steps:\n      - uses: ./act\n        id: a\n")
		if len(with) > 0 {
			cw.WriteString("        with:\n")
			for _, k := range with {
				cw.WriteString("          " + k + ": x\n")
			}
		}
		probeBase := strings.Count(cw.String(), "\n")
		probes := append(append([]string{}, pool...), "nope")
		for _, o := range probes {
			cw.WriteString("      - run: echo ${{ steps.a.outputs." + randCase(rng, o) + " }}\n")
		}
		for _, o := range probes {
			cw.WriteString("      - run: echo ${{ needs.call.outputs." + randCase(rng, o) + " }}\n")
		}
		src := cw.String()
		wfPath := filepath.Join(root, ".github", "workflows", "caller.yml")
		os.WriteFile(wfPath, []byte(src), 0o644)
		os.Chdir(root)
		l, err := actionlint.NewLinter(nopWriter{}, &actionlint.LinterOptions{Shellcheck: "", Pyflakes: ""})
		if err != nil {
			return err
		}
		errs, err := l.LintFile(filepath.Join(".github", "workflows", "caller.yml"), nil)
		r.Evaluations++
		os.Chdir(old)
		desc := map[string]string{"action.yml": am.String(), "reusable.yml": rw.String(), "caller.yml": src}
		if err != nil {
			r.Crashes = append(r.Crashes, Case{Op: "lint-local", Input: desc, Note: err.Error()})
			os.RemoveAll(root)
			continue
		}
		r.nontrivial(fmt.Sprintf("local%d", i))
		// split diagnostics: job `call` (workflow call) vs step uses (action)
		var callErrs, actErrs []*actionlint.Error
		undefProbe := map[int]bool{}
		gotTypeErrs := 0
		for _, e := range errs {
			switch {
			case e.Kind == "workflow-call":
				callErrs = append(callErrs, e)
			case e.Kind == "action":
				actErrs = append(actErrs, e)
			case e.Kind == "expression" && strings.Contains(e.Message, "is not defined in object type"):
				undefProbe[e.Line] = true
			case e.Kind == "expression" && strings.Contains(e.Message, "input \"") && strings.Contains(e.Message, "is typed as"):
				gotTypeErrs++
			}
		}
		mkIDs := func(ds []decl, reqNoDefault bool) ([]string, []string, []bool) {
			var ids, names []string
			var req []bool
			sorted := append([]decl{}, ds...)
			sort.Slice(sorted, func(a, b int) bool { return strings.ToLower(sorted[a].name) < strings.ToLower(sorted[b].name) })
			for _, d := range sorted {
				ids = append(ids, strings.ToLower(d.name))
				names = append(names, d.name)
				req = append(req, d.required && !d.dflt)
			}
			return ids, names, req
		}
		lowerAll := func(l []string) []string {
			o := make([]string, len(l))
			for i, x := range l {
				o[i] = strings.ToLower(x)
			}
			return o
		}
		iIDs, iNames, iReq := mkIDs(ins, true)
		sIDs, sNames, sReq := mkIDs(secs, true)
		implAct, _ := canonCalls(actErrs)
		b.add(fmt.Sprintf("calls action %s %s", encDecls(iIDs, iNames, iReq), encStrs(lowerAll(with))), implAct, Case{Op: "calls action (local)", Input: desc})
		implCall, _ := canonCalls(callErrs)
		inh := "0"
		if inherit {
			inh = "1"
		}
		sup := secIDs
		if inherit {
			sup = nil
		}
		b.add(fmt.Sprintf("calls workflow %s %s %s %s %s", encDecls(iIDs, iNames, iReq), encDecls(sIDs, sNames, sReq), encStrs(lowerAll(with)), encStrs(lowerAll(sup)), inh), implCall, Case{Op: "calls workflow (local)", Input: desc})
		r.hist("local:act" + strings.SplitN(implAct, "|", 2)[0])
		// outputs
		for k, o := range probes {
			declared := false
			for _, x := range outs {
				if x == o {
					declared = true
				}
			}
			if undefProbe[probeBase+1+k] != !declared {
				r.finding("local-action-outputs", fmt.Sprintf("steps.a.outputs.%s: reported=%v declared=%v", o, undefProbe[probeBase+1+k], declared), Case{Op: "lint-local", Input: desc})
			}
			if undefProbe[probeBase+1+len(probes)+k] != !declared {
				r.finding("reusable-workflow-outputs", fmt.Sprintf("needs.call.outputs.%s: reported=%v declared=%v", o, undefProbe[probeBase+1+len(probes)+k], declared), Case{Op: "lint-local", Input: desc})
			}
		}
		// per input: reported (at the value's line) vs the model's AL.CallType.reported (theorems AL.Props.C14Type)
		for _, ti := range typed {
			rep := "0"
			for _, e := range errs {
				if e.Line == ti.line && e.Kind == "expression" && strings.Contains(e.Message, "is typed as") {
					rep = "1"
				}
			}
			b.add("calltype "+ti.decl+" "+ti.shape, rep, Case{Op: "calltype", Input: map[string]string{"declared": ti.decl, "supplied": ti.text, "caller.yml": src}})
			r.hist("typed-input:" + ti.shape)
		}
		if gotTypeErrs != typeErrs {
			var ms []string
			for _, e := range errs {
				ms = append(ms, e.Message)
			}
			r.finding("typed-input", fmt.Sprintf("%d type mismatches between supplied values and declared input types were planted, %d reported", typeErrs, gotTypeErrs), Case{Op: "lint-local", Input: desc, Note: strings.Join(ms, " || ")})
		}
		if i < 2 {
			r.sample(map[string]string{"reusable.yml": rw.String(), "caller.yml": src, "impl_call": implCall, "impl_action": implAct})
		}
		os.RemoveAll(root)
	}
	r.Exhaustive = true
	if _, err = b.flush(c, r); err != nil {
		return err
	}
	// AL.Props.C14Rules (undefined_reported / undefined_only / missing_only) is about AL.Rules.checkActionInputs over the table
	// regenerated from PopularActions: every bundled-action call above also goes through the whole-linter model (`lintwf`)
	if err := lwTie(c, r, bundledSrcs, "call of a bundled action", func(cs Case) (string, string) {
		pick := func(s string) string {
			var out []string
			for _, d := range strings.Split(s, ";") {
				if f := strings.SplitN(d, ":", 4); len(f) == 4 && f[2] == "action" {
					out = append(out, d)
				}
			}
			return strings.Join(out, ";")
		}
		if pick(cs.Impl) != pick(cs.Model) {
			return "action-diagnostics-differ-from-proved-model", "the `action` diagnostics of this call differ from the model in which an input is reported iff undeclared and a required input iff not supplied"
		}
		return "", ""
	}); err != nil {
		return err
	}
	// `steps.<id>.outputs.<name>` of bundled actions inside whole workflows: the model AL.Visit keeps the declared outputs of
	// every step registered so far (also after a step whose id contains a placeholder opens the steps object);
	// AL.Props.C05Visit.steps_strict / steps_ids say what is in scope. A differing 'not defined' report is a failing input.
	nV := 250
	if !c.quick {
		nV = 5000
	}
	if err := visitTie(c, r, nV, false, func(cs Case) (string, string) {
		names := []string{"prop-undefined", "filter-prop-undefined", "undefined-variable"}
		if a, b := visitCodes(cs.Impl, names...), visitCodes(cs.Model, names...); a != b {
			return "step-outputs-scope-differs-from-proved-rule", "the 'not defined' reports at the probes (" + a + ") differ from the proved scope rule (" + b + ")"
		}
		return "", ""
	}); err != nil {
		return err
	}
	// local reusable workflows inside a project, whole files: AL.ProjCall (rule workflow-call's interface checks, the typed
	// inputs and the `needs.<job>.outputs` types of the expression rule, the cache between them) against the real LintFile;
	// AL.Props.C14Proj states which entries are reported (undefined_input_iff, required_input_iff, required_secret_iff,
	// inherit_checks_no_secret, typed_input_reported_iff, local_action_undefined_input_iff, local_action_missing_input_iff)
	nP := 800
	if !c.quick {
		nP = 30000
	}
	if err := pjStandard(c, r, nP); err != nil {
		return err
	}
	// action.yml → ActionMetadata (AL.ActionDecode; AL.Props.C14Decode.action_input_required_iff says what `Required` is)
	nA := 1500
	if !c.quick {
		nA = 60000
	}
	if err := amStandard(c, r, nA); err != nil {
		return err
	}
	r.Rule += fmt.Sprintf("; (5) %d generated caller workflows (1–5 jobs: calls of well-formed / trigger-less / unparseable / missing / directory / badly formatted / self specs with random subsets of declared and undeclared inputs — literal and placeholder values of every type — and secrets or `secrets: inherit`; jobs that need each other and read needs.<job>.outputs; steps that use each of 19 local actions — complete, without name / description, unknown branding, every runs.using with required / forbidden / missing-file combinations, unparseable, without metadata file — with declared / undeclared inputs and reads of steps.<id>.outputs) in a scratch repository, a third of them after the called workflows were linted by the same linter: every diagnostic of the real LintFile (rule workflow-call and the other AST rules one by one in order, rule expression as a sorted multiset) against the Lean models AL.ProjCall / AL.ProjAction (ops lintwfp / exprwfp); (6) %d generated action.yml files (two thirds well-typed by construction: every field of the metadata incl. runs.steps / args / env with nested and repeated keys, inputs with every spelling of required / default, ids that collide up to letter case) decoded by the real LocalActionsCache.FindMetadata and by AL.ActionDecode (op actionmeta)", nP, nA)
	return nil
}
