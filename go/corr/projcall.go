package main

import (
	"fmt"
	"math/rand"
	"os"
	"path"
	"path/filepath"
	"regexp"
	"sort"
	"strings"

	"github.com/rhysd/actionlint"
	"gopkg.in/yaml.v3"
)

// The project case of reusable-workflow calls (AL.ProjCall): a caller workflow inside a scratch repository with called
// workflows next to it (well-formed, without workflow_call, unparseable, missing, a directory) is linted by a fresh real
// Linter; what is on disk behind every `uses:` spec of the caller is handed to the model as data (the real FindMetadata on
// a fresh cache: interface / unreadable / broken), and the model's diagnostics — rule workflow-call and the other
// AST-only rules (op `lintwfp`, one by one in order) and rule expression (op `exprwfp`, sorted multiset) — are compared
// with the real ones. The decoding of a called file into an interface is the `callmeta` tie's business.

type pjEnv struct {
	root string
	wf   string
	proj *actionlint.Project
}

const pjCalleeOK1 = "on:\n  workflow_call:\n    inputs:\n      name:\n        type: string\n        required: true\n      Num:\n        type: number\n      flag:\n        type: boolean\n        required: true\n        default: true\n      anything:\n        required: true\n        type: string\n      B_ool:\n        type: boolean\n    secrets:\n      tok:\n        required: true\n      Opt:\n        required: false\n    outputs:\n      out1:\n        value: x\n      Out2:\n        value: y\njobs:\n  j:\n    runs-on: ubuntu-latest\n    steps:\n      - run: echo\n"
const pjCalleeOK2 = "on: workflow_call\njobs:\n  j:\n    runs-on: ubuntu-latest\n    steps:\n      - run: echo\n"
const pjCalleeOK3 = "on:\n  workflow_call:\n    inputs:\n      only:\n        type: number\n        required: true\n    secrets:\n      S1:\n        required: true\njobs:\n  j:\n    runs-on: ubuntu-latest\n    steps:\n      - run: echo\n"
const pjCalleeNoCall = "on: push\njobs:\n  j:\n    runs-on: ubuntu-latest\n    steps:\n      - run: echo\n"
const pjCalleeUnparse = "on: [unclosed\n"

func newPjEnv() (*pjEnv, error) {
	root, err := os.MkdirTemp("", "verif-projcall")
	if err != nil {
		return nil, err
	}
	root, _ = filepath.EvalSymlinks(root)
	wf := filepath.Join(root, ".github", "workflows")
	os.MkdirAll(filepath.Join(root, ".git"), 0o755)
	os.MkdirAll(wf, 0o755)
	os.MkdirAll(filepath.Join(wf, "dir.yml"), 0o755)
	for name, src := range map[string]string{"ok1.yml": pjCalleeOK1, "ok2.yml": pjCalleeOK2, "ok3.yml": pjCalleeOK3, "nocall.yml": pjCalleeNoCall, "unparse.yml": pjCalleeUnparse, "x@v1.yml": pjCalleeOK2} {
		os.WriteFile(filepath.Join(wf, name), []byte(src), 0o644)
	}
	for dir, files := range pjActions {
		d := filepath.Join(root, filepath.FromSlash(dir))
		os.MkdirAll(d, 0o755)
		for name, src := range files {
			os.MkdirAll(filepath.Dir(filepath.Join(d, name)), 0o755)
			os.WriteFile(filepath.Join(d, name), []byte(src), 0o644)
		}
	}
	proj, err := actionlint.NewProjects().At(filepath.Join(wf, "x.yml"))
	if err != nil || proj == nil {
		os.RemoveAll(root)
		return nil, fmt.Errorf("no project at %s: %v", root, err)
	}
	return &pjEnv{root: root, wf: wf, proj: proj}, nil
}

func (e *pjEnv) close() { os.RemoveAll(e.root) }

// local actions of the scratch repository: directory ↦ files
var pjActions = map[string]map[string]string{
	"act/ok":        {"action.yml": "name: ok\ndescription: d\ninputs:\n  Name:\n    description: d\n    required: true\n  opt:\n    description: d\n  withdefault:\n    required: true\n    default: x\n  Second_Req:\n    required: true\noutputs:\n  Out1:\n    description: d\n    value: v\n  out2:\n    description: d\n    value: v\nruns:\n  using: composite\n  steps:\n    - run: echo\n      shell: bash\n"},
	"act/yaml":      {"action.yaml": "name: yaml\ndescription: d\nruns:\n  using: node20\n  main: index.js\n", "index.js": ""},
	"act/noname":    {"action.yml": "description: d\nruns:\n  using: composite\n  steps: []\n"},
	"act/nodesc":    {"action.yml": "name: nodesc\nruns:\n  using: composite\n  steps:\n    - run: echo\n      shell: bash\n"},
	"act/branding":  {"action.yml": "name: br\ndescription: d\nbranding:\n  icon: nosuchicon\n  color: NoColor\nruns:\n  using: composite\n  steps:\n    - run: echo\n      shell: bash\n"},
	"act/brandok":   {"action.yml": "name: br\ndescription: d\nbranding:\n  icon: Activity\n  color: BLUE\nruns:\n  using: composite\n  steps:\n    - run: echo\n      shell: bash\n"},
	"act/nousing":   {"action.yml": "name: nousing\ndescription: d\nruns:\n  main: x.js\n"},
	"act/node16":    {"action.yml": "name: node16\ndescription: d\nruns:\n  using: node16\n  main: missing.js\n  pre-if: always()\n  post: post.js\n  steps: [{run: echo}]\n", "post.js": ""},
	"act/weird":     {"action.yml": "name: weird\ndescription: d\nruns:\n  using: perl\n"},
	"act/jsnomain":  {"action.yml": "name: js\ndescription: d\nruns:\n  using: node20\n  pre: pre.js\n  post-if: always()\n  image: x\n  args: [a]\n  env: {A: b}\n"},
	"act/docker":    {"action.yml": "name: docker\ndescription: d\ninputs:\n  a:\n    required: true\nruns:\n  using: docker\n  image: Dockerfile\n  entrypoint: ep.sh\n  pre-entrypoint: sub/pre.sh\n  main: x\n", "Dockerfile": "", "sub/pre.sh": ""},
	"act/dockerimg": {"action.yml": "name: dockerimg\ndescription: d\nruns:\n  using: docker\n  image: docker://alpine:3\n  post-entrypoint: none.sh\n"},
	"act/dockerbad": {"action.yml": "name: dockerbad\ndescription: d\nruns:\n  using: docker\n  image: sub/Containerfile\n", "sub/Containerfile": ""},
	"act/dockerno":  {"action.yml": "name: dockerno\ndescription: d\nruns:\n  using: docker\n  steps: []\n"},
	"act/compnone":  {"action.yml": "name: compnone\ndescription: d\nruns:\n  using: composite\n  main: a.js\n  entrypoint: e\n"},
	"act/broken":    {"action.yml": "name: [unclosed\n"},
	"act/badinputs": {"action.yml": "name: bi\ndescription: d\ninputs: [a]\nruns:\n  using: composite\n  steps: []\n"},
	"act/dupinputs": {"action.yml": "name: di\ndescription: d\ninputs:\n  a:\n    description: x\n  A:\n    description: y\nruns:\n  using: composite\n  steps: []\n"},
	"act/empty":     {"README.md": "no metadata here"},
}

var pjActionSpecs = []string{"./act/ok", "./act/ok", "./act/ok", "./act/yaml", "./act/noname", "./act/nodesc", "./act/branding", "./act/brandok", "./act/nousing", "./act/node16", "./act/weird",
	"./act/jsnomain", "./act/docker", "./act/dockerimg", "./act/dockerbad", "./act/dockerno", "./act/compnone", "./act/broken", "./act/badinputs", "./act/dupinputs", "./act/empty", "./act/missing",
	"./act/ok/", "./act//ok", "./act/${{ matrix.a }}", "actions/checkout@v4", "./", "./act/ok@v1"}

var pjSpecs = []string{
	"./.github/workflows/ok1.yml", "./.github/workflows/ok1.yml", "./.github/workflows/ok1.yml", "./.github/workflows/ok2.yml", "./.github/workflows/ok3.yml",
	"./.github/workflows/nocall.yml", "./.github/workflows/unparse.yml", "./.github/workflows/missing.yml", "./.github/workflows/dir.yml",
	"./.github/workflows/ok1.yml@v1", "./.github/workflows/x@v1.yml", "./.github//workflows/ok1.yml", "owner/repo/.github/workflows/w.yml@v1", "./.github/workflows/${{ matrix.w }}.yml",
	"./.github/workflows/caller.yml", "./", ".github/workflows/ok1.yml", "''",
}

var pjValues = []string{"x", "1", "1.5", "true", "false", "null", "' 42 '", "''", "${{ 1 }}", "${{ 'a' }}", "${{ true }}", "${{ null }}", "a ${{ 1 }}", "${{ 1 }} ${{ 2 }}", "${{ github.event_name }}", "${{ fromJSON('1') }}",
	"${{ github.event }}", "${{ bad", "${{ nosuch.x }}", "' ${{ 1 }} '", "${{ matrix.v }}", "${{ needs.a.outputs.out1 }}", "0x10", "1e3", "NaN", "TRUE"}

type pjJob struct {
	id      string
	call    bool
	uses    string
	with    [][2]string
	secrets [][2]string
	inherit bool
	needs   []string
	refs    []string // expressions in a run: script (normal jobs)
	matrix  bool
}

func pjGenCaller(rng *rand.Rand) (string, bool) {
	n := 1 + rng.Intn(5)
	ids := []string{"a", "b", "c", "D", "e2"}[:n]
	selfCall := rng.Intn(6) == 0
	var jobs []pjJob
	for i, id := range ids {
		j := pjJob{id: id, call: rng.Intn(3) > 0}
		// needs: any other job (earlier or later), sometimes in another letter case, sometimes unknown
		for k, other := range ids {
			if k != i && rng.Intn(3) == 0 {
				o := other
				if rng.Intn(4) == 0 {
					o = strings.ToUpper(o)
				}
				j.needs = append(j.needs, o)
			}
		}
		if rng.Intn(10) == 0 {
			j.needs = append(j.needs, "nosuchjob")
		}
		if j.call {
			j.uses = pjSpecs[rng.Intn(len(pjSpecs))]
			j.matrix = strings.Contains(j.uses, "matrix.") || rng.Intn(8) == 0
			names := []string{"name", "Num", "NUM", "flag", "anything", "B_ool", "only", "extra", "Name", "b_ool"}
			rng.Shuffle(len(names), func(a, b int) { names[a], names[b] = names[b], names[a] })
			seen := map[string]bool{}
			for _, nm := range names[:rng.Intn(6)] {
				if seen[strings.ToLower(nm)] {
					continue
				}
				seen[strings.ToLower(nm)] = true
				j.with = append(j.with, [2]string{nm, pjValues[rng.Intn(len(pjValues))]})
			}
			switch rng.Intn(4) {
			case 0:
				j.inherit = true
			case 1:
			default:
				snames := []string{"tok", "TOK", "Opt", "S1", "s1", "other"}
				rng.Shuffle(len(snames), func(a, b int) { snames[a], snames[b] = snames[b], snames[a] })
				seenS := map[string]bool{}
				for _, nm := range snames[:rng.Intn(4)] {
					if seenS[strings.ToLower(nm)] {
						continue
					}
					seenS[strings.ToLower(nm)] = true
					j.secrets = append(j.secrets, [2]string{nm, []string{"${{ secrets.T }}", "plain", "${{ bad"}[rng.Intn(3)]})
				}
			}
		} else {
			for _, nd := range j.needs {
				for _, o := range []string{"out1", "OUT2", "nosuch", "o"} {
					if rng.Intn(2) == 0 {
						j.refs = append(j.refs, fmt.Sprintf("${{ needs.%s.outputs.%s }}", strings.ToLower(nd), o))
					}
				}
				if rng.Intn(3) == 0 {
					j.refs = append(j.refs, fmt.Sprintf("${{ needs.%s.result }}", nd))
				}
			}
		}
		jobs = append(jobs, j)
	}
	var b strings.Builder
	if selfCall {
		b.WriteString("on:\n  workflow_call:\n    inputs:\n      selfin:\n        type: boolean\n        required: true\n    outputs:\n      selfout:\n        value: x\n")
	} else {
		b.WriteString("on: push\n")
	}
	b.WriteString("jobs:\n")
	for _, j := range jobs {
		fmt.Fprintf(&b, "  %s:\n", j.id)
		if len(j.needs) > 0 {
			fmt.Fprintf(&b, "    needs: [%s]\n", strings.Join(j.needs, ", "))
		}
		if j.call {
			if j.matrix {
				b.WriteString("    strategy:\n      matrix:\n        w: [ok1, ok2]\n        v: [1, 2]\n")
			}
			fmt.Fprintf(&b, "    uses: %s\n", j.uses)
			if len(j.with) > 0 {
				b.WriteString("    with:\n")
				for _, kv := range j.with {
					fmt.Fprintf(&b, "      %s: %s\n", kv[0], kv[1])
				}
			}
			if j.inherit {
				b.WriteString("    secrets: inherit\n")
			} else if len(j.secrets) > 0 {
				b.WriteString("    secrets:\n")
				for _, kv := range j.secrets {
					fmt.Fprintf(&b, "      %s: %s\n", kv[0], kv[1])
				}
			}
		} else {
			b.WriteString("    runs-on: " + []string{"ubuntu-latest", "ubuntu-latest", "gpu-box", "linux-x64", "arm7", "custom5", "[self-hosted, gpu-box]", "[self-hosted, linux, nosuchlabel]", "nosuchlabel", "${{ matrix.os }}"}[rng.Intn(10)] + "\n")
			if rng.Intn(3) == 0 {
				b.WriteString("    outputs:\n      o: x\n")
			}
			b.WriteString("    steps:\n")
			nAct := rng.Intn(4)
			var stepRefs []string
			for k := 0; k < nAct; k++ {
				spec := pjActionSpecs[rng.Intn(len(pjActionSpecs))]
				fmt.Fprintf(&b, "      - uses: %s\n", spec)
				if rng.Intn(2) == 0 {
					id := fmt.Sprintf("s%d", k)
					fmt.Fprintf(&b, "        id: %s\n", id)
					for _, o := range []string{"out1", "OUT2", "nosuch"} {
						if rng.Intn(2) == 0 {
							stepRefs = append(stepRefs, fmt.Sprintf("${{ steps.%s.outputs.%s }}", id, o))
						}
					}
				}
				names := []string{"Name", "name", "opt", "withdefault", "Second_Req", "second_req", "a", "extra", "OPT"}
				rng.Shuffle(len(names), func(x, y int) { names[x], names[y] = names[y], names[x] })
				seen := map[string]bool{}
				first := true
				for _, nm := range names[:rng.Intn(5)] {
					if seen[strings.ToLower(nm)] {
						continue
					}
					seen[strings.ToLower(nm)] = true
					if first {
						b.WriteString("        with:\n")
						first = false
					}
					fmt.Fprintf(&b, "          %s: %s\n", nm, []string{"x", "1", "${{ 1 }}", "${{ bad"}[rng.Intn(4)])
				}
			}
			varRefs := []string{}
			for _, v := range []string{"${{ vars.DEPLOY_ENV }}", "${{ vars.deploy_env }}", "${{ vars.NOSUCH }}", "${{ vars.A }}"} {
				if rng.Intn(4) == 0 {
					varRefs = append(varRefs, v)
				}
			}
			b.WriteString("      - run: echo " + strings.Join(append(append(j.refs, stepRefs...), varRefs...), " ") + "\n")
		}
	}
	return b.String(), selfCall
}

var pjQ = pwQuoted
var (
	pjReqIn   = regexp.MustCompile(`(?s)^input (` + pjQ + `) is required by (` + pjQ + `) reusable workflow$`)
	pjReqSec  = regexp.MustCompile(`(?s)^secret (` + pjQ + `) is required by (` + pjQ + `) reusable workflow$`)
	pjUndefIn = regexp.MustCompile(`(?s)^input (` + pjQ + `) is not defined in (` + pjQ + `) reusable workflow\. (.*)$`)
	pjUndefSe = regexp.MustCompile(`(?s)^secret (` + pjQ + `) is not defined in (` + pjQ + `) reusable workflow\. (.*)$`)
	pjUnread  = regexp.MustCompile(`(?s)^could not read reusable workflow file for (` + pjQ + `): .*$`)
	pjBroken  = regexp.MustCompile(`(?s)^error while parsing reusable workflow (` + pjQ + `): .*$`)
	pjNoteRe  = regexp.MustCompile(pjQ)
	pjTyped   = regexp.MustCompile(`(?s)^input (` + pjQ + `) is typed as (.*) by reusable workflow (` + pjQ + `)\. (.*) value cannot be assigned$`)
)

func pjUnq(s string) string {
	u, _ := pwUnquote(s)
	return u
}

// pjCanonWC: the diagnostics rule workflow-call produces inside a project, in the driver's notation
func pjCanonWC(e *actionlint.Error) (string, bool) {
	head := fmt.Sprintf("%d:%d:%s:", e.Line, e.Column, e.Kind)
	args := func(xs ...string) string {
		hs := make([]string, len(xs))
		for i, x := range xs {
			hs[i] = hx(x)
		}
		return strings.Join(hs, ",")
	}
	note := func(n string) []string {
		var names []string
		for _, q := range pjNoteRe.FindAllString(n, -1) {
			names = append(names, pjUnq(q))
		}
		sort.Strings(names)
		return names
	}
	if m := pjReqIn.FindStringSubmatch(e.Message); m != nil {
		return head + "input-required:" + args(pjUnq(m[1]), pjUnq(m[2])), true
	}
	if m := pjReqSec.FindStringSubmatch(e.Message); m != nil {
		return head + "secret-required:" + args(pjUnq(m[1]), pjUnq(m[2])), true
	}
	if m := pjUndefIn.FindStringSubmatch(e.Message); m != nil {
		return head + "input-undefined:" + args(append([]string{pjUnq(m[1]), pjUnq(m[2])}, note(m[3])...)...), true
	}
	if m := pjUndefSe.FindStringSubmatch(e.Message); m != nil {
		return head + "secret-undefined:" + args(append([]string{pjUnq(m[1]), pjUnq(m[2])}, note(m[3])...)...), true
	}
	if m := pjUnread.FindStringSubmatch(e.Message); m != nil {
		return head + "callee-unreadable:" + args(pjUnq(m[1])), true
	}
	if m := pjBroken.FindStringSubmatch(e.Message); m != nil {
		return head + "callee-broken:" + args(pjUnq(m[1])), true
	}
	return "", false
}

var pjActionTemplates = []struct {
	code string
	re   *regexp.Regexp
	kind string // q = quoted argument, l = the rest is a list of quoted names (sorted)
}{
	{"meta-name-required", regexp.MustCompile(`(?s)^name is required in action metadata (` + pjQ + `)$`), "q"},
	{"meta-description-required", regexp.MustCompile(`(?s)^description is required in metadata of (` + pjQ + `) action at (` + pjQ + `)$`), "qq"},
	{"meta-icon", regexp.MustCompile(`(?s)^incorrect icon name (` + pjQ + `) at branding\.icon in metadata of (` + pjQ + `) action at (` + pjQ + `)\. see .*$`), "qqq"},
	{"meta-color", regexp.MustCompile(`(?s)^incorrect color (` + pjQ + `) at branding\.icon in metadata of (` + pjQ + `) action at (` + pjQ + `)\. see .*$`), "qqq"},
	{"runs-using-missing", regexp.MustCompile(`(?s)^"runs\.using" is missing in local action (` + pjQ + `) defined at (` + pjQ + `)$`), "qq"},
	{"runs-using-invalid", regexp.MustCompile(`(?s)^invalid runner name (` + pjQ + `) at runs\.using in (` + pjQ + `) action defined at (` + pjQ + `)\. valid runners are .*$`), "qqq"},
	{"runs-file-missing", regexp.MustCompile(`(?s)^file (` + pjQ + `) does not exist in (` + pjQ + `)\. it is specified at (` + pjQ + `) key in "runs" section in (` + pjQ + `) action$`), "qqqq"},
	{"runs-prop-required", regexp.MustCompile(`(?s)^(` + pjQ + `) is required in "runs" section because (` + pjQ + `) is a (\w+) action\. the action is defined at (` + pjQ + `)$`), "qqsq"},
	{"runs-prop-not-allowed", regexp.MustCompile(`(?s)^(` + pjQ + `) is not allowed in "runs" section because (` + pjQ + `) is a (\w+) action\. the action is defined at (` + pjQ + `)$`), "qqsq"},
	{"image-not-dockerfile", regexp.MustCompile(`(?s)^the local file (` + pjQ + `) referenced from "image" key must be named "Dockerfile" in (` + pjQ + `) action\. the action is defined at (` + pjQ + `)$`), "qqq"},
	{"pre-required", regexp.MustCompile(`(?s)^"pre" is required when "pre-if" is specified in "runs" section in (` + pjQ + `) action\. the action is defined at (` + pjQ + `)$`), "qq"},
	{"post-required", regexp.MustCompile(`(?s)^"post" is required when "post-if" is specified in "runs" section in (` + pjQ + `) action\. the action is defined at (` + pjQ + `)$`), "qq"},
	{"meta-broken", regexp.MustCompile(`(?s)^could not parse action metadata in (` + pjQ + `): .*$`), "q"},
	{"local-input-undefined", regexp.MustCompile(`(?s)^input (` + pjQ + `) is not defined in action (` + pjQ + `) defined at (` + pjQ + `)\. available inputs are (.*)$`), "qqql"},
	{"local-input-missing", regexp.MustCompile(`(?s)^missing input (` + pjQ + `) which is required by action (` + pjQ + `) defined at (` + pjQ + `)\. all required inputs are (.*)$`), "qqql"},
}

// pjCanonAction: the diagnostics rule action produces for a LOCAL action, in the driver's notation
func pjCanonAction(e *actionlint.Error) (string, bool) {
	head := fmt.Sprintf("%d:%d:%s:", e.Line, e.Column, e.Kind)
	for _, t := range pjActionTemplates {
		m := t.re.FindStringSubmatch(e.Message)
		if m == nil {
			continue
		}
		var args []string
		for i, k := range t.kind {
			switch k {
			case 'q':
				args = append(args, hx(pjUnq(m[i+1])))
			case 's':
				args = append(args, hx(m[i+1]))
			case 'l':
				var names []string
				for _, q := range pjNoteRe.FindAllString(m[i+1], -1) {
					names = append(names, pjUnq(q))
				}
				sort.Strings(names)
				for _, n := range names {
					args = append(args, hx(n))
				}
			}
		}
		// the model's argument order: (prop, name, type, dir) for the two runs-prop templates
		return head + t.code + ":" + strings.Join(args, ","), true
	}
	return "", false
}

// pjClassifyExpr: the expression-kind diagnostics that exist only inside a project
func pjClassifyExpr(msg string) (string, bool) {
	enc := func(code string, xs ...string) string {
		hs := make([]string, len(xs))
		for i, x := range xs {
			hs[i] = hx(exEscaper.Replace(x))
		}
		return code + "(" + strings.Join(hs, ",") + ")"
	}
	if m := pjTyped.FindStringSubmatch(msg); m != nil {
		return enc("call-input-type", pjUnq(m[1]), m[2], pjUnq(m[3]), m[4]), true
	}
	if m := pjUnread.FindStringSubmatch(msg); m != nil {
		return enc("callee-unreadable", pjUnq(m[1])), true
	}
	if m := pjBroken.FindStringSubmatch(msg); m != nil {
		return enc("callee-broken", pjUnq(m[1])), true
	}
	if m := pjActionTemplates[12].re.FindStringSubmatch(msg); m != nil {
		return enc("meta-broken", pjUnq(m[1])), true
	}
	return "", false
}

func pjMetaSexp(m *actionlint.ReusableWorkflowMetadata) string {
	lst := func(items []string) string {
		if len(items) == 0 {
			return "E"
		}
		sort.Strings(items)
		return "(" + strings.Join(items, ",") + ")"
	}
	var in, sec, out []string
	for k, i := range m.Inputs {
		in = append(in, fmt.Sprintf("(%s,%s,%s,%s)", hx(k), hx(i.Name), b01(i.Required), cmTyName(i.Type)))
	}
	for k, s := range m.Secrets {
		sec = append(sec, fmt.Sprintf("(%s,%s,%s)", hx(k), hx(s.Name), b01(s.Required)))
	}
	for k, o := range m.Outputs {
		out = append(out, fmt.Sprintf("(%s,%s)", hx(k), hx(o.Name)))
	}
	return "(" + lst(in) + "," + lst(sec) + "," + lst(out) + ")"
}

// pjEnvSexp: what is on disk behind every `uses:` of a job of the caller (asked of a fresh cache, so that each answer
// is the disk's and not an earlier look-up's)
func (e *pjEnv) envSexp(root *yaml.Node) string {
	specs := map[string]bool{}
	var walk func(n *yaml.Node, depth int)
	walk = func(n *yaml.Node, depth int) {
		if n.Kind == yaml.MappingNode {
			for i := 0; i+1 < len(n.Content); i += 2 {
				if n.Content[i].Value == "uses" && n.Content[i+1].Kind == yaml.ScalarNode {
					specs[n.Content[i+1].Value] = true
				}
				walk(n.Content[i+1], depth+1)
			}
			return
		}
		for _, c := range n.Content {
			walk(c, depth+1)
		}
	}
	walk(root, 0)
	var items []string
	for s := range specs {
		if !strings.HasPrefix(s, "./") || actionlint.ContainsExpression(s) {
			continue
		}
		c := actionlint.NewLocalReusableWorkflowCache(e.proj, e.root, nil)
		m, err := c.FindMetadata(s)
		switch {
		case err != nil && strings.HasPrefix(err.Error(), "could not read"):
			items = append(items, "("+hx(s)+",m)")
		case err != nil:
			items = append(items, "("+hx(s)+",b)")
		case m == nil:
			items = append(items, "("+hx(s)+",b)")
		default:
			items = append(items, "("+hx(s)+","+pjMetaSexp(m)+")")
		}
	}
	sort.Strings(items)
	table := "E"
	if len(items) > 0 {
		table = "(" + strings.Join(items, ",") + ")"
	}
	return "(1," + hx("./.github/workflows/caller.yml") + "," + table + ")"
}

func pjStr(v string) string { return hx(v) }

// actionEnvSexp: what the real LocalActionsCache finds for every `./` action spec used in a step of the caller (asked of a
// fresh cache), whether the files its `runs` section names exist, and membership of its branding in the real tables
func (e *pjEnv) actionEnvSexp(root *yaml.Node) string {
	specs := map[string]bool{}
	var walk func(n *yaml.Node)
	walk = func(n *yaml.Node) {
		if n.Kind == yaml.MappingNode {
			for i := 0; i+1 < len(n.Content); i += 2 {
				if n.Content[i].Value == "uses" && n.Content[i+1].Kind == yaml.ScalarNode {
					specs[n.Content[i+1].Value] = true
				}
				walk(n.Content[i+1])
			}
			return
		}
		for _, c := range n.Content {
			walk(c)
		}
	}
	walk(root)
	var items, missing, bases []string
	seenMissing, seenBase := map[string]bool{}, map[string]bool{}
	for sp := range specs {
		if !strings.HasPrefix(sp, "./") {
			continue
		}
		c := actionlint.NewLocalActionsCache(e.proj, nil)
		m, _, err := c.FindMetadata(sp)
		switch {
		case err != nil:
			dir := filepath.Join(e.proj.RootDir(), filepath.FromSlash(sp))
			items = append(items, "("+hx(sp)+",(b,"+hx(dir)+"))")
		case m == nil:
			items = append(items, "("+hx(sp)+",a)")
		default:
			r := m.Runs
			_, iconOK := actionlint.BrandingIcons[strings.ToLower(m.Branding.Icon)]
			_, colorOK := actionlint.BrandingColors[strings.ToLower(m.Branding.Color)]
			var ins, outs []string
			for id, i := range m.Inputs {
				ins = append(ins, fmt.Sprintf("(%s,%s,%s)", hx(id), hx(i.Name), b01(i.Required)))
			}
			for id, o := range m.Outputs {
				outs = append(outs, fmt.Sprintf("(%s,%s)", hx(id), hx(o.Name)))
			}
			lst := func(xs []string) string {
				if len(xs) == 0 {
					return "E"
				}
				sort.Strings(xs)
				return "(" + strings.Join(xs, ",") + ")"
			}
			runs := fmt.Sprintf("(%s,%s,%s,%s,%s,%s,%s,%s,%s,%s,%s,%s,%s,%s)", hx(r.Using), hx(r.Main), hx(r.Pre), hx(r.PreIf), hx(r.Post), hx(r.PostIf), hx(r.Image), hx(r.PreEntrypoint), hx(r.Entrypoint), hx(r.PostEntrypoint),
				b01(r.Steps == nil), b01(len(r.Steps) > 0), b01(r.Args == nil), b01(r.Env == nil))
			items = append(items, fmt.Sprintf("(%s,(%s,%s,%s,%s,%s,%s,%s,%s,%s,%s,%s))", hx(sp), hx(m.Name), hx(m.Description), hx(m.Branding.Icon), b01(iconOK), hx(m.Branding.Color), b01(colorOK), runs, lst(ins), lst(outs), hx(m.Dir()), hx(m.Path())))
			for _, f := range []string{r.Main, r.Pre, r.Post, r.Image, r.PreEntrypoint, r.Entrypoint, r.PostEntrypoint} {
				if f == "" {
					continue
				}
				ff := filepath.FromSlash(f)
				if _, err := os.Stat(filepath.Join(m.Dir(), ff)); os.IsNotExist(err) && !seenMissing[m.Dir()+"|"+ff] {
					seenMissing[m.Dir()+"|"+ff] = true
					missing = append(missing, "("+hx(m.Dir())+","+hx(ff)+")")
				}
				if !seenBase[f] {
					seenBase[f] = true
					bases = append(bases, "("+hx(f)+","+hx(filepath.Base(ff))+")")
				}
			}
		}
	}
	lst := func(xs []string) string {
		if len(xs) == 0 {
			return "E"
		}
		sort.Strings(xs)
		return "(" + strings.Join(xs, ",") + ")"
	}
	return "(1," + lst(items) + "," + lst(missing) + "," + lst(bases) + ")"
}

// the configuration file of the scratch repository for one case: labels (glob patterns for path.Match) and
// config-variables (absent / null / empty / a list)
var pjConfigs = []string{
	"",
	"self-hosted-runner:\n  labels: [gpu-box, 'linux-*', 'arm?']\nconfig-variables: [DEPLOY_ENV, Token_Name]\n",
	"self-hosted-runner:\n  labels: []\nconfig-variables: []\n",
	"config-variables: null\n",
	"self-hosted-runner:\n  labels: ['[', gpu-box]\n",
	"self-hosted-runner:\n  labels: ['custom[0-9]', 'a\\', '*']\nconfig-variables: [deploy_env]\n",
	"self-hosted-runner:\n  labels: ['x[', 'gpu-*']\nconfig-variables: [A]\n",
}

// configEnvSexp: the labels and variables of the parsed configuration, and what Go's path.Match says for every configured
// label pattern on every scalar of the caller (a label can come from runs-on or from a matrix)
func pjConfigEnvSexp(cfgSrc string, root *yaml.Node) string {
	if cfgSrc == "" {
		return "(E,N,E,E)"
	}
	cfg, err := actionlint.ParseConfig([]byte(cfgSrc))
	if err != nil {
		return "(E,N,E,E)"
	}
	lst := func(xs []string) string {
		if len(xs) == 0 {
			return "E"
		}
		return "(" + strings.Join(xs, ",") + ")"
	}
	var labels []string
	for _, l := range cfg.SelfHostedRunner.Labels {
		labels = append(labels, hx(l))
	}
	vars := "N"
	if cfg.ConfigVariables != nil {
		var vs []string
		for _, v := range cfg.ConfigVariables {
			vs = append(vs, hx(v))
		}
		vars = lst(vs)
	}
	scalars := map[string]bool{}
	cfScalars(root, scalars)
	var matches, bad []string
	for _, p := range cfg.SelfHostedRunner.Labels {
		for sc := range scalars {
			m, err := path.Match(p, sc)
			if err != nil {
				bad = append(bad, "("+hx(p)+","+hx(sc)+")")
			} else if m {
				matches = append(matches, "("+hx(p)+","+hx(sc)+")")
			}
		}
	}
	sort.Strings(matches)
	sort.Strings(bad)
	return "(" + lst(labels) + "," + vars + "," + lst(matches) + "," + lst(bad) + ")"
}

// pjCase: both driver lines and the real answers for one caller
func (e *pjEnv) pjCase(src string, prefill bool, cfgSrc string) (lintLine, lintImpl, exprLine, exprImpl string, ok bool) {
	var root yaml.Node
	if err := yaml.Unmarshal([]byte(src), &root); err != nil {
		return "", "", "", "", false
	}
	p := filepath.Join(e.wf, "caller.yml")
	os.WriteFile(p, []byte(src), 0o644)
	nums := map[string]bool{}
	node := nodeSexp(&root, nums)
	exNumbers(&root, nums)
	env := e.envSexp(&root)
	aenv := e.actionEnvSexp(&root)
	cfgPath := filepath.Join(e.root, ".github", "actionlint.yaml")
	if cfgSrc == "" {
		os.Remove(cfgPath)
	} else {
		os.WriteFile(cfgPath, []byte(cfgSrc), 0o644)
	}
	cenv := pjConfigEnvSexp(cfgSrc, &root)
	lintLine = "lintwfp " + numsSexp(nums) + " " + lwBadURLs(&root) + " " + lwZones(&root) + " " + env + " " + aenv + " " + cenv + " " + node
	exprLine = "exprwfp " + numsSexp(nums) + " " + env + " " + aenv + " " + cenv + " " + node
	l, err := actionlint.NewLinter(nopWriter{}, &actionlint.LinterOptions{Shellcheck: "", Pyflakes: ""})
	if err != nil {
		return "", "", "", "", false
	}
	if prefill {
		// the well-formed called workflows are linted first by the same linter: their interfaces are then in the cache,
		// taken from their ASTs (AL.Props.C10Once.prefilled_cache_same_diagnostics: the caller's diagnostics are the same)
		for _, callee := range []string{"ok1.yml", "ok2.yml", "ok3.yml", "x@v1.yml"} {
			if _, err := l.LintFile(filepath.Join(e.wf, callee), nil); err != nil {
				return "", "", "", "", false
			}
		}
	}
	errs, err := l.LintFile(p, nil)
	if err != nil {
		return "", "", "", "", false
	}
	var lparts, eparts []string
	markers, skip := lwCronSkips(src)
	for _, er := range errs {
		if er.Kind == "expression" {
			if c, ok := pjClassifyExpr(er.Message); ok {
				eparts = append(eparts, c)
			} else {
				eparts = append(eparts, exClassify(er.Message))
			}
			continue
		}
		if lwCronSkipped(er, skip) {
			continue // the interval of a schedule in a zone other than UTC is not modelled
		}
		if er.Kind == "workflow-call" {
			if c, ok := pjCanonWC(er); ok {
				lparts = append(lparts, c)
				continue
			}
		}
		if er.Kind == "action" {
			if c, ok := pjCanonAction(er); ok {
				lparts = append(lparts, c)
				continue
			}
		}
		if lwKinds[er.Kind] {
			lparts = append(lparts, lwCanonErr(er))
		} else {
			lparts = append(lparts, fmt.Sprintf("%d:%d:%s:?unmodelled-kind", er.Line, er.Column, er.Kind))
		}
	}
	sort.Strings(eparts)
	return lintLine, strings.Join(append(lparts, markers...), ";"), exprLine, strings.Join(eparts, ";"), true
}

// pjStandard: n generated callers (+ directed ones) through both ties
func pjStandard(c *ctx, r *Report, n int) error {
	env, err := newPjEnv()
	if err != nil {
		return err
	}
	defer env.close()
	lwLocalUTC(r)
	rng := rand.New(rand.NewSource(c.seed*104729 + 3))
	directed := []string{
		// the callee's defect is reported once, by the first job in source order; by the expression rule when a job that
		// NEEDS the calling job comes first
		"on: push\njobs:\n  a:\n    uses: ./.github/workflows/missing.yml\n  b:\n    uses: ./.github/workflows/missing.yml\n  c:\n    uses: ./.github/workflows/unparse.yml\n  d:\n    uses: ./.github/workflows/unparse.yml\n",
		"on: push\njobs:\n  first:\n    needs: [second]\n    runs-on: ubuntu-latest\n    steps:\n      - run: echo ${{ needs.second.outputs.x }}\n  second:\n    uses: ./.github/workflows/missing.yml\n",
		"on: push\njobs:\n  first:\n    needs: [second]\n    runs-on: ubuntu-latest\n    steps:\n      - run: echo ${{ needs.second.outputs.out1 }} ${{ needs.second.outputs.OUT2 }} ${{ needs.second.outputs.nope }}\n  second:\n    uses: ./.github/workflows/ok1.yml\n    with:\n      name: x\n      anything: y\n    secrets: inherit\n",
		"on: push\njobs:\n  a:\n    uses: ./.github/workflows/ok1.yml\n    with:\n      NAME: 1\n      num: abc\n      flag: 1\n      b_ool: ${{ 'x' }}\n      extra: 1\n    secrets:\n      other: x\n",
		"on: push\njobs:\n  a:\n    uses: ./.github/workflows/ok1.yml@v1\n  b:\n    needs: a\n    uses: ./.github/workflows/ok1.yml@v1\n",
		"on: push\njobs:\n  a:\n    needs: b\n    runs-on: ubuntu-latest\n    steps:\n      - run: echo ${{ needs.b.outputs.zz }}\n  b:\n    uses: ./.github/workflows/x@v1.yml\n  c:\n    needs: b\n    runs-on: ubuntu-latest\n    steps:\n      - run: echo ${{ needs.b.outputs.zz }}\n",
		"on:\n  workflow_call:\n    inputs:\n      selfin:\n        type: number\n        required: true\njobs:\n  a:\n    uses: ./.github/workflows/caller.yml\n    with:\n      selfin: abc\n  b:\n    uses: ./.github/workflows/caller.yml\n",
	}
	// the CRON check inside a project (the zone names go to `lintwfp` as they go to `lintwf`)
	directed = append(directed,
		"on:\n  schedule:\n    - cron: '*/4 * * * *'\n    - cron: 'TZ=Asia/Tokyo * * * * *'\n    - cron: 'TZ=UTC'\n    - cron: '61 * * * *'\n    - cron: 'TZ=Nowhere/Land 0 0 * * *'\n  push:\njobs:\n  a:\n    uses: ./.github/workflows/ok1.yml\n    with:\n      name: x\n",
		"on:\n  workflow_dispatch:\n    inputs:\n      c:\n        type: choice\n  schedule:\n    - cron: '0 0 31 2 *'\n    - cron: 'CRON_TZ=UTC 0,2 * * * *'\n    - cron: '0 0 * * *'\njobs:\n  a:\n    runs-on: ubuntu-latest\n    steps:\n      - uses: ./.github/actions/nosuch\n",
	)
	// every local action of the scratch repository: used twice in one job (the metadata is checked at the first use only),
	// once with an id whose outputs are read, with a declared, a missing and an undeclared input
	for _, sp := range pjActionSpecs {
		directed = append(directed, "on: push\njobs:\n  a:\n    runs-on: ubuntu-latest\n    steps:\n      - uses: "+sp+"\n        id: first\n        with:\n          name: x\n          extra: y\n      - uses: "+sp+"\n      - run: echo ${{ steps.first.outputs.out1 }} ${{ steps.first.outputs.nosuch }}\n  b:\n    runs-on: ubuntu-latest\n    steps:\n      - uses: "+sp+"\n        with:\n          a: 1\n")
	}
	var lintLines, lintImpls, exprLines, exprImpls, srcs []string
	nAdded := 0
	add := func(src string) {
		var ll, li, el, ei string
		var ok bool
		nAdded++
		prefill := nAdded%3 == 0
		if prefill {
			r.hist("projcall:callees-linted-first")
		}
		cfgSrc := pjConfigs[(nAdded/2)%len(pjConfigs)]
		pmsg, to := guarded(pwTimeout, func() { ll, li, el, ei, ok = env.pjCase(src, prefill, cfgSrc) })
		if pmsg != "" || to {
			r.Crashes = append(r.Crashes, Case{Op: "lintwfp", Input: map[string]string{"src": src}, Note: "panic/timeout: " + pmsg})
			return
		}
		if !ok {
			r.hist("projcall:yaml-rejects")
			return
		}
		lintLines, lintImpls, exprLines, exprImpls, srcs = append(lintLines, ll), append(lintImpls, li), append(exprLines, el), append(exprImpls, ei), append(srcs, src)
	}
	for _, d := range directed {
		add(d)
	}
	for i := 0; i < n; i++ {
		src, _ := pjGenCaller(rng)
		add(src)
	}
	// model against model: with no project both project operations must answer what `lintwf` / `exprwf` answer (the project
	// models extend the others conservatively)
	{
		var a, b []string
		for i, ll := range lintLines {
			if i%4 != 0 {
				continue
			}
			f := strings.SplitN(ll, " ", 8) // lintwfp nums urls zones env aenv cenv node
			g := strings.SplitN(exprLines[i], " ", 6)
			if len(f) != 8 || len(g) != 6 {
				continue
			}
			a = append(a, "lintwf "+f[1]+" "+f[2]+" "+f[3]+" "+f[7], "exprwf "+g[1]+" "+g[5])
			b = append(b, "lintwfp "+f[1]+" "+f[2]+" "+f[3]+" (0,N,E) (0,E,E,E) (E,N,E,E) "+f[7], "exprwfp "+g[1]+" (0,N,E) (0,E,E,E) (E,N,E,E) "+g[5])
		}
		ao, err := runModel(c.driver, a)
		if err != nil {
			return err
		}
		bo, err := runModel(c.driver, b)
		if err != nil {
			return err
		}
		for i := range ao {
			r.Evaluations++
			r.hist("projcall:no-project-consistency")
			if ao[i] != bo[i] {
				r.disagree(Case{Op: "project-model-without-project", Input: map[string]string{"line": truncate(b[i], 3000)}, Impl: ao[i], Model: bo[i], Note: "the project operation with hasProject = 0 differs from the plain operation"})
			}
		}
	}
	lo, err := runModel(c.driver, lintLines)
	if err != nil {
		return err
	}
	eo, err := runModel(c.driver, exprLines)
	if err != nil {
		return err
	}
	for i := range srcs {
		r.Evaluations += 2
		if lintImpls[i] != "" || exprImpls[i] != "" {
			r.nontrivial("projcall:" + lintImpls[i] + "|" + exprImpls[i])
		}
		for _, d := range strings.Split(lintImpls[i], ";") {
			if f := strings.SplitN(d, ":", 5); len(f) >= 4 && f[2] == "workflow-call" {
				r.hist("projcall:wc:" + f[3])
			} else if len(f) >= 4 && f[2] == "action" {
				r.hist("projcall:action:" + f[3])
			} else if len(f) >= 4 && strings.HasPrefix(f[3], "cron-") {
				r.hist("projcall:events:" + f[3])
			}
		}
		for _, d := range strings.Split(exprImpls[i], ";") {
			if j := strings.Index(d, "("); j > 0 && (strings.HasPrefix(d, "call") || strings.HasPrefix(d, "callee") || strings.HasPrefix(d, "meta-")) {
				r.hist("projcall:expr:" + d[:j])
			}
		}
		// the clauses of C14 / C10 / C07 about local callees are theorems on the model (AL.Props.C14Proj, C10Once, C07Proj): a
		// caller on which the real diagnostics differ from the model's is a failing input for them, not only a broken tie
		if lo[i] != lintImpls[i] {
			cs := Case{Op: "lintwfp", Input: map[string]string{"src": srcs[i], "repository": "scratch repository of go/corr/projcall.go (pjActions, pjCallee*)"}, Impl: lintImpls[i], Model: lo[i]}
			r.disagree(cs)
			if !strings.Contains(lintImpls[i], ":?") { // an unrecognised message text is a broken tie, not a failing input
				r.finding("project-diagnostics-differ-from-proved-model", "the diagnostics of a caller of local workflows / actions (rules other than expression) differ from the model the interface clauses are proved on", cs)
			}
		}
		if eo[i] != exprImpls[i] {
			cs := Case{Op: "exprwfp", Input: map[string]string{"src": srcs[i], "repository": "scratch repository of go/corr/projcall.go (pjActions, pjCallee*)"}, Impl: exprImpls[i], Model: eo[i]}
			r.disagree(cs)
			if !strings.Contains(exprImpls[i], "unclassified") {
				r.finding("project-expression-diagnostics-differ-from-proved-model", "the expression diagnostics of a caller of local workflows / actions (typed inputs, needs / steps outputs, callee defects) differ from the model the interface clauses are proved on", cs)
			}
		}
	}
	return nil
}

func init() { props["PJ"] = runPJ }

func runPJ(c *ctx, r *Report) error {
	r.Rule = "reusable-workflow calls inside a project: real LintFile vs AL.ProjCall"
	n := 1500
	if !c.quick {
		n = 30000
	}
	return pjStandard(c, r, n)
}

// pjRunTie: RUNS over several files of one scratch repository through ONE real Linter, file after file (the sequential
// schedule), against AL.ProjRun.callsRun (op `callsrun`; AL.C10F: alone = in a run, a callee's own defect once per run): per file
// the diagnostics of rule workflow-call and the expression diagnostics the look-ups add (callee unreadable / broken, typed
// inputs). The files are generated callers, sometimes one of the well-formed callees itself (its interface is then registered
// from its AST before or after the callers ask for it).
func pjRunTie(c *ctx, r *Report, n int) error {
	env, err := newPjEnv()
	if err != nil {
		return err
	}
	defer env.close()
	rng := rand.New(rand.NewSource(c.seed*15485863 + 7))
	var lines, impls []string
	var cases []Case
	var badFormat []bool
	for i := 0; i < n; i++ {
		type rf struct{ name, src string }
		var files []rf
		k := 2 + rng.Intn(2)
		for j := 0; j < k; j++ {
			if rng.Intn(4) == 0 {
				callee := []rf{{"ok1.yml", pjCalleeOK1}, {"ok3.yml", pjCalleeOK3}, {"ok2.yml", pjCalleeOK2}}[rng.Intn(3)]
				dup := false
				for _, f := range files {
					if f.name == callee.name {
						dup = true
					}
				}
				if !dup {
					files = append(files, callee)
					continue
				}
			}
			src, _ := pjGenCaller(rng)
			files = append(files, rf{fmt.Sprintf("run%d.yml", j), src})
		}
		if i < 4 {
			// directed: two files referring to the same missing / unparseable callee (its defect once per run, at the first file)
			bad := []string{"./.github/workflows/missing.yml", "./.github/workflows/unparse.yml"}[i%2]
			a := "on: push\njobs:\n  a:\n    uses: " + bad + "\n"
			b := "on: push\njobs:\n  first:\n    needs: [second]\n    runs-on: ubuntu-latest\n    steps:\n      - run: echo ${{ needs.second.outputs.x }}\n  second:\n    uses: " + bad + "\n"
			files = []rf{{"run0.yml", a}, {"run1.yml", b}}
			if i >= 2 {
				files = []rf{{"run0.yml", b}, {"run1.yml", a}}
			}
		}
		ok := true
		var roots []*yaml.Node
		var parts []string
		for _, f := range files {
			var root yaml.Node
			if err := yaml.Unmarshal([]byte(f.src), &root); err != nil {
				ok = false
				break
			}
			if !strings.HasPrefix(f.name, "ok") {
				os.WriteFile(filepath.Join(env.wf, f.name), []byte(f.src), 0o644)
			}
			nums := map[string]bool{}
			node := nodeSexp(&root, nums)
			exNumbers(&root, nums)
			parts = append(parts, hx("./.github/workflows/"+f.name)+" "+numsSexp(nums)+" "+node)
			rc := root
			roots = append(roots, &rc)
		}
		if !ok {
			continue
		}
		// what is on disk behind every spec of every file (asked of fresh caches)
		table := map[string]string{}
		for _, root := range roots {
			es := env.envSexp(root) // (1,self,table)
			if i1 := strings.Index(es, ",("); i1 >= 0 && strings.HasSuffix(es, "))") {
				inner := es[i1+2 : len(es)-2]
				depth, start := 0, 0
				for p := 0; p < len(inner); p++ {
					switch inner[p] {
					case '(':
						if depth == 0 {
							start = p
						}
						depth++
					case ')':
						depth--
						if depth == 0 {
							item := inner[start : p+1]
							table[item] = item
						}
					}
				}
			}
		}
		var items []string
		for it := range table {
			items = append(items, it)
		}
		sort.Strings(items)
		tbl := "E"
		if len(items) > 0 {
			tbl = "(" + strings.Join(items, ",") + ")"
		}
		l, err := actionlint.NewLinter(nopWriter{}, &actionlint.LinterOptions{Shellcheck: "", Pyflakes: ""})
		if err != nil {
			return err
		}
		var perFile []string
		crashed := false
		// ONE LintFiles call: only then the files share the caches (LintFile makes caches of its own). The files are linted
		// concurrently, so WHICH file reports a callee's own defect is up to the schedule: the comparison below is on the
		// per-file diagnostics without the callees' own defects (AL.C10F.others_in_run_eq_alone) and on the number of defect
		// reports in the whole run (AL.C10F.callee_defect_at_most_once_per_run / callee_defect_exactly_once)
		var paths []string
		for _, f := range files {
			paths = append(paths, filepath.Join(env.wf, f.name))
		}
		var all []*actionlint.Error
		var lerr error
		pmsg, to := guarded(pwTimeout, func() { all, lerr = l.LintFiles(paths, nil) })
		if pmsg != "" || to || lerr != nil {
			r.Crashes = append(r.Crashes, Case{Op: "callsrun", Input: map[string]string{"files": strings.Join(paths, ",")}, Note: fmt.Sprint(pmsg, lerr)})
			crashed = true
		}
		for _, f := range files {
			if crashed {
				break
			}
			var w, ex []string
			for _, er := range all {
				if filepath.Base(er.Filepath) != f.name {
					continue
				}
				switch er.Kind {
				case "workflow-call":
					// the format check of `uses:` belongs to the AST-only half of the rule (AL.Rules.ruleWorkflowCall, tied by lintwf)
					if cstr, ok := pjCanonWC(er); ok {
						w = append(w, cstr)
					} else if cstr := lwCanonErr(er); !strings.Contains(cstr, ":call-format:") {
						w = append(w, cstr)
					}
				case "expression":
					// the typed check of supplied inputs is the expression rule's own (AL.RuleExpr.typedInput, tied by exprwfp)
					if cstr, ok := pjClassifyExpr(er.Message); ok && (strings.HasPrefix(cstr, "callee-unreadable(") || strings.HasPrefix(cstr, "callee-broken(")) {
						ex = append(ex, cstr)
					}
				}
			}
			sort.Strings(ex)
			perFile = append(perFile, "W"+strings.Join(w, ";")+"#E"+strings.Join(ex, ";"))
		}
		for _, f := range files {
			if !strings.HasPrefix(f.name, "ok") {
				os.Remove(filepath.Join(env.wf, f.name))
			}
		}
		if crashed {
			continue
		}
		r.Evaluations++
		var names []string
		for _, f := range files {
			names = append(names, f.name)
		}
		r.hist(fmt.Sprintf("callsrun:files=%d", len(files)))
		bf := false
		for _, f := range files {
			for _, m := range regexp.MustCompile(`(?m)^\s*uses:\s*(\S+)\s*$`).FindAllStringSubmatch(f.src, -1) {
				u := strings.Trim(m[1], `'"`)
				if strings.HasPrefix(u, "./") && !strings.HasPrefix(u, "./act") {
					rest := u[2:]
					if rest == "" || strings.Index(rest, "@") > 0 {
						bf = true
					}
				}
			}
		}
		badFormat = append(badFormat, bf)
		lines = append(lines, "callsrun (1,N,"+tbl+") "+strings.Join(parts, " "))
		impls = append(impls, strings.Join(perFile, "|"))
		in := map[string]string{"files": strings.Join(names, ",")}
		for _, f := range files {
			in[f.name] = f.src
		}
		cases = append(cases, Case{Op: "callsrun", Input: in})
	}
	out, err := runModel(c.driver, lines)
	if err != nil {
		return err
	}
	// a run's answer without the callees' own defects, and the number of defect reports in it
	strip := func(ans string) (string, int) {
		n := 0
		var files []string
		for _, f := range strings.Split(ans, "|") {
			we := strings.SplitN(strings.TrimPrefix(f, "W"), "#E", 2)
			if len(we) != 2 {
				files = append(files, f)
				continue
			}
			keep := func(items string) string {
				var out []string
				for _, it := range strings.Split(items, ";") {
					if it == "" {
						continue
					}
					if strings.Contains(it, ":callee-unreadable:") || strings.Contains(it, ":callee-broken:") || strings.HasPrefix(it, "callee-unreadable(") || strings.HasPrefix(it, "callee-broken(") {
						n++
						continue
					}
					out = append(out, it)
				}
				return strings.Join(out, ";")
			}
			ws := strings.Split(keep(we[0]), ";")
			sort.Strings(ws) // Linter.check sorts by position, the model lists in rule order: compared as multisets here (the order is lintwfp's business)
			files = append(files, "W"+strings.Join(ws, ";")+"#E"+keep(we[1]))
		}
		return strings.Join(files, "|"), n
	}
	for i, m := range out {
		si, ni := strip(impls[i])
		sm, nm := strip(m)
		if badFormat[i] {
			// a `uses: ./…` that is not in the local call format is remembered as "nothing there" by rule workflow-call without a
			// report, and reported as unreadable when the expression rule asks first: the number of reports depends on the
			// order in which the files reach the cache (AL.C10F.bad_format_spec_counterexample), which LintFiles does not fix
			r.hist("callsrun:bad-format-spec(defect count not compared)")
			nm = ni
		}
		if si != sm || ni != nm {
			cs := cases[i]
			cs.Impl, cs.Model = fmt.Sprintf("%s (defect reports in the run: %d)", impls[i], ni), fmt.Sprintf("%s (defect reports in the run: %d)", m, nm)
			r.disagree(cs)
		} else {
			r.nontrivial("callsrun:" + impls[i] + lines[i][:40])
			r.hist(fmt.Sprintf("callsrun:defect-reports=%d", ni))
		}
	}
	return nil
}
