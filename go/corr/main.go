// Command corr is the correspondence / property-oracle harness of /verif.
// It runs the real actionlint code in-process, drives the Lean model through the line protocol
// (aldriver) on the same inputs, and evaluates each property's oracle on the implementation.
package main

import (
	"encoding/json"
	"flag"
	"fmt"
	"os"
	"sort"
	"time"
)

// Case is one replayable input of a run.
type Case struct {
	Op    string            `json:"op"`              // line-protocol operation or oracle name
	Input map[string]string `json:"input"`           // named inputs (text or hex)
	Impl  string            `json:"impl,omitempty"`  // canonical implementation output
	Model string            `json:"model,omitempty"` // canonical model output
	Note  string            `json:"note,omitempty"`
}

// Finding is a property failure observed on the implementation.
type Finding struct {
	Key  string `json:"key"`  // site key; matched against known_findings.txt
	Desc string `json:"desc"` // what fails
	Case Case   `json:"case"`
}

// Report is what a sub-command hands back to ./check.
type Report struct {
	Property      string         `json:"property"`
	Tier          string         `json:"tier"`
	Seed          int64          `json:"seed"`
	Evaluations   int            `json:"evaluations"`
	Distinct      int            `json:"distinct_nontrivial"`
	Rule          string         `json:"rule"`
	Exhaustive    bool           `json:"exhaustive"`
	Samples       []interface{}  `json:"samples"`
	Histogram     map[string]int `json:"histogram"`
	Disagreements []Case         `json:"disagreements"` // model ≠ implementation
	Findings      []Finding      `json:"findings"`      // property oracle failed on the implementation
	Crashes       []Case         `json:"crashes"`       // panic / timeout of the implementation
	Notes         []string       `json:"notes"`
	WallS         float64        `json:"wall_s"`

	distinct map[string]struct{}
}

func (r *Report) hist(k string) {
	if r.Histogram == nil {
		r.Histogram = map[string]int{}
	}
	r.Histogram[k]++
}

func (r *Report) nontrivial(key string) {
	if r.distinct == nil {
		r.distinct = map[string]struct{}{}
	}
	r.distinct[key] = struct{}{}
}

func (r *Report) sample(v interface{}) {
	if len(r.Samples) < 8 {
		r.Samples = append(r.Samples, v)
	}
}

func (r *Report) finding(key, desc string, c Case) {
	// keep at most 5 cases per key: the first ones are the smallest the enumeration produced
	n := 0
	for _, f := range r.Findings {
		if f.Key == key {
			n++
		}
	}
	if n < 5 {
		r.Findings = append(r.Findings, Finding{key, desc, c})
	}
}

func (r *Report) disagree(c Case) {
	if len(r.Disagreements) < 20 {
		r.Disagreements = append(r.Disagreements, c)
	}
}

type ctx struct {
	tier   string
	seed   int64
	driver string
	replay string
	quick  bool
}

type propFn func(c *ctx, r *Report) error

var props = map[string]propFn{}

func main() {
	tier := flag.String("tier", "quick", "quick|thorough")
	seed := flag.Int64("seed", 1, "PRNG seed")
	driver := flag.String("driver", "", "path of aldriver")
	out := flag.String("out", "", "report file")
	replay := flag.String("replay", "", "replay file")
	flag.Parse()
	if flag.NArg() != 1 {
		fmt.Fprintln(os.Stderr, "usage: corr [flags] <property>")
		os.Exit(2)
	}
	id := flag.Arg(0)
	fn, ok := props[id]
	if !ok {
		ids := []string{}
		for k := range props {
			ids = append(ids, k)
		}
		sort.Strings(ids)
		fmt.Fprintf(os.Stderr, "unknown property %s (have %v)\n", id, ids)
		os.Exit(2)
	}
	c := &ctx{tier: *tier, seed: *seed, driver: *driver, replay: *replay, quick: *tier != "thorough"}
	r := &Report{Property: id, Tier: *tier, Seed: *seed, Histogram: map[string]int{}}
	start := time.Now()
	if err := fn(c, r); err != nil {
		fmt.Fprintf(os.Stderr, "corr %s: %v\n", id, err)
		os.Exit(2)
	}
	r.WallS = time.Since(start).Seconds()
	r.Distinct = len(r.distinct)
	if r.Samples == nil {
		r.Samples = []interface{}{}
	}
	b, _ := json.MarshalIndent(r, "", " ")
	if *out != "" {
		if err := os.WriteFile(*out, b, 0o644); err != nil {
			fmt.Fprintln(os.Stderr, err)
			os.Exit(2)
		}
	} else {
		os.Stdout.Write(b)
	}
}
