package main

import (
	"fmt"
	"math/rand"
	"net/url"
	"regexp"
	"sort"
	"strings"
	"time"

	"github.com/rhysd/actionlint"
	"github.com/robfig/cron/v3"
	"gopkg.in/yaml.v3"
)

// Tie of AL.Rules.lint (parser + the rules that need nothing but the AST + the stable sort of Linter.check): a source is
// linted by the real Linter (external tools off); the diagnostics of the modelled kinds — syntax-check, matrix,
// credentials, job-needs, env-var, id, glob, permissions, if-cond — are compared one by one (position, kind, template,
// arguments, order) with the model's (operation `lintwf`). The CRON check of rule_events.go (robfig/cron) is part of it:
// the zone names of the document that time.LoadLocation knows go to the model; for a schedule in a zone other than UTC the
// model judges the format only: both sides name these entries (pseudo entries `cron-unmodelled` after the diagnostics) and
// the `too frequent` diagnostic of such an entry is left out of the comparison.

var lwKinds = map[string]bool{"syntax-check": true, "matrix": true, "credentials": true, "job-needs": true, "env-var": true,
	"id": true, "glob": true, "permissions": true, "if-cond": true, "shell-name": true, "deprecated-commands": true, "events": true, "runner-label": true, "action": true, "workflow-call": true}

var lwTemplates = map[string][]pwTemplate{
	"action": {
		pwCompile("input-undefined", `input @q@ is not defined in action @q@. available inputs are @x@`),
		pwCompile("input-missing", `missing input @q@ which is required by action @q@. all required inputs are @x@`),
		pwCompile("action-format", `specifying action @q@ in invalid format because @s@. available formats are "{owner}/{repo}@A@{ref}" or "{owner}/{repo}/{path}@A@{ref}"`),
		pwCompile("action-outdated", `the runner of @q@ action is too old to run on GitHub Actions. update the action's version to fix this issue`),
		pwCompile("docker-uri-invalid", `URI for Docker container @q@ is invalid: @x@ (tag=@s@)`),
		pwCompile("docker-tag-empty", `tag of Docker action should not be empty: @q@`),
	},
	"workflow-call": {
		pwCompile("call-format", `reusable workflow call @q@ at "uses" is not following the format @x@`),
	},
	"runner-label": {
		pwCompile("label-unknown", `label @q@ is unknown. available labels are @x@`),
		pwCompile("label-pattern-invalid", `label pattern @q@ is an invalid glob. kindly check list of labels in actionlint.yaml config file: @x@`),
		pwCompile("label-conflict", `label @q@ conflicts with label @q@ defined at @p@. note: to run your job on each workers, use matrix`),
	},
	"shell-name": {pwCompile("shell-name", `shell name @q@ is invalid@o@. available names are @x@`)},
	"deprecated-commands": {pwCompile("deprecated-command", `workflow command @q@ was deprecated. use @x@`)},
	"events": {
		pwCompile("cron-no-schedule", `invalid CRON format @q@ in schedule event: no schedule follows the time zone`),
		pwCompile("cron-invalid", `invalid CRON format @q@ in schedule event: @x@`),
		pwCompile("cron-too-frequent", `scheduled job runs too frequently. it runs once per @s@ seconds. the shortest interval is once every 5 minutes`),
		pwCompile("filters-exclusive", `both @q@ and @q@ filters cannot be used for the same event @q@. note: use '!' to negate patterns`),
		pwCompile("filter-not-available", `@q@ filter is not available for @s@ event. it is only for @x@`),
		pwCompile("unknown-webhook", `unknown Webhook event @q@. see @x@`),
		pwCompile("types-not-allowed", `"types" cannot be specified for @q@ Webhook event`),
		pwCompile("invalid-activity-type", `invalid activity type @q@ for @q@ Webhook event. available types are @x@`),
		pwCompile("workflow-run-no-workflows", `no workflow is configured for "workflow_run" event`),
		pwCompile("workflows-not-allowed", `"workflows" cannot be configured for @q@ event. it is only for workflow_run event`),
		pwCompile("call-default-not-number", `input of workflow_call event @q@ is typed as number but its default value @q@ cannot be parsed as a float number: @x@`),
		pwCompile("call-default-not-bool", `input of workflow_call event @q@ is typed as boolean. its default value must be true or false but got @q@`),
		pwCompile("call-default-and-required", `input @q@ of workflow_call event has the default value @q@, but it is also required. @x@`),
		pwCompile("choice-without-options", `input type of @q@ is "choice" but "options" is not set`),
		pwCompile("option-duplicated", `option @q@ is duplicated in options of @q@ input`),
		pwCompile("default-not-in-options", `default value @q@ of @q@ input is not included in its options @x@`),
		pwCompile("options-without-choice", `"options" can not be set to @q@ input because its input type is not "choice"`),
		pwCompile("dispatch-default-not-number", `type of @q@ input is "number" but its default value @q@ cannot be parsed as a float number: @x@`),
		pwCompile("dispatch-default-not-bool", `type of @q@ input is "boolean". its default value @q@ must be "true" or "false"`),
		pwCompile("too-many-inputs", `maximum number of inputs for "workflow_dispatch" event is 10 but @s@ inputs are provided. see @x@`),
	},
	"id": {
		pwCompile("id-convention", `invalid @s@ ID @q@. @x@ ID must start with a letter or _ and contain only alphanumeric characters, -, or _`),
		pwCompile("step-id-duplicate", `step ID @q@ duplicates. previously defined at @p@. step ID must be unique within a job. note that step ID is case insensitive`),
	},
	"env-var": {pwCompile("env-var-name", `environment variable name @q@ is invalid. '&', '=' and spaces should not be contained`)},
	"credentials": {
		pwCompile("password-literal-container", `"password" section in "container" section should be specified via secrets. do not put password value directly`),
		pwCompile("password-literal-service", `"password" section in @q@ service should be specified via secrets. do not put password value directly`),
	},
	"permissions": {
		pwCompile("permission-all", `@q@ is invalid for permission for all the scopes. available values are "read-all" and "write-all"`),
		pwCompile("permission-scope", `unknown permission scope @q@. all available permission scopes are @x@`),
		pwCompile("permission-value", `@q@ is invalid for permission of scope @q@. available values are "read", "write" or "none"`),
	},
	"if-cond": {pwCompile("if-cond-always-true", `if: condition @q@ is always evaluated to true because extra characters are around ${{ }}`)},
	"job-needs": {
		pwCompile("needs-duplicate", `job ID @q@ duplicates in "needs" section. note that job ID is case insensitive`),
		pwCompile("job-id-duplicate", `job ID @q@ duplicates. previously defined at @p@. note that job ID is case insensitive`),
		pwCompile("needs-undefined", `job @q@ needs job @q@ which does not exist in this workflow`),
		pwCompile("needs-cyclic", `cyclic dependencies in "needs" job configurations are detected. detected cycle is @c@`),
	},
	"matrix": {
		pwCompile("matrix-duplicate", `duplicate value @x@ is found in matrix @x@. the same value is at @p@`),
		pwCompile("matrix-no-variation", `"exclude" section exists but no matrix variation exists`),
		pwCompile("matrix-exclude-unknown-key", `@q@ in "exclude" section does not exist in matrix. available matrix configurations are @x@`),
		pwCompile("matrix-exclude-no-match", `value @x@ in "exclude" does not match in matrix @q@ combinations. possible values are @x@`),
	},
}

const lwGlobSuffix = ". note: filter pattern syntax is explained at https://docs.github.com/en/actions/using-workflows/workflow-syntax-for-github-actions#filter-pattern-cheat-sheet"

var lwCycleRe = regexp.MustCompile(pwQuoted)

func lwCanonErr(e *actionlint.Error) string {
	head := fmt.Sprintf("%d:%d:%s:", e.Line, e.Column, e.Kind)
	switch e.Kind {
	case "syntax-check":
		c := pwCanonErr(e) // line:col:code:args
		parts := strings.SplitN(c, ":", 3)
		return head + parts[2]
	case "glob":
		if !strings.HasSuffix(e.Message, lwGlobSuffix) {
			return head + "?" + hx(e.Message)
		}
		code, _ := classifyGlob(strings.TrimSuffix(e.Message, lwGlobSuffix))
		return head + "glob:" + hx(code)
	}
	for _, t := range lwTemplates[e.Kind] {
		m := t.re.FindStringSubmatch(e.Message)
		if m == nil {
			continue
		}
		var args []string
		ok := true
		for i, k := range t.kind {
			g := m[i+1]
			switch k {
			case 'q':
				u, good := pwUnquote(g)
				ok = ok && good
				args = append(args, hx(u))
			case 'l':
				// "a" -> "b" -> "a"  (the cycle)  or  "a", "b"
				var items []string
				for _, it := range lwCycleRe.FindAllString(g, -1) {
					u, _ := pwUnquote(it)
					items = append(items, u)
				}
				args = append(args, hx(strings.Join(items, ",")))
			default:
				args = append(args, hx(g))
			}
		}
		if !ok {
			continue
		}
		code := t.code
		switch code {
		case "password-literal-container":
			code, args = "password-literal", []string{hx("container"), hx("")}
		case "password-literal-service":
			code, args = "password-literal", append([]string{hx("service")}, args...)
		}
		return head + code + ":" + strings.Join(args, ",")
	}
	return head + "?" + hx(e.Message)
}

// lwBadURLs: the Docker URIs (tag stripped the way checkDockerAction strips it) that net/url rejects
func lwBadURLs(root *yaml.Node) string {
	bad := map[string]bool{}
	var walk func(n *yaml.Node)
	walk = func(n *yaml.Node) {
		if n.Kind == yaml.ScalarNode && strings.HasPrefix(n.Value, "docker://") {
			uri := n.Value
			if idx := strings.IndexRune(uri[len("docker://"):], ':'); idx != -1 {
				idx += len("docker://")
				if idx < len(uri) {
					uri = uri[:idx]
				}
			}
			if _, err := url.Parse(uri); err != nil {
				bad[uri] = true
			}
		}
		if n.Kind != yaml.AliasNode {
			for _, c := range n.Content {
				walk(c)
			}
		}
	}
	walk(root)
	var items []string
	for u := range bad {
		items = append(items, hx(u))
	}
	sort.Strings(items)
	return "(" + strings.Join(items, ",") + ")"
}

// lwZones: the zone names of the CRON specs of the document (any scalar with a `TZ=` / `CRON_TZ=` prefix and a blank) that
// time.LoadLocation knows
func lwZones(root *yaml.Node) string {
	known := map[string]bool{}
	var walk func(n *yaml.Node)
	walk = func(n *yaml.Node) {
		if n.Kind == yaml.ScalarNode {
			if z, ok := cronZoneOf(n.Value); ok {
				if _, err := time.LoadLocation(z); err == nil {
					known[z] = true
				}
			}
		}
		if n.Kind != yaml.AliasNode {
			for _, c := range n.Content {
				walk(c)
			}
		}
	}
	walk(root)
	var items []string
	for z := range known {
		items = append(items, hx(z))
	}
	sort.Strings(items)
	return "(" + strings.Join(items, ",") + ")"
}

// lwCronForeign: does robfig's parser accept the spec with a location other than UTC / Local (the interval of such a
// schedule is outside the model)?
func lwCronForeign(spec string) (foreign bool) {
	if (strings.HasPrefix(spec, "TZ=") || strings.HasPrefix(spec, "CRON_TZ=")) && !strings.Contains(spec, " ") {
		return false
	}
	defer func() {
		if recover() != nil {
			foreign = false
		}
	}()
	sched, err := cron.NewParser(cron.Minute | cron.Hour | cron.Dom | cron.Month | cron.Dow).Parse(spec)
	if err != nil {
		return false
	}
	ss, ok := sched.(*cron.SpecSchedule)
	return ok && ss.Location != time.UTC && ss.Location != time.Local
}

// lwCronSkips: the positions of the `schedule` entries (of the AST the real parser builds) in a foreign zone, in the order of
// `on:` — the pseudo entries of the canonical text — and the same as a set
func lwCronSkips(src string) (markers []string, set map[[2]int]bool) {
	set = map[[2]int]bool{}
	w, _ := actionlint.Parse([]byte(src))
	if w == nil {
		return nil, set
	}
	for _, ev := range w.On {
		se, ok := ev.(*actionlint.ScheduledEvent)
		if !ok {
			continue
		}
		for _, c := range se.Cron {
			if c != nil && c.Pos != nil && lwCronForeign(c.Value) {
				markers = append(markers, fmt.Sprintf("%d:%d:events:cron-unmodelled:", c.Pos.Line, c.Pos.Col))
				set[[2]int{c.Pos.Line, c.Pos.Col}] = true
			}
		}
	}
	return markers, set
}

// lwCronSkipped: a `too frequent` diagnostic of an entry in a foreign zone
func lwCronSkipped(e *actionlint.Error, set map[[2]int]bool) bool {
	return e.Kind == "events" && strings.HasPrefix(e.Message, "scheduled job runs too frequently") && set[[2]int{e.Line, e.Column}]
}

// lwLocalUTC: the model takes the local zone of the process to be UTC (a spec without zone prefix, `TZ=Local`)
func lwLocalUTC(r *Report) {
	if name, off := time.Unix(0, 0).Zone(); off != 0 {
		r.Notes = append(r.Notes, fmt.Sprintf("lintwf: the local zone is %s (offset %d), the model assumes UTC; forcing time.Local = time.UTC", name, off))
		time.Local = time.UTC
	}
}

// lwCase: protocol line and the canonical diagnostics of the modelled kinds
func lwCase(src string) (line, impl string, ok bool) {
	var root yaml.Node
	if err := yaml.Unmarshal([]byte(src), &root); err != nil {
		return "", "", false
	}
	nums := map[string]bool{}
	node := nodeSexp(&root, nums)
	exNumbers(&root, nums)
	line = "lintwf " + numsSexp(nums) + " " + lwBadURLs(&root) + " " + lwZones(&root) + " " + node
	errs, err := lintSrc("w.yaml", src)
	if err != nil {
		return "", "", false
	}
	var parts []string
	markers, skip := lwCronSkips(src)
	for _, e := range errs {
		if lwCronSkipped(e, skip) {
			continue // the interval of a schedule in a zone other than UTC is not modelled
		}
		if lwKinds[e.Kind] {
			parts = append(parts, lwCanonErr(e))
		} else if e.Kind != "expression" {
			// every kind the linter can produce without external tools is modelled (expression: by AL.RuleExpr / exprwf)
			parts = append(parts, fmt.Sprintf("%d:%d:%s:?unmodelled-kind", e.Line, e.Column, e.Kind))
		}
	}
	return line, strings.Join(append(parts, markers...), ";"), true
}

// lwTie runs the `lintwf` tie over the sources
func lwTie(c *ctx, r *Report, srcs []string, note string, judge func(cs Case) (string, string)) error {
	lwLocalUTC(r)
	b := &batch{judge: judge}
	if judge != nil {
		b.srcOf = func(cs Case) string { return cs.Input["src"] }
		b.rerun = func(orig Case, src string) (string, string, Case) {
			line, impl, ok := lwCase(src)
			if !ok {
				panic("yaml rejects")
			}
			return line, impl, Case{Op: "lintwf", Input: map[string]string{"src": src}, Note: orig.Note}
		}
	}
	for _, s := range srcs {
		var line, impl string
		var ok bool
		pmsg, to := guarded(pwTimeout, func() { line, impl, ok = lwCase(s) })
		if pmsg != "" || to {
			r.Crashes = append(r.Crashes, Case{Op: "lintwf", Input: map[string]string{"src": s}, Note: "panic/timeout in Lint: " + pmsg})
			continue
		}
		if !ok {
			continue
		}
		r.Evaluations++
		for _, d := range strings.Split(impl, ";") {
			if f := strings.SplitN(d, ":", 5); len(f) >= 4 {
				r.hist("lintwf:" + f[2])
				if strings.HasPrefix(f[3], "cron-") {
					r.hist("lintwf:events/" + f[3])
					if f[3] == "cron-too-frequent" && len(f) == 5 {
						r.hist("lintwf:events/cron-too-frequent/" + unhx(f[4]) + "s")
					}
				}
			}
		}
		if impl != "" {
			r.nontrivial("lw:" + impl)
		}
		b.add(line, impl, Case{Op: "lintwf", Input: map[string]string{"src": s}, Note: note})
	}
	_, err := b.flush(c, r)
	return err
}

func init() { props["LW"] = runLW }

func runLW(c *ctx, r *Report) error {
	r.Rule = "Linter.Lint vs AL.Rules.lint on the corpus and its mutants"
	return lwStandard(c, r, nil, 30, true)
}

// ---- CRON specs planted into the sources

var lwCronPool = []string{
	"*/5 * * * *", "*/4 * * * *", "* * * * *", "0,4 * * * *", "0,5 * * * *", "58,2 * * * *", "0-3 0 1 1 *", "*/15 * * * *", "0 0 * * *", "30 4 1,15 * 5", "0 0 29 2 *",
	"0 0 31 2 *", "0 0 30 2 MON", "60 * * * *", "* 24 * * *", "*/0 * * * *", "1-2-3 * * * *", "a * * * *", "* * * jan-DEC SUN-sat", "* * * * 7", "* * * *", "* * * * * *", "",
	" ", "TZ=UTC", "CRON_TZ=UTC", "TZ=", "TZ=UTC * * * * *", "CRON_TZ=UTC 0 0 * * *", "TZ=Local */2 * * * *", "TZ= 0 * * * *", "TZ=Asia/Tokyo 0 0 * * *",
	"TZ=Asia/Tokyo * * * * *", "CRON_TZ=America/New_York */3 * * * *", "TZ=Etc/UTC * * * * *", "TZ=Nowhere/Land 0 0 * * *", "TZ=Asia/Tokyo 61 * * * *", "TZ=Asia/Tokyo",
	"TZ=utc 0 0 * * *", "@daily", "@every 1m", "@hourly", "TZ=UTC @daily", "0 0 * * *\n", "*\t*\t*\t*\t*", "\u00a0* * * * *", "${{ x }}", "9223372036854775808 * * * *",
	"*/9223372036854775807 * * * *", "-0 * * * *", "FR\u0130 * * * *", "* * * * FR\u0130",
}

// lwCronDirected: several events with diagnostics of their own around the schedule (order), one entry of every outcome
var lwCronDirected = []string{
	"on:\n  workflow_dispatch:\n    inputs:\n      c:\n        type: choice\n  schedule:\n    - cron: '*/4 * * * *'\n    - cron: 'TZ=UTC'\n    - cron: '61 * * * *'\n    - cron: 'TZ=Asia/Tokyo * * * * *'\n    - cron: 'TZ=Asia/Tokyo 0 0 * * *'\n    - cron: '0 0 31 2 *'\n    - cron: '@daily'\n    - cron: '0 0 * * *'\n    - cron: 'TZ=Nowhere/Land 0 0 * * *'\n  push:\n    tags-ignore: [x]\n    tags: [y]\njobs:\n  a:\n    runs-on: ubuntu-latest\n    steps:\n      - run: echo\n",
	"on:\n  schedule:\n    - cron:\n    - cron: [a]\n    - cron: 5\n    - crom: '* * * * *'\n    - &x\n      cron: '* * * * *'\n    - *x\njobs:\n  a:\n    runs-on: ubuntu-latest\n    steps:\n      - run: echo\n",
}

func init() { props["LWC"] = runLWC }

// runLWC (development): the CRON part of the lintwf tie alone, the directed sources printed
func runLWC(c *ctx, r *Report) error {
	r.Rule = "Linter.Lint vs AL.Rules.lint: sources with CRON specs"
	for _, s := range lwCronDirected {
		line, impl, ok := lwCase(s)
		if !ok {
			continue
		}
		out, err := runModel(c.driver, []string{line})
		if err != nil {
			return err
		}
		fmt.Printf("impl : %s\nmodel: %s\n", impl, out[0])
	}
	rngC := rand.New(rand.NewSource(c.seed*31 + 13))
	all := append([]string{}, lwCronDirected...)
	for _, name := range []string{"a.yml", "b.yml", "c.yml"} {
		all = append(all, cronMutants(wfBases[name], rngC, 0)...)
	}
	return lwTie(c, r, all, "CRON specs planted in a base workflow", nil)
}

func lwCronSpec(rng *rand.Rand) string {
	switch rng.Intn(8) {
	case 0:
		return cronValid(rng)
	case 1:
		return cronMalformed(rng)
	case 2:
		return cronWithZone(rng, cronValid(rng))
	}
	return lwCronPool[rng.Intn(len(lwCronPool))]
}

func lwCronEntry(spec string, rng *rand.Rand) *yaml.Node {
	v := &yaml.Node{Kind: yaml.ScalarNode, Tag: "!!str", Value: spec}
	if rng.Intn(3) == 0 {
		v.Style = yaml.DoubleQuotedStyle
	}
	return &yaml.Node{Kind: yaml.MappingNode, Tag: "!!map", Content: []*yaml.Node{{Kind: yaml.ScalarNode, Tag: "!!str", Value: "cron"}, v}}
}

// cronMutants: sources with CRON specs in them — (a) every `cron:` scalar of the source replaced by every spec of the pool (and
// by generated ones); (b) the `on:` section (rewritten as a mapping when it is a name or a list of names) given a `schedule:`
// of one to three entries in front of, between or behind the other events, so that the order of the diagnostics of several
// events is compared; (c) an alias to an anchored entry as a second entry (two entries at one position).
// `limit` > 0 bounds the number of sources.
func cronMutants(src string, rng *rand.Rand, limit int) []string {
	root, err := parseYAML(src)
	if err != nil || len(root.Content) == 0 || root.Content[0].Kind != yaml.MappingNode {
		return nil
	}
	var jobs []func(m *yaml.Node)
	var visits []yvisit
	walkYAML(root, nil, nil, &visits)
	specs := append([]string{}, lwCronPool...)
	for i := 0; i < 12; i++ {
		specs = append(specs, lwCronSpec(rng))
	}
	for _, v := range visits {
		v := v
		if v.isKey || v.node.Kind != yaml.ScalarNode || len(v.keys) == 0 || v.keys[len(v.keys)-1] != "cron" {
			continue
		}
		for _, sp := range specs {
			sp := sp
			jobs = append(jobs, func(m *yaml.Node) {
				n := nodeAt(m, v.path)
				n.Tag, n.Value, n.Style = "!!str", sp, 0
			})
		}
	}
	onIndex := func(top *yaml.Node) int {
		for j := 0; j+1 < len(top.Content); j += 2 {
			if top.Content[j].Kind == yaml.ScalarNode && top.Content[j].Value == "on" {
				return j + 1
			}
		}
		return -1
	}
	if onIndex(root.Content[0]) >= 0 {
		for k := 0; k < len(specs)+20; k++ {
			k := k
			jobs = append(jobs, func(m *yaml.Node) {
				top := m.Content[0]
				oi := onIndex(top)
				on := top.Content[oi]
				switch on.Kind {
				case yaml.ScalarNode:
					on = &yaml.Node{Kind: yaml.MappingNode, Tag: "!!map", Content: []*yaml.Node{{Kind: yaml.ScalarNode, Tag: "!!str", Value: on.Value}, {Kind: yaml.ScalarNode, Tag: "!!null", Value: ""}}}
				case yaml.SequenceNode:
					mm := &yaml.Node{Kind: yaml.MappingNode, Tag: "!!map"}
					for _, e := range on.Content {
						if e.Kind == yaml.ScalarNode && e.Value != "schedule" {
							mm.Content = append(mm.Content, &yaml.Node{Kind: yaml.ScalarNode, Tag: "!!str", Value: e.Value}, &yaml.Node{Kind: yaml.ScalarNode, Tag: "!!null", Value: ""})
						}
					}
					on = mm
				case yaml.MappingNode:
				default:
					return
				}
				top.Content[oi] = on
				// an existing schedule goes
				for j := 0; j+1 < len(on.Content); j += 2 {
					if on.Content[j].Value == "schedule" {
						on.Content = append(on.Content[:j], on.Content[j+2:]...)
						break
					}
				}
				seq := &yaml.Node{Kind: yaml.SequenceNode, Tag: "!!seq"}
				first := ""
				if k < len(specs) {
					first = specs[k]
				} else {
					first = lwCronSpec(rng)
				}
				seq.Content = append(seq.Content, lwCronEntry(first, rng))
				for n := rng.Intn(3); n > 0; n-- {
					seq.Content = append(seq.Content, lwCronEntry(lwCronSpec(rng), rng))
				}
				if rng.Intn(6) == 0 {
					seq.Content[0].Anchor = "sch"
					seq.Content = append(seq.Content, &yaml.Node{Kind: yaml.AliasNode, Value: "sch", Alias: seq.Content[0]})
				}
				at := 2 * rng.Intn(len(on.Content)/2+1)
				c := append([]*yaml.Node{}, on.Content[:at]...)
				c = append(c, &yaml.Node{Kind: yaml.ScalarNode, Tag: "!!str", Value: "schedule"}, seq)
				on.Content = append(c, on.Content[at:]...)
			})
		}
	}
	if limit > 0 && len(jobs) > limit {
		rng.Shuffle(len(jobs), func(i, j int) { jobs[i], jobs[j] = jobs[j], jobs[i] })
		jobs = jobs[:limit]
	}
	var out []string
	for _, j := range jobs {
		func() {
			defer func() { recover() }()
			m := cloneNode(root)
			j(m)
			if s, err := emitYAML(m); err == nil {
				out = append(out, s)
			}
		}()
	}
	return out
}
