package main

import (
	"fmt"
	"net/url"
	"regexp"
	"sort"
	"strings"

	"github.com/rhysd/actionlint"
	"gopkg.in/yaml.v3"
)

// Tie of AL.Rules.lint (parser + the rules that need nothing but the AST + the stable sort of Linter.check): a source is
// linted by the real Linter (external tools off); the diagnostics of the modelled kinds — syntax-check, matrix,
// credentials, job-needs, env-var, id, glob, permissions, if-cond — are compared one by one (position, kind, template,
// arguments, order) with the model's (operation `lintwf`).

var lwKinds = map[string]bool{"syntax-check": true, "matrix": true, "credentials": true, "job-needs": true, "env-var": true,
	"id": true, "glob": true, "permissions": true, "if-cond": true, "shell-name": true, "deprecated-commands": true, "events": true, "runner-label": true, "action": true, "workflow-call": true}

var lwTemplates = map[string][]pwTemplate{
	"action": {
		pwCompile("input-undefined", `input @q@ is not defined in action @q@. available inputs are @x@`),
		pwCompile("input-missing", `missing input @q@ which is required by action @q@. all required inputs are @x@`),
		pwCompile("action-format", `specifying action @q@ in invalid format because @s@. available formats are "{owner}/{repo}@A@{ref}" or "{owner}/{repo}/{path}@A@{ref}"`),
		pwCompile("action-outdated", `the runner of @q@ action is too old to run on GitHub Actions. update the action's version to fix this issue`),
		pwCompile("docker-uri-invalid", `URI for Docker container @q@ is invalid: @x@ (tag=@s@)`),
		pwCompile("docker-tag-empty", `tag of Docker action should not be empty: @q@`),
	},
	"workflow-call": {
		pwCompile("call-format", `reusable workflow call @q@ at "uses" is not following the format @x@`),
	},
	"runner-label": {
		pwCompile("label-unknown", `label @q@ is unknown. available labels are @x@`),
		pwCompile("label-pattern-invalid", `label pattern @q@ is an invalid glob. kindly check list of labels in actionlint.yaml config file: @x@`),
		pwCompile("label-conflict", `label @q@ conflicts with label @q@ defined at @p@. note: to run your job on each workers, use matrix`),
	},
	"shell-name": {pwCompile("shell-name", `shell name @q@ is invalid@o@. available names are @x@`)},
	"deprecated-commands": {pwCompile("deprecated-command", `workflow command @q@ was deprecated. use @x@`)},
	"events": {
		pwCompile("filters-exclusive", `both @q@ and @q@ filters cannot be used for the same event @q@. note: use '!' to negate patterns`),
		pwCompile("filter-not-available", `@q@ filter is not available for @s@ event. it is only for @x@`),
		pwCompile("unknown-webhook", `unknown Webhook event @q@. see @x@`),
		pwCompile("types-not-allowed", `"types" cannot be specified for @q@ Webhook event`),
		pwCompile("invalid-activity-type", `invalid activity type @q@ for @q@ Webhook event. available types are @x@`),
		pwCompile("workflow-run-no-workflows", `no workflow is configured for "workflow_run" event`),
		pwCompile("workflows-not-allowed", `"workflows" cannot be configured for @q@ event. it is only for workflow_run event`),
		pwCompile("call-default-not-number", `input of workflow_call event @q@ is typed as number but its default value @q@ cannot be parsed as a float number: @x@`),
		pwCompile("call-default-not-bool", `input of workflow_call event @q@ is typed as boolean. its default value must be true or false but got @q@`),
		pwCompile("call-default-and-required", `input @q@ of workflow_call event has the default value @q@, but it is also required. @x@`),
		pwCompile("choice-without-options", `input type of @q@ is "choice" but "options" is not set`),
		pwCompile("option-duplicated", `option @q@ is duplicated in options of @q@ input`),
		pwCompile("default-not-in-options", `default value @q@ of @q@ input is not included in its options @x@`),
		pwCompile("options-without-choice", `"options" can not be set to @q@ input because its input type is not "choice"`),
		pwCompile("dispatch-default-not-number", `type of @q@ input is "number" but its default value @q@ cannot be parsed as a float number: @x@`),
		pwCompile("dispatch-default-not-bool", `type of @q@ input is "boolean". its default value @q@ must be "true" or "false"`),
		pwCompile("too-many-inputs", `maximum number of inputs for "workflow_dispatch" event is 10 but @s@ inputs are provided. see @x@`),
	},
	"id": {
		pwCompile("id-convention", `invalid @s@ ID @q@. @x@ ID must start with a letter or _ and contain only alphanumeric characters, -, or _`),
		pwCompile("step-id-duplicate", `step ID @q@ duplicates. previously defined at @p@. step ID must be unique within a job. note that step ID is case insensitive`),
	},
	"env-var": {pwCompile("env-var-name", `environment variable name @q@ is invalid. '&', '=' and spaces should not be contained`)},
	"credentials": {
		pwCompile("password-literal-container", `"password" section in "container" section should be specified via secrets. do not put password value directly`),
		pwCompile("password-literal-service", `"password" section in @q@ service should be specified via secrets. do not put password value directly`),
	},
	"permissions": {
		pwCompile("permission-all", `@q@ is invalid for permission for all the scopes. available values are "read-all" and "write-all"`),
		pwCompile("permission-scope", `unknown permission scope @q@. all available permission scopes are @x@`),
		pwCompile("permission-value", `@q@ is invalid for permission of scope @q@. available values are "read", "write" or "none"`),
	},
	"if-cond": {pwCompile("if-cond-always-true", `if: condition @q@ is always evaluated to true because extra characters are around ${{ }}`)},
	"job-needs": {
		pwCompile("needs-duplicate", `job ID @q@ duplicates in "needs" section. note that job ID is case insensitive`),
		pwCompile("job-id-duplicate", `job ID @q@ duplicates. previously defined at @p@. note that job ID is case insensitive`),
		pwCompile("needs-undefined", `job @q@ needs job @q@ which does not exist in this workflow`),
		pwCompile("needs-cyclic", `cyclic dependencies in "needs" job configurations are detected. detected cycle is @c@`),
	},
	"matrix": {
		pwCompile("matrix-duplicate", `duplicate value @x@ is found in matrix @x@. the same value is at @p@`),
		pwCompile("matrix-no-variation", `"exclude" section exists but no matrix variation exists`),
		pwCompile("matrix-exclude-unknown-key", `@q@ in "exclude" section does not exist in matrix. available matrix configurations are @x@`),
		pwCompile("matrix-exclude-no-match", `value @x@ in "exclude" does not match in matrix @q@ combinations. possible values are @x@`),
	},
}

const lwGlobSuffix = ". note: filter pattern syntax is explained at https://docs.github.com/en/actions/using-workflows/workflow-syntax-for-github-actions#filter-pattern-cheat-sheet"

var lwCycleRe = regexp.MustCompile(pwQuoted)

func lwCanonErr(e *actionlint.Error) string {
	head := fmt.Sprintf("%d:%d:%s:", e.Line, e.Column, e.Kind)
	switch e.Kind {
	case "syntax-check":
		c := pwCanonErr(e) // line:col:code:args
		parts := strings.SplitN(c, ":", 3)
		return head + parts[2]
	case "glob":
		if !strings.HasSuffix(e.Message, lwGlobSuffix) {
			return head + "?" + hx(e.Message)
		}
		code, _ := classifyGlob(strings.TrimSuffix(e.Message, lwGlobSuffix))
		return head + "glob:" + hx(code)
	}
	for _, t := range lwTemplates[e.Kind] {
		m := t.re.FindStringSubmatch(e.Message)
		if m == nil {
			continue
		}
		var args []string
		ok := true
		for i, k := range t.kind {
			g := m[i+1]
			switch k {
			case 'q':
				u, good := pwUnquote(g)
				ok = ok && good
				args = append(args, hx(u))
			case 'l':
				// "a" -> "b" -> "a"  (the cycle)  or  "a", "b"
				var items []string
				for _, it := range lwCycleRe.FindAllString(g, -1) {
					u, _ := pwUnquote(it)
					items = append(items, u)
				}
				args = append(args, hx(strings.Join(items, ",")))
			default:
				args = append(args, hx(g))
			}
		}
		if !ok {
			continue
		}
		code := t.code
		switch code {
		case "password-literal-container":
			code, args = "password-literal", []string{hx("container"), hx("")}
		case "password-literal-service":
			code, args = "password-literal", append([]string{hx("service")}, args...)
		}
		return head + code + ":" + strings.Join(args, ",")
	}
	return head + "?" + hx(e.Message)
}

// lwBadURLs: the Docker URIs (tag stripped the way checkDockerAction strips it) that net/url rejects
func lwBadURLs(root *yaml.Node) string {
	bad := map[string]bool{}
	var walk func(n *yaml.Node)
	walk = func(n *yaml.Node) {
		if n.Kind == yaml.ScalarNode && strings.HasPrefix(n.Value, "docker://") {
			uri := n.Value
			if idx := strings.IndexRune(uri[len("docker://"):], ':'); idx != -1 {
				idx += len("docker://")
				if idx < len(uri) {
					uri = uri[:idx]
				}
			}
			if _, err := url.Parse(uri); err != nil {
				bad[uri] = true
			}
		}
		if n.Kind != yaml.AliasNode {
			for _, c := range n.Content {
				walk(c)
			}
		}
	}
	walk(root)
	var items []string
	for u := range bad {
		items = append(items, hx(u))
	}
	sort.Strings(items)
	return "(" + strings.Join(items, ",") + ")"
}

// lwCase: protocol line and the canonical diagnostics of the modelled kinds
func lwCase(src string) (line, impl string, ok bool) {
	var root yaml.Node
	if err := yaml.Unmarshal([]byte(src), &root); err != nil {
		return "", "", false
	}
	nums := map[string]bool{}
	node := nodeSexp(&root, nums)
	exNumbers(&root, nums)
	line = "lintwf " + numsSexp(nums) + " " + lwBadURLs(&root) + " " + node
	errs, err := lintSrc("w.yaml", src)
	if err != nil {
		return "", "", false
	}
	var parts []string
	for _, e := range errs {
		if e.Kind == "events" && (strings.HasPrefix(e.Message, "invalid CRON format") || strings.HasPrefix(e.Message, "scheduled job runs too frequently")) {
			continue // robfig/cron is not modelled
		}
		if lwKinds[e.Kind] {
			parts = append(parts, lwCanonErr(e))
		} else if e.Kind != "expression" {
			// every kind the linter can produce without external tools is modelled (expression: by AL.RuleExpr / exprwf)
			parts = append(parts, fmt.Sprintf("%d:%d:%s:?unmodelled-kind", e.Line, e.Column, e.Kind))
		}
	}
	return line, strings.Join(parts, ";"), true
}

// lwTie runs the `lintwf` tie over the sources
func lwTie(c *ctx, r *Report, srcs []string, note string, judge func(cs Case) (string, string)) error {
	b := &batch{judge: judge}
	if judge != nil {
		b.srcOf = func(cs Case) string { return cs.Input["src"] }
		b.rerun = func(orig Case, src string) (string, string, Case) {
			line, impl, ok := lwCase(src)
			if !ok {
				panic("yaml rejects")
			}
			return line, impl, Case{Op: "lintwf", Input: map[string]string{"src": src}, Note: orig.Note}
		}
	}
	for _, s := range srcs {
		var line, impl string
		var ok bool
		pmsg, to := guarded(pwTimeout, func() { line, impl, ok = lwCase(s) })
		if pmsg != "" || to {
			r.Crashes = append(r.Crashes, Case{Op: "lintwf", Input: map[string]string{"src": s}, Note: "panic/timeout in Lint: " + pmsg})
			continue
		}
		if !ok {
			continue
		}
		r.Evaluations++
		for _, d := range strings.Split(impl, ";") {
			if f := strings.SplitN(d, ":", 5); len(f) >= 4 {
				r.hist("lintwf:" + f[2])
			}
		}
		if impl != "" {
			r.nontrivial("lw:" + impl)
		}
		b.add(line, impl, Case{Op: "lintwf", Input: map[string]string{"src": s}, Note: note})
	}
	_, err := b.flush(c, r)
	return err
}

func init() { props["LW"] = runLW }

func runLW(c *ctx, r *Report) error {
	r.Rule = "Linter.Lint vs AL.Rules.lint on the corpus and its mutants"
	return lwStandard(c, r, nil, 30, true)
}
