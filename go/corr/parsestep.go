package main

import (
	"fmt"
	"math/rand"
	"regexp"
	"strings"

	"github.com/rhysd/actionlint"
)

// Tie of the Lean model AL.ParseStep (parse.go parseStep): random step mappings (random subsets and orders of the
// eleven step keys, unknown keys, script and action keys mixed) are parsed by the real parser; the fields of the
// resulting Step node and the parser's diagnostics for that step are compared with the model.

var reVN = regexp.MustCompile(`v(\d+)`)

func vOf(s string) string {
	if m := reVN.FindStringSubmatch(s); m != nil {
		return m[1]
	}
	return "?"
}

func stepCanon(st *actionlint.Step, errs []*actionlint.Error, firstLine, lastLine int) string {
	opt := func(s *actionlint.String) string {
		if s == nil {
			return "-"
		}
		return vOf(s.Value)
	}
	id, cond, name := opt(st.ID), opt(st.If), opt(st.Name)
	env := "-"
	if st.Env != nil {
		env = "?"
		for _, v := range st.Env.Vars {
			env = vOf(v.Value.Value)
		}
	}
	coe := "-"
	if st.ContinueOnError != nil {
		coe = "?"
		if st.ContinueOnError.Expression != nil {
			coe = vOf(st.ContinueOnError.Expression.Value)
		}
	}
	tm := "-"
	if st.TimeoutMinutes != nil {
		tm = "?"
		if st.TimeoutMinutes.Expression != nil {
			tm = vOf(st.TimeoutMinutes.Expression.Value)
		}
	}
	exec := "none"
	switch e := st.Exec.(type) {
	case *actionlint.ExecRun:
		exec = fmt.Sprintf("run(%s,%s,%s)", opt(e.Run), opt(e.Shell), opt(e.WorkingDirectory))
	case *actionlint.ExecAction:
		w := "-"
		if e.Inputs != nil {
			w = "?"
			for _, in := range e.Inputs {
				w = vOf(in.Value.Value)
			}
		}
		exec = fmt.Sprintf("action(%s,%s)", opt(e.Uses), w)
	}
	var ds []string
	for _, e := range errs {
		if e.Line < firstLine || e.Line > lastLine {
			continue
		}
		q := func() string {
			if m := regexp.MustCompile(`also contains "([^"]*)" key`).FindStringSubmatch(e.Message); m != nil {
				return hx(m[1])
			}
			if m := regexp.MustCompile(`^unexpected key "([^"]*)" for "step" section`).FindStringSubmatch(e.Message); m != nil {
				return hx(m[1])
			}
			return "?"
		}
		switch {
		case strings.HasPrefix(e.Message, "this step is for running action"):
			ds = append(ds, "runkey:"+q())
		case strings.HasPrefix(e.Message, "this step is for running shell command"):
			ds = append(ds, "actionkey:"+q())
		case strings.HasPrefix(e.Message, "unexpected key"):
			ds = append(ds, "unexpected:"+q())
		case strings.HasPrefix(e.Message, "\"uses\" is required"):
			ds = append(ds, "uses-required")
		case strings.HasPrefix(e.Message, "\"run\" is required"):
			ds = append(ds, "run-required")
		case strings.HasPrefix(e.Message, "step must run script"):
			ds = append(ds, "no-exec")
		case strings.HasPrefix(e.Message, "\"working-directory\" is not available"):
			ds = append(ds, "workdir-with-uses")
		default:
			ds = append(ds, "other:"+e.Message)
		}
	}
	return fmt.Sprintf("id=%s;if=%s;name=%s;env=%s;coe=%s;tm=%s;exec=%s;diags=%s", id, cond, name, env, coe, tm, exec, strings.Join(ds, ","))
}

func parseStepTie(c *ctx, r *Report, n int, judge func(cs Case) (string, string)) error {
	rng := rand.New(rand.NewSource(c.seed + 32452843))
	var b batch
	b.judge = judge
	keys := []string{"id", "if", "name", "env", "continue-on-error", "timeout-minutes", "uses", "with", "run", "shell", "working-directory"}
	render := func(k string, v int) []string {
		val := fmt.Sprintf("v%d", v)
		switch k {
		case "env":
			return []string{"        env:", "          K: " + val}
		case "with":
			return []string{"        with:", "          k: " + val}
		case "continue-on-error", "timeout-minutes":
			return []string{"        " + k + ": ${{ '" + val + "' }}"}
		default:
			return []string{"        " + k + ": " + val}
		}
	}
	one := func(ks []string) {
		var lines []string
		lines = append(lines, "on: push", "jobs:", "  j:", "    runs-on: ubuntu-latest", "    steps:")
		first := len(lines) + 1
		var items []string
		for i, k := range ks {
			rl := render(k, i+1)
			if i == 0 {
				rl[0] = "      - " + strings.TrimPrefix(rl[0], "        ")
			}
			lines = append(lines, rl...)
			items = append(items, fmt.Sprintf("(%s,%d)", hx(k), i+1))
		}
		last := len(lines)
		lines = append(lines, "      - run: echo sentinel")
		src := strings.Join(lines, "\n") + "\n"
		cs := Case{Op: "parsestep", Input: map[string]string{"keys_in_order": strings.Join(ks, " "), "yaml": src}}
		var w *actionlint.Workflow
		var errs []*actionlint.Error
		pmsg, to := guarded(10e9, func() { w, errs = actionlint.Parse([]byte(src)) })
		r.Evaluations++
		if pmsg != "" || to {
			cs.Note = pmsg
			r.Crashes = append(r.Crashes, cs)
			return
		}
		if w == nil || w.Jobs["j"] == nil || len(w.Jobs["j"].Steps) != 2 {
			cs.Note = "the parser did not return the two steps"
			r.disagree(cs)
			return
		}
		impl := stepCanon(w.Jobs["j"].Steps[0], errs, first, last)
		r.nontrivial(strings.Join(ks, ","))
		r.hist(fmt.Sprintf("parsestep-keys:%d", len(ks)))
		arg := "E"
		if len(items) > 0 {
			arg = sexpList(items)
		}
		b.add("parsestep "+arg, impl, cs)
	}
	// every order of every set of script keys with up to two common keys in between; then random ones
	script := []string{"run", "shell", "working-directory"}
	for _, perm := range permsStr(script) {
		one(perm)
		one(append([]string{"id"}, perm...))
		one(append(append([]string{}, perm[:2]...), "name", perm[2]))
		one(append(append([]string{perm[0], "env"}, perm[1]), "if", perm[2]))
	}
	for _, perm := range permsStr([]string{"uses", "with", "id"}) {
		one(perm)
		one(append(perm, "working-directory"))
	}
	extra := []string{"foo", "runs", "needs", "Run-x"}
	for i := 0; i < n; i++ {
		var ks []string
		for _, k := range keys {
			if rng.Intn(3) == 0 {
				ks = append(ks, k)
			}
		}
		if rng.Intn(4) == 0 {
			ks = append(ks, extra[rng.Intn(len(extra))])
		}
		if len(ks) == 0 {
			ks = []string{keys[rng.Intn(len(keys))]}
		}
		rng.Shuffle(len(ks), func(a, b int) { ks[a], ks[b] = ks[b], ks[a] })
		one(ks)
	}
	r.Rule += fmt.Sprintf("; parser tie: every order of the script keys (alone and with common keys in between), every order of uses / with / id, and %d random subsets and orders of the eleven step keys plus unknown keys through actionlint.Parse vs the Lean model AL.ParseStep (fields of the Step node and the parser's diagnostics)", n)
	_, err := b.flush(c, r)
	return err
}

func permsStr(l []string) [][]string {
	if len(l) <= 1 {
		return [][]string{append([]string{}, l...)}
	}
	var out [][]string
	for i := range l {
		rest := append(append([]string{}, l[:i]...), l[i+1:]...)
		for _, p := range permsStr(rest) {
			out = append(out, append([]string{l[i]}, p...))
		}
	}
	return out
}
