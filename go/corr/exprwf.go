package main

import (
	"math/rand"
	"regexp"
	"sort"
	"strconv"
	"strings"

	"gopkg.in/yaml.v3"
)

// Tie of AL.RuleExpr.rule (all of rule_expression.go over the AST of AL.PW): a source is linted by the real Linter; the
// diagnostics of kind `expression` are classified (template + arguments, the same table the sema tie uses, plus the
// templates of the rule itself) and compared as a sorted multiset with the model's (operation `exprwf`). Positions inside
// a string are not part of this tie (AL.Positions / C07 cover them).

var exTemplates = []struct {
	code string
	re   *regexp.Regexp
	kind string
}{
	{"one-expression", regexp.MustCompile(`(?s)^one \$\{\{ \}\} expression should be included in (` + pwQuoted + `) value but got (\d+) expressions$`), "qs"},
	{"must-be-object", regexp.MustCompile(`(?s)^type of expression at (` + pwQuoted + `) must be object but found type (.*)$`), "qs"},
	{"must-be-array", regexp.MustCompile(`(?s)^type of expression at (` + pwQuoted + `) must be array but found type (.*)$`), "qs"},
	{"runs-on-type", regexp.MustCompile(`(?s)^type of expression at "runs-on" must be string or array but found type (` + pwQuoted + `)$`), "q"},
	{"if-cond-type", regexp.MustCompile(`(?s)^"if" condition should be type "bool" but got type (` + pwQuoted + `)$`), "q"},
	{"input-default-bool", regexp.MustCompile(`(?s)^type of input (` + pwQuoted + `) must be bool but found type (.*)$`), "qs"},
	{"input-default-number", regexp.MustCompile(`(?s)^type of input (` + pwQuoted + `) must be number but found type (.*)$`), "qs"},
}

var exSyntaxRe = regexp.MustCompile(`(?s)^(unexpected |got unexpected |parsing invalid (integer|float) literal |parser did not reach end of input|scan error while lexing expression)`)

// messages pass through lineBreakEscaper as a whole: a line break in an unquoted part (a type name that contains a key
// with a line break) arrives as backslash-n, in a %q part as the escape sequence Unquote removes again. Both sides are
// compared after the same escaping of every argument.
var exEscaper = strings.NewReplacer("\n", "\\n", "\r", "\\r")

func exClassify(msg string) string {
	c := exClassify0(msg)
	i := strings.Index(c, "(")
	if i < 0 || !strings.HasSuffix(c, ")") || strings.HasPrefix(c, "unclassified:") {
		return c
	}
	inner := c[i+1 : len(c)-1]
	if inner == "" {
		return c
	}
	args := strings.Split(inner, ",")
	for k, a := range args {
		args[k] = hx(exEscaper.Replace(unhx(a)))
	}
	return c[:i] + "(" + strings.Join(args, ",") + ")"
}

func exClassify0(msg string) string {
	for _, t := range exTemplates {
		if m := t.re.FindStringSubmatch(msg); m != nil {
			args := make([]string, len(t.kind))
			for i, k := range t.kind {
				v := m[i+1]
				if k == 'q' {
					if u, err := strconv.Unquote(v); err == nil {
						v = u
					}
				}
				args[i] = hx(v)
			}
			return t.code + "(" + strings.Join(args, ",") + ")"
		}
	}
	code, untrusted := classifySema(msg)
	if untrusted != nil {
		hs := make([]string, len(untrusted))
		for i, p := range untrusted {
			hs[i] = hx(p)
		}
		return "untrusted(" + strings.Join(hs, ",") + ")"
	}
	if strings.HasPrefix(code, "unclassified:") && exSyntaxRe.MatchString(msg) {
		return "syntax-error()"
	}
	return code
}

// every scalar value of the tree whose trimmed text strconv.ParseFloat accepts (the rule types matrix values by it)
func exNumbers(n *yaml.Node, nums map[string]bool) {
	if n.Kind == yaml.ScalarNode {
		s := strings.TrimSpace(n.Value)
		if _, err := strconv.ParseFloat(s, 64); err == nil {
			nums[s] = true
		}
	}
	if n.Kind != yaml.AliasNode {
		for _, c := range n.Content {
			exNumbers(c, nums)
		}
	}
}

func exCase(src string) (line, impl string, ok bool) {
	var root yaml.Node
	if err := yaml.Unmarshal([]byte(src), &root); err != nil {
		return "", "", false
	}
	nums := map[string]bool{}
	node := nodeSexp(&root, nums)
	exNumbers(&root, nums)
	line = "exprwf " + numsSexp(nums) + " " + node
	errs, err := lintSrc("w.yaml", src)
	if err != nil {
		return "", "", false
	}
	var parts []string
	for _, e := range errs {
		if e.Kind == "expression" {
			parts = append(parts, exClassify(e.Message))
		}
	}
	sort.Strings(parts)
	return line, strings.Join(parts, ";"), true
}

func exTie(c *ctx, r *Report, srcs []string, note string, judge func(cs Case) (string, string)) error {
	b := &batch{judge: judge}
	if judge != nil {
		b.srcOf = func(cs Case) string { return cs.Input["src"] }
		b.rerun = func(orig Case, src string) (string, string, Case) {
			line, impl, ok := exCase(src)
			if !ok {
				panic("yaml rejects")
			}
			return line, impl, Case{Op: "exprwf", Input: map[string]string{"src": src}, Note: orig.Note}
		}
	}
	for _, s := range srcs {
		var line, impl string
		var ok bool
		pmsg, to := guarded(pwTimeout, func() { line, impl, ok = exCase(s) })
		if pmsg != "" || to {
			r.Crashes = append(r.Crashes, Case{Op: "exprwf", Input: map[string]string{"src": s}, Note: "panic/timeout in Lint: " + pmsg})
			continue
		}
		if !ok {
			continue
		}
		r.Evaluations++
		if strings.Contains(impl, "unclassified:") {
			r.hist("exprwf:unclassified-message")
		}
		if impl != "" {
			r.nontrivial("ex:" + impl)
			for _, d := range strings.Split(impl, ";") {
				if i := strings.Index(d, "("); i > 0 {
					r.hist("exprwf:" + d[:i])
				}
			}
		} else {
			r.hist("exprwf:clean")
		}
		b.add(line, impl, Case{Op: "exprwf", Input: map[string]string{"src": s}, Note: note})
	}
	_, err := b.flush(c, r)
	return err
}

func init() { props["EX"] = runEX }

func runEX(c *ctx, r *Report) error {
	r.Rule = "RuleExpression vs AL.RuleExpr.rule on the corpus and its mutants"
	return exStandard(c, r, nil, 20, true)
}

var exPool = []string{
	"${{ matrix.os }}", "${{ matrix }}", "${{ steps.a.outputs.b }}", "${{ steps.alpha.conclusion }}", "${{ steps }}", "${{ needs }}", "${{ needs.build.outputs.o }}",
	"${{ needs.build.result }}", "${{ github.event.issue.title }}", "${{ github.head_ref }}", "x ${{ secrets.FOO }} y", "${{ secrets.github_token }}", "${{ fromJSON('[1]') }}",
	"${{ fromJSON('{\"a\":1}').a }}", "${{ true }}", "${{ 1 }}", "${{ null }}", "${{ 'str' }}", "${{ env }}", "${{ env.FOO }}", "${{ inputs.who }}", "${{ inputs }}",
	"${{ jobs.build.outputs.o }}", "${{ always() }}", "${{ hashFiles('x') }}", "${{ success() && failure() }}", "${{", "${{ }}", "${{ a b }}", "${{ github.sha }} ${{ runner.os }}",
	"${{ vars.X }}", "${{ strategy.job-index }}", "${{ toJSON(matrix) }}", "${{ format('{0}', 1, 2) }}", "${{ github.event.inputs.who }}", "${{ github.event.pages.*.page_name }}",
	" ${{ 'a' }} ", "${{ github.run_id == 1 }}", "${{ !github }}", "${{ job.services.db.ports['5432'] }}", "${{ contains(github.event.issue.title, 'x') }}", "${{ runner.os }} }}",
	"a ${{ 1 }} b ${{ 'x' }} c ${{ null }}", "${{ github['event'] }}", "${{ nosuch.x }}", "${{ nofunc() }}", "github.ref == 'x'", "always() && matrix.os", "${{ 0x1F }}", "${{ 1.5e3 }}",
}

// exprMutants: every scalar value of the source replaced by each expression of the pool (up to `limit`)
func exprMutants(src string, rng *rand.Rand, limit int) []string {
	root, err := parseYAML(src)
	if err != nil || len(root.Content) == 0 {
		return nil
	}
	var visits []yvisit
	walkYAML(root, nil, nil, &visits)
	type job struct {
		v yvisit
		e string
	}
	var jobs []job
	for _, v := range visits {
		if v.isKey || v.node.Kind != yaml.ScalarNode || len(v.path) == 0 {
			continue
		}
		for _, e := range exPool {
			jobs = append(jobs, job{v, e})
		}
	}
	if limit > 0 && len(jobs) > limit {
		rng.Shuffle(len(jobs), func(i, j int) { jobs[i], jobs[j] = jobs[j], jobs[i] })
		jobs = jobs[:limit]
	}
	var out []string
	for _, j := range jobs {
		m := cloneNode(root)
		n := nodeAt(m, j.v.path)
		n.Tag, n.Value, n.Style = "!!str", j.e, 0
		if rng.Intn(4) == 0 {
			n.Style = yaml.DoubleQuotedStyle
		}
		if s, err := emitYAML(m); err == nil {
			out = append(out, s)
		}
	}
	return out
}
