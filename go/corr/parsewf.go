package main

import (
	"fmt"
	"math"
	"reflect"
	"regexp"
	"sort"
	"strconv"
	"strings"

	"github.com/rhysd/actionlint"
	"gopkg.in/yaml.v3"
)

// Tie of the Lean model AL.PW (parse.go as a whole): a source text is decoded by yaml.v3 into a node tree; the tree is
// handed to the model (operation `parsewf`), the text to actionlint.Parse. Compared: every diagnostic (position,
// template, arguments, order) and the whole AST (every field of every node, by a reflection walk printed in the notation
// of Driver/ParseWf.lean).

// ---- the node tree as an S-expression

func nodeSexp(n *yaml.Node, nums map[string]bool) string {
	k := "c"
	switch n.Kind {
	case yaml.DocumentNode, 0:
		k = "d"
	case yaml.SequenceNode:
		k = "s"
	case yaml.MappingNode:
		k = "m"
	case yaml.ScalarNode:
		k = "c"
		if n.Tag == "!!int" || n.Tag == "!!float" {
			nums[n.Value] = true
		}
	case yaml.AliasNode:
		k = "a"
	}
	q := "0"
	if n.Style&(yaml.DoubleQuotedStyle|yaml.SingleQuotedStyle) != 0 {
		q = "1"
	}
	var sb strings.Builder
	sb.WriteString("(")
	sb.WriteString(k)
	sb.WriteString(",")
	sb.WriteString(hx(n.Tag))
	sb.WriteString(",")
	sb.WriteString(hx(n.Value))
	sb.WriteString(",")
	sb.WriteString(q)
	fmt.Fprintf(&sb, ",%d,%d,(", n.Line, n.Column)
	if n.Kind != yaml.AliasNode {
		for i, c := range n.Content {
			if i > 0 {
				sb.WriteString(",")
			}
			sb.WriteString(nodeSexp(c, nums))
		}
	}
	sb.WriteString("))")
	return sb.String()
}

// numsSexp: what strconv says about the scalar values the parser may read as numbers
func numsSexp(nums map[string]bool) string {
	if len(nums) == 0 {
		return "()"
	}
	keys := make([]string, 0, len(nums))
	for k := range nums {
		keys = append(keys, k)
	}
	sort.Strings(keys)
	parts := make([]string, 0, len(keys))
	for _, v := range keys {
		is := "e"
		if i, err := strconv.Atoi(v); err == nil {
			is = strconv.Itoa(i)
		}
		fs := "e"
		if f, err := strconv.ParseFloat(v, 64); err == nil {
			switch {
			case math.IsNaN(f):
				fs = "n"
			case f > 0:
				fs = "p"
			default:
				fs = "z"
			}
		}
		parts = append(parts, "("+hx(v)+","+is+","+fs+")")
	}
	return "(" + strings.Join(parts, ",") + ")"
}

// ---- the AST in the notation of Driver/ParseWf.lean

func dumpPos(p *actionlint.Pos) string {
	if p == nil {
		return "_"
	}
	return fmt.Sprintf("%d:%d", p.Line, p.Col)
}

func dumpStr(s *actionlint.String) string {
	if s == nil {
		return "_"
	}
	q := "0"
	if s.Quoted {
		q = "1"
	}
	return "s(" + hx(s.Value) + "," + q + "," + dumpPos(s.Pos) + ")"
}

func dumpRaw(v actionlint.RawYAMLValue) string {
	switch v := v.(type) {
	case *actionlint.RawYAMLString:
		return "rs(" + hx(v.Value) + "," + dumpPos(v.Pos()) + ")"
	case *actionlint.RawYAMLArray:
		parts := make([]string, len(v.Elems))
		for i, e := range v.Elems {
			parts[i] = dumpRaw(e)
		}
		return "ra([" + strings.Join(parts, ";") + "]," + dumpPos(v.Pos()) + ")"
	case *actionlint.RawYAMLObject:
		keys := make([]string, 0, len(v.Props))
		for k := range v.Props {
			keys = append(keys, k)
		}
		sort.Strings(keys)
		parts := make([]string, len(keys))
		for i, k := range keys {
			parts[i] = hx(k) + "=" + dumpRaw(v.Props[k])
		}
		return "ro({" + strings.Join(parts, ";") + "}," + dumpPos(v.Pos()) + ")"
	}
	return "_"
}

var (
	tyString = reflect.TypeOf(&actionlint.String{})
	tyPos    = reflect.TypeOf(&actionlint.Pos{})
	tyBool   = reflect.TypeOf(&actionlint.Bool{})
	tyInt    = reflect.TypeOf(&actionlint.Int{})
	tyFloat  = reflect.TypeOf(&actionlint.Float{})
	tyRaw    = reflect.TypeOf((*actionlint.RawYAMLValue)(nil)).Elem()
)

func dumpAST(v reflect.Value) string {
	if !v.IsValid() {
		return "_"
	}
	switch v.Kind() {
	case reflect.Ptr:
		if v.IsNil() {
			return "_"
		}
		switch v.Type() {
		case tyString:
			return dumpStr(v.Interface().(*actionlint.String))
		case tyPos:
			return dumpPos(v.Interface().(*actionlint.Pos))
		case tyBool:
			b := v.Interface().(*actionlint.Bool)
			x := "0"
			if b.Value {
				x = "1"
			}
			return "b(" + x + "," + dumpStr(b.Expression) + "," + dumpPos(b.Pos) + ")"
		case tyInt:
			i := v.Interface().(*actionlint.Int)
			return fmt.Sprintf("i(%d,%s,%s)", i.Value, dumpStr(i.Expression), dumpPos(i.Pos))
		case tyFloat:
			f := v.Interface().(*actionlint.Float)
			x := "n"
			if f.Value > 0 {
				x = "p"
			}
			return "f(" + x + "," + dumpStr(f.Expression) + "," + dumpPos(f.Pos) + ")"
		}
		return dumpAST(v.Elem())
	case reflect.Interface:
		if v.IsNil() {
			return "_"
		}
		if v.Type() == tyRaw {
			return dumpRaw(v.Interface().(actionlint.RawYAMLValue))
		}
		return dumpAST(v.Elem())
	case reflect.Struct:
		t := v.Type()
		parts := make([]string, 0, t.NumField())
		for i := 0; i < t.NumField(); i++ {
			parts = append(parts, dumpAST(v.Field(i)))
		}
		return t.Name() + "(" + strings.Join(parts, ",") + ")"
	case reflect.Slice:
		if v.IsNil() {
			return "_"
		}
		parts := make([]string, v.Len())
		for i := range parts {
			parts[i] = dumpAST(v.Index(i))
		}
		return "[" + strings.Join(parts, ";") + "]"
	case reflect.Map:
		if v.IsNil() {
			return "_"
		}
		keys := make([]string, 0, v.Len())
		for _, k := range v.MapKeys() {
			keys = append(keys, k.String())
		}
		sort.Strings(keys)
		parts := make([]string, len(keys))
		for i, k := range keys {
			parts[i] = hx(k) + "=" + dumpAST(v.MapIndex(reflect.ValueOf(k)))
		}
		return "{" + strings.Join(parts, ";") + "}"
	case reflect.Bool:
		if v.Bool() {
			return "1"
		}
		return "0"
	case reflect.String:
		return hx(v.String())
	case reflect.Int, reflect.Int64, reflect.Int32:
		return strconv.FormatInt(v.Int(), 10)
	case reflect.Uint8, reflect.Uint, reflect.Uint32:
		return strconv.FormatUint(v.Uint(), 10)
	}
	return "?" + v.Kind().String()
}

// ---- the diagnostics: one anchored regular expression per message template of parse.go

type pwTemplate struct {
	code string
	re   *regexp.Regexp
	kind []byte // per capture group: q quoted, k kind name, w what, s text, l list, p position, n note
}

const pwQuoted = `"(?:[^"\\]|\\.)*"`

func pwCompile(code, tmpl string) pwTemplate {
	var re strings.Builder
	var kinds []byte
	re.WriteString("^")
	for len(tmpl) > 0 {
		i := strings.Index(tmpl, "@")
		if i < 0 {
			re.WriteString(regexp.QuoteMeta(tmpl))
			break
		}
		re.WriteString(regexp.QuoteMeta(tmpl[:i]))
		j := strings.Index(tmpl[i+1:], "@") + i + 1
		m := tmpl[i+1 : j]
		tmpl = tmpl[j+1:]
		switch m {
		case "q":
			re.WriteString("(" + pwQuoted + ")")
			kinds = append(kinds, 'q')
		case "k":
			re.WriteString("(document|sequence|mapping|scalar|alias)")
			kinds = append(kinds, 'k')
		case "w":
			re.WriteString("(.*)")
			kinds = append(kinds, 'w')
		case "s":
			re.WriteString("(.*)")
			kinds = append(kinds, 's')
		case "x":
			re.WriteString(".*")
		case "l":
			re.WriteString("((?:" + pwQuoted + ", )*" + pwQuoted + ")")
			kinds = append(kinds, 'l')
		case "c":
			re.WriteString("((?:" + pwQuoted + " -> )*" + pwQuoted + ")")
			kinds = append(kinds, 'l')
		case "A":
			re.WriteString("@")
		case "o":
			re.WriteString(`((?: on Windows| on macOS or Linux)?)`)
			kinds = append(kinds, 'n')
		case "p":
			re.WriteString(`(line:\d+,col:\d+)`)
			kinds = append(kinds, 'p')
		case "n":
			re.WriteString(`((?:\. note that this key is case insensitive)?)`)
			kinds = append(kinds, 'n')
		default:
			panic("bad marker " + m)
		}
	}
	re.WriteString("$")
	return pwTemplate{code, regexp.MustCompile("(?s)" + re.String()), kinds}
}

var pwTemplates = []pwTemplate{
	pwCompile("unexpected-key-1", `expected @q@ key for @q@ section but got @q@`),
	pwCompile("unexpected-key", `unexpected key @q@ for @q@ section. expected one of @l@`),
	pwCompile("unexpected-key-0", `unexpected key @q@ for @q@ section`),
	pwCompile("section-empty", `@q@ section should not be empty`),
	pwCompile("not-sequence", `@q@ section must be sequence node but got @k@ node with @q@ tag`),
	pwCompile("not-scalar-string", `expected scalar node for string value but found @k@ node with @q@ tag`),
	pwCompile("string-empty", `string should not be empty`),
	pwCompile("missing-expression", `expecting a single ${{...}} expression or @s@, but found plain text node`),
	pwCompile("not-bool", `expected bool value but found @k@ node with @q@ tag`),
	pwCompile("not-int", `expected scalar node for integer value but found @k@ node with @q@ tag`),
	pwCompile("invalid-int", `invalid integer value: @q@: @x@`),
	pwCompile("not-float", `expected scalar node for float value but found @k@ node with @q@ tag`),
	pwCompile("invalid-float", `invalid float value: @q@: @x@`),
	pwCompile("not-mapping", `@w@ is @k@ node but mapping node is expected`),
	pwCompile("mapping-empty", `@w@ should not be empty. please remove this section if it's unnecessary`),
	pwCompile("key-duplicated", `key @q@ is duplicated in @w@. previously defined at @p@@n@`),
	pwCompile("schedule-element", `element of "schedule" section must be mapping and must contain one key "cron"`),
	pwCompile("dispatch-input-type", `input type of workflow_dispatch event must be one of "string", "number", "boolean", "choice", "environment" but got @q@`),
	pwCompile("call-input-type", `invalid value @q@ for input type of workflow_call event. it must be one of "boolean", "number", or "string"`),
	pwCompile("call-input-type-missing", `"type" is missing at @q@ input of workflow_call event`),
	pwCompile("call-output-value-missing", `"value" is missing at @q@ output of workflow_call event`),
	pwCompile("schedule-scalar", `schedule event must be configured with mapping`),
	pwCompile("event-in-sequence", `@q@ event should not be listed in sequence. Use mapping for "on" section and configure the event as values of the mapping`),
	pwCompile("on-kind", `"on" section value is expected to be mapping or sequence but found @k@ node`),
	pwCompile("defaults-no-run", `"defaults" section should have "run" section`),
	pwCompile("concurrency-no-group", `group name is missing in "concurrency" section`),
	pwCompile("environment-no-name", `name is missing in "environment" section`),
	pwCompile("matrix-value-kind", `unexpected @k@ node on parsing value in matrix row`),
	pwCompile("max-parallel-positive", `value at "max-parallel" must be greater than zero: @s@`),
	pwCompile("credentials-pair", `both "username" and "password" must be specified in "credentials" section`),
	pwCompile("timeout-positive", `value at "timeout-minutes" must be greater than zero: @x@`),
	pwCompile("step-run-but-action-key", `this step is for running shell command since it contains at least one of "run", "shell" keys, but also contains @q@ key which is used for running action`),
	pwCompile("step-action-but-run-key", `this step is for running action since it contains at least one of "uses", "with" keys, but also contains @q@ key which is used for running shell command`),
	pwCompile("step-uses-required", `"uses" is required to run action in step`),
	pwCompile("step-workdir-with-uses", `"working-directory" is not available with "uses". it is only available with "run"`),
	pwCompile("step-run-required", `"run" is required to run script in step`),
	pwCompile("step-no-exec", `step must run script with "run" section or run action with "uses" section`),
	pwCompile("secrets-scalar", `expected mapping node for secrets or "inherit" string node but found @q@ node`),
	pwCompile("job-call-with-steps-key", `when a reusable workflow is called with "uses", @q@ is not available. only following keys are allowed: "name", "uses", "with", "secrets", "needs", "if", and "permissions" in job @q@`),
	pwCompile("job-no-steps", `"steps" section is missing in job @q@`),
	pwCompile("job-no-runs-on", `"runs-on" section is missing in job @q@`),
	pwCompile("job-call-key-without-uses", `@q@ is only available for a reusable workflow call with "uses" but "uses" is not found in job @q@`),
	pwCompile("workflow-empty", `workflow is empty`),
	pwCompile("workflow-no-on", `"on" section is missing in workflow`),
	pwCompile("workflow-no-jobs", `"jobs" section is missing in workflow`),
}

var pwWhatRe = regexp.MustCompile(`(?s)^(` + pwQuoted + `) (section|job)$`)

// the message went through lineBreakEscaper after formatting; %q never leaves a raw line break, so the quoted parts
// are unaffected; `what` is the only free text
func pwUnquote(s string) (string, bool) {
	u, err := strconv.Unquote(s)
	return u, err == nil
}

func pwWhat(s string) string {
	if m := pwWhatRe.FindStringSubmatch(s); m != nil {
		if u, ok := pwUnquote(m[1]); ok {
			return "«" + u + "» " + m[2]
		}
	}
	return s
}

// pwCanonErr: `line:col:code:args`; a message no template matches is `?` + the message (a broken tie)
func pwCanonErr(e *actionlint.Error) string {
	for _, t := range pwTemplates {
		m := t.re.FindStringSubmatch(e.Message)
		if m == nil {
			continue
		}
		args := make([]string, 0, len(t.kind))
		ok := true
		for i, k := range t.kind {
			g := m[i+1]
			switch k {
			case 'q':
				u, good := pwUnquote(g)
				if !good {
					ok = false
				}
				args = append(args, hx(u))
			case 'w':
				args = append(args, hx(pwWhat(g)))
			case 'l':
				var items []string
				for _, it := range regexp.MustCompile(pwQuoted).FindAllString(g, -1) {
					u, _ := pwUnquote(it)
					items = append(items, u)
				}
				args = append(args, hx(strings.Join(items, ",")))
			default:
				args = append(args, hx(g))
			}
		}
		if !ok {
			continue
		}
		return fmt.Sprintf("%d:%d:%s:%s", e.Line, e.Column, t.code, strings.Join(args, ","))
	}
	return fmt.Sprintf("%d:%d:?%s", e.Line, e.Column, hx(e.Message))
}

// pwCase: protocol line and canonical implementation output for one source; ok=false when yaml.v3 rejects the source
// (YAML-level errors are not part of the model) or the implementation panics (reported by the caller's crash oracle)
func pwCase(src string) (line, impl string, ok bool) {
	var root yaml.Node
	if err := yaml.Unmarshal([]byte(src), &root); err != nil {
		return "", "", false
	}
	nums := map[string]bool{}
	node := nodeSexp(&root, nums)
	line = "parsewf " + numsSexp(nums) + " " + node
	w, errs := actionlint.Parse([]byte(src))
	parts := make([]string, len(errs))
	for i, e := range errs {
		if e.Kind != "syntax-check" {
			parts[i] = "?kind:" + e.Kind
			continue
		}
		parts[i] = pwCanonErr(e)
	}
	impl = strings.Join(parts, ";") + "|" + dumpAST(reflect.ValueOf(w))
	return line, impl, true
}
