package main

import (
	"reflect"

	"github.com/rhysd/actionlint"
)

// astPositions collects every source position (line, col) that some node of the parsed workflow carries: a generic walk
// over the AST by reflection (all struct fields, slices, maps, interfaces), so that new node types are covered without
// being named here.
func astPositions(w *actionlint.Workflow) map[[2]int]bool {
	out := map[[2]int]bool{}
	seen := map[uintptr]bool{}
	posT := reflect.TypeOf(&actionlint.Pos{})
	var walk func(v reflect.Value, depth int)
	walk = func(v reflect.Value, depth int) {
		if depth > 60 || !v.IsValid() {
			return
		}
		switch v.Kind() {
		case reflect.Ptr:
			if v.IsNil() {
				return
			}
			if v.Type() == posT {
				p := v.Interface().(*actionlint.Pos)
				out[[2]int{p.Line, p.Col}] = true
				return
			}
			if seen[v.Pointer()] {
				return
			}
			seen[v.Pointer()] = true
			walk(v.Elem(), depth+1)
		case reflect.Interface:
			if !v.IsNil() {
				walk(v.Elem(), depth+1)
			}
		case reflect.Struct:
			for i := 0; i < v.NumField(); i++ {
				if v.Type().Field(i).IsExported() {
					walk(v.Field(i), depth+1)
				} else if f := v.Field(i); f.Kind() == reflect.Ptr && f.Type() == posT && !f.IsNil() {
					// unexported position fields (RawYAML values keep theirs private): read through reflect
					p := f.Elem()
					out[[2]int{int(p.FieldByName("Line").Int()), int(p.FieldByName("Col").Int())}] = true
				}
			}
		case reflect.Slice, reflect.Array:
			for i := 0; i < v.Len(); i++ {
				walk(v.Index(i), depth+1)
			}
		case reflect.Map:
			it := v.MapRange()
			for it.Next() {
				walk(it.Value(), depth+1)
			}
		}
	}
	walk(reflect.ValueOf(w), 0)
	return out
}
