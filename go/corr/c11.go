package main

import (
	"fmt"
	"math/rand"
	"sort"
	"strings"

	"github.com/rhysd/actionlint"
)

func init() { props["C11"] = runC11 }

type upath struct {
	segs []string // trie segments, "*" for array elements
	leaf bool     // documented untrusted input (leaf of the trie)
}

func triePaths(m *actionlint.UntrustedInputMap, prefix []string, out *[]upath) {
	p := append(append([]string{}, prefix...), m.Name)
	*out = append(*out, upath{p, len(m.Children) == 0})
	keys := make([]string, 0, len(m.Children))
	for k := range m.Children {
		keys = append(keys, k)
	}
	sort.Strings(keys)
	for _, k := range keys {
		triePaths(m.Children[k], p, out)
	}
}

// spell renders a trie path as an access chain; mode selects the spelling of each segment.
func spell(segs []string, rng *rand.Rand, fixed int) string {
	var b strings.Builder
	for i, s := range segs {
		mode := fixed
		if mode < 0 {
			mode = rng.Intn(4)
		}
		if i == 0 {
			if mode%2 == 1 {
				b.WriteString(strings.ToUpper(s))
			} else {
				b.WriteString(s)
			}
			continue
		}
		if s == "*" {
			switch mode % 3 {
			case 0:
				b.WriteString("[0]")
			case 1:
				b.WriteString("[matrix.n]")
			default:
				b.WriteString(".*")
			}
			continue
		}
		switch mode {
		case 0:
			b.WriteString("." + s)
		case 1:
			b.WriteString("." + strings.ToUpper(s))
		case 2:
			b.WriteString("['" + s + "']")
		default:
			b.WriteString("['" + strings.ToUpper(s) + "']")
		}
	}
	return b.String()
}

type embedding struct {
	fmtStr string // %s = the chain
	safe   bool   // the chain sits under contains/startsWith/endsWith
}

var embeddings = []embedding{
	{"%s", false},
	{"!%s", false},
	{"(%s)", false},
	{"%s == 'a'", false},
	{"'a' != %s", false},
	{"%s && true", false},
	{"false || %s", false},
	{"format('{0}', %s)", false},
	{"toJSON(%s)", false},
	{"fromJSON(%s)", false},
	{"env[%s]", false},
	{"format('{0}', toJSON((%s)))", false},
	{"contains(%s, 'a')", true},
	{"startsWith(%s, 'a')", true},
	{"endsWith('a', %s)", true},
	{"CONTAINS(format('{0}', %s), 'a')", true},
	{"format('{0}', contains(%s, 'a'))", true},
	{"contains(fromJSON('[]'), %s) && true", true},
}

// every expression with exactly one hole built from the leaves with at most three of `!`, `( )`, `&&`, `||` (the
// narrowing code of the checker treats each shape of && / || / ! nesting differently; the chain must be visited wherever
// it sits)
func init() {
	for _, sk := range logicalSkeletons(3, []string{"%s", "'a'"}) {
		if strings.Count(sk, "%s") == 1 && sk != "%s" {
			embeddings = append(embeddings, embedding{sk, false})
		}
	}
}

func expectedReports(chains []upath, safe []bool) [][]string {
	var out [][]string
	for i, c := range chains {
		if c.leaf && !safe[i] {
			out = append(out, []string{strings.Join(c.segs, ".")})
		}
	}
	return out
}

func reportsKey(rs [][]string) string {
	ss := make([]string, len(rs))
	for i, r := range rs {
		ss[i] = strings.Join(r, "+")
	}
	sort.Strings(ss)
	return strings.Join(ss, " | ")
}

func lintUntrusted(src string) ([]string, error) {
	l, err := actionlint.NewLinter(nopWriter{}, &actionlint.LinterOptions{})
	if err != nil {
		return nil, err
	}
	errs, err := l.Lint("test.yaml", []byte(src), nil)
	if err != nil {
		return nil, err
	}
	var out []string
	for _, e := range errs {
		if strings.Contains(e.Message, "potentially untrusted") {
			out = append(out, fmt.Sprintf("%d:%d", e.Line, e.Column))
		}
	}
	return out, nil
}

type nopWriter struct{}

func (nopWriter) Write(p []byte) (int, error) { return len(p), nil }

func runC11(c *ctx, r *Report) error {
	var paths []upath
	for _, k := range []string{"github"} {
		triePaths(actionlint.BuiltinUntrustedInputs[k], nil, &paths)
	}
	nLeaf := 0
	for _, p := range paths {
		if p.leaf {
			nLeaf++
		}
	}
	// trusted relatives: extensions of leaves and siblings
	var rel []upath
	for _, p := range paths {
		if p.leaf {
			rel = append(rel, upath{append(append([]string{}, p.segs...), "extra"), false})
			sib := append(append([]string{}, p.segs[:len(p.segs)-1]...), "zzz")
			rel = append(rel, upath{sib, false})
		}
	}
	all := append(append([]upath{}, paths...), rel...)
	nPairs := 4000
	if !c.quick {
		nPairs = 120000
	}
	r.Rule = fmt.Sprintf("trie of %d nodes / %d documented untrusted inputs extracted from BuiltinUntrustedInputs; every node, every leaf extension and sibling × 4 uniform spellings (.n .N ['n'] ['N']; array segments [0] [matrix.n] .*) × %d embeddings (complete), plus %d random expressions with two or three chains, random per-segment spellings and random embeddings; each checked by the real checker (untrusted on and off) and by the model (events → trie machine); expected reports computed from the generator's own knowledge (leaf ∧ not under contains/startsWith/endsWith); non-trivial = distinct expressions containing at least one documented untrusted path", len(paths), nLeaf, len(embeddings), nPairs)
	env := &semaEnv{vars: map[string]actionlint.ExprType{"matrix": actionlint.NewObjectType(map[string]actionlint.ExprType{"n": actionlint.NumberType{}})}, availCtx: allContexts, availSpecial: allSpecial}
	var b batch
	rng := rand.New(rand.NewSource(c.seed))
	one := func(src string, chains []upath, safe []bool) {
		full := src + " }}"
		mk := func(note string) Case {
			return Case{Op: "sema", Input: map[string]string{"env": env.encode(), "expr": full}, Note: note}
		}
		res := runSema(env, full, true)
		r.Evaluations++
		if res.syntaxErr {
			r.hist("syntax-error")
			return
		}
		if res.bad {
			cs := mk("message matches no known template")
			cs.Impl = res.canon
			r.disagree(cs)
		}
		b.add("sema "+env.encode()+" "+hx(full), res.canon, mk(""))
		want := expectedReports(chains, safe)
		hasObjFilterFanout := false
		for _, c := range chains {
			_ = c
		}
		if strings.Contains(src, ".*") {
			hasObjFilterFanout = true
		}
		anyLeaf := false
		for _, c := range chains {
			if c.leaf {
				anyLeaf = true
			}
		}
		if anyLeaf {
			r.nontrivial(src)
		}
		got := reportsKey(res.untrusted)
		if !hasObjFilterFanout || true {
			if got != reportsKey(want) {
				key := "untrusted-verdict"
				if len(res.untrusted) < len(want) {
					key = "untrusted-missed"
				} else if len(res.untrusted) > len(want) {
					key = "untrusted-spurious"
				}
				r.finding(key, fmt.Sprintf("reports {%s}, expected {%s}", got, reportsKey(want)), mk(""))
			}
		}
		if len(res.untrusted) > 0 {
			r.hist("reported")
		} else {
			r.hist("silent")
		}
		// outside script positions nothing is reported
		res2 := runSema(env, full, false)
		if len(res2.untrusted) > 0 {
			r.finding("untrusted-outside-script", "untrusted-input report with the check disabled (non-script position)", mk(""))
		}
	}
	// complete single-chain enumeration
	for _, p := range all {
		for mode := 0; mode < 4; mode++ {
			chain := spell(p.segs, nil, mode)
			// `.*` over an array segment is an object filter on an array: follows the * child; the remaining
			// spellings are plain accesses
			for _, em := range embeddings {
				one(fmt.Sprintf(em.fmtStr, chain), []upath{p}, []bool{em.safe})
			}
		}
	}
	// random multi-chain expressions
	for i := 0; i < nPairs; i++ {
		k := 2 + rng.Intn(2)
		var parts []string
		var chains []upath
		var safe []bool
		for j := 0; j < k; j++ {
			var p upath
			if rng.Intn(3) == 0 {
				p = rel[rng.Intn(len(rel))]
			} else {
				p = paths[rng.Intn(len(paths))]
			}
			em := embeddings[rng.Intn(len(embeddings))]
			parts = append(parts, fmt.Sprintf(em.fmtStr, spell(p.segs, rng, -1)))
			chains = append(chains, p)
			safe = append(safe, em.safe)
		}
		var src string
		switch rng.Intn(4) {
		case 0:
			src = strings.Join(parts, " && ")
		case 1:
			src = strings.Join(parts, " || ")
		case 2:
			src = "format('{0}{1}{2}', " + strings.Join(parts, ", ") + ")"
			if k == 2 {
				src = "format('{0}{1}', " + strings.Join(parts, ", ") + ")"
			}
		default:
			src = "(" + strings.Join(parts, ") == (") + ")"
			if k == 3 {
				src = "(" + parts[0] + ") == (" + parts[1] + ") && " + parts[2]
			}
		}
		one(src, chains, safe)
	}
	// object-filter fan-out: `.*` on an object position reports all leaves below
	fan := []struct {
		src  string
		want []string
	}{
		{"github.event.*.body", []string{"github.event.comment.body", "github.event.discussion.body", "github.event.issue.body", "github.event.pull_request.body", "github.event.review.body", "github.event.review_comment.body"}},
		{"github.event.*.title", []string{"github.event.discussion.title", "github.event.issue.title", "github.event.pull_request.title"}},
		{"github.event.issue.*", []string{"github.event.issue.body", "github.event.issue.title"}},
		{"github.event.commits.*.author.*", []string{"github.event.commits.*.author.email", "github.event.commits.*.author.name"}},
		{"github.event.*.body[0]", []string{"github.event.comment.body", "github.event.discussion.body", "github.event.issue.body", "github.event.pull_request.body", "github.event.review.body", "github.event.review_comment.body"}},
	}
	for _, f := range fan {
		full := f.src + " }}"
		res := runSema(env, full, true)
		r.Evaluations++
		b.add("sema "+env.encode()+" "+hx(full), res.canon, Case{Op: "sema", Input: map[string]string{"env": env.encode(), "expr": full}})
		got := reportsKey(res.untrusted)
		if got != strings.Join(f.want, "+") {
			r.finding("untrusted-fanout", fmt.Sprintf("object filter reports {%s}, expected {%s}", got, strings.Join(f.want, "+")),
				Case{Op: "sema", Input: map[string]string{"env": env.encode(), "expr": full}})
		}
		r.nontrivial(f.src)
	}
	// linter level: script positions report, non-script positions do not
	scripts := []string{"github.event.issue.title", "github.event['PULL_REQUEST'].head.ref", "github.head_ref", "contains(github.event.issue.title, 'x')", "github.event.issue.number"}
	for _, e := range scripts {
		src := fmt.Sprintf("on: issues\njobs:\n  j:\n    runs-on: ubuntu-latest\n    env:\n      A: ${{ %s }}\n    steps:\n      - run: echo ${{ %s }}\n        env:\n          B: ${{ %s }}\n      - uses: actions/github-script@v7\n        with:\n          script: console.log('${{ %s }}')\n          other: ${{ %s }}\n      - uses: actions/checkout@v4\n        with:\n          ref: ${{ %s }}\n", e, e, e, e, e, e)
		got, err := lintUntrusted(src)
		r.Evaluations++
		if err != nil {
			return err
		}
		wantN := 2
		if strings.HasPrefix(e, "contains(") || strings.HasSuffix(e, "number") {
			wantN = 0
		}
		lines := map[string]bool{}
		for _, g := range got {
			lines[strings.SplitN(g, ":", 2)[0]] = true
		}
		okPos := len(got) == wantN && (wantN == 0 || (lines["8"] && lines["13"]))
		if !okPos {
			key := "script-position"
			r.finding(key, fmt.Sprintf("untrusted-input reports at %v; expected exactly the run: (line 8) and github-script script: (line 13) positions (%d reports)", got, wantN),
				Case{Op: "lint", Input: map[string]string{"yaml": src}})
		}
		r.nontrivial("lint:" + e)
	}
	// the action and its input in every letter case (GitHub resolves owner/repo case-insensitively; the input key is folded by
	// the parser): the script input is a script position for every spelling — and is none for another action
	for _, spec := range []struct {
		uses   string
		script bool
	}{{"actions/github-script@v7", true}, {"Actions/GitHub-Script@v7", true}, {"ACTIONS/GITHUB-SCRIPT@main", true}, {"actions/Github-script@60a0d83039c74a4aee543508d2ffcb1c3799cdea", true},
		{"actions/github-script-x@v1", false}, {"actions/github-script/sub@v7", false}, {"xactions/github-script@v7", false}} {
		for _, key := range []string{"script", "Script", "SCRIPT"} {
			src := fmt.Sprintf("on: issues\njobs:\n  j:\n    runs-on: ubuntu-latest\n    steps:\n      - uses: %s\n        with:\n          %s: console.log('${{ github.event.issue.title }}')\n          other: ${{ github.event.issue.title }}\n", spec.uses, key)
			got, err := lintUntrusted(src)
			r.Evaluations++
			if err != nil {
				return err
			}
			ok := len(got) == 0
			if spec.script {
				ok = len(got) == 1 && strings.HasPrefix(got[0], "8:")
			}
			if !ok {
				r.finding("script-position:action-spelling", fmt.Sprintf("uses: %s with %s: — untrusted-input reports at %v; the script input of actions/github-script (in any letter case) is a script position: %v", spec.uses, key, got, spec.script),
					Case{Op: "lint", Input: map[string]string{"yaml": src}})
			}
			r.nontrivial("lint-spelling:" + spec.uses + ":" + key)
		}
	}
	// several placeholders in one script string: each one that reads an untrusted input is reported
	{
		src := "on: issues\njobs:\n  j:\n    runs-on: ubuntu-latest\n    steps:\n      - run: echo ${{ github.event.issue.title }} and ${{ github.head_ref }} and ${{ github.event.issue.body }}\n"
		got, err := lintUntrusted(src)
		r.Evaluations++
		if err != nil {
			return err
		}
		if len(got) != 3 {
			r.finding("placeholders-after-first-diagnostic", fmt.Sprintf("a run: script with three placeholders that each read an untrusted input gets %d report(s): %v", len(got), got),
				Case{Op: "lint", Input: map[string]string{"yaml": src}})
		}
		r.nontrivial("lint:multi-placeholder")
	}
	r.sample(map[string]string{"expr": "github.event['PULL_REQUEST'].head.ref }}", "impl": runSema(env, "github.event['PULL_REQUEST'].head.ref }}", true).canon})
	r.sample(map[string]string{"expr": "contains(github.event.issue.title, 'x') || github.head_ref }}", "impl": runSema(env, "contains(github.event.issue.title, 'x') || github.head_ref }}", true).canon})
	r.Exhaustive = true
	if _, err := b.flush(c, r); err != nil {
		return err
	}
	// workflow level: which strings are script positions (run:, the script input of actions/github-script in any letter
	// case) and which are not (env, with, name, if, …). In the model AL.Visit only script positions run the untrusted-input
	// machine (machine_eq_spec: it reports exactly the documented paths); a difference in untrusted reports on a probe
	// line is an unreported read in a script or a report outside one.
	nV := 300
	if !c.quick {
		nV = 6000
	}
	if err := visitTie(c, r, nV, false, func(cs Case) (string, string) {
		if a, b := visitCodes(cs.Impl, "untrusted"), visitCodes(cs.Model, "untrusted"); a != b {
			return "workflow-untrusted-reports-differ", "the untrusted-input reports at the probes (" + a + ") differ from the rule (script positions only, documented paths): " + b
		}
		return "", ""
	}); err != nil {
		return err
	}
	// the whole rule over the parser's AST (AL.RuleExpr, tie `exprwf`): untrusted inputs planted at EVERY scalar of the base
	// workflows and the corpus — reported in `run:` and github-script `script:` only
	perE := 6
	if !c.quick {
		perE = 200
	}
	return exStandard(c, r, func(cs Case) (string, string) {
		pick := func(s string) string {
			var out []string
			for _, d := range strings.Split(s, ";") {
				if strings.HasPrefix(d, "untrusted(") {
					out = append(out, d)
				}
			}
			return strings.Join(out, ";")
		}
		if pick(cs.Impl) != pick(cs.Model) {
			return "untrusted-reports-differ-from-rule-model", "the untrusted-input reports of the real rule differ from the model of rule_expression.go (script positions only) on this source"
		}
		return "", ""
	}, perE, true, map[bool]int{true: 2500, false: 0}[c.quick])
}
