package main

import (
	"fmt"
	"os"
	"path/filepath"
	"regexp"
	"sort"
	"strings"

	"gopkg.in/yaml.v3"
)

func init() { props["C13"] = runC13 }

// freeKeyMapping: mappings whose keys are user-chosen names (any key is accepted); everything else has
// a key set fixed by the workflow syntax.
func freeKeyMapping(keys []string) bool {
	g := genericKeyPath(keys)
	free := []string{
		"env", "jobs", "jobs.<jobs_id>.env", "jobs.<jobs_id>.with", "jobs.<jobs_id>.secrets", "jobs.<jobs_id>.outputs", "jobs.<jobs_id>.services",
		"jobs.<jobs_id>.strategy.matrix", "jobs.<jobs_id>.steps.[].env", "jobs.<jobs_id>.steps.[].with", "jobs.<jobs_id>.container.env",
		"jobs.<jobs_id>.services.<services_id>.env", "on.workflow_dispatch.inputs", "on.workflow_call.inputs", "on.workflow_call.secrets", "on.workflow_call.outputs",
	}
	for _, f := range free {
		if g == f {
			return true
		}
	}
	// include / exclude elements, and every mapping nested inside a matrix value (user data of arbitrary shape)
	return strings.Contains(g, ".strategy.matrix.include.[]") || strings.Contains(g, ".strategy.matrix.exclude.[]") || strings.Contains(g, ".strategy.matrix.<matrix_id>.")
}

func caseInsensitiveMapping(keys []string) bool {
	g := genericKeyPath(keys)
	return freeKeyMapping(keys) || g == "permissions" || strings.HasSuffix(g, ".permissions")
}

type diagKey struct{ msgKind string }

func diagMultiset(errs []string) map[string]int {
	m := map[string]int{}
	for _, e := range errs {
		m[e]++
	}
	return m
}

// mandatory keys: (generic path of the mapping, key)
var mandatoryKeys = [][2]string{
	{"", "on"}, {"", "jobs"}, {"jobs.<jobs_id>", "runs-on"}, {"jobs.<jobs_id>", "steps"}, {"jobs.<jobs_id>.steps.[]", "run"}, {"jobs.<jobs_id>.steps.[]", "uses"},
	{"on.workflow_call.inputs.<inputs_id>", "type"}, {"on.workflow_call.outputs.<outputs_id>", "value"},
	{"concurrency", "group"}, {"jobs.<jobs_id>.concurrency", "group"}, {"jobs.<jobs_id>.environment", "name"},
	{"jobs.<jobs_id>.container.credentials", "username"}, {"jobs.<jobs_id>.container.credentials", "password"},
	{"jobs.<jobs_id>.services.<services_id>.credentials", "username"}, {"jobs.<jobs_id>.services.<services_id>.credentials", "password"},
	{"defaults", "run"}, {"jobs.<jobs_id>.defaults", "run"},
}

func runC13(c *ctx, r *Report) error {
	r.Rule = "the three base workflows (every section of the syntax); at EVERY mapping node: (1) insert a foreign key — three spellings: fresh `zz-unknown`, a near-miss of an accepted key, an accepted key of a different section — at the front, middle and end; (1b) where the key set is case-sensitive, every accepted key re-spelled in another letter case must be reported as unexpected; (2) repeat an existing key in the same and in changed letter case; (3) delete each mandatory key; the real linter's diagnostics before/after are compared as multisets of (message, kind): exactly one new diagnostic at the inserted / repeated key (none for free-name mappings), nothing else appears or disappears; each mutation is also applied on top of a sibling defect (a malformed placeholder in a neighbouring value) to check that the sibling's diagnostic survives; non-trivial = distinct (file, mapping path, mutation) triples"
	sitesFixed, sitesFree := 0, 0
	for _, name := range []string{"a.yml", "b.yml", "c.yml"} {
		root, err := parseYAML(wfBases[name])
		if err != nil {
			return err
		}
		var visits []yvisit
		walkYAML(root, nil, nil, &visits)
		for _, v := range visits {
			if v.isKey || v.node.Kind != yaml.MappingNode {
				continue
			}
			gk := genericKeyPath(v.keys)
			free := freeKeyMapping(v.keys)
			if free {
				sitesFree++
			} else {
				sitesFixed++
			}
			r.hist("mapping:" + map[bool]string{true: "free-names", false: "fixed-keys"}[free])
			nPairs := len(v.node.Content) / 2
			// a sibling defect to ride along: first scalar value child of this mapping, if any
			sibling := -1
			for i := 0; i < nPairs; i++ {
				val := v.node.Content[2*i+1]
				if val.Kind == yaml.ScalarNode && val.Tag != "!!null" && !notEvaluated(append(append([]string{}, v.keys...), v.node.Content[2*i].Value)) {
					sibling = i
					break
				}
			}
			lint := func(m *yaml.Node) (string, []string, *yaml.Node, error) {
				src, err := emitYAML(m)
				if err != nil {
					return "", nil, nil, err
				}
				errs, err := lintSrc(name, src)
				if err != nil {
					return src, nil, nil, err
				}
				var out []string
				for _, e := range errs {
					out = append(out, e.Message+" ["+e.Kind+"]")
				}
				re, err := parseYAML(src)
				return src, out, re, err
			}
			for _, withSibling := range []bool{false, true} {
				if withSibling && sibling < 0 {
					continue
				}
				baseTree := cloneNode(root)
				if withSibling {
					sv := nodeAt(baseTree, v.path).Content[2*sibling+1]
					sv.Tag, sv.Value, sv.Style = "!!str", "${{ (( }}", 0
				}
				_, baseDiags, _, err := lint(baseTree)
				if err != nil {
					return err
				}
				baseSet := diagMultiset(baseDiags)
				if !withSibling && len(baseDiags) != 0 {
					r.finding("base-not-clean", "base workflow "+name+" is not clean", Case{Op: "lint", Input: map[string]string{"file": name}})
					break
				}
				if withSibling && len(baseDiags) == 0 {
					continue
				}
				check := func(mut *yaml.Node, what, keyText string, keyIdx int, expectNew bool) {
					src, diags, re, err := lint(mut)
					r.Evaluations++
					r.nontrivial(fmt.Sprintf("%s|%s|%s|%v", name, strings.Join(v.keys, "."), what, withSibling))
					mk := func(note string) Case {
						return Case{Op: "lint-mutated", Input: map[string]string{"file": name, "mapping": strings.Join(v.keys, "."), "mutation": what, "with_sibling_defect": fmt.Sprint(withSibling), "yaml": src}, Note: note}
					}
					if err != nil {
						r.Crashes = append(r.Crashes, mk(err.Error()))
						return
					}
					got := diagMultiset(diags)
					var lost, gained []string
					for k, n := range baseSet {
						if got[k] < n {
							lost = append(lost, k)
						}
					}
					for k, n := range got {
						if baseSet[k] < n {
							for i := 0; i < n-baseSet[k]; i++ {
								gained = append(gained, k)
							}
						}
					}
					sort.Strings(lost)
					sort.Strings(gained)
					if len(lost) > 0 && gk == "on.schedule.[]" {
						r.finding("schedule-item-suppresses-cron", fmt.Sprintf("%s in a schedule item makes the diagnostics of its `cron` value disappear: %v", what, lost), mk(""))
					} else if len(lost) > 0 {
						r.finding("sibling-diagnostic-suppressed:"+gk, fmt.Sprintf("%s at %s makes sibling diagnostics disappear: %v", what, strings.Join(v.keys, "."), lost), mk(""))
					}
					if expectNew {
						if len(gained) == 0 {
							r.finding("key-not-reported:"+gk, fmt.Sprintf("%s (%q) at %s is not reported", what, keyText, strings.Join(v.keys, ".")), mk(""))
						} else {
							// located at the key
							kn := nodeAt(re, v.path).Content[2*keyIdx]
							if gk == "on.schedule.[]" && what == "foreign key" {
								kn = nodeAt(re, v.path) // for `schedule` items the report is at the item
							}
							errs, _ := lintSrc(name, src)
							at := false
							item := nodeAt(re, v.path)
							for _, e := range errs {
								if e.Line == kn.Line && e.Column == kn.Column {
									at = true
								}
								// a key outside {cron} in a schedule item is reported at the item
								if gk == "on.schedule.[]" && e.Line == item.Line && e.Column == item.Column {
									at = true
								}
							}
							if !at {
								r.finding("key-report-position:"+gk, fmt.Sprintf("%s (%q) at %s is reported, but not at the key (%d:%d)", what, keyText, strings.Join(v.keys, "."), kn.Line, kn.Column), mk(strings.Join(gained, " || ")))
							}
						}
					}
				}
				// (1b) where the key set is fixed and case-sensitive, an accepted key written in another letter case is a key
				// outside the set: rename each key in turn (other diagnostics — e.g. a mandatory key now missing — may come
				// on top, the key itself must be reported as unexpected, at the key)
				if !free && !caseInsensitiveMapping(v.keys) && !withSibling {
					for i := 0; i < nPairs; i++ {
						k := v.node.Content[2*i].Value
						k2 := strings.ToUpper(k[:1]) + k[1:]
						if k2 == k {
							continue
						}
						m := cloneNode(baseTree)
						nodeAt(m, v.path).Content[2*i].Value = k2
						src, _, re, err := lint(m)
						r.Evaluations++
						if err != nil {
							continue
						}
						errs, _ := lintSrc(name, src)
						kn := nodeAt(re, v.path).Content[2*i]
						item := nodeAt(re, v.path)
						found := false
						for _, e := range errs {
							atKey := e.Line == kn.Line && e.Column == kn.Column
							if gk == "on.schedule.[]" {
								atKey = e.Line == item.Line && e.Column == item.Column
							}
							// (worded "unexpected key …", "expected … key … but got …" or "unknown Webhook event …")
							if atKey && (strings.Contains(e.Message, "\""+k2+"\"") || gk == "on.schedule.[]") {
								found = true
							}
						}
						r.hist("recased-key")
						if !found {
							r.finding("recased-key-accepted:"+gk, fmt.Sprintf("the key %q of %s written as %q (the key set is case-sensitive here) is not reported as an unexpected key", k, strings.Join(v.keys, "."), k2),
								Case{Op: "lint-mutated", Input: map[string]string{"file": name, "mapping": strings.Join(v.keys, "."), "mutation": "key " + k + " → " + k2, "yaml": src}})
						}
					}
				}
				// (1) foreign keys
				foreign := []string{"zz-unknown"}
				if nPairs > 0 {
					foreign = append(foreign, v.node.Content[0].Value+"s")
				}
				if !strings.HasSuffix(gk, "steps.[]") {
					foreign = append(foreign, "working-directory")
				} else {
					foreign = append(foreign, "runs-on")
				}
				for fi, fk := range foreign {
					exists := false
					for i := 0; i < nPairs; i++ {
						if strings.EqualFold(v.node.Content[2*i].Value, fk) {
							exists = true
						}
					}
					if exists {
						continue
					}
					for _, at := range []int{0, nPairs / 2, nPairs} {
						if fi > 0 && at != nPairs {
							continue
						}
						m := cloneNode(baseTree)
						mn := nodeAt(m, v.path)
						kn := &yaml.Node{Kind: yaml.ScalarNode, Tag: "!!str", Value: fk}
						vn := &yaml.Node{Kind: yaml.ScalarNode, Tag: "!!str", Value: "x"}
						c := append([]*yaml.Node{}, mn.Content[:2*at]...)
						c = append(c, kn, vn)
						c = append(c, mn.Content[2*at:]...)
						mn.Content = c
						// in free-name mappings a new name is simply a new entry (its value may be diagnosed by other rules)
						check(m, "foreign key", fk, at, !free)
					}
				}
				// (2) repeated keys
				for i := 0; i < nPairs && i < 3; i++ {
					k := v.node.Content[2*i].Value
					for _, variant := range []string{k, strings.ToUpper(k)} {
						if variant == k && false {
							continue
						}
						if variant != k && !caseInsensitiveMapping(v.keys) {
							// in a case-sensitive mapping the re-cased key is a different, unknown key: still one report there
						}
						if variant != k && strings.ToUpper(k) == k {
							continue
						}
						m := cloneNode(baseTree)
						mn := nodeAt(m, v.path)
						kn := &yaml.Node{Kind: yaml.ScalarNode, Tag: "!!str", Value: variant}
						vn := cloneNode(mn.Content[2*i+1])
						mn.Content = append(mn.Content, kn, vn)
						check(m, "repeated key", variant, nPairs, true)
					}
				}
				// (3) mandatory keys
				if !withSibling {
					for _, mk2 := range mandatoryKeys {
						if mk2[0] != gk {
							continue
						}
						for i := 0; i < nPairs; i++ {
							if v.node.Content[2*i].Value != mk2[1] {
								continue
							}
							m := cloneNode(baseTree)
							mn := nodeAt(m, v.path)
							mn.Content = append(append([]*yaml.Node{}, mn.Content[:2*i]...), mn.Content[2*i+2:]...)
							src, diags, _, err := lint(m)
							r.Evaluations++
							r.nontrivial(fmt.Sprintf("%s|%s|delete %s", name, strings.Join(v.keys, "."), mk2[1]))
							if err != nil {
								return err
							}
							if len(diags) == 0 {
								r.finding("missing-key-not-reported:"+gk+"."+mk2[1], fmt.Sprintf("deleting the mandatory key %q at %s is not reported", mk2[1], strings.Join(v.keys, ".")),
									Case{Op: "lint-mutated", Input: map[string]string{"file": name, "mapping": strings.Join(v.keys, "."), "mutation": "delete " + mk2[1], "yaml": src}})
							}
						}
					}
				}
			}
		}
	}
	r.Notes = append(r.Notes, fmt.Sprintf("mapping nodes: %d with a fixed key set, %d with free names", sitesFixed, sitesFree))
	r.Exhaustive = true
	r.sample(map[string]string{"file": "a.yml", "mapping": "jobs.build.container", "mutation": "foreign key zz-unknown at the front, with a malformed placeholder in `image`"})
	r.sample(map[string]string{"file": "b.yml", "mapping": "on.workflow_call.inputs", "mutation": "repeated key NAME (case-insensitive mapping)"})
	if err := c13KeyOrder(c, r); err != nil {
		return err
	}
	per := 12
	if !c.quick {
		per = 400
	}
	return pwStandard(c, r, "diag", per, true)
}

var reC13Pos = regexp.MustCompile(`line:\d+,col:\d+`)

// c13KeyOrder: "an unknown or duplicate key never suppresses the diagnostics of its sibling keys" has a consequence that
// needs no knowledge of the syntax: the order in which the keys of a mapping are written does not change which
// diagnostics are reported. Every mapping of the base workflows and of the project's own test workflows is re-emitted
// with its pairs reversed and rotated; the multiset of (kind, message without positions) must stay the same.
// Not compared: messages that name "the first" of several candidates by position (needs cycle, label conflict).
func c13KeyOrder(c *ctx, r *Report) error {
	srcs := map[string]string{}
	for k, v := range wfBases {
		srcs[k] = v
	}
	for _, d := range []string{"err", "ok", "examples"} {
		m, _ := filepath.Glob(filepath.Join("/repo/testdata", d, "*.yaml"))
		for _, f := range m {
			if b, err := os.ReadFile(f); err == nil {
				srcs["testdata/"+d+"/"+filepath.Base(f)] = string(b)
			}
		}
	}
	names := make([]string, 0, len(srcs))
	for k := range srcs {
		names = append(names, k)
	}
	sort.Strings(names)
	canon := func(src string) (string, bool) {
		errs, err := lintSrc("k.yaml", src)
		if err != nil {
			return "", false
		}
		var out []string
		for _, e := range errs {
			if e.Kind == "syntax-check" && strings.HasPrefix(e.Message, "could not parse as YAML") {
				return "", false
			}
			if strings.Contains(e.Message, "cyclic dependencies") || strings.Contains(e.Message, "conflicts with") {
				continue
			}
			// a step with both `run` and `uses`: one diagnostic either way, worded after the key that came first
			if strings.HasPrefix(e.Message, "this step is for running") {
				out = append(out, "["+e.Kind+"] this step is for running … but also contains …")
				continue
			}
			out = append(out, "["+e.Kind+"] "+reC13Pos.ReplaceAllString(e.Message, "line:_,col:_"))
		}
		sort.Strings(out)
		return strings.Join(out, "\n"), true
	}
	nMaps, nFiles := 0, 0
	for _, name := range names {
		src := srcs[name]
		if strings.Contains(src, "&") && strings.Contains(src, "*") || strings.Contains(src, "<<:") {
			continue // anchors / aliases / merge keys: an alias must follow its anchor
		}
		root, err := parseYAML(src)
		if err != nil {
			continue
		}
		// reference: the re-emitted but unchanged document (so that both sides went through the same emitter)
		ref0, err := emitYAML(cloneNode(root))
		if err != nil {
			continue
		}
		ref, ok := canon(ref0)
		if !ok || strings.Contains(ref, "is duplicated") {
			continue // with a repeated key, which occurrence is "the repetition" (and which value survives) is a matter of order
		}
		nFiles++
		var visits []yvisit
		walkYAML(root, nil, nil, &visits)
		for _, v := range visits {
			if v.isKey || v.node.Kind != yaml.MappingNode || len(v.node.Content) < 4 {
				continue
			}
			if genericKeyPath(v.keys) == "on.workflow_call.inputs" {
				continue // an input's default may refer to the inputs declared BEFORE it: sequential scope by design
			}
			{
				// a step that mixes the keys of a script step and of an action step is diagnosed according to the key
				// that comes first (one of two contradictory readings): not a matter of unknown / duplicate / missing keys
				has := map[string]bool{}
				for k := 0; k+1 < len(v.node.Content); k += 2 {
					has[strings.ToLower(v.node.Content[k].Value)] = true
				}
				if (has["run"] || has["shell"] || has["working-directory"]) && (has["uses"] || has["with"]) {
					continue
				}
			}
			for variant := 0; variant < 2; variant++ {
				m := cloneNode(root)
				n := nodeAt(m, v.path)
				pairs := len(n.Content) / 2
				nc := make([]*yaml.Node, 0, len(n.Content))
				if variant == 0 { // reversed
					for k := pairs - 1; k >= 0; k-- {
						nc = append(nc, n.Content[2*k], n.Content[2*k+1])
					}
				} else { // rotated by one
					nc = append(nc, n.Content[2:]...)
					nc = append(nc, n.Content[0], n.Content[1])
				}
				n.Content = nc
				out, err := emitYAML(m)
				if err != nil {
					continue
				}
				got, ok := canon(out)
				r.Evaluations++
				if !ok {
					continue
				}
				nMaps++
				if c.quick && !strings.HasSuffix(name, ".yml") && variant == 1 && nMaps%3 != 0 {
					continue
				}
				if got != ref {
					r.finding("key-order-changes-diagnostics:"+genericKeyPath(v.keys), fmt.Sprintf("writing the keys of the mapping at %s in another order changes the diagnostics", strings.Join(v.keys, ".")),
						Case{Op: "lint-reordered", Input: map[string]string{"file": name, "mapping": strings.Join(v.keys, "."), "order": []string{"reversed", "rotated"}[variant], "yaml": out}, Impl: got, Model: ref})
				}
			}
		}
	}
	r.hist(fmt.Sprintf("key-order-mappings:%d", nMaps))
	r.Rule += fmt.Sprintf("; key order: every mapping with ≥ 2 keys of the base workflows and of %d workflows under /repo/testdata re-emitted reversed and rotated: same multiset of (kind, message without positions)", nFiles)
	return nil
}
