package main

import (
	"os"
	"path/filepath"
	"fmt"
	"math/rand"
	"regexp"
	"strings"

	"github.com/rhysd/actionlint"
)

func init() { props["C08"] = runC08 }

// Name occurrences are written «name»; everything else is literal. One template per shape.
var c08Templates = []string{
	// reusable workflow: inputs / secrets / outputs / jobs context
	`on:
  workflow_call:
    inputs:
      «who»:
        type: string
      «level»:
        type: number
    secrets:
      «token»:
        required: true
    outputs:
      «result»:
        value: ${{ «jobs».«build».«outputs».«artifact» }}
      «result2»:
        value: ${{ «jobs».«build».«outputs».nope }}
      «result3»:
        value: ${{ «jobs».missing.«outputs».x }}
jobs:
  «build»:
    runs-on: ubuntu-latest
    outputs:
      «artifact»: ${{ «steps».«compile».«outputs».path }}
    strategy:
      matrix:
        «os»: [linux, mac]
        «ver»: [1, 2]
        include:
          - «os»: win
            «extra»: 1
        exclude:
          - «os»: mac
          - «nokey»: 1
    steps:
      - id: «compile»
        run: echo
      - run: |
          echo ${{ «inputs».«who» }}
      - run: |
          echo ${{ «inputs».nobody }}
      - run: |
          echo ${{ «matrix».«os» }}
      - run: |
          echo ${{ «matrix».«extra» }}
      - run: |
          echo ${{ «matrix».nope }}
      - run: |
          echo ${{ «secrets».«token» }}
      - run: |
          echo ${{ «secrets».other }}
      - run: |
          echo ${{ «secrets».github_token }}
      - run: |
          echo ${{ «steps».«compile».«outputs».x }}
      - run: |
          echo ${{ «steps».later.«outputs».x }}
      - id: later
        run: echo
      - run: |
          echo ${{ «contains»(«github».«event_name», 'x') }}
      - run: |
          echo ${{ «fromJSON»('{"«Alpha»": {"«Beta»": 1}}').«alpha».«beta».gamma }}
      - run: |
          echo ${{ «fromJSON»('{"«Alpha»": {"«Beta»": 1}}').«alpha».nokey }}
      - run: |
          echo ${{ «toJSON»(«github»['«event»']['«issue»']) }}
      - run: |
          echo ${{ «github»['«event_name»'] == 'push' && «startsWith»(«github».«ref», 'refs/') }}
      - run: |
          echo ${{ «github».nosuchprop }}
      - run: |
          echo ${{ «github»['«nosuchprop2»'] }}
      - run: |
          echo ${{ «format»('{0}', «matrix»['«ver»']) }}
      - run: |
          echo ${{ «matrix»['«nope2»'] }}
      - run: |
          echo ${{ «steps»['«compile»'].«outputs».y }}
      - run: |
          echo ${{ «steps»['«unknownstep»'] }}
  «deploy»:
    needs: [«build»]
    runs-on: ubuntu-latest
    steps:
      - run: |
          echo ${{ «needs».«build».«outputs».«artifact» }}
      - run: |
          echo ${{ «needs».«build».«outputs».zzz }}
      - run: |
          echo ${{ «needs».other.result }}
      - run: |
          echo ${{ «needs».«build».«result» }}
  «last»:
    needs: [«deploy», «unknownjob»]
    runs-on: ubuntu-latest
    steps:
      - run: |
          echo ${{ «needs».«deploy».result }}
      - run: |
          echo ${{ «needs».«build».result }}
  «selfish»:
    needs: [«selfish»]
    runs-on: ubuntu-latest
    steps:
      - run: |
          echo ${{ «needs».«selfish».result }}
`,
	// workflow_dispatch inputs, action inputs, cyclic needs, duplicate ids
	`on:
  workflow_dispatch:
    inputs:
      «name»:
        type: string
      «flag»:
        type: boolean
env:
  «TOP»: 1
jobs:
  «a»:
    needs: «b»
    runs-on: ubuntu-latest
    steps:
      - uses: actions/checkout@v4
        with:
          «fetch-depth»: 0
          «nosuchinput»: 1
      - uses: actions/setup-node@v4
        with:
          «node-version»: 18
      - uses: actions/cache@v4
        with:
          «path»: x
      - id: «one»
        run: echo ${{ «inputs».«name» }} ${{ «inputs».«flag» }} ${{ «github».«event».«inputs».«name» }} ${{ «env».«TOP» }}
      - run: echo ${{ «github».«event».«inputs».other }}
      - run: echo ${{ «inputs».nothere }}
      - id: «one»
        run: echo ${{ «steps».«one».«conclusion» }} ${{ «steps».«one».«outcome» }}
      - run: echo ${{ «steps».«one».nope }}
  «b»:
    needs: «a»
    runs-on: ubuntu-latest
    steps:
      - uses: actions/upload-artifact@v4
        id: «up»
        with:
          «name»: n
          «path»: p
      - run: echo ${{ «steps».«up».«outputs».«artifact-id» }} ${{ «success»() && «hashFiles»('a') }}
      - run: echo ${{ «steps».«up».«outputs».nothing }}
      - run: echo ${{ «always»() }}
        if: ${{ «failure»() || «cancelled»() }}
`,
	// script positions (run: and the script input of actions/github-script) with untrusted inputs, service ids,
	// keys nested inside matrix row values
	`on: issues
jobs:
  «g»:
    runs-on: ubuntu-latest
    services:
      «db»:
        image: postgres
        ports: [5432]
    strategy:
      matrix:
        «cfg»:
          - «Name»: a
            «Nested»: {«Deep»: 1}
          - «Name»: b
            «Nested»: {«Deep»: 2}
    steps:
      - uses: actions/github-script@v7
        with:
          «script»: console.log('${{ «github».«event».«issue».«title» }}')
      - uses: actions/github-script@v7
        with:
          «script»: console.log('${{ «github».«event».«issue».«number» }}')
          «retries»: 1
          «nosuch»: 1
      - run: echo ${{ «job».«services».«db».«ports»['5432'] }} ${{ «job».«services».«db».nokey }}
      - run: echo ${{ «matrix».«cfg».«name» }} ${{ «matrix».«cfg».«nested».«deep» }} ${{ «matrix».«cfg».nokey }} ${{ «matrix».«cfg».«nested».nodeep }}
      - run: echo ${{ «runner».«os» }} ${{ «strategy».«job-index» }} ${{ «vars».«anything» }} ${{ «runner».nope }}
      - run: echo '${{ «github».«event».«issue».«body» }}' ${{ «github».«head_ref» }}
      - run: echo ${{ «github».«event».«issue».«labels».*.«name» }} ${{ «github»['«event»'].«comment»['«body»'] }}
        env:
          «SAFE»: ${{ «github».«event».«issue».«title» }}
  «h»:
    runs-on: ubuntu-latest
    strategy:
      matrix:
        «plat»: ${{ «fromJSON»('["linux","mac"]') }}
        «ver»: [1, 2]
        «flavor»: [a, b]
        include:
          - «plat»: bsd
            «extra»: ${{ «github».«sha» }}
        exclude:
          - «plat»: linux
            «ver»: 1
          - «plat»: win
          - «extra»: y
          - «flavor»: c
          - «nokey»: 1
    steps:
      - run: echo ${{ «matrix».«plat» }} ${{ «matrix».«extra» }} ${{ «matrix».«flavor» }} ${{ «matrix».nothere }}
`,
}

var reMark = regexp.MustCompile(`«([^»]*)»`)

func renderCase(tmpl string, rng *rand.Rand, mode int) (string, int) {
	n := 0
	out := reMark.ReplaceAllStringFunc(tmpl, func(m string) string {
		name := m[len("«") : len(m)-len("»")]
		n++
		if mode == 0 {
			return name
		}
		switch rng.Intn(3) {
		case 0:
			return strings.ToUpper(name)
		case 1:
			if len(name) > 0 {
				return strings.ToUpper(name[:1]) + name[1:]
			}
			return name
		default:
			return name
		}
	})
	return out, n
}

func runC08(c *ctx, r *Report) error {
	rng := rand.New(rand.NewSource(c.seed))
	nVariants := 60
	if !c.quick {
		nVariants = 1500
	}
	r.Rule = fmt.Sprintf("3 workflow templates in which every NAME occurrence is marked (script positions with untrusted inputs incl. the script input key of actions/github-script, service ids, keys nested in matrix row values, job ids at definition / in needs: / in needs.<job> and jobs.<job>, step ids at id: and in steps.<id>, inputs / secrets / outputs at definition and use, matrix keys in rows / include / exclude / matrix.<key>, action input keys under with:, context names, property names incl. built-ins, function names incl. special functions, index literals ['name'], keys of a JSON literal passed to fromJSON); the templates contain defined and undefined references so that diagnostics exist; each is rendered as written and in %d random re-casings (each occurrence independently lower / UPPER / Capitalised) and linted by the real linter; the sequence of (line, column, kind, lower-cased message) must be identical; non-trivial = distinct re-cased renderings", nVariants)
	for ti, tmpl := range c08Templates {
		base, nOcc := renderCase(tmpl, rng, 0)
		errs0, err := lintSrc("t.yaml", base)
		if err != nil {
			return err
		}
		key := func(es []*relErr) string { return "" }
		_ = key
		canon := func(src string) (string, int, error) {
			errs, err := lintSrc("t.yaml", src)
			if err != nil {
				return "", 0, err
			}
			var sb strings.Builder
			for _, e := range errs {
				fmt.Fprintf(&sb, "%d:%d [%s] %s\n", e.Line, e.Column, e.Kind, strings.ToLower(e.Message))
			}
			return sb.String(), len(errs), nil
		}
		want, n0, err := canon(base)
		if err != nil {
			return err
		}
		_ = errs0
		r.Notes = append(r.Notes, fmt.Sprintf("template %d: %d marked name occurrences, %d diagnostics as written", ti, nOcc, n0))
		for v := 0; v < nVariants; v++ {
			src, _ := renderCase(tmpl, rng, 1)
			got, _, err := canon(src)
			r.Evaluations++
			if err != nil {
				r.Crashes = append(r.Crashes, Case{Op: "lint-recased", Input: map[string]string{"yaml": src}, Note: err.Error()})
				continue
			}
			r.nontrivial(src)
			if got != want {
				// first differing line
				gl, wl := strings.Split(got, "\n"), strings.Split(want, "\n")
				diff := ""
				for i := 0; i < len(gl) || i < len(wl); i++ {
					a, b := "", ""
					if i < len(gl) {
						a = gl[i]
					}
					if i < len(wl) {
						b = wl[i]
					}
					if a != b {
						diff = fmt.Sprintf("re-cased: %q / as written: %q", a, b)
						break
					}
				}
				// classify by the diagnostic kind of the first difference
				k := "recase-changes-diagnostics"
				r.finding(k, "changing only the letter case of names changes the diagnostics: "+diff,
					Case{Op: "lint-recased", Input: map[string]string{"as_written": base, "recased": src}, Impl: got, Model: want})
			}
		}
		if ti == 0 {
			s, _ := renderCase(tmpl, rng, 1)
			r.sample(map[string]string{"recased_excerpt": s[:400]})
		}
	}
	// names supplied by a PROJECT: inputs / secrets / outputs of a local reusable workflow and of a local action (declared in
	// mixed case in the callee's file), configuration variables; the caller's spellings are re-cased at random. Typed inputs
	// are given values of the wrong type so that the typed check has something to say whatever the spelling.
	if err := c08Project(c, r, rng, nVariants); err != nil {
		return err
	}
	// tie of the sema model that check_case_insensitive / json_keys_folded are about (no judge: the property relates
	// two runs of the checker, a single differing output is not by itself a failing input)
	nTie := 4000
	if !c.quick {
		nTie = 60000
	}
	if err := semaTie(c, r, nTie, func(rng *rand.Rand, env *semaEnv) {
		// re-case some property names of the environment so that folded lookups are exercised
		for _, v := range env.vars {
			if o, ok := v.(*actionlint.ObjectType); ok && rng.Intn(3) == 0 {
				for k, t := range o.Props {
					if rng.Intn(2) == 0 {
						delete(o.Props, k)
						o.Props[strings.ToLower(k)] = t
					}
				}
			}
		}
	}, nil, func(cs Case) (string, string) {
		// AL.Props.C08Json: the model reads the JSON text of a literal as written (keywords in lower case only)
		if a, b := semaCodes(cs.Impl, "broken-json"), semaCodes(cs.Model, "broken-json"); a != b {
			return "json-literal-not-read-as-written", "whether the string literal passed to fromJSON is well-formed JSON is decided differently from the JSON syntax (the contents of string literals are case-sensitive): implementation [" + a + "], JSON reader [" + b + "]"
		}
		return "", ""
	}); err != nil {
		return err
	}
	// workflow level: ids, keys and context names of the generated workflows are written in random letter case; the model
	// AL.Visit folds all of them (check_case_insensitive, steps_ids, needs_exact)
	nV := 200
	if !c.quick {
		nV = 4000
	}
	if err := visitTie(c, r, nV, false, nil); err != nil {
		return err
	}
	// AL.Props.C08Parse: in the model of the parser every map of the AST whose names are case-insensitive (jobs, inputs,
	// secrets, outputs, with, env, matrix rows and nested matrix mappings, services, permissions) is keyed by the
	// lower-cased name. A differing AST on some source is the parser departing from that (all keys of the mutants are
	// re-spelled, repeated in another letter case, …).
	per := 4
	if !c.quick {
		per = 200
	}
	return pwStandard(c, r, "ast", per, true)
}

type relErr struct{}

const c08ProjectTemplate = `on: push
jobs:
  «a»:
    uses: ./.github/workflows/ok1.yml
    with:
      «name»: x
      «num»: notanumber
      «flag»: ${{ 'str' }}
      «b_ool»: 12
      «anything»: ${{ «vars».«my_var» }}
      «nosuch»: 1
    secrets:
      «tok»: ${{ «secrets».x }}
      «opt»: y
      «unknown»: y
  «a2»:
    uses: ./.github/workflows/ok1.yml
    with:
      «num»: 1
  «b»:
    needs: [«a»]
    runs-on: ubuntu-latest
    steps:
      - id: «st»
        uses: ./act/ok
        with:
          «name»: n
          «opt»: o
          «bogus»: 1
      - uses: ./act/ok
        with:
          «second_req»: x
      - run: echo ${{ «needs».«a».«outputs».«out1» }} ${{ «needs».«a».«outputs».«out2» }} ${{ «needs».«a».«outputs».nooutput }}
      - run: echo ${{ «steps».«st».«outputs».«out1» }} ${{ «steps».«st».«outputs».«out2» }} ${{ «steps».«st».«outputs».nores }}
      - run: echo ${{ «vars».«my_var» }} ${{ «vars».undefined_var }}
`

func c08Project(c *ctx, r *Report, rng *rand.Rand, nVariants int) error {
	env, err := newPjEnv()
	if err != nil {
		return err
	}
	defer env.close()
	os.WriteFile(filepath.Join(env.root, ".github", "actionlint.yaml"), []byte("config-variables:\n  - MY_VAR\n  - other\n"), 0o644)
	p := filepath.Join(env.wf, "caller.yml")
	canon := func(src string) (string, int, error) {
		os.WriteFile(p, []byte(src), 0o644)
		l, err := actionlint.NewLinter(nopWriter{}, &actionlint.LinterOptions{Shellcheck: "", Pyflakes: ""})
		if err != nil {
			return "", 0, err
		}
		errs, err := l.LintFile(p, nil)
		if err != nil {
			return "", 0, err
		}
		var sb strings.Builder
		for _, e := range errs {
			fmt.Fprintf(&sb, "%d:%d [%s] %s\n", e.Line, e.Column, e.Kind, strings.ToLower(e.Message))
		}
		return sb.String(), len(errs), nil
	}
	base, nOcc := renderCase(c08ProjectTemplate, rng, 0)
	want, n0, err := canon(base)
	if err != nil {
		return err
	}
	r.Notes = append(r.Notes, fmt.Sprintf("project template: %d marked name occurrences, %d diagnostics as written", nOcc, n0))
	if n0 < 10 {
		r.finding("project-template-quiet", fmt.Sprintf("the project template yields only %d diagnostics as written: the scratch project is not picked up", n0), Case{Op: "lint-recased-project", Input: map[string]string{"as_written": base}, Impl: want})
	}
	for v := 0; v < nVariants; v++ {
		src, _ := renderCase(c08ProjectTemplate, rng, 1)
		got, _, err := canon(src)
		r.Evaluations++
		if err != nil {
			r.Crashes = append(r.Crashes, Case{Op: "lint-recased-project", Input: map[string]string{"yaml": src}, Note: err.Error()})
			continue
		}
		r.nontrivial(src)
		r.hist("project-recased")
		if got != want {
			gl, wl := strings.Split(got, "\n"), strings.Split(want, "\n")
			diff := ""
			for i := 0; i < len(gl) || i < len(wl); i++ {
				a, b := "", ""
				if i < len(gl) {
					a = gl[i]
				}
				if i < len(wl) {
					b = wl[i]
				}
				if a != b {
					diff = fmt.Sprintf("re-cased: %q / as written: %q", a, b)
					break
				}
			}
			r.finding("recase-changes-diagnostics", "changing only the letter case of names that a local reusable workflow / local action / the configuration declares changes the diagnostics: "+diff,
				Case{Op: "lint-recased-project", Input: map[string]string{"as_written": base, "recased": src}, Impl: got, Model: want})
		}
	}
	return nil
}
