package main

import (
	"fmt"
	"math/rand"
	"sort"
	"strings"

	"github.com/rhysd/actionlint"
)

func init() { props["C06"] = runC06 }

var tyKeys = []string{"a", "b", "c", "id", "name", "outputs", "result", "x-y"}

func genTy(rng *rand.Rand, depth int) actionlint.ExprType {
	k := rng.Intn(12)
	if depth <= 0 && k >= 5 {
		k = rng.Intn(5)
	}
	switch k {
	case 0:
		return actionlint.AnyType{}
	case 1:
		return actionlint.NullType{}
	case 2:
		return actionlint.NumberType{}
	case 3:
		return actionlint.BoolType{}
	case 4:
		return actionlint.StringType{}
	case 5, 6:
		return &actionlint.ArrayType{Elem: genTy(rng, depth-1)}
	case 7:
		return actionlint.NewMapObjectType(genTy(rng, depth-1))
	default:
		return genObj(rng, depth, k == 8)
	}
}

func genObj(rng *rand.Rand, depth int, loose bool) *actionlint.ObjectType {
	props := map[string]actionlint.ExprType{}
	n := rng.Intn(4) // 0 = the empty strict / the empty open object
	for i := 0; i < n; i++ {
		props[tyKeys[rng.Intn(len(tyKeys))]] = genTy(rng, depth-1)
	}
	if loose {
		return actionlint.NewObjectType(props)
	}
	return actionlint.NewStrictObjectType(props)
}

func genEnv(rng *rand.Rand) *semaEnv {
	e := &semaEnv{vars: map[string]actionlint.ExprType{}, availCtx: allContexts, availSpecial: allSpecial}
	for _, v := range []string{"matrix", "steps", "needs", "inputs", "jobs", "secrets"} {
		if rng.Intn(3) != 0 {
			o := genObj(rng, 3, v != "secrets" && rng.Intn(5) == 0)
			if v == "secrets" {
				for k := range o.Props {
					o.Props[k] = actionlint.StringType{}
				}
			}
			e.vars[v] = o
		}
	}
	return e
}

// typeAt walks a chain to produce, mostly, accesses that exist.
func genChain(rng *rand.Rand, env *semaEnv) string {
	ctxs := []string{"github", "env", "job", "runner", "strategy", "vars", "secrets", "matrix", "steps", "needs", "inputs", "jobs"}
	ctx := ctxs[rng.Intn(len(ctxs))]
	var t actionlint.ExprType
	if v, ok := env.vars[ctx]; ok {
		t = v
	} else {
		t = actionlint.BuiltinGlobalVariableTypes[ctx]
	}
	s := ctx
	if rng.Intn(5) == 0 {
		s = strings.ToUpper(ctx)
	}
	for d := 0; d < 4; d++ {
		if rng.Intn(4) == 0 {
			break
		}
		switch tt := t.(type) {
		case *actionlint.ObjectType:
			keys := make([]string, 0, len(tt.Props))
			for k := range tt.Props {
				keys = append(keys, k)
			}
			sort.Strings(keys)
			name := tyKeys[rng.Intn(len(tyKeys))]
			if len(keys) > 0 && rng.Intn(6) != 0 {
				name = keys[rng.Intn(len(keys))]
			}
			next, ok := tt.Props[name]
			if !ok {
				if tt.Mapped != nil {
					next = tt.Mapped
				} else {
					next = actionlint.AnyType{}
				}
			}
			switch rng.Intn(8) {
			case 0:
				s += "['" + name + "']"
			case 1:
				s += "." + strings.ToUpper(name)
			case 2:
				s += ".*"
				next = actionlint.AnyType{}
			default:
				s += "." + name
			}
			t = next
		case *actionlint.ArrayType:
			switch rng.Intn(4) {
			case 0:
				s += ".*"
			case 1:
				s += "[" + genChain(rng, env) + "]"
				t = tt.Elem
			default:
				s += "[0]"
				t = tt.Elem
			}
		default:
			if rng.Intn(3) == 0 {
				s += "." + tyKeys[rng.Intn(len(tyKeys))]
			}
			return s
		}
	}
	return s
}

func genSemaExpr(rng *rand.Rand, env *semaEnv, depth int) string {
	if depth <= 0 || rng.Intn(3) == 0 {
		switch rng.Intn(8) {
		case 0:
			return []string{"1", "0x10", "1.5", "-3"}[rng.Intn(4)]
		case 1:
			return []string{"'a'", "''", "'{0} {1}'", "'[1, 2]'", "'{\"A\": {\"b\": 1}, \"c\": [true]}'", "'{0'", "'x{0}{0}{3}'",
				"'[TRUE]'", "'{\"a\": Null}'", "'FALSE'", "'{\"A\": tRue}'", "'[1, 2'", "'{\"a\": 1,}'", "'nUll'", "'\"TRUE\"'"}[rng.Intn(15)]
		case 2:
			return []string{"true", "false", "null"}[rng.Intn(3)]
		default:
			return genChain(rng, env)
		}
	}
	sub := func() string { return genSemaExpr(rng, env, depth-1) }
	switch rng.Intn(17) {
	case 14:
		return "(" + sub() + " || " + sub() + ")"
	case 15:
		return "(" + sub() + " && " + sub() + ")"
	case 16:
		return "!(" + sub() + []string{" || ", " && "}[rng.Intn(2)] + sub() + ")"
	case 0:
		return "!" + sub()
	case 1:
		return "(" + sub() + ")"
	case 2:
		return sub() + " " + []string{"==", "!=", "<", "<=", ">", ">="}[rng.Intn(6)] + " " + sub()
	case 3:
		return sub() + " && " + sub()
	case 4:
		return sub() + " || " + sub()
	case 5:
		return "contains(" + sub() + ", " + sub() + ")"
	case 6:
		return []string{"startsWith", "endsWith", "STARTSWITH"}[rng.Intn(3)] + "(" + sub() + ", " + sub() + ")"
	case 7:
		n := rng.Intn(4)
		args := []string{[]string{"'{0} {1}'", "'{0}'", "'{{0}} {1} {2}'", "'no'", sub()}[rng.Intn(5)]}
		for i := 0; i < n; i++ {
			args = append(args, sub())
		}
		return "format(" + strings.Join(args, ", ") + ")"
	case 8:
		if rng.Intn(2) == 0 {
			return "join(" + sub() + ", ',')"
		}
		return "join(" + sub() + ")"
	case 9:
		return "toJSON(" + sub() + ")"
	case 10:
		return "fromJSON(" + sub() + ")" + []string{"", ".a", ".A", "[0]", ".c.*"}[rng.Intn(5)]
	case 11:
		return []string{"success()", "always()", "failure()", "cancelled()", "hashFiles('a', 'b')", "hashFiles()", "unknownFn(" + sub() + ")", "success(1)"}[rng.Intn(8)]
	case 12:
		return sub() + "[" + sub() + "]"
	default:
		return sub() + "." + tyKeys[rng.Intn(len(tyKeys))]
	}
}

// loosenings enumerates every single-step loosening of t: one occurrence replaced by any, or one strict
// object opened.
func loosenings(t actionlint.ExprType) []actionlint.ExprType {
	var out []actionlint.ExprType
	if _, isAny := t.(actionlint.AnyType); !isAny {
		out = append(out, actionlint.AnyType{})
	}
	switch tt := t.(type) {
	case *actionlint.ArrayType:
		for _, e := range loosenings(tt.Elem) {
			out = append(out, &actionlint.ArrayType{Elem: e, Deref: tt.Deref})
		}
	case *actionlint.ObjectType:
		cp := func() *actionlint.ObjectType {
			p := map[string]actionlint.ExprType{}
			for k, v := range tt.Props {
				p[k] = v
			}
			return &actionlint.ObjectType{Props: p, Mapped: tt.Mapped}
		}
		if tt.Mapped == nil {
			o := cp()
			o.Mapped = actionlint.AnyType{}
			out = append(out, o)
		} else {
			for _, m := range loosenings(tt.Mapped) {
				o := cp()
				o.Mapped = m
				out = append(out, o)
			}
		}
		keys := make([]string, 0, len(tt.Props))
		for k := range tt.Props {
			keys = append(keys, k)
		}
		sort.Strings(keys)
		for _, k := range keys {
			for _, l := range loosenings(tt.Props[k]) {
				o := cp()
				o.Props[k] = l
				out = append(out, o)
			}
		}
	}
	return out
}

func runC06(c *ctx, r *Report) error {
	n := 6000
	if !c.quick {
		n = 150000
	}
	r.Rule = fmt.Sprintf("%d random (typing environment, expression) pairs: environments give matrix/steps/needs/inputs/jobs/secrets random object types (depth ≤ 3, strict / loose / map objects, arrays), expressions are drawn type-directed (access chains that mostly exist, all operators, all built-in functions incl. format/fromJSON specials); each pair is checked by the real ExprSemanticsChecker and by the model (type string, diagnostics with arguments, untrusted reports), then re-checked by the real checker under EVERY single-step loosening of the environment (one type occurrence → any, or one strict object opened); non-trivial = distinct pairs whose expression is accepted under the original environment and contains at least one context access", n)
	rng := rand.New(rand.NewSource(c.seed))
	var b batch
	accepted, loosened := 0, 0
	for i := 0; i < n; i++ {
		env := genEnv(rng)
		src := genSemaExpr(rng, env, 1+rng.Intn(4)) + " }}"
		mk := func(note string) Case {
			return Case{Op: "sema", Input: map[string]string{"env": env.encode(), "expr": src}, Note: note}
		}
		var res *semaResult
		pmsg, to := guarded(10e9, func() { res = runSema(env, src, true) })
		r.Evaluations++
		if pmsg != "" || to {
			r.Crashes = append(r.Crashes, mk(pmsg))
			continue
		}
		if res.syntaxErr {
			r.hist("syntax-error")
			continue
		}
		if res.bad {
			cs := mk("message matches no known template")
			cs.Impl = res.canon
			r.disagree(cs)
		}
		b.add("sema "+env.encode()+" "+hx(src), res.canon, mk(""))
		for _, e := range res.errCodes {
			r.hist("diag:" + strings.SplitN(e, "(", 2)[0])
		}
		if len(res.errs) > 0 {
			r.hist("rejected")
			continue
		}
		r.hist("accepted")
		accepted++
		if strings.ContainsAny(src, ".[") {
			r.nontrivial(env.encode() + src)
		}
		if i < 2 {
			r.sample(map[string]string{"env": env.encode(), "expr": src, "impl": res.canon})
		}
		// metamorphic: every single-step loosening keeps the expression accepted
		keys := make([]string, 0, len(env.vars))
		for k := range env.vars {
			keys = append(keys, k)
		}
		sort.Strings(keys)
		for _, k := range keys {
			if k == "secrets" {
				continue // UpdateSecrets rebuilds a strict string map; nothing to loosen
			}
			for _, l := range loosenings(env.vars[k]) {
				lo, ok := l.(*actionlint.ObjectType)
				if !ok {
					continue // the context itself stays an object
				}
				env2 := &semaEnv{vars: map[string]actionlint.ExprType{}, availCtx: env.availCtx, availSpecial: env.availSpecial}
				for k2, v2 := range env.vars {
					env2.vars[k2] = v2
				}
				env2.vars[k] = lo
				res2 := runSema(env2, src, true)
				r.Evaluations++
				loosened++
				if len(res2.errCodes) > 0 {
					r.finding("loosening-introduces-diagnostic", "an expression accepted under Γ is rejected under a looser Γ'",
						Case{Op: "sema loosen", Input: map[string]string{"env": env.encode(), "looser_env": env2.encode(), "expr": src}, Note: strings.Join(res2.errCodes, "|")})
				}
			}
		}
	}
	r.Notes = append(r.Notes, fmt.Sprintf("accepted premises: %d of %d pairs (%.0f%%); loosened re-checks: %d", accepted, n, 100*float64(accepted)/float64(n), loosened))
	if _, err := b.flush(c, r); err != nil {
		return err
	}
	// directed: every ordered pair of object / array types of the depth ≤ 1 universe as `matrix.l`, `matrix.r`, combined
	// by || and && and then dereferenced; every single-step loosening of either side keeps an accepted expression accepted
	{
		u := typeUniverse()
		if len(u) > 37 {
			u = u[:37]
		}
		var bx batch
		bx.judge = func(cs Case) (string, string) {
			if semaCodes(cs.Model, "prop-undefined", "filter-prop-undefined", "deref-not-object", "filter-not-object", "index-bad-operand", "filter-elems-not-object", "filter-no-object-elem", "filter-bad-receiver", "bad-compare") == "" {
				return "loosening-introduces-diagnostic", "an expression accepted under Γ is rejected under Γ' where one object is left open (knowing fewer properties); the proved model accepts it under Γ'"
			}
			return "", ""
		}
		exprs := []string{"(matrix.l || matrix.r).a", "(matrix.l || matrix.r).b", "(matrix.l || matrix.r).zz", "(matrix.l && matrix.r).a", "(matrix.l && matrix.r).zz",
			"(matrix.l || matrix.r).a.b", "(matrix.l || matrix.r)[0]", "(matrix.l && matrix.r).*", "(matrix.l || matrix.r).*.a", "matrix.l == matrix.r", "(matrix.r || matrix.l).zz"}
		directed := 0
		for _, t1 := range u {
			for _, t2 := range u {
				mkEnv := func(a, b actionlint.ExprType) *semaEnv {
					return &semaEnv{vars: map[string]actionlint.ExprType{"matrix": actionlint.NewStrictObjectType(map[string]actionlint.ExprType{"l": a, "r": b})}, availCtx: allContexts, availSpecial: allSpecial}
				}
				env := mkEnv(t1, t2)
				for _, e := range exprs {
					res := runSema(env, e+" }}", false)
					r.Evaluations++
					if res.syntaxErr || len(res.errCodes) > 0 {
						continue
					}
					var envs []*semaEnv
					for _, l := range loosenings(t1) {
						envs = append(envs, mkEnv(l, t2))
					}
					for _, l := range loosenings(t2) {
						envs = append(envs, mkEnv(t1, l))
					}
					nLiteral := len(envs)
					// wider reading of "an object is left open": the open object also knows fewer properties (the outputs
					// of actions/github-script vs. declared outputs). Only used to turn a broken tie into a failing input:
					// reported where the implementation rejects and the proved model, on the same input, accepts.
					if o, ok := t1.(*actionlint.ObjectType); ok && o.Mapped == nil && len(o.Props) > 0 {
						envs = append(envs, mkEnv(actionlint.NewEmptyObjectType(), t2))
					}
					if o, ok := t2.(*actionlint.ObjectType); ok && o.Mapped == nil && len(o.Props) > 0 {
						envs = append(envs, mkEnv(t1, actionlint.NewEmptyObjectType()))
					}
					for ei, env2 := range envs {
						res2 := runSema(env2, e+" }}", false)
						r.Evaluations++
						directed++
						if len(res2.errCodes) == 0 {
							continue
						}
						cs := Case{Op: "sema loosen", Input: map[string]string{"env": env.encode(), "looser_env": env2.encode(), "expr": e}, Note: strings.Join(res2.errCodes, "|")}
						if ei < nLiteral {
							r.finding("loosening-introduces-diagnostic", "an expression accepted under Γ is rejected under a looser Γ'", cs)
						} else {
							bx.add("sema "+env2.encode()+" "+hx(e+" }}"), res2.canon, cs)
						}
					}
				}
			}
		}
		if _, err := bx.flush(c, r); err != nil {
			return err
		}
		r.hist(fmt.Sprintf("directed-loosenings:%d", directed))
		r.Rule += "; directed: all ordered pairs of the 37 types of depth ≤ 1 as matrix.l / matrix.r under 11 expressions that merge and then dereference them, re-checked under every single-step loosening of either side"
	}
	return tyOpsTie(c, r, nil)
}
