package main

import (
	"fmt"
	"math/rand"
	"regexp"
	"sort"
	"strconv"
	"strings"
	"time"
	"unicode"

	"github.com/rhysd/actionlint"
	"github.com/robfig/cron/v3"
)

// Tie of AL.Cron (rule_events.go checkCron = guard + robfig/cron Parser.Parse + SpecSchedule.Next + the 5-minute rule):
// generated CRON specs go through the real parser and the real Next arithmetic in-process (the statements of checkCron,
// one by one), through the whole linter on a one-event workflow (every spec: both must tell the same story), and through
// the model (op `cron`, and op `cron raw` for Parser.Parse without the guard, panics included).
//
// Canonical text (what Driver/Cron.lean prints):
//   guard | error <class> <args…> | ok <6 masks> <gap ns> | ok-frequent <6 masks> <gap ns> | zone <6 masks>
//   raw: panic | error <class> <args…> | parsed <6 masks>

var cronMonthNames = []string{"jan", "feb", "mar", "apr", "may", "jun", "jul", "aug", "sep", "oct", "nov", "dec"}
var cronDowNames = []string{"sun", "mon", "tue", "wed", "thu", "fri", "sat"}

type cronBounds struct {
	min, max int
	names    []string
}

var cronFieldBounds = []cronBounds{{0, 59, nil}, {0, 23, nil}, {1, 31, nil}, {1, 12, cronMonthNames}, {0, 6, cronDowNames}}

func cronOddCase(rng *rand.Rand, s string) string {
	b := []rune(s)
	for i := range b {
		if rng.Intn(2) == 0 {
			b[i] = unicode.ToUpper(b[i])
		}
	}
	return string(b)
}

func cronValue(rng *rand.Rand, bd cronBounds, v int) string {
	if bd.names != nil && rng.Intn(3) == 0 {
		return cronOddCase(rng, bd.names[v-bd.min])
	}
	switch rng.Intn(12) {
	case 0:
		return fmt.Sprintf("%02d", v)
	case 1:
		return "+" + strconv.Itoa(v)
	}
	return strconv.Itoa(v)
}

// cronRange is one well-formed range expression for the bounds.
func cronRange(rng *rand.Rand, bd cronBounds) string {
	n := bd.max - bd.min + 1
	var base string
	switch rng.Intn(8) {
	case 0, 1:
		base = "*"
	case 2:
		if rng.Intn(4) == 0 {
			base = "?"
		} else {
			base = "*"
		}
	case 3, 4, 5:
		base = cronValue(rng, bd, bd.min+rng.Intn(n))
	default:
		a := bd.min + rng.Intn(n)
		b := a + rng.Intn(bd.max-a+1)
		base = cronValue(rng, bd, a) + "-" + cronValue(rng, bd, b)
	}
	if rng.Intn(3) == 0 {
		steps := []int{1, 2, 3, 4, 5, 6, 7, 10, 15, 20, 30, n - 1, n, n + 1, 100}
		st := steps[rng.Intn(len(steps))]
		if st < 1 {
			st = 1
		}
		base += "/" + strconv.Itoa(st)
	}
	return base
}

func cronField(rng *rand.Rand, bd cronBounds) string {
	k := 1
	if rng.Intn(4) == 0 {
		k = 2 + rng.Intn(3)
	}
	parts := make([]string, k)
	for i := range parts {
		parts[i] = cronRange(rng, bd)
	}
	return strings.Join(parts, ",")
}

// cronMinuteField favours the shapes that decide the frequency rule.
func cronMinuteField(rng *rand.Rand) string {
	switch rng.Intn(10) {
	case 0:
		return "*"
	case 1:
		return "*/" + strconv.Itoa(1+rng.Intn(61))
	case 2:
		a := rng.Intn(60)
		return fmt.Sprintf("%d,%d", a, (a+1+rng.Intn(8))%60)
	case 3:
		a := rng.Intn(56)
		return fmt.Sprintf("%d-%d", a, a+rng.Intn(60-a))
	case 4:
		a := rng.Intn(50)
		return fmt.Sprintf("%d-%d/%d", a, a+rng.Intn(60-a), 1+rng.Intn(9))
	case 5:
		return strconv.Itoa(rng.Intn(60))
	case 6:
		return fmt.Sprintf("%d/%d", rng.Intn(60), 1+rng.Intn(12))
	}
	return cronField(rng, cronFieldBounds[0])
}

var cronBlanks = []string{" ", " ", " ", " ", "  ", "\t", " \t ", "   "}

func cronValid(rng *rand.Rand) string {
	fs := make([]string, 5)
	fs[0] = cronMinuteField(rng)
	for i := 1; i < 5; i++ {
		switch {
		case i >= 2 && rng.Intn(3) > 0:
			fs[i] = "*"
		case i == 1 && rng.Intn(3) == 0:
			fs[i] = "*"
		default:
			fs[i] = cronField(rng, cronFieldBounds[i])
		}
	}
	// the rare dates: 29th of February, the 31st of a short month, day-of-month together with day-of-week
	switch rng.Intn(40) {
	case 0:
		fs[2], fs[3] = "29", "2"
	case 1:
		fs[2], fs[3] = "31", []string{"2", "4", "6", "9", "11", "FEB", "4,6", "2,4,6,9,11"}[rng.Intn(8)]
	case 2:
		fs[2], fs[3], fs[4] = "30,31", "2", "*"
	case 3:
		fs[2], fs[4] = strconv.Itoa(1+rng.Intn(31)), strconv.Itoa(rng.Intn(7))
	case 4:
		fs[2], fs[3], fs[4] = "29", "2", []string{"0", "1", "MON-FRI", "*/2", "?", "6"}[rng.Intn(6)]
	}
	var b strings.Builder
	if rng.Intn(12) == 0 {
		b.WriteString(cronBlanks[rng.Intn(len(cronBlanks))])
	}
	for i, f := range fs {
		if i > 0 {
			b.WriteString(cronBlanks[rng.Intn(len(cronBlanks))])
		}
		b.WriteString(f)
	}
	if rng.Intn(12) == 0 {
		b.WriteString(cronBlanks[rng.Intn(len(cronBlanks))])
	}
	return b.String()
}

var cronZones = []string{"UTC", "UTC", "", "Local", "Asia/Tokyo", "America/New_York", "Etc/UTC", "Nowhere/Land", "utc", "../UTC", "/UTC", "Europe/Berlin", "UTC\t", "\u00a0"}

func cronWithZone(rng *rand.Rand, s string) string {
	pre := "TZ="
	if rng.Intn(2) == 0 {
		pre = "CRON_TZ="
	}
	if rng.Intn(12) == 0 {
		pre = []string{"tz=", "TZ =", "CRON_TZ", "TZ", " TZ=", "CRON-TZ=", "TZ=TZ="}[rng.Intn(7)]
	}
	sep := " "
	switch rng.Intn(10) {
	case 0:
		sep = "  "
	case 1:
		sep = "\t"
	case 2:
		sep = ""
	case 3:
		sep = " \t"
	}
	return pre + cronZones[rng.Intn(len(cronZones))] + sep + s
}

var cronBadPieces = []string{
	"60", "24", "32", "13", "7", "0", "-1", "--", "-", "/", "//", "*/0", "*/-1", "*/x", "1/", "/2", "1-2-3", "1/2/3", "5-1", "*-5", "?-5/2",
	"*-x", "?/3", "*/1", "*,", ",", ",,", "1,,2", "a", "JANUARY", "ja", "Mon", "mOn-fRi", "SUN-SAT", "sat-sun", "DEC-JAN", "jan-dec/3",
	"+5", "-0", "1/-0", "1/+3", "+", "0x1", "1_0", "1e1", "١", "５", "1.", " ", "\u00a0", "\u2003", "\u0085", "\u200b", "FR\u0130", "\u212a", "MO\u0274",
	"9223372036854775807", "9223372036854775808", "18446744073709551615", "18446744073709551616", "99999999999999999999x", "1/9223372036854775807",
	"1/9223372036854775808", "0000000000000000000000000000005", "*/60", "*/61", "0/61", "59/2", "L", "1W", "5#2", "H", "@", "@daily", "*/5,", "1-", "-5", "1-/2",
	"é", "😀", "\"", "'", "\\", "\n", "\r", "\x00", "%", "%d", "${{ x }}",
}

var cronDescriptors = []string{"@yearly", "@annually", "@monthly", "@weekly", "@daily", "@midnight", "@hourly", "@every 1h30m", "@every 5m", "@every", "@every x",
	"@reboot", "@", "@Daily", " @daily", "@daily ", "@daily * * * *", "@ * * * *", "* * * * @daily"}

func cronMalformed(rng *rand.Rand) string {
	switch rng.Intn(14) {
	case 0: // wrong field count
		fs := strings.Fields(cronValid(rng))
		switch rng.Intn(4) {
		case 0:
			fs = fs[:rng.Intn(5)]
		case 1:
			fs = append(fs, cronField(rng, cronFieldBounds[rng.Intn(5)]))
		case 2:
			fs = append(fs, fs...)
		default:
			k := rng.Intn(len(fs))
			fs = append(fs[:k], fs[k+1:]...)
		}
		return strings.Join(fs, cronBlanks[rng.Intn(len(cronBlanks))])
	case 1, 2, 3, 4: // one bad piece in one field
		fs := strings.Fields(cronValid(rng))
		k := rng.Intn(len(fs))
		p := cronBadPieces[rng.Intn(len(cronBadPieces))]
		switch rng.Intn(4) {
		case 0:
			fs[k] = p
		case 1:
			fs[k] = fs[k] + "," + p
		case 2:
			fs[k] = p + "," + fs[k]
		default:
			fs[k] = fs[k] + p
		}
		return strings.Join(fs, " ")
	case 5: // out-of-range number
		fs := strings.Fields(cronValid(rng))
		k := rng.Intn(len(fs))
		bd := cronFieldBounds[k]
		v := []int{bd.max + 1, bd.max + 2, bd.min - 1, 100, 1000, 63, 64, 65}[rng.Intn(8)]
		switch rng.Intn(4) {
		case 0:
			fs[k] = strconv.Itoa(v)
		case 1:
			fs[k] = fmt.Sprintf("%d-%d", bd.min, v)
		case 2:
			fs[k] = fmt.Sprintf("%d-%d", v, bd.max)
		default:
			fs[k] = fmt.Sprintf("%d/%d", v, 1+rng.Intn(3))
		}
		return strings.Join(fs, " ")
	case 6: // names in the wrong field, odd case
		fs := strings.Fields(cronValid(rng))
		k := rng.Intn(len(fs))
		all := append(append([]string{}, cronMonthNames...), cronDowNames...)
		fs[k] = cronOddCase(rng, all[rng.Intn(len(all))])
		if rng.Intn(2) == 0 {
			fs[k] += "-" + cronOddCase(rng, all[rng.Intn(len(all))])
		}
		return strings.Join(fs, " ")
	case 7:
		return cronDescriptors[rng.Intn(len(cronDescriptors))]
	case 8: // zone prefixes, with and without something behind
		switch rng.Intn(5) {
		case 0:
			return cronWithZone(rng, "")
		case 1:
			return strings.TrimRight(cronWithZone(rng, ""), " \t")
		case 2:
			return cronWithZone(rng, cronDescriptors[rng.Intn(len(cronDescriptors))])
		}
		return cronWithZone(rng, cronMalformed(rng))
	case 9: // blanks of all kinds
		fs := strings.Fields(cronValid(rng))
		seps := []string{"\u00a0", "\u2003", "\u0085", "\n", "\r\n", "\v", "\f", "\u3000", "\u200b", "\u1680", "\u2028", "\u205f", "\ufeff", "\u180e"}
		sep := seps[rng.Intn(len(seps))]
		s := strings.Join(fs, sep)
		if rng.Intn(3) == 0 {
			s = sep + s + sep
		}
		return s
	case 10:
		fixed := []string{"", " ", "  ", "\t", "\n", "\u00a0", "*", "* *", "* * * *", "* * * * * *", "*****", "* * * * *\x00", "\x00", "0 0 0 0 0", "? ? ? ? ?",
			"59 23 31 12 6", "0 0 1 1 0", "60 24 32 13 7", "TZ=", "CRON_TZ=", "TZ=UTC", "TZ= ", "TZ=  ", "CRON_TZ= * * * * *", "TZ=UTC  * * * * *",
			"TZ=UTC CRON_TZ=UTC * * * * *", "TZ=UTC TZ=UTC", "TZ=UTC @daily", "TZ=UTC\t* * * * *", "TZ=UTC\t* * * * * ", "TZ=\u00a0* * * * *", "TZ=UTC\u00a0* * * * * x",
			", * * * *", "* , * * *", "* * , * *", "* * * , *", "* * * * ,", "0 0 31 2 *", "0 0 30 2 *", "0 0 29 2 *", "0 0 31 4,6,9,11 *", "0 0 31 2 1", "0 0 29 2 1",
			"*/5 * * * *", "*/4 * * * *", "*/7 * * * *", "0,4 * * * *", "0,5 * * * *", "58,2 * * * *", "59,0 * * * *", "0 * * * *", "* 0 1 1 *", "0-4 0 1 1 *"}
		return fixed[rng.Intn(len(fixed))]
	case 11: // random characters of the alphabet
		alpha := []rune("0123456789*?/-, \tJANjanMONmon+@=TZ_")
		n := rng.Intn(20)
		b := make([]rune, n)
		for i := range b {
			b[i] = alpha[rng.Intn(len(alpha))]
		}
		return string(b)
	case 12: // byte-level mutation of a valid spec
		s := []byte(cronValid(rng))
		for k := 1 + rng.Intn(2); k > 0 && len(s) > 0; k-- {
			i := rng.Intn(len(s))
			switch rng.Intn(3) {
			case 0:
				s = append(s[:i], s[i+1:]...)
			case 1:
				s[i] = "0123456789*?/-, ,"[rng.Intn(17)]
			default:
				s = append(s[:i], append([]byte{"0123456789*?/-, ,"[rng.Intn(17)]}, s[i:]...)...)
			}
		}
		return string(s)
	}
	// bad step
	fs := strings.Fields(cronValid(rng))
	k := rng.Intn(len(fs))
	fs[k] = []string{"*", "1", "1-2", "?"}[rng.Intn(4)] + "/" + []string{"0", "00", "-1", "-0", "+0", "x", "", "1/1", "9223372036854775808", "0.5", " 1"}[rng.Intn(11)]
	return strings.Join(fs, " ")
}

var cronErrRes = []struct {
	re  *regexp.Regexp
	fmt func(m []string) string
}{
	{regexp.MustCompile(`(?s)^empty spec string$`), func(m []string) string { return "empty" }},
	{regexp.MustCompile(`(?s)^parser does not accept descriptors: (.*)$`), func(m []string) string { return "nodesc " + hx(m[1]) }},
	{regexp.MustCompile(`(?s)^multiple optionals may not be configured$`), func(m []string) string { return "multiple-optionals" }},
	{regexp.MustCompile(`(?s)^expected exactly (\d+) fields, found (\d+): (.*)$`), func(m []string) string { return "fields " + m[1] + " " + m[2] + " " + hx(m[3]) }},
	{regexp.MustCompile(`(?s)^expected (\d+) to (\d+) fields, found (\d+): (.*)$`), func(m []string) string {
		return "fields-range " + m[1] + " " + m[2] + " " + m[3] + " " + hx(m[4])
	}},
	{regexp.MustCompile(`(?s)^unknown optional field$`), func(m []string) string { return "unknown-optional" }},
	{regexp.MustCompile(`(?s)^too many hyphens: (.*)$`), func(m []string) string { return "hyphens " + hx(m[1]) }},
	{regexp.MustCompile(`(?s)^too many slashes: (.*)$`), func(m []string) string { return "slashes " + hx(m[1]) }},
	{regexp.MustCompile(`(?s)^beginning of range \((\d+)\) below minimum \((\d+)\): (.*)$`), func(m []string) string { return "belowmin " + m[1] + " " + m[2] + " " + hx(m[3]) }},
	{regexp.MustCompile(`(?s)^end of range \((\d+)\) above maximum \((\d+)\): (.*)$`), func(m []string) string { return "abovemax " + m[1] + " " + m[2] + " " + hx(m[3]) }},
	{regexp.MustCompile(`(?s)^beginning of range \((\d+)\) beyond end of range \((\d+)\): (.*)$`), func(m []string) string { return "beyond " + m[1] + " " + m[2] + " " + hx(m[3]) }},
	{regexp.MustCompile(`(?s)^step of range should be a positive number: (.*)$`), func(m []string) string { return "zerostep " + hx(m[1]) }},
	{regexp.MustCompile(`(?s)^failed to parse int from (.*): strconv\.Atoi: parsing .*: invalid syntax$`), func(m []string) string { return "parseint syntax " + hx(m[1]) }},
	{regexp.MustCompile(`(?s)^failed to parse int from (.*): strconv\.Atoi: parsing .*: value out of range$`), func(m []string) string { return "parseint range " + hx(m[1]) }},
	{regexp.MustCompile(`(?s)^negative number \((-\d+)\) not allowed: (.*)$`), func(m []string) string { return "negative " + m[1] + " " + hx(m[2]) }},
	{regexp.MustCompile(`(?s)^failed to parse duration (.*): .*$`), func(m []string) string { return "badduration " + hx(m[1]) }},
	{regexp.MustCompile(`(?s)^unrecognized descriptor: (.*)$`), func(m []string) string { return "unrecognized " + hx(m[1]) }},
}

// cronZoneOf is the zone name the parser cuts out of the spec (only meaningful when there is a prefix and a blank).
func cronZoneOf(spec string) (string, bool) {
	if !(strings.HasPrefix(spec, "TZ=") || strings.HasPrefix(spec, "CRON_TZ=")) {
		return "", false
	}
	i := strings.Index(spec, " ")
	eq := strings.Index(spec, "=")
	if i < eq+1 {
		return "", false
	}
	return spec[eq+1 : i], true
}

func cronErrClass(spec string, err error) string {
	msg := err.Error()
	if strings.HasPrefix(msg, "provided bad location ") {
		if z, ok := cronZoneOf(spec); ok && strings.HasPrefix(msg, "provided bad location "+z+": ") {
			return "badloc " + hx(z)
		}
		return "badloc ?"
	}
	for _, e := range cronErrRes {
		if m := e.re.FindStringSubmatch(msg); m != nil {
			return e.fmt(m)
		}
	}
	return "unclassified " + hx(msg)
}

func cronMasks(s *cron.SpecSchedule) string {
	return fmt.Sprintf("%d %d %d %d %d %d", s.Second, s.Minute, s.Hour, s.Dom, s.Month, s.Dow)
}

// cronRaw is Parser.Parse alone, without checkCron's guard.
func cronRaw(spec string) (out string) {
	defer func() {
		if x := recover(); x != nil {
			out = "panic"
		}
	}()
	p := cron.NewParser(cron.Minute | cron.Hour | cron.Dom | cron.Month | cron.Dow)
	sched, err := p.Parse(spec)
	if err != nil {
		return "error " + cronErrClass(spec, err)
	}
	ss, ok := sched.(*cron.SpecSchedule)
	if !ok {
		return fmt.Sprintf("other-schedule %T", sched)
	}
	return "parsed " + cronMasks(ss)
}

// cronCheck is checkCron statement by statement; msg is the message checkCron would report ("" = none).
func cronCheck(spec string) (out, msg string) {
	if v := spec; (strings.HasPrefix(v, "TZ=") || strings.HasPrefix(v, "CRON_TZ=")) && !strings.Contains(v, " ") {
		return "guard", fmt.Sprintf("invalid CRON format %q in schedule event: no schedule follows the time zone", v)
	}
	p := cron.NewParser(cron.Minute | cron.Hour | cron.Dom | cron.Month | cron.Dow)
	sched, err := p.Parse(spec)
	if err != nil {
		return "error " + cronErrClass(spec, err), fmt.Sprintf("invalid CRON format %q in schedule event: %s", spec, err.Error())
	}
	start := sched.Next(time.Unix(0, 0))
	next := sched.Next(start)
	d := next.Sub(start)
	diff := d.Seconds()
	if diff < 60.0*5 {
		msg = fmt.Sprintf("scheduled job runs too frequently. it runs once per %g seconds. the shortest interval is once every 5 minutes", diff)
	}
	ss, ok := sched.(*cron.SpecSchedule)
	if !ok {
		return fmt.Sprintf("other-schedule %T", sched), msg
	}
	if ss.Location != time.UTC && ss.Location != time.Local {
		return "zone " + cronMasks(ss), msg
	}
	if msg != "" {
		return fmt.Sprintf("ok-frequent %s %d", cronMasks(ss), int64(d)), msg
	}
	return fmt.Sprintf("ok %s %d", cronMasks(ss), int64(d)), msg
}

// cronYAML writes the spec as a double-quoted YAML scalar with every byte outside printable ASCII escaped.
func cronYAML(spec string) string {
	var b strings.Builder
	b.WriteByte('"')
	for _, r := range spec {
		switch {
		case r == '"' || r == '\\':
			b.WriteByte('\\')
			b.WriteRune(r)
		case r >= 0x20 && r < 0x7f:
			b.WriteRune(r)
		case r < 0x100:
			fmt.Fprintf(&b, "\\x%02x", r)
		case r < 0x10000:
			fmt.Fprintf(&b, "\\u%04x", r)
		default:
			fmt.Fprintf(&b, "\\U%08x", r)
		}
	}
	b.WriteByte('"')
	return b.String()
}

// cronLint runs the whole linter on a workflow with this one schedule; it returns the messages of the CRON check.
func cronLint(spec string) ([]string, error) {
	src := "on:\n  schedule:\n    - cron: " + cronYAML(spec) + "\njobs:\n  a:\n    runs-on: ubuntu-latest\n    steps:\n      - run: echo\n"
	l, err := actionlint.NewLinter(nopWriter{}, &actionlint.LinterOptions{Shellcheck: "", Pyflakes: ""})
	if err != nil {
		return nil, err
	}
	errs, err := l.Lint("cron.yaml", []byte(src), nil)
	if err != nil {
		return nil, err
	}
	var msgs []string
	for _, e := range errs {
		if strings.HasPrefix(e.Message, "invalid CRON format") || strings.HasPrefix(e.Message, "scheduled job runs too frequently") {
			msgs = append(msgs, e.Message)
		}
	}
	return msgs, nil
}

// cronOddities counts (histogram only: this is how the check is written, not a difference to the model) the cases where
// the verdict of checkCron is not what the schedule does: a schedule that never fires is reported as running every 0
// seconds; a schedule whose first interval is long enough but which has a shorter interval later is not reported.
// It also checks a premise of the theorems: the two Next calls of checkCron find a time both or neither.
func cronOddities(r *Report, spec, out string, cs Case) {
	if !strings.HasPrefix(out, "ok") {
		return
	}
	p := cron.NewParser(cron.Minute | cron.Hour | cron.Dom | cron.Month | cron.Dow)
	sched, err := p.Parse(spec)
	if err != nil {
		return
	}
	start := sched.Next(time.Unix(0, 0))
	next := sched.Next(start)
	if start.IsZero() != next.IsZero() {
		r.finding("cron/one-next-zero", "exactly one of the two Next calls of checkCron finds no time", cs)
		return
	}
	if start.IsZero() {
		r.hist("cron/oddity:never-fires-reported-as-once-per-0-seconds")
		return
	}
	if strings.HasPrefix(out, "ok-frequent") {
		return
	}
	t := next
	for i := 0; i < 70; i++ {
		u := sched.Next(t)
		if u.IsZero() {
			return
		}
		if u.Sub(t) < 5*time.Minute {
			r.hist("cron/oddity:later-interval-below-5min-not-reported")
			r.sample(map[string]string{"spec": spec, "first_interval": next.Sub(start).String(), "later_interval": u.Sub(t).String(), "at": t.UTC().Format(time.RFC3339)})
			return
		}
		t = u
	}
}

func cronBucket(out string) string {
	f := strings.Fields(out)
	switch f[0] {
	case "error":
		k := f[1]
		if k == "parseint" {
			k += "-" + f[2]
		}
		return "error:" + k
	case "ok", "ok-frequent":
		ns, _ := strconv.ParseInt(f[len(f)-1], 10, 64)
		s := ns / 1e9
		switch {
		case ns <= 0:
			return f[0] + ":gap<=0"
		case s < 300:
			return f[0] + ":gap=" + strconv.FormatInt(s, 10) + "s"
		case s == 300:
			return f[0] + ":gap=300s"
		case s < 3600:
			return f[0] + ":gap<1h"
		case s == 3600:
			return f[0] + ":gap=1h"
		case s <= 86400:
			return f[0] + ":gap<=1d"
		case s <= 31*86400:
			return f[0] + ":gap<=31d"
		case s <= 366*86400:
			return f[0] + ":gap<=1y"
		}
		return f[0] + ":gap>1y"
	}
	return f[0]
}

func cronStandard(c *ctx, r *Report, b *batch, rng *rand.Rand, n int) {
	// the premises of the model about the process: the local zone is UTC, and no code point outside ASCII other than
	// U+0130 and U+212A lower-cases to an ASCII letter
	if name, off := time.Unix(0, 0).Zone(); off != 0 {
		r.Notes = append(r.Notes, fmt.Sprintf("cron: the local zone is %s (offset %d), the model assumes UTC; forcing time.Local = time.UTC", name, off))
		time.Local = time.UTC
	}
	var odd []string
	for x := rune(0x80); x <= unicode.MaxRune; x++ {
		if l := unicode.ToLower(x); l < 0x80 {
			odd = append(odd, fmt.Sprintf("U+%04X>%c", x, l))
		}
	}
	if got := strings.Join(odd, " "); got != "U+0130>i U+212A>k" {
		r.finding("cron/tolower-table", "code points outside ASCII that lower-case into ASCII differ from the model's table: "+got, Case{Op: "cron"})
	}
	r.hist("cron/zone-db:Asia/Tokyo=" + strconv.FormatBool(func() bool { _, err := time.LoadLocation("Asia/Tokyo"); return err == nil }()))

	specs := []string{"", "* * * * *", "*/5 * * * *", "TZ=UTC", "CRON_TZ=UTC", "TZ=UTC * * * * *", "0 0 29 2 *", "0 0 31 2 *", ", * * * *", "@daily", "FR\u0130 * * * *", "* * * * FR\u0130"}
	for i := 0; i < n; i++ {
		switch {
		case i%3 == 2:
			specs = append(specs, cronMalformed(rng))
		case i%11 == 0:
			specs = append(specs, cronWithZone(rng, cronValid(rng)))
		default:
			specs = append(specs, cronValid(rng))
		}
	}
	seen := map[string]bool{}
	for _, spec := range specs {
		if seen[spec] {
			r.hist("cron/duplicate-spec")
			continue
		}
		seen[spec] = true
		zk := "0"
		if z, ok := cronZoneOf(spec); ok {
			if _, err := time.LoadLocation(z); err == nil {
				zk = "1"
			}
		}
		cs := Case{Op: "cron", Input: map[string]string{"spec": spec, "spec_hex": hx(spec), "zone_known": zk}}

		// Parser.Parse alone (panics are an outcome here: the model has them)
		raw := cronRaw(spec)
		b.add("cron raw "+hx(spec)+" "+zk, raw, cs)
		r.hist("cron/raw:" + strings.Fields(raw)[0])

		// checkCron's statements
		var out, msg string
		pmsg, to := guarded(20*time.Second, func() { out, msg = cronCheck(spec) })
		if pmsg != "" || to {
			cs.Note = "panic/timeout in the statements of checkCron: " + pmsg
			r.Crashes = append(r.Crashes, cs)
			r.finding("cron/panic", "the CRON check panics or hangs", cs)
			continue
		}
		r.Evaluations++
		r.hist("cron:" + cronBucket(out))
		r.nontrivial("cron:" + out)
		if raw == "panic" && out != "guard" {
			r.finding("cron/guard-misses-panic", "Parser.Parse panics on a spec the guard lets through", cs)
		}
		if strings.HasPrefix(out, "error unclassified") || strings.HasPrefix(out, "other-schedule") {
			r.finding("cron/unclassified", "an outcome the tie has no name for: "+out, cs)
		}
		b.add("cron "+hx(spec)+" "+zk, out, cs)
		cronOddities(r, spec, out, cs)

		// the whole linter tells the same story
		var msgs []string
		var lerr error
		pmsg, to = guarded(20*time.Second, func() { msgs, lerr = cronLint(spec) })
		switch {
		case pmsg != "" || to:
			cs.Note = "panic/timeout in the linter: " + pmsg
			r.Crashes = append(r.Crashes, cs)
			r.finding("cron/linter-panic", "the linter panics or hangs on a schedule", cs)
		case lerr != nil:
			r.hist("cron/linter:error")
			cs.Note = "linter error: " + lerr.Error()
			r.finding("cron/linter-error", "the linter fails on a one-schedule workflow", cs)
		default:
			want := []string{}
			if msg != "" {
				// error.go (errorfAt) escapes line breaks in every message
				want = append(want, strings.NewReplacer("\n", "\\n", "\r", "\\r").Replace(msg))
			}
			if strings.Join(msgs, "\x00") != strings.Join(want, "\x00") {
				cs.Note = fmt.Sprintf("linter reports %q, the statements of checkCron give %q", msgs, want)
				r.finding("cron/linter-differs", "the linter and the in-process replica of checkCron disagree", cs)
			} else {
				r.hist("cron/linter:agrees")
			}
		}
	}
}

func init() { props["CR"] = runCR }

func runCR(c *ctx, r *Report) error {
	r.Rule = "rule_events.go checkCron (robfig/cron Parser.Parse + SpecSchedule.Next) vs AL.Cron"
	n := 24000
	if !c.quick {
		n = 200000
	}
	rng := rand.New(rand.NewSource(c.seed*7919 + 101))
	b := &batch{}
	cronStandard(c, r, b, rng, n)
	nd, err := b.flush(c, r)
	if err != nil {
		return err
	}
	r.hist(fmt.Sprintf("cron/disagreements=%d", nd))
	keys := make([]string, 0, len(r.Histogram))
	for k := range r.Histogram {
		keys = append(keys, k)
	}
	sort.Strings(keys)
	for _, k := range keys {
		fmt.Printf("%-40s %d\n", k, r.Histogram[k])
	}
	fmt.Printf("evaluations %d, disagreements %d, findings %d, crashes %d\n", r.Evaluations, nd, len(r.Findings), len(r.Crashes))
	return nil
}
