package main

import (
	"fmt"
	"math/rand"
	"os"
	"path/filepath"
	"sort"
	"strings"

	"github.com/rhysd/actionlint"
	"gopkg.in/yaml.v3"
)

// The interface of a reusable workflow, derived two ways (reusable_workflow.go): from a re-parse of the file
// (parseReusableWorkflowMetadata + UnmarshalYAML methods, reached through FindMetadata) and from the AST
// (WriteWorkflowCallEvent). Lean side: AL.CallMeta.fromDoc / fromDocAst, operation `callmeta`; theorem
// AL.Props.C10Meta.interface_agrees: for a `workflow_call:` section the parser accepts without a diagnostic (no alias,
// no !!binary scalar, `required:` not a placeholder) both derivations give the same interface.
//
// This file: (i) the tie — both real derivations against the model's on generated called workflows; (ii) the oracle —
// on every generated workflow whose parse has no diagnostic, file == AST on the real code.

type cmAttr struct{ key, val string }

type cmEntry struct {
	name  string
	null  bool
	flow  bool
	attrs []cmAttr
}

type cmSection struct {
	mode    int // 0 absent, 1 mapping of entries, 2 null, 3 scalar, 4 sequence
	entries []cmEntry
}

type cmCallee struct {
	form                     int // 0 on: {workflow_call: …}; 1 on: workflow_call; 2 on: [push, workflow_call]; 3 on: push; 4 on: {push: , workflow_call: …}; 5 no on; 6 on: {WORKFLOW_CALL: …}
	callMode                 int // 0 mapping, 1 null, 2 scalar, 3 sequence
	inputs, secrets, outputs cmSection
	extraKey                 bool
	prelude                  string // lines before on: (anchors)
}

func cmPick(rng *rand.Rand, pool []string) string { return pool[rng.Intn(len(pool))] }

var cmRequiredPool = []string{"true", "true", "true", "false", "True", "TRUE", "False", "FALSE", "yes", "no", "on", "off", "y", "n", "Yes", "'true'", "\"yes\"", "\"false\"", "1", "0", "null", "~", "", "${{ true }}", "${{ inputs.x }}", "[true]", "{a: b}", "!!bool true", "!!str true", "!!bool \"true\"", "tRue", "1.5", "2020-01-01"}
var cmDefaultPool = []string{"''", "\"\"", "x", "some text", "null", "~", "", "Null", "NULL", "0", "false", "true", "[a]", "{a: b}", "${{ github.ref }}", "\"null\"", "!!str null", "1.5", "!!null ''", "!!str", "3", "yes"}
var cmTypePool = []string{"string", "string", "number", "number", "boolean", "boolean", "String", "choice", "null", "", "'string'", "\"number\"", "[string]", "!!str boolean", "environment", "!!str string", "~"}
var cmDescPool = []string{"text", "a: b", "''", "null", "", "[1]", "${{ 1 }}", "42"}
var cmNamePool = []string{"a", "B", "my-input", "My_Input", "A", "x1", "1", "true", "~", "null", "\"\"", "'quoted'", "ünï", "\u212Aey", "Key", "K", "k", "\"a b\"", "long_name_with_parts"}

func cmGenEntry(rng *rand.Rand, kind string, wellFormed bool) cmEntry {
	e := cmEntry{name: cmPick(rng, cmNamePool)}
	if wellFormed {
		e.name = cmPick(rng, []string{"a", "B", "my-input", "My_Input", "x1", "K2", "'quoted'", "ünï", "\u212Aelvin", "long_name", "c", "d", "E"})
	}
	if rng.Intn(8) == 0 && !(wellFormed && kind == "inputs") {
		e.null = true
		return e
	}
	e.flow = rng.Intn(6) == 0
	add := func(k string, pool []string, good []string) {
		v := cmPick(rng, pool)
		if wellFormed {
			v = cmPick(rng, good)
		}
		if e.flow && (v == "" || strings.ContainsAny(v, "[]{},:#") || strings.HasPrefix(v, "!!")) {
			v = "x"
			if k == "required" {
				v = "true"
			}
			if k == "type" {
				v = "string"
			}
		}
		e.attrs = append(e.attrs, cmAttr{k, v})
	}
	switch kind {
	case "inputs":
		if rng.Intn(3) > 0 {
			add("description", cmDescPool, []string{"text", "''", "42", "null", ""})
		}
		if rng.Intn(4) > 0 {
			add("required", cmRequiredPool, []string{"true", "true", "false", "True", "TRUE", "False", "FALSE", "!!bool true"})
		}
		if rng.Intn(2) == 0 {
			add("default", cmDefaultPool, []string{"''", "\"\"", "x", "null", "~", "", "Null", "0", "false", "${{ github.ref }}", "\"null\"", "!!str null", "1.5", "!!null ''", "3"})
		}
		if wellFormed || rng.Intn(6) > 0 {
			add("type", cmTypePool, []string{"string", "number", "boolean", "'string'", "\"number\"", "!!str boolean"})
		}
	case "secrets":
		if rng.Intn(2) == 0 {
			add("description", cmDescPool, []string{"text", "''", "42", "null", ""})
		}
		if rng.Intn(3) > 0 {
			add("required", cmRequiredPool, []string{"true", "true", "false", "True", "TRUE", "False", "FALSE", "!!bool false"})
		}
		if !wellFormed && rng.Intn(10) == 0 {
			add("name", []string{"foo", "[1]", "null"}, nil)
		}
	case "outputs":
		if rng.Intn(2) == 0 {
			add("description", cmDescPool, []string{"text", "''", "42", "null", ""})
		}
		if wellFormed || rng.Intn(5) > 0 {
			add("value", []string{"x", "${{ jobs.j.outputs.o }}", "", "null", "[a]"}, []string{"x", "${{ jobs.j.outputs.o }}", "1"})
		}
	}
	if !wellFormed {
		if rng.Intn(12) == 0 {
			e.attrs = append(e.attrs, cmAttr{"foo", "bar"})
		}
		if rng.Intn(12) == 0 && len(e.attrs) > 0 {
			e.attrs = append(e.attrs, e.attrs[rng.Intn(len(e.attrs))]) // a repeated key
		}
		if rng.Intn(15) == 0 && len(e.attrs) > 0 {
			k := rng.Intn(len(e.attrs))
			e.attrs[k].key = strings.ToUpper(e.attrs[k].key[:1]) + e.attrs[k].key[1:]
		}
	}
	rng.Shuffle(len(e.attrs), func(i, j int) { e.attrs[i], e.attrs[j] = e.attrs[j], e.attrs[i] })
	return e
}

func cmGenSection(rng *rand.Rand, kind string, wellFormed bool) cmSection {
	s := cmSection{}
	switch r := rng.Intn(12); {
	case r < 2:
		s.mode = 0
	case r < 9 || wellFormed:
		s.mode = 1
		n := rng.Intn(4)
		if wellFormed {
			n = 1 + rng.Intn(3)
		}
		seen := map[string]bool{}
		for i := 0; i < n; i++ {
			e := cmGenEntry(rng, kind, wellFormed)
			if wellFormed && seen[strings.ToLower(e.name)] {
				continue
			}
			seen[strings.ToLower(e.name)] = true
			s.entries = append(s.entries, e)
		}
	case r == 9:
		s.mode = 2
	case r == 10:
		s.mode = 3
	default:
		s.mode = 4
	}
	return s
}

func cmGen(rng *rand.Rand, wellFormed bool) *cmCallee {
	c := &cmCallee{}
	if wellFormed {
		c.form = []int{0, 0, 0, 4}[rng.Intn(4)]
	} else {
		c.form = []int{0, 0, 0, 0, 0, 0, 1, 2, 3, 4, 4, 5, 6}[rng.Intn(13)]
		c.callMode = []int{0, 0, 0, 0, 0, 0, 0, 1, 2, 3}[rng.Intn(10)]
		c.extraKey = rng.Intn(15) == 0
	}
	c.inputs = cmGenSection(rng, "inputs", wellFormed)
	c.secrets = cmGenSection(rng, "secrets", wellFormed)
	c.outputs = cmGenSection(rng, "outputs", wellFormed)
	return c
}

func (s cmSection) render(b *strings.Builder, name string, subst func(cmAttr) string) {
	switch s.mode {
	case 0:
		return
	case 2:
		fmt.Fprintf(b, "    %s:\n", name)
		return
	case 3:
		fmt.Fprintf(b, "    %s: text\n", name)
		return
	case 4:
		fmt.Fprintf(b, "    %s: [a, b]\n", name)
		return
	}
	if len(s.entries) == 0 {
		fmt.Fprintf(b, "    %s: {}\n", name)
		return
	}
	fmt.Fprintf(b, "    %s:\n", name)
	for _, e := range s.entries {
		switch {
		case e.null:
			fmt.Fprintf(b, "      %s:\n", e.name)
		case len(e.attrs) == 0:
			fmt.Fprintf(b, "      %s: {}\n", e.name)
		case e.flow:
			var parts []string
			for _, a := range e.attrs {
				parts = append(parts, a.key+": "+subst(a))
			}
			fmt.Fprintf(b, "      %s: {%s}\n", e.name, strings.Join(parts, ", "))
		default:
			fmt.Fprintf(b, "      %s:\n", e.name)
			for _, a := range e.attrs {
				fmt.Fprintf(b, "        %s: %s\n", a.key, subst(a))
			}
		}
	}
}

// render prints the called workflow; subst may replace an attribute's value (used to classify a known finding)
func (c *cmCallee) render(subst func(cmAttr) string) string {
	if subst == nil {
		subst = func(a cmAttr) string { return a.val }
	}
	var b strings.Builder
	b.WriteString("name: callee\n")
	b.WriteString(c.prelude)
	body := func() {
		switch c.callMode {
		case 1:
			return
		case 2, 3:
			return
		}
		c.inputs.render(&b, "inputs", subst)
		c.secrets.render(&b, "secrets", subst)
		c.outputs.render(&b, "outputs", subst)
		if c.extraKey {
			b.WriteString("    foo: bar\n")
		}
	}
	callHead := func(key string) {
		switch c.callMode {
		case 0:
			if c.inputs.mode == 0 && c.secrets.mode == 0 && c.outputs.mode == 0 && !c.extraKey {
				fmt.Fprintf(&b, "  %s: {}\n", key)
			} else {
				fmt.Fprintf(&b, "  %s:\n", key)
			}
		case 1:
			fmt.Fprintf(&b, "  %s:\n", key)
		case 2:
			fmt.Fprintf(&b, "  %s: text\n", key)
		case 3:
			fmt.Fprintf(&b, "  %s: [a]\n", key)
		}
	}
	switch c.form {
	case 0:
		b.WriteString("on:\n")
		callHead("workflow_call")
		body()
	case 1:
		b.WriteString("on: workflow_call\n")
	case 2:
		b.WriteString("on: [push, workflow_call]\n")
	case 3:
		b.WriteString("on: push\n")
	case 4:
		b.WriteString("on:\n  push:\n")
		callHead("workflow_call")
		body()
		b.WriteString("  pull_request:\n")
	case 5:
	case 6:
		b.WriteString("on:\n")
		callHead("WORKFLOW_CALL")
		body()
	}
	b.WriteString("jobs:\n  j:\n    runs-on: ubuntu-latest\n    outputs:\n      o: x\n    steps:\n      - run: echo\n")
	return b.String()
}

func cmTyName(t actionlint.ExprType) string {
	switch t.(type) {
	case actionlint.BoolType:
		return "bool"
	case actionlint.NumberType:
		return "number"
	case actionlint.StringType:
		return "string"
	case actionlint.AnyType:
		return "any"
	}
	return "?" + t.String()
}

func cmMap(m map[string]string) string {
	keys := make([]string, 0, len(m))
	for k := range m {
		keys = append(keys, k)
	}
	sort.Strings(keys)
	parts := make([]string, len(keys))
	for i, k := range keys {
		parts[i] = hx(k) + "=" + m[k]
	}
	return "{" + strings.Join(parts, ";") + "}"
}

func b01(b bool) string {
	if b {
		return "1"
	}
	return "0"
}

// cmCanon prints an interface in the notation of the driver's `metaS`
func cmCanon(m *actionlint.ReusableWorkflowMetadata) string {
	in, sec, out := map[string]string{}, map[string]string{}, map[string]string{}
	for k, i := range m.Inputs {
		in[k] = hx(i.Name) + "," + b01(i.Required) + "," + cmTyName(i.Type)
	}
	for k, s := range m.Secrets {
		sec[k] = hx(s.Name) + "," + b01(s.Required)
	}
	for k, o := range m.Outputs {
		out[k] = hx(o.Name)
	}
	return "in" + cmMap(in) + "sec" + cmMap(sec) + "out" + cmMap(out)
}

type cmEnv struct {
	root string
	proj *actionlint.Project
	n    int
}

func newCmEnv() (*cmEnv, error) {
	root, err := os.MkdirTemp("", "verif-callmeta")
	if err != nil {
		return nil, err
	}
	os.MkdirAll(filepath.Join(root, ".git"), 0o755)
	os.MkdirAll(filepath.Join(root, ".github", "workflows"), 0o755)
	proj, err := actionlint.NewProjects().At(filepath.Join(root, ".github", "workflows", "x.yml"))
	if err != nil || proj == nil {
		os.RemoveAll(root)
		return nil, fmt.Errorf("no project at %s: %v", root, err)
	}
	return &cmEnv{root: root, proj: proj}, nil
}

func (e *cmEnv) close() { os.RemoveAll(e.root) }

// both real derivations of the interface of src: from the file, from the AST; and the number of parser diagnostics
func (e *cmEnv) both(src string) (file, ast string, diags int) {
	e.n++
	name := fmt.Sprintf("callee%d.yml", e.n)
	p := filepath.Join(e.root, ".github", "workflows", name)
	os.WriteFile(p, []byte(src), 0o644)
	defer os.Remove(p)
	spec := "./.github/workflows/" + name
	c1 := actionlint.NewLocalReusableWorkflowCache(e.proj, e.root, nil)
	m1, err := c1.FindMetadata(spec)
	switch {
	case err != nil && (strings.Contains(err.Error(), "\"on:\" is not found") || strings.Contains(err.Error(), "event trigger is not found in \"on:\"")):
		file = "notfound"
	case err != nil:
		file = "error"
	case m1 == nil:
		file = "nil"
	default:
		file = cmCanon(m1)
	}
	ast = "none"
	w, errs := actionlint.Parse([]byte(src))
	diags = len(errs)
	if w != nil {
		c2 := actionlint.NewLocalReusableWorkflowCache(e.proj, e.root, nil)
		for _, ev := range w.On {
			if ce, ok := ev.(*actionlint.WorkflowCallEvent); ok {
				c2.WriteWorkflowCallEvent(p, ce)
				if m2, err := c2.FindMetadata(spec); err == nil && m2 != nil {
					ast = cmCanon(m2)
				} else {
					ast = fmt.Sprintf("?not-cached(%v)", err)
				}
				break
			}
		}
	}
	return
}

func cmParseAnswer(s string) (file, ast, diags, hyp string, ok bool) {
	f := strings.Fields(s)
	if len(f) != 4 || !strings.HasPrefix(f[0], "file=") || !strings.HasPrefix(f[1], "ast=") || !strings.HasPrefix(f[2], "diags=") || !strings.HasPrefix(f[3], "hyp=") {
		return "", "", "", "", false
	}
	return f[0][5:], f[1][4:], f[2][6:], f[3][4:], true
}

// cmHasAliasOrBinary: the positions the theorem's `Supported` hypothesis excludes
func cmUnsupported(n *yaml.Node) bool {
	if n.Kind == yaml.AliasNode || (n.Kind == yaml.ScalarNode && n.Tag == "!!binary") {
		return true
	}
	for _, c := range n.Content {
		if cmUnsupported(c) {
			return true
		}
	}
	return false
}

// cmStandard: nGen generated called workflows (a third of them well-formed by construction) plus the directed ones
func cmStandard(c *ctx, r *Report, nGen int) error {
	env, err := newCmEnv()
	if err != nil {
		return err
	}
	defer env.close()
	rng := rand.New(rand.NewSource(c.seed*7919 + 17))
	type item struct {
		src    string
		callee *cmCallee
	}
	var items []item
	directed := []string{
		"on:\n  workflow_call:\n    inputs:\n      a:\n        type: string\n        required: true\n        default: null\n",
		"on:\n  workflow_call:\n    inputs:\n      a:\n        type: string\n        required: true\n        default:\n",
		"on:\n  workflow_call:\n    inputs:\n      a:\n        type: string\n        required: true\n        default: ~\n",
		"on:\n  workflow_call:\n    inputs:\n      a:\n        type: string\n        required: true\n        default: ''\n",
		"on:\n  workflow_call:\n    inputs:\n      a:\n        type: number\n        required: true\n        default: 0\n      b:\n        type: boolean\n        required: True\n",
		"on:\n  workflow_call:\n    inputs:\n      a:\n        type: string\n        default: !!binary \"aGk=\"\n",
		"on:\n  workflow_call:\n    inputs:\n      a:\n        description: &string boolean\n        type: *string\n",
		"on:\n  workflow_call:\n    inputs:\n      A:\n        type: string\n      a:\n        type: number\n",
		"on:\n  workflow_call:\n    secrets:\n      s:\n      T:\n        required: true\n    outputs:\n      o:\n        value: x\n      O2:\n        value: y\n",
		"on:\n  workflow_call:\n  push:\n",
		"on:\n  workflow_call: {}\n",
		"on: workflow_call\n",
		"on: [workflow_call]\n",
		"on: WORKFLOW_CALL\n",
		"on: [push, Workflow_Call]\n",
		"on:\n  Workflow_Call:\n    inputs:\n      a:\n        type: string\n",
		"- a\n- b\n",
		"",
		"on:\n  workflow_call:\n    inputs: &i\n      a:\n        type: string\n    secrets: *i\n",
		"on:\n  workflow_call:\n    inputs:\n      <<: {a: {type: string}}\n",
	}
	for _, d := range directed {
		src := d
		if !strings.HasPrefix(d, "- ") && d != "" {
			src += "jobs:\n  j:\n    runs-on: ubuntu-latest\n    steps:\n      - run: echo\n"
		}
		items = append(items, item{src: src})
	}
	// the recorded finding, deterministically
	for _, cl := range []*cmCallee{
		{inputs: cmSection{mode: 1, entries: []cmEntry{{name: "a", attrs: []cmAttr{{"type", "string"}, {"required", "${{ true }}"}}}}}},
		{secrets: cmSection{mode: 1, entries: []cmEntry{{name: "tok", attrs: []cmAttr{{"required", "${{ inputs.x }}"}}}}}},
	} {
		items = append(items, item{src: cl.render(nil), callee: cl})
	}
	for i := 0; i < nGen; i++ {
		cl := cmGen(rng, i%3 == 0)
		items = append(items, item{src: cl.render(nil), callee: cl})
	}
	var lines []string
	type goRes struct {
		file, ast string
		diags     int
		unsup     bool
	}
	var res []goRes
	var kept []item
	for _, it := range items {
		var root yaml.Node
		if err := yaml.Unmarshal([]byte(it.src), &root); err != nil {
			r.hist("callmeta:yaml-rejects")
			continue
		}
		var g goRes
		pmsg, to := guarded(pwTimeout, func() { g.file, g.ast, g.diags = env.both(it.src) })
		if pmsg != "" || to {
			r.Crashes = append(r.Crashes, Case{Op: "callmeta", Input: map[string]string{"src": it.src}, Note: "panic/timeout: " + pmsg})
			continue
		}
		g.unsup = cmUnsupported(&root)
		if root.Kind == 0 {
			// an empty file: yaml.v3 gives no document node; the parser reports "workflow is empty"
			root = yaml.Node{Kind: yaml.DocumentNode, Line: 1, Column: 1}
		}
		lines = append(lines, "callmeta "+nodeSexp(&root, map[string]bool{}))
		res = append(res, g)
		kept = append(kept, it)
	}
	out, err := runModel(c.driver, lines)
	if err != nil {
		return err
	}
	for i, m := range out {
		g, it := res[i], kept[i]
		r.Evaluations++
		mf, ma, md, hyp, ok := cmParseAnswer(m)
		cs := Case{Op: "callmeta", Input: map[string]string{"src": it.src}, Impl: fmt.Sprintf("file=%s ast=%s diags=%d", g.file, g.ast, g.diags), Model: m}
		if !ok {
			r.disagree(cs)
			continue
		}
		// (i) the tie
		if ma != g.ast || md != fmt.Sprint(g.diags) {
			r.disagree(cs)
		} else if mf == "unsupported" {
			r.hist("callmeta:model-unsupported")
			if !g.unsup {
				cs.Note = "the model answers unsupported but the tree has no alias / !!binary / merge key"
				if !strings.Contains(it.src, "<<") {
					r.disagree(cs)
				}
			}
		} else if mf != g.file {
			r.disagree(cs)
		}
		kind := "interface"
		switch g.file {
		case "error", "notfound":
			kind = g.file
		}
		r.hist(fmt.Sprintf("callmeta:file=%s,ast=%v,diag-free=%v", kind, g.ast != "none", g.diags == 0))
		r.hist("callmeta:hypotheses=" + hyp)
		// the hypotheses of the theorem (evaluated by the driver on the workflow_call: node) may fail only for the reasons
		// they name: an alias, a !!binary scalar, or `required:` given as a string
		if hyp == "0" && !g.unsup && !strings.Contains(it.src, "required: ${{") && !strings.Contains(it.src, "required: '") && !strings.Contains(it.src, "required: \"") && !strings.Contains(it.src, "required: !!str") {
			plain := false // `required: yes` and the like are !!str scalars too
			for _, w := range []string{"yes", "no", "on", "off", "y", "n", "Yes", "tRue"} {
				if strings.Contains(it.src, "required: "+w+"\n") || strings.Contains(it.src, "required: "+w+",") || strings.Contains(it.src, "required: "+w+"}") {
					plain = true
				}
			}
			if !plain {
				cs.Note = "yaml.v3 built a tree outside the theorem's hypotheses (Sane) for no named reason"
				r.disagree(cs)
			}
		}
		// (ii) the oracle: a called workflow the parser accepts has one interface. Where the theorem applies (hyp=1, no
		// diagnostic) it is the theorem's conclusion replayed on the real code; the oracle also covers hyp=0 trees without
		// alias / !!binary (the recorded finding lives there)
		if g.diags != 0 || g.unsup || g.ast == "none" {
			continue
		}
		if hyp == "1" {
			r.hist("callmeta:theorem-applies")
		}
		r.nontrivial("callmeta:" + g.ast)
		if g.file == g.ast {
			continue
		}
		key, desc := "interface-from-file-and-from-ast-differ", "the interface of a reusable workflow read from its file differs from the one taken from its AST (no parser diagnostic in the file)"
		if it.callee != nil && g.file == "error" {
			// known finding: `required: ${{ … }}` is accepted by the parser (the AST says: not required) and rejected by
			// the metadata reader. It is that and nothing else iff the difference vanishes with `required: false` there
			placeholders := 0
			alt := it.callee.render(func(a cmAttr) string {
				if a.key == "required" && strings.HasPrefix(a.val, "${{") {
					placeholders++
					return "false"
				}
				return a.val
			})
			if placeholders > 0 {
				f2, a2, d2 := env.both(alt)
				if d2 == 0 && f2 == a2 && a2 == g.ast {
					key, desc = "callee-required-placeholder", "`required: ${{ … }}` in a called workflow: accepted by the parser (not required), an error for the metadata reader"
				}
			}
		}
		r.finding(key, desc, cs)
	}
	return nil
}

func init() { props["CM"] = runCM }

func runCM(c *ctx, r *Report) error {
	r.Rule = "reusable_workflow.go: interface from the file vs from the AST vs AL.CallMeta"
	n := 3000
	if !c.quick {
		n = 60000
	}
	return cmStandard(c, r, n)
}
