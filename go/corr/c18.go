package main

import (
	"fmt"
	"math/rand"
	"regexp"
	"sort"
	"strconv"
	"strings"
	"time"

	"github.com/rhysd/actionlint"
)

func init() { props["C18"] = runC18 }

type needRef struct {
	val       string
	line, col int
}
type jobIn struct {
	id                             string
	idLine, idCol, jobLine, jobCol int
	needs                          []needRef
}

func encodeJobs(jobs []jobIn) string {
	if len(jobs) == 0 {
		return "."
	}
	js := make([]string, len(jobs))
	for i, j := range jobs {
		ns := make([]string, len(j.needs))
		for k, n := range j.needs {
			ns[k] = fmt.Sprintf("%s@%d@%d", hx(n.val), n.line, n.col)
		}
		needs := strings.Join(ns, "/")
		if needs == "" {
			needs = "."
		}
		js[i] = fmt.Sprintf("%s,%d,%d,%d,%d,%s", hx(j.id), j.idLine, j.idCol, j.jobLine, j.jobCol, needs)
	}
	return strings.Join(js, ";")
}

var (
	reDupNeeds = regexp.MustCompile(`^job ID ("(?:[^"\\]|\\.)*") duplicates in "needs" section\. note that job ID is case insensitive$`)
	reDupJob   = regexp.MustCompile(`^job ID ("(?:[^"\\]|\\.)*") duplicates\. previously defined at line:(\d+),col:(\d+)\. note that job ID is case insensitive$`)
	reUndef    = regexp.MustCompile(`^job ("(?:[^"\\]|\\.)*") needs job ("(?:[^"\\]|\\.)*") which does not exist in this workflow$`)
	reCyclic   = regexp.MustCompile(`^cyclic dependencies in "needs" job configurations are detected\. detected cycle is (.*)$`)
)

func unq(s string) string {
	v, err := strconv.Unquote(s)
	if err != nil {
		return "<unquote:" + s + ">"
	}
	return v
}

// canonNeeds turns job-needs diagnostics into the model's canonical form: the non-cycle part and the cycle.
func canonNeeds(errs []*actionlint.Error) (common []string, cyc []string, paths [][]string, bad bool) {
	for _, e := range errs {
		m := e.Message
		if x := reDupNeeds.FindStringSubmatch(m); x != nil {
			common = append(common, fmt.Sprintf("dn,%d,%d,%s", e.Line, e.Column, hx(unq(x[1]))))
		} else if x := reDupJob.FindStringSubmatch(m); x != nil {
			common = append(common, fmt.Sprintf("dj,%d,%d,%s,%s,%s", e.Line, e.Column, hx(unq(x[1])), x[2], x[3]))
		} else if x := reUndef.FindStringSubmatch(m); x != nil {
			common = append(common, fmt.Sprintf("ud,%d,%d,%s,%s", e.Line, e.Column, hx(unq(x[1])), hx(unq(x[2]))))
		} else if x := reCyclic.FindStringSubmatch(m); x != nil {
			parts := strings.Split(x[1], " -> ")
			ids := make([]string, len(parts))
			hs := make([]string, len(parts))
			for i, p := range parts {
				ids[i] = unq(p)
				hs[i] = hx(ids[i])
			}
			cyc = append(cyc, fmt.Sprintf("cy,%d,%d,%s", e.Line, e.Column, strings.Join(hs, ">")))
			paths = append(paths, ids)
		} else {
			common = append(common, "unclassified:"+m)
			bad = true
		}
	}
	return
}

func dedupSorted(l []string) []string {
	s := append([]string{}, l...)
	sort.Strings(s)
	out := s[:0]
	for i, x := range s {
		if i == 0 || x != s[i-1] {
			out = append(out, x)
		}
	}
	return out
}

// runNeedsRule drives the real rule through its visitor callbacks.
func runNeedsRule(jobs []jobIn) []*actionlint.Error {
	rule := actionlint.NewRuleJobNeeds()
	for _, j := range jobs {
		job := &actionlint.Job{
			ID:  &actionlint.String{Value: j.id, Pos: &actionlint.Pos{Line: j.idLine, Col: j.idCol}},
			Pos: &actionlint.Pos{Line: j.jobLine, Col: j.jobCol},
		}
		for _, n := range j.needs {
			job.Needs = append(job.Needs, &actionlint.String{Value: n.val, Pos: &actionlint.Pos{Line: n.line, Col: n.col}})
		}
		_ = rule.VisitJobPre(job)
	}
	_ = rule.VisitWorkflowPost(&actionlint.Workflow{})
	return rule.Errs()
}

// needsOracle evaluates C18 directly on the implementation's output with a reference cycle test.
func needsOracle(r *Report, jobs []jobIn, common, cyc []string, paths [][]string, mk func(string) Case) {
	// reference graph over lower-cased ids (only well-formed inputs: distinct non-empty ids)
	ids := map[string]int{}
	for i, j := range jobs {
		id := strings.ToLower(j.id)
		if id == "" {
			return
		}
		if _, dup := ids[id]; dup {
			return
		}
		ids[id] = i
	}
	adj := make([][]int, len(jobs))
	wantUndef := map[string]int{}
	dangling := false
	for i, j := range jobs {
		seen := map[string]bool{}
		for _, n := range j.needs {
			d := strings.ToLower(n.val)
			if d == "" || seen[d] {
				continue
			}
			seen[d] = true
			if k, ok := ids[d]; ok {
				adj[i] = append(adj[i], k)
			} else {
				dangling = true
				wantUndef[fmt.Sprintf("ud,%d,%d,%s,%s", j.idLine, j.idCol, hx(strings.ToLower(j.id)), hx(d))]++
			}
		}
	}
	gotUndef := map[string]int{}
	for _, c := range common {
		if strings.HasPrefix(c, "ud,") {
			gotUndef[c]++
		}
	}
	for k, n := range wantUndef {
		if gotUndef[k] != n {
			r.finding("undefined-missing", "a reference to a job that does not exist is not reported (exactly once) at the referring job", mk("want "+k))
		}
	}
	for k := range gotUndef {
		if wantUndef[k] == 0 {
			r.finding("undefined-spurious", "a reference that resolves is reported as undefined", mk("got "+k))
		}
	}
	if dangling {
		return
	}
	// cycle reference: colour DFS
	color := make([]int, len(jobs))
	var has func(v int) bool
	has = func(v int) bool {
		color[v] = 1
		for _, w := range adj[v] {
			if color[w] == 1 || (color[w] == 0 && has(w)) {
				return true
			}
		}
		color[v] = 2
		return false
	}
	cyclic := false
	for v := range jobs {
		if color[v] == 0 && has(v) {
			cyclic = true
			break
		}
	}
	if cyclic && len(cyc) != 1 {
		r.finding("cycle-count", fmt.Sprintf("graph has a cycle but %d cyclic-dependency diagnostics were reported", len(cyc)), mk(""))
	}
	if !cyclic && len(cyc) != 0 {
		r.finding("cycle-spurious", "acyclic graph gets a cyclic-dependency diagnostic", mk(strings.Join(cyc, " ")))
	}
	for i, p := range paths {
		okp := len(p) >= 2 && p[0] == p[len(p)-1]
		minLine, minCol := 1<<30, 1<<30
		for k := 0; okp && k+1 < len(p); k++ {
			a, aok := ids[p[k]]
			b, bok := ids[p[k+1]]
			if !aok || !bok {
				okp = false
				break
			}
			e := false
			for _, w := range adj[a] {
				if w == b {
					e = true
				}
			}
			if !e {
				okp = false
			}
			if jobs[a].idLine < minLine || jobs[a].idLine == minLine && jobs[a].idCol < minCol {
				minLine, minCol = jobs[a].idLine, jobs[a].idCol
			}
		}
		if !okp {
			r.finding("cycle-not-real", "the printed cycle is not a cycle of the needs graph", mk(cyc[i]))
			continue
		}
		seenNode := map[string]bool{}
		for _, x := range p[:len(p)-1] {
			if seenNode[x] {
				r.finding("cycle-not-simple", "the printed cycle repeats a job", mk(cyc[i]))
			}
			seenNode[x] = true
		}
		if !strings.HasPrefix(cyc[i], fmt.Sprintf("cy,%d,%d,", minLine, minCol)) {
			r.finding("cycle-position", "the cyclic-dependency diagnostic is not at the first job of the printed cycle", mk(cyc[i]))
		}
	}
}

func needsCase(c *ctx, r *Report, b *needsBatch, jobs []jobIn, mode string) {
	line := "needs " + mode + " " + encodeJobs(jobs)
	var errs []*actionlint.Error
	mk := func(note string) Case {
		return Case{Op: "needs", Input: map[string]string{"jobs": encodeJobs(jobs), "readable": fmt.Sprint(jobs)}, Note: note}
	}
	pmsg, to := guarded(10*time.Second, func() { errs = runNeedsRule(jobs) })
	r.Evaluations++
	if pmsg != "" || to {
		cs := mk(pmsg)
		if to {
			cs.Note = "timeout (10s): job-needs rule did not terminate"
		}
		r.Crashes = append(r.Crashes, cs)
		return
	}
	common, cyc, paths, bad := canonNeeds(errs)
	if bad {
		cs := mk("message matches no known template")
		cs.Impl = strings.Join(common, "|")
		r.disagree(cs)
	}
	needsOracle(r, jobs, common, cyc, paths, mk)
	nEdges := 0
	for _, j := range jobs {
		nEdges += len(j.needs)
	}
	if nEdges > 0 {
		r.nontrivial(line)
	}
	switch {
	case len(cyc) > 0:
		r.hist("cyclic")
	case len(common) > 0:
		r.hist("undefined/duplicate")
	default:
		r.hist("clean")
	}
	b.add(line, common, cyc, mk(""))
}

// needsBatch compares with the model: the non-cycle part must be equal as a multiset, the reported cycle must
// be one of the cycles the model produces over all iteration orders of the node map.
type needsBatch struct {
	lines  []string
	common [][]string
	cyc    [][]string
	cases  []Case
}

func (b *needsBatch) add(line string, common, cyc []string, c Case) {
	b.lines = append(b.lines, line)
	b.common = append(b.common, common)
	b.cyc = append(b.cyc, cyc)
	b.cases = append(b.cases, c)
}

func (b *needsBatch) flush(c *ctx, r *Report) error {
	const chunk = 100000
	for i := 0; i < len(b.lines); i += chunk {
		j := i + chunk
		if j > len(b.lines) {
			j = len(b.lines)
		}
		out, err := runModel(c.driver, b.lines[i:j])
		if err != nil {
			return err
		}
		for k, m := range out {
			idx := i + k
			parts := strings.SplitN(m, "#", 2)
			ok := len(parts) == 2
			if ok {
				head := strings.SplitN(parts[0], "|", 2)
				wantCommon := []string{}
				if len(head) == 2 && head[1] != "" {
					wantCommon = strings.Split(head[1], "|")
				}
				got := dedupSorted(b.common[idx])
				ok = head[0] == strconv.Itoa(len(b.common[idx])) && strings.Join(got, "|") == strings.Join(wantCommon, "|")
				set := map[string]bool{}
				for _, x := range strings.Split(parts[1], "|") {
					set[x] = true
				}
				exact := strings.HasPrefix(b.lines[idx], "needs all ") || strings.HasPrefix(b.lines[idx], "needs pos ")
				switch len(b.cyc[idx]) {
				case 0:
					ok = ok && set["none"] && (len(set) == 1 || !exact)
				case 1:
					if exact {
						ok = ok && set[b.cyc[idx][0]]
					} else {
						ok = ok && !(len(set) == 1 && set["none"])
					}
				default:
					ok = false
				}
			}
			if !ok {
				cs := b.cases[idx]
				cs.Impl = fmt.Sprintf("%d|%s#%s", len(b.common[idx]), strings.Join(dedupSorted(b.common[idx]), "|"), strings.Join(b.cyc[idx], "|"))
				cs.Model = m
				r.disagree(cs)
			}
		}
	}
	b.lines, b.common, b.cyc, b.cases = nil, nil, nil, nil
	return nil
}

func permsInt(a []int) [][]int {
	if len(a) <= 1 {
		return [][]int{append([]int{}, a...)}
	}
	var out [][]int
	for i := range a {
		rest := append(append([]int{}, a[:i]...), a[i+1:]...)
		for _, p := range permsInt(rest) {
			out = append(out, append([]int{a[i]}, p...))
		}
	}
	return out
}

// mkJobs builds jobs 0..n-1 with ids a,b,c…; targets[i] lists target indices (n = ghost id "zz"; a value
// ≥ 100 means "the same target written in upper case").
func mkJobs(n int, targets [][]int, upperID int) []jobIn {
	names := []string{"a", "b", "c", "d", "e", "f", "g", "h"}
	jobs := make([]jobIn, n)
	line := 3
	for i := 0; i < n; i++ {
		id := names[i%8] + strings.Repeat("x", i/8)
		if i == upperID {
			id = strings.ToUpper(id)
		}
		jobs[i] = jobIn{id: id, idLine: line, idCol: 3, jobLine: line, jobCol: 3}
		line++
		for _, t := range targets[i] {
			up := false
			if t >= 100 {
				up, t = true, t-100
			}
			v := "zz"
			if t < n {
				v = names[t%8] + strings.Repeat("x", t/8)
			} else if t > n {
				v = []string{"yy", "ww", "vv"}[(t-n-1)%3] // further ids that do not exist
			}
			if up {
				v = strings.ToUpper(v)
			}
			line++
			jobs[i].needs = append(jobs[i].needs, needRef{v, line, 9})
		}
		line += 3
	}
	return jobs
}

func runC18(c *ctx, r *Report) error {
	b := &needsBatch{}
	rng := rand.New(rand.NewSource(c.seed))
	full3, n4 := true, 6000
	n5, nBig := 3000, 300
	if !c.quick {
		n4, n5, nBig = 65536, 60000, 3000
	}
	r.Rule = fmt.Sprintf("every digraph on 1..3 jobs incl. self loops and up to two different dangling targets, every order of each job's needs list; %d digraphs on 4 jobs (all 65536 edge sets in thorough tier); %d random digraphs on 5 jobs with duplicate / re-cased / dangling entries — each compared exactly with the model run in source-position order (the order detectFirstCycle uses since the determinism fix; the theorems hold for every order); %d random graphs on 6–30 jobs (oracle + cyclic/acyclic agreement with the model); non-trivial = distinct job lists with at least one needs entry", n4, n5, nBig)
	// n ≤ 3: all edge sets over targets {0..n-1, ghost}, all orders of each needs list
	if full3 {
		for n := 1; n <= 3; n++ {
			m := n + 2 // two distinct dangling targets
			if n == 3 && c.quick {
				m = n + 1
			}
			for mask := 0; mask < 1<<(uint(n*m)); mask++ {
				base := make([][]int, n)
				for i := 0; i < n; i++ {
					for t := 0; t < m; t++ {
						if mask&(1<<uint(i*m+t)) != 0 {
							base[i] = append(base[i], t)
						}
					}
				}
				// all orders of needs lists (cartesian product of permutations)
				lists := make([][][]int, n)
				total := 1
				for i := range base {
					lists[i] = permsInt(base[i])
					total *= len(lists[i])
				}
				step := 1
				if c.quick && n == 3 && total > 4 {
					step = total / 4 // quick tier: 4 of the needs-list orders per 3-job graph
				} else if n == 3 && total > 36 {
					step = total / 36 // thorough: all orders of small needs lists, 36 spread over the product otherwise
				}
				for k := 0; k < total; k += step {
					tg := make([][]int, n)
					x := k
					for i := range lists {
						tg[i] = lists[i][x%len(lists[i])]
						x /= len(lists[i])
					}
					needsCase(c, r, b, mkJobs(n, tg, -1), "pos")
				}
			}
		}
	}
	// n = 4: edge sets (no ghost), declaration-order needs or shuffled
	for k := 0; k < n4; k++ {
		mask := k
		if n4 < 65536 {
			mask = rng.Intn(65536)
		}
		tg := make([][]int, 4)
		for i := 0; i < 4; i++ {
			for t := 0; t < 4; t++ {
				if mask&(1<<uint(i*4+t)) != 0 {
					tg[i] = append(tg[i], t)
				}
			}
			rng.Shuffle(len(tg[i]), func(a, b int) { tg[i][a], tg[i][b] = tg[i][b], tg[i][a] })
		}
		needsCase(c, r, b, mkJobs(4, tg, -1), "pos")
	}
	// n = 5: random, with duplicates, upper-case spellings and rare dangling entries
	for k := 0; k < n5; k++ {
		tg := make([][]int, 5)
		p := []float64{0.15, 0.25, 0.4}[rng.Intn(3)]
		for i := 0; i < 5; i++ {
			for t := 0; t < 5; t++ {
				if rng.Float64() < p {
					v := t
					if rng.Intn(6) == 0 {
						v += 100
					}
					tg[i] = append(tg[i], v)
					if rng.Intn(10) == 0 {
						tg[i] = append(tg[i], t) // duplicate entry
					}
				}
			}
			if rng.Intn(20) == 0 {
				tg[i] = append(tg[i], 5) // dangling
			}
			if rng.Intn(20) == 0 {
				tg[i] = append(tg[i], 6+rng.Intn(2)) // a second, different dangling id (sometimes next to the first)
				if rng.Intn(2) == 0 {
					tg[i] = append(tg[i], 5)
				}
			}
			rng.Shuffle(len(tg[i]), func(a, b int) { tg[i][a], tg[i][b] = tg[i][b], tg[i][a] })
		}
		up := -1
		if rng.Intn(4) == 0 {
			up = rng.Intn(5)
		}
		needsCase(c, r, b, mkJobs(5, tg, up), "pos")
	}
	// larger graphs: sparse, often a single long cycle or a DAG
	for k := 0; k < nBig; k++ {
		n := 6 + rng.Intn(25)
		tg := make([][]int, n)
		perm := rng.Perm(n)
		dag := rng.Intn(2) == 0
		for i := 0; i < n; i++ {
			deg := rng.Intn(4)
			for d := 0; d < deg; d++ {
				t := rng.Intn(n)
				if dag && perm[t] >= perm[i] {
					continue
				}
				tg[i] = append(tg[i], t)
			}
		}
		needsCase(c, r, b, mkJobs(n, tg, -1), "pos")
	}
	r.Exhaustive = true
	ex := mkJobs(3, [][]int{{1}, {2}, {0, 3}}, -1)
	r.sample(map[string]interface{}{"op": "needs all", "jobs": fmt.Sprint(ex)})
	ex2 := mkJobs(2, [][]int{{1, 0}, {}}, -1)
	r.sample(map[string]interface{}{"op": "needs all", "jobs": fmt.Sprint(ex2)})
	return b.flush(c, r)
}
