package main

import (
	"bufio"
	"bytes"
	"encoding/hex"
	"encoding/json"
	"fmt"
	"math/rand"
	"os"
	"path/filepath"
	"runtime"
	"sort"
	"strings"
	"sync"
	"time"

	"github.com/rhysd/actionlint"
	"gopkg.in/yaml.v3"
)

func init() { props["C20"] = runC20 }

type stubRec struct {
	Args  []string `json:"args"`
	Stdin string   `json:"stdin_hex"`
	Start int64    `json:"start_ns"`
	End   int64    `json:"end_ns"`
	Out   string   `json:"stdout_hex"`
}

type c20Step struct {
	shell     string // "" = none
	script    string
	directive string
	sleepMs   int
}
type c20Job struct {
	defShell string
	defWD    bool // defaults.run with working-directory (also when there is no default shell)
	windows  bool     // what the documented rule says about `labels` (a label `windows` or `windows-…`, in any letter case)
	labels   []string // the runs-on labels as written
	steps    []c20Step
}
type c20File struct {
	defShell string
	defWD    bool
	jobs     []c20Job
}

func (f *c20File) yaml(fi int) string {
	var b strings.Builder
	b.WriteString("on: push\n")
	if f.defShell != "" || f.defWD {
		b.WriteString("defaults:\n  run:\n")
		if f.defWD {
			b.WriteString("    working-directory: .\n")
		}
		if f.defShell != "" {
			fmt.Fprintf(&b, "    shell: %s\n", f.defShell)
		}
	}
	b.WriteString("jobs:\n")
	for ji, j := range f.jobs {
		fmt.Fprintf(&b, "  job%d:\n", ji)
		if len(j.labels) == 1 {
			fmt.Fprintf(&b, "    runs-on: %s\n", j.labels[0])
		} else {
			fmt.Fprintf(&b, "    runs-on: [%s]\n", strings.Join(j.labels, ", "))
		}
		if j.defShell != "" || j.defWD {
			b.WriteString("    defaults:\n      run:\n")
			if j.defShell != "" {
				fmt.Fprintf(&b, "        shell: %s\n", j.defShell)
			}
			if j.defWD {
				b.WriteString("        working-directory: .\n")
			}
		}
		b.WriteString("    steps:\n")
		for si, s := range j.steps {
			fmt.Fprintf(&b, "      - run: |\n")
			for _, ln := range strings.Split(s.script, "\n") {
				fmt.Fprintf(&b, "          %s\n", ln)
			}
			fmt.Fprintf(&b, "          # id f%dj%ds%d STUB:%s SLEEP:%d\n", fi, ji, si, s.directive, s.sleepMs)
			if s.shell != "" {
				fmt.Fprintf(&b, "        shell: %s\n", s.shell)
			}
		}
	}
	return b.String()
}

var c20LabelPool = [][]string{{"ubuntu-latest"}, {"ubuntu-latest"}, {"ubuntu-latest"}, {"windows-latest"}, {"Windows-2022"}, {"self-hosted", "Windows", "X64"},
	{"self-hosted", "windows"}, {"WINDOWS"}, {"self-hosted", "Linux", "X64"}, {"macos-latest"}, {"windowsx"}, {"my-windows-box"}, {"self-hosted", "WINDOWS-gpu"}}

func effShell(step, job, wf string, windows bool) string {
	if step != "" {
		return step
	}
	if job != "" {
		return job
	}
	if wf != "" {
		return wf
	}
	if windows {
		return "pwsh"
	}
	return "bash"
}

func runC20(c *ctx, r *Report) error {
	rng := rand.New(rand.NewSource(c.seed))
	nSan, nSets := 5000, 24
	if !c.quick {
		nSan, nSets = 100000, 400
	}
	cpus := runtime.NumCPU()
	r.Rule = fmt.Sprintf("(1) %d random scripts with placeholders (closed, unclosed, nested, adjacent, with line breaks and non-ASCII): real sanitizeExpressionsInScript (verif hook) vs model + length/outside-unchanged oracle; (2) %d workflow sets (1–4 files × 1–3 jobs × 0–5 run steps; shells at step / job / workflow / runner level, defaults.run sections with and without a shell; per-invocation tool behaviour drawn from ok, issue list, crash, kill -9, kill -9 after complete output, garbage, empty output; tool latency 0–40 ms; one set with > NumCPU slow invocations) linted by the real LintFiles with a stand-in tool that logs stdin and start/end times: which script goes to which tool is decided by the Lean model AL.ShellVisit (op shellvisit; AL.Props.C20Shell proves that it is the prescribed (step, job, workflow, runner) precedence for every workflow and visiting order): every such script arrives exactly once and byte-identical to setup + sanitize(script), ≤ NumCPU(=%d) overlapping tool processes, all processes ended before LintFiles returned, issues ↦ diagnostics at the run: key, failures ↦ fatal error; (3) the outcome table: both tools × output {none, 1 issue, 3 issues, garbage, cut off mid-issue} × termination {exit 0, 1, 3, SIGKILL, cannot be executed}, observed outcome vs the model's callback on the same stdout; the schedule points recorded by the verif hooks are replayed through the model's transition system (every transition must be enabled, permit invariant checked in every state); non-trivial = distinct scripts with a placeholder / workflow sets with ≥ 2 invocations", nSan, nSets, cpus)
	var b batch

	// (1) sanitize
	pieces := []string{"echo ", "${{", "}}", " a ", "${{ x }}", "$", "{", "}", "\n", "é", "${{ '}}' }}", "_", "${{a}}${{b}}", " }} "}
	for i := 0; i < nSan; i++ {
		var sb strings.Builder
		n := rng.Intn(9)
		for k := 0; k < n; k++ {
			sb.WriteString(pieces[rng.Intn(len(pieces))])
		}
		src := sb.String()
		out := actionlint.VerifSanitizeExpressionsInScript(src)
		b.add("sanitize "+hx(src), hx(out), Case{Op: "sanitize", Input: map[string]string{"script": src}})
		r.Evaluations++
		if strings.Contains(src, "${{") {
			r.nontrivial("san:" + src)
		}
		if len(out) != len(src) {
			r.finding("sanitize-length", "sanitised script has a different length: reported offsets shift", Case{Op: "sanitize", Input: map[string]string{"script": src}, Impl: out})
			continue
		}
		for k := 0; k < len(src); k++ {
			if out[k] != src[k] && out[k] != '_' {
				r.finding("sanitize-byte", "a byte was changed to something other than '_'", Case{Op: "sanitize", Input: map[string]string{"script": src}, Impl: out})
				break
			}
		}
		// every closed placeholder (first "${{" … next "}}", repeatedly) must be blanked
		rest, off := src, 0
		for {
			s := strings.Index(rest, "${{")
			if s < 0 {
				break
			}
			e := strings.Index(rest[s:], "}}")
			if e < 0 {
				break
			}
			e += s + 2
			if strings.Trim(out[off+s:off+e], "_") != "" {
				r.finding("sanitize-placeholder", "a closed placeholder is not blanked completely", Case{Op: "sanitize", Input: map[string]string{"script": src}, Impl: out})
				break
			}
			if out[off:off+s] != rest[:s] {
				r.finding("sanitize-outside", "text outside placeholders was modified", Case{Op: "sanitize", Input: map[string]string{"script": src}, Impl: out})
				break
			}
			off += e
			rest = rest[e:]
		}
	}

	// (2) tool integration
	stub, err := filepath.Abs(filepath.Join("bin", "stubtool"))
	if err != nil {
		return err
	}
	if _, err := os.Stat(stub); err != nil {
		return fmt.Errorf("stubtool not built: %v", err)
	}
	tmp, err := os.MkdirTemp("", "verif-c20-")
	if err != nil {
		return err
	}
	defer os.RemoveAll(tmp)
	var mu sync.Mutex
	type ev struct {
		point string
		key   interface{}
	}
	var trace []ev
	actionlint.VerifTrace = func(point string, key interface{}) {
		mu.Lock()
		trace = append(trace, ev{point, key})
		mu.Unlock()
	}
	defer func() { actionlint.VerifTrace = nil }()
	shells := []string{"", "", "bash", "sh", "python", "pwsh", "bash -e {0}", "python {0}", "cmd", "sh -e {0}", "sh {0}", "bash --noprofile --norc -eo pipefail {0}", "shx {0}", "bashful"}
	dirs := []string{"ok", "ok", "ok", "issues=1", "issues=3", "crash", "kill", "garbage", "empty", "killissues"}
	for set := 0; set < nSets; set++ {
		nFiles := 1 + rng.Intn(4)
		failures := rng.Intn(3) == 0 // only a third of the sets contain failing invocations
		big := set == 1
		var files []*c20File
		// directed set: no default shell at workflow or job level, one job per runner-label spelling, steps without and with
		// their own shell: the runner default decides
		if set == 2 {
			nFiles = 0
			f := &c20File{}
			for _, lbls := range c20LabelPool {
				j := c20Job{labels: lbls}
				for _, l := range lbls {
					ll := strings.ToLower(l)
					if ll == "windows" || strings.HasPrefix(ll, "windows-") {
						j.windows = true
					}
				}
				for _, sh := range []string{"", "bash", "", "python"} {
					j.steps = append(j.steps, c20Step{shell: sh, directive: "ok", sleepMs: 1, script: "echo hello"})
				}
				f.jobs = append(f.jobs, j)
			}
			files = append(files, f)
		}
		// directed set: every shell spelling (bare name, custom template with options, a longer word with the same prefix)
		// once at step, once at job and once at workflow level; no failing invocation, so delivery is checked
		if set == 3 {
			nFiles = 0
			f := &c20File{}
			j := c20Job{}
			for _, sh := range shells[2:] {
				j.steps = append(j.steps, c20Step{shell: sh, directive: "ok", sleepMs: 1, script: "echo step " + sh})
			}
			f.jobs = append(f.jobs, j)
			for _, sh := range shells[2:] {
				f.jobs = append(f.jobs, c20Job{defShell: sh, steps: []c20Step{{directive: "ok", sleepMs: 1, script: "echo job " + sh}}})
			}
			files = append(files, f)
			for _, sh := range shells[2:] {
				// workflow default + a job whose defaults.run has no shell (the workflow's shell still applies) + a job with its own
				// shell + a job without defaults after it (what the rule remembers about the previous job must not leak)
				files = append(files, &c20File{defShell: sh, jobs: []c20Job{
					{steps: []c20Step{{directive: "ok", sleepMs: 1, script: "echo wf " + sh}}},
					{defWD: true, steps: []c20Step{{directive: "ok", sleepMs: 1, script: "echo wf-wd " + sh}}},
					{defShell: "bash", steps: []c20Step{{directive: "ok", sleepMs: 1, script: "echo wf-job-bash " + sh}}},
					{steps: []c20Step{{directive: "ok", sleepMs: 1, script: "echo wf-after " + sh}}},
					{defShell: "python", defWD: true, steps: []c20Step{{directive: "ok", sleepMs: 1, script: "x = 1 # " + sh}}},
					{defWD: true, steps: []c20Step{{directive: "ok", sleepMs: 1, script: "echo wf-wd-after-python " + sh}}},
				}})
			}
		}
		for fi := 0; fi < nFiles; fi++ {
			f := &c20File{defShell: shells[rng.Intn(6)], defWD: rng.Intn(3) == 0}
			nj := 1 + rng.Intn(3)
			for ji := 0; ji < nj; ji++ {
				j := c20Job{defShell: shells[rng.Intn(6)], defWD: rng.Intn(3) == 0}
				// runner labels: GitHub-hosted names and the labels of self-hosted runners (GitHub spells the default ones
				// `self-hosted`, `Windows`, `Linux`, `X64`), and names that merely contain the word
				j.labels = c20LabelPool[rng.Intn(len(c20LabelPool))]
				for _, l := range j.labels {
					ll := strings.ToLower(l)
					if ll == "windows" || strings.HasPrefix(ll, "windows-") {
						j.windows = true
					}
				}
				ns := rng.Intn(6)
				if big {
					ns = 12
				}
				for si := 0; si < ns; si++ {
					d := dirs[rng.Intn(5)]
					if failures && rng.Intn(4) == 0 {
						d = dirs[5+rng.Intn(5)]
					}
					st := c20Step{shell: shells[rng.Intn(len(shells))], directive: d, sleepMs: rng.Intn(40)}
					if big {
						st.shell, st.directive, st.sleepMs = "bash", "ok", 60
					}
					st.script = []string{"echo ${{ github.sha }}", "echo hello", "x=${{ matrix.a }}\necho \"$x\" ${{ env.Y }}", "print(${{ 1 }})", "echo '${{' unclosed"}[rng.Intn(5)]
					j.steps = append(j.steps, st)
				}
				f.jobs = append(f.jobs, j)
			}
			files = append(files, f)
		}
		// write files
		dir := filepath.Join(tmp, fmt.Sprintf("set%d", set))
		os.MkdirAll(dir, 0o755)
		var paths []string
		type expect struct {
			tool   string // shellcheck | pyflakes
			stdin  string
			dir    string
			runPos string
			sh     string // shellcheck: the value expected after --shell
		}
		var expects []expect
		// the decisions of the proved model (AL.ShellVisit, theorems AL.Props.C20Shell): per file, per job, per step the
		// shell handed to shellcheck and whether pyflakes gets the script
		var svLines []string
		for _, f := range files {
			optS := func(v string) string {
				if v == "" {
					return "N"
				}
				return hx(v)
			}
			var js []string
			for _, j := range f.jobs {
				var ss []string
				for _, st := range j.steps {
					ss = append(ss, fmt.Sprintf("(%s,1)", optS(st.shell)))
				}
				var lbls []string
				for _, l := range j.labels {
					lbls = append(lbls, hx(l))
				}
				h := 0
				if j.defShell != "" || j.defWD {
					h = 1
				}
				stepsS := "E"
				if len(ss) > 0 {
					stepsS = sexpList(ss)
				}
				js = append(js, fmt.Sprintf("(%d,%s,%s,%s)", h, optS(j.defShell), sexpList(lbls), stepsS))
			}
			h := 0
			if f.defShell != "" || f.defWD {
				h = 1
			}
			svLines = append(svLines, fmt.Sprintf("shellvisit (%d,%s,%s)", h, optS(f.defShell), sexpList(js)))
		}
		svOut, err := runModel(c.driver, svLines)
		if err != nil {
			return err
		}
		// the same decisions from the DOCUMENT: parser model, then AL.C20D.shellView (what the two rules read of the AST), then the
		// visitor models (op `shellvisitdoc`; AL.C20D.doc_sc_handed_written / doc_py_handed_written are about this composition).
		// It must give what the model gives when fed with the harness's own description of the file.
		var svdLines []string
		for fi, f := range files {
			var rootNode yaml.Node
			if err := yaml.Unmarshal([]byte(f.yaml(fi)), &rootNode); err != nil {
				return err
			}
			nums := map[string]bool{}
			node := nodeSexp(&rootNode, nums)
			exNumbers(&rootNode, nums)
			svdLines = append(svdLines, "shellvisitdoc "+numsSexp(nums)+" "+node)
		}
		svdOut, err := runModel(c.driver, svdLines)
		if err != nil {
			return err
		}
		for fi := range svdOut {
			r.Evaluations++
			if svdOut[fi] != svOut[fi] {
				r.disagree(Case{Op: "shellvisitdoc", Input: map[string]string{"workflow": files[fi].yaml(fi)}, Impl: svOut[fi] + " (the visitor model fed with the generator's description of the file)", Model: svdOut[fi]})
			}
			r.hist("shellvisitdoc:agrees-with-shellvisit")
		}
		modelDecision := func(fi, ji, si int) (string, bool) {
			jobs := strings.Split(svOut[fi], ";")
			if ji >= len(jobs) {
				return "?", false
			}
			steps := strings.Split(jobs[ji], ",")
			if si >= len(steps) {
				return "?", false
			}
			p := strings.SplitN(steps[si], "/", 2)
			if len(p) != 2 {
				return "?", false
			}
			return p[0], p[1] == "1"
		}
		for fi, f := range files {
			p := filepath.Join(dir, fmt.Sprintf("w%d.yml", fi))
			src := f.yaml(fi)
			os.WriteFile(p, []byte(src), 0o644)
			paths = append(paths, p)
			for ji, j := range f.jobs {
				for si, s := range j.steps {
					script := s.script + "\n" + fmt.Sprintf("# id f%dj%ds%d STUB:%s SLEEP:%d", fi, ji, si, s.directive, s.sleepMs) + "\n"
					eff := effShell(s.shell, j.defShell, f.defShell, j.windows)
					sh := ""
					switch {
					case eff == "bash" || eff == "sh":
						sh = eff
					case strings.HasPrefix(eff, "bash "):
						sh = "bash"
					case strings.HasPrefix(eff, "sh "):
						sh = "sh"
					}
					// the model decides; the harness's own derivation above is only a cross-check of the encoding
					mSh, mPy := modelDecision(fi, ji, si)
					goSh := sh
					if goSh == "" {
						goSh = "-"
					}
					goPy := func() bool {
						pk := func(v string) int {
							if v == "" {
								return 0
							}
							if v == "python" || strings.HasPrefix(v, "python ") {
								return 1
							}
							return 2
						}
						switch {
						case pk(s.shell) != 0:
							return pk(s.shell) == 1
						case pk(j.defShell) != 0:
							return pk(j.defShell) == 1
						default:
							return pk(f.defShell) == 1
						}
					}()
					if mSh != goSh || mPy != goPy {
						r.disagree(Case{Op: "shellvisit", Input: map[string]string{"workflow": f.yaml(fi), "step": fmt.Sprintf("f%dj%ds%d", fi, ji, si)}, Impl: fmt.Sprintf("%s/%v (harness derivation)", goSh, goPy), Model: fmt.Sprintf("%s/%v", mSh, mPy)})
					}
					sh = mSh
					if sh == "-" {
						sh = ""
					}
					if sh != "" {
						setup := "set -e"
						if sh == "bash" {
							setup = "set -eo pipefail"
						}
						expects = append(expects, expect{"shellcheck", setup + "\n" + actionlint.VerifSanitizeExpressionsInScript(script) + "\n", s.directive, "", sh})
					}
					// pyflakes: step shell, then job default, then workflow default
					py := false
					pk := func(v string) int {
						if v == "" {
							return 0
						}
						if v == "python" || strings.HasPrefix(v, "python ") {
							return 1
						}
						return 2
					}
					switch {
					case pk(s.shell) != 0:
						py = pk(s.shell) == 1
					case pk(j.defShell) != 0:
						py = pk(j.defShell) == 1
					default:
						py = pk(f.defShell) == 1
					}
					py = mPy
					if py {
						expects = append(expects, expect{"pyflakes", actionlint.VerifSanitizeExpressionsInScript(script), s.directive, "", ""})
					}
				}
			}
		}
		logPath := filepath.Join(dir, "stub.log")
		os.Setenv("VERIF_STUB_LOG", logPath)
		mu.Lock()
		trace = nil
		mu.Unlock()
		var out bytes.Buffer
		l, err := actionlint.NewLinter(&out, &actionlint.LinterOptions{Shellcheck: stub + " --as-shellcheck", Pyflakes: stub + " --as-pyflakes", Color: actionlint.ColorOptionKindNever, Oneline: true})
		if err != nil {
			return err
		}
		var errs []*actionlint.Error
		var lerr error
		pmsg, to := guarded(120*time.Second, func() { errs, lerr = l.LintFiles(paths, nil) })
		retTime := time.Now().UnixNano()
		r.Evaluations++
		desc := map[string]string{"files": fmt.Sprint(nFiles), "invocations_expected": fmt.Sprint(len(expects)), "dir": filepath.Base(dir)}
		for fi, f := range files {
			desc[fmt.Sprintf("w%d.yml", fi)] = f.yaml(fi)
		}
		mk := func(note string) Case { return Case{Op: "lintfiles+stub", Input: desc, Note: note} }
		if pmsg != "" || to {
			cs := mk(pmsg)
			if to {
				cs.Note = "timeout: LintFiles did not return within 120 s"
			}
			r.Crashes = append(r.Crashes, cs)
			continue
		}
		if len(expects) >= 2 {
			r.nontrivial(fmt.Sprintf("set%d:%d", set, len(expects)))
		}
		time.Sleep(30 * time.Millisecond) // stragglers (if any) get a chance to write their record
		var recs []stubRec
		if fh, err := os.Open(logPath); err == nil {
			sc := bufio.NewScanner(fh)
			sc.Buffer(make([]byte, 1<<20), 1<<24)
			for sc.Scan() {
				var rec stubRec
				if json.Unmarshal(sc.Bytes(), &rec) == nil {
					recs = append(recs, rec)
				}
			}
			fh.Close()
		}
		anyFail := false
		for _, e := range expects {
			switch e.dir {
			case "crash", "kill", "killissues":
				anyFail = true
			case "garbage":
				if e.tool == "shellcheck" {
					anyFail = true
				}
			case "empty":
				if e.tool == "shellcheck" {
					anyFail = true // empty output is not JSON
				}
			}
		}
		r.hist(fmt.Sprintf("set:fatal=%v", lerr != nil))
		// exactly-once delivery with the exact stdin (only meaningful when no fatal error cut the run short)
		got := map[string]int{}
		for _, rec := range recs {
			tool := "pyflakes"
			for _, a := range rec.Args {
				if a == "--as-shellcheck" {
					tool = "shellcheck"
				}
			}
			if tool == "shellcheck" {
				// the dialect shellcheck is told to assume travels in the arguments, not in the script
				for i, a := range rec.Args {
					if a == "--shell" && i+1 < len(rec.Args) {
						tool += " --shell " + rec.Args[i+1]
					}
				}
			}
			got[tool+"|"+rec.Stdin]++
		}
		want := map[string]int{}
		for _, e := range expects {
			t := e.tool
			if t == "shellcheck" {
				t += " --shell " + e.sh
			}
			want[t+"|"+hex.EncodeToString([]byte(e.stdin))]++
		}
		if !anyFail {
			for k, n := range want {
				if got[k] != n {
					parts := strings.SplitN(k, "|", 2)
					sb, _ := hex.DecodeString(parts[1])
					r.finding("script-not-delivered-once", fmt.Sprintf("%s received the expected script %d times (want %d): %q", parts[0], got[k], n, truncate(string(sb), 120)), mk(""))
				}
			}
			for k, n := range got {
				if want[k] == 0 {
					parts := strings.SplitN(k, "|", 2)
					sb, _ := hex.DecodeString(parts[1])
					r.finding("script-unexpected", fmt.Sprintf("%s received an unexpected script (%d times): %q", parts[0], n, truncate(string(sb), 120)), mk(""))
				}
			}
		}
		// concurrency bound from the stub's own clock
		type pt struct {
			t int64
			d int
		}
		var pts []pt
		for _, rec := range recs {
			pts = append(pts, pt{rec.Start, 1}, pt{rec.End, -1})
		}
		sort.Slice(pts, func(i, j int) bool {
			if pts[i].t == pts[j].t {
				return pts[i].d < pts[j].d
			}
			return pts[i].t < pts[j].t
		})
		cur, max := 0, 0
		for _, p := range pts {
			cur += p.d
			if cur > max {
				max = cur
			}
		}
		r.hist(fmt.Sprintf("overlap:%d", max))
		if max > cpus {
			r.finding("too-many-processes", fmt.Sprintf("%d tool processes overlapped (NumCPU = %d)", max, cpus), mk(""))
		}
		for _, rec := range recs {
			if rec.End > retTime {
				if anyFail {
					r.finding("fatal-return-before-collected", "LintFiles returned its fatal error while another tool process was still running (the rule's VisitWorkflowPost / proc.wait() is skipped on the error path)", mk(""))
				} else {
					r.finding("returned-before-collected", "a tool process was still running when LintFiles returned", mk(""))
				}
				break
			}
		}
		// outcomes
		if anyFail && lerr == nil {
			r.finding("failure-not-fatal", "a tool invocation crashed / was killed / printed garbage but LintFiles returned no error", mk(""))
		}
		if !anyFail && lerr != nil {
			r.finding("spurious-fatal", "LintFiles failed although every tool invocation behaved: "+lerr.Error(), mk(""))
		}
		if !anyFail && lerr == nil {
			wantIssues := 0
			for _, e := range expects {
				if strings.HasPrefix(e.dir, "issues=") {
					n := 0
					fmt.Sscanf(e.dir, "issues=%d", &n)
					wantIssues += n
				}
			}
			gotIssues := 0
			for _, e := range errs {
				if e.Kind == "shellcheck" || e.Kind == "pyflakes" {
					gotIssues++
				}
			}
			if gotIssues != wantIssues {
				r.finding("issue-count", fmt.Sprintf("tools printed %d issues, %d shellcheck/pyflakes diagnostics were reported", wantIssues, gotIssues), mk(""))
			}
		}
		// trace validation against the model
		mu.Lock()
		tr := append([]ev{}, trace...)
		mu.Unlock()
		ids := map[interface{}]int{}
		var acts []string
		sawEg := false
		for _, e := range tr {
			switch e.point {
			case "submit":
				ids[e.key] = len(ids)
				acts = append(acts, fmt.Sprintf("s%d", ids[e.key]))
			case "acquire":
				acts = append(acts, fmt.Sprintf("a%d", ids[e.key]))
			case "finish":
				acts = append(acts, fmt.Sprintf("f%d", ids[e.key]))
			case "callback":
				acts = append(acts, fmt.Sprintf("c%d", ids[e.key]))
			case "egWait":
				acts = append(acts, "v", "e")
				sawEg = true
			case "procWait":
				if !sawEg { // single-file path: LintFile calls proc.wait() directly after check
					acts = append(acts, "v", "e")
					sawEg = true
				}
				acts = append(acts, "p")
			}
		}
		if lerr == nil {
			acts = append(acts, "r")
		}
		if len(acts) > 0 && !(anyFail && lerr != nil) {
			line := fmt.Sprintf("proctrace %d %d %s", cpus, len(ids), strings.Join(acts, ","))
			out, err := runModel(c.driver, []string{line})
			if err != nil {
				return err
			}
			r.Evaluations++
			if !strings.HasPrefix(out[0], "ok ") || !strings.Contains(out[0], "returned=true") || !strings.Contains(out[0], "running=0 wg=0") {
				cs := mk("trace: " + strings.Join(acts, ","))
				cs.Model = out[0]
				cs.Impl = "observed schedule"
				r.disagree(cs)
			}
		}
		if set < 2 {
			r.sample(map[string]interface{}{"op": "lintfiles+stub", "files": nFiles, "invocations": len(recs), "max_overlap": max, "fatal": lerr != nil, "trace_len": len(acts)})
		}
		os.RemoveAll(dir)
	}
	// (2b) "all of them have finished and been collected before results are returned" on the error paths of every entry
	// point: ONE file with a bash step whose tool fails fatally at once and a python step whose tool is slow; through
	// LintFile, LintFiles([one file]) and LintFiles([two files]) — no tool process may still be running at the return
	{
		dir := filepath.Join(tmp, "fatal-slow")
		os.MkdirAll(dir, 0o755)
		mkSrc := func(tag string) string {
			return "on: push\njobs:\n  j:\n    runs-on: ubuntu-latest\n    steps:\n      - run: |\n          echo a\n          # id " + tag + "a STUB:garbage SLEEP:0\n      - shell: python\n        run: |\n          x = 1\n          # id " + tag + "b STUB:ok SLEEP:400\n      - shell: python\n        run: |\n          y = 2\n          # id " + tag + "c STUB:ok SLEEP:400\n"
		}
		p1, p2 := filepath.Join(dir, "one.yml"), filepath.Join(dir, "two.yml")
		os.WriteFile(p1, []byte(mkSrc("1")), 0o644)
		os.WriteFile(p2, []byte(mkSrc("2")), 0o644)
		for _, mode := range []string{"LintFile", "LintFiles-1", "LintFiles-2"} {
			logPath := filepath.Join(dir, "stub-"+mode+".log")
			os.Remove(logPath)
			os.Setenv("VERIF_STUB_LOG", logPath)
			var out bytes.Buffer
			l, err := actionlint.NewLinter(&out, &actionlint.LinterOptions{Shellcheck: stub + " --as-shellcheck", Pyflakes: stub + " --as-pyflakes", Color: actionlint.ColorOptionKindNever, Oneline: true})
			if err != nil {
				return err
			}
			var lerr error
			pmsg, to := guarded(60*time.Second, func() {
				switch mode {
				case "LintFile":
					_, lerr = l.LintFile(p1, nil)
				case "LintFiles-1":
					_, lerr = l.LintFiles([]string{p1}, nil)
				default:
					_, lerr = l.LintFiles([]string{p1, p2}, nil)
				}
			})
			retTime := time.Now().UnixNano()
			r.Evaluations++
			cs := Case{Op: "lint-fatal-while-slow-tool-runs", Input: map[string]string{"entry_point": mode, "workflow": mkSrc("1")}}
			if pmsg != "" || to {
				cs.Note = pmsg
				r.Crashes = append(r.Crashes, cs)
				continue
			}
			r.nontrivial("fatal-slow:" + mode)
			if lerr == nil {
				r.finding("failure-not-fatal", "shellcheck printed non-JSON but "+mode+" returned no error", cs)
			}
			time.Sleep(700 * time.Millisecond) // stragglers (if any) finish and write their record
			late := 0
			if fh, err := os.Open(logPath); err == nil {
				sc := bufio.NewScanner(fh)
				sc.Buffer(make([]byte, 1<<20), 1<<24)
				for sc.Scan() {
					var rec stubRec
					if json.Unmarshal(sc.Bytes(), &rec) == nil && rec.End > retTime {
						late++
					}
				}
				fh.Close()
			}
			r.hist(fmt.Sprintf("fatal-slow:%s:late=%d", mode, late))
			if late > 0 {
				r.finding("fatal-return-before-collected", fmt.Sprintf("%s returned its fatal error while %d tool process(es) were still running", mode, late), cs)
			}
		}
		r.Rule += "; (2b) one file with a tool that fails fatally at once and a slow tool, through LintFile / LintFiles([1 file]) / LintFiles([2 files]): no tool process alive at the return"
	}
	// (3) outcome table: one invocation per (tool, output, termination); the observed outcome (fatal error / number of
	// tool diagnostics) against the model's shellcheckCallback / pyflakesCallback on the same (outcome, stdout).
	// no_silent_drop: a signalled tool, a tool that cannot be started, non-zero exit without output and (shellcheck)
	// non-JSON output are fatal in the model, so an implementation that differs there drops diagnostics silently.
	b.judge = func(cs Case) (string, string) {
		if !strings.HasPrefix(cs.Op, "toolresult") {
			return "", ""
		}
		if cs.Model == "fatal" && cs.Impl != "fatal" {
			return "failure-not-fatal", "a tool invocation that was killed / could not start / failed without usable output did not yield a fatal error (implementation: " + cs.Impl + ")"
		}
		if cs.Model != "fatal" && cs.Impl != cs.Model {
			return "issue-count", "tool output was turned into " + cs.Impl + ", the model (one diagnostic per issue printed) gives " + cs.Model
		}
		return "", ""
	}
	for _, tool := range []string{"sc", "py"} {
		for _, o := range []string{"none", "issues1", "issues3", "garbage", "partial"} {
			for _, t := range []string{"exit0", "exit1", "exit3", "kill", "cannotstart"} {
				dir := filepath.Join(tmp, "outcome")
				os.MkdirAll(dir, 0o755)
				logPath := filepath.Join(dir, "stub.log")
				os.Remove(logPath)
				os.Setenv("VERIF_STUB_LOG", logPath)
				shell := "bash"
				if tool == "py" {
					shell = "python"
				}
				src := fmt.Sprintf("on: push\njobs:\n  j:\n    runs-on: ubuntu-latest\n    steps:\n      - shell: %s\n        run: |\n          x = 1\n          # STUB:o=%s,t=%s\n", shell, o, t)
				p := filepath.Join(dir, "w.yml")
				os.WriteFile(p, []byte(src), 0o644)
				sc, py := "", ""
				exe := stub
				if t == "cannotstart" {
					// an existing file that cannot be executed: passes the LookPath of NewLinter? it does not, so use a
					// file that is executable but not a valid program
					exe = filepath.Join(dir, "notaprogram")
					os.WriteFile(exe, []byte("\x00\x01not an executable"), 0o755)
				}
				if tool == "sc" {
					sc = exe + " --as-shellcheck"
					if t == "cannotstart" {
						sc = exe
					}
				} else {
					py = exe + " --as-pyflakes"
					if t == "cannotstart" {
						py = exe
					}
				}
				var out bytes.Buffer
				l, err := actionlint.NewLinter(&out, &actionlint.LinterOptions{Shellcheck: sc, Pyflakes: py, Color: actionlint.ColorOptionKindNever, Oneline: true})
				if err != nil {
					return err
				}
				var errs []*actionlint.Error
				var lerr error
				pmsg, to := guarded(60*time.Second, func() { errs, lerr = l.LintFiles([]string{p}, nil) })
				r.Evaluations++
				cs := Case{Op: "toolresult " + tool, Input: map[string]string{"tool": tool, "output": o, "termination": t, "workflow": src}}
				if pmsg != "" || to {
					cs.Note = pmsg
					r.Crashes = append(r.Crashes, cs)
					continue
				}
				impl := "fatal"
				if lerr == nil {
					n := 0
					for _, e := range errs {
						if e.Kind == "shellcheck" || e.Kind == "pyflakes" {
							n++
						}
					}
					impl = fmt.Sprintf("diags %d", n)
				} else {
					cs.Note = lerr.Error()
				}
				// what the tool printed (from its own log), and what encoding/json makes of it
				stdoutHex := "-"
				if fh, err := os.Open(logPath); err == nil {
					scn := bufio.NewScanner(fh)
					scn.Buffer(make([]byte, 1<<20), 1<<24)
					for scn.Scan() {
						var rec stubRec
						if json.Unmarshal(scn.Bytes(), &rec) == nil && rec.Out != "" {
							stdoutHex = rec.Out
						}
					}
					fh.Close()
				}
				js := "N"
				if raw, err := hex.DecodeString(strings.TrimPrefix(stdoutHex, "-")); err == nil {
					var items []map[string]interface{}
					if json.Unmarshal(raw, &items) == nil {
						js = fmt.Sprint(len(items))
					}
				}
				term, code := "exited", "0"
				switch t {
				case "exit1":
					code = "1"
				case "exit3":
					code = "3"
				case "kill":
					term = "signaled"
				case "cannotstart":
					term, stdoutHex, js = "cannotstart", "-", "N"
				}
				r.hist("outcome:" + impl[:5])
				r.nontrivial("outcome:" + tool + o + t)
				b.add(fmt.Sprintf("toolresult %s %s %s %s %s", tool, term, code, stdoutHex, js), impl, cs)
			}
		}
	}
	_, err = b.flush(c, r)
	return err
}
