package main

import (
	"fmt"
	"os"
	"path/filepath"
	"sort"
	"strings"

	"github.com/rhysd/actionlint"
	"gopkg.in/yaml.v3"
)

func init() { props["C03"] = runC03 }

var badPlaceholders = []string{"${{ (( }}", "${{ a b }}", "${{ }}", "x ${{ 'unterminated }} y"}

// notEvaluated: scalar positions whose value is not an expression template (a diagnostic is still
// required there, but it need not be an expression syntax error).
func notEvaluated(keys []string) bool {
	g := genericKeyPath(keys)
	last := keys[len(keys)-1]
	switch {
	case strings.HasPrefix(g, "permissions.") || strings.Contains(g, ".permissions.") || g == "permissions" || strings.HasSuffix(g, ".permissions"): // per-scope values and the read-all / write-all form
		return true
	case last == "type" && (strings.Contains(g, ".inputs.")):
		return true
	case last == "secrets" && len(keys) == 3: // jobs.<id>.secrets: inherit
		return true
	case g == "on" || strings.HasPrefix(g, "on.[]"): // event names given as a scalar / list
		return true
	}
	return false
}

func runC03(c *ctx, r *Report) error {
	r.Rule = "three hand-written workflows that lint clean and together use every section and key of the workflow syntax (all events with filters and inputs/secrets/outputs, permissions, env, defaults, concurrency, every job key incl. strategy.matrix with include/exclude, container and services with credentials/env/ports/volumes/options, environment, runs-on group/labels, reusable-workflow calls, every step key incl. docker entrypoint/args); for EVERY scalar that is a mapping value or sequence element, the YAML tree is rewritten with that scalar replaced by a malformed placeholder (4 shapes), re-emitted and linted by the real linter: a diagnostic must sit on that scalar, and be an [expression] syntax error wherever the value is an expression template; the same again with the key/value pair moved to every other position of its mapping (sibling order), with each sibling key left out, and with no sibling at all (where the workflow stays clean); non-trivial = distinct (file, key path, placeholder) mutations"
	type miss struct{ key, desc string }
	sitesTotal, sitesEvaluated := 0, 0
	names := []string{"a.yml", "b.yml", "c.yml"}
	bases := map[string]string{}
	for k, v := range wfBases {
		bases[k] = v
	}
	// every workflow of the project's own test data that lints clean here is a further premise
	var corpus []string
	for _, d := range []string{"ok", "examples"} {
		m, _ := filepath.Glob(filepath.Join("/repo/testdata", d, "*.yaml"))
		corpus = append(corpus, m...)
	}
	sort.Strings(corpus)
	nCorpus := 0
	for _, f := range corpus {
		b, err := os.ReadFile(f)
		if err != nil {
			continue
		}
		if errs, err := lintSrc(filepath.Base(f), string(b)); err != nil || len(errs) > 0 {
			continue
		}
		if _, err := parseYAML(string(b)); err != nil {
			continue
		}
		n := "testdata/" + filepath.Base(filepath.Dir(f)) + "/" + filepath.Base(f)
		bases[n] = string(b)
		names = append(names, n)
		nCorpus++
	}
	r.Rule += fmt.Sprintf("; the same for the %d workflows under /repo/testdata/{ok,examples} that lint clean (first placeholder shape, order as written%s)", nCorpus, map[bool]string{true: "", false: " and all sibling orders"}[c.quick])
	for _, name := range names {
		base := bases[name]
		isCorpus := strings.HasPrefix(name, "testdata/")
		if errs, err := lintSrc(name, base); err != nil || len(errs) > 0 {
			msg := ""
			if len(errs) > 0 {
				msg = errs[0].Error()
			}
			r.finding("base-not-clean", "base workflow "+name+" does not lint clean: "+msg, Case{Op: "lint", Input: map[string]string{"file": name}})
			continue
		}
		root, err := parseYAML(base)
		if err != nil {
			return err
		}
		var visits []yvisit
		walkYAML(root, nil, nil, &visits)
		for _, v := range visits {
			if v.isKey || v.node.Kind != yaml.ScalarNode || len(v.keys) == 0 {
				continue
			}
			if v.node.Tag == "!!null" {
				continue // `issues:` — an event without configuration, not a scalar value of the syntax
			}
			sitesTotal++
			evaluated := !notEvaluated(v.keys)
			if evaluated {
				sitesEvaluated++
			}
			gk := genericKeyPath(v.keys)
			r.hist("site:" + strings.SplitN(gk, ".", 2)[0])
			// sibling configurations: besides the order as written, the key/value pair is moved to every other
			// position of its mapping (a parser that threads state from one key to the next is order sensitive)
			type variant struct {
				pos  int // target pair index, -1 = as written
				path ypath
				drop int // pair index of a sibling that is left out (-1 = none, -2 = all siblings)
			}
			variants := []variant{{-1, v.path, -1}}
			if par := nodeAt(root, v.path[:len(v.path)-1]); par != nil && par.Kind == yaml.MappingNode && len(par.Content) > 2 {
				own := v.path[len(v.path)-1]
				for k := 0; k < len(par.Content)/2; k++ {
					if 2*k+1 != own {
						variants = append(variants, variant{k, append(append(ypath{}, v.path[:len(v.path)-1]...), 2*k+1), -1})
					}
				}
				// … and with each sibling key left out, and with no sibling at all (a check that is skipped unless some
				// OTHER key is present stays invisible while every key is there)
				for k := 0; k < len(par.Content)/2; k++ {
					if 2*k+1 != own {
						idx := own
						if 2*k+1 < own {
							idx -= 2
						}
						variants = append(variants, variant{-1, append(append(ypath{}, v.path[:len(v.path)-1]...), idx), k})
					}
				}
				variants = append(variants, variant{-1, append(append(ypath{}, v.path[:len(v.path)-1]...), 1), -2})
			}
			for vi, va := range variants {
				for bi, bad := range badPlaceholders {
					if vi > 0 && bi > 0 && (c.quick || bi > 1) {
						continue
					}
					if isCorpus && (bi > 0 || (vi > 0 && c.quick)) {
						continue
					}
					m := cloneNode(root)
					if va.drop != -1 {
						par := nodeAt(m, v.path[:len(v.path)-1])
						i := v.path[len(v.path)-1]
						if va.drop == -2 {
							par.Content = []*yaml.Node{par.Content[i-1], par.Content[i]}
						} else {
							par.Content = append(append([]*yaml.Node{}, par.Content[:2*va.drop]...), par.Content[2*va.drop+2:]...)
						}
						if bi == 0 {
							// premise: the workflow without that sibling is still clean
							if csrc, err := emitYAML(m); err != nil {
								return err
							} else if cerrs, cerr := lintSrc(name, csrc); cerr != nil || len(cerrs) > 0 {
								r.hist("sibling-dropped-base-not-clean")
								break
							}
							r.hist("sibling-dropped")
						}
					}
					if va.pos >= 0 {
						par := nodeAt(m, v.path[:len(v.path)-1])
						i := v.path[len(v.path)-1]
						kn, vn := par.Content[i-1], par.Content[i]
						rest := append(append([]*yaml.Node{}, par.Content[:i-1]...), par.Content[i+1:]...)
						nc := append([]*yaml.Node{}, rest[:2*va.pos]...)
						nc = append(nc, kn, vn)
						nc = append(nc, rest[2*va.pos:]...)
						par.Content = nc
						if vi > 0 && bi == 0 {
							// the reordered workflow itself must still be clean, otherwise the premise does not hold
							if csrc, err := emitYAML(m); err != nil {
								return err
							} else if cerrs, cerr := lintSrc(name, csrc); cerr != nil || len(cerrs) > 0 {
								r.hist("reordered-base-not-clean")
								break
							}
						}
					}
					vpath := va.path
					n := nodeAt(m, vpath)
					n.Kind, n.Tag, n.Value, n.Style = yaml.ScalarNode, "!!str", bad, 0
					n.Content = nil
					src, err := emitYAML(m)
					if err != nil {
						return err
					}
					// where did the scalar land?
					root2, err := parseYAML(src)
					if err != nil {
						return fmt.Errorf("re-emitted YAML does not parse: %v", err)
					}
					n2 := nodeAt(root2, vpath)
					if n2 == nil || n2.Value != bad {
						return fmt.Errorf("lost track of mutated node at %v", v.keys)
					}
					errs, lerr := lintSrc(name, src)
					r.Evaluations++
					r.nontrivial(fmt.Sprintf("%s:%s:%s:%d:%d", name, strings.Join(v.keys, "."), bad, va.pos, va.drop))
					if va.pos >= 0 {
						r.hist("reordered")
					}
					mk := func(note string) Case {
						return Case{Op: "lint-mutated", Input: map[string]string{"file": name, "key_path": strings.Join(v.keys, "."), "placeholder": bad, "yaml": src, "scalar_at": fmt.Sprintf("%d:%d", n2.Line, n2.Column)}, Note: note}
					}
					if lerr != nil {
						r.Crashes = append(r.Crashes, mk(lerr.Error()))
						continue
					}
					width := len(bad) + 2
					at, atExpr := false, false
					for _, e := range errs {
						if e.Line == n2.Line && e.Column >= n2.Column && e.Column <= n2.Column+width {
							at = true
							if e.Kind == "expression" {
								atExpr = true
							}
						}
					}
					key := "placeholder-unchecked:" + gk
					if !at {
						var others []string
						for _, e := range errs {
							others = append(others, e.Error())
						}
						r.finding(key, fmt.Sprintf("malformed placeholder at %s (%d:%d) produces no diagnostic located at that scalar", strings.Join(v.keys, "."), n2.Line, n2.Column), mk(strings.Join(others, " || ")))
					} else if evaluated && !atExpr && strings.HasPrefix(bad, "${{") {
						// (a placeholder embedded in other text is only a template where a string is expected; at
						// bool / number / mapping-or-expression positions it is a type error of the parser)
						r.finding("placeholder-no-syntax-error:"+gk, fmt.Sprintf("malformed placeholder at %s is diagnosed, but not as an expression syntax error", strings.Join(v.keys, ".")), mk(""))
					}
				}
			}
		}
	}
	r.Notes = append(r.Notes, fmt.Sprintf("scalar value positions: %d (%d evaluated as expression templates)", sitesTotal, sitesEvaluated))
	r.Exhaustive = true
	keys := make([]string, 0)
	for k := range r.Histogram {
		keys = append(keys, k)
	}
	sort.Strings(keys)
	r.sample(map[string]string{"file": "a.yml", "key_path": "jobs.build.container.volumes.[0]", "placeholder": "${{ (( }}"})
	r.sample(map[string]string{"file": "b.yml", "key_path": "on.workflow_call.secrets.token.required", "placeholder": "${{ a b }}"})
	// "the workflow parser stores each scalar … so that rules can inspect them": every scalar value of a clean workflow
	// (mapping values and sequence elements) is the position of some node of the AST the parser returns — in the order as
	// written and with every pair of every mapping moved to the front (generic walk over the AST by reflection)
	{
		lost := 0
		for _, name := range names {
			root, err := parseYAML(bases[name])
			if err != nil {
				continue
			}
			var visits []yvisit
			walkYAML(root, nil, nil, &visits)
			var trees []*yaml.Node
			var what []string
			trees, what = append(trees, root), append(what, "as written")
			if !strings.HasPrefix(name, "testdata/") || !c.quick {
				for _, v := range visits {
					if v.isKey || v.node.Kind != yaml.MappingNode || len(v.node.Content) < 4 {
						continue
					}
					m := cloneNode(root)
					n := nodeAt(m, v.path)
					k := len(n.Content) - 2
					n.Content = append([]*yaml.Node{n.Content[k], n.Content[k+1]}, n.Content[:k]...)
					trees, what = append(trees, m), append(what, "last pair of "+strings.Join(v.keys, ".")+" moved to the front")
				}
			}
			for ti, tr := range trees {
				src, err := emitYAML(tr)
				if err != nil {
					continue
				}
				re, err := parseYAML(src)
				if err != nil {
					continue
				}
				w, perrs := actionlint.Parse([]byte(src))
				r.Evaluations++
				if w == nil || len(perrs) > 0 {
					continue
				}
				pos := astPositions(w)
				var vs []yvisit
				walkYAML(re, nil, nil, &vs)
				for _, v := range vs {
					if v.isKey || v.node.Kind != yaml.ScalarNode || len(v.keys) == 0 || v.node.Tag == "!!null" {
						continue
					}
					r.hist("ast-scalar")
					// kept as an enumeration value / a flag, not as a positioned string (the property's own exemptions):
					// the `type` of an input, `secrets: inherit`
					isInputType := v.keys[len(v.keys)-1] == "type" && len(v.keys) >= 3 && v.keys[len(v.keys)-3] == "inputs"
					isInherit := len(v.keys) == 3 && v.keys[0] == "jobs" && v.keys[2] == "secrets"
					if isInputType || isInherit {
						continue
					}
					if !pos[[2]int{v.node.Line, v.node.Column}] {
						lost++
						r.finding("scalar-not-in-ast:"+genericKeyPath(v.keys), fmt.Sprintf("the scalar at %s (%d:%d) of a clean workflow is not the position of any node of the parsed AST: no rule can inspect it", strings.Join(v.keys, "."), v.node.Line, v.node.Column),
							Case{Op: "parse-ast", Input: map[string]string{"file": name, "arrangement": what[ti], "yaml": src}})
					}
				}
			}
		}
		r.Rule += "; every scalar value of the clean workflows is the position of a node of the AST actionlint.Parse returns (reflection walk), as written and with each mapping's last pair moved to the front"
	}
	// AL.Props.C03Parse (no_value_scalar_dropped) leaves out three positions at which a scalar with an EXPLICIT YAML tag and a
	// text is dropped by the parser without a diagnostic (finding_bool_tagged_text, finding_call_input_null_default,
	// finding_null_tagged_mapping): the same three inputs on the implementation, next to a control without the tag
	for _, tc := range []struct{ key, with, without string; line int }{
		{"tagged-scalar-unchecked:bool", "on: push\njobs:\n  j:\n    runs-on: ubuntu-latest\n    steps:\n      - run: echo\n        continue-on-error: !!bool \"${{ x\"\n",
			"on: push\njobs:\n  j:\n    runs-on: ubuntu-latest\n    steps:\n      - run: echo\n        continue-on-error: \"${{ x\"\n", 7},
		{"tagged-scalar-unchecked:null-default", "on:\n  workflow_call:\n    inputs:\n      a:\n        type: string\n        default: !!null \"${{ x\"\njobs:\n  j:\n    runs-on: ubuntu-latest\n    steps:\n      - run: echo\n",
			"on:\n  workflow_call:\n    inputs:\n      a:\n        type: string\n        default: \"${{ x\"\njobs:\n  j:\n    runs-on: ubuntu-latest\n    steps:\n      - run: echo\n", 6},
		{"tagged-scalar-unchecked:null-mapping", "on:\n  push: !!null \"${{ x\"\njobs:\n  j:\n    runs-on: ubuntu-latest\n    steps:\n      - run: echo\n",
			"on:\n  push: \"${{ x\"\njobs:\n  j:\n    runs-on: ubuntu-latest\n    steps:\n      - run: echo\n", 2},
	} {
		onLine := func(src string) (int, error) {
			errs, err := lintSrc("t.yml", src)
			n := 0
			for _, e := range errs {
				if e.Line == tc.line {
					n++
				}
			}
			return n, err
		}
		nw, err1 := onLine(tc.with)
		nc, err2 := onLine(tc.without)
		r.Evaluations += 2
		if err1 != nil || err2 != nil {
			r.Crashes = append(r.Crashes, Case{Op: "lint-tagged", Input: map[string]string{"yaml": tc.with}, Note: fmt.Sprint(err1, err2)})
			continue
		}
		if nc == 0 {
			r.finding("tagged-control-silent", "the control of a tagged-scalar probe (the same text without the tag) is not diagnosed on its line", Case{Op: "lint-tagged", Input: map[string]string{"yaml": tc.without}})
		}
		if nw == 0 {
			r.finding(tc.key, "a malformed placeholder in a scalar with an explicit YAML tag is dropped by the parser: no diagnostic on its line (the same text without the tag is diagnosed)",
				Case{Op: "lint-tagged", Input: map[string]string{"yaml": tc.with, "control": tc.without, "line": fmt.Sprint(tc.line)}})
		}
		r.hist(fmt.Sprintf("tagged-probe:%s:diagnosed=%v", tc.key, nw > 0))
	}
	// AL.Props.C03Step: in the model every key's value of a (script or action) step reaches the field named after the key in
	// every key order; a step whose node lacks a value the model keeps has lost it on the way to the checker
	nPS := 400
	if !c.quick {
		nPS = 20000
	}
	if err := parseStepTie(c, r, nPS, func(cs Case) (string, string) {
		return "step-node-differs-from-parse-rule", "the Step node / diagnostics the parser produces for this key order (" + cs.Impl + ") differ from the modelled parse rule (" + cs.Model + ")"
	}); err != nil {
		return err
	}
	// the whole parser against its model AL.PW: every field of the AST (where each scalar is stored, with which position and
	// quoting flag) on the project's corpus and on mutants of it
	per := 3
	if !c.quick {
		per = 300
	}
	if err := pwStandard(c, r, "ast", per, true); err != nil {
		return err
	}
	// AL.Props.C03Rule: in the model of rule_expression.go every value string of the AST is run through the placeholder scan
	// (a malformed placeholder yields a diagnostic at that string). Where the real rule's `expression` diagnostics for a source
	// differ from the model's, it departs from that: the source is a failing input.
	perE := 5
	if !c.quick {
		perE = 300
	}
	return exStandard(c, r, func(cs Case) (string, string) {
		if cs.Impl != cs.Model {
			return "expression-diagnostics-differ-from-proved-model", "the `expression` diagnostics of the real rule (" + truncate(cs.Impl, 300) + ") differ from the model of rule_expression.go (" + truncate(cs.Model, 300) + ")"
		}
		return "", ""
	}, perE, true, map[bool]int{true: 1500, false: 0}[c.quick])
}
