package main

import (
	_ "embed"
	"fmt"
	"strings"

	"github.com/rhysd/actionlint"
	"gopkg.in/yaml.v3"
)

//go:embed wfbase/a.yml
var wfBaseA string

//go:embed wfbase/b.yml
var wfBaseB string

//go:embed wfbase/c.yml
var wfBaseC string

var wfBases = map[string]string{"a.yml": wfBaseA, "b.yml": wfBaseB, "c.yml": wfBaseC}

// lintSrc runs the real linter (no external tools) on one source text.
func lintSrc(name, src string) ([]*actionlint.Error, error) {
	l, err := actionlint.NewLinter(nopWriter{}, &actionlint.LinterOptions{Shellcheck: "", Pyflakes: ""})
	if err != nil {
		return nil, err
	}
	return l.Lint(name, []byte(src), nil)
}

type ypath []int

func cloneNode(n *yaml.Node) *yaml.Node {
	c := *n
	c.Content = make([]*yaml.Node, len(n.Content))
	for i, ch := range n.Content {
		c.Content[i] = cloneNode(ch)
	}
	return &c
}

func nodeAt(root *yaml.Node, p ypath) *yaml.Node {
	n := root
	for _, i := range p {
		if i >= len(n.Content) {
			return nil
		}
		n = n.Content[i]
	}
	return n
}

type yvisit struct {
	path  ypath
	keys  []string // key path (mapping keys / [i] for sequence elements)
	node  *yaml.Node
	isKey bool
}

// walkYAML enumerates every node with its key path.
func walkYAML(n *yaml.Node, path ypath, keys []string, out *[]yvisit) {
	switch n.Kind {
	case yaml.DocumentNode:
		for i, c := range n.Content {
			walkYAML(c, append(append(ypath{}, path...), i), keys, out)
		}
	case yaml.MappingNode:
		*out = append(*out, yvisit{append(ypath{}, path...), append([]string{}, keys...), n, false})
		for i := 0; i+1 < len(n.Content); i += 2 {
			k, v := n.Content[i], n.Content[i+1]
			*out = append(*out, yvisit{append(append(ypath{}, path...), i), append(append([]string{}, keys...), k.Value), k, true})
			walkYAML(v, append(append(ypath{}, path...), i+1), append(append([]string{}, keys...), k.Value), out)
		}
	case yaml.SequenceNode:
		*out = append(*out, yvisit{append(ypath{}, path...), append([]string{}, keys...), n, false})
		for i, c := range n.Content {
			walkYAML(c, append(append(ypath{}, path...), i), append(append([]string{}, keys...), fmt.Sprintf("[%d]", i)), out)
		}
	default:
		*out = append(*out, yvisit{append(ypath{}, path...), append([]string{}, keys...), n, false})
	}
}

func parseYAML(src string) (*yaml.Node, error) {
	var root yaml.Node
	if err := yaml.Unmarshal([]byte(src), &root); err != nil {
		return nil, err
	}
	return &root, nil
}

func emitYAML(root *yaml.Node) (string, error) {
	var sb strings.Builder
	enc := yaml.NewEncoder(&sb)
	enc.SetIndent(2)
	n := root
	if n.Kind == yaml.DocumentNode && len(n.Content) == 1 {
		n = n.Content[0]
	}
	if err := enc.Encode(n); err != nil {
		return "", err
	}
	enc.Close()
	return sb.String(), nil
}

// genericKeyPath replaces user-chosen names by placeholders so that positions can be grouped by kind.
func genericKeyPath(keys []string) string {
	out := make([]string, len(keys))
	for i, k := range keys {
		out[i] = k
		if strings.HasPrefix(k, "[") {
			out[i] = "[]"
			continue
		}
		if i > 0 {
			switch keys[i-1] {
			case "jobs", "services", "inputs", "secrets", "outputs", "env", "with", "matrix":
				if !(keys[i-1] == "matrix" && (k == "include" || k == "exclude")) && !(keys[i-1] == "secrets" && i >= 2 && keys[i-2] == "workflow_call" && false) {
					out[i] = "<" + keys[i-1] + "_id>"
				}
			}
		}
	}
	return strings.Join(out, ".")
}
