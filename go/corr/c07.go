package main

import (
	"fmt"
	"math/rand"
	"os"
	"path/filepath"
	"regexp"
	"sort"
	"strings"

	"github.com/rhysd/actionlint"
)

func init() { props["C07"] = runC07 }

// a defect inside ${{ }}: text of the placeholder body (between "${{" and "}}"), byte offset of the
// offending token inside the body, and a substring of the expected message
type exprDefect struct {
	body   string
	off    int
	msg    string
	what   string
}

var c07Defects = []exprDefect{
	{" github.ev#ent ", 10, "got unexpected character '#'", "lexer"},
	{" 'abc", 5, "got unexpected EOF while lexing end of string literal", "lexer-eof"}, // reported at the end of the scalar text, see below
	{" github.ref other ", 12, "parser did not reach end of input", "parser"},
	{" (github.ref ", 13, "unexpected end of input", "parser-end"},
	{" github.nosuch ", 1, "property \"nosuch\" is not defined", "semantic"},
	{" 1 == github.nosuch2 ", 6, "property \"nosuch2\" is not defined", "semantic-inner"},
	{" nosuchfunc(1) ", 1, "undefined function \"nosuchfunc\"", "semantic-call"},
	{" contains('a', github.nope) ", 15, "property \"nope\" is not defined", "semantic-arg"},
	{"   secrets.x.y.z ", 3, "must be type of object but got \"string\"", "semantic-ws"},
	// diagnostics about the placeholder as a whole are reported at its `$`
	{" github.event ", -3, "should not be evaluated in template", "template-type"},
	{"  null ", -3, "should not be evaluated in template", "template-type-null"},
}

type c07Ctx struct {
	pre    []string // lines before the line with the scalar
	indent string
	key    string // key text; %s = filler to lengthen the key (only where the key is a free name)
	post   []string
	flow   bool
	script bool // run: position (untrusted check active)
}

func runC07(c *ctx, r *Report) error {
	rng := rand.New(rand.NewSource(c.seed))
	n := 2500
	if !c.quick {
		n = 60000
	}
	r.Rule = fmt.Sprintf("%d random placements of a diagnosed construct: 9 kinds of defect inside ${{ }} (lexer, parser, semantic at the first / an inner / an argument token, with leading spaces) + object / null value evaluated in a template (reported at the `$`) + untrusted input + unexpected key + bad scalar value + bad glob character + mutually exclusive filter keys (reported at the later key; block and two-line flow layout) + needs cycle (reported at its first job; flow layout with decreasing columns) + runner label reaching runs-on through a matrix row / include entry (reported where it is written), placed in workflow / job / step / container env values (free key names of random length), step name / run / with values, flow and block style, plain / single / double quoted scalars, 0–30 characters of text and 0–3 well-formed placeholders before it in the same scalar, 0–9 comment lines and 0–3 extra jobs above; the generator computes the exact line:column of the offending token / key / value / character from what it wrote, the real linter must report exactly there; non-trivial = distinct generated sources", n)
	quoteStyles := []string{"", "'", "\""}
	var mb batch
	for i := 0; i < n; i++ {
		kind := rng.Intn(18)
		var lines []string
		k := rng.Intn(10)
		lines = append(lines, "on: push")
		for x := 0; x < k; x++ {
			lines = append(lines, "# comment "+strings.Repeat("x", rng.Intn(20)))
		}
		lines = append(lines, "jobs:")
		for x := 0; x < rng.Intn(4); x++ {
			lines = append(lines, fmt.Sprintf("  pre%d:", x), "    runs-on: ubuntu-latest", "    steps:", "      - run: echo")
		}
		lines = append(lines, "  target:", "    runs-on: ubuntu-latest")
		var wantLine, wantCol int
		var wantMsg, what string
		filler := strings.Repeat("K", rng.Intn(12))
		if kind < 10 || kind == 13 || kind == 14 {
			// expression defect (0-8) or untrusted input (9) inside a scalar
			var d exprDefect
			script := false
			if kind == 9 {
				d = exprDefect{" github.event.issue.title ", 1, "is potentially untrusted", "untrusted"}
				script = true
			} else if kind >= 13 {
				d = c07Defects[kind-4]
			} else {
				d = c07Defects[kind]
			}
			what = d.what
			q := quoteStyles[rng.Intn(3)]
			prefix := []string{"", "x", "echo ", "some text here ", strings.Repeat("ab ", rng.Intn(10))}[rng.Intn(5)]
			for p := rng.Intn(4); p > 0; p-- {
				prefix += "${{ github.sha }} "
			}
			if strings.Contains(d.body, "'") && q == "'" {
				q = "\""
			}
			if q == "" && (strings.HasPrefix(prefix, " ") || prefix == "" && false) {
				prefix = "x" + prefix
			}
			content := prefix + "${{" + d.body + "}}"
			if d.what == "lexer-eof" {
				content = prefix + "${{" + d.body // unterminated: no closing, EOF is at the end of the scalar
			}
			if q == "" && strings.ContainsAny(content, "#") && strings.Contains(content, " #") {
				q = "'"
			}
			qOpen := 0
			if q != "" {
				qOpen = 1
			}
			scalar := q + content + q
			// where does the scalar go?
			place := rng.Intn(6)
			if script {
				place = 3
			}
			var line string
			var scalarCol int
			switch place {
			case 0: // job env, block
				lines = append(lines, "    env:")
				line = "      E" + filler + ": " + scalar
				scalarCol = len("      E"+filler+": ") + 1
				lines = append(lines, line, "    steps:", "      - run: echo")
			case 1: // step env, flow
				lines = append(lines, "    steps:", "      - run: echo")
				line = "        env: { E" + filler + ": " + scalar + " }"
				scalarCol = len("        env: { E"+filler+": ") + 1
				if q == "" {
					// plain scalars in flow context cannot contain , { } [ ]
					fq := "'"
					if strings.Contains(content, "'") {
						fq = "\""
					}
					line = "        env: { E" + filler + ": " + fq + content + fq + " }"
					scalarCol = len("        env: { E"+filler+": ") + 1
					qOpen = 1
				}
				lines = append(lines, line)
			case 2: // step name
				lines = append(lines, "    steps:")
				line = "      - name: " + scalar
				scalarCol = len("      - name: ") + 1
				lines = append(lines, line, "        run: echo")
			case 3: // run
				lines = append(lines, "    steps:")
				line = "      - run: " + scalar
				scalarCol = len("      - run: ") + 1
				lines = append(lines, line)
			case 4: // with value
				lines = append(lines, "    steps:", "      - uses: actions/checkout@v4", "        with:")
				line = "          ref: " + scalar
				scalarCol = len("          ref: ") + 1
				lines = append(lines, line)
			default: // container env
				lines = append(lines, "    container:", "      image: alpine", "      env:")
				line = "        C" + filler + ": " + scalar
				scalarCol = len("        C"+filler+": ") + 1
				lines = append(lines, line, "    steps:", "      - run: echo")
			}
			for li, l := range lines {
				if l == line {
					wantLine = li + 1
				}
			}
			wantCol = scalarCol + qOpen + len(prefix) + 3 + d.off
			wantMsg = d.msg
			// the model's view of where expressions start in this scalar (all placeholders before the bad one are fine)
			if kind <= 3 {
				var offs []string
				for idx := 0; ; {
					j := strings.Index(content[idx:], "${{")
					if j < 0 {
						break
					}
					offs = append(offs, fmt.Sprint(idx+j+3))
					idx += j + 3
				}
				mb.add("exproffsets "+hx(content), strings.Join(offs, ","), Case{Op: "exproffsets", Input: map[string]string{"scalar": content}})
			}
		} else if kind == 10 {
			// unexpected key at a random depth
			what = "key"
			lines = append(lines, "    steps:", "      - run: echo")
			key := "bogus" + filler
			switch rng.Intn(3) {
			case 0:
				lines = append(lines, "        "+key+": 1")
				wantCol = 9
			case 1:
				lines = append(lines, "    "+key+": 1")
				wantCol = 5
			default:
				lines = append(lines, "    container:", "      image: a", "      "+key+": 1")
				wantCol = 7
			}
			wantLine = len(lines)
			wantMsg = "unexpected key \"" + key + "\""
		} else if kind == 11 {
			// bad value: timeout-minutes must be a number → at the value
			what = "value"
			pad := strings.Repeat(" ", rng.Intn(4))
			lines = append(lines, "    timeout-minutes: "+pad+"abc"+filler, "    steps:", "      - run: echo")
			wantLine = len(lines) - 2
			wantCol = len("    timeout-minutes: "+pad) + 1
			wantMsg = "expecting a single"
			wantMsg = ""
		} else if kind == 15 {
			// two keys that exclude each other: reported at the one written LATER, whatever the layout (block, or a
			// flow mapping over two lines where the later key has the smaller column)
			what = "filter-conflict"
			pair := [][2]string{{"branches", "branches-ignore"}, {"tags", "tags-ignore"}, {"paths", "paths-ignore"}}[rng.Intn(3)]
			if rng.Intn(2) == 0 {
				pair[0], pair[1] = pair[1], pair[0]
			}
			pad := strings.Repeat(" ", 1+rng.Intn(12))
			q := []string{"", "'", "\""}[rng.Intn(3)]
			lines[0] = "on:"
			var ins []string
			if rng.Intn(2) == 0 {
				ins = []string{"  push: {" + pair[0] + ": [a],", pad + q + pair[1] + q + ": [b]}"}
				wantLine, wantCol = 3, len(pad)+1
			} else {
				ins = []string{"  push:", "    " + pair[0] + ": [a]", "    " + q + pair[1] + q + ": [b]"}
				wantLine, wantCol = 4, 5
			}
			lines = append(lines[:1], append(ins, lines[1:]...)...)
			wantMsg = "cannot be used"
			lines = append(lines, "    steps:", "      - run: echo")
		} else if kind == 17 {
			// a runner label that reaches runs-on through the matrix is reported where the label is written: at the row
			// element or at the value of the include entry (block and flow layout)
			what = "label-via-matrix"
			pad := strings.Repeat(" ", 1+rng.Intn(6))
			bad := "no-such-os" + strings.ToLower(filler)
			lines = []string{"on: push"}
			for x := 0; x < k; x++ {
				lines = append(lines, "# comment")
			}
			lines = append(lines, "jobs:", "  target:", "    runs-on: ${{ matrix.os }}", "    strategy:", "      matrix:")
			switch rng.Intn(4) {
			case 0: // row element, flow
				lines = append(lines, "        os: [ubuntu-latest,"+pad+bad+"]")
				wantLine, wantCol = len(lines), len("        os: [ubuntu-latest,"+pad)+1
			case 1: // row element, block
				lines = append(lines, "        os:", "          - ubuntu-latest", "          -"+pad+bad)
				wantLine, wantCol = len(lines), len("          -"+pad)+1
			case 2: // include entry, block
				lines = append(lines, "        os: [ubuntu-latest]", "        include:", "          - os:"+pad+bad, "            extra: 1")
				wantLine, wantCol = len(lines)-1, len("          - os:"+pad)+1
			default: // include entry, flow
				lines = append(lines, "        os: [ubuntu-latest]", "        include: [{os:"+pad+bad+"}]")
				wantLine, wantCol = len(lines), len("        include: [{os:"+pad)+1
			}
			wantMsg = "label \"" + bad + "\" is unknown"
			lines = append(lines, "    steps:", "      - run: echo")
		} else if kind == 16 {
			// a needs cycle is reported at the job of the cycle that is written first, also when the jobs form a flow
			// mapping over several lines with decreasing columns
			what = "cycle"
			padA := strings.Repeat(" ", 6+rng.Intn(8))
			padB := strings.Repeat(" ", 1+rng.Intn(4))
			lines = []string{"on: push"}
			for x := 0; x < k; x++ {
				lines = append(lines, "# comment")
			}
			lines = append(lines, "jobs: {", padA+"zeta"+filler+": {needs: [alpha], runs-on: ubuntu-latest, steps: [{run: echo}]},", padB+"alpha: {needs: [zeta"+filler+"], runs-on: ubuntu-latest, steps: [{run: echo}]}", "}")
			wantLine, wantCol = k+3, len(padA)+1
			wantMsg = "cyclic dependencies"
		} else {
			// glob: bad character inside a branch filter, in a quoted scalar of a flow sequence
			what = "glob"
			q := []string{"'", "\""}[rng.Intn(2)]
			pre := "feature/" + strings.ToLower(filler)
			pat := pre + "^x"
			lines[0] = "on:"
			ins := []string{"  push:", "    branches: [main, " + q + pat + q + "]"}
			lines = append(lines[:1], append(ins, lines[1:]...)...)
			wantLine = 3
			wantCol = len("    branches: [main, ") + 1 + 1 + len(pre)
			wantMsg = "character '^' is invalid"
			lines = append(lines, "    steps:", "      - run: echo")
		}
		src := strings.Join(lines, "\n") + "\n"
		errs, err := lintSrc("p.yaml", src)
		r.Evaluations++
		mk := func(note string) Case {
			return Case{Op: "lint-position", Input: map[string]string{"kind": what, "yaml": src, "expected": fmt.Sprintf("%d:%d", wantLine, wantCol)}, Note: note}
		}
		if err != nil {
			r.Crashes = append(r.Crashes, mk(err.Error()))
			continue
		}
		r.nontrivial(src)
		r.hist("kind:" + what)
		nLines := len(lines)
		found, foundMsg := false, false
		var got []string
		for _, e := range errs {
			if e.Kind != "syntax-check" || !strings.HasPrefix(e.Message, "could not parse as YAML") {
				if e.Line < 1 || e.Line > nLines || e.Column < 1 {
					r.finding("position-out-of-file", fmt.Sprintf("diagnostic at %d:%d in a file of %d lines", e.Line, e.Column, nLines), mk(e.Message))
				}
			}
			if wantMsg != "" && strings.Contains(e.Message, wantMsg) {
				foundMsg = true
				got = append(got, fmt.Sprintf("%d:%d", e.Line, e.Column))
				if e.Line == wantLine && e.Column == wantCol {
					found = true
				}
			}
			if wantMsg == "" && e.Line == wantLine && e.Column == wantCol {
				found, foundMsg = true, true
			}
		}
		if !foundMsg {
			var all []string
			for _, e := range errs {
				all = append(all, e.Error())
			}
			r.finding("expected-diagnostic-missing:"+what, "the planted defect is not diagnosed (generator or linter)", mk(strings.Join(all, " || ")))
		} else if !found {
			r.finding("position-inexact:"+what, fmt.Sprintf("%s diagnostic reported at %v, the offending token is at %d:%d", what, got, wantLine, wantCol), mk(""))
		}
		if i < 2 {
			r.sample(map[string]string{"kind": what, "expected": fmt.Sprintf("%d:%d", wantLine, wantCol), "yaml_tail": strings.Join(lines[len(lines)-4:], "\n")})
		}
	}
	if _, err := mb.flush(c, r); err != nil {
		return err
	}
	if err := c07Corpus(c, r); err != nil {
		return err
	}
	// first sentence of the property: every non-YAML diagnostic lies inside the file. Escape sequences in a
	// double-quoted scalar produce line breaks in the value that do not exist in the source.
	{
		src := "on: push\njobs:\n  j:\n    runs-on: ubuntu-latest\n    steps:\n      - run: echo\n        name: \"a ${{ \\n\\n\\n github.nosuch }}\"\n"
		errs, err := lintSrc("q.yaml", src)
		r.Evaluations++
		if err == nil {
			nLines := strings.Count(src, "\n")
			for _, e := range errs {
				if e.Line > nLines {
					r.finding("line-past-eof-escapes", fmt.Sprintf("diagnostic at line %d in a file of %d lines (placeholder after \\n escapes in a double-quoted scalar)", e.Line, nLines),
						Case{Op: "lint-position", Input: map[string]string{"yaml": src}, Note: e.Error()})
				}
			}
		}
		r.nontrivial(src)
	}
	// a diagnosed token inside a scalar of a MATRIX: row values, include / exclude values, plain and quoted. The column of the
	// token is computed from the text written here (AL.C07S.finding_matrix_scalar_quote_lost: RawYAMLString keeps no quote
	// flag, a quoted matrix scalar is reported one column to the left)
	for _, q := range []string{"", "\"", "'"} {
		for _, where := range []string{"row", "include", "exclude"} {
			val := q + "${{ nosuchctx }}" + q
			var body string
			switch where {
			case "row":
				body = "        os:\n          - " + val + "\n"
			case "include":
				body = "        os: [a]\n        include:\n          - os: " + val + "\n"
			default:
				body = "        os: [a]\n        exclude:\n          - os: " + val + "\n"
			}
			src := "on: push\njobs:\n  j:\n    runs-on: ubuntu-latest\n    strategy:\n      matrix:\n" + body + "    steps:\n      - run: echo\n"
			lines := strings.Split(src, "\n")
			wl, wc := 0, 0
			for i, ln := range lines {
				if k := strings.Index(ln, "nosuchctx"); k >= 0 {
					wl, wc = i+1, k+1
				}
			}
			errs, err := lintSrc("m.yaml", src)
			r.Evaluations++
			if err != nil {
				continue
			}
			hit, other := false, ""
			for _, e := range errs {
				if strings.Contains(e.Message, "nosuchctx") {
					if e.Line == wl && e.Column == wc {
						hit = true
					} else {
						other = fmt.Sprintf("%d:%d", e.Line, e.Column)
					}
				}
			}
			r.nontrivial(src)
			r.hist(fmt.Sprintf("matrix-scalar:%s:quote=%q:exact=%v", where, q, hit))
			if !hit {
				key := "matrix-column"
				if q != "" {
					key = "matrix-quoted-column"
				}
				r.finding(key, fmt.Sprintf("an undefined context inside a %s matrix scalar (%s) at %d:%d is reported at %s", map[string]string{"": "plain", "\"": "double-quoted", "'": "single-quoted"}[q], where, wl, wc, other),
					Case{Op: "lint-position", Input: map[string]string{"yaml": src, "expected": fmt.Sprintf("%d:%d", wl, wc)}})
			}
		}
	}
	// AL.Props.C07Rules / C13Parse: in the models of the parser and of the AST-only rules every diagnostic sits at the key /
	// id / name / value it is about. Same diagnostics (kind, template, arguments) at other positions than the model's: the
	// implementation's positions are off on that source.
	per := 6
	if !c.quick {
		per = 300
	}
	return lwStandard(c, r, func(cs Case) (string, string) {
		strip := func(s string) string {
			var out []string
			for _, d := range strings.Split(s, ";") {
				if f := strings.SplitN(d, ":", 3); len(f) == 3 {
					out = append(out, f[2])
				}
			}
			sort.Strings(out)
			return strings.Join(out, ";")
		}
		if cs.Impl != cs.Model && strip(cs.Impl) == strip(cs.Model) {
			return "position-differs-from-proved-model", "the same diagnostics as the model of the parser / the AST-only rules, at other positions"
		}
		return "", ""
	}, per, false)
}

var reLineRef = regexp.MustCompile(`line:(\d+)`)

// c07Corpus: every workflow of the project's own test data (≈ 300 files that together trigger nearly every
// diagnostic the linter has). Generic consequences of the property that need no knowledge of the diagnostic:
// (a) line within the file, column ≥ 1; (b) an [expression] diagnostic on a
// line that contains `${{` lies inside a placeholder of that line (from its `$` to its closing `}}`, or to the
// end of the line when it is closed further down); (c) k comment lines inserted above move every diagnostic by
// exactly k lines and leave column, kind and message unchanged.
func c07Corpus(c *ctx, r *Report) error {
	var files []string
	for _, d := range []string{"err", "ok", "examples"} {
		m, _ := filepath.Glob(filepath.Join("/repo/testdata", d, "*.yaml"))
		files = append(files, m...)
		m, _ = filepath.Glob(filepath.Join("/repo/testdata", d, "*.yml"))
		files = append(files, m...)
	}
	sort.Strings(files)
	r.Rule += fmt.Sprintf("; corpus: the %d workflows under /repo/testdata/{err,ok,examples}: every diagnostic inside the file, [expression] diagnostics inside a placeholder of their line, and k ∈ {1, 7} comment lines inserted above shift every diagnostic by exactly k lines", len(files))
	for _, f := range files {
		b, err := os.ReadFile(f)
		if err != nil {
			continue
		}
		src := string(b)
		errs, err := lintSrc(filepath.Base(f), src)
		r.Evaluations++
		if err != nil {
			continue
		}
		lines := strings.Split(src, "\n")
		nLines := len(lines)
		if strings.HasSuffix(src, "\n") {
			nLines--
		}
		mk := func(e *actionlint.Error) Case {
			return Case{Op: "lint-corpus", Input: map[string]string{"file": strings.TrimPrefix(f, "/repo/"), "diagnostic": e.Error()}}
		}
		yamlLevel := false
		for _, e := range errs {
			if e.Kind == "syntax-check" && strings.HasPrefix(e.Message, "could not parse as YAML") {
				yamlLevel = true
			}
		}
		if yamlLevel || strings.TrimSpace(src) == "" {
			continue // (an empty file has nothing the inserted lines could be "above")
		}
		for _, e := range errs {
			r.hist("corpus:" + e.Kind)
			r.nontrivial(f + e.Error())
			if e.Line < 1 || e.Line > nLines || e.Column < 1 {
				r.finding("position-out-of-file", fmt.Sprintf("diagnostic at %d:%d in a file of %d lines", e.Line, e.Column, nLines), mk(e))
				continue
			}
			ln := lines[e.Line-1]
			if e.Column > len(ln)+1 {
				// a scalar that spans several lines (plain multi-line / folded): the column counts along the joined
				// value; the property promises exactness for one-line scalars only
				r.hist("corpus:column-in-multi-line-scalar")
				continue
			}
			if e.Kind == "expression" && strings.Contains(ln, "${{") {
				inside := false
				for idx := 0; ; {
					j := strings.Index(ln[idx:], "${{")
					if j < 0 {
						break
					}
					start := idx + j + 1 // column of `$`
					end := len(ln) + 1
					if k := strings.Index(ln[idx+j:], "}}"); k >= 0 {
						end = idx + j + k + 2
					}
					if e.Column >= start && e.Column <= end {
						inside = true
					}
					idx += j + 3
				}
				if !inside {
					r.finding("expression-diagnostic-outside-placeholder", "an [expression] diagnostic on a line with ${{ }} placeholders points outside every placeholder of the line", mk(e))
				}
			}
		}
		for _, k := range []int{1, 7} {
			shifted := strings.Repeat("# inserted\n", k) + src
			errs2, err := lintSrc(filepath.Base(f), shifted)
			r.Evaluations++
			if err != nil {
				continue
			}
			canon := func(es []*actionlint.Error, d int) []string {
				var out []string
				for _, e := range es {
					msg := reLineRef.ReplaceAllStringFunc(e.Message, func(m string) string {
						var n int
						fmt.Sscanf(m, "line:%d", &n)
						return fmt.Sprintf("line:%d", n+d)
					})
					out = append(out, fmt.Sprintf("%d:%d [%s] %s", e.Line+d, e.Column, e.Kind, msg))
				}
				sort.Strings(out)
				return out
			}
			a, b2 := strings.Join(canon(errs, k), "\n"), strings.Join(canon(errs2, 0), "\n")
			if a != b2 {
				r.finding("inserted-lines-do-not-shift-exactly", fmt.Sprintf("%d comment lines inserted above the workflow change the diagnostics other than by a shift of %d lines", k, k),
					Case{Op: "lint-corpus-shift", Input: map[string]string{"file": strings.TrimPrefix(f, "/repo/"), "k": fmt.Sprint(k)}, Impl: b2, Model: a})
			}
		}
	}
	return nil
}
