package main

import (
	"fmt"
	"math/rand"
	"regexp"
	"sort"
	"strings"

	"github.com/bmatcuk/doublestar/v4"
	"github.com/rhysd/actionlint"
	"gopkg.in/yaml.v3"
)

// Tie of AL.ConfigDecode.parseConfig (config.go ParseConfig): generated actionlint.yaml files are parsed by the real
// ParseConfig and by the model (op `configmeta`); regexp.Compile and doublestar.ValidatePattern answer for the model.

func cfGen(rng *rand.Rand) string {
	var b strings.Builder
	good := rng.Intn(3) > 0
	pick := func(pool []string) string { return pool[rng.Intn(len(pool))] }
	strs := []string{"gpu", "linux-*", "a b", "'q'", "1", "true", "null", "~", "''", "'['", "x?", "'[a-z]*'", "'\\'", "${{ x }}"}
	if !good {
		strs = append(strs, "[a]", "{a: b}", "!!binary aGk=")
	}
	if rng.Intn(6) > 0 {
		switch sel := rng.Intn(8); {
		case sel == 0:
			b.WriteString("self-hosted-runner:\n")
		case sel == 1 && !good:
			b.WriteString("self-hosted-runner: text\n")
		case sel == 2:
			b.WriteString("self-hosted-runner:\n  labels:\n")
		case sel == 3 && !good:
			b.WriteString("self-hosted-runner:\n  labels: text\n")
		case sel == 4:
			b.WriteString("self-hosted-runner:\n  labels: []\n  other: x\n")
		default:
			b.WriteString("self-hosted-runner:\n  labels:\n")
			for i, n := 0, 1+rng.Intn(4); i < n; i++ {
				fmt.Fprintf(&b, "    - %s\n", pick(strs))
			}
		}
	}
	if rng.Intn(5) > 0 {
		switch sel := rng.Intn(7); {
		case sel == 0:
			b.WriteString("config-variables:\n")
		case sel == 1:
			b.WriteString("config-variables: null\n")
		case sel == 2:
			b.WriteString("config-variables: []\n")
		case sel == 3 && !good:
			b.WriteString("config-variables: {a: b}\n")
		default:
			b.WriteString("config-variables:\n")
			for i, n := 0, 1+rng.Intn(4); i < n; i++ {
				fmt.Fprintf(&b, "  - %s\n", pick([]string{"FOO", "bar", "Baz_1", "1", "null", "''", "true", "[x]"}[:6+2*b2i(!good)]))
			}
		}
	}
	if rng.Intn(4) > 0 {
		switch sel := rng.Intn(8); {
		case sel == 0:
			b.WriteString("paths:\n")
		case sel == 1:
			b.WriteString("paths: {}\n")
		case sel == 2 && !good:
			b.WriteString("paths: [a]\n")
		default:
			b.WriteString("paths:\n")
			for i, n := 0, 1+rng.Intn(3); i < n; i++ {
				globs := []string{".github/workflows/**/*.yml", "**/*.yaml", "a/b.yml", "'*'", "x{a,b}.yml", "'[a-z].yml'", "1", "~"}
				if !good {
					globs = append(globs, "'['", "'a[!'", "'{a'", "a/b.yml")
				}
				fmt.Fprintf(&b, "  %s:\n", pick(globs))
				switch sel2 := rng.Intn(7); {
				case sel2 == 0:
				case sel2 == 1:
					b.WriteString("    ignore:\n")
				case sel2 == 2:
					b.WriteString("    ignore: []\n")
				case sel2 == 3 && !good:
					b.WriteString("    ignore: text\n")
				case sel2 == 4:
					b.WriteString("    other: x\n")
				default:
					b.WriteString("    ignore:\n")
					for k, m := 0, 1+rng.Intn(3); k < m; k++ {
						res := []string{"abc", "'^x.*y$'", "a|b", "'\\d+'", "1", "''", "'[a-z]+'"}
						if !good {
							res = append(res, "'('", "'[a'", "[x]", "{a: b}", "'*'")
						}
						fmt.Fprintf(&b, "      - %s\n", pick(res))
					}
				}
			}
		}
	}
	if !good && rng.Intn(10) == 0 {
		b.WriteString("unknown-key: x\n")
	}
	if !good && rng.Intn(15) == 0 {
		b.WriteString("paths: {}\n")
	}
	return b.String()
}

func b2i(b bool) int {
	if b {
		return 1
	}
	return 0
}

func cfStrs(l []string) string {
	hs := make([]string, len(l))
	for i, s := range l {
		hs[i] = hx(s)
	}
	return "[" + strings.Join(hs, ",") + "]"
}

func cfCanon(c *actionlint.Config) string {
	vars := "N"
	if c.ConfigVariables != nil {
		vars = cfStrs(c.ConfigVariables)
	}
	paths := map[string]string{}
	for k, p := range c.Paths {
		var pats []string
		for _, r := range p.Ignore {
			pats = append(pats, r.String())
		}
		paths[k] = cfStrs(pats)
	}
	return "labels=" + cfStrs(c.SelfHostedRunner.Labels) + " vars=" + vars + " paths=" + cmMap(paths)
}

func cfScalars(n *yaml.Node, out map[string]bool) {
	if n.Kind == yaml.ScalarNode || n.Kind == yaml.AliasNode {
		out[n.Value] = true
	}
	out[n.Value] = true
	if n.Kind != yaml.AliasNode {
		for _, c := range n.Content {
			cfScalars(c, out)
		}
	}
}

func cfStandard(c *ctx, r *Report, n int) error {
	rng := rand.New(rand.NewSource(c.seed*6007 + 11))
	srcs := []string{"", "self-hosted-runner:\n  labels: [gpu]\nconfig-variables: [A, B]\npaths:\n  .github/workflows/**/*.yml:\n    ignore: [abc]\n",
		"- a\n", "text\n", "paths:\n  a: &x\n    ignore: [a]\n  b: *x\n", "paths:\n  '[':\n    ignore: []\n  '{':\n    ignore: []\n", "config-variables: null\n", "config-variables: []\n"}
	for i := 0; i < n; i++ {
		srcs = append(srcs, cfGen(rng))
	}
	var lines, impls, kept []string
	for _, src := range srcs {
		var rootNode yaml.Node
		if err := yaml.Unmarshal([]byte(src), &rootNode); err != nil {
			r.hist("configmeta:yaml-rejects")
			continue
		}
		var impl string
		pmsg, to := guarded(pwTimeout, func() {
			cfg, err := actionlint.ParseConfig([]byte(src))
			if err != nil {
				impl = "error"
			} else {
				impl = cfCanon(cfg)
			}
		})
		if pmsg != "" || to {
			r.Crashes = append(r.Crashes, Case{Op: "configmeta", Input: map[string]string{"src": src}, Note: "panic/timeout: " + pmsg})
			continue
		}
		scalars := map[string]bool{}
		cfScalars(&rootNode, scalars)
		var badre, badglob []string
		for s := range scalars {
			if _, err := regexp.Compile(s); err != nil {
				badre = append(badre, hx(s))
			}
			if !doublestar.ValidatePattern(s) {
				badglob = append(badglob, hx(s))
			}
		}
		sort.Strings(badre)
		sort.Strings(badglob)
		lst := func(xs []string) string {
			if len(xs) == 0 {
				return "E"
			}
			return "(" + strings.Join(xs, ",") + ")"
		}
		if rootNode.Kind == 0 {
			rootNode = yaml.Node{Kind: yaml.DocumentNode, Line: 1, Column: 1}
		}
		lines = append(lines, "configmeta "+lst(badre)+" "+lst(badglob)+" "+nodeSexp(&rootNode, map[string]bool{}))
		impls = append(impls, impl)
		kept = append(kept, src)
	}
	out, err := runModel(c.driver, lines)
	if err != nil {
		return err
	}
	for i, m := range out {
		r.Evaluations++
		if impls[i] == "error" {
			r.hist("configmeta:error")
		} else {
			r.hist("configmeta:parsed")
			r.nontrivial("configmeta:" + impls[i])
		}
		if m == "unsupported" {
			r.hist("configmeta:model-unsupported")
			var rootNode yaml.Node
			yaml.Unmarshal([]byte(kept[i]), &rootNode)
			if !cmUnsupported(&rootNode) && !strings.Contains(kept[i], "<<") {
				r.disagree(Case{Op: "configmeta", Input: map[string]string{"src": kept[i]}, Impl: impls[i], Model: m, Note: "unsupported without alias / !!binary / merge key"})
			}
			continue
		}
		if m != impls[i] {
			r.disagree(Case{Op: "configmeta", Input: map[string]string{"src": kept[i]}, Impl: impls[i], Model: m})
		}
	}
	return nil
}

func init() { props["CF"] = runCF }

func runCF(c *ctx, r *Report) error {
	r.Rule = "config.go ParseConfig vs AL.ConfigDecode"
	n := 3000
	if !c.quick {
		n = 60000
	}
	return cfStandard(c, r, n)
}
