package main

import (
	"fmt"
	"math/rand"
	"regexp"
	"sort"
	"strings"

	"github.com/rhysd/actionlint"
)

// ---- typing environments shared by the sema-based properties (C05 C06 C08 C11 C12)

type semaEnv struct {
	vars         map[string]actionlint.ExprType // overrides: matrix, steps, needs, inputs, jobs, secrets
	availCtx     []string
	availSpecial []string
	configVars   []string // nil = not configured
	hasConfig    bool
}

func encTy(t actionlint.ExprType) string {
	switch t := t.(type) {
	case actionlint.AnyType:
		return "any"
	case actionlint.NullType:
		return "null"
	case actionlint.NumberType:
		return "number"
	case actionlint.BoolType:
		return "bool"
	case actionlint.StringType:
		return "string"
	case *actionlint.ArrayType:
		d := 0
		if t.Deref {
			d = 1
		}
		return fmt.Sprintf("(arr,%s,%d)", encTy(t.Elem), d)
	case *actionlint.ObjectType:
		keys := make([]string, 0, len(t.Props))
		for k := range t.Props {
			keys = append(keys, k)
		}
		sort.Strings(keys)
		ps := make([]string, len(keys))
		for i, k := range keys {
			ps[i] = fmt.Sprintf("(%s,%s)", hx(k), encTy(t.Props[k]))
		}
		m := "N"
		if t.Mapped != nil {
			m = encTy(t.Mapped)
		}
		return fmt.Sprintf("(obj,(%s),%s)", strings.Join(ps, ","), m)
	}
	return "any"
}

func encStrs(ss []string) string {
	hs := make([]string, len(ss))
	for i, s := range ss {
		hs[i] = hx(s)
	}
	return "(" + strings.Join(hs, ",") + ")"
}

func (e *semaEnv) encode() string {
	keys := make([]string, 0, len(e.vars))
	for k := range e.vars {
		keys = append(keys, k)
	}
	sort.Strings(keys)
	vs := make([]string, len(keys))
	for i, k := range keys {
		t := e.vars[k]
		if k == "secrets" {
			// UpdateSecrets adds the automatic secrets and makes the object strict
			o := t.(*actionlint.ObjectType)
			c := actionlint.NewStrictObjectType(map[string]actionlint.ExprType{
				"github_token": actionlint.StringType{}, "actions_step_debug": actionlint.StringType{}, "actions_runner_debug": actionlint.StringType{},
			})
			for n, v := range o.Props {
				c.Props[n] = v
			}
			t = c
		}
		vs[i] = fmt.Sprintf("(%s,%s)", hx(k), encTy(t))
	}
	cv := "N"
	if e.hasConfig {
		cv = encStrs(e.configVars)
	}
	return fmt.Sprintf("((%s),%s,%s,%s)", strings.Join(vs, ","), encStrs(e.availCtx), encStrs(e.availSpecial), cv)
}

func (e *semaEnv) checker(untrusted bool) *actionlint.ExprSemanticsChecker {
	var cv []string
	if e.hasConfig {
		cv = e.configVars
		if cv == nil {
			cv = []string{}
		}
	}
	c := actionlint.NewExprSemanticsChecker(untrusted, cv)
	for k, t := range e.vars {
		o, _ := t.(*actionlint.ObjectType)
		switch k {
		case "matrix":
			c.UpdateMatrix(o)
		case "steps":
			c.UpdateSteps(o)
		case "needs":
			c.UpdateNeeds(o)
		case "inputs":
			c.UpdateInputs(o)
		case "jobs":
			c.UpdateJobs(o)
		case "secrets":
			c.UpdateSecrets(o)
		}
	}
	c.SetContextAvailability(e.availCtx)
	c.SetSpecialFunctionAvailability(e.availSpecial)
	return c
}

var allContexts = []string{"env", "github", "inputs", "job", "jobs", "matrix", "needs", "runner", "secrets", "steps", "strategy", "vars"}
var allSpecial = []string{"always", "cancelled", "failure", "hashfiles", "success"}

type semaTmpl struct {
	code string
	re   *regexp.Regexp
	// how to turn the submatches into args: 'q' quoted (%q), 's' raw, 'l' quoted then lower-cased
	kinds string
}

const qre = `("(?:[^"\\]|\\.)*")`

var semaTemplates = []semaTmpl{
	{"template-type", regexp.MustCompile(`(?s)^object, array, and null values should not be evaluated in template with \$\{\{ \}\} but evaluating the value of type (.*)$`), "s"},
	{"must-be-bool", regexp.MustCompile(`(?s)^type of expression must be bool but found type (.*)$`), "s"},
	{"must-be-number", regexp.MustCompile(`(?s)^type of expression at ` + qre + ` must be number but found type (.*)$`), "qs"},
	{"context-not-allowed", regexp.MustCompile(`(?s)^context ` + qre + ` is not allowed here\. .*$`), "q"},
	{"special-func-not-allowed", regexp.MustCompile(`(?s)^calling function ` + qre + ` is not allowed here\. .*$`), "q"},
	{"undefined-variable", regexp.MustCompile(`(?s)^undefined variable ` + qre + `\. available variables are .*$`), "l"},
	{"filter-prop-undefined", regexp.MustCompile(`(?s)^property ` + qre + ` is not defined in object type (.*) as element of filtered array$`), "qs"},
	{"prop-undefined", regexp.MustCompile(`(?s)^property ` + qre + ` is not defined in object type (.*)$`), "qs"},
	{"deref-not-object", regexp.MustCompile(`(?s)^receiver of object dereference ` + qre + ` must be type of object but got ` + qre + `$`), "qq"},
	{"filter-not-object", regexp.MustCompile(`(?s)^property filtered by ` + qre + ` at object filtering must be type of object but got ` + qre + `$`), "qq"},
	{"cfgvar-prefix", regexp.MustCompile(`(?s)^configuration variable name ` + qre + ` must not start with the GITHUB_ prefix.*$`), "q"},
	{"cfgvar-chars", regexp.MustCompile(`(?s)^configuration variable name ` + qre + ` can only contain alphabets.*$`), "q"},
	{"cfgvar-empty", regexp.MustCompile(`(?s)^no configuration variable is allowed since the variables list is empty in actionlint\.yaml\. you may forget adding the variable ` + qre + ` to the list$`), "q"},
	{"cfgvar-undefined", regexp.MustCompile(`(?s)^undefined configuration variable ` + qre + `\. defined configuration variables in actionlint\.yaml are .*$`), "q"},
	{"filter-elems-not-object", regexp.MustCompile("(?s)^elements of object at receiver of object filtering `\\.\\*` must be type of object but got " + qre + `\. the type of receiver was ` + qre + `$`), "qq"},
	{"filter-no-object-elem", regexp.MustCompile("(?s)^object type " + qre + " cannot be filtered by object filtering `\\.\\*` since it has no object element$"), "q"},
	{"filter-bad-receiver", regexp.MustCompile("(?s)^receiver of object filtering `\\.\\*` must be type of array or object but got " + qre + `$`), "q"},
	{"index-not-number", regexp.MustCompile(`(?s)^index access of array must be type of number but got ` + qre + `$`), "q"},
	{"index-not-string", regexp.MustCompile(`(?s)^property access of object must be type of string but got ` + qre + `$`), "q"},
	{"index-bad-operand", regexp.MustCompile(`(?s)^index access operand must be type of object or array but got ` + qre + `$`), "q"},
	{"arg-count", regexp.MustCompile(`(?s)^number of arguments is wrong\. function ` + qre + ` takes (at least )?(\d+) parameters but (\d+) arguments are given$`), "qtss"},
	{"arg-type", regexp.MustCompile(`(?s)^(\d+(?:st|nd|rd|th)) argument of function call is not assignable\. ` + qre + ` cannot be assigned to ` + qre + `\. called function type is ` + qre + `$`), "sqqq"},
	{"format-unused-arg", regexp.MustCompile(`(?s)^format string ` + qre + ` does not contain placeholder \{(\d+)\}\. remove argument which is unused in the format string$`), "qs"},
	{"format-surplus-holder", regexp.MustCompile(`(?s)^format string ` + qre + ` contains placeholder \{(\d+)\} but only (\d+) arguments are given to format$`), "qss"},
	{"broken-json", regexp.MustCompile(`(?s)^broken JSON string is passed to fromJSON\(\) at offset \d+: .*$`), ""},
	{"undefined-function", regexp.MustCompile(`(?s)^undefined function ` + qre + `\. available functions are .*$`), "q"},
	{"not-operand", regexp.MustCompile(`(?s)^type of operand of ! operator ` + qre + ` is not assignable to type "bool"$`), "q"},
	{"bad-compare", regexp.MustCompile(`(?s)^` + qre + ` value cannot be compared to ` + qre + ` value with ` + qre + ` operator$`), "qqq"},
}

var (
	reUntrustedOne  = regexp.MustCompile(`(?s)^` + qre + ` is potentially untrusted\. avoid using it directly in inline scripts\. .*$`)
	reUntrustedMany = regexp.MustCompile(`(?s)^object filter extracts potentially untrusted properties (.*)\. avoid using the value directly in inline scripts\. .*$`)
)

// classifySema maps a semantic error message to code(args…); untrusted-input reports are returned separately.
func classifySema(msg string) (code string, untrusted []string) {
	if x := reUntrustedOne.FindStringSubmatch(msg); x != nil {
		return "", []string{unq(x[1])}
	}
	if x := reUntrustedMany.FindStringSubmatch(msg); x != nil {
		var ps []string
		for _, q := range reQuoted.FindAllString(x[1], -1) {
			ps = append(ps, unq(q))
		}
		sort.Strings(ps)
		return "", ps
	}
	for _, t := range semaTemplates {
		x := t.re.FindStringSubmatch(msg)
		if x == nil {
			continue
		}
		args := make([]string, 0, len(t.kinds))
		for i, k := range t.kinds {
			v := x[i+1]
			switch k {
			case 'q':
				v = unq(v)
			case 'l':
				v = strings.ToLower(unq(v))
			case 't':
				v = strings.TrimSpace(v)
			}
			args = append(args, hx(v))
		}
		return t.code + "(" + strings.Join(args, ",") + ")", nil
	}
	return "unclassified:" + msg, nil
}

type semaResult struct {
	syntaxErr bool
	ty        actionlint.ExprType
	canon     string
	errCodes  []string   // code(args)
	untrusted [][]string // reports
	errs      []*actionlint.ExprError
	bad       bool
}

func runSema(env *semaEnv, src string, untrusted bool) *semaResult {
	p := actionlint.NewExprParser()
	n, perr := p.Parse(actionlint.NewExprLexer(src))
	if perr != nil {
		return &semaResult{syntaxErr: true, canon: "syntax-error"}
	}
	c := env.checker(untrusted)
	ty, errs := c.Check(n)
	r := &semaResult{ty: ty, errs: errs}
	var us []string
	for _, e := range errs {
		code, u := classifySema(e.Message)
		if u != nil {
			r.untrusted = append(r.untrusted, u)
			hs := make([]string, len(u))
			for i, p := range u {
				hs[i] = hx(p)
			}
			us = append(us, strings.Join(hs, "/"))
			continue
		}
		if strings.HasPrefix(code, "unclassified:") {
			r.bad = true
		}
		r.errCodes = append(r.errCodes, code)
	}
	r.canon = fmt.Sprintf("ty=%s;errs=%s;untrusted=%s", hx(ty.String()), strings.Join(r.errCodes, "|"), strings.Join(us, "|"))
	return r
}

// semaCodes extracts the multiset (sorted) of diagnostic codes with the given names from a canonical sema result.
func semaCodes(canon string, names ...string) string {
	i := strings.Index(canon, ";errs=")
	j := strings.Index(canon, ";untrusted=")
	if i < 0 || j < i {
		return canon
	}
	var out []string
	for _, e := range strings.Split(canon[i+6:j], "|") {
		for _, n := range names {
			if strings.HasPrefix(e, n+"(") {
				out = append(out, e)
			}
		}
	}
	sort.Strings(out)
	return strings.Join(out, "|")
}

// semaTie runs n random (typing environment, expression) pairs through the real checker and the model
// (the same generator as C06) and records disagreements; judge (may be nil) says which differences are, by the
// property's theorems about the model, failures of the property on that input.
// semaCase is one fixed (environment, expression source) pair for semaTie.
type semaCase struct {
	env *semaEnv
	src string
}

// logicalSkeletons enumerates every expression built from the leaves with at most maxOps of `!`, `( )`, `&&`, `||`.
func logicalSkeletons(maxOps int, leaves []string) []string {
	bySize := make([][]string, maxOps+1)
	bySize[0] = leaves
	for n := 1; n <= maxOps; n++ {
		var out []string
		for _, e := range bySize[n-1] {
			out = append(out, "!"+e, "("+e+")")
		}
		for i := 0; i < n; i++ {
			for _, l := range bySize[i] {
				for _, r := range bySize[n-1-i] {
					out = append(out, l+" && "+r, l+" || "+r)
				}
			}
		}
		bySize[n] = out
	}
	var all []string
	for _, b := range bySize {
		all = append(all, b...)
	}
	return all
}

func semaTie(c *ctx, r *Report, n int, envMod func(rng *rand.Rand, env *semaEnv), fixed []semaCase, judge func(cs Case) (string, string)) error {
	rng := rand.New(rand.NewSource(c.seed + 7919))
	r.Rule += fmt.Sprintf("; model tie: %d random (typing environment, expression) pairs through the real ExprSemanticsChecker and the Lean sema model, outputs (type, diagnostics with arguments, untrusted reports) compared", n)
	var b batch
	b.judge = judge
	if len(fixed) > 0 {
		r.Rule += fmt.Sprintf(" + %d enumerated pairs", len(fixed))
	}
	for i := 0; i < n+len(fixed); i++ {
		var env *semaEnv
		var src string
		if i < len(fixed) {
			env, src = fixed[i].env, fixed[i].src+" }}"
		} else {
			env = genEnv(rng)
			if envMod != nil {
				envMod(rng, env)
			}
			src = genSemaExpr(rng, env, 1+rng.Intn(4)) + " }}"
		}
		cs := Case{Op: "sema", Input: map[string]string{"env": env.encode(), "expr": src}}
		var res *semaResult
		pmsg, to := guarded(10e9, func() { res = runSema(env, src, true) })
		r.Evaluations++
		if pmsg != "" || to {
			cs.Note = pmsg
			r.Crashes = append(r.Crashes, cs)
			continue
		}
		if res.syntaxErr {
			continue
		}
		if res.bad {
			cs.Impl, cs.Note = res.canon, "message matches no known template"
			r.disagree(cs)
		}
		b.add("sema "+env.encode()+" "+hx(src), res.canon, cs)
		r.hist("tie:sema")
	}
	_, err := b.flush(c, r)
	return err
}

// typeUniverse: every type of depth ≤ 2 built from the scalars, arrays (both Deref flags at the top level), strict /
// loose / map objects with 0–2 properties over the keys a, b.
func typeUniverse() []actionlint.ExprType {
	scal := []actionlint.ExprType{actionlint.AnyType{}, actionlint.NullType{}, actionlint.NumberType{}, actionlint.BoolType{}, actionlint.StringType{}}
	level := func(inner []actionlint.ExprType, derefs bool) []actionlint.ExprType {
		var out []actionlint.ExprType
		for _, e := range inner {
			out = append(out, &actionlint.ArrayType{Elem: e})
			if derefs {
				out = append(out, &actionlint.ArrayType{Elem: e, Deref: true})
			}
			out = append(out, actionlint.NewMapObjectType(e))
			out = append(out, actionlint.NewStrictObjectType(map[string]actionlint.ExprType{"a": e}))
			out = append(out, actionlint.NewObjectType(map[string]actionlint.ExprType{"a": e}))
			out = append(out, actionlint.NewStrictObjectType(map[string]actionlint.ExprType{"b": e}))
		}
		for i, e := range inner {
			if i%2 == 0 {
				f := inner[(i+1)%len(inner)]
				out = append(out, actionlint.NewStrictObjectType(map[string]actionlint.ExprType{"a": e, "b": f}))
				out = append(out, actionlint.NewObjectType(map[string]actionlint.ExprType{"a": f, "b": e}))
				out = append(out, &actionlint.ObjectType{Props: map[string]actionlint.ExprType{"a": f}, Mapped: e})
			}
		}
		out = append(out, actionlint.NewEmptyStrictObjectType(), actionlint.NewEmptyObjectType())
		return out
	}
	l1 := append(append([]actionlint.ExprType{}, scal...), level(scal, true)...)
	l2 := level(l1, false)
	return append(l1, l2...)
}

// tyOpsTie compares Merge / Assignable / String of expr_type.go with the model on all pairs of the universe
// (quick: all pairs of the depth ≤ 1 part and a sample of the rest). The receiver is deep-copied first.
func tyOpsTie(c *ctx, r *Report, judge func(cs Case) (string, string)) error {
	u := typeUniverse()
	var b batch
	b.judge = judge
	rng := rand.New(rand.NewSource(c.seed + 104729))
	n1 := 37 // size of the depth ≤ 1 part (5 scalars + 32)
	if n1 > len(u) {
		n1 = len(u)
	}
	pairs := 0
	for i, t1 := range u {
		for j, t2 := range u {
			if !(i < n1 && j < n1) {
				p := 40
				if !c.quick {
					p = 3
				}
				if rng.Intn(p) != 0 {
					continue
				}
			}
			pairs++
			a, bb := encTy(t1), encTy(t2)
			mk := func(op string) Case {
				return Case{Op: "tyop " + op, Input: map[string]string{"left": a, "right": bb, "left_str": t1.String(), "right_str": t2.String()}}
			}
			var merged actionlint.ExprType
			var asg bool
			pmsg, to := guarded(10e9, func() { merged = t1.DeepCopy().Merge(t2.DeepCopy()); asg = t1.Assignable(t2) })
			r.Evaluations += 2
			if pmsg != "" || to {
				cs := mk("merge")
				cs.Note = pmsg
				r.Crashes = append(r.Crashes, cs)
				continue
			}
			b.add("tyop merge "+a+" "+bb, encTy(merged), mk("merge"))
			v := "0"
			if asg {
				v = "1"
			}
			b.add("tyop assign "+a+" "+bb, v, mk("assign"))
		}
	}
	r.Rule += fmt.Sprintf("; type operations: Merge and Assignable of expr_type.go vs the model on %d ordered pairs from a universe of %d types (all scalars, arrays with both Deref flags, strict / loose / map objects with 0–2 properties, nested to depth 2)", pairs, len(u))
	r.hist(fmt.Sprintf("tyop-pairs:%d", pairs))
	_, err := b.flush(c, r)
	return err
}
