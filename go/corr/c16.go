package main

import (
	"encoding/hex"
	runewidth "github.com/mattn/go-runewidth"
	"path/filepath"
	"bytes"
	"encoding/json"
	"fmt"
	"math/rand"
	"os"
	"regexp"
	"strconv"
	"strings"
	"unicode/utf8"

	"github.com/fatih/color"
	"github.com/rhysd/actionlint"
)

func init() { props["C16"] = runC16 }

func loadMatcher() (*regexp.Regexp, error) {
	b, err := os.ReadFile("/repo/.github/actionlint-matcher.json")
	if err != nil {
		return nil, err
	}
	var m struct {
		ProblemMatcher []struct {
			Pattern []struct {
				Regexp string `json:"regexp"`
			} `json:"pattern"`
		} `json:"problemMatcher"`
	}
	if err := json.Unmarshal(b, &m); err != nil {
		return nil, err
	}
	if len(m.ProblemMatcher) != 1 || len(m.ProblemMatcher[0].Pattern) != 1 {
		return nil, fmt.Errorf("unexpected matcher file shape")
	}
	return regexp.Compile(m.ProblemMatcher[0].Pattern[0].Regexp)
}

func matchCanon(re *regexp.Regexp, line string) string {
	m := re.FindStringSubmatch(line)
	if m == nil {
		return "none"
	}
	l, _ := strconv.Atoi(m[2])
	c, _ := strconv.Atoi(m[3])
	return fmt.Sprintf("%s %d %d %s %s", hx(m[1]), l, c, hx(m[4]), hx(m[5]))
}

// injection workflow: %s is a user-controlled string placed at many echo sites (inside double quotes)
const c16Template = `on:
  push:
    branches: ["%[1]s"]
    paths: ["%[1]s"]
  schedule:
    - cron: "%[1]s"
  workflow_dispatch:
    inputs:
      "%[1]s":
        type: "%[1]s"
  "%[1]s":
permissions:
  "%[1]s": "%[1]s"
env:
  "%[1]s=": x
defaults:
  run:
    shell: "%[1]s"
jobs:
  "%[1]s":
    runs-on: ubuntu-latest
    steps:
      - run: echo
  j1:
    needs: ["%[1]s"]
    runs-on: ["self-hosted", "%[1]s"]
    strategy:
      matrix:
        "%[1]s": [1, 1]
        include:
          - "%[1]s": {"%[1]s": 1}
        exclude:
          - other: "%[1]s"
    environment:
      name: x
      "%[1]s": y
    steps:
      - id: "%[1]s"
        run: echo ${{ matrix['%[1]s'].x.y }}
        shell: "%[1]s"
      - uses: "%[1]s"
      - uses: actions/checkout@v4
        with:
          "%[1]s": 1
      - run: |
          echo ${{ fromJSON('{"%[1]s": 1}').foo.bar }}
      - run: |
          echo ${{ format('%[1]s {9}', 1) }}
      - run: echo ${{ steps['%[1]s'] }}
      - run: echo ${{ github['%[1]s'] }} ${{ env.x == job['%[1]s'] }}
        "%[1]s": 1
`

func runC16(c *ctx, r *Report) error {
	re, err := loadMatcher()
	if err != nil {
		return err
	}
	color.NoColor = true
	rng := rand.New(rand.NewSource(c.seed))
	var b batch
	nLines, nSnip := 6000, 3000
	if !c.quick {
		nLines, nSnip = 150000, 80000
	}
	r.Rule = fmt.Sprintf("(1) %d header lines: random diagnostics rendered by Error.Error() / PrettyPrint (messages and file names over an alphabet with ':', digits, ' [', ']', quotes, non-ASCII, printf verbs, template braces, escape sequences) and random adversarial lines; the shipped problem-matcher pattern (read from .github/actionlint-matcher.json, run with Go regexp) vs the model's matcher, and the header vs the model's header; (2) a workflow template with a user-controlled string at 25 echo sites × %d payloads (line breaks, CR, tabs, control and non-ASCII characters, ' [x]') through the real linter in default, -oneline and JSON modes: one header line per diagnostic, parsed back field by field, JSON round trip; (3) %d random (source, line, column) triples through PrettyPrint / GetTemplateFields (panic detector, shown line vs model); non-trivial = distinct lines that match the pattern / distinct triples that show a snippet", nLines, 13, nSnip)

	// (1) matcher + header
	alpha := []string{"a", "b", ":", " ", "[", "]", "1", "2", "\"", "é", ".", "/", "x y", " [", "] ", ": ", ":1:2: ", "\n", "%", "%d", "%s", "%!v", "{{", "}}", "\\"}
	randStr := func(n int) string {
		var sb strings.Builder
		for i := 0; i < n; i++ {
			sb.WriteString(alpha[rng.Intn(len(alpha))])
		}
		return sb.String()
	}
	kinds := []string{"expression", "syntax-check", "glob", "runner-label", "k]", "a b"}
	for i := 0; i < nLines; i++ {
		var line string
		if rng.Intn(4) == 0 {
			line = randStr(1 + rng.Intn(14))
		} else {
			e := &actionlint.Error{
				Message:  randStr(1 + rng.Intn(8)),
				Filepath: []string{"a.yml", ".github/workflows/x.yaml", "dir:1/b.yml", "w s.yml", randStr(1 + rng.Intn(4))}[rng.Intn(5)],
				Line:     rng.Intn(1000),
				Column:   rng.Intn(200),
				Kind:     kinds[rng.Intn(len(kinds))],
			}
			line = e.Error()
			var pp bytes.Buffer
			e.PrettyPrint(&pp, nil)
			if pp.String() != line+"\n" {
				r.finding("prettyprint-header", "PrettyPrint without source differs from Error() + newline", Case{Op: "header", Input: map[string]string{"line": strconv.Quote(line), "pretty": strconv.Quote(pp.String())}})
			}
			b.add(fmt.Sprintf("header %s %d %d %s %s", hx(e.Filepath), e.Line, e.Column, hx(e.Message), hx(e.Kind)), hx(line),
				Case{Op: "header", Input: map[string]string{"line": strconv.Quote(line)}})
			r.Evaluations++
		}
		impl := matchCanon(re, line)
		b.add("matcher "+hx(line), impl, Case{Op: "matcher", Input: map[string]string{"line": strconv.Quote(line)}})
		r.Evaluations++
		if impl != "none" {
			r.nontrivial(line)
			r.hist("matcher:match")
		} else {
			r.hist("matcher:none")
		}
	}

	// (2) injection through the linter
	payloads := []string{"ok", `a\nb`, `a\rb`, `a\tb`, `a b`, `é ü`, `x [y]`, `a\x01b`, `a\\b`}
	for _, pl := range payloads {
		src := fmt.Sprintf(c16Template, pl)
		var plain, oneline, jsonOut bytes.Buffer
		mkLinter := func(out *bytes.Buffer, oneline bool, format string) (*actionlint.Linter, error) {
			return actionlint.NewLinter(out, &actionlint.LinterOptions{Oneline: oneline, Format: format, Shellcheck: "", Pyflakes: "", Color: actionlint.ColorOptionKindNever})
		}
		l1, err := mkLinter(&plain, false, "")
		if err != nil {
			return err
		}
		var errs []*actionlint.Error
		pmsg, _ := guarded(20e9, func() { errs, err = l1.Lint("inj.yaml", []byte(src), nil) })
		r.Evaluations++
		mk := func(note string) Case {
			return Case{Op: "lint-render", Input: map[string]string{"payload": pl, "yaml": src}, Note: note}
		}
		if pmsg != "" {
			r.Crashes = append(r.Crashes, mk(pmsg))
			continue
		}
		if err != nil {
			return err
		}
		r.nontrivial("inject:" + pl)
		l2, _ := mkLinter(&oneline, true, "")
		var errs2, errs3 []*actionlint.Error
		if pm, _ := guarded(20e9, func() { errs2, _ = l2.Lint("inj.yaml", []byte(src), nil) }); pm != "" {
			r.Crashes = append(r.Crashes, mk("-oneline: "+pm))
			continue
		}
		l3, _ := mkLinter(&jsonOut, false, "{{json .}}")
		if pm, _ := guarded(20e9, func() { errs3, _ = l3.Lint("inj.yaml", []byte(src), nil) }); pm != "" {
			r.Crashes = append(r.Crashes, mk("-format '{{json .}}': "+pm))
			continue
		}
		if len(errs2) != len(errs) || len(errs3) != len(errs) {
			r.finding("mode-changes-diagnostics", "the three reporting modes returned different numbers of diagnostics", mk(""))
		}
		for _, e := range errs {
			r.hist("inject:" + e.Kind)
			if strings.ContainsAny(e.Message, "\n\r") {
				r.finding("message-line-break", "a diagnostic message contains a line break: "+strconv.Quote(e.Message), mk(e.Kind))
			}
		}
		// -oneline: exactly one line per diagnostic, each parsed back by the shipped pattern
		lines := strings.Split(strings.TrimSuffix(oneline.String(), "\n"), "\n")
		if oneline.Len() == 0 {
			lines = nil
		}
		if len(lines) != len(errs2) {
			r.finding("oneline-line-count", fmt.Sprintf("-oneline printed %d lines for %d diagnostics", len(lines), len(errs2)), mk(""))
		} else {
			for i, ln := range lines {
				e := errs2[i]
				m := re.FindStringSubmatch(ln)
				ok := m != nil && m[1] == e.Filepath && m[2] == strconv.Itoa(e.Line) && m[3] == strconv.Itoa(e.Column) && m[4] == e.Message && m[5] == e.Kind
				if !ok {
					key := "matcher-roundtrip"
					if strings.Contains(e.Message[1:], " [") {
						key = "matcher-lazy-bracket"
					}
					r.finding(key, "the shipped problem-matcher pattern does not parse the header line back to the diagnostic's fields: "+strconv.Quote(ln), mk(e.Kind))
				}
			}
		}
		// default mode: header lines are a subsequence of the output
		pl1 := strings.Split(plain.String(), "\n")
		idx := 0
		for _, e := range errs {
			found := false
			for idx < len(pl1) {
				if pl1[idx] == e.Error() {
					found = true
					idx++
					break
				}
				idx++
			}
			if !found {
				r.finding("default-mode-header-missing", "default output lacks the header line of a returned diagnostic: "+strconv.Quote(e.Error()), mk(""))
				break
			}
		}
		// JSON round trip
		var js []jsonErr
		if err := json.Unmarshal(jsonOut.Bytes(), &js); err != nil && len(errs3) > 0 {
			r.finding("json-unparsable", "-format '{{json .}}' output is not valid JSON: "+err.Error(), mk(""))
		} else if len(js) != len(errs3) {
			r.finding("json-count", fmt.Sprintf("JSON output has %d entries for %d diagnostics", len(js), len(errs3)), mk(""))
		} else {
			for i, e := range errs3 {
				if js[i].Message != e.Message || js[i].Line != e.Line || js[i].Column != e.Column || js[i].Kind != e.Kind || js[i].Filepath != e.Filepath {
					r.finding("json-roundtrip", "JSON output does not round-trip a diagnostic's fields", mk(e.Error()))
				}
			}
		}
	}

	// (2b) several files in one call (LintFiles has its own printing code per mode): what is printed is what is returned
	{
		dir, err := os.MkdirTemp("", "c16files")
		if err != nil {
			return err
		}
		defer os.RemoveAll(dir)
		var paths []string
		for i := 0; i < 3; i++ {
			p := filepath.Join(dir, fmt.Sprintf("w%d.yml", i))
			os.WriteFile(p, []byte(fmt.Sprintf("on: push\njobs:\n  j%d:\n    runs-on: no-such-label-%d\n    steps:\n      - run: echo ${{ nosuch.ctx%d }}\n", i, i, i)), 0o644)
			paths = append(paths, p)
		}
		for _, mode := range []struct {
			name    string
			oneline bool
			format  string
		}{{"default", false, ""}, {"oneline", true, ""}, {"json", false, "{{json .}}"}} {
			var out bytes.Buffer
			l, err := actionlint.NewLinter(&out, &actionlint.LinterOptions{Oneline: mode.oneline, Format: mode.format, Shellcheck: "", Pyflakes: "", Color: actionlint.ColorOptionKindNever})
			if err != nil {
				return err
			}
			var errs []*actionlint.Error
			var lerr error
			pm, _ := guarded(20e9, func() { errs, lerr = l.LintFiles(paths, nil) })
			r.Evaluations++
			cs := Case{Op: "lintfiles-render", Input: map[string]string{"mode": mode.name, "files": "3 files with 2 diagnostics each"}, Note: truncate(out.String(), 600)}
			if pm != "" {
				r.Crashes = append(r.Crashes, cs)
				continue
			}
			if lerr != nil {
				return lerr
			}
			printed := 0
			if mode.format != "" {
				var js []map[string]interface{}
				if json.Unmarshal(out.Bytes(), &js) == nil {
					printed = len(js)
				}
			} else {
				for _, ln := range strings.Split(out.String(), "\n") {
					if strings.Contains(ln, ".yml:") && strings.HasSuffix(strings.TrimSpace(ln), "]") {
						printed++
					}
				}
			}
			r.nontrivial("lintfiles-render:" + mode.name)
			if printed != len(errs) || len(errs) != 6 {
				r.finding("printed-differs-from-returned", fmt.Sprintf("LintFiles in %s mode printed %d diagnostics and returned %d (6 expected)", mode.name, printed, len(errs)), cs)
			}
		}
	}
	// (3) snippet renderer
	srcAlpha := []string{"a", "b", " ", "\n", "\r\n", "\r", "\u0085", "\u2028", "\t", "é", "日本", "x", "\xff", "\n\n", "한", "ｆ", "語 ", "👍🏽", "👍", "👨\u200d👩\u200d👧", "👩🏿 "}
	for i := 0; i < nSnip; i++ {
		var sb strings.Builder
		n := rng.Intn(12)
		for k := 0; k < n; k++ {
			sb.WriteString(srcAlpha[rng.Intn(len(srcAlpha))])
		}
		src := sb.String()
		if rng.Intn(200) == 0 {
			src = strings.Repeat("x", 70000) + "\nshort\n"
		}
		line := rng.Intn(6) - 1
		col := rng.Intn(9) - 2
		if i%3 == 0 {
			col = rng.Intn(40) - 2 // far enough to have a multi-byte cluster before the column
		}
		e := &actionlint.Error{Message: "m", Filepath: "f", Line: line, Column: col, Kind: "k"}
		var out bytes.Buffer
		var tf *actionlint.ErrorTemplateFields
		pmsg, to := guarded(10e9, func() { e.PrettyPrint(&out, []byte(src)); tf = e.GetTemplateFields([]byte(src)) })
		r.Evaluations++
		mk := func(note string) Case {
			return Case{Op: "snippet", Input: map[string]string{"src": strconv.Quote(truncate(src, 200)), "line": strconv.Itoa(line), "col": strconv.Itoa(col)}, Note: note}
		}
		if pmsg != "" || to {
			r.Crashes = append(r.Crashes, mk(pmsg))
			continue
		}
		outLines := strings.Split(strings.TrimSuffix(out.String(), "\n"), "\n")
		impl := "none"
		if len(outLines) >= 4 {
			prefix := fmt.Sprintf("%d | ", line)
			if strings.HasPrefix(outLines[2], prefix) {
				impl = hx(strings.TrimPrefix(outLines[2], prefix))
				r.nontrivial(fmt.Sprintf("%q:%d:%d", src, line, col))
				r.hist("snippet:shown")
				// the caret sits under the reported column (ASCII prefix: exactly col-1 spaces)
				caret := outLines[3]
				ind := strings.TrimPrefix(caret, strings.Repeat(" ", len(prefix)-2)+"| ")
				shown := strings.TrimPrefix(outLines[2], prefix)
				if col >= 1 && isASCII(shown) && col-1 <= len(shown) {
					if strings.Index(ind, "^") != col-1 {
						r.finding("caret-column", fmt.Sprintf("caret at offset %d, reported column %d", strings.Index(ind, "^"), col), mk(out.String()))
					}
				} else if col >= 1 && col-1 <= len(shown) {
					// text before the column made of printable ASCII and East Asian wide characters only (unambiguous
					// terminal width 1 resp. 2, computed here without go-runewidth): the caret is under the column
					if w, ok := plainWidth(shown[:col-1]); ok {
						r.hist("snippet:wide-prefix")
						if strings.Index(ind, "^") != w {
							r.finding("caret-column", fmt.Sprintf("caret after %d cells, the text before column %d is %d cells wide", strings.Index(ind, "^"), col, w), mk(out.String()))
						}
					}
				}
				// the indicator line against the Lean model AL.Render.indicator (op `indicator`): go-runewidth answers for the
				// width of the bytes before the column and of the runes the underline covers
				if col >= 1 && col-1 <= len(shown) {
					sw := runewidth.StringWidth(shown[:col-1])
					seen := map[rune]bool{}
					var table []string
					for rest := shown[col-1:]; len(rest) > 0; {
						rn, size := utf8.DecodeRuneInString(rest)
						if !seen[rn] {
							seen[rn] = true
							table = append(table, fmt.Sprintf("(%d,%d)", rn, runewidth.RuneWidth(rn)))
						}
						rest = rest[size:]
					}
					tb := "E"
					if len(table) > 0 {
						tb = "(" + strings.Join(table, ",") + ")"
					}
					ln := hex.EncodeToString([]byte(shown))
					if ln == "" {
						ln = "-"
					}
					b.add(fmt.Sprintf("indicator %s %d %d %s", ln, col, sw, tb), hx(ind), Case{Op: "indicator", Input: map[string]string{"line": strconv.Quote(truncate(shown, 200)), "col": strconv.Itoa(col)}})
					r.hist("snippet:indicator-modelled")
					// everything PrettyPrint wrote for this diagnostic against AL.Print.prettyPrint (op `pretty`; AL.C16P)
					if len(src) < 2000 && line >= 0 {
						b.add(fmt.Sprintf("pretty 0 %s %s %d %d %s %s %d %s", hx(src), hx("f"), line, col, hx("m"), hx("k"), sw, tb), hx(perByteValid(out.String())), mk("pretty"))
						r.hist("pretty:with-snippet")
					}
				}
				if tf != nil && !strings.HasPrefix(tf.Snippet, shown) {
					r.finding("template-snippet", "GetTemplateFields snippet differs from the line PrettyPrint shows", mk(tf.Snippet))
				}
				// the snippet handed to -format templates is the same two lines the default output shows: the source line and
				// the indicator (when there is one), at every column the default output accepts (also one past the end)
				if tf != nil {
					want := shown
					if ind != "" {
						want += "\n" + ind
					}
					if tf.Snippet != want {
						r.finding("template-snippet-indicator", fmt.Sprintf("GetTemplateFields snippet %q differs from the default output's snippet %q (line %d, column %d)", tf.Snippet, want, line, col), mk(out.String()))
					} else if ind != "" {
						r.hist("snippet:template-with-indicator")
						if tf.EndColumn != len(ind) {
							r.finding("template-end-column", fmt.Sprintf("end_column %d but the indicator ends at %d", tf.EndColumn, len(ind)), mk(out.String()))
						}
					}
				}
			}
		} else {
			r.hist("snippet:hidden")
		}
		if col < 1 && impl != "none" {
			// the Go code still prints the line with an empty indicator; the model's guard is the same, nothing to add
		}
		if len(src) < 2000 && line >= 0 && col >= 0 {
			b.add(fmt.Sprintf("snippet %s %d %d", hx(src), line, col), impl, mk(""))
		}
		if len(src) < 2000 && line >= 0 && col >= 0 {
			// without a snippet no width is consulted; -oneline drops the source altogether
			if impl == "none" {
				b.add(fmt.Sprintf("pretty 0 %s %s %d %d %s %s", hx(src), hx("f"), line, col, hx("m"), hx("k")), hx(perByteValid(out.String())), mk("pretty"))
				r.hist("pretty:header-only")
			}
			var one bytes.Buffer
			e.PrettyPrint(&one, nil)
			b.add(fmt.Sprintf("pretty 1 %s %s %d %d %s %s", hx(src), hx("f"), line, col, hx("m"), hx("k")), hx(one.String()), mk("pretty -oneline"))
		}
	}
	// (4) `-format '{{json .}}'`: random lists of diagnostics (messages / file names / kinds over quotes, backslashes, every
	// control character, < > &, U+2028 / U+2029, DEL, non-ASCII and astral characters; with and without a source, so that the
	// optional fields are present and absent) through the real ErrorFormatter; the bytes it writes vs the model's encoder
	// AL.JsonEnc.encAll (op `jsonenc`, proved invertible in AL.C16J.json_roundtrip) on the fields GetTemplateFields returns,
	// and encoding/json's own reader on the same bytes
	nJSON := 600
	if !c.quick {
		nJSON = 20000
	}
	jalpha := []string{"a", "B", " ", "\"", "\\", "/", "<", ">", "&", "'", "\n", "\r", "\t", "\b", "\f", "\x00", "\x01", "\x1f", "\x7f", "\u2028", "\u2029", "\u2027", "\u202a",
		"é", "日本", "😀", "\ufffd", "\ufeff", "{", "}", "[", "]", ":", ",", "\\n", "\\u0041", "0", "9", "\u0080", "\u07ff", "\uffff", "\U0010ffff"}
	jstr := func(n int) string {
		var sb strings.Builder
		for i := 0; i < n; i++ {
			if rng.Intn(6) == 0 {
				sb.WriteRune(rune(rng.Intn(0x20)))
			} else {
				sb.WriteString(jalpha[rng.Intn(len(jalpha))])
			}
		}
		return sb.String()
	}
	jf, jerr := actionlint.NewErrorFormatter("{{json .}}")
	if jerr != nil {
		return jerr
	}
	for i := 0; i < nJSON; i++ {
		var src []byte
		if rng.Intn(2) == 0 {
			for k, n := 0, 1+rng.Intn(4); k < n; k++ {
				src = append(src, []byte(jstr(rng.Intn(6))+strings.Repeat("x", rng.Intn(5))+"\n")...)
			}
			src = bytes.ToValidUTF8(bytes.ReplaceAll(bytes.ReplaceAll(src, []byte("\r"), []byte("r")), []byte("\x00"), []byte("0")), []byte("?"))
		}
		var es []*actionlint.Error
		for k, n := 0, rng.Intn(4); k < n; k++ {
			fp := ""
			if rng.Intn(3) > 0 {
				fp = []string{"a.yml", ".github/workflows/<x>.yaml", jstr(1 + rng.Intn(4))}[rng.Intn(3)]
			}
			es = append(es, &actionlint.Error{Message: jstr(rng.Intn(9)), Filepath: fp, Line: rng.Intn(6), Column: rng.Intn(12), Kind: []string{"expression", "syntax-check", jstr(1 + rng.Intn(3))}[rng.Intn(3)]})
		}
		var out bytes.Buffer
		pm := ""
		func() {
			defer func() {
				if x := recover(); x != nil {
					pm = fmt.Sprint(x)
				}
			}()
			if err := jf.PrintErrors(&out, es, src); err != nil {
				pm = "error: " + err.Error()
			}
		}()
		r.Evaluations++
		mkj := func(extra string) Case {
			var in []string
			for _, e := range es {
				in = append(in, strconv.Quote(e.Error()))
			}
			return Case{Op: "jsonenc", Input: map[string]string{"errors": strings.Join(in, " | "), "source": strconv.Quote(string(src)), "output": strconv.Quote(truncate(out.String(), 400)), "note": extra}}
		}
		if pm != "" {
			r.Crashes = append(r.Crashes, mkj("-format '{{json .}}' on a constructed list: "+pm))
			continue
		}
		args := []string{"jsonenc"}
		var want []*actionlint.ErrorTemplateFields
		for _, e := range es {
			tf := e.GetTemplateFields(src)
			want = append(want, tf)
			args = append(args, hx(tf.Message), hx(tf.Filepath), strconv.Itoa(tf.Line), strconv.Itoa(tf.Column), hx(tf.Kind), hx(tf.Snippet), strconv.Itoa(tf.EndColumn))
		}
		b.add(strings.Join(args, " "), hx(out.String()), mkj(""))
		var back []*actionlint.ErrorTemplateFields
		if err := json.Unmarshal(out.Bytes(), &back); err != nil {
			r.finding("json-unparsable", "-format '{{json .}}' output of a constructed list is not valid JSON: "+err.Error(), mkj(""))
			continue
		}
		same := len(back) == len(want)
		for k := 0; same && k < len(back); k++ {
			same = *back[k] == *want[k]
		}
		if !same {
			r.finding("json-roundtrip", "-format '{{json .}}' does not round-trip the fields of a constructed list of diagnostics", mkj(""))
		}
		if strings.Count(out.String(), "\n") != 1 || !strings.HasSuffix(out.String(), "\n") {
			r.finding("json-not-one-line", "-format '{{json .}}' output is not exactly one line", mkj(""))
		}
		if len(es) > 0 {
			r.nontrivial("json:" + out.String())
			r.hist(fmt.Sprintf("json:records=%d,src=%v", len(es), len(src) > 0))
		} else {
			r.hist("json:empty-list")
		}
	}
	// (5) every diagnostic is built by errorAt / errorfAt (AL.C16M.every_message_escaped, a fact regenerated from the source);
	// both through RuleBase.Error / Errorf, the exported way into them: the message a rule hands over vs what the diagnostic
	// carries, against the model's escaper (op `escape`, AL.C16M.escape_no_linebreak) — and no line break in it
	nEsc := 800
	if !c.quick {
		nEsc = 30000
	}
	for i := 0; i < nEsc; i++ {
		msg := jstr(rng.Intn(10))
		rb := actionlint.NewRuleBase("kind", "desc")
		pos := &actionlint.Pos{Line: 1 + rng.Intn(5), Col: 1 + rng.Intn(9)}
		via := "Error"
		if rng.Intn(2) == 0 {
			rb.Error(pos, msg)
		} else {
			via = "Errorf"
			rb.Errorf(pos, "%s", msg)
		}
		r.Evaluations++
		cs := Case{Op: "escape", Input: map[string]string{"message": strconv.Quote(msg), "via": via}}
		errs := rb.Errs()
		if len(errs) != 1 {
			r.finding("escape-count", fmt.Sprintf("RuleBase.%s recorded %d diagnostics for one call", via, len(errs)), cs)
			continue
		}
		got := errs[0].Message
		if strings.ContainsAny(got, "\n\r") {
			r.finding("message-line-break", "a diagnostic's message contains a line break: "+strconv.Quote(got), cs)
		}
		if utf8.ValidString(msg) {
			b.add("escape "+hx(msg), hx(got), cs)
		}
		if strings.ContainsAny(msg, "\n\r") {
			r.nontrivial("escape:" + msg)
			r.hist("escape:had-line-break")
		} else {
			r.hist("escape:clean")
			if got != msg {
				r.finding("escape-alters-clean-text", "a message without line breaks is altered on its way into the diagnostic: "+strconv.Quote(got), cs)
			}
		}
	}
	r.sample(map[string]string{"op": "matcher", "line": "a.yml:1:2: character '[' is invalid [glob]", "impl": matchCanon(re, "a.yml:1:2: character '[' is invalid [glob]")})
	r.sample(map[string]string{"op": "lint-render", "payload": `a\nb`, "sites": "25 echo sites of the template"})
	_, err = b.flush(c, r)
	return err
}

// perByteValid: every byte that is not part of a valid UTF-8 sequence becomes U+FFFD (the model's reading of a source line)
func perByteValid(s string) string {
	var sb strings.Builder
	for len(s) > 0 {
		r, size := utf8.DecodeRuneInString(s)
		if r == utf8.RuneError && size <= 1 {
			sb.WriteString("\uFFFD")
			s = s[1:]
			continue
		}
		sb.WriteString(s[:size])
		s = s[size:]
	}
	return sb.String()
}

func truncate(s string, n int) string {
	if len(s) > n {
		return s[:n] + "…"
	}
	return s
}

// isASCII: printable ASCII only (a TAB has display width 0 for go-runewidth but not for a terminal)
func isASCII(s string) bool {
	for i := 0; i < len(s); i++ {
		if s[i] >= 0x7f || s[i] < 0x20 {
			return false
		}
	}
	return true
}

// plainWidth: terminal cells of s when it consists of printable ASCII (1 cell), East Asian wide / fullwidth
// characters (2 cells) and emoji modifier / ZWJ sequences (one glyph, 2 cells) only; ok = false for anything else (ambiguous-width, combining, control, invalid UTF-8).
func plainWidth(s string) (int, bool) {
	w := 0
	for len(s) > 0 {
		r, size := utf8.DecodeRuneInString(s)
		if r == utf8.RuneError && size <= 1 {
			return 0, false
		}
		switch {
		case r >= 0x20 && r < 0x7f:
			w++
		case r == 0x1F44D || r == 0x1F468 || r == 0x1F469 || r == 0x1F467:
			// an emoji that starts a modifier / ZWJ sequence: the whole grapheme cluster is ONE glyph of two cells (UAX #11:
			// emoji presentation sequences are wide). Consume skin-tone modifiers, VS16 and ZWJ + the next emoji
			w += 2
			s = s[size:]
			for len(s) > 0 {
				r2, size2 := utf8.DecodeRuneInString(s)
				switch {
				case r2 >= 0x1F3FB && r2 <= 0x1F3FF, r2 == 0xFE0F:
					s = s[size2:]
					continue
				case r2 == 0x200D:
					r3, size3 := utf8.DecodeRuneInString(s[size2:])
					if r3 == 0x1F44D || r3 == 0x1F468 || r3 == 0x1F469 || r3 == 0x1F467 {
						s = s[size2+size3:]
						continue
					}
					return 0, false // a cluster cut in the middle
				}
				break
			}
			continue
		case r >= 0x1F3FB && r <= 0x1F3FF, r == 0x200D, r == 0xFE0F:
			return 0, false // a modifier / joiner without its base: the column cuts a cluster
		case r >= 0x1100 && r <= 0x115f, r >= 0x2e80 && r <= 0x303e, r >= 0x3041 && r <= 0xa4cf, r >= 0xac00 && r <= 0xd7a3,
			r >= 0xf900 && r <= 0xfaff, r >= 0xfe30 && r <= 0xfe6f, r >= 0xff01 && r <= 0xff60, r >= 0xffe0 && r <= 0xffe6:
			w += 2
		default:
			return 0, false
		}
		s = s[size:]
	}
	return w, true
}
