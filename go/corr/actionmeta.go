package main

import (
	"fmt"
	"math/rand"
	"os"
	"path/filepath"
	"strings"

	"github.com/rhysd/actionlint"
	"gopkg.in/yaml.v3"
)

// Tie of AL.ActionDecode.fromDoc (action_metadata.go: yaml.Unmarshal into ActionMetadata with its UnmarshalYAML methods):
// generated action.yml files are decoded by the real LocalActionsCache.FindMetadata and by the model (op `actionmeta`).

var amStrPool = []string{"x", "'quoted'", "1", "1.5", "true", "null", "~", "", "[a]", "{a: b}", "${{ x }}", "\"\"", "!!str 3", "node20", "composite", "docker", "Dockerfile", "docker://alpine", "index.js"}

func amGen(rng *rand.Rand) string {
	var b strings.Builder
	// two thirds of the files are well-typed by construction (the decoder has something to decode); the rest is hostile
	good := rng.Intn(3) > 0
	pick := func(pool []string) string {
		v := pool[rng.Intn(len(pool))]
		if !good {
			return v
		}
		for k := 0; k < 20; k++ {
			if !strings.ContainsAny(v, "[{") && v != "" && v != "text" {
				return v
			}
			v = pool[rng.Intn(len(pool))]
		}
		return "x"
	}
	if rng.Intn(10) > 0 {
		fmt.Fprintf(&b, "name: %s\n", pick(amStrPool))
	}
	if rng.Intn(10) > 0 {
		fmt.Fprintf(&b, "description: %s\n", pick(amStrPool))
	}
	if rng.Intn(12) == 0 {
		b.WriteString("author: me\n")
	}
	switch sel := rng.Intn(8); {
	case sel == 0:
	case sel == 1:
		b.WriteString("inputs:\n")
	case sel == 2 && !good:
		b.WriteString("inputs: [a, b]\n")
	default:
		b.WriteString("inputs:\n")
		for i, n := 0, 1+rng.Intn(4); i < n; i++ {
			name := pick([]string{"a", "B", "my-input", "My_Input", "A", "b", "1", "true", "~", "\"\"", "\u212Aey", "key"})
			switch sel := rng.Intn(6); {
			case sel == 0:
				fmt.Fprintf(&b, "  %s:\n", name)
			case sel == 1 && !good:
				fmt.Fprintf(&b, "  %s: text\n", name)
			default:
				fmt.Fprintf(&b, "  %s:\n    description: d\n", name)
				if rng.Intn(3) > 0 {
					if good {
						fmt.Fprintf(&b, "    required: %s\n", pick([]string{"true", "false", "True", "FALSE", "yes", "no", "on", "'true'", "null", "~"}))
					} else {
						fmt.Fprintf(&b, "    required: %s\n", pick(cmRequiredPool))
					}
				}
				if rng.Intn(2) == 0 {
					fmt.Fprintf(&b, "    default: %s\n", pick(cmDefaultPool))
				}
				if !good && rng.Intn(15) == 0 {
					b.WriteString("    required: true\n")
				}
				if rng.Intn(10) == 0 {
					b.WriteString("    deprecationMessage: gone\n")
				}
			}
		}
	}
	switch sel := rng.Intn(6); {
	case sel == 0:
	case sel == 1 && !good:
		b.WriteString("outputs: text\n")
	default:
		b.WriteString("outputs:\n")
		for i, n := 0, rng.Intn(4); i < n; i++ {
			fmt.Fprintf(&b, "  %s:\n    description: d\n    value: v\n", pick([]string{"out", "Out", "OUT", "o2", "O-3", "1"}))
		}
		if rng.Intn(8) == 0 {
			b.WriteString("  plain: scalar\n")
		}
	}
	if rng.Intn(12) > 0 {
		switch sel := rng.Intn(10); {
		case sel == 0:
			b.WriteString("runs:\n")
		case sel == 1 && !good:
			b.WriteString("runs: node20\n")
		default:
			b.WriteString("runs:\n")
			if rng.Intn(8) > 0 {
				fmt.Fprintf(&b, "  using: %s\n", pick([]string{"node20", "node16", "composite", "docker", "perl", "''", "null", "[a]", "Node20", "12"}))
			}
			for _, k := range []string{"main", "pre", "pre-if", "post", "post-if", "image", "pre-entrypoint", "entrypoint", "post-entrypoint"} {
				if rng.Intn(4) == 0 {
					fmt.Fprintf(&b, "  %s: %s\n", k, pick(amStrPool))
				}
			}
			goodOr := func(all []string, ok []string) string {
				if good {
					return ok[rng.Intn(len(ok))]
				}
				return all[rng.Intn(len(all))]
			}
			_ = goodOr
			if rng.Intn(2) == 0 {
				b.WriteString("  steps: " + goodOr([]string{"[]", "", "text", "{a: b}", "[{run: echo, shell: bash}]", "[a, [b, {c: d}]]", "[{a: 1, a: 2}]", "[{[x]: 1}]", "[{? {k: v} : 1}]", "null", "[{1: a, true: b}]"}, []string{"[]", "", "[{run: echo, shell: bash}]", "[a, [b, {c: d}]]", "null", "[{1: a, true: b}]"}) + "\n")
			}
			if rng.Intn(4) == 0 {
				b.WriteString("  args: " + goodOr([]string{"[]", "", "text", "[a, b]", "[{a: 1, a: 2}]", "null", "{a: b}"}, []string{"[]", "", "[a, b]", "null"}) + "\n")
			}
			if rng.Intn(4) == 0 {
				b.WriteString("  env: " + goodOr([]string{"{}", "", "text", "{A: b}", "{A: b, A: c}", "[a]", "null", "{1: a}", "{A: {x: 1, x: 2}}", "{[k]: v}", "{A: [1, {b: c}]}"}, []string{"{}", "", "{A: b}", "null", "{1: a}", "{A: [1, {b: c}]}"}) + "\n")
			}
			if !good && rng.Intn(15) == 0 {
				b.WriteString("  using: node20\n")
			}
			if rng.Intn(12) == 0 {
				b.WriteString("  unknown-key: x\n")
			}
		}
	}
	if rng.Intn(3) == 0 {
		switch sel := rng.Intn(6); {
		case sel == 0:
			b.WriteString("branding:\n")
		case sel == 1 && !good:
			b.WriteString("branding: text\n")
		default:
			b.WriteString("branding:\n")
			if rng.Intn(4) > 0 {
				fmt.Fprintf(&b, "  icon: %s\n", pick([]string{"activity", "Activity", "nosuch", "1", "[a]", "''"}))
			}
			if rng.Intn(4) > 0 {
				fmt.Fprintf(&b, "  color: %s\n", pick([]string{"blue", "BLUE", "nocolor", "null", "{a: b}"}))
			}
		}
	}
	if !good && rng.Intn(25) == 0 {
		b.WriteString("name: again\n")
	}
	return b.String()
}

func amCanon(m *actionlint.ActionMetadata) string {
	r := m.Runs
	in, out := map[string]string{}, map[string]string{}
	for id, i := range m.Inputs {
		in[id] = hx(i.Name) + "," + b01(i.Required)
	}
	for id, o := range m.Outputs {
		out[id] = hx(o.Name)
	}
	rs := strings.Join([]string{hx(r.Using), hx(r.Main), hx(r.Pre), hx(r.PreIf), hx(r.Post), hx(r.PostIf), hx(r.Image), hx(r.PreEntrypoint), hx(r.Entrypoint), hx(r.PostEntrypoint),
		b01(r.Steps == nil), b01(len(r.Steps) > 0), b01(r.Args == nil), b01(r.Env == nil)}, ",")
	return fmt.Sprintf("name=%s desc=%s icon=%s color=%s runs=(%s) in%s out%s", hx(m.Name), hx(m.Description), hx(m.Branding.Icon), hx(m.Branding.Color), rs, cmMap(in), cmMap(out))
}

func amStandard(c *ctx, r *Report, n int) error {
	root, err := os.MkdirTemp("", "verif-actionmeta")
	if err != nil {
		return err
	}
	defer os.RemoveAll(root)
	root, _ = filepath.EvalSymlinks(root)
	os.MkdirAll(filepath.Join(root, ".git"), 0o755)
	os.MkdirAll(filepath.Join(root, ".github", "workflows"), 0o755)
	dir := filepath.Join(root, "act")
	os.MkdirAll(dir, 0o755)
	proj, err := actionlint.NewProjects().At(filepath.Join(root, ".github", "workflows", "x.yml"))
	if err != nil || proj == nil {
		return fmt.Errorf("no project at %s: %v", root, err)
	}
	rng := rand.New(rand.NewSource(c.seed*7927 + 5))
	var srcs []string
	for _, files := range pjActions {
		for name, src := range files {
			if strings.HasPrefix(name, "action.") {
				srcs = append(srcs, src)
			}
		}
	}
	srcs = append(srcs, "", "- a\n", "text\n", "name: x\nruns: &r\n  using: node20\nbranding: *r\n", "name: !!binary aGk=\n", "inputs:\n  <<: {a: {required: true}}\n")
	for i := 0; i < n; i++ {
		srcs = append(srcs, amGen(rng))
	}
	var lines, impls, kept []string
	for _, src := range srcs {
		var rootNode yaml.Node
		if err := yaml.Unmarshal([]byte(src), &rootNode); err != nil {
			r.hist("actionmeta:yaml-rejects")
			continue
		}
		os.WriteFile(filepath.Join(dir, "action.yml"), []byte(src), 0o644)
		var impl string
		pmsg, to := guarded(pwTimeout, func() {
			m, _, err := actionlint.NewLocalActionsCache(proj, nil).FindMetadata("./act")
			switch {
			case err != nil:
				impl = "error"
			case m == nil:
				impl = "nil"
			default:
				impl = amCanon(m)
			}
		})
		if pmsg != "" || to {
			r.Crashes = append(r.Crashes, Case{Op: "actionmeta", Input: map[string]string{"src": src}, Note: "panic/timeout: " + pmsg})
			continue
		}
		if rootNode.Kind == 0 {
			rootNode = yaml.Node{Kind: yaml.DocumentNode, Line: 1, Column: 1}
		}
		lines = append(lines, "actionmeta "+nodeSexp(&rootNode, map[string]bool{}))
		impls = append(impls, impl)
		kept = append(kept, src)
	}
	out, err := runModel(c.driver, lines)
	if err != nil {
		return err
	}
	for i, m := range out {
		r.Evaluations++
		switch {
		case impls[i] == "error":
			r.hist("actionmeta:error")
		default:
			r.hist("actionmeta:decoded")
			r.nontrivial("actionmeta:" + impls[i])
		}
		if m == "unsupported" {
			r.hist("actionmeta:model-unsupported")
			var rootNode yaml.Node
			yaml.Unmarshal([]byte(kept[i]), &rootNode)
			if !cmUnsupported(&rootNode) && !strings.Contains(kept[i], "<<") {
				r.disagree(Case{Op: "actionmeta", Input: map[string]string{"src": kept[i]}, Impl: impls[i], Model: m, Note: "unsupported without alias / !!binary / merge key"})
			}
			continue
		}
		if m != impls[i] {
			r.disagree(Case{Op: "actionmeta", Input: map[string]string{"src": kept[i]}, Impl: impls[i], Model: m})
		}
	}
	return nil
}

func init() { props["AM"] = runAM }

func runAM(c *ctx, r *Report) error {
	r.Rule = "action_metadata.go: decoding of action.yml vs AL.ActionDecode"
	n := 3000
	if !c.quick {
		n = 60000
	}
	return amStandard(c, r, n)
}
