package main

import (
	"bufio"
	"fmt"
	"math/rand"
	"os"
	"regexp"
	"sort"
	"strings"

	"github.com/rhysd/actionlint"
)

func init() { props["C12"] = runC12 }

// docsAvailability reads GitHub's table from the copy vendored in the repository (independent of availability.go).
func docsAvailability() (map[string][2][]string, error) {
	f, err := os.Open("/repo/scripts/generate-availability/testdata/ok.md")
	if err != nil {
		return nil, err
	}
	defer f.Close()
	strip := func(s string) []string {
		s = strings.NewReplacer("<code>", "", "</code>", "", "`", "").Replace(s)
		var out []string
		for _, p := range strings.Split(s, ",") {
			p = strings.ToLower(strings.TrimSpace(p))
			if p != "" && p != "none" {
				out = append(out, p)
			}
		}
		sort.Strings(out)
		return out
	}
	tbl := map[string][2][]string{}
	sc := bufio.NewScanner(f)
	sc.Buffer(make([]byte, 1<<20), 1<<24)
	in := false
	for sc.Scan() {
		line := strings.TrimSpace(sc.Text())
		if !strings.HasPrefix(line, "|") {
			if in {
				break
			}
			continue
		}
		if !in {
			if strings.Contains(strings.ToLower(line), "workflow key") {
				in = true
			}
			continue
		}
		cells := strings.Split(strings.Trim(line, "|"), "|")
		if len(cells) != 3 {
			continue
		}
		k := strip(cells[0])
		if len(k) != 1 || strings.HasPrefix(k[0], "-") {
			continue
		}
		tbl[k[0]] = [2][]string{strip(cells[1]), strip(cells[2])}
	}
	return tbl, sc.Err()
}

// c12Site builds a workflow with the expression placed at the position the documentation calls `key`.
// The placeholder %s receives the whole `${{ … }}`.
type c12Site struct {
	key  string // documented workflow key; "" = a position that is not in the table
	what string
	tmpl string
}

const c12JobHead = "on: push\njobs:\n  j:\n    runs-on: ubuntu-latest\n"
const c12Steps = "    steps:\n      - run: echo\n"

var c12Sites = []c12Site{
	{"run-name", "run-name", "run-name: %s\n" + c12JobHead + c12Steps},
	{"concurrency", "concurrency (scalar)", "concurrency: %s\n" + c12JobHead + c12Steps},
	{"concurrency", "concurrency.group", "concurrency:\n  group: %s\n" + c12JobHead + c12Steps},
	{"env", "env value", "env:\n  A: %s\n" + c12JobHead + c12Steps},
	{"", "name", "name: %s\n" + c12JobHead + c12Steps},
	{"", "defaults.run.shell (workflow)", "defaults:\n  run:\n    shell: %s\n" + c12JobHead + c12Steps},
	{"on.workflow_call.inputs.<inputs_id>.default", "workflow_call input default", "on:\n  workflow_call:\n    inputs:\n      i:\n        type: string\n        default: %s\njobs:\n  j:\n    runs-on: ubuntu-latest\n" + c12Steps},
	{"on.workflow_call.outputs.<output_id>.value", "workflow_call output value", "on:\n  workflow_call:\n    outputs:\n      o:\n        value: %s\njobs:\n  j:\n    runs-on: ubuntu-latest\n" + c12Steps},
	{"jobs.<job_id>.name", "job name", c12JobHead + "    name: %s\n" + c12Steps},
	{"jobs.<job_id>.if", "job if", c12JobHead + "    if: %s\n" + c12Steps},
	{"jobs.<job_id>.runs-on", "runs-on", "on: push\njobs:\n  j:\n    runs-on: %s\n" + c12Steps},
	{"jobs.<job_id>.env", "job env", c12JobHead + "    env:\n      A: %s\n" + c12Steps},
	{"jobs.<job_id>.environment", "environment name", c12JobHead + "    environment:\n      name: %s\n" + c12Steps},
	{"jobs.<job_id>.environment", "environment (scalar)", c12JobHead + "    environment: %s\n" + c12Steps},
	{"jobs.<job_id>.environment.url", "environment url", c12JobHead + "    environment:\n      name: x\n      url: %s\n" + c12Steps},
	{"jobs.<job_id>.concurrency", "job concurrency group", c12JobHead + "    concurrency:\n      group: %s\n" + c12Steps},
	{"jobs.<job_id>.outputs.<output_id>", "job output", c12JobHead + "    outputs:\n      o: %s\n" + c12Steps},
	{"jobs.<job_id>.continue-on-error", "job continue-on-error", c12JobHead + "    continue-on-error: %s\n" + c12Steps},
	{"jobs.<job_id>.timeout-minutes", "job timeout-minutes", c12JobHead + "    timeout-minutes: %s\n" + c12Steps},
	{"jobs.<job_id>.defaults.run", "job defaults.run.shell", c12JobHead + "    defaults:\n      run:\n        shell: %s\n" + c12Steps},
	{"jobs.<job_id>.defaults.run", "job defaults.run.working-directory", c12JobHead + "    defaults:\n      run:\n        working-directory: %s\n" + c12Steps},
	{"jobs.<job_id>.strategy", "strategy.fail-fast", c12JobHead + "    strategy:\n      fail-fast: %s\n      matrix:\n        a: [1]\n" + c12Steps},
	{"jobs.<job_id>.strategy", "strategy.max-parallel", c12JobHead + "    strategy:\n      max-parallel: %s\n      matrix:\n        a: [1]\n" + c12Steps},
	{"jobs.<job_id>.strategy", "strategy.fail-fast (no matrix)", c12JobHead + "    strategy:\n      fail-fast: %s\n" + c12Steps},
	{"jobs.<job_id>.strategy", "strategy.max-parallel (no matrix)", c12JobHead + "    strategy:\n      max-parallel: %s\n" + c12Steps},
	{"jobs.<job_id>.strategy", "matrix row value", c12JobHead + "    strategy:\n      matrix:\n        a:\n          - %s\n" + c12Steps},
	{"jobs.<job_id>.strategy", "matrix (scalar)", c12JobHead + "    strategy:\n      matrix: %s\n" + c12Steps},
	{"jobs.<job_id>.strategy", "matrix include value", c12JobHead + "    strategy:\n      matrix:\n        include:\n          - a: %s\n" + c12Steps},
	{"jobs.<job_id>.container", "container (scalar)", c12JobHead + "    container: %s\n" + c12Steps},
	{"jobs.<job_id>.container.image", "container.image", c12JobHead + "    container:\n      image: %s\n" + c12Steps},
	{"jobs.<job_id>.container", "container.options", c12JobHead + "    container:\n      image: x\n      options: %s\n" + c12Steps},
	{"jobs.<job_id>.container", "container.ports", c12JobHead + "    container:\n      image: x\n      ports:\n        - %s\n" + c12Steps},
	{"jobs.<job_id>.container", "container.volumes", c12JobHead + "    container:\n      image: x\n      volumes:\n        - %s\n" + c12Steps},
	{"jobs.<job_id>.container.credentials", "container.credentials.password", c12JobHead + "    container:\n      image: x\n      credentials:\n        username: u\n        password: %s\n" + c12Steps},
	{"jobs.<job_id>.container.env.<env_id>", "container.env", c12JobHead + "    container:\n      image: x\n      env:\n        A: %s\n" + c12Steps},
	{"jobs.<job_id>.container", "container.options (no image)", c12JobHead + "    container:\n      options: %s\n" + c12Steps},
	{"jobs.<job_id>.container.env.<env_id>", "container.env (no image)", c12JobHead + "    container:\n      env:\n        A: %s\n" + c12Steps},
	{"jobs.<job_id>.environment.url", "environment url (no name)", c12JobHead + "    environment:\n      url: %s\n" + c12Steps},
	{"jobs.<job_id>.services", "services (scalar)", c12JobHead + "    services: %s\n" + c12Steps},
	{"jobs.<job_id>.services", "service image", c12JobHead + "    services:\n      s:\n        image: %s\n" + c12Steps},
	{"jobs.<job_id>.services", "service options", c12JobHead + "    services:\n      s:\n        image: x\n        options: %s\n" + c12Steps},
	{"jobs.<job_id>.services.<service_id>.credentials", "service credentials", c12JobHead + "    services:\n      s:\n        image: x\n        credentials:\n          username: %s\n          password: p\n" + c12Steps},
	{"jobs.<job_id>.services.<service_id>.env.<env_id>", "service env", c12JobHead + "    services:\n      s:\n        image: x\n        env:\n          A: %s\n" + c12Steps},
	{"jobs.<job_id>.steps.name", "step name", c12JobHead + "    steps:\n      - run: echo\n        name: %s\n"},
	{"jobs.<job_id>.steps.if", "step if", c12JobHead + "    steps:\n      - run: echo\n        if: %s\n"},
	{"jobs.<job_id>.steps.run", "step run", c12JobHead + "    steps:\n      - run: echo %s\n"},
	{"jobs.<job_id>.steps.env", "step env", c12JobHead + "    steps:\n      - run: echo\n        env:\n          A: %s\n"},
	{"jobs.<job_id>.steps.with", "step with", c12JobHead + "    steps:\n      - uses: actions/checkout@v4\n        with:\n          ref: %s\n"},
	{"jobs.<job_id>.steps.with", "step with args", c12JobHead + "    steps:\n      - uses: docker://alpine\n        with:\n          args: %s\n"},
	{"jobs.<job_id>.steps.working-directory", "step working-directory", c12JobHead + "    steps:\n      - run: echo\n        working-directory: %s\n"},
	{"jobs.<job_id>.steps.continue-on-error", "step continue-on-error", c12JobHead + "    steps:\n      - run: echo\n        continue-on-error: %s\n"},
	{"jobs.<job_id>.steps.timeout-minutes", "step timeout-minutes", c12JobHead + "    steps:\n      - run: echo\n        timeout-minutes: %s\n"},
	{"", "step shell", c12JobHead + "    steps:\n      - run: echo\n        shell: %s\n"},
	{"", "step id", c12JobHead + "    steps:\n      - run: echo\n        id: %s\n"},
	{"", "step uses", c12JobHead + "    steps:\n      - uses: %s\n"},
	{"jobs.<job_id>.with.<with_id>", "reusable workflow with", "on: push\njobs:\n  j:\n    uses: o/r/.github/workflows/w.yml@v1\n    with:\n      a: %s\n"},
	{"jobs.<job_id>.secrets.<secrets_id>", "reusable workflow secrets", "on: push\njobs:\n  j:\n    uses: o/r/.github/workflows/w.yml@v1\n    secrets:\n      a: %s\n"},
	{"", "reusable workflow uses", "on: push\njobs:\n  j:\n    uses: %s\n"},
	// the same keys next to siblings that hold placeholders themselves: the verdict at a key must not depend on a sibling
	{"jobs.<job_id>.with.<with_id>", "reusable workflow with (uses: holds a placeholder)", "on: push\njobs:\n  j:\n    uses: o/r/.github/workflows/w.yml@${{ 'v1' }}\n    with:\n      a: %s\n"},
	{"jobs.<job_id>.secrets.<secrets_id>", "reusable workflow secrets (uses: holds a placeholder)", "on: push\njobs:\n  j:\n    uses: ${{ 'o/r/.github/workflows/w.yml@v1' }}\n    secrets:\n      a: %s\n"},
	{"jobs.<job_id>.with.<with_id>", "reusable workflow with (local callee, needs and strategy present)", "on: push\njobs:\n  a:\n    runs-on: ubuntu-latest\n    steps:\n      - run: echo\n  j:\n    needs: [a]\n    strategy:\n      matrix:\n        v: [1]\n    uses: ./.github/workflows/w.yml\n    with:\n      a: %s\n    secrets: inherit\n"},
	{"jobs.<job_id>.steps.with", "step with (uses: holds a placeholder)", c12JobHead + "    steps:\n      - uses: actions/checkout@${{ 'v4' }}\n        with:\n          ref: %s\n"},
	{"jobs.<job_id>.steps.env", "step env (run: and name: hold placeholders)", c12JobHead + "    steps:\n      - run: echo ${{ github.sha }}\n        name: ${{ github.sha }}\n        env:\n          A: %s\n"},
	{"jobs.<job_id>.runs-on", "runs-on labels (group holds a placeholder)", "on: push\njobs:\n  j:\n    runs-on:\n      group: ${{ github.sha }}\n      labels:\n        - %s\n" + c12Steps},
}

var (
	reCtxNotAllowed = regexp.MustCompile(`^context "([^"]+)" is not allowed here`)
	reUndefVar      = regexp.MustCompile(`^undefined variable "([^"]+)"`)
	reFnNotAllowed  = regexp.MustCompile(`^calling function "([^"]+)" is not allowed here`)
)

// c12FullSites: the container / service positions again, now with EVERY sibling key present (image, credentials, env,
// ports, volumes, options), in two key orders (credentials first / last) — "sibling configurations"
func c12FullSites() []c12Site {
	type field struct {
		name, contKey, svcKey string
		render               func(ind, v string) string
		benign               string
	}
	scalar := func(k string) func(ind, v string) string {
		return func(ind, v string) string { return ind + k + ": " + v + "\n" }
	}
	seq := func(k string) func(ind, v string) string {
		return func(ind, v string) string { return ind + k + ":\n" + ind + "  - " + v + "\n" }
	}
	fields := []field{
		{"credentials.password", "jobs.<job_id>.container.credentials", "jobs.<job_id>.services.<service_id>.credentials", func(ind, v string) string {
			return ind + "credentials:\n" + ind + "  username: u\n" + ind + "  password: " + v + "\n"
		}, "p"},
		{"image", "jobs.<job_id>.container.image", "jobs.<job_id>.services", scalar("image"), "x"},
		{"env", "jobs.<job_id>.container.env.<env_id>", "jobs.<job_id>.services.<service_id>.env.<env_id>", func(ind, v string) string { return ind + "env:\n" + ind + "  A: " + v + "\n" }, "b"},
		{"ports", "jobs.<job_id>.container", "jobs.<job_id>.services", seq("ports"), "80"},
		{"volumes", "jobs.<job_id>.container", "jobs.<job_id>.services", seq("volumes"), "a:b"},
		{"options", "jobs.<job_id>.container", "jobs.<job_id>.services", scalar("options"), "--cpus 1"},
	}
	var out []c12Site
	for _, svc := range []bool{false, true} {
		for _, credLast := range []bool{false, true} {
			order := append([]field{}, fields...)
			if credLast {
				order = append(order[1:], order[0])
			}
			for pi := range order {
				var body strings.Builder
				ind := "      "
				if svc {
					ind = "        "
				}
				for fi, f := range order {
					v := f.benign
					if fi == pi {
						v = "%s"
					}
					body.WriteString(f.render(ind, v))
				}
				key := order[pi].contKey
				head := c12JobHead + "    container:\n"
				what := "container (all keys present, credentials " + map[bool]string{false: "first", true: "last"}[credLast] + ")." + order[pi].name
				if svc {
					key = order[pi].svcKey
					head = c12JobHead + "    services:\n      s:\n"
					what = "service" + what[len("container"):]
				}
				out = append(out, c12Site{key, what, head + body.String() + c12Steps})
			}
		}
	}
	return out
}

func runC12(c *ctx, r *Report) error {
	c12Sites = append(c12Sites, c12FullSites()...)
	tbl, err := docsAvailability()
	if err != nil {
		return err
	}
	covered := map[string]bool{}
	for _, s := range c12Sites {
		covered[s.key] = true
	}
	var missing []string
	for k := range tbl {
		if !covered[k] {
			missing = append(missing, k)
		}
	}
	sort.Strings(missing)
	if len(missing) > 0 {
		r.finding("site-table-incomplete", "the harness has no position for documented keys "+strings.Join(missing, ", "), Case{Op: "c12"})
	}
	contexts := []string{"env", "github", "inputs", "job", "jobs", "matrix", "needs", "runner", "secrets", "steps", "strategy", "vars"}
	special := []string{"always", "cancelled", "failure", "success", "hashFiles"}
	embedCtx := []string{"toJSON(%s)", "toJSON(%S)", "format('{0}', 1 == 2 || %s)"}
	embedFn := []string{"%s", "!%S", "format('{0}', %s)"}
	r.Rule = fmt.Sprintf("complete cross product: %d positions of the workflow syntax (every one of the %d rows of GitHub's table, read from the vendored documentation, plus %d positions that are not in the table) × 12 contexts × 3 embeddings (function argument, upper case, nested in operators) and × 5 special functions × 3 embeddings, through the real linter; a 'not allowed here' diagnostic must appear iff the documentation's row does not list the name; non-trivial = distinct (position, name, embedding) triples", len(c12Sites), len(tbl), 0)
	nAbsent := 0
	for _, s := range c12Sites {
		if s.key == "" {
			nAbsent++
		}
	}
	r.Rule = strings.Replace(r.Rule, "plus 0 positions", fmt.Sprintf("plus %d positions", nAbsent), 1)
	for _, s := range c12Sites {
		row, inTable := tbl[s.key]
		if s.key != "" && !inTable {
			r.finding("unknown-doc-key", "position refers to a key that is not in the documentation's table: "+s.key, Case{Op: "c12"})
			continue
		}
		allowedCtx := map[string]bool{}
		allowedFn := map[string]bool{}
		for _, x := range row[0] {
			allowedCtx[x] = true
		}
		for _, x := range row[1] {
			allowedFn[x] = true
		}
		try := func(name string, expr string, isFn bool) {
			src := fmt.Sprintf(s.tmpl, "${{ "+expr+" }}")
			errs, err := lintSrc("t.yaml", src)
			r.Evaluations++
			r.nontrivial(s.what + "|" + expr)
			mk := func(note string) Case {
				return Case{Op: "lint-availability", Input: map[string]string{"position": s.what, "doc_key": s.key, "expr": expr, "yaml": src}, Note: note}
			}
			if err != nil {
				r.Crashes = append(r.Crashes, mk(err.Error()))
				return
			}
			reported := false
			for _, e := range errs {
				if isFn {
					if m := reFnNotAllowed.FindStringSubmatch(e.Message); m != nil && strings.EqualFold(m[1], name) {
						reported = true
					}
				} else {
					if m := reCtxNotAllowed.FindStringSubmatch(e.Message); m != nil && strings.EqualFold(m[1], name) {
						reported = true
					}
					// `jobs` only exists inside a reusable workflow: elsewhere it is refused as undefined
					if m := reUndefVar.FindStringSubmatch(e.Message); m != nil && strings.EqualFold(m[1], name) {
						reported = true
					}
				}
			}
			want := !allowedCtx[strings.ToLower(name)]
			if isFn {
				want = !allowedFn[strings.ToLower(name)]
			}
			if reported {
				r.hist("reported")
			} else {
				r.hist("allowed")
			}
			if reported != want {
				kind := "context"
				if isFn {
					kind = "function"
				}
				key := fmt.Sprintf("availability:%s:%s", s.what, strings.ToLower(name))
				var all []string
				for _, e := range errs {
					all = append(all, e.Message)
				}
				r.finding(key, fmt.Sprintf("%s %q at %s (documented key %q): reported=%v, the documentation's table says not-allowed=%v", kind, name, s.what, s.key, reported, want), mk(strings.Join(all, " || ")))
			}
		}
		for _, cx := range contexts {
			for _, em := range embedCtx {
				expr := strings.Replace(strings.Replace(em, "%S", strings.ToUpper(cx), 1), "%s", cx, 1)
				try(cx, expr, false)
			}
		}
		for _, fn := range special {
			call := fn + "()"
			if fn == "hashFiles" {
				call = "hashFiles('a')"
			}
			for _, em := range embedFn {
				up := strings.ToUpper(fn) + call[len(fn):]
				expr := strings.Replace(strings.Replace(em, "%S", up, 1), "%s", call, 1)
				try(fn, expr, true)
			}
		}
	}
	r.Exhaustive = true
	r.sample(map[string]string{"position": "job env", "doc_key": "jobs.<job_id>.env", "expr": "toJSON(runner)", "expected": "reported"})
	r.sample(map[string]string{"position": "step if", "doc_key": "jobs.<job_id>.steps.if", "expr": "!ALWAYS()", "expected": "allowed"})
	// tie of the sema model that not_allowed_iff / special_not_allowed_sound are about, under random availability lists
	nTie := 4000
	if !c.quick {
		nTie = 60000
	}
	// "the verdict does not depend on where inside the expression the name occurs": every expression with at most
	// maxOps of ! ( ) && || over the leaves {disallowed context, disallowed special function, allowed context, literal}
	maxOps := 3
	if !c.quick {
		maxOps = 4
	}
	var fixed []semaCase
	{
		var ctxs, sps []string
		for _, x := range allContexts {
			if x != "runner" {
				ctxs = append(ctxs, x)
			}
		}
		for _, x := range allSpecial {
			if x != "always" {
				sps = append(sps, x)
			}
		}
		env := &semaEnv{vars: map[string]actionlint.ExprType{}, availCtx: ctxs, availSpecial: sps}
		for _, e := range logicalSkeletons(maxOps, []string{"RUNNER.os", "always()", "github.sha", "true"}) {
			fixed = append(fixed, semaCase{env, e})
		}
	}
	if err := semaTie(c, r, nTie, func(rng *rand.Rand, env *semaEnv) {
		var cs, sp []string
		for _, x := range allContexts {
			if rng.Intn(3) != 0 {
				cs = append(cs, x)
			}
		}
		for _, x := range allSpecial {
			if rng.Intn(2) == 0 {
				sp = append(sp, x)
			}
		}
		env.availCtx, env.availSpecial = cs, sp
	}, fixed, func(cs Case) (string, string) {
		names := []string{"context-not-allowed", "special-func-not-allowed"}
		if a, b := semaCodes(cs.Impl, names...), semaCodes(cs.Model, names...); a != b {
			return "not-allowed-reports-differ-from-table-rule", "the checker's 'not allowed here' reports (" + a + ") differ from the proved rule (" + b + ") for the same availability lists"
		}
		return "", ""
	}); err != nil {
		return err
	}
	// workflow level: the model AL.Visit checks every position with the availability row of the key that belongs to it
	// (AL.Gen.availabilityCode = the documentation's table, code_eq_docs); a difference in 'not allowed here' reports on
	// a probe line means the real code used another row there.
	nV := 300
	if !c.quick {
		nV = 6000
	}
	if err := visitTie(c, r, nV, false, func(cs Case) (string, string) {
		names := []string{"context-not-allowed", "special-func-not-allowed"}
		if a, b := visitCodes(cs.Impl, names...), visitCodes(cs.Model, names...); a != b {
			return "workflow-position-uses-wrong-table-row", "the 'not allowed here' reports at the probes (" + a + ") differ from those of the table row that belongs to each position (" + b + ")"
		}
		return "", ""
	}); err != nil {
		return err
	}
	perE := 6
	if !c.quick {
		perE = 200
	}
	return exStandard(c, r, func(cs Case) (string, string) {
		pick := func(s string) string {
			var out []string
			for _, d := range strings.Split(s, ";") {
				for _, n := range []string{"context-not-allowed", "special-func-not-allowed"} {
					if strings.HasPrefix(d, n+"(") {
						out = append(out, d)
					}
				}
			}
			return strings.Join(out, ";")
		}
		if pick(cs.Impl) != pick(cs.Model) {
			return "availability-reports-differ-from-rule-model", "the 'not allowed here' reports of the real rule differ from the model of rule_expression.go (workflow key of each string + availability table) on this source"
		}
		return "", ""
	}, perE, true, map[bool]int{true: 2500, false: 0}[c.quick])
}
