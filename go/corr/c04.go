package main

import (
	"fmt"
	"math/rand"
	"regexp"
	"strconv"
	"strings"

	"github.com/rhysd/actionlint"
)

func init() { props["C04"] = runC04 }

var tokKindNum = map[string]int{
	"UNKNOWN": 0, "END": 1, "IDENT": 2, "STRING": 3, "INTEGER": 4, "FLOAT": 5, "(": 6, ")": 7, "[": 8, "]": 9,
	".": 10, "!": 11, "<": 12, "<=": 13, ">": 14, ">=": 15, "==": 16, "!=": 17, "&&": 18, "||": 19, "*": 20, ",": 21,
}

var lexWhere = map[string]string{
	"integer part of number":         "int",
	"fraction part of float number":  "frac",
	"exponent part of float number":  "exp",
	"hex integer":                    "hex",
	"end of string literal":          "strend",
	"end marker }}":                  "endmarker",
	"== operator":                    "eq",
	"&& operator":                    "and",
	"|| operator":                    "or",
	"expression":                     "expr",
}

var parseWhere = map[string]string{
	"arguments of function call":                                                          "args",
	"closing ')' of nested expression (...)":                                              "nested",
	"variable access, function call, null, bool, int, float or string":                    "primary",
	"object property dereference like 'a.b' or array element dereference like 'a.*'":      "deref",
	"closing bracket ']' for index access":                                                "index",
}

var (
	reParseUnexp  = regexp.MustCompile(`^unexpected (end of input|token ("(?:[^"\\]|\\.)*")) while parsing (.*)\. expecting .*$`)
	reParseInt    = regexp.MustCompile(`(?s)^parsing invalid integer literal ("(?:[^"\\]|\\.)*"): .*$`)
	reParseFloat  = regexp.MustCompile(`(?s)^parsing invalid float literal ("(?:[^"\\]|\\.)*"): .*$`)
	reParseRemain = regexp.MustCompile(`^parser did not reach end of input after parsing the expression\. (\d+) remaining token\(s\) in the input: (.*)$`)
)

// classifyExprErr maps an ExprError message to the model's canonical code.
func classifyExprErr(msg string) string {
	switch {
	case msg == "scan error while lexing expression: invalid character NUL":
		return "lex,scan:nul"
	case msg == "scan error while lexing expression: invalid UTF-8 encoding":
		return "lex,scan:utf8"
	case msg == "unexpected EOF while lexing expression":
		return "lex,eof"
	case strings.HasPrefix(msg, "got unexpected "):
		rest := msg[len("got unexpected "):]
		ch := ""
		if strings.HasPrefix(rest, "EOF") {
			ch, rest = "EOF", rest[3:]
		} else if strings.HasPrefix(rest, "character ") {
			q, err := strconv.QuotedPrefix(rest[len("character "):])
			if err != nil {
				return "unclassified:" + msg
			}
			r, _, _, err := strconv.UnquoteChar(q[1:len(q)-1], '\'')
			if err != nil {
				return "unclassified:" + msg
			}
			ch, rest = strconv.Itoa(int(r)), rest[len("character ")+len(q):]
		}
		if !strings.HasPrefix(rest, " while lexing ") {
			return "unclassified:" + msg
		}
		rest = rest[len(" while lexing "):]
		i := strings.Index(rest, ", expecting ")
		if i < 0 {
			return "unclassified:" + msg
		}
		wh := rest[:i]
		if w, ok := lexWhere[wh]; ok {
			return "lex,unexp:" + ch + ":" + w
		}
		if strings.HasPrefix(wh, "character following number ") {
			return "lex,unexp:" + ch + ":afternum"
		}
		if strings.HasPrefix(wh, "character following hex integer ") {
			return "lex,unexp:" + ch + ":afterhex"
		}
	}
	if x := reParseUnexp.FindStringSubmatch(msg); x != nil {
		k := 1
		if x[2] != "" {
			n, ok := tokKindNum[unq(x[2])]
			if !ok {
				return "unclassified:" + msg
			}
			k = n
		}
		if w, ok := parseWhere[x[3]]; ok {
			return fmt.Sprintf("parse,unexp:%s:%d", w, k)
		}
	}
	if x := reParseInt.FindStringSubmatch(msg); x != nil {
		return "parse,badint:" + hx(unq(x[1]))
	}
	if x := reParseFloat.FindStringSubmatch(msg); x != nil {
		return "parse,badfloat:" + hx(unq(x[1]))
	}
	if x := reParseRemain.FindStringSubmatch(msg); x != nil {
		var ks []string
		for _, q := range reQuoted.FindAllString(x[2], -1) {
			n, ok := tokKindNum[unq(q)]
			if !ok {
				return "unclassified:" + msg
			}
			ks = append(ks, strconv.Itoa(n))
		}
		return fmt.Sprintf("parse,remain:%s:%s", x[1], strings.Join(ks, "/"))
	}
	return "unclassified:" + msg
}

func exprErrCanon(e *actionlint.ExprError) string {
	return fmt.Sprintf("%s,%d,%d,%d", classifyExprErr(e.Message), e.Offset, e.Line, e.Column)
}

var cmpName = map[actionlint.CompareOpNodeKind]string{
	actionlint.CompareOpNodeKindLess: "lt", actionlint.CompareOpNodeKindLessEq: "le",
	actionlint.CompareOpNodeKindGreater: "gt", actionlint.CompareOpNodeKindGreaterEq: "ge",
	actionlint.CompareOpNodeKindEq: "eq", actionlint.CompareOpNodeKindNotEq: "ne",
}

func exprCanon(n actionlint.ExprNode) string {
	switch n := n.(type) {
	case *actionlint.NullNode:
		return "null"
	case *actionlint.BoolNode:
		return strconv.FormatBool(n.Value)
	case *actionlint.IntNode:
		return "i" + strconv.Itoa(n.Value)
	case *actionlint.FloatNode:
		return "f" + hx(n.Token().Value)
	case *actionlint.StringNode:
		return "s" + hx(n.Value)
	case *actionlint.VariableNode:
		return "v" + hx(n.Name)
	case *actionlint.FuncCallNode:
		var b strings.Builder
		b.WriteString("call(" + hx(n.Callee))
		for _, a := range n.Args {
			b.WriteString("," + exprCanon(a))
		}
		b.WriteString(")")
		return b.String()
	case *actionlint.ObjectDerefNode:
		return "od(" + exprCanon(n.Receiver) + "," + hx(n.Property) + ")"
	case *actionlint.ArrayDerefNode:
		return "ad(" + exprCanon(n.Receiver) + ")"
	case *actionlint.IndexAccessNode:
		return "ix(" + exprCanon(n.Operand) + "," + exprCanon(n.Index) + ")"
	case *actionlint.NotOpNode:
		return "not(" + exprCanon(n.Operand) + ")"
	case *actionlint.CompareOpNode:
		return cmpName[n.Kind] + "(" + exprCanon(n.Left) + "," + exprCanon(n.Right) + ")"
	case *actionlint.LogicalOpNode:
		if n.Kind == actionlint.LogicalOpNodeKindAnd {
			return "and(" + exprCanon(n.Left) + "," + exprCanon(n.Right) + ")"
		}
		return "or(" + exprCanon(n.Left) + "," + exprCanon(n.Right) + ")"
	}
	return fmt.Sprintf("?%T", n)
}

func lexCanon(src string) string {
	ts, off, err := actionlint.LexExpression(src)
	if err != nil {
		return fmt.Sprintf("err,%d,%s", off, exprErrCanon(err))
	}
	parts := make([]string, len(ts))
	for i, t := range ts {
		parts[i] = fmt.Sprintf("%d:%s:%d:%d:%d", int(t.Kind), hx(t.Value), t.Offset, t.Line, t.Column)
	}
	return fmt.Sprintf("ok,%d;%s", off, strings.Join(parts, ";"))
}

func parseCanon(src string) (string, *actionlint.ExprError) {
	p := actionlint.NewExprParser()
	n, err := p.Parse(actionlint.NewExprLexer(src))
	if err != nil {
		return "err " + exprErrCanon(err), err
	}
	return "ok " + exprCanon(n), nil
}

// genExpr produces a random sentence of the documented grammar (fully or minimally parenthesised) with
// random whitespace between tokens.
func genExpr(rng *rand.Rand, depth int) []string {
	idents := []string{"a", "github", "b-c", "_x", "A1", "true", "false", "null", "TRUE", "fromJSON", "x_y-z"}
	if depth <= 0 || rng.Intn(4) == 0 {
		switch rng.Intn(7) {
		case 0:
			return []string{[]string{"0", "1", "42", "-7", "0x1F", "0x0", "2147483647", "2147483648", "-2147483648"}[rng.Intn(9)]}
		case 1:
			return []string{[]string{"1.5", "0.0", "1e3", "1E-2", "-0.25e10", "1e308", "1e309", "9.9e-400"}[rng.Intn(8)]}
		case 2:
			return []string{[]string{"''", "'a'", "'it''s'", "' '", "'}}'", "'\"'"}[rng.Intn(6)]}
		default:
			return []string{idents[rng.Intn(len(idents))]}
		}
	}
	switch rng.Intn(9) {
	case 0:
		return append(append([]string{"("}, genExpr(rng, depth-1)...), ")")
	case 1:
		return append([]string{"!"}, genExpr(rng, depth-1)...)
	case 2:
		op := []string{"<", "<=", ">", ">=", "==", "!="}[rng.Intn(6)]
		return append(append(genExpr(rng, depth-1), op), genExpr(rng, depth-1)...)
	case 3:
		return append(append(genExpr(rng, depth-1), "&&"), genExpr(rng, depth-1)...)
	case 4:
		return append(append(genExpr(rng, depth-1), "||"), genExpr(rng, depth-1)...)
	case 5:
		out := []string{idents[rng.Intn(len(idents))], "("}
		n := rng.Intn(3)
		for i := 0; i < n; i++ {
			if i > 0 {
				out = append(out, ",")
			}
			out = append(out, genExpr(rng, depth-1)...)
		}
		return append(out, ")")
	case 6:
		return append(genExpr(rng, depth-1), ".", idents[rng.Intn(len(idents))])
	case 7:
		return append(genExpr(rng, depth-1), ".", "*")
	default:
		return append(append(append(genExpr(rng, depth-1), "["), genExpr(rng, depth-1)...), "]")
	}
}

func runC04(c *ctx, r *Report) error {
	alpha := []string{"a", "0", "1", "x", "e", "E", "-", ".", "'", "!", "=", "&", "|", "(", " ", "\x00"}
	extra := []string{")", "[", "]", "<", ">", "*", ",", "}", "\n", "\t", "_", "9", "f", "\xff", "é", "\"", "+"}
	tokReps := []string{"a", "'s'", "1", "1.5", "(", ")", "[", "]", ".", "!", "<", "<=", ">", ">=", "==", "!=", "&&", "||", "*", ",", "true", "f"}
	maxLen, maxTok, nRand := 4, 3, 30000
	if !c.quick {
		maxLen, maxTok, nRand = 5, 4, 400000
	}
	r.Rule = fmt.Sprintf("all strings of length ≤ %d over the %d-symbol lexical alphabet %q (followed by }}, and also unterminated), all strings of length ≤ 3 over that alphabet plus %q, all strings of length ≤ maxLen+1 over the number alphabet 0 1 x X e E . - + a F, all sequences of ≤ %d tokens over %d token representatives joined by single spaces, %d random sentences of the grammar (depth ≤ 6) with random whitespace and random single-token mutations; LexExpression and ExprParser.Parse compared with the model (tokens, offsets, tree, error template + position); non-trivial = distinct sources that lex to ≥ 2 tokens or produce an error other than EOF", maxLen, len(alpha), alpha, extra, maxTok, len(tokReps), nRand)
	var b batch
	// AL.Props.C04: parse_iff (the model accepts a token list iff it derives from the documented grammar) and
	// der_unambiguous / precedence (the tree is the grammar's unique derivation); AL.Props.C04Lex for the lexical forms. A verdict or tree
	// difference on the same source is therefore a sentence on which the implementation departs from the grammar.
	b.judge = func(cs Case) (string, string) {
		iok, mok := strings.HasPrefix(cs.Impl, "ok"), strings.HasPrefix(cs.Model, "ok")
		switch {
		case cs.Op == "parse" && iok && !mok:
			return "accepts-non-sentence", "the parser accepts text that is not a sentence of the documented grammar (the proved model rejects it: " + cs.Model + ")"
		case cs.Op == "parse" && !iok && mok:
			return "rejects-sentence", "the parser rejects a sentence of the documented grammar (" + cs.Impl + "); the proved model derives " + cs.Model
		case cs.Op == "parse" && iok && mok:
			return "structure-differs", "accepted text is analysed with a structure other than the grammar's (implementation " + cs.Impl + ", grammar " + cs.Model + ")"
		case cs.Op == "lex" && iok != mok:
			return "lexical-form-differs", "the lexer and the documented lexical forms disagree on whether this text is well formed (implementation " + cs.Impl + ", model " + cs.Model + ")"
		}
		return "", ""
	}
	b.srcOf = func(cs Case) string { return unhx(cs.Input["src_hex"]) }
	b.rerun = func(_ Case, src string) (string, string, Case) {
		cs := Case{Op: "parse", Input: map[string]string{"src_hex": hx(src), "src": strconv.Quote(src)}}
		if strings.HasPrefix(src, "\ufeff") {
			panic("excluded")
		}
		pc, _ := parseCanon(src)
		return "parse " + hx(src), pc, cs
	}
	seen := map[string]bool{}
	one := func(src string) {
		// excluded from the tie: a leading BOM is skipped by text/scanner but stays inside the first token's
		// byte slice (DESIGN.md, Corrections); the model's token text is the list of scanned characters
		if strings.HasPrefix(src, "\ufeff") {
			return
		}
		if seen[src] {
			return
		}
		seen[src] = true
		mk := func(op string) Case {
			return Case{Op: op, Input: map[string]string{"src_hex": hx(src), "src": strconv.Quote(src)}}
		}
		var lc, pc string
		var perr *actionlint.ExprError
		pmsg, to := guarded(10e9, func() { lc = lexCanon(src); pc, perr = parseCanon(src) })
		r.Evaluations += 2
		if pmsg != "" || to {
			cs := mk("parse")
			cs.Note = pmsg
			if to {
				cs.Note = "timeout"
			}
			r.Crashes = append(r.Crashes, cs)
			return
		}
		if strings.Contains(lc, "unclassified:") || strings.Contains(pc, "unclassified:") {
			cs := mk("parse")
			cs.Impl = lc + " / " + pc
			cs.Note = "message matches no known template"
			r.disagree(cs)
		}
		b.add("lex "+hx(src), lc, mk("lex"))
		b.add("parse "+hx(src), pc, mk("parse"))
		if strings.Count(lc, ";") >= 2 || (strings.HasPrefix(lc, "err") && !strings.Contains(lc, "lex,eof")) {
			r.nontrivial(src)
		}
		if perr != nil {
			r.hist(strings.SplitN(strings.SplitN(classifyExprErr(perr.Message), ":", 2)[0], ",", 3)[0] + "-error")
			if perr.Offset < 0 || perr.Offset > len(src) || perr.Line < 1 || perr.Column < 1 {
				r.finding("error-outside", "syntax error positioned outside the expression text", mk("parse"))
			}
		} else {
			r.hist("accepted")
		}
	}
	var rec func(prefix string, depth int, al []string)
	rec = func(prefix string, depth int, al []string) {
		one(prefix + "}}")
		if len(prefix) <= 2 {
			one(prefix)
		}
		if depth == 0 {
			return
		}
		for _, a := range al {
			rec(prefix+a, depth-1, al)
		}
	}
	rec("", maxLen, alpha)
	rec("", 3, append(append([]string{}, alpha...), extra...))
	// number forms: every string over the characters the number lexer distinguishes, in both letter cases
	rec("", maxLen+1, []string{"0", "1", "x", "X", "e", "E", ".", "-", "+", "a", "F"})
	var recTok func(prefix []string, depth int)
	recTok = func(prefix []string, depth int) {
		one(strings.Join(prefix, " ") + " }}")
		if depth == 0 {
			return
		}
		for _, t := range tokReps {
			recTok(append(prefix, t), depth-1)
		}
	}
	recTok(nil, maxTok)
	rng := rand.New(rand.NewSource(c.seed))
	ws := []string{"", "", " ", "  ", "\n", "\t", "\r\n"}
	for i := 0; i < nRand; i++ {
		toks := genExpr(rng, 1+rng.Intn(6))
		if rng.Intn(3) == 0 && len(toks) > 0 { // mutate: drop / duplicate / replace one token
			k := rng.Intn(len(toks))
			switch rng.Intn(3) {
			case 0:
				toks = append(toks[:k:k], toks[k+1:]...)
			case 1:
				toks = append(toks[:k+1:k+1], toks[k:]...)
			default:
				toks[k] = tokReps[rng.Intn(len(tokReps))]
			}
		}
		var sb strings.Builder
		for _, t := range toks {
			sb.WriteString(ws[rng.Intn(len(ws))])
			sb.WriteString(t)
		}
		sb.WriteString(ws[rng.Intn(len(ws))])
		if rng.Intn(20) != 0 {
			sb.WriteString("}}")
		}
		one(sb.String())
	}
	r.Exhaustive = true
	ex := "!a.b == 'x' && c[0] || f(1, 2) }}"
	pc, _ := parseCanon(ex)
	r.sample(map[string]string{"op": "parse", "src": ex, "impl": pc})
	ex2 := "1e+5 }}"
	pc2, _ := parseCanon(ex2)
	r.sample(map[string]string{"op": "parse", "src": ex2, "impl": pc2})
	_, err := b.flush(c, r)
	return err
}
