package main

import (
	"fmt"
	"math/rand"
	"strings"
)

func init() { props["C05"] = runC05 }

type c05Probe struct {
	line   int
	expr   string
	name   string // the name whose definedness is probed (as written)
	want   bool   // true = must be reported as undefined
	what   string
}

type c05Builder struct {
	lines  []string
	probes []c05Probe
}

func (b *c05Builder) add(l string) int {
	b.lines = append(b.lines, l)
	return len(b.lines)
}

func (b *c05Builder) probeStep(indent, expr, name string, want bool, what string) {
	ln := b.add(indent + "- run: echo ${{ " + expr + " }}")
	b.probes = append(b.probes, c05Probe{ln, expr, name, want, what})
}

func randCase(rng *rand.Rand, s string) string {
	switch rng.Intn(4) {
	case 0:
		return strings.ToUpper(s)
	case 1:
		return strings.ToUpper(s[:1]) + s[1:]
	}
	return s
}

func runC05(c *ctx, r *Report) error {
	rng := rand.New(rand.NewSource(c.seed))
	nShapes := 250
	if !c.quick {
		nShapes = 6000
	}
	r.Rule = fmt.Sprintf("%d random workflow shapes: 1–5 jobs with a random needs DAG (incl. transitive chains, so that indirect dependencies exist), 0–5 steps per job with ids at random places, declared job outputs, matrices with literal rows / include keys / expression rows / expression include / expression matrix, workflow_call and/or workflow_dispatch with inputs and secrets (or neither); inside every step at name / if / env / continue-on-error / timeout-minutes / working-directory (own id and others), after EVERY step position and at job outputs / environment url a probe step references every candidate name (defined, undefined, differently cased) of steps.<id>, needs.<job>[.outputs.<name>], matrix.<key>, inputs.<name>, secrets.<name>, and jobs.<job>.outputs.<name> in workflow_call outputs; the real linter must report 'is not defined' at a probe iff the generator's scope rules (written from the property text) say the entity is out of scope; non-trivial = distinct probes", nShapes)
	stepIDs := []string{"alpha", "beta", "gamma"}
	outNames := []string{"o1", "o2"}
	matrixKeys := []string{"os", "ver", "extra"}
	inputNames := []string{"who", "lvl"}
	secretNames := []string{"tok", "key"}
	for s := 0; s < nShapes; s++ {
		b := &c05Builder{}
		nJobs := 1 + rng.Intn(5)
		hasCall, hasDispatch := rng.Intn(3) == 0, rng.Intn(3) == 0
		callInputs, dispInputs, callSecrets := map[string]bool{}, map[string]bool{}, map[string]bool{}
		secretsDeclared := false
		// per job data
		type jobInfo struct {
			id       string
			needs    []int
			outputs  []string
			matrix   string // none | lit | exprRow | exprInclude | exprIncludeElem | exprMatrix | exprMatrixConst
			rowKeys  []string
			incKeys  []string
			stepIDs  []string // "" = no id
		}
		jobs := make([]jobInfo, nJobs)
		for j := range jobs {
			jobs[j].id = fmt.Sprintf("job%d", j)
			for k := 0; k < j; k++ {
				if rng.Intn(3) == 0 {
					jobs[j].needs = append(jobs[j].needs, k)
				}
			}
			for _, o := range outNames {
				if rng.Intn(2) == 0 {
					jobs[j].outputs = append(jobs[j].outputs, o)
				}
			}
			jobs[j].matrix = []string{"none", "none", "lit", "lit", "exprRow", "exprInclude", "exprIncludeElem", "exprMatrix"}[rng.Intn(8)]
			if s%25 == 7 && j == 0 {
				// the whole matrix given by an expression whose type is known statically (a JSON literal): by the letter of the
				// property references into it are not reported; the rule types the literal and reports (recorded finding)
				jobs[j].matrix = "exprMatrixConst"
			}
			if jobs[j].matrix != "none" && jobs[j].matrix != "exprMatrix" && jobs[j].matrix != "exprMatrixConst" {
				jobs[j].rowKeys = []string{matrixKeys[rng.Intn(2)]}
				if jobs[j].matrix == "lit" && rng.Intn(2) == 0 {
					jobs[j].incKeys = []string{"extra"}
				}
			}
			n := rng.Intn(6)
			used := map[string]bool{}
			for k := 0; k < n; k++ {
				id := ""
				if rng.Intn(2) == 0 {
					id = stepIDs[rng.Intn(len(stepIDs))]
					if used[id] {
						id = ""
					}
					used[id] = true
				}
				jobs[j].stepIDs = append(jobs[j].stepIDs, id)
			}
		}
		// header
		b.add("on:")
		if !hasCall && !hasDispatch {
			b.add("  push:")
		}
		var jobsProbeLines []int
		if hasCall {
			b.add("  workflow_call:")
			if rng.Intn(4) != 0 {
				b.add("    inputs:")
				for _, n := range inputNames {
					if rng.Intn(2) == 0 {
						callInputs[n] = true
						b.add("      " + randCase(rng, n) + ":")
						b.add("        type: string")
					}
				}
				if len(callInputs) == 0 {
					callInputs["who"] = true
					b.add("      who:")
					b.add("        type: string")
				}
			}
			if rng.Intn(2) == 0 {
				secretsDeclared = true
				b.add("    secrets:")
				for _, n := range secretNames {
					if rng.Intn(2) == 0 {
						callSecrets[n] = true
						b.add("      " + randCase(rng, n) + ":")
						b.add("        required: false")
					}
				}
				if len(callSecrets) == 0 {
					callSecrets["tok"] = true
					b.add("      tok:")
					b.add("        required: false")
				}
			}
			b.add("    outputs:")
			k := 0
			for j := range jobs {
				for _, o := range append(append([]string{}, outNames...), "zz") {
					defined := false
					for _, d := range jobs[j].outputs {
						if d == o {
							defined = true
						}
					}
					b.add(fmt.Sprintf("      out%d:", k))
					k++
					expr := fmt.Sprintf("jobs.%s.outputs.%s", randCase(rng, jobs[j].id), randCase(rng, o))
					ln := b.add("        value: ${{ " + expr + " }}")
					b.probes = append(b.probes, c05Probe{ln, expr, o, !defined, "jobs.<job>.outputs.<name>"})
					jobsProbeLines = append(jobsProbeLines, ln)
				}
			}
			b.add("      outx:")
			ln := b.add("        value: ${{ jobs.nojob.outputs.o1 }}")
			b.probes = append(b.probes, c05Probe{ln, "jobs.nojob.outputs.o1", "nojob", true, "jobs.<job>"})
		}
		if hasDispatch {
			b.add("  workflow_dispatch:")
			b.add("    inputs:")
			for _, n := range inputNames {
				if rng.Intn(2) == 0 {
					dispInputs[n] = true
					b.add("      " + randCase(rng, n) + ":")
					b.add("        type: string")
				}
			}
			if len(dispInputs) == 0 {
				dispInputs["lvl"] = true
				b.add("      lvl:")
				b.add("        type: string")
			}
		}
		b.add("jobs:")
		for j, ji := range jobs {
			b.add("  " + ji.id + ":")
			if len(ji.needs) > 0 {
				var ns []string
				for _, k := range ji.needs {
					ns = append(ns, randCase(rng, jobs[k].id))
				}
				b.add("    needs: [" + strings.Join(ns, ", ") + "]")
			}
			b.add("    runs-on: ubuntu-latest")
			switch ji.matrix {
			case "lit":
				b.add("    strategy:")
				b.add("      matrix:")
				b.add("        " + randCase(rng, ji.rowKeys[0]) + ": [1, 2]")
				if len(ji.incKeys) > 0 {
					b.add("        include:")
					b.add("          - " + ji.rowKeys[0] + ": 3")
					b.add("            " + randCase(rng, ji.incKeys[0]) + ": x")
				}
			case "exprRow":
				b.add("    strategy:")
				b.add("      matrix:")
				b.add("        " + ji.rowKeys[0] + ": ${{ fromJSON(vars.ROW) }}")
			case "exprInclude":
				b.add("    strategy:")
				b.add("      matrix:")
				b.add("        " + ji.rowKeys[0] + ": [1]")
				b.add("        include: ${{ fromJSON(vars.INC) }}")
			case "exprIncludeElem":
				b.add("    strategy:")
				b.add("      matrix:")
				b.add("        " + ji.rowKeys[0] + ": [1]")
				b.add("        include:")
				b.add("          - ${{ fromJSON(vars.ELEM) }}")
			case "exprMatrix":
				b.add("    strategy:")
				b.add("      matrix: ${{ fromJSON(vars.M) }}")
			case "exprMatrixConst":
				b.add("    strategy:")
				b.add("      matrix: ${{ fromJSON('{\"zz\":[1]}') }}")
			}
			// job outputs (declared) + probes at job level: all step ids are visible
			allIDs := map[string]bool{}
			for _, id := range ji.stepIDs {
				if id != "" {
					allIDs[id] = true
				}
			}
			b.add("    outputs:")
			for _, o := range ji.outputs {
				b.add("      " + randCase(rng, o) + ": v")
			}
			for k, id := range stepIDs {
				expr := "steps." + randCase(rng, id) + ".outputs.x"
				ln := b.add(fmt.Sprintf("      probe%d: ${{ %s }}", k, expr))
				b.probes = append(b.probes, c05Probe{ln, expr, id, !allIDs[id], "steps.<id> at job outputs"})
			}
			b.add("    environment:")
			b.add("      name: e")
			{
				id := stepIDs[rng.Intn(len(stepIDs))]
				expr := "steps." + id + ".outputs.u"
				ln := b.add("      url: ${{ " + expr + " }}")
				b.probes = append(b.probes, c05Probe{ln, expr, id, !allIDs[id], "steps.<id> at environment.url"})
			}
			b.add("    steps:")
			visible := map[string]bool{}
			probeAll := func() {
				// steps
				for _, id := range stepIDs {
					b.probeStep("      ", "steps."+randCase(rng, id)+".conclusion", id, !visible[id], "steps.<id> in a step")
				}
				if rng.Intn(3) != 0 {
					return
				}
				// needs
				direct := map[int]bool{}
				for _, k := range ji.needs {
					direct[k] = true
				}
				for k := range jobs {
					if k == j {
						continue
					}
					b.probeStep("      ", "needs."+randCase(rng, jobs[k].id)+".result", jobs[k].id, !direct[k], "needs.<job>")
					if direct[k] {
						for _, o := range append(append([]string{}, outNames...), "zz") {
							def := false
							for _, d := range jobs[k].outputs {
								if d == o {
									def = true
								}
							}
							b.probeStep("      ", "needs."+jobs[k].id+".outputs."+randCase(rng, o), o, !def, "needs.<job>.outputs.<name>")
						}
					}
				}
				// matrix
				for _, mk := range matrixKeys {
					def := false
					open := ji.matrix == "exprMatrix" || ji.matrix == "exprInclude" || ji.matrix == "exprIncludeElem" || ji.matrix == "exprMatrixConst"
					for _, k := range append(append([]string{}, ji.rowKeys...), ji.incKeys...) {
						if k == mk {
							def = true
						}
					}
					want := !def && !open
					if ji.matrix == "none" {
						want = true // no matrix: `matrix` is the empty strict object
					}
					what := "matrix.<key> (" + ji.matrix + ")"
					if ji.matrix == "exprMatrixConst" {
						what = "matrix-static-expression"
					}
					b.probeStep("      ", "matrix."+randCase(rng, mk), mk, want, what)
				}
				// inputs
				for _, n := range append(append([]string{}, inputNames...), "nobody") {
					def := callInputs[n] || dispInputs[n]
					b.probeStep("      ", "inputs."+randCase(rng, n), n, !def, "inputs.<name>")
				}
				// secrets
				for _, n := range append(append([]string{}, secretNames...), "github_token") {
					want := false
					if secretsDeclared {
						want = !(callSecrets[n] || n == "github_token")
					}
					b.probeStep("      ", "secrets."+randCase(rng, n), n, want, "secrets.<name>")
				}
			}
			probeAll()
			for _, id := range ji.stepIDs {
				if id == "" {
					b.add("      - run: echo")
				} else {
					b.add("      - id: " + randCase(rng, id))
					b.add("        run: echo")
				}
				// probes inside the step itself, at every other key that is evaluated: the step's own id is not yet
				// in scope there, earlier ids are
				for pos := 0; pos < 6; pos++ {
					cand := stepIDs[rng.Intn(len(stepIDs))]
					if id != "" && rng.Intn(2) == 0 {
						cand = id
					}
					expr := "steps." + randCase(rng, cand) + ".outputs.x"
					var ln int
					switch pos {
					case 0:
						ln = b.add("        name: ${{ " + expr + " }}")
					case 1:
						ln = b.add("        if: " + expr + " == 'a'")
					case 2:
						b.add("        env:")
						ln = b.add("          P: ${{ " + expr + " }}")
					case 3:
						expr = "fromJSON(" + expr + ")"
						ln = b.add("        continue-on-error: ${{ " + expr + " }}")
					case 4:
						expr = "fromJSON(" + expr + ")"
						ln = b.add("        timeout-minutes: ${{ " + expr + " }}")
					default:
						ln = b.add("        working-directory: ${{ " + expr + " }}")
					}
					what := "steps.<id> inside a step (" + []string{"name", "if", "env", "continue-on-error", "timeout-minutes", "working-directory"}[pos] + ")"
					if cand == id {
						what += " own id"
					}
					b.probes = append(b.probes, c05Probe{ln, expr, cand, !visible[cand], what})
				}
				if id != "" {
					visible[id] = true
				}
				probeAll()
			}
		}
		src := strings.Join(b.lines, "\n") + "\n"
		errs, err := lintSrc("s.yaml", src)
		if err != nil {
			r.Crashes = append(r.Crashes, Case{Op: "lint-shape", Input: map[string]string{"yaml": src}, Note: err.Error()})
			continue
		}
		byLine := map[int][]string{}
		for _, e := range errs {
			byLine[e.Line] = append(byLine[e.Line], e.Message)
		}
		for _, p := range b.probes {
			r.Evaluations++
			r.nontrivial(fmt.Sprintf("%d:%d", s, p.line))
			reported := false
			for _, m := range byLine[p.line] {
				if strings.Contains(m, "is not defined in object type") {
					reported = true
				}
			}
			r.hist(fmt.Sprintf("%s:%v", strings.SplitN(p.what, " ", 2)[0], reported))
			if reported != p.want {
				key := "scope:" + p.what
				r.finding(key, fmt.Sprintf("%s `%s`: reported undefined = %v, in scope per the property = %v", p.what, p.expr, reported, !p.want),
					Case{Op: "lint-shape", Input: map[string]string{"probe_line": fmt.Sprint(p.line), "expr": p.expr, "yaml": src}, Note: strings.Join(byLine[p.line], " || ")})
			}
		}
		if s < 2 {
			r.sample(map[string]interface{}{"jobs": nJobs, "probes": len(b.probes), "workflow_call": hasCall, "workflow_dispatch": hasDispatch})
		}
	}
	// tie of the sema model the C05 theorems are about. strict_scope_exact / nested_scope_exact / open_scope_silent
	// say that the model reports "not defined" exactly for names outside the scope object; where the real checker's
	// "not defined" reports differ from the model's on the same typing environment, it departs from that rule.
	nTie := 4000
	if !c.quick {
		nTie = 60000
	}
	if err := semaTie(c, r, nTie, nil, nil, func(cs Case) (string, string) {
		names := []string{"prop-undefined", "filter-prop-undefined", "undefined-variable"}
		if a, b := semaCodes(cs.Impl, names...), semaCodes(cs.Model, names...); a != b {
			return "undefined-reports-differ-from-scope-rule", "the checker's 'not defined' reports (" + a + ") differ from the proved scope rule (" + b + ")"
		}
		return "", ""
	}); err != nil {
		return err
	}
	// workflow-level tie of AL.Visit: AL.Props.C09Visit.steps_scope / steps_ids / steps_strict / needs_exact / needs_entry say
	// which ids are in scope in the model; where the real linter's 'not defined' reports on a probe line differ from
	// the model's, it departs from that scope rule on this workflow.
	nV := 300
	if !c.quick {
		nV = 6000
	}
	if err := visitTie(c, r, nV, false, func(cs Case) (string, string) {
		names := []string{"prop-undefined", "filter-prop-undefined", "undefined-variable"}
		if a, b := visitCodes(cs.Impl, names...), visitCodes(cs.Model, names...); a != b {
			return "workflow-scope-differs-from-proved-rule", "the 'not defined' reports at the probes (" + a + ") differ from the proved scope rule (" + b + ")"
		}
		return "", ""
	}); err != nil {
		return err
	}
	// the whole rule over the parser's AST (AL.RuleExpr, tie `exprwf`) on the corpus with references planted at every scalar
	perE := 6
	if !c.quick {
		perE = 200
	}
	// outputs of LOCAL callees (needs.<job>.outputs of a job that calls a local workflow, steps.<id>.outputs of a step that
	// uses a local action): the project tie; AL.Props.C05Proj says the objects are strict with exactly the declared outputs
	nP := 300
	if !c.quick {
		nP = 10000
	}
	if err := pjStandard(c, r, nP); err != nil {
		return err
	}
	r.Rule += fmt.Sprintf("; %d generated caller workflows in a scratch repository with local reusable workflows and local actions (needs.<job>.outputs / steps.<id>.outputs of local callees) against AL.ProjCall / AL.ProjAction (ops lintwfp / exprwfp)", nP)
	return exStandard(c, r, func(cs Case) (string, string) {
		pick := func(s string) string {
			var out []string
			for _, d := range strings.Split(s, ";") {
				for _, n := range []string{"prop-undefined", "filter-prop-undefined", "undefined-variable"} {
					if strings.HasPrefix(d, n+"(") {
						out = append(out, d)
					}
				}
			}
			return strings.Join(out, ";")
		}
		if pick(cs.Impl) != pick(cs.Model) {
			return "scope-reports-differ-from-rule-model", "the 'not defined' reports of the real rule differ from the model of rule_expression.go on this source"
		}
		return "", ""
	}, perE, false)
}
