package main

import (
	"fmt"
	"math/rand"
	"regexp"
	"strconv"
	"strings"
	"unicode/utf8"

	"github.com/rhysd/actionlint"
)

func init() { props["C17"] = runC17 }

var globWhat = map[string]string{
	"":                                      "-",
	"special character ? (zero or one)":     "q",
	"special character + (one or more)":     "p",
	"content of character match []":         "cc",
	"end of character match []":             "ce",
	"character range in []":                 "cr",
	"character match []":                    "cm",
	"! at first character (negate pattern)": "neg",
}

var globWhy = map[string]string{
	"the preceding character must not be special character":                               "prec",
	"character match must not be empty":                                                   "empty",
	"missing ]":                                                                           "missing",
	"end of range is missing":                                                             "noend",
	"character match with single character is useless. simply use x instead of [x]":      "single",
	"newline cannot be contained":                                                         "nl",
	"at least one character must follow !":                                                "follow",
}

var globRefWhy = map[string]string{
	"ref name cannot contain spaces, ~, ^, :, [, ?, *":                        "chars",
	"only special characters [, ?, +, *, \\, ! can be escaped with \\":        "esc",
	"ref name must not end with / and .":                                      "end",
	"ref name must not start with /":                                          "start",
}

var reBadRange = regexp.MustCompile(`(?s)^start of range .* \((-?\d+)\) is larger than end of range .* \((-?\d+)\)$`)

// quotedRune parses the leading 'x' / '\n' / '\'' … of s (as printed by %q or '%c') and returns the rune
// and the rest of the string.
func quotedRune(s string) (rune, string, bool) {
	if !strings.HasPrefix(s, "'") {
		return 0, s, false
	}
	// '%c' of a printable rune: exactly one rune between the quotes ('\' for a backslash)
	r, w := utf8.DecodeRuneInString(s[1:])
	if len(s) >= 1+w+1 && s[1+w] == '\'' && (r != '\\' || !strings.HasPrefix(s[1+w:], "''") && !strings.HasPrefix(s[2:], "\\'")) {
		if r != '\\' {
			return r, s[2+w:], true
		}
	}
	if q, err := strconv.QuotedPrefix(s); err == nil {
		v, _, _, err := strconv.UnquoteChar(q[1:len(q)-1], '\'')
		if err == nil {
			return v, s[len(q):], true
		}
	}
	if strings.HasPrefix(s, `'\'`) { // '%c' of a backslash
		return '\\', s[3:], true
	}
	return 0, s, false
}

// classifyGlob maps a message of glob.go to the model's canonical form; named is the character the
// message names (or -2 when it names none, -1 for EOF).
func classifyGlob(msg string) (code string, named rune) {
	named = -2
	switch {
	case msg == "glob pattern cannot be empty":
		return "empty", named
	case msg == "path value must not start with spaces":
		return "lead", named
	case msg == "path value must not end with spaces":
		return "trail", named
	case strings.HasPrefix(msg, "error while scanning glob pattern "):
		if strings.HasSuffix(msg, ": invalid UTF-8 encoding") {
			return "scan,utf8", named
		}
		if strings.HasSuffix(msg, ": invalid character NUL") {
			return "scan,nul", named
		}
	case strings.HasPrefix(msg, "invalid glob pattern. unexpected "):
		rest := strings.TrimPrefix(msg, "invalid glob pattern. unexpected ")
		ch := ""
		if strings.HasPrefix(rest, "EOF") {
			ch, rest, named = "EOF", rest[3:], -1
		} else if strings.HasPrefix(rest, "character ") {
			r, rem, ok := quotedRune(rest[len("character "):])
			if !ok {
				return "unclassified:" + msg, named
			}
			ch, rest, named = strconv.Itoa(int(r)), rem, r
		} else {
			return "unclassified:" + msg, named
		}
		what := ""
		if strings.HasPrefix(rest, " while checking ") {
			rest = rest[len(" while checking "):]
			found := false
			for w := range globWhat {
				if w != "" && strings.HasPrefix(rest, w+". ") && (!found || len(w) > len(what)) {
					what, found = w, true
				}
			}
			if !found {
				return "unclassified:" + msg, named
			}
			rest = rest[len(what):]
		}
		if !strings.HasPrefix(rest, ". ") {
			return "unclassified:" + msg, named
		}
		why := rest[2:]
		if y, ok := globWhy[why]; ok {
			return fmt.Sprintf("unexp,%s,%s,%s", ch, globWhat[what], y), named
		}
		if m := reBadRange.FindStringSubmatch(why); m != nil {
			return fmt.Sprintf("unexp,%s,%s,range:%s:%s", ch, globWhat[what], m[1], m[2]), named
		}
	case strings.HasPrefix(msg, "character "):
		r, rem, ok := quotedRune(msg[len("character "):])
		const mid = " is invalid for branch and tag names. "
		const tail = ". see `man git-check-ref-format` for more details. note that regular expression is unavailable"
		if ok && strings.HasPrefix(rem, mid) && strings.HasSuffix(rem, tail) {
			why := rem[len(mid) : len(rem)-len(tail)]
			if y, ok := globRefWhy[why]; ok {
				return fmt.Sprintf("ref,%d,%s", r, y), r
			}
		}
	}
	return "unclassified:" + msg, named
}

func canonGlob(errs []actionlint.InvalidGlobPattern) (string, []rune, bool) {
	if len(errs) == 0 {
		return "ok", nil, true
	}
	parts := make([]string, len(errs))
	named := make([]rune, len(errs))
	ok := true
	for i, e := range errs {
		code, n := classifyGlob(e.Message)
		if strings.HasPrefix(code, "unclassified:") {
			ok = false
		}
		parts[i] = fmt.Sprintf("%d,%s", e.Column, code)
		named[i] = n
	}
	return strings.Join(parts, ";"), named, ok
}

// scanRunes decodes like text/scanner: invalid bytes are U+FFFD of width 1.
func scanRunes(s string) []rune {
	var rs []rune
	for len(s) > 0 {
		r, w := utf8.DecodeRuneInString(s)
		rs = append(rs, r)
		s = s[w:]
	}
	return rs
}

func globOracle(r *Report, pat string, isRef bool, errs []actionlint.InvalidGlobPattern, named []rune) {
	rs := scanRunes(pat)
	mode := "path"
	if isRef {
		mode = "ref"
	}
	mk := func(note string) Case {
		return Case{Op: "glob " + mode, Input: map[string]string{"pattern_hex": hx(pat), "pattern": strconv.Quote(pat)}, Note: note}
	}
	for i, e := range errs {
		code, _ := classifyGlob(e.Message)
		// column inside the pattern (0 only for: empty pattern, a pattern with a line break, leading space)
		if strings.HasPrefix(code, "scan,") {
			// the scanner reports an invalid character when it is read as look-ahead
			if e.Column < 1 || e.Column > len(rs) || !(rs[e.Column-1] == 0 || rs[e.Column-1] == utf8.RuneError) {
				if !strings.ContainsAny(pat, "\n") {
					r.finding("scan-error-column", "scanner error (NUL / invalid UTF-8) is reported one column before the offending character (column 0 when it is the first)", mk(e.Error()))
				}
			}
			continue
		}
		if e.Column == 0 {
			if !(pat == "" || strings.ContainsAny(pat, "\n") || code == "lead") {
				r.finding("column-zero", "report carries column 0 although the pattern is non-empty and has no line break", mk(e.Error()))
			}
			continue
		}
		if code == "trail" {
			if e.Column != len(pat) {
				r.finding("column-trailing-space", "trailing-space report is not at the end of the pattern", mk(e.Error()))
			}
			continue
		}
		if e.Column < 0 || e.Column > len(rs) {
			// EOF reports sit one past the last character
			if !(named[i] == -1 && e.Column == len(rs)+1) {
				r.finding("column-outside", "report column lies outside the pattern", mk(e.Error()))
			}
			continue
		}
		if named[i] >= 0 {
			at := rs[e.Column-1]
			if at != named[i] {
				key := "named-char"
				if isRef && e.Column >= 2 && e.Column-2 < len(rs) && rs[e.Column-2] == '\\' && strings.Contains(code, ",chars") {
					key = "named-char-escaped-ref" // the \[ \? \* case in ref filters
				} else if e.Column >= 3 && (at == '[' || at == '?' || at == '*') && rs[e.Column-2] == '\\' {
					key = "named-char-escaped-ref"
				}
				r.finding(key, fmt.Sprintf("message names %q but column %d of the pattern holds %q", named[i], e.Column, at), mk(e.Error()))
			}
		}
	}
}

func runC17(c *ctx, r *Report) error {
	alpha := []string{"*", "?", "+", "[", "]", "-", "\\", "!", "/", ".", "a", "b", "~", " ", "\n", "é"}
	extra := []string{"\x00", "\xff", "\r", "\ufeff", ":", "^", "\t", "0", "z"}
	maxLen, maxLenExtra, nRandom := 4, 3, 20000
	if !c.quick {
		maxLen, maxLenExtra, nRandom = 5, 3, 300000
	}
	r.Rule = fmt.Sprintf("all strings of length ≤ %d over the %d-symbol alphabet %q, all strings of length ≤ %d over that alphabet plus %q, %d random strings of length 6–24; each through ValidateRefGlob and ValidatePathGlob; model (aldriver glob) output compared item by item (column, message template, named character); non-trivial = distinct (mode, pattern) with a non-empty verdict list or accepted pattern of length ≥ 2", maxLen, len(alpha), alpha, maxLenExtra, extra, nRandom)
	var b batch
	// AL.Props.C17 validate_iff_partial / validate_complete_strict: the model reports a pattern iff it violates the
	// documented syntax (BOM-leading patterns aside). A verdict difference is therefore a pattern that the
	// implementation reports although it is well formed, or accepts although it is not.
	b.judge = func(cs Case) (string, string) {
		if strings.HasPrefix(unhx(cs.Input["pattern_hex"]), "\ufeff") {
			return "", ""
		}
		iok, mok := cs.Impl == "ok", cs.Model == "ok"
		switch {
		case iok && !mok:
			return "accepts-invalid-pattern", "a pattern that violates the documented glob syntax is accepted (the proved model reports " + cs.Model + ")"
		case !iok && mok:
			return "reports-valid-pattern", "a pattern that satisfies the documented glob syntax is reported (" + cs.Impl + ")"
		}
		return "", ""
	}
	b.srcOf = func(cs Case) string { return unhx(cs.Input["pattern_hex"]) }
	b.rerun = func(orig Case, pat string) (string, string, Case) {
		mode := strings.TrimPrefix(orig.Op, "glob ")
		errs := actionlint.ValidatePathGlob(pat)
		if mode == "ref" {
			errs = actionlint.ValidateRefGlob(pat)
		}
		canon, _, _ := canonGlob(errs)
		return "glob " + mode + " " + hx(pat), canon, Case{Op: orig.Op, Input: map[string]string{"pattern_hex": hx(pat), "pattern": strconv.Quote(pat)}}
	}
	seen := map[string]bool{}
	one := func(pat string) {
		if seen[pat] {
			return
		}
		seen[pat] = true
		refErrs := actionlint.ValidateRefGlob(pat)
		pathErrs := actionlint.ValidatePathGlob(pat)
		for _, m := range []struct {
			mode string
			errs []actionlint.InvalidGlobPattern
		}{{"ref", refErrs}, {"path", pathErrs}} {
			canon, named, ok := canonGlob(m.errs)
			cs := Case{Op: "glob " + m.mode, Input: map[string]string{"pattern_hex": hx(pat), "pattern": strconv.Quote(pat)}}
			if !ok {
				cs.Impl = canon
				cs.Note = "message matches no known template"
				r.disagree(cs)
			}
			b.add("glob "+m.mode+" "+hx(pat), canon, cs)
			r.Evaluations++
			if len(m.errs) > 0 || len(pat) >= 2 {
				r.nontrivial(m.mode + ":" + pat)
			}
			for _, e := range m.errs {
				code, _ := classifyGlob(e.Message)
				if i := strings.IndexByte(code, ','); i >= 0 && !strings.HasPrefix(code, "unexp") {
					code = code[:i]
				} else if strings.HasPrefix(code, "unexp") {
					f := strings.Split(code, ",")
					code = "unexp-" + f[len(f)-1]
					if strings.HasPrefix(f[len(f)-1], "range") {
						code = "unexp-range"
					}
				}
				r.hist(m.mode + ":" + code)
			}
			if len(m.errs) == 0 {
				r.hist(m.mode + ":accepted")
			}
			globOracle(r, pat, m.mode == "ref", m.errs, named)
		}
		// the documented syntax has no line breaks anywhere, and ref names no space, TAB, ~ ^ : — also inside [...]
		if len(pathErrs) == 0 && strings.ContainsAny(pat, "\r\n") {
			r.finding("class-member-unchecked", "a pattern containing a line break is accepted (characters inside [...] are not checked)",
				Case{Op: "glob path", Input: map[string]string{"pattern_hex": hx(pat), "pattern": strconv.Quote(pat)}})
		}
		if len(refErrs) == 0 && strings.ContainsAny(pat, " \t~^:\r\n") {
			r.finding("class-member-unchecked", "a ref filter containing a character that is invalid in ref names (space, TAB, ~, ^, :, line break) is accepted (characters inside [...] are not checked)",
				Case{Op: "glob ref", Input: map[string]string{"pattern_hex": hx(pat), "pattern": strconv.Quote(pat)}})
		}
		if len(refErrs) == 0 && len(pathErrs) != 0 {
			r.finding("ref-not-path", "pattern accepted as ref filter but rejected as path filter",
				Case{Op: "glob ref⊆path", Input: map[string]string{"pattern_hex": hx(pat), "pattern": strconv.Quote(pat)}, Note: pathErrs[0].Error()})
		}
	}
	var rec func(prefix string, depth int, al []string)
	rec = func(prefix string, depth int, al []string) {
		one(prefix)
		if depth == 0 {
			return
		}
		for _, a := range al {
			rec(prefix+a, depth-1, al)
		}
	}
	rec("", maxLen, alpha)
	rec("", maxLenExtra, append(append([]string{}, alpha...), extra...))
	rng := rand.New(rand.NewSource(c.seed))
	all := append(append([]string{}, alpha...), extra...)
	for i := 0; i < nRandom; i++ {
		n := 6 + rng.Intn(19)
		var sb strings.Builder
		for j := 0; j < n; j++ {
			if rng.Intn(3) == 0 {
				sb.WriteString(all[rng.Intn(len(all))])
			} else {
				sb.WriteString(alpha[rng.Intn(len(alpha)-2)]) // mostly printable specials
			}
		}
		one(sb.String())
	}
	// workflow level: which validator each filter key gets. For every event that takes filters × every filter key ×
	// patterns that are invalid as ref only / as both / valid: the linter reports the pattern iff the validator
	// that belongs to the key (ref for branches* / tags*, path for paths*) does, at pattern column + offset.
	{
		events := []string{"push", "pull_request", "pull_request_target"}
		keys := []struct {
			key string
			ref bool
		}{{"branches", true}, {"branches-ignore", true}, {"tags", true}, {"tags-ignore", true}, {"paths", false}, {"paths-ignore", false}}
		envVariant := 0
		pats := []string{"v1:beta", "release/", "/v1", "v1 beta", "v1.", "v\\d", "a++", "[]", "v*", "main", "feature/**", "a~b", "x^", "docs/**/*.md", "!x", "[a-z]+"}
		for _, ev := range events {
			for _, k := range keys {
				if strings.HasPrefix(k.key, "tags") && ev != "push" {
					continue
				}
				for _, q := range []string{"'", "\""} {
					for _, pat := range pats {
						if q == "\"" && strings.Contains(pat, "\\") {
							continue
						}
						line := "    " + k.key + ": [" + q + pat + q + "]"
						// events without filters written before / after the one that carries the filter
						before := [][]string{nil, {"  workflow_dispatch:"}, {"  schedule:", "    - cron: '0 0 * * *'"}, {"  repository_dispatch:", "  workflow_call:"}, {"  issues:"}}[envVariant%5]
						after := [][]string{nil, nil, {"  workflow_dispatch:"}, nil, {"  schedule:", "    - cron: '0 0 * * *'"}}[envVariant%5]
						envVariant++
						lines := append([]string{"on:"}, before...)
						lines = append(lines, "  "+ev+":", line)
						filterLine := len(lines)
						lines = append(lines, after...)
						src := strings.Join(lines, "\n") + "\njobs:\n  j:\n    runs-on: ubuntu-latest\n    steps:\n      - run: echo\n"
						errs, err := lintSrc("g.yaml", src)
						r.Evaluations++
						if err != nil {
							continue
						}
						var want []actionlint.InvalidGlobPattern
						if k.ref {
							want = actionlint.ValidateRefGlob(pat)
						} else {
							want = actionlint.ValidatePathGlob(pat)
						}
						var got []string
						for _, e := range errs {
							if e.Kind == "glob" {
								got = append(got, fmt.Sprintf("%d:%d:%s", e.Line, e.Column, strings.SplitN(e.Message, ". note:", 2)[0]))
							}
						}
						var exp []string
						col0 := len("    "+k.key+": [") + 1 + 1 // first character of the pattern inside the quotes
						for _, w := range want {
							c := col0
							if w.Column != 0 {
								c += w.Column - 1
							}
							exp = append(exp, fmt.Sprintf("%d:%d:%s", filterLine, c, w.Message))
						}
						r.hist("wf-filter:" + map[bool]string{true: "reported", false: "accepted"}[len(got) > 0])
						r.nontrivial("wf:" + ev + k.key + pat + q)
						if strings.Join(got, "|") != strings.Join(exp, "|") {
							r.finding("filter-key-validator:"+k.key, fmt.Sprintf("on.%s.%s: the pattern %q is not validated by the %s rules of that key", ev, k.key, pat, map[bool]string{true: "ref-name", false: "path"}[k.ref]),
								Case{Op: "lint-filter", Input: map[string]string{"yaml": src}, Impl: strings.Join(got, " | "), Model: strings.Join(exp, " | ")})
						}
					}
				}
			}
		}
		r.Rule += "; workflow level: events push / pull_request / pull_request_target × the six filter keys × 16 patterns × two quote styles, with other events (workflow_dispatch, schedule, repository_dispatch, workflow_call, issues) written before / after the filtered one, through the real linter: reported exactly as the validator that belongs to the key reports it, at pattern column + offset"
	}
	r.Exhaustive = true
	r.sample(map[string]string{"op": "glob ref", "pattern": strconv.Quote("[a-"), "impl": func() string { s, _, _ := canonGlob(actionlint.ValidateRefGlob("[a-")); return s }()})
	r.sample(map[string]string{"op": "glob path", "pattern": strconv.Quote("a\\[+"), "impl": func() string { s, _, _ := canonGlob(actionlint.ValidatePathGlob("a\\[+")); return s }()})
	_, err := b.flush(c, r)
	return err
}
