package main

import (
	"fmt"
	"math/rand"
	"time"
	"unicode"

	"gopkg.in/yaml.v3"
	"os"
	"path/filepath"
	"strings"
)

const pwTimeout = 20 * time.Second

func init() { props["PW"] = runPW }

// pwCorpus: every workflow file of the project's own test data and documentation examples
func pwCorpus() []string {
	var out []string
	for _, dir := range []string{"/repo/testdata", "/repo/.github/workflows", "/repo/playground"} {
		filepath.Walk(dir, func(p string, info os.FileInfo, err error) error {
			if err != nil || info.IsDir() {
				return nil
			}
			if strings.HasSuffix(p, ".yaml") || strings.HasSuffix(p, ".yml") {
				if b, err := os.ReadFile(p); err == nil {
					out = append(out, string(b))
				}
			}
			return nil
		})
	}
	return out
}

// pwJudge: what a difference between parse.go and the proved model AL.PW means for a property. The theorems of
// AL/Props/C13Parse speak about the diagnostics the model produces (unknown / repeated / missing keys are reported, at the
// key, and nothing of the siblings is lost): where the real parser's diagnostics differ from the model's on some input,
// that input fails the property ("diag"). The theorems of C03Parse / C08Parse speak about the AST ("ast").
func pwJudge(mode string) func(cs Case) (string, string) {
	if mode == "" {
		return nil
	}
	return func(cs Case) (string, string) {
		i, m := strings.SplitN(cs.Impl, "|", 2), strings.SplitN(cs.Model, "|", 2)
		if len(i) != 2 || len(m) != 2 {
			return "", ""
		}
		if (mode == "diag" || mode == "both") && i[0] != m[0] {
			return "syntax-diagnostics-differ-from-proved-model", "the workflow parser's diagnostics for this source differ from those of the model for which the key checks are proved (AL.PW)"
		}
		if (mode == "ast" || mode == "both") && i[1] != m[1] {
			return "ast-differs-from-proved-model", "the AST the workflow parser builds for this source differs from the one of the model for which scalar storage / id folding are proved (AL.PW)"
		}
		return "", ""
	}
}

// pwTie runs the `parsewf` tie over the sources; returns the number of cases compared
func pwTie(c *ctx, r *Report, srcs []string, note string, mode ...string) (int, error) {
	b := &batch{}
	if len(mode) > 0 {
		b.judge = pwJudge(mode[0])
		b.srcOf = func(cs Case) string { return cs.Input["src"] }
		b.rerun = func(orig Case, src string) (string, string, Case) {
			line, impl, ok := pwCase(src)
			if !ok {
				panic("yaml rejects")
			}
			return line, impl, Case{Op: "parsewf", Input: map[string]string{"src": src}, Note: orig.Note}
		}
	}
	n := 0
	for _, s := range srcs {
		var line, impl string
		var ok bool
		pmsg, to := guarded(pwTimeout, func() { line, impl, ok = pwCase(s) })
		if pmsg != "" || to {
			r.Crashes = append(r.Crashes, Case{Op: "parsewf", Input: map[string]string{"src": s}, Note: "panic/timeout in Parse: " + pmsg})
			continue
		}
		if !ok {
			r.hist("parsewf:yaml-rejects")
			continue
		}
		n++
		r.Evaluations++
		if strings.Contains(impl, ":?") {
			r.hist("parsewf:unmatched-message")
		}
		if strings.HasPrefix(impl, "|") {
			r.hist("parsewf:no-diagnostic")
		} else {
			r.hist("parsewf:with-diagnostics")
			r.nontrivial("pw:" + impl[:strings.Index(impl, "|")])
		}
		b.add(line, impl, Case{Op: "parsewf", Input: map[string]string{"src": s}, Note: note})
	}
	_, err := b.flush(c, r)
	return n, err
}

// pwStandard: the tie as the checks of C13 / C03 / C08 / C01 / C07 run it: the corpus, every mutant of the three base
// workflows, and `per` random mutants of each corpus file
func pwStandard(c *ctx, r *Report, mode string, per int, bases bool) error {
	corpus := pwCorpus()
	n0 := r.Evaluations
	if _, err := pwTie(c, r, corpus, "corpus", mode); err != nil {
		return err
	}
	rng := rand.New(rand.NewSource(c.seed + 7))
	if bases {
		for _, name := range []string{"a.yml", "b.yml", "c.yml"} {
			if _, err := pwTie(c, r, pwMutants(wfBases[name], rng, 0), "mutant of base "+name, mode); err != nil {
				return err
			}
		}
	}
	if per > 0 {
		var all []string
		for _, s := range corpus {
			all = append(all, pwMutants(s, rng, per)...)
		}
		if _, err := pwTie(c, r, all, "mutant of a corpus file", mode); err != nil {
			return err
		}
	}
	if bases && mode == "diag" {
		// two defects at once (a defect must not hide the diagnostics of another one): mutants of mutants of the base workflows
		nFirst, nSecond := 120, 25
		if !c.quick {
			nFirst, nSecond = 1500, 60
		}
		var all []string
		for _, name := range []string{"a.yml", "b.yml", "c.yml"} {
			for _, m1 := range pwMutants(wfBases[name], rng, nFirst) {
				all = append(all, pwMutants(m1, rng, nSecond)...)
			}
		}
		if _, err := pwTie(c, r, all, "mutant of a mutant of a base workflow", mode); err != nil {
			return err
		}
	}
	r.Notes = append(r.Notes, fmt.Sprintf("parsewf tie (parse.go vs AL.PW, all diagnostics + whole AST): %d sources", r.Evaluations-n0))
	return nil
}

func runPW(c *ctx, r *Report) error {
	r.Rule = "parse.go vs AL.PW on the corpus and its mutants"
	corpus := pwCorpus()
	if _, err := pwTie(c, r, corpus, "corpus"); err != nil {
		return err
	}
	rng := rand.New(rand.NewSource(c.seed))
	per := 60
	if !c.quick {
		per = 600
	}
	for _, name := range []string{"a.yml", "b.yml", "c.yml"} {
		if _, err := pwTie(c, r, pwMutants(wfBases[name], rng, 0), "mutant of base "+name); err != nil {
			return err
		}
	}
	for _, s := range corpus {
		if _, err := pwTie(c, r, pwMutants(s, rng, per), "mutant of a corpus file"); err != nil {
			return err
		}
	}
	return nil
}

// ---- mutants of a source: every kind of node at every position, keys repeated / re-spelled / removed / foreign

func pwRecase(s string, rng *rand.Rand) string {
	b := []rune(s)
	for i, c := range b {
		if rng.Intn(2) == 0 {
			b[i] = unicode.ToUpper(c)
		} else {
			b[i] = unicode.ToLower(c)
		}
	}
	if string(b) == s && len(b) > 0 {
		if unicode.IsUpper(b[0]) {
			b[0] = unicode.ToLower(b[0])
		} else {
			b[0] = unicode.ToUpper(b[0])
		}
	}
	return string(b)
}

// pwMutants returns up to `limit` mutated sources of src (all of them when limit <= 0)
func pwMutants(src string, rng *rand.Rand, limit int) []string {
	root, err := parseYAML(src)
	if err != nil || len(root.Content) == 0 {
		return nil
	}
	var visits []yvisit
	walkYAML(root, nil, nil, &visits)
	reps := c01Replacements()
	// drop the huge replacements: the tie is about structure, C01 covers sizes
	var small []*yaml.Node
	for _, n := range reps {
		if len(n.Value) < 200 {
			small = append(small, n)
		}
	}
	small = append(small,
		&yaml.Node{Kind: yaml.ScalarNode, Tag: "!!str", Value: "${{ x }}"},
		&yaml.Node{Kind: yaml.ScalarNode, Tag: "!!str", Value: " ${{ x }} ${{ y }}"},
		&yaml.Node{Kind: yaml.ScalarNode, Tag: "!!str", Value: " ${{ x }} ", Style: yaml.DoubleQuotedStyle},
		&yaml.Node{Kind: yaml.ScalarNode, Tag: "!!str", Value: "inherit"},
		&yaml.Node{Kind: yaml.ScalarNode, Tag: "!!str", Value: "schedule"},
		&yaml.Node{Kind: yaml.ScalarNode, Tag: "!!str", Value: "workflow_call"},
		&yaml.Node{Kind: yaml.ScalarNode, Tag: "!!str", Value: "number"},
		&yaml.Node{Kind: yaml.ScalarNode, Tag: "!!bool", Value: "True"},
		&yaml.Node{Kind: yaml.ScalarNode, Tag: "!!bool", Value: "FALSE"},
		&yaml.Node{Kind: yaml.ScalarNode, Tag: "!!int", Value: "3"},
		&yaml.Node{Kind: yaml.ScalarNode, Tag: "!!int", Value: "0o17"},
		&yaml.Node{Kind: yaml.ScalarNode, Tag: "!!int", Value: "1_000"},
		&yaml.Node{Kind: yaml.ScalarNode, Tag: "!!float", Value: "2.5"},
		&yaml.Node{Kind: yaml.ScalarNode, Tag: "!!float", Value: "-1.5e3"},
		&yaml.Node{Kind: yaml.ScalarNode, Tag: "!!float", Value: "0x1p-2", Style: yaml.TaggedStyle},
		&yaml.Node{Kind: yaml.ScalarNode, Tag: "!!float", Value: "0.0"},
		&yaml.Node{Kind: yaml.MappingNode, Tag: "!!map", Content: []*yaml.Node{
			{Kind: yaml.ScalarNode, Tag: "!!str", Value: "cron"}, {Kind: yaml.ScalarNode, Tag: "!!str", Value: "0 0 * * *"}}},
		&yaml.Node{Kind: yaml.MappingNode, Tag: "!!map", Content: []*yaml.Node{
			{Kind: yaml.ScalarNode, Tag: "!!str", Value: "K"}, {Kind: yaml.ScalarNode, Tag: "!!str", Value: "1"},
			{Kind: yaml.ScalarNode, Tag: "!!str", Value: "k"}, {Kind: yaml.SequenceNode, Tag: "!!seq"}}},
		&yaml.Node{Kind: yaml.SequenceNode, Tag: "!!seq", Content: []*yaml.Node{
			{Kind: yaml.ScalarNode, Tag: "!!str", Value: "${{ x }}"},
			{Kind: yaml.MappingNode, Tag: "!!map", Content: []*yaml.Node{{Kind: yaml.ScalarNode, Tag: "!!str", Value: "a"}, {Kind: yaml.ScalarNode, Tag: "!!null", Value: "~"}}},
			{Kind: yaml.SequenceNode, Tag: "!!seq", Content: []*yaml.Node{{Kind: yaml.ScalarNode, Tag: "!!str", Value: ""}}}}},
	)
	var out []string
	emit := func(m *yaml.Node) {
		if s, err := emitYAML(m); err == nil {
			out = append(out, s)
		}
	}
	type job func()
	var jobs []job
	for _, v := range visits {
		v := v
		if len(v.path) == 0 {
			continue
		}
		// (a) the node replaced by every kind / tag
		for _, rep := range small {
			rep := rep
			jobs = append(jobs, func() {
				m := cloneNode(root)
				parent := nodeAt(m, v.path[:len(v.path)-1])
				parent.Content[v.path[len(v.path)-1]] = cloneNode(rep)
				emit(m)
			})
		}
		// (a') an alias to an anchored earlier node in its place
		jobs = append(jobs, func() {
			m := cloneNode(root)
			top := m.Content[0]
			if top.Kind != yaml.MappingNode || len(top.Content) < 2 {
				return
			}
			target := top.Content[1]
			parent := nodeAt(m, v.path[:len(v.path)-1])
			if parent == nil || target == nodeAt(m, v.path) {
				return
			}
			target.Anchor = "anc"
			parent.Content[v.path[len(v.path)-1]] = &yaml.Node{Kind: yaml.AliasNode, Value: "anc", Alias: target}
			emit(m)
		})
		if v.node.Kind == yaml.MappingNode && !v.isKey {
			n := len(v.node.Content) / 2
			for i := 0; i < n; i++ {
				i := i
				key := v.node.Content[2*i].Value
				// (b) the pair removed
				jobs = append(jobs, func() {
					m := cloneNode(root)
					t := nodeAt(m, v.path)
					t.Content = append(append([]*yaml.Node{}, t.Content[:2*i]...), t.Content[2*i+2:]...)
					emit(m)
				})
				// (c) the key repeated (same / other letter case) at the end and right after
				for _, spelling := range []string{key, strings.ToUpper(key), pwRecase(key, rng)} {
					for _, at := range []int{2*i + 2, len(v.node.Content)} {
						spelling, at := spelling, at
						jobs = append(jobs, func() {
							m := cloneNode(root)
							t := nodeAt(m, v.path)
							k2 := cloneNode(t.Content[2*i])
							k2.Value = spelling
							v2 := cloneNode(t.Content[2*i+1])
							c := append([]*yaml.Node{}, t.Content[:at]...)
							c = append(c, k2, v2)
							t.Content = append(c, t.Content[at:]...)
							emit(m)
						})
					}
				}
				// (d) the key re-spelled
				jobs = append(jobs, func() {
					m := cloneNode(root)
					nodeAt(m, v.path).Content[2*i].Value = pwRecase(key, rng)
					emit(m)
				})
				// (e) moved to the front
				if i > 0 {
					jobs = append(jobs, func() {
						m := cloneNode(root)
						t := nodeAt(m, v.path)
						k2, v2 := t.Content[2*i], t.Content[2*i+1]
						rest := append(append([]*yaml.Node{}, t.Content[:2*i]...), t.Content[2*i+2:]...)
						t.Content = append([]*yaml.Node{k2, v2}, rest...)
						emit(m)
					})
				}
			}
			// (f) a foreign key at the front / end
			for _, fk := range []string{"zz-unknown", "uses", "with", "run", "steps", "runs-on", "cron", "inputs", "type", "value", "working-directory", "shell", "secrets", "name"} {
				for _, front := range []bool{true, false} {
					fk, front := fk, front
					jobs = append(jobs, func() {
						m := cloneNode(root)
						t := nodeAt(m, v.path)
						for j := 0; j+1 < len(t.Content); j += 2 {
							if t.Content[j].Value == fk {
								return
							}
						}
						k2 := &yaml.Node{Kind: yaml.ScalarNode, Tag: "!!str", Value: fk}
						v2 := &yaml.Node{Kind: yaml.ScalarNode, Tag: "!!str", Value: "x"}
						if front {
							t.Content = append([]*yaml.Node{k2, v2}, t.Content...)
						} else {
							t.Content = append(t.Content, k2, v2)
						}
						emit(m)
					})
				}
			}
		}
		if v.node.Kind == yaml.SequenceNode && len(v.node.Content) > 0 {
			// (g) an element dropped / the sequence emptied
			jobs = append(jobs, func() {
				m := cloneNode(root)
				t := nodeAt(m, v.path)
				t.Content = t.Content[1:]
				emit(m)
			}, func() {
				m := cloneNode(root)
				nodeAt(m, v.path).Content = nil
				emit(m)
			})
		}
	}
	if limit > 0 && len(jobs) > limit {
		rng.Shuffle(len(jobs), func(i, j int) { jobs[i], jobs[j] = jobs[j], jobs[i] })
		jobs = jobs[:limit]
	}
	for _, j := range jobs {
		func() {
			defer func() { recover() }()
			j()
		}()
	}
	return out
}

// lwStandard: the `lintwf` tie on the corpus, the mutants of the base workflows and `per` mutants of each corpus file
func lwStandard(c *ctx, r *Report, judge func(cs Case) (string, string), per int, bases bool) error {
	corpus := pwCorpus()
	n0 := r.Evaluations
	if err := lwTie(c, r, corpus, "corpus", judge); err != nil {
		return err
	}
	rng := rand.New(rand.NewSource(c.seed + 11))
	if bases {
		for _, name := range []string{"a.yml", "b.yml", "c.yml"} {
			if err := lwTie(c, r, pwMutants(wfBases[name], rng, 0), "mutant of base "+name, judge); err != nil {
				return err
			}
		}
	}
	if per > 0 {
		var all []string
		for _, s := range corpus {
			all = append(all, pwMutants(s, rng, per)...)
		}
		if err := lwTie(c, r, all, "mutant of a corpus file", judge); err != nil {
			return err
		}
	}
	// the CRON check: specs planted at `cron:` and in new `schedule:` sections (own generator, own random source)
	{
		rngC := rand.New(rand.NewSource(c.seed*31 + 13))
		all := append([]string{}, lwCronDirected...)
		for _, name := range []string{"a.yml", "b.yml", "c.yml"} {
			all = append(all, cronMutants(wfBases[name], rngC, 0)...)
		}
		k := per / 10
		if k < 2 {
			k = 2
		}
		for _, s := range corpus {
			all = append(all, cronMutants(s, rngC, k)...)
		}
		if err := lwTie(c, r, all, "CRON specs planted in a base workflow / corpus file", judge); err != nil {
			return err
		}
	}
	r.Notes = append(r.Notes, fmt.Sprintf("lintwf tie (Linter.Lint vs AL.Rules.lint: parser + matrix, credentials, job-needs, env-var, id, glob, permissions, if-cond, events incl. the CRON check, …, sorted): %d sources", r.Evaluations-n0))
	return nil
}

// exStandard: the `exprwf` tie on the corpus, the mutants of the base workflows and `per` mutants of each corpus file
func exStandard(c *ctx, r *Report, judge func(cs Case) (string, string), per int, bases bool, baseLimit ...int) error {
	bl := 0
	if len(baseLimit) > 0 {
		bl = baseLimit[0]
	}
	corpus := pwCorpus()
	n0 := r.Evaluations
	if err := exTie(c, r, corpus, "corpus", judge); err != nil {
		return err
	}
	rng := rand.New(rand.NewSource(c.seed + 13))
	if bases {
		for _, name := range []string{"a.yml", "b.yml", "c.yml"} {
			if err := exTie(c, r, pwMutants(wfBases[name], rng, bl), "mutant of base "+name, judge); err != nil {
				return err
			}
		}
	}
	if bases {
		for _, name := range []string{"a.yml", "b.yml", "c.yml"} {
			if err := exTie(c, r, exprMutants(wfBases[name], rng, bl), "expression planted in base "+name, judge); err != nil {
				return err
			}
		}
	}
	if per > 0 {
		var all []string
		for _, s := range corpus {
			all = append(all, pwMutants(s, rng, per)...)
			all = append(all, exprMutants(s, rng, per)...)
		}
		if err := exTie(c, r, all, "mutant of a corpus file", judge); err != nil {
			return err
		}
	}
	r.Notes = append(r.Notes, fmt.Sprintf("exprwf tie (RuleExpression vs AL.RuleExpr.rule over the parser model's AST; multiset of classified `expression` diagnostics): %d sources", r.Evaluations-n0))
	return nil
}
