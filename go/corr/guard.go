package main

import (
	"fmt"
	"runtime/debug"
	"time"
)

// guarded runs f with panic recovery and a wall-clock limit. A timed-out goroutine is abandoned.
func guarded(limit time.Duration, f func()) (panicMsg string, timedOut bool) {
	done := make(chan string, 1)
	go func() {
		defer func() {
			if x := recover(); x != nil {
				done <- fmt.Sprintf("panic: %v\n%s", x, debug.Stack())
				return
			}
			done <- ""
		}()
		f()
	}()
	select {
	case m := <-done:
		return m, false
	case <-time.After(limit):
		return "", true
	}
}
