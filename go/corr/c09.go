package main

import (
	"fmt"
	"math/rand"
	"regexp"
	"sort"
	"strings"
)

// messages quote absolute positions of related nodes ("previously defined at line:12,col:3"): made relative
var reAbsLine = regexp.MustCompile(`line:(\d+)`)

func init() { props["C09"] = runC09 }

// a job block: YAML lines (indented by 2) for `jobs:`; may contain defects of many kinds
type jobBlock struct {
	id    string
	lines []string
}

var c09RunExprs = []string{
	"echo ${{ github.sha }}", "echo ${{ matrix.x.* }}", "echo ${{ matrix.x.foo }}", "echo ${{ matrix.y }}", "echo ${{ unknown.ctx }}",
	"echo ${{ github.event.issue.title }}", "echo ${{ steps.first.outputs.v }}", "echo ${{ steps.nope.outputs.v }}", "echo ${{ 1 + }}",
	"echo ${{ env.FOO }}", "echo ${{ fromJSON('[1, 2]')[0].x }}", "echo ${{ needs.base.outputs.o }}", "echo ${{ needs.other.result }}",
	"echo ${{ toJSON(matrix) }}", "echo ${{ format('{0} {1}', 1) }}", "echo ${{ secrets.TOKEN }} ${{ inputs.who }}",
	"echo ${{ github.event.foo.bar }}", "echo ${{ inputs.include }}", "echo ${{ inputs.who.x }}", "echo ${{ github.event.inputs.foo.bar }}",
	"echo ${{ matrix.foo.bar }}", "echo ${{ vars.foo.bar }}", "echo ${{ env.foo.bar }}", "echo ${{ steps.first.outputs.v.w }}",
}

// job-level strings that mention steps of (possibly) other jobs, and matrices built from shared context types
var c09JobLevel = [][]string{
	{"    env:", "      V: ${{ steps.first.outputs.v }}"},
	{"    env:", "      V: ${{ steps.dup.outputs.v }}"},
	{"    env:", "      V: ${{ steps.ok-id.conclusion }}"},
	{"    name: ${{ steps.first.outcome }}"},
	{"    if: steps.first.outputs.v == 'x'"},
	{"    continue-on-error: ${{ steps.ok-id.outputs.v == 'x' }}"},
}

var c09Matrices = [][]string{
	{"        include:", "          - ${{ github.event }}", "          - foo: 1"},
	{"        include:", "          - ${{ inputs }}", "          - who: {x: 1}"},
	{"        include:", "          - ${{ github.event.inputs }}", "          - foo: 1"},
	{"        include:", "          - ${{ vars }}", "          - foo: 1"},
	{"        include:", "          - ${{ env }}", "          - 1"},
	{"        x: [1]", "        include:", `          - "${{ fromJSON('{\"a\": 1}') }}"`, "          - a: {b: 1}"},
}

func genJobBlock(rng *rand.Rand, idx int) jobBlock {
	id := fmt.Sprintf("job%d", idx)
	var l []string
	l = append(l, fmt.Sprintf("  %s:", id))
	switch rng.Intn(9) {
	case 0:
		l = append(l, "    runs-on: [self-hosted, linux, gpu]")
	case 1:
		l = append(l, "    runs-on: ubuntu-lates")
	case 2:
		l = append(l, "    runs-on: windows-latest")
	case 3:
		l = append(l, "    runs-on: macos-latest")
	case 4:
		// no runs-on at all (reported as missing; the other rules still visit the job)
	case 5:
		l = append(l, "    runs-on: [self-hosted, windows]")
	default:
		l = append(l, "    runs-on: ubuntu-latest")
	}
	jobLevel := -1
	if rng.Intn(3) == 0 {
		jobLevel = rng.Intn(len(c09JobLevel))
		if strings.HasPrefix(c09JobLevel[jobLevel][0], "    name") || strings.HasPrefix(c09JobLevel[jobLevel][0], "    cont") {
			l = append(l, c09JobLevel[jobLevel]...)
			jobLevel = -1
		}
	}
	if rng.Intn(6) == 0 {
		l = append(l, "    strategy:", "      matrix: \"${{ "+[]string{"inputs", "github.event", `fromJSON('{\"include\": [{\"a\": 1}]}')`, "vars"}[rng.Intn(4)]+" }}\"")
	} else if rng.Intn(5) == 0 {
		l = append(l, "    strategy:", "      matrix:")
		l = append(l, c09Matrices[rng.Intn(len(c09Matrices))]...)
	} else if rng.Intn(2) == 0 {
		l = append(l, "    strategy:", "      matrix:")
		switch rng.Intn(3) {
		case 0:
			l = append(l, "        x: [1, 2]", "        y: [a, a]")
		case 1:
			l = append(l, "        x: [[1], [2]]")
		default:
			l = append(l, "        x: [{foo: 1}, {foo: 2}]", "        exclude:", "          - z: 1")
		}
	}
	if rng.Intn(3) == 0 {
		l = append(l, "    defaults:", "      run:", "        shell: "+[]string{"bash", "pwsh", "fish", "cmd", "sh"}[rng.Intn(5)])
	}
	if jobLevel >= 0 && strings.HasPrefix(c09JobLevel[jobLevel][0], "    env") {
		l = append(l, c09JobLevel[jobLevel]...)
	} else if rng.Intn(4) == 0 {
		l = append(l, "    env:", "      A B: x")
	}
	if jobLevel >= 0 && strings.HasPrefix(c09JobLevel[jobLevel][0], "    if") {
		l = append(l, c09JobLevel[jobLevel]...)
	} else if rng.Intn(4) == 0 {
		l = append(l, "    if: ${{ github.event_name }} == 'push'")
	}
	if rng.Intn(5) == 0 {
		l = append(l, "    timeout-minutes: ${{ 'x' }}")
	}
	l = append(l, "    steps:")
	n := 1 + rng.Intn(4)
	for s := 0; s < n; s++ {
		switch rng.Intn(5) {
		case 0:
			l = append(l, "      - uses: actions/checkout@v4", "        with:", "          "+[]string{"fetch-depth: 0", "no-such-input: 1", "ref: ${{ matrix.x.* }}"}[rng.Intn(3)])
		case 1:
			l = append(l, "      - id: first", "        run: echo \"v=1\" >> \"$GITHUB_OUTPUT\"")
		case 2:
			l = append(l, "      - id: "+[]string{"dup", "dup", "ok-id", "bad id"}[rng.Intn(4)], "        run: echo")
		default:
			l = append(l, "      - run: "+c09RunExprs[rng.Intn(len(c09RunExprs))])
			if rng.Intn(4) == 0 {
				l = append(l, "        shell: "+[]string{"bash", "python", "nosuchshell", "sh", "cmd", "powershell", "pwsh"}[rng.Intn(7)])
			}
		}
	}
	return jobBlock{id, l}
}

type relDiag struct {
	line, col  int
	kind, msg string
}

func composeAndLint(header []string, jobs []jobBlock) (map[string][]relDiag, []relDiag, string, error) {
	lines := append([]string{}, header...)
	lines = append(lines, "jobs:")
	start := map[string][2]int{}
	for _, j := range jobs {
		s := len(lines) + 1
		lines = append(lines, j.lines...)
		start[j.id] = [2]int{s, len(lines)}
	}
	src := strings.Join(lines, "\n") + "\n"
	errs, err := lintSrc("c.yaml", src)
	if err != nil {
		return nil, nil, src, err
	}
	per := map[string][]relDiag{}
	var head []relDiag
	for _, e := range errs {
		placed := false
		for id, se := range start {
			if e.Line >= se[0] && e.Line <= se[1] {
				msg := reAbsLine.ReplaceAllStringFunc(e.Message, func(m string) string {
					var n int
					fmt.Sscanf(m, "line:%d", &n)
					return fmt.Sprintf("line:+%d", n-se[0])
				})
				per[id] = append(per[id], relDiag{e.Line - se[0], e.Column, e.Kind, msg})
				placed = true
			}
		}
		if !placed {
			head = append(head, relDiag{e.Line, e.Column, e.Kind, e.Message})
		}
	}
	for id := range per {
		sort.Slice(per[id], func(a, b int) bool {
			x, y := per[id][a], per[id][b]
			if x.line != y.line {
				return x.line < y.line
			}
			if x.col != y.col {
				return x.col < y.col
			}
			return x.kind+x.msg < y.kind+y.msg
		})
	}
	return per, head, src, nil
}

func runC09(c *ctx, r *Report) error {
	rng := rand.New(rand.NewSource(c.seed))
	nPools, nComps := 120, 8
	if !c.quick {
		nPools, nComps = 2500, 16
	}
	r.Rule = fmt.Sprintf("%d pools of 6 independently generated jobs (runner labels incl. Windows / macOS / none at all, matrices incl. object filters `.*` before/after property access on the same row, default shells, env names, if conditions, steps with ids / actions / scripts with good and bad expressions), each job linted alone under a fixed header and then in %d random subsets × orders; also a job `base` with outputs that other jobs may need; the multiset of (line relative to the job, column, kind, message) of every job must be the same in every composition; same for steps: a step's diagnostics must not depend on LATER steps or on unrelated earlier steps; non-trivial = distinct (pool, composition) pairs where the job under comparison has at least one diagnostic", nPools, nComps)
	headerDispatch := []string{"on:", "  workflow_dispatch:", "    inputs:", "      who:", "        type: string", "      include:", "        type: string"}
	// with workflow_dispatch inputs the checker works on a private copy of the github context; `on: push` keeps the shared one
	headerPush := []string{"on: push"}
	header := headerPush
	// probe: one fixed job that reads every shared context type the generated jobs can touch. Its diagnostics
	// before anything else was linted are the reference; they must be the same after every pool (nothing that
	// was linted earlier in this process may change how a later workflow is typed).
	probe := jobBlock{"probe", []string{"  probe:", "    runs-on: ubuntu-latest", "    strategy:", "      matrix:", "        x: [[1], [2]]", "    steps:", "      - id: first", "        run: echo"}}
	for _, e := range c09RunExprs {
		probe.lines = append(probe.lines, "      - run: "+e)
	}
	probeRef, _, probeSrc, err := composeAndLint(header, []jobBlock{probe})
	if err != nil {
		return err
	}
	r.Evaluations++
	for p := 0; p < nPools; p++ {
		header = headerDispatch
		if p%3 == 0 {
			header = headerPush
		}
		var pool []jobBlock
		for i := 0; i < 6; i++ {
			pool = append(pool, genJobBlock(rng, i))
		}
		base := jobBlock{"base", []string{"  base:", "    runs-on: ubuntu-latest", "    outputs:", "      o: ${{ steps.s.outputs.v }}", "    steps:", "      - id: s", "        run: echo"}}
		// jobs that mention needs.base get `needs: base` (directly after the id line)
		for i := range pool {
			if strings.Contains(strings.Join(pool[i].lines, "\n"), "needs.base") || rng.Intn(6) == 0 {
				pool[i].lines = append([]string{pool[i].lines[0], "    needs: base"}, pool[i].lines[1:]...)
			}
		}
		alone := map[string][]relDiag{}
		for _, j := range pool {
			per, _, _, err := composeAndLint(header, []jobBlock{base, j})
			r.Evaluations++
			if err != nil {
				return err
			}
			alone[j.id] = per[j.id]
		}
		for k := 0; k < nComps; k++ {
			perm := rng.Perm(len(pool))
			n := 1 + rng.Intn(len(pool))
			comp := []jobBlock{}
			basePos := rng.Intn(n + 1)
			for i, pi := range perm[:n] {
				if i == basePos {
					comp = append(comp, base)
				}
				comp = append(comp, pool[pi])
			}
			if basePos >= n {
				comp = append(comp, base)
			}
			per, _, src, err := composeAndLint(header, comp)
			r.Evaluations++
			if err != nil {
				return err
			}
			for _, j := range comp {
				if j.id == "base" {
					continue
				}
				r.Evaluations++
				a, b := fmt.Sprint(alone[j.id]), fmt.Sprint(per[j.id])
				if len(alone[j.id]) > 0 {
					r.nontrivial(fmt.Sprintf("%d/%d/%s", p, k, j.id))
				}
				r.hist(fmt.Sprintf("job-diags:%d", min(len(alone[j.id]), 5)))
				if a != b {
					r.finding("job-depends-on-other-jobs", fmt.Sprintf("diagnostics of %s differ between linting it alone and together with unrelated jobs", j.id),
						Case{Op: "lint-composed", Input: map[string]string{"job": strings.Join(j.lines, "\n"), "composed_yaml": src}, Impl: b, Model: a})
				}
			}
		}
		if now, _, _, err := composeAndLint(headerPush, []jobBlock{probe}); err != nil {
			return err
		} else if a, b := fmt.Sprint(probeRef["probe"]), fmt.Sprint(now["probe"]); a != b {
			r.Evaluations++
			var earlier []string
			for _, j := range pool {
				earlier = append(earlier, strings.Join(j.lines, "\n"))
			}
			r.finding("state-survives-lint", "a workflow is typed differently after other workflows were linted in the same process (a shared context type was modified)",
				Case{Op: "lint-sequence", Input: map[string]string{"probe_yaml": probeSrc, "linted_before": strings.Join(earlier, "\n---\n")}, Impl: b, Model: a})
			probeRef = now // report each change once
		}
		// steps: a step's diagnostics are independent of later steps and of unrelated earlier steps
		var steps [][]string
		for i := 0; i < 6; i++ {
			expr := c09RunExprs[rng.Intn(len(c09RunExprs))]
			steps = append(steps, []string{"      - run: " + expr})
		}
		mkJob := func(sel []int) ([]string, map[int]int) {
			l := []string{"  j:", "    runs-on: ubuntu-latest", "    needs: base", "    strategy:", "      matrix:", "        x: [[1], [2]]", "        y: [1]", "    steps:", "      - id: first", "        run: echo"}
			at := map[int]int{}
			for _, s := range sel {
				at[s] = len(l)
				l = append(l, steps[s]...)
			}
			return l, at
		}
		ref := map[int]string{}
		for s := range steps {
			l, at := mkJob([]int{s})
			per, _, _, err := composeAndLint(header, []jobBlock{base, {"j", l}})
			r.Evaluations++
			if err != nil {
				return err
			}
			var ds []string
			for _, d := range per["j"] {
				if d.line == at[s] {
					ds = append(ds, fmt.Sprintf("%d:%s:%s", d.col, d.kind, d.msg))
				}
			}
			ref[s] = strings.Join(ds, " | ")
		}
		for k := 0; k < nComps/2; k++ {
			perm := rng.Perm(len(steps))[:1+rng.Intn(len(steps))]
			l, at := mkJob(perm)
			per, _, src, err := composeAndLint(header, []jobBlock{base, {"j", l}})
			r.Evaluations++
			if err != nil {
				return err
			}
			for _, s := range perm {
				var ds []string
				for _, d := range per["j"] {
					if d.line == at[s] {
						ds = append(ds, fmt.Sprintf("%d:%s:%s", d.col, d.kind, d.msg))
					}
				}
				got := strings.Join(ds, " | ")
				if got != "" {
					r.nontrivial(fmt.Sprintf("%d/s%d/%d", p, k, s))
				}
				if got != ref[s] {
					r.finding("step-depends-on-other-steps", "diagnostics of a step differ depending on which unrelated steps precede or follow it",
						Case{Op: "lint-composed", Input: map[string]string{"step": steps[s][0], "composed_yaml": src}, Impl: got, Model: ref[s]})
				}
			}
		}
		if p < 2 {
			r.sample(map[string]interface{}{"pool": p, "job0": strings.Join(pool[0].lines, "\n"), "diags_alone": fmt.Sprint(alone["job0"])})
		}
	}
	// workflow-level tie of the model the C09Visit theorems are about (job_resets, jobs_independent,
	// job_depends_on_needed_only, steps_scope …)
	nV := 300
	if !c.quick {
		nV = 6000
	}
	if err := visitTie(c, r, nV, true, nil); err != nil {
		return err
	}
	// AL.Props.C09Rules.six_rules_per_job: in the model the diagnostics of matrix / credentials / env-var / id / permissions /
	// if-cond are the header's plus, per job, a function of that job alone. Where the real rules report something else on a
	// source, they depart from that.
	per := 6
	if !c.quick {
		per = 300
	}
	if err := lwStandard(c, r, func(cs Case) (string, string) {
		pick := func(s string) string {
			var out []string
			for _, d := range strings.Split(s, ";") {
				f := strings.SplitN(d, ":", 4)
				if len(f) == 4 && f[2] != "syntax-check" && f[2] != "job-needs" && f[2] != "glob" {
					out = append(out, d)
				}
			}
			return strings.Join(out, ";")
		}
		if pick(cs.Impl) != pick(cs.Model) {
			return "rule-diagnostics-differ-from-per-job-model", "the diagnostics of the per-job rules (matrix, credentials, env-var, id, permissions, if-cond) differ from the model in which they are a function of each job alone"
		}
		return "", ""
	}, per, true); err != nil {
		return err
	}
	// inside a project (AL.Props.C09Proj.jobs_independent: with readable callees the cache of interfaces carries nothing from
	// job to job): the project tie
	nP := 300
	if !c.quick {
		nP = 10000
	}
	if err := pjStandard(c, r, nP); err != nil {
		return err
	}
	r.Rule += fmt.Sprintf("; %d generated caller workflows in a scratch repository (jobs that call / need local workflows, steps that use local actions) against AL.ProjCall / AL.ProjAction", nP)
	// AL.Props.C09Expr.job_depends_on_needed_only is about AL.RuleExpr: the expression rule's diagnostics per job
	return exStandard(c, r, func(cs Case) (string, string) {
		if cs.Impl != cs.Model {
			return "expression-diagnostics-differ-from-per-job-model", "the expression diagnostics differ from the model of rule_expression.go in which a job is checked from the header's scope and the jobs it needs"
		}
		return "", ""
	}, per/2, false)
}

func min(a, b int) int {
	if a < b {
		return a
	}
	return b
}
