package main

import (
	"bufio"
	"bytes"
	"encoding/hex"
	"fmt"
	"os/exec"
	"strings"
)

// hx encodes arbitrary bytes as one protocol word ("-" for the empty string).
func hx(s string) string {
	if s == "" {
		return "-"
	}
	return hex.EncodeToString([]byte(s))
}

func unhx(s string) string {
	if s == "-" {
		return ""
	}
	b, err := hex.DecodeString(s)
	if err != nil {
		return "<bad hex " + s + ">"
	}
	return string(b)
}

// runModel pipes the protocol lines through aldriver and returns one output line per input line.
func runModel(driver string, lines []string) ([]string, error) {
	if driver == "" {
		return nil, fmt.Errorf("no -driver given")
	}
	cmd := exec.Command(driver)
	cmd.Stdin = strings.NewReader(strings.Join(lines, "\n") + "\n")
	var out, errb bytes.Buffer
	cmd.Stdout = &out
	cmd.Stderr = &errb
	if err := cmd.Run(); err != nil {
		return nil, fmt.Errorf("aldriver: %v: %s", err, errb.String())
	}
	res := make([]string, 0, len(lines))
	sc := bufio.NewScanner(&out)
	sc.Buffer(make([]byte, 1<<20), 1<<26)
	for sc.Scan() {
		res = append(res, sc.Text())
	}
	if len(res) != len(lines) {
		return nil, fmt.Errorf("aldriver returned %d lines for %d operations", len(res), len(lines))
	}
	return res, nil
}

// batch collects (line, implementation output) pairs and diffs them against the model.
type batch struct {
	lines []string
	impl  []string
	cases []Case
}

func (b *batch) add(line, impl string, c Case) {
	b.lines = append(b.lines, line)
	b.impl = append(b.impl, impl)
	c.Impl = impl
	b.cases = append(b.cases, c)
}

// flush runs the model over everything collected so far in chunks and records disagreements.
func (b *batch) flush(c *ctx, r *Report) (int, error) {
	n := 0
	const chunk = 200000
	for i := 0; i < len(b.lines); i += chunk {
		j := i + chunk
		if j > len(b.lines) {
			j = len(b.lines)
		}
		out, err := runModel(c.driver, b.lines[i:j])
		if err != nil {
			return n, err
		}
		for k, m := range out {
			if m != b.impl[i+k] {
				cs := b.cases[i+k]
				cs.Model = m
				r.disagree(cs)
				n++
			}
		}
	}
	b.lines, b.impl, b.cases = nil, nil, nil
	return n, nil
}
