package main

import (
	"bufio"
	"bytes"
	"encoding/hex"
	"fmt"
	"os/exec"
	"sort"
	"strings"
)

// hx encodes arbitrary bytes as one protocol word ("-" for the empty string).
func hx(s string) string {
	if s == "" {
		return "-"
	}
	return hex.EncodeToString([]byte(s))
}

func unhx(s string) string {
	if s == "-" {
		return ""
	}
	b, err := hex.DecodeString(s)
	if err != nil {
		return "<bad hex " + s + ">"
	}
	return string(b)
}

// runModel pipes the protocol lines through aldriver and returns one output line per input line.
func runModel(driver string, lines []string) ([]string, error) {
	if driver == "" {
		return nil, fmt.Errorf("no -driver given")
	}
	cmd := exec.Command(driver)
	cmd.Stdin = strings.NewReader(strings.Join(lines, "\n") + "\n")
	var out, errb bytes.Buffer
	cmd.Stdout = &out
	cmd.Stderr = &errb
	if err := cmd.Run(); err != nil {
		return nil, fmt.Errorf("aldriver: %v: %s", err, errb.String())
	}
	res := make([]string, 0, len(lines))
	sc := bufio.NewScanner(&out)
	sc.Buffer(make([]byte, 1<<20), 1<<26)
	for sc.Scan() {
		res = append(res, sc.Text())
	}
	if len(res) != len(lines) {
		return nil, fmt.Errorf("aldriver returned %d lines for %d operations", len(res), len(lines))
	}
	return res, nil
}

// batch collects (line, implementation output) pairs and diffs them against the model.
//
// judge, when set, decides whether a disagreement is by itself a failing input of the property: the model side
// of the pair is what the property theorems are about (e.g. "the model accepts exactly the sentences of the
// grammar"), so where implementation and model differ in the part of the output the theorem speaks about, the
// implementation fails the property on that very input. judge returns the finding key ("" = the difference is in
// a part of the output the property does not constrain; it stays a pure correspondence failure).
//
// rerun, when set together with judge, recomputes (protocol line, implementation output) for a smaller source,
// so that the failing input in the replay is minimised (greedy deletion of bytes, model evaluated per round).
type batch struct {
	lines []string
	impl  []string
	cases []Case
	judge func(cs Case) (key, desc string)
	rerun func(orig Case, src string) (line, impl string, cs Case)
	srcOf func(cs Case) string
}

func (b *batch) add(line, impl string, c Case) {
	b.lines = append(b.lines, line)
	b.impl = append(b.impl, impl)
	c.Impl = impl
	b.cases = append(b.cases, c)
}

// flush runs the model over everything collected so far in chunks and records disagreements, smallest first.
func (b *batch) flush(c *ctx, r *Report) (int, error) {
	const chunk = 200000
	var dis []Case
	var disLen []int
	for i := 0; i < len(b.lines); i += chunk {
		j := i + chunk
		if j > len(b.lines) {
			j = len(b.lines)
		}
		out, err := runModel(c.driver, b.lines[i:j])
		if err != nil {
			return len(dis), err
		}
		for k, m := range out {
			if m != b.impl[i+k] {
				cs := b.cases[i+k]
				cs.Model = m
				dis = append(dis, cs)
				disLen = append(disLen, len(b.lines[i+k]))
			}
		}
	}
	idx := make([]int, len(dis))
	for i := range idx {
		idx[i] = i
	}
	sort.SliceStable(idx, func(x, y int) bool { return disLen[idx[x]] < disLen[idx[y]] })
	judged := map[string]int{}
	for _, i := range idx {
		cs := dis[i]
		r.disagree(cs)
		if b.judge == nil {
			continue
		}
		key, desc := b.judge(cs)
		if key == "" {
			continue
		}
		judged[key]++
		if judged[key] == 1 && b.rerun != nil && b.srcOf != nil {
			cs = b.shrink(c, cs, key)
		}
		if judged[key] <= 3 {
			r.finding(key, desc, cs)
		}
	}
	n := len(dis)
	b.lines, b.impl, b.cases = nil, nil, nil
	return n, nil
}

// shrink greedily deletes bytes (longest runs first) while the model and the implementation still differ
// with the same judgement.
func (b *batch) shrink(c *ctx, cs Case, key string) Case {
	src := b.srcOf(cs)
	for round := 0; round < 400 && len(src) > 1; round++ {
		var cands []string
		seen := map[string]bool{}
		for w := len(src) / 2; w >= 1; w /= 2 {
			for at := 0; at+w <= len(src); at += w {
				s2 := src[:at] + src[at+w:]
				if !seen[s2] {
					seen[s2] = true
					cands = append(cands, s2)
				}
			}
			if len(cands) > 4000 {
				break
			}
		}
		lines := make([]string, len(cands))
		impls := make([]string, len(cands))
		css := make([]Case, len(cands))
		ok := make([]bool, len(cands))
		for i, s2 := range cands {
			func() {
				defer func() { recover() }()
				lines[i], impls[i], css[i] = b.rerun(cs, s2)
				ok[i] = true
			}()
			if !ok[i] {
				lines[i] = lines[0]
			}
		}
		out, err := runModel(c.driver, lines)
		if err != nil {
			break
		}
		found := false
		for i := range cands {
			if !ok[i] || out[i] == impls[i] {
				continue
			}
			c2 := css[i]
			c2.Impl, c2.Model = impls[i], out[i]
			if k2, _ := b.judge(c2); k2 == key {
				src, cs, found = cands[i], c2, true
				break
			}
		}
		if !found {
			break
		}
	}
	cs.Note = strings.TrimSpace(cs.Note + " (minimised by greedy deletion)")
	return cs
}
