import AL.Model.Hex
