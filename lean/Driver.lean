import Driver.Main
