import AL.Props.C03Rule
import AL.Spec.ValueScalars
import AL.Lemmas.ParseWfLoop
/-
  Infrastructure for AL.Props.C03Parse ("the parser drops no value scalar silently"):

  * `leaves` — the scalars in value position below a node, at any depth (the walk over the yaml.Node tree the document
    side of the theorem is written with), `mapScalars` / `seqScalars` — the walk through a mapping / a sequence the
    workflow syntax prescribes at a position;
  * `Rep v l` — the document scalar `v` is one of the AST strings `l` (same text, same position);
  * "clean" lemmas: what a parser function returns when it appends no diagnostic (`parseString`, `parseMapping`, the two
    loops, `mapKVs`, …) and `loop_keyed`: the key loop over a mapping whose ids are pairwise distinct keeps what one
    iteration stored.
-/
namespace AL.C03P
open AL.PW AL.Yaml AL.Ast

/-! ### the document side -/

theorem leavesSeq_eq (cs : List Node) : leavesSeq cs = cs.flatMap leaves := by
  induction cs with
  | nil => simp [leavesSeq]
  | cons c cs ih => simp [leavesSeq, ih]

theorem leavesMap_eq : ∀ (cs : List Node), leavesMap cs = (pairs cs).flatMap (fun p => leaves p.2)
  | [] => by simp [leavesMap, pairs]
  | [_] => by simp [leavesMap, pairs]
  | _ :: v :: rest => by simp [leavesMap, pairs, leavesMap_eq rest]

theorem leaves_scalar (n : Node) (h : n.kind = .scalar) : leaves n = [n] := by
  obtain ⟨k, t, v, q, l, c, cs⟩ := n
  simp only [Node.kind] at h
  subst h
  simp [leaves]

theorem leaves_sequence (n : Node) (h : n.kind = .sequence) : leaves n = n.content.flatMap leaves := by
  obtain ⟨k, t, v, q, l, c, cs⟩ := n
  simp only [Node.kind] at h
  subst h
  simp [leaves, leavesSeq_eq, Node.content]

theorem leaves_mapping (n : Node) (h : n.kind = .mapping) : leaves n = (pairs n.content).flatMap (fun p => leaves p.2) := by
  obtain ⟨k, t, v, q, l, c, cs⟩ := n
  simp only [Node.kind] at h
  subst h
  simp [leaves, leavesMap_eq, Node.content]

/-! ### the AST side -/

/-- the document scalar `v` is one of the strings `l` of the AST: same text, same position -/
def Rep (v : Node) (l : List Str) : Prop := ∃ s ∈ l, s.value = v.value ∧ s.pos = v.pos

theorem Rep.mono {v : Node} {l l' : List Str} (h : Rep v l) (hs : ∀ s ∈ l, s ∈ l') : Rep v l' := by
  obtain ⟨s, hm, e⟩ := h
  exact ⟨s, hs s hm, e⟩

theorem Rep.left {v : Node} {a b : List Str} (h : Rep v a) : Rep v (a ++ b) :=
  h.mono fun _ hs => List.mem_append_left _ hs
theorem Rep.right {v : Node} {a b : List Str} (h : Rep v b) : Rep v (a ++ b) :=
  h.mono fun _ hs => List.mem_append_right _ hs

theorem Rep.newString (v : Node) : Rep v [newString v] := ⟨_, List.mem_singleton.2 rfl, rfl, rfl⟩

theorem Rep.flatMap {α : Type} {v : Node} {l : List α} {f : α → List Str} {a : α} (ha : a ∈ l) (h : Rep v (f a)) :
    Rep v (l.flatMap f) := by
  obtain ⟨s, hm, e⟩ := h
  exact ⟨s, List.mem_flatMap.2 ⟨a, ha, hm⟩, e⟩

theorem Rep.nil {v : Node} (h : Rep v []) : False := by
  obtain ⟨s, hm, _⟩ := h
  cases hm

/-! ### scalars (level 1) -/

theorem append_nil_iff {α : Type} {a b : List α} : a ++ b = [] ↔ a = [] ∧ b = [] := List.append_eq_nil_iff

/-- `checkString` is silent exactly on a scalar node (non-empty unless `allowEmpty`) -/
theorem checkString_clean (n : Node) (ae : Bool) (h : (checkString n ae).2 = []) :
    n.kind = .scalar ∧ (checkString n ae).1 = true := by
  by_cases hk : n.kind = .scalar <;> by_cases he : n.value = "" <;> cases ae <;> simp_all [checkString]

/-- **`parseString`, clean.** When `parseString` appends no diagnostic the node is a scalar and the `*String` is that
scalar: its text, its quoting, its position. -/
theorem parseString_clean (n : Node) (ae : Bool) (h : (parseString n ae).2 = []) :
    n.kind = .scalar ∧ (parseString n ae).1 = newString n := by
  simp only [parseString] at h ⊢
  split at h
  · rename_i hc
    have := checkString_clean n ae h
    simp [this.2] at hc
  · exact ⟨(checkString_clean n ae h).1, by rename_i hc; simp [hc]⟩

/-- on anything but a scalar (a sequence, a mapping, an alias) and on an empty scalar where a text is required
`parseString` reports; what it returns then is the empty string at the node's position -/
theorem parseString_not_scalar (n : Node) (ae : Bool) (h : n.kind ≠ .scalar) :
    parseString n ae = (⟨"", false, n.pos⟩, [errAt n "not-scalar-string" [n.kind.name, n.tag]]) := by
  simp [parseString, checkString, h]

theorem parseString_empty (n : Node) (h : n.kind = .scalar) (he : n.value = "") :
    parseString n false = (⟨"", false, n.pos⟩, [errAt n "string-empty" []]) := by
  simp [parseString, checkString, h, he]

/-- a null node (`key:` with nothing after it) is a scalar with the empty text: kept where an empty string is allowed -/
theorem parseString_scalar_allowEmpty (n : Node) (h : n.kind = .scalar) : parseString n true = (newString n, []) := by
  simp [parseString, checkString, h]

/-- **level 1.** every scalar below the node given to `parseString` is returned, or `parseString` reports -/
theorem parseString_leaf (n : Node) (ae : Bool) (v : Node) (hv : v ∈ leaves n) (h : (parseString n ae).2 = []) :
    Rep v [(parseString n ae).1] := by
  obtain ⟨hk, he⟩ := parseString_clean n ae h
  rw [leaves_scalar n hk, List.mem_singleton] at hv
  subst hv
  rw [he]
  exact Rep.newString _

theorem parseStrings_leaf (ae : Bool) (v : Node) : ∀ (cs : List Node), v ∈ cs.flatMap leaves →
    (parseStrings ae cs).2 = [] → Rep v (parseStrings ae cs).1
  | [], hv, _ => by simp at hv
  | c :: cs, hv, h => by
    simp only [parseStrings, append_nil_iff] at h ⊢
    simp only [List.flatMap_cons, List.mem_append] at hv
    rcases hv with hv | hv
    · exact (parseString_leaf c ae v hv h.1).mono (by simp)
    · exact (parseStrings_leaf ae v cs hv h.2).mono (by simp +contextual)

theorem checkSequence_clean (sec : String) (n : Node) (ae : Bool) (h : (checkSequence sec n ae).2 = []) :
    n.kind = .sequence ∧ (checkSequence sec n ae).1 = true := by
  by_cases hk : n.kind = .sequence <;> cases ae <;> by_cases hl : n.content.length = 0 <;>
    simp_all [checkSequence, checkNotEmpty]

theorem parseStringSequence_leaf (sec : String) (n : Node) (ae aee : Bool) (v : Node) (hv : v ∈ leaves n)
    (h : (parseStringSequence sec n ae aee).2 = []) : Rep v ((parseStringSequence sec n ae aee).1.getD []) := by
  simp only [parseStringSequence] at h ⊢
  split at h
  · rename_i hc
    have := checkSequence_clean sec n ae h
    simp [this.2] at hc
  · rename_i hc
    simp only [hc]
    simp only [append_nil_iff] at h
    have hk := (checkSequence_clean sec n ae h.1).1
    rw [leaves_sequence n hk] at hv
    exact parseStrings_leaf aee v _ hv h.2

theorem parseStringOrStringSequence_leaf (sec : String) (n : Node) (aee : Bool) (v : Node) (hv : v ∈ leaves n)
    (h : (parseStringOrStringSequence sec n false aee).2 = []) :
    Rep v ((parseStringOrStringSequence sec n false aee).1.getD []) := by
  simp only [parseStringOrStringSequence, Bool.false_and, Bool.false_eq_true, ↓reduceIte] at h ⊢
  split
  · rename_i hk
    simp only [hk, ↓reduceIte] at h
    exact parseString_leaf n aee v hv h
  · rename_i hk
    simp only [hk, ↓reduceIte] at h
    exact parseStringSequence_leaf sec n false aee v hv h

theorem parseExpression_clean (n : Node) (ex : String) (h : (parseExpression n ex).2 = []) :
    (parseExpression n ex).1 = some (newString n) := by
  simp only [parseExpression] at h ⊢
  split at h
  · simp at h
  · rename_i hc; simp [hc]

theorem mem_typedLeaves {tags : List String} {n v : Node} (h : v ∈ typedLeaves tags n) :
    v ∈ leaves n ∧ ¬ (n.kind = .scalar ∧ n.tag ∈ tags) := by
  simp only [typedLeaves] at h
  split at h
  · cases h
  · rename_i hc
    refine ⟨h, ?_⟩
    intro ⟨h1, h2⟩
    apply hc
    simp [h1, List.contains_eq_mem, h2]

/-- `parseBool`: a `!!bool` literal is kept as a value; a string is kept when it is one `${{ }}`, reported otherwise -/
theorem parseBool_leaf (n : Node) (v : Node) (hv : v ∈ typedLeaves ["!!bool"] n) (h : (parseBool n).2 = []) :
    Rep v (AL.C03R.boolStrs (parseBool n).1) := by
  obtain ⟨hv, hno⟩ := mem_typedLeaves hv
  simp only [parseBool] at h ⊢
  split at h
  · simp at h
  · rename_i hc
    simp only [hc]
    simp only [Bool.or_eq_true, decide_eq_true_eq, Bool.and_eq_true, not_or, not_and, ne_eq, Decidable.not_not] at hc
    split at h
    · rename_i ht
      simp only [ht, ↓reduceIte]
      rw [leaves_scalar n hc.1, List.mem_singleton] at hv
      subst hv
      simp only [AL.C03R.boolStrs, parseExpression_clean _ _ h]
      exact Rep.newString _
    · rename_i ht
      exfalso
      apply hno
      refine ⟨hc.1, ?_⟩
      by_cases hb : n.tag = "!!bool"
      · simp [hb]
      · exact absurd (hc.2 hb) ht

theorem parseInt_leaf (cfg : Cfg) (n : Node) (v : Node) (hv : v ∈ typedLeaves ["!!int"] n) (h : (parseInt cfg n).2 = []) :
    Rep v (AL.C03R.intStrs (parseInt cfg n).1) := by
  obtain ⟨hv, hno⟩ := mem_typedLeaves hv
  simp only [parseInt] at h ⊢
  split at h
  · simp at h
  · rename_i hc
    simp only [hc]
    simp only [Bool.or_eq_true, decide_eq_true_eq, Bool.and_eq_true, not_or, not_and, ne_eq, Decidable.not_not] at hc
    split at h
    · rename_i ht
      simp only [ht, ↓reduceIte]
      rw [leaves_scalar n hc.1, List.mem_singleton] at hv
      subst hv
      have he := parseExpression_clean v "integer literal" (by
        generalize parseExpression v "integer literal" = e at h
        obtain ⟨e1, e2⟩ := e
        cases e1 <;> exact h)
      simp only [he, AL.C03R.intStrs]
      exact Rep.newString _
    · rename_i ht
      exfalso
      apply hno
      refine ⟨hc.1, ?_⟩
      by_cases hb : n.tag = "!!int"
      · simp [hb]
      · exact absurd (hc.2 hb) ht

theorem parseFloat_leaf (cfg : Cfg) (n : Node) (v : Node) (hv : v ∈ typedLeaves ["!!float", "!!int"] n)
    (h : (parseFloat cfg n).2 = []) : Rep v (AL.C03R.floatStrs (parseFloat cfg n).1) := by
  obtain ⟨hv, hno⟩ := mem_typedLeaves hv
  simp only [parseFloat] at h ⊢
  split at h
  · simp at h
  · rename_i hc
    simp only [hc]
    simp only [Bool.or_eq_true, decide_eq_true_eq, Bool.and_eq_true, not_or, not_and, ne_eq, Decidable.not_not] at hc
    split at h
    · rename_i ht
      simp only [ht, ↓reduceIte]
      rw [leaves_scalar n hc.1, List.mem_singleton] at hv
      subst hv
      have he := parseExpression_clean v "float number literal" (by
        generalize parseExpression v "float number literal" = e at h
        obtain ⟨e1, e2⟩ := e
        cases e1 <;> exact h)
      simp only [he, AL.C03R.floatStrs]
      exact Rep.newString _
    · rename_i ht
      exfalso
      apply hno
      refine ⟨hc.1, ?_⟩
      by_cases hb : n.tag = "!!float"
      · simp [hb]
      · by_cases hi : n.tag = "!!int"
        · simp [hi]
        · exact absurd (hc.2 ⟨hb, hi⟩) ht

theorem parseTimeoutMinutes_clean (cfg : Cfg) (n : Node) :
    (parseTimeoutMinutes cfg n).1 = (parseFloat cfg n).1 ∧ ((parseTimeoutMinutes cfg n).2 = [] → (parseFloat cfg n).2 = []) := by
  simp only [parseTimeoutMinutes]
  split
  · split
    · refine ⟨rfl, ?_⟩; simp
    · exact ⟨rfl, id⟩
  · exact ⟨rfl, id⟩

theorem parseTimeoutMinutes_leaf (cfg : Cfg) (n : Node) (v : Node) (hv : v ∈ typedLeaves ["!!float", "!!int"] n)
    (h : (parseTimeoutMinutes cfg n).2 = []) : Rep v (AL.C03R.floatStrs (parseTimeoutMinutes cfg n).1) := by
  obtain ⟨h1, h2⟩ := parseTimeoutMinutes_clean cfg n
  rw [h1]
  exact parseFloat_leaf cfg n v hv (h2 h)

theorem parseMaxParallel_clean (cfg : Cfg) (n : Node) :
    (parseMaxParallel cfg n).1 = (parseInt cfg n).1 ∧ ((parseMaxParallel cfg n).2 = [] → (parseInt cfg n).2 = []) := by
  simp only [parseMaxParallel]
  split
  · split
    · refine ⟨rfl, ?_⟩; simp
    · exact ⟨rfl, id⟩
  · exact ⟨rfl, id⟩

theorem parseMaxParallel_leaf (cfg : Cfg) (n : Node) (v : Node) (hv : v ∈ typedLeaves ["!!int"] n)
    (h : (parseMaxParallel cfg n).2 = []) : Rep v (AL.C03R.intStrs (parseMaxParallel cfg n).1) := by
  obtain ⟨h1, h2⟩ := parseMaxParallel_clean cfg n
  rw [h1]
  exact parseInt_leaf cfg n v hv (h2 h)

/-! ### `mappingLoop` / `parseMapping`, clean -/

/-- the id `parseMapping` files a key under when the key node is a sound one: its text, lower-cased in a case-insensitive
mapping -/
def keyOf (cfg : Cfg) (cs : Bool) (kn : Node) : String := if cs then kn.value else cfg.lower kn.value

theorem keyId_clean (cfg : Cfg) (cs : Bool) (kn : Node) (h : (parseString kn false).2 = []) : keyId cfg cs kn = keyOf cfg cs kn := by
  simp only [keyId, keyOf, (parseString_clean kn false h).2, newString]

theorem mappingLoop_clean (cfg : Cfg) (what : String) (cs : Bool) : ∀ (l : List (Node × Node)) (seen : List (String × Yaml.Pos)),
    (mappingLoop cfg what cs l seen).2 = [] →
    ∀ p ∈ l, ∃ kv ∈ (mappingLoop cfg what cs l seen).1, kv.val = p.2 ∧ kv.id = keyOf cfg cs p.1
  | [], _, _, p, hp => by cases hp
  | (kn, vn) :: rest, seen, h, p, hp => by
    rw [mappingLoop_cons] at h ⊢
    cases hl : lookupSeen (keyId cfg cs kn) seen with
    | some pos => simp [hl] at h
    | none =>
      simp only [hl, append_nil_iff] at h ⊢
      rcases List.mem_cons.1 hp with rfl | hp
      · exact ⟨_, List.mem_cons_self .., rfl, keyId_clean cfg cs kn h.1⟩
      · obtain ⟨kv, hk, e⟩ := mappingLoop_clean cfg what cs rest _ h.2 p hp
        exact ⟨kv, List.mem_cons_of_mem _ hk, e⟩

/-- the ids of the entries `parseMapping` returns are pairwise distinct (a repeated key is reported and dropped) -/
theorem mappingLoop_nodup (cfg : Cfg) (what : String) (cs : Bool) : ∀ (l : List (Node × Node)) (seen : List (String × Yaml.Pos)),
    ((mappingLoop cfg what cs l seen).1.map (·.id)).Nodup ∧
    ∀ kv ∈ (mappingLoop cfg what cs l seen).1, lookupSeen kv.id seen = none
  | [], _ => by simp [mappingLoop]
  | (kn, vn) :: rest, seen => by
    rw [mappingLoop_cons]
    cases hl : lookupSeen (keyId cfg cs kn) seen with
    | some pos => exact mappingLoop_nodup cfg what cs rest seen
    | none =>
      obtain ⟨hn, hs⟩ := mappingLoop_nodup cfg what cs rest (seen ++ [(keyId cfg cs kn, (parseString kn false).1.pos)])
      simp only [List.map_cons, List.nodup_cons, List.mem_map, not_exists, not_and, List.mem_cons, forall_eq_or_imp]
      refine ⟨⟨?_, hn⟩, hl, ?_⟩
      · intro kv hk e
        have := hs kv hk
        rw [lookupSeen_snoc, e, hl] at this
        simp at this
      · intro kv hk
        have := hs kv hk
        rw [lookupSeen_snoc] at this
        cases h2 : lookupSeen kv.id seen with
        | some q => simp [h2] at this
        | none => rfl

theorem parseMapping_nodup (cfg : Cfg) (what : String) (n : Node) (ae cs : Bool) :
    ((parseMapping cfg what n ae cs).1.map (·.id)).Nodup := by
  simp only [parseMapping]
  split
  · simp
  · split
    · simp
    · exact (mappingLoop_nodup cfg what cs _ []).1

/-- **`parseMapping`, clean**: the node is a mapping (or null) and every pair of it is one entry of the result, with the
pair's value node and the id of its key -/
theorem parseMapping_clean (cfg : Cfg) (what : String) (n : Node) (ae cs : Bool) (h : (parseMapping cfg what n ae cs).2 = []) :
    (n.kind = .mapping ∨ n.isNull = true) ∧
    ∀ p ∈ pairs n.content, ∃ kv ∈ (parseMapping cfg what n ae cs).1, kv.val = p.2 ∧ kv.id = keyOf cfg cs p.1 := by
  simp only [parseMapping] at h ⊢
  split at h
  · simp at h
  · rename_i h1
    split at h
    · simp at h
    · rename_i h2
      simp only [h1, h2]
      simp only [append_nil_iff] at h
      refine ⟨?_, mappingLoop_clean cfg what cs _ [] h.1⟩
      simp only [Bool.and_eq_true, Bool.not_eq_eq_eq_not, Bool.not_true, decide_eq_true_eq, not_and, ne_eq,
        Decidable.not_not] at h1
      cases hn : n.isNull with
      | true => exact Or.inr rfl
      | false => exact Or.inl (h1 hn)

theorem parseMapping_clean_notnull (cfg : Cfg) (what : String) (n : Node) (cs : Bool)
    (h : (parseMapping cfg what n false cs).2 = []) : n.kind = .mapping := by
  have h0 := h
  simp only [parseMapping] at h
  split at h
  · simp at h
  · rename_i h1
    split at h
    · simp at h
    · rename_i h2
      simp only [Bool.and_eq_true, Bool.not_eq_eq_eq_not, Bool.not_true, decide_eq_true_eq, not_and, ne_eq,
        Decidable.not_not, Bool.not_false, true_and, Bool.not_eq_true] at h1 h2
      exact h1 h2

theorem parseMapping_clean_nonempty (cfg : Cfg) (what : String) (n : Node) (cs : Bool)
    (h : (parseMapping cfg what n false cs).2 = []) : (parseMapping cfg what n false cs).1 ≠ [] := by
  simp only [parseMapping] at h ⊢
  split at h
  · simp at h
  · rename_i h1
    split at h
    · simp at h
    · rename_i h2
      simp only [h1, h2]
      simp only [append_nil_iff] at h
      intro he
      simp only [Bool.false_eq_true, ↓reduceIte] at he
      simp [he] at h

/-- where the mapping must not be empty, the plain walk below the node is the walk through its pairs -/
theorem leaves_mapScalars (cfg : Cfg) (what : String) (n : Node) (cs : Bool) (v : Node) (hv : v ∈ leaves n)
    (h : (parseMapping cfg what n false cs).2 = []) : v ∈ mapScalars n (fun _ x => leaves x) := by
  have hk := parseMapping_clean_notnull cfg what n cs h
  rw [leaves_mapping n hk] at hv
  simpa [mapScalars, hk] using hv

/-- the walk through a mapping position meets the parser: a scalar the walk reaches lies below the value of an entry of
`parseMapping`'s result, under the key text `k` — which is the entry's id when the mapping is case-sensitive -/
theorem mapScalars_clean (cfg : Cfg) (what : String) (n : Node) (ae cs : Bool) (g : String → Node → List Node) (v : Node)
    (hv : v ∈ mapScalars n g) (h : (parseMapping cfg what n ae cs).2 = []) :
    ∃ kv ∈ (parseMapping cfg what n ae cs).1, ∃ k, (cs = true → k = kv.id) ∧ v ∈ g k kv.val := by
  obtain ⟨hk, hp⟩ := parseMapping_clean cfg what n ae cs h
  have : (n.kind = .mapping || n.isNull) = true := by
    rcases hk with hk | hk <;> simp [hk]
  simp only [mapScalars, this, ↓reduceIte, List.mem_flatMap] at hv
  obtain ⟨p, hpm, hv⟩ := hv
  obtain ⟨kv, hkv, e1, e2⟩ := hp p hpm
  refine ⟨kv, hkv, p.1.value, ?_, by rw [e1]; exact hv⟩
  intro hcs
  simp [e2, keyOf, hcs]

/-! ### the two loops, clean -/

variable {σ : Type}

theorem loop_clean_cons (step : σ → KV → σ × List PErr) (init : σ) (kv : KV) (rest : List KV) :
    (loop step init (kv :: rest)).2 = [] ↔ (step init kv).2 = [] ∧ (loop step (step init kv).1 rest).2 = [] := by
  rw [loop_cons]
  exact append_nil_iff

theorem loop_cons_fst (step : σ → KV → σ × List PErr) (init : σ) (kv : KV) (rest : List KV) :
    (loop step init (kv :: rest)).1 = (loop step (step init kv).1 rest).1 := by
  rw [loop_cons]

/-- an invariant of every iteration is an invariant of the loop -/
theorem loop_inv (step : σ → KV → σ × List PErr) (I : σ → Prop) (h : ∀ st kv, I st → I (step st kv).1) :
    ∀ (kvs : List KV) (init : σ), I init → I (loop step init kvs).1
  | [], _, h0 => h0
  | kv :: rest, init, h0 => by
    rw [loop_cons_fst]
    exact loop_inv step I h rest _ (h init kv h0)

/-- an invariant of every silent iteration is an invariant of a clean loop -/
theorem loop_inv_clean (step : σ → KV → σ × List PErr) (I : σ → Prop)
    (h : ∀ st kv, I st → (step st kv).2 = [] → I (step st kv).1) :
    ∀ (kvs : List KV) (init : σ), I init → (loop step init kvs).2 = [] → I (loop step init kvs).1
  | [], _, h0, _ => h0
  | kv :: rest, init, h0, hc => by
    rw [loop_clean_cons] at hc
    rw [loop_cons_fst]
    exact loop_inv_clean step I h rest _ (h init kv h0 hc.1) hc.2

/-- what holds after an iteration and is kept by the iterations over other ids holds at the end -/
theorem loop_pres (step : σ → KV → σ × List PErr) (Q : σ → Prop) (k0 : String)
    (hpres : ∀ st kv, kv.id ≠ k0 → Q st → (step st kv).2 = [] → Q (step st kv).1) :
    ∀ (kvs : List KV) (init : σ), (∀ kv ∈ kvs, kv.id ≠ k0) → Q init → (loop step init kvs).2 = [] → Q (loop step init kvs).1
  | [], _, _, h0, _ => h0
  | kv :: rest, init, hne, h0, hc => by
    rw [loop_clean_cons] at hc
    rw [loop_cons_fst]
    exact loop_pres step Q k0 hpres rest _ (fun kv h => hne kv (List.mem_cons_of_mem _ h))
      (hpres init kv (hne kv (List.mem_cons_self ..)) h0 hc.1) hc.2

/-- **the key loop over pairwise distinct ids.** `I` holds before the iteration of `kv` (it is kept by the iterations of
the other ids), that iteration establishes `Q`, the later iterations (other ids) keep `Q`: a clean loop ends in `Q`. -/
theorem loop_keyed (step : σ → KV → σ × List PErr) (I Q : σ → Prop) (kv : KV)
    (hI : ∀ st kv', kv'.id ≠ kv.id → I st → I (step st kv').1)
    (hstore : ∀ st, I st → (step st kv).2 = [] → Q (step st kv).1)
    (hpres : ∀ st kv', kv'.id ≠ kv.id → Q st → (step st kv').2 = [] → Q (step st kv').1) :
    ∀ (kvs : List KV), (kvs.map (·.id)).Nodup → kv ∈ kvs → ∀ init, I init → (loop step init kvs).2 = [] →
      Q (loop step init kvs).1
  | [], _, hm, _, _, _ => by cases hm
  | x :: rest, hnd, hm, init, h0, hc => by
    simp only [List.map_cons, List.nodup_cons, List.mem_map, not_exists, not_and] at hnd
    rw [loop_clean_cons] at hc
    rw [loop_cons_fst]
    rcases List.mem_cons.1 hm with rfl | hm
    · refine loop_pres step Q kv.id hpres rest _ ?_ (hstore init h0 hc.1) hc.2
      intro kv' hk' e
      exact hnd.1 kv' hk' e
    · have hne : x.id ≠ kv.id := fun e => hnd.1 kv hm e.symm
      exact loop_keyed step I Q kv hI hstore hpres rest hnd.2 hm _ (hI init x hne h0) hc.2

/-- `mapKVs`, clean: every entry was processed silently and its result is in the list, under the entry's id -/
theorem mapKVs_clean {β : Type} (f : KV → R β) : ∀ (kvs : List KV), (mapKVs f kvs).2 = [] →
    ∀ kv ∈ kvs, (f kv).2 = [] ∧ (kv.id, (f kv).1) ∈ (mapKVs f kvs).1
  | [], _, kv, hk => by cases hk
  | x :: rest, h, kv, hk => by
    simp only [mapKVs, append_nil_iff] at h ⊢
    rcases List.mem_cons.1 hk with rfl | hk
    · exact ⟨h.1, List.mem_cons_self ..⟩
    · obtain ⟨h1, h2⟩ := mapKVs_clean f rest h.2 kv hk
      exact ⟨h1, List.mem_cons_of_mem _ h2⟩

/-- **a section parser**: `parseMapping`, then the key loop. A scalar the walk `mapScalars n g` reaches lies below one
entry; if the iteration of that entry establishes `Q id` (given the invariant `I id` of the earlier ones) and the
iterations of the other ids keep it, a clean section ends in `Q id`. -/
theorem sect_keyed (cfg : Cfg) (what : String) (n : Node) (ae cs : Bool) (step : σ → KV → σ × List PErr) (init : σ)
    (g : String → Node → List Node) (v : Node) (hv : v ∈ mapScalars n g) (I Q : String → σ → Prop) (hI0 : ∀ k, I k init)
    (hm : (parseMapping cfg what n ae cs).2 = [])
    (hr : (loop step init (parseMapping cfg what n ae cs).1).2 = [])
    (H : ∀ (kv : KV) (k : String), (cs = true → k = kv.id) → v ∈ g k kv.val →
      (∀ st kv', kv'.id ≠ kv.id → I kv.id st → I kv.id (step st kv').1) ∧
      (∀ st, I kv.id st → (step st kv).2 = [] → Q kv.id (step st kv).1) ∧
      (∀ st kv', kv'.id ≠ kv.id → Q kv.id st → (step st kv').2 = [] → Q kv.id (step st kv').1)) :
    ∃ k, Q k (loop step init (parseMapping cfg what n ae cs).1).1 := by
  obtain ⟨kv, hkv, k, hk, hvk⟩ := mapScalars_clean cfg what n ae cs g v hv hm
  obtain ⟨h1, h2, h3⟩ := H kv k hk hvk
  exact ⟨kv.id, loop_keyed step (I kv.id) (Q kv.id) kv h1 h2 h3 _ (parseMapping_nodup cfg what n ae cs) hkv init (hI0 _) hr⟩

/-- `sect_keyed` with the usual `Q`: the scalar is one of the strings `K id st` the loop state holds under the id of the
entry it lies below; `K id` is only touched by the iteration of `id` -/
theorem sect_K (cfg : Cfg) (what : String) (n : Node) (ae cs : Bool) (step : σ → KV → σ × List PErr) (init : σ)
    (g : String → Node → List Node) (v : Node) (hv : v ∈ mapScalars n g) (K : String → σ → List Str)
    (hm : (parseMapping cfg what n ae cs).2 = [])
    (hr : (loop step init (parseMapping cfg what n ae cs).1).2 = [])
    (hstore : ∀ (kv : KV) (k : String) (st : σ), (cs = true → k = kv.id) → v ∈ g k kv.val → (step st kv).2 = [] →
      Rep v (K kv.id (step st kv).1))
    (hpres : ∀ (k : String) (st : σ) (kv : KV), kv.id ≠ k → ∀ s ∈ K k st, s ∈ K k (step st kv).1) :
    ∃ k, Rep v (K k (loop step init (parseMapping cfg what n ae cs).1).1) :=
  sect_keyed cfg what n ae cs step init g v hv (fun _ _ => True) (fun k st => Rep v (K k st)) (fun _ => trivial) hm hr
    (fun kv k hk hvk => ⟨fun _ _ _ _ => trivial, fun st _ hc => hstore kv k st hk hvk hc,
      fun st kv' hne hq _ => hq.mono (hpres kv.id st kv' hne)⟩)

/-- `sect_K` for a section without exempt positions, where the mapping must not be empty -/
theorem sect_leaves (cfg : Cfg) (what : String) (n : Node) (cs : Bool) (step : σ → KV → σ × List PErr) (init : σ)
    (v : Node) (hv : v ∈ leaves n) (K : String → σ → List Str)
    (hm : (parseMapping cfg what n false cs).2 = [])
    (hr : (loop step init (parseMapping cfg what n false cs).1).2 = [])
    (hstore : ∀ (kv : KV) (st : σ), v ∈ leaves kv.val → (step st kv).2 = [] → Rep v (K kv.id (step st kv).1))
    (hpres : ∀ (k : String) (st : σ) (kv : KV), kv.id ≠ k → ∀ s ∈ K k st, s ∈ K k (step st kv).1) :
    ∃ k, Rep v (K k (loop step init (parseMapping cfg what n false cs).1).1) :=
  sect_K cfg what n false cs step init (fun _ x => leaves x) v (leaves_mapScalars cfg what n cs v hv hm) K hm hr
    (fun kv _ st _ hvk hc => hstore kv st hvk hc) hpres

theorem or_of_clean {α : Type} {l : List α} {P : Prop} (h : l = [] → P) : l ≠ [] ∨ P := by
  by_cases hl : l = []
  · exact Or.inr (h hl)
  · exact Or.inl hl

end AL.C03P
