import AL.Model.Render
/-
  C16 helper lemmas, part 3: `splitLines`, `getLine`, `snippetLine`.
-/
namespace AL.Render

/-- the `\r` trimming of one scanned line -/
def trimCR (l : List Nat) : List Nat := if l.getLast? = some 13 then l.dropLast else l

theorem splitLines_eq (src : List Nat) : splitLines src = (splitLines.go src []).map trimCR := rfl

theorem go_no_lf : ∀ (s cur : List Nat), 10 ∉ cur → ∀ l ∈ splitLines.go s cur, 10 ∉ l
  | [], cur, hcur, l, hl => by
    unfold splitLines.go at hl
    split at hl
    · simp at hl
    · simp only [List.mem_singleton] at hl
      subst hl; exact hcur
  | b :: rest, cur, hcur, l, hl => by
    unfold splitLines.go at hl
    split at hl
    · simp only [List.mem_cons] at hl
      rcases hl with rfl | hl
      · exact hcur
      · exact go_no_lf rest [] (by simp) l hl
    · rename_i hb
      refine go_no_lf rest (cur ++ [b]) ?_ l hl
      simp only [List.mem_append, List.mem_singleton, not_or]
      exact ⟨hcur, fun h => hb h.symm⟩

theorem go_sum_le : ∀ (s cur : List Nat), ((splitLines.go s cur).map (·.length)).sum ≤ s.length + cur.length
  | [], cur => by
    unfold splitLines.go
    split <;> simp
  | b :: rest, cur => by
    unfold splitLines.go
    split
    · have ih := go_sum_le rest []
      simp only [List.map_cons, List.sum_cons, List.length_cons, List.length_nil] at ih ⊢
      omega
    · have ih := go_sum_le rest (cur ++ [b])
      simp only [List.length_append, List.length_cons, List.length_nil] at ih ⊢
      omega

theorem trimCR_length_le (l : List Nat) : (trimCR l).length ≤ l.length := by
  unfold trimCR; split
  · simp
  · exact Nat.le_refl _

theorem trimCR_no_lf {l : List Nat} (h : 10 ∉ l) : 10 ∉ trimCR l := by
  unfold trimCR; split
  · exact fun hm => h (List.dropLast_subset l hm)
  · exact h

theorem sum_map_trimCR_le : ∀ (ls : List (List Nat)),
    ((ls.map trimCR).map (·.length)).sum ≤ (ls.map (·.length)).sum
  | [] => by simp
  | l :: ls => by
    have ih := sum_map_trimCR_le ls
    have h := trimCR_length_le l
    simp only [List.map_cons, List.sum_cons]
    omega

theorem splitLines_no_lf (src : List Nat) : ∀ l ∈ splitLines src, 10 ∉ l := by
  intro l hl
  rw [splitLines_eq, List.mem_map] at hl
  obtain ⟨l0, hl0, rfl⟩ := hl
  exact trimCR_no_lf (go_no_lf src [] (by simp) l0 hl0)

theorem splitLines_sum_le (src : List Nat) : ((splitLines src).map (·.length)).sum ≤ src.length := by
  rw [splitLines_eq]
  have h1 := sum_map_trimCR_le (splitLines.go src [])
  have h2 := go_sum_le src []
  simp only [List.length_nil, Nat.add_zero] at h2
  omega

/-- `getLine` returns the `n`-th scanned line, and only lines below the scanner's token limit -/
theorem getLine_some {src : List Nat} {n : Nat} {l : List Nat} (h : getLine src n = some l) :
    n ≥ 1 ∧ (splitLines src)[n - 1]? = some l ∧ l.length < maxToken := by
  unfold getLine at h
  split at h
  · cases h
  · rename_i hn
    simp only at h
    split at h
    · cases h
    · rename_i hany
      refine ⟨by omega, h, ?_⟩
      simp only [List.any_eq_true, decide_eq_true_eq, not_exists, not_and, Nat.not_le] at hany
      apply hany
      rw [List.mem_take_iff_getElem]
      obtain ⟨hlt, hget⟩ := List.getElem?_eq_some_iff.mp h
      exact ⟨n - 1, by omega, hget⟩

end AL.Render
