import AL.Model.Needs
import AL.Spec.Digraph
/-
  Helper lemmas for C18 (e), (f), (d): diagnostics of `visitJobs`/`resolve`, `indexOf?`, and the
  fuel-independence of `visitList`.
-/
namespace AL.Needs

/-! ### No `cyclic` diagnostic comes out of `visitJobs` / `resolve` -/

def Diag.isCyclic : Diag → Bool
  | .cyclic _ => true
  | _ => false

theorem normNeeds_no_cyclic (lower : String → String) (ns : List NeedRef) (acc : List String) :
    ∀ d ∈ (normNeeds lower ns acc).2, d.isCyclic = false := by
  induction ns generalizing acc with
  | nil => simp [normNeeds]
  | cons j rest ih =>
    intro d hd
    simp only [normNeeds] at hd
    split at hd
    · simp only [List.mem_cons] at hd
      rcases hd with rfl | hd
      · rfl
      · exact ih _ d hd
    · split at hd
      · exact ih _ d hd
      · exact ih _ d hd

theorem visitJobs_no_cyclic (lower : String → String) (jobs : List JobIn) (nodes : List RawNode) :
    ∀ d ∈ (visitJobs lower jobs nodes).2, d.isCyclic = false := by
  induction jobs generalizing nodes with
  | nil => simp [visitJobs]
  | cons j rest ih =>
    intro d hd
    simp only [visitJobs] at hd
    split at hd
    · simp only [List.mem_append] at hd
      rcases hd with hd | hd
      · exact normNeeds_no_cyclic _ _ _ d hd
      · exact ih _ d hd
    · simp only [List.mem_append] at hd
      rcases hd with (hd | hd) | hd
      · exact normNeeds_no_cyclic _ _ _ d hd
      · split at hd
        · simp only [List.mem_cons, List.not_mem_nil, or_false] at hd
          subst hd; rfl
        · simp at hd
      · exact ih _ d hd

theorem resolve_no_cyclic (nodes : List RawNode) : ∀ d ∈ (resolve nodes).2, d.isCyclic = false := by
  intro d hd
  simp only [resolve, List.mem_flatMap, List.mem_map, List.mem_filter] at hd
  obtain ⟨n, _, dep, _, rfl⟩ := hd
  rfl

theorem filter_isCyclic_eq_nil {l : List Diag} (h : ∀ d ∈ l, d.isCyclic = false) :
    l.filter Diag.isCyclic = [] := by
  simp only [List.filter_eq_nil_iff]
  intro d hd
  simp [h d hd]

/-! ### `indexOf?` -/

theorem indexOf?_isNone (nodes : List RawNode) (d : String) :
    (indexOf? nodes d).isNone = true ↔ ∀ m ∈ nodes, m.id ≠ d := by
  unfold indexOf?
  by_cases h : List.findIdx (fun x => decide (x.id = d)) nodes < nodes.length
  · simp only [h, if_true, Option.isNone_some, Bool.false_eq_true, false_iff]
    rw [List.findIdx_lt_length] at h
    obtain ⟨x, hx, hp⟩ := h
    intro hall
    exact hall x hx (by simpa using hp)
  · simp only [h, if_false, Option.isNone_none, true_iff]
    rw [List.findIdx_lt_length] at h
    intro m hm heq
    exact h ⟨m, hm, by simpa using heq⟩

theorem indexOf?_lt (nodes : List RawNode) (d : String) (i : Nat) (h : indexOf? nodes d = some i) :
    i < nodes.length := by
  simp only [indexOf?] at h
  split at h
  · cases h; assumption
  · cases h

/-! ### A decidable check for `WF` (used for concrete examples) -/

def wfCheck (g : Graph) : Bool := g.all fun n => n.resolved.all (· < g.length)

theorem wf_of_wfCheck {g : Graph} (h : wfCheck g = true) : AL.Spec.WF g := by
  intro v w hw
  unfold Graph.succ at hw
  cases hg : g[v]? with
  | none => simp [hg] at hw
  | some n =>
    simp only [hg, Option.map_some, Option.getD_some] at hw
    simp only [wfCheck, List.all_eq_true, decide_eq_true_eq] at h
    exact h n (List.mem_of_getElem? hg) w hw

/-! ### `countNew` -/

theorem countNew_le_length (st : List Status) : countNew st ≤ st.length := by
  unfold countNew
  exact List.length_filter_le _ _

theorem countNew_pos_of_new {st : List Status} {w : Nat} (h : st[w]? = some .new) : 0 < countNew st := by
  unfold countNew
  rw [List.length_pos_iff_exists_mem]
  refine ⟨.new, ?_⟩
  rw [List.mem_filter]
  exact ⟨List.mem_of_getElem? h, by simp⟩

theorem countNew_set_new {st : List Status} {w : Nat} {s : Status} (h : st[w]? = some .new) (hs : s ≠ .new) :
    countNew (setStatus st w s) + 1 = countNew st := by
  unfold countNew setStatus
  induction st generalizing w with
  | nil => simp at h
  | cons a st ih =>
    cases w with
    | zero =>
      simp only [List.getElem?_cons_zero, Option.some.injEq] at h
      subst h
      simp [List.set_cons_zero, hs]
    | succ w =>
      simp only [List.getElem?_cons_succ] at h
      have := ih h
      simp only [List.set_cons_succ, List.filter_cons]
      split <;> simp_all <;> omega

theorem countNew_set_notnew_le (st : List Status) (w : Nat) {s : Status} (hs : s ≠ .new) :
    countNew (setStatus st w s) ≤ countNew st := by
  unfold countNew setStatus
  induction st generalizing w with
  | nil => simp
  | cons a st ih =>
    cases w with
    | zero =>
      simp only [List.set_cons_zero, List.filter_cons, hs, decide_false, Bool.false_eq_true, if_false]
      split <;> simp
    | succ w =>
      have := ih w
      simp only [List.set_cons_succ, List.filter_cons]
      split <;> simp_all

/-! ### One-step unfoldings of `visitList` -/

theorem visitList_nil (g : Graph) (fuel : Nat) (st : List Status) (v : Nat) :
    visitList g fuel st v [] = (none, setStatus st v .finished) := by
  rw [visitList.eq_1]

theorem visitList_cons_active (g : Graph) (fuel : Nat) {st : List Status} (v : Nat) {w : Nat} (ws : List Nat)
    (h : st[w]? = some .active) : visitList g fuel st v (w :: ws) = (some (v, w), st) := by
  cases fuel with
  | zero => rw [visitList.eq_2]; simp [h]
  | succ f => rw [visitList.eq_3]; simp [h]

theorem visitList_cons_skip (g : Graph) (fuel : Nat) {st : List Status} (v : Nat) {w : Nat} (ws : List Nat)
    (h1 : st[w]? ≠ some .active) (h2 : st[w]? ≠ some .new) :
    visitList g fuel st v (w :: ws) = visitList g fuel st v ws := by
  cases fuel with
  | zero => rw [visitList.eq_2]; split <;> simp_all
  | succ f => rw [visitList.eq_3]; split <;> simp_all

theorem visitList_cons_new_some (g : Graph) (f : Nat) {st : List Status} (v : Nat) {w : Nat} (ws : List Nat)
    (h : st[w]? = some .new) {e : Nat × Nat} {st2 : List Status}
    (heq : visitList g f (setStatus st w .active) w (g.succ w) = (some e, st2)) :
    visitList g (f + 1) st v (w :: ws) = (some e, st2) := by
  rw [visitList.eq_3]; simp [h, heq]

theorem visitList_cons_new_none (g : Graph) (f : Nat) {st : List Status} (v : Nat) {w : Nat} (ws : List Nat)
    (h : st[w]? = some .new) {st2 : List Status}
    (heq : visitList g f (setStatus st w .active) w (g.succ w) = (none, st2)) :
    visitList g (f + 1) st v (w :: ws) = visitList g (f + 1) st2 v ws := by
  rw [visitList.eq_3]; simp [h, heq]

theorem visitList_cons_new_zero (g : Graph) {st : List Status} (v : Nat) {w : Nat} (ws : List Nat)
    (h : st[w]? = some .new) : visitList g 0 st v (w :: ws) = (none, st) := by
  rw [visitList.eq_2]; simp [h]

/-! ### Fuel -/

theorem visitList_countNew_le (g : Graph) (fuel : Nat) (st : List Status) (v : Nat) (ws : List Nat) :
    countNew (visitList g fuel st v ws).2 ≤ countNew st := by
  fun_induction visitList g fuel st v ws with
  | case1 fuel st v => exact countNew_set_notnew_le _ _ (by decide)
  | case2 fuel st v w ws h => exact Nat.le_refl _
  | case3 st v w ws h => exact Nat.le_refl _
  | case4 st v w ws h fuel' st1 e st2 heq ih =>
    rw [heq] at ih
    have := countNew_set_notnew_le st w (s := .active) (by decide)
    exact Nat.le_trans ih this
  | case5 st v w ws h fuel' st1 st2 heq ih1 ih2 =>
    rw [heq] at ih1
    have := countNew_set_notnew_le st w (s := .active) (by decide)
    exact Nat.le_trans ih2 (Nat.le_trans ih1 this)
  | case6 fuel st v w ws h1 h2 ih => exact ih

theorem visitList_fuel_irrel (g : Graph) (f1 f2 : Nat) (st : List Status) (v : Nat) (ws : List Nat)
    (h1 : countNew st ≤ f1) (h2 : countNew st ≤ f2) :
    visitList g f1 st v ws = visitList g f2 st v ws := by
  fun_induction visitList g f1 st v ws generalizing f2 with
  | case1 fuel st v => simp [visitList_nil]
  | case2 fuel st v w ws h => rw [visitList_cons_active _ _ _ _ h]
  | case3 st v w ws h =>
    have := countNew_pos_of_new h
    omega
  | case4 st v w ws h fuel' st1 e st2 heq ih =>
    have hc := countNew_set_new (s := .active) h (by decide)
    cases f2 with
    | zero => have := countNew_pos_of_new h; omega
    | succ f2' =>
      have := ih f2' (by simp only [st1]; omega) (by simp only [st1]; omega)
      rw [heq] at this
      rw [visitList_cons_new_some _ _ _ _ h this.symm]
  | case5 st v w ws h fuel' st1 st2 heq ih1 ih2 =>
    have hc := countNew_set_new (s := .active) h (by decide)
    cases f2 with
    | zero => have := countNew_pos_of_new h; omega
    | succ f2' =>
      have e1 := ih1 f2' (by simp only [st1]; omega) (by simp only [st1]; omega)
      have hle : countNew st2 ≤ countNew st1 := by
        have := visitList_countNew_le g fuel' st1 w (g.succ w)
        rw [heq] at this; exact this
      rw [heq] at e1
      rw [visitList_cons_new_none _ _ _ _ h e1.symm]
      exact ih2 (f2' + 1) (by simp only [st1] at hle; omega) (by simp only [st1] at hle; omega)
  | case6 fuel st v w ws hna hnn ih =>
    rw [visitList_cons_skip _ _ _ _ hna hnn]
    exact ih f2 h1 h2

end AL.Needs
