import AL.Lemmas.C12PBase
/-
  C12Parse, level 4, first half: the `on:` section keeps the key. The table has two rows under `on:`, both below
  `workflow_call`: the `default:` of an input and the `value:` of an output; every other value scalar of the section is
  checked without a key.
-/
namespace AL.C12P
open AL.PW AL.Yaml AL.Ast AL.C03P AL.C03R AL.C12R

/-! ### an input of `workflow_call` -/

def callInputAttrKeyOf (k : String) : String :=
  match k with
  | "default" => "on.workflow_call.inputs.<inputs_id>.default"
  | _ => ""

theorem callInputAttrKeyed_eq (k : String) (y : Node) :
    callInputAttrKeyed k y = under (callInputAttrKeyOf k) (callInputAttrScalars k y) := by
  simp only [callInputAttrKeyed]
  split
  · simp only [callInputAttrKeyOf, callInputAttrScalars]
    split <;> simp
  · simp [callInputAttrKeyOf]

/-- the field ↔ key table of an input of `workflow_call` -/
theorem callInputAttrK_keyed (k : String) (st : CallInput × Bool) :
    ∀ s ∈ callInputAttrK k st, (s, callInputAttrKeyOf k) ∈ callInputKStrs st.1 := by
  intro s hs
  simp only [callInputAttrK] at hs
  simp only [callInputKStrs, List.mem_append]
  split at hs <;> simp_all [callInputAttrKeyOf, mem_tag]

theorem callInput_leafK (cfg : Cfg) (kv : KV) (v : Node) (key : String) (hv : (v, key) ∈ mapKeyed kv.val "" callInputAttrKeyed)
    (h : (callInput cfg kv).2 = []) : RepK v key (callInputKStrs (callInput cfg kv).1) := by
  simp only [callInput, append_nil_iff] at h ⊢
  have hv' : (v, key) ∈ mapKeyed kv.val "" (fun k y => under (callInputAttrKeyOf k) (callInputAttrScalars k y)) := by
    have : callInputAttrKeyed = fun k y => under (callInputAttrKeyOf k) (callInputAttrScalars k y) := by
      funext k y; exact callInputAttrKeyed_eq k y
    rw [← this]; exact hv
  obtain ⟨k, hkey, hk⟩ := sect_tag cfg _ kv.val true callInputAttr _ "" callInputAttrKeyOf callInputAttrScalars v key hv'
    callInputAttrK h.1.1 h.1.2 (fun kv st hvk hc => callInputAttr_store st kv v hvk hc) callInputAttrK_pres
  obtain ⟨s, hs, e⟩ := hk
  subst hkey
  exact ⟨s, callInputAttrK_keyed k _ s hs, e⟩

/-! ### an output of `workflow_call` -/

/-- the strings of an output of `workflow_call` with their keys: the description (checked with the event, no key) and the
value (checked after the jobs, under its own row) -/
def callOutputKStrs (c : CallOutput) : List (Str × String) :=
  tag "" c.description.toList ++ tag "on.workflow_call.outputs.<output_id>.value" c.value.toList

def callOutputAttrKeyOf (k : String) : String :=
  match k with
  | "value" => "on.workflow_call.outputs.<output_id>.value"
  | _ => ""

theorem callOutputAttrKeyed_eq (k : String) (z : Node) : callOutputAttrKeyed k z = under (callOutputAttrKeyOf k) (leaves z) := by
  simp only [callOutputAttrKeyed]
  split <;> simp [callOutputAttrKeyOf]

theorem callOutputAttrK_keyed (k : String) (st : CallOutput) :
    ∀ s ∈ callOutputAttrK k st, (s, callOutputAttrKeyOf k) ∈ callOutputKStrs st := by
  intro s hs
  simp only [callOutputAttrK] at hs
  simp only [callOutputKStrs, List.mem_append]
  split at hs <;> simp_all [callOutputAttrKeyOf, mem_tag]

theorem callOutput_leafK (cfg : Cfg) (kv : KV) (v : Node) (key : String) (hv : (v, key) ∈ mapKeyed kv.val "" callOutputAttrKeyed)
    (h : (callOutput cfg kv).2 = []) : RepK v key (callOutputKStrs (callOutput cfg kv).1) := by
  simp only [callOutput, append_nil_iff] at h ⊢
  have hv' : (v, key) ∈ mapKeyed kv.val "" (fun k y => under (callOutputAttrKeyOf k) ((fun _ z => leaves z) k y)) := by
    have : callOutputAttrKeyed = fun k y => under (callOutputAttrKeyOf k) (leaves y) := by
      funext k y; exact callOutputAttrKeyed_eq k y
    rw [← this]; exact hv
  obtain ⟨k, hkey, hk⟩ := sect_tag cfg _ kv.val true callOutputAttr _ "" callOutputAttrKeyOf (fun _ z => leaves z) v key hv'
    callOutputAttrK h.1.1 h.1.2
    (by
      intro kv st hvk
      simp only [callOutputAttr]
      split
      next h => intro hc; simp only [h, callOutputAttrK]; exact (parseString_leaf _ _ v hvk hc).mono (by simp)
      next h => intro hc; simp only [h, callOutputAttrK]; exact (parseString_leaf _ _ v hvk hc).mono (by simp)
      next => intro hc; simp at hc)
    callOutputAttrK_pres
  obtain ⟨s, hs, e⟩ := hk
  subst hkey
  exact ⟨s, callOutputAttrK_keyed k _ s hs, e⟩

/-! ### `workflow_call:` -/

/-- the keyed strings the loop of `parseWorkflowCallEvent` holds under the key `k` -/
def callEventKK (k : String) (st : CallEventSt) : List (Str × String) :=
  match k with
  | "inputs" => (st.inputs.getD []).flatMap callInputKStrs
  | "outputs" => (st.outputs.getD []).flatMap fun kv => callOutputKStrs kv.2
  | _ => tag "" (callEventK k st)

theorem callEventKK_plain (k : String) (st : CallEventSt) (h1 : k ≠ "inputs") (h2 : k ≠ "outputs") :
    callEventKK k st = tag "" (callEventK k st) := by
  simp only [callEventKK]

theorem callKeyKeyed_plain (k : String) (y : Node) (h1 : k ≠ "inputs") (h2 : k ≠ "outputs") :
    callKeyKeyed k y = under "" (callKeyScalars k y) := by
  simp only [callKeyKeyed]

theorem callEventKey_inputs (cfg : Cfg) (st : CallEventSt) (kv : KV) (hne : kv.id ≠ "inputs") :
    (callEventKey cfg st kv).1.inputs = st.inputs := by
  simp only [callEventKey]
  split <;> first | rfl | exact absurd ‹kv.id = _› hne

theorem callEventKey_outputs (cfg : Cfg) (st : CallEventSt) (kv : KV) (hne : kv.id ≠ "outputs") :
    (callEventKey cfg st kv).1.outputs = st.outputs := by
  simp only [callEventKey]
  split <;> first | rfl | exact absurd ‹kv.id = _› hne

theorem callEventKK_pres (cfg : Cfg) (k : String) (st : CallEventSt) (kv : KV) (hne : kv.id ≠ k) :
    ∀ p ∈ callEventKK k st, p ∈ callEventKK k (callEventKey cfg st kv).1 := by
  intro p hp
  by_cases h1 : k = "inputs"
  · subst h1; simp only [callEventKK] at hp ⊢; rw [callEventKey_inputs cfg st kv hne]; exact hp
  by_cases h2 : k = "outputs"
  · subst h2; simp only [callEventKK] at hp ⊢; rw [callEventKey_outputs cfg st kv hne]; exact hp
  rw [callEventKK_plain k _ h1 h2] at hp ⊢
  exact tag_mono (callEventK_pres cfg k st kv hne) p hp

theorem callEventKeyKK_store (cfg : Cfg) (st : CallEventSt) (kv : KV) (v : Node) (key : String)
    (hv : (v, key) ∈ callKeyKeyed kv.id kv.val) (hc : (callEventKey cfg st kv).2 = []) :
    RepK v key (callEventKK kv.id (callEventKey cfg st kv).1) := by
  by_cases h1 : kv.id = "inputs"
  · simp only [h1, callKeyKeyed] at hv
    simp only [callEventKey, parseSectionMapping, h1, append_nil_iff] at hc ⊢
    simp only [callEventKK, Option.getD_some]
    obtain ⟨kv', hkv', k', _, hvk'⟩ := mapKeyed_clean cfg _ kv.val true false _ _ v key hv hc.1
    obtain ⟨h1, h2⟩ := callInputs_clean cfg _ hc.2 kv' hkv'
    exact RepK.flatMap h2 (callInput_leafK cfg kv' v key hvk' h1)
  by_cases h2 : kv.id = "outputs"
  · simp only [h2, callKeyKeyed] at hv
    simp only [callEventKey, parseSectionMapping, h2, append_nil_iff] at hc ⊢
    simp only [callEventKK, Option.getD_some]
    obtain ⟨kv', hkv', k', _, hvk'⟩ := mapKeyed_clean cfg _ kv.val true false _ _ v key hv hc.1
    obtain ⟨h1, h2⟩ := mapKVs_clean _ _ hc.2 kv' hkv'
    exact RepK.flatMap h2 (callOutput_leafK cfg kv' v key hvk' h1)
  rw [callKeyKeyed_plain _ _ h1 h2] at hv
  rw [callEventKK_plain _ _ h1 h2]
  exact RepK.of_under hv (fun hvk => callEventKey_store cfg st kv v hvk hc)

def valueKey : String := "on.workflow_call.outputs.<output_id>.value"

/-- the strings of an event with their keys, the `value:`s of the outputs of `workflow_call` included -/
def eventAllKStrs (e : Event) : List (Str × String) :=
  eventKStrs e ++ (match e with
    | .call _ _ outs _ => tag valueKey ((outs.getD []).flatMap fun kv => kv.2.value.toList)
    | _ => [])

theorem callEventKK_final (k : String) (st : CallEventSt) (pos : Yaml.Pos) :
    ∀ p ∈ callEventKK k st, p ∈ eventAllKStrs (.call st.inputs st.secrets st.outputs pos) := by
  intro p hp
  simp only [eventAllKStrs, eventKStrs, List.mem_append]
  by_cases h1 : k = "inputs"
  · subst h1; simp only [callEventKK] at hp
    exact Or.inl (Or.inl (Or.inl hp))
  by_cases h2 : k = "outputs"
  · subst h2; simp only [callEventKK, List.mem_flatMap, callOutputKStrs, List.mem_append] at hp
    obtain ⟨kv, hkv, hp | hp⟩ := hp
    · obtain ⟨s, k'⟩ := p
      obtain ⟨hs, rfl⟩ := mem_tag.1 hp
      exact Or.inl (Or.inr (mem_tag.2 ⟨List.mem_flatMap.2 ⟨kv, hkv, hs⟩, rfl⟩))
    · obtain ⟨s, k'⟩ := p
      obtain ⟨hs, rfl⟩ := mem_tag.1 hp
      exact Or.inr (mem_tag.2 ⟨List.mem_flatMap.2 ⟨kv, hkv, hs⟩, rfl⟩)
  rw [callEventKK_plain k _ h1 h2] at hp
  obtain ⟨s, k'⟩ := p
  obtain ⟨hs, rfl⟩ := mem_tag.1 hp
  simp only [callEventK] at hs
  split at hs
  · exact absurd rfl h1
  · refine Or.inl (Or.inl (Or.inr (mem_tag.2 ⟨?_, rfl⟩)))
    simpa [callSecretStrs] using hs
  · exact absurd rfl h2
  · cases hs

theorem parseWorkflowCallEvent_leafK (cfg : Cfg) (pos : Yaml.Pos) (n : Node) (v : Node) (key : String)
    (hv : (v, key) ∈ callKeyed n) (h : (parseWorkflowCallEvent cfg pos n).2 = []) :
    RepK v key (eventAllKStrs (parseWorkflowCallEvent cfg pos n).1) := by
  simp only [parseWorkflowCallEvent, parseSectionMapping, append_nil_iff] at h ⊢
  obtain ⟨k, hk⟩ := sect_KK cfg _ n true true (callEventKey cfg) _ "" callKeyKeyed v key hv callEventKK h.1 h.2
    (by
      intro kv k st hid hvk hc
      have := hid rfl
      subst this
      exact callEventKeyKK_store cfg st kv v key hvk hc)
    (callEventKK_pres cfg)
  exact hk.mono (callEventKK_final k _ pos)

/-! ### `on:` -/

/-- the keyed strings of the events, with the output values of the (first) `workflow_call` event under their row -/
def onKStrs (es : List Event) : List (Str × String) :=
  es.flatMap eventKStrs ++ tag valueKey (outVals (AL.RuleExpr.findCallOutputs es))

theorem onKStrs_mono (es l : List Event) : ∀ p ∈ onKStrs es, p ∈ onKStrs (es ++ l) := by
  intro p hp
  simp only [onKStrs, List.mem_append, List.flatMap_append] at hp ⊢
  rcases hp with hp | hp
  · exact Or.inl (Or.inl hp)
  · cases hf : AL.RuleExpr.findCallOutputs es with
    | none => simp [hf, outVals, tag] at hp
    | some o =>
      rw [findCallOutputs_append_some o es l hf]
      rw [hf] at hp
      exact Or.inr hp

theorem onKStrs_snoc (es : List Event) (e : Event) (hn : AL.RuleExpr.findCallOutputs es = none) :
    ∀ p ∈ eventAllKStrs e, p ∈ onKStrs (es ++ [e]) := by
  intro p hp
  simp only [onKStrs, List.mem_append, List.flatMap_append, List.flatMap_cons, List.flatMap_nil, List.append_nil]
  simp only [eventAllKStrs, List.mem_append] at hp
  rcases hp with hp | hp
  · exact Or.inl (Or.inr hp)
  · rw [findCallOutputs_append_none es [e] hn]
    cases e <;> first | cases hp | exact Or.inr hp

theorem onKStrs_snoc' (es : List Event) (e : Event) : ∀ p ∈ eventKStrs e, p ∈ onKStrs (es ++ [e]) := by
  intro p hp
  simp only [onKStrs, List.mem_append, List.flatMap_append, List.flatMap_cons, List.flatMap_nil, List.append_nil]
  exact Or.inl (Or.inr hp)

theorem onKStrs_snoc_plain (es : List Event) (e : Event) (hk : eventKStrs e = tag "" (eventStrs e)) :
    ∀ p ∈ tag "" (eventStrs e), p ∈ onKStrs (es ++ [e]) := by
  rw [← hk]; exact onKStrs_snoc' es e

theorem eventKeyed_plain (k : String) (x : Node) (h : k ≠ "workflow_call") : eventKeyed k x = under "" (eventScalars k x) := by
  simp only [eventKeyed]

theorem eventOfKey_storeK (cfg : Cfg) (st : List Event) (kv : KV) (v : Node) (key : String)
    (hv : (v, key) ∈ eventKeyed kv.id kv.val)
    (hI : kv.id = "workflow_call" → AL.RuleExpr.findCallOutputs st = none)
    (hc : (eventOfKey cfg st kv).2 = []) : RepK v key (onKStrs (eventOfKey cfg st kv).1) := by
  by_cases hcall : kv.id = "workflow_call"
  · simp only [hcall, eventKeyed] at hv
    simp only [eventOfKey, hcall] at hc ⊢
    exact (parseWorkflowCallEvent_leafK cfg _ _ v key hv hc).mono (onKStrs_snoc st _ (hI hcall))
  rw [eventKeyed_plain _ _ hcall] at hv
  obtain ⟨hvl, rfl⟩ := mem_under.1 hv
  revert hc
  simp only [eventOfKey]
  split
  next h =>
    intro hc
    simp only [h, eventScalars] at hvl
    obtain ⟨e, he, hrep⟩ := parseScheduleEvent_leaf cfg _ _ v hvl hc
    simp only [he]
    have hk : eventKStrs e = tag "" (eventStrs e) := by
      simp only [parseScheduleEvent] at he
      split at he
      · cases he
      · cases he; rfl
    exact (RepK.of_rep hrep "").mono (onKStrs_snoc_plain st e hk)
  next h =>
    intro hc
    simp only [h, eventScalars] at hvl
    exact (RepK.of_rep (parseWorkflowDispatchEvent_leaf cfg _ _ v hvl hc) "").mono (onKStrs_snoc_plain st _ rfl)
  next h =>
    intro hc
    simp only [h, eventScalars] at hvl
    exact (RepK.of_rep (parseRepositoryDispatchEvent_leaf cfg _ _ v hvl hc) "").mono (onKStrs_snoc_plain st _ rfl)
  next h => exact absurd h hcall
  next h1 h2 h3 h4 =>
    intro hc
    have : eventScalars kv.id kv.val = plainEventScalars kv.val := by
      simp only [eventScalars]
    rw [this] at hvl
    exact (RepK.of_rep (parseWebhookEvent_leaf cfg _ _ v hvl hc) "").mono (onKStrs_snoc_plain st _ rfl)

theorem eventOfKey_monoK (cfg : Cfg) (st : List Event) (kv : KV) : ∀ p ∈ onKStrs st, p ∈ onKStrs (eventOfKey cfg st kv).1 := by
  intro p hp
  simp only [eventOfKey]
  split
  · split
    · exact onKStrs_mono _ _ p hp
    · exact hp
  all_goals exact onKStrs_mono _ _ p hp

/-- **`on:`** — every value scalar of the section is a string of one of the events, listed under the scalar's key -/
theorem parseEvents_leafK (cfg : Cfg) (pos : Yaml.Pos) (n : Node) (v : Node) (key : String) (hv : (v, key) ∈ onKeyed n)
    (h : (parseEvents cfg pos n).2 = []) : RepK v key (onKStrs ((parseEvents cfg pos n).1.getD [])) := by
  simp only [onKeyed] at hv
  split at hv
  · rename_i hk
    simp only [parseEvents, parseSectionMapping, hk] at h ⊢
    simp only [append_nil_iff] at h
    simp only [Option.getD_some]
    obtain ⟨k, hq⟩ := sect_keyedK cfg _ n false true (eventOfKey cfg) [] "" eventKeyed v key hv
      (fun k st => k = "workflow_call" → AL.RuleExpr.findCallOutputs st = none) (fun _ st => RepK v key (onKStrs st))
      (fun _ _ => rfl) h.1 h.2
      (by
        intro kv k hid hvk
        have := hid rfl
        subst this
        refine ⟨?_, fun st hI hc => eventOfKey_storeK cfg st kv v key hvk hI hc,
          fun st kv' _ hq _ => hq.mono (eventOfKey_monoK cfg st kv')⟩
        intro st kv' hne hI hl
        exact eventOfKey_notcall cfg st kv' (by rw [← hl]; exact hne) (hI hl))
    exact hq
  · obtain ⟨hvl, rfl⟩ := mem_under.1 hv
    exfalso
    rename_i hk
    simp only [onScalars] at hvl
    simp only [parseEvents] at h
    split at h
    · rename_i hk'
      simp [hk'] at hvl
    · rename_i hk'
      exact hk hk'
    · rename_i hk'
      simp only [hk', List.mem_flatMap] at hvl
      obtain ⟨c, hc, hvc⟩ := hvl
      simp only [append_nil_iff] at h
      have := eventsOfSeq_clean _ h.2 c hc
      simp [this] at hvc
    · rename_i k h1 h2 h3
      cases hk' : n.kind <;> simp_all

end AL.C12P
