import AL.Lemmas.NeedsDfs
/-
  `detectFirstCycle`: the top-level loop over the roots.
-/
namespace AL.Needs
open AL.Spec

theorem Dfs.frame_new {g : Graph} {st st' : List Status} {v : Nat} {ws : List Nat} {r : Option (Nat × Nat)}
    (h : Dfs g st v ws r st') : ∀ u : Nat, st'[u]? = some Status.new → st[u]? = some Status.new := by
  induction h with
  | nil st v =>
    intro u hu
    simp only [setStatus, List.getElem?_set] at hu
    split at hu
    · split at hu <;> simp at hu
    · exact hu
  | back st v w ws h => exact fun _ h => h
  | descendSome st v w ws e st2 hw _ ih =>
    intro u hu
    have := ih u hu
    simp only [setStatus, List.getElem?_set] at this
    split at this
    · split at this <;> simp at this
    · exact this
  | descendNone st v w ws st2 r st3 hw _ _ ih1 ih2 =>
    intro u hu
    have := ih1 u (ih2 u hu)
    simp only [setStatus, List.getElem?_set] at this
    split at this
    · split at this <;> simp at this
    · exact this
  | skip st v w ws r st' _ _ _ ih => exact ih

/-- Invariant of the root loop: no node is active, finished nodes are closed and cycle-free. -/
structure TopInv (g : Graph) (st : List Status) : Prop where
  len : st.length = g.length
  noact : ∀ u : Nat, st[u]? ≠ some Status.active
  closed : Closed g st
  nocyc : NoCyc g st

theorem init_getElem? (g : Graph) (u : Nat) (s : Status) (h : (g.map fun _ => Status.new)[u]? = some s) :
    s = Status.new := by
  rw [List.getElem?_map] at h
  cases hg : g[u]? <;> simp [hg] at h
  exact h.symm

theorem topInv_init (g : Graph) : TopInv g (g.map fun _ => Status.new) := by
  refine ⟨by simp, ?_, ?_, ?_⟩
  · intro u hu; cases init_getElem? g u _ hu
  · intro u hu; cases init_getElem? g u _ hu
  · intro u hu; cases init_getElem? g u _ hu

/-- One root, `none` result. -/
theorem detectCyclicNode_none {g : Graph} (hwf : WF g) {st st' : List Status} {v : Nat} (hi : TopInv g st)
    (hv : st[v]? = some Status.new) (h : detectCyclicNode g g.length st v = (none, st')) :
    TopInv g st' ∧ (∀ u : Nat, st'[u]? = some Status.new → st[u]? = some Status.new) ∧
      st'[v]? = some Status.finished := by
  have hvlt : v < st.length := by
    rcases Nat.lt_or_ge v st.length with h | h
    · exact h
    · simp [List.getElem?_eq_none h] at hv
  unfold detectCyclicNode at h
  have hfuel : countNew (setStatus st v Status.active) ≤ g.length := by
    have := countNew_le_length (setStatus st v Status.active)
    rw [length_setStatus, hi.len] at this; exact this
  have d := visitList_dfs g g.length _ v (g.succ v) hfuel
  rw [h] at d
  simp only at d
  have hfs := finished_setStatus_active hv
  have hv1 := getElem?_setStatus_self (s := Status.active) hvlt
  have hlen1 : (setStatus st v Status.active).length = g.length := by rw [length_setStatus]; exact hi.len
  have hc1 : Closed g (setStatus st v Status.active) := by
    intro u hu x hx
    rw [hfs] at hu ⊢
    exact hi.closed u hu x hx
  have hn1 : NoCyc g (setStatus st v Status.active) := by
    intro u hu x hx
    rw [hfs] at hu
    exact hi.nocyc u hu x hx
  have c := d.none_closed hwf rfl hlen1 hv1 hc1 hn1 ⟨[], rfl, by simp⟩
  have s := d.none_spec rfl hv1
  have f := d.frame
  refine ⟨⟨by rw [f.1]; exact hlen1, ?_, c.1, c.2⟩, ?_, s.1⟩
  · intro u
    by_cases huv : u = v
    · subst huv; simp [s.1]
    · intro hact
      rw [s.2 u huv, getElem?_setStatus_ne huv] at hact
      exact hi.noact u hact
  · intro u hu
    have := d.frame_new u hu
    by_cases huv : u = v
    · subst huv; exact hv
    · rwa [getElem?_setStatus_ne huv] at this

/-- What is known about the state in which a back edge `(a, b)` has been found. -/
structure Found (g : Graph) (st : List Status) (a b : Nat) : Prop where
  len : st.length = g.length
  ex : ∃ stack', StackInv g st (a :: stack') ∧ b ∈ a :: stack' ∧ Link g st a b

/-- One root, `some` result. -/
theorem detectCyclicNode_some {g : Graph} (hwf : WF g) {st st' : List Status} {v a b : Nat} (hi : TopInv g st)
    (hv : st[v]? = some Status.new) (h : detectCyclicNode g g.length st v = (some (a, b), st')) :
    Found g st' a b := by
  have hvlt : v < st.length := by
    rcases Nat.lt_or_ge v st.length with h | h
    · exact h
    · simp [List.getElem?_eq_none h] at hv
  unfold detectCyclicNode at h
  have hfuel : countNew (setStatus st v Status.active) ≤ g.length := by
    have := countNew_le_length (setStatus st v Status.active)
    rw [length_setStatus, hi.len] at this; exact this
  have d := visitList_dfs g g.length _ v (g.succ v) hfuel
  rw [h] at d
  simp only at d
  have hv1 := getElem?_setStatus_self (s := Status.active) hvlt
  have hlen1 : (setStatus st v Status.active).length = g.length := by rw [length_setStatus]; exact hi.len
  have hs : StackInv g (setStatus st v Status.active) [v] := by
    refine ⟨by simp, ?_, by simp⟩
    intro u
    by_cases huv : u = v
    · subst huv; simp [hv1]
    · rw [getElem?_setStatus_ne huv]; simp [huv, hi.noact u]
  refine ⟨by rw [d.frame.1]; exact hlen1, ?_⟩
  exact d.some_spec hwf a b [] rfl hlen1 hs ⟨[], rfl, by simp⟩

theorem detectFirstCycle_none {g : Graph} (hwf : WF g) (order : List Nat) {st st' : List Status}
    (hi : TopInv g st) (h : detectFirstCycle g order st = (none, st')) :
    TopInv g st' ∧ (∀ u : Nat, st'[u]? = some Status.new → st[u]? = some Status.new) ∧
      ∀ v ∈ order, st'[v]? ≠ some Status.new := by
  induction order generalizing st with
  | nil =>
    simp only [detectFirstCycle, Prod.mk.injEq, true_and] at h
    subst h
    exact ⟨hi, fun _ h => h, by simp⟩
  | cons v rest ih =>
    simp only [detectFirstCycle] at h
    split at h
    next hv =>
      split at h
      next e st1 heq => cases h
      next st1 heq =>
        obtain ⟨i1, n1, f1⟩ := detectCyclicNode_none hwf hi hv heq
        obtain ⟨i2, n2, o2⟩ := ih i1 h
        refine ⟨i2, fun u hu => n1 u (n2 u hu), ?_⟩
        intro x hx
        simp only [List.mem_cons] at hx
        rcases hx with rfl | hx
        · intro hnew
          have := n2 x hnew
          simp [f1] at this
        · exact o2 x hx
    next hv =>
      obtain ⟨i2, n2, o2⟩ := ih hi h
      refine ⟨i2, n2, ?_⟩
      intro x hx
      simp only [List.mem_cons] at hx
      rcases hx with rfl | hx
      · intro hnew
        exact hv (n2 x hnew)
      · exact o2 x hx

theorem detectFirstCycle_some {g : Graph} (hwf : WF g) (order : List Nat) {st st' : List Status} {a b : Nat}
    (hi : TopInv g st) (h : detectFirstCycle g order st = (some (a, b), st')) : Found g st' a b := by
  induction order generalizing st with
  | nil => simp [detectFirstCycle] at h
  | cons v rest ih =>
    simp only [detectFirstCycle] at h
    split at h
    next hv =>
      split at h
      next e st1 heq =>
        cases h
        exact detectCyclicNode_some hwf hi hv heq
      next st1 heq =>
        exact ih (detectCyclicNode_none hwf hi hv heq).1 h
    next hv => exact ih hi h

/-! ### Walks and reachability -/

theorem _root_.AL.Spec.Walk.reach_last {g : Graph} {l : List Nat} (h : Walk g l) :
    ∀ x ∈ l.head?, ∀ y ∈ l.getLast?, Reach g x y := by
  induction h with
  | single v hv =>
    intro x hx y hy
    simp at hx hy
    subst hx hy
    exact .refl _
  | cons v w rest hv he hw ih =>
    intro x hx y hy
    simp at hx
    subst hx
    refine .step _ w _ he (ih w (by simp) y ?_)
    simpa [List.getLast?_cons_cons] using hy

theorem _root_.AL.Spec.Walk.head_lt {g : Graph} {l : List Nat} (h : Walk g l) : ∀ x ∈ l.head?, x < g.length := by
  cases h <;> simp_all

theorem not_cyclic_of_all_finished {g : Graph} {st : List Status}
    (hall : ∀ v, v < g.length → st[v]? = some Status.finished) (hn : NoCyc g st) : ¬ Cyclic g := by
  rintro ⟨vs, hw, hlen, hhl⟩
  cases hw with
  | single v hv => simp at hlen
  | cons v w rest hv he hw' =>
    have hr := hw'.reach_last w (by simp) v (by
      simp only [List.head?_cons, List.getLast?_cons_cons] at hhl
      exact hhl ▸ rfl)
    exact hn v (hall v hv) w he hr

/-- A cyclic graph makes the root loop return a back edge, for every order that covers all nodes. -/
theorem detectFirstCycle_of_cyclic {g : Graph} (hwf : WF g) {order : List Nat}
    (hcov : ∀ v, v < g.length → v ∈ order) (hcyc : Cyclic g) :
    ∃ a b st, detectFirstCycle g order (g.map fun _ => Status.new) = (some (a, b), st) := by
  rcases hres : detectFirstCycle g order (g.map fun _ => Status.new) with ⟨r, st⟩
  cases r with
  | some e => exact ⟨e.1, e.2, st, rfl⟩
  | none =>
    exfalso
    obtain ⟨i, _, o⟩ := detectFirstCycle_none hwf order (topInv_init g) hres
    refine not_cyclic_of_all_finished (st := st) ?_ i.nocyc hcyc
    intro v hv
    exact finished_of_not (by rw [i.len]; exact hv) (i.noact v) (o v (hcov v hv))

end AL.Needs
