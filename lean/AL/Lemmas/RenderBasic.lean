import Std.Data.String.ToNat
import AL.Model.Render
/-
  C16 helper lemmas, part 1: digits, `natChars`, `takeDigits`.
-/
namespace AL.Render

/-! ### characters -/

theorem isDigit_iff (c : Char) : isDigit c = true ↔ 48 ≤ c.toNat ∧ c.toNat ≤ 57 := by
  simp [isDigit, Char.le_def, UInt32.le_iff_toNat_le]

theorem isDigit_eq_core (c : Char) : isDigit c = c.isDigit := by
  rw [Bool.eq_iff_iff, isDigit_iff]
  simp [Char.isDigit, UInt32.le_iff_toNat_le]

theorem dot_of_isDigit {c : Char} (h : isDigit c = true) : dot c = true := by
  rw [isDigit_iff] at h
  have h1 : c ≠ '\n' := by rintro rfl; simp at h
  have h2 : c ≠ '\r' := by rintro rfl; simp at h
  simp [dot, h1, h2]; omega

theorem isDigit_ne_colon {c : Char} (h : isDigit c = true) : c ≠ ':' := by
  rintro rfl; simp [isDigit_iff] at h

theorem isDigit_ne_space {c : Char} (h : isDigit c = true) : c ≠ ' ' := by
  rintro rfl; simp [isDigit_iff] at h

theorem isDigit_colon : isDigit ':' = false := by decide
theorem dot_colon : dot ':' = true := by decide
theorem dot_space : dot ' ' = true := by decide
theorem dot_lbracket : dot '[' = true := by decide
theorem dot_rbracket : dot ']' = true := by decide

/-! ### `natChars` -/

theorem toNat!_repr (n : Nat) : (Nat.repr n).toNat! = n := by
  have h1 := Nat.isNat_repr n
  have h2 := Nat.toNat?_repr n
  rw [← String.toNat?_toSlice] at h2
  rw [← String.isNat_toSlice] at h1
  unfold String.toNat!
  unfold String.Slice.toNat!
  unfold String.Slice.toNat? at h2
  rw [if_pos h1] at h2 ⊢
  exact Option.some.inj h2

theorem natChars_eq (n : Nat) : natChars n = Nat.toDigits 10 n := by
  show (Nat.repr n).toList = _
  exact Nat.toList_repr

/-- the decimal rendering is parsed back to the same number -/
theorem natChars_toNat (n : Nat) : (String.ofList (natChars n)).toNat! = n := by
  show (String.ofList (Nat.repr n).toList).toNat! = n
  rw [String.ofList_toList]
  exact toNat!_repr n

theorem natChars_ne_nil (n : Nat) : natChars n ≠ [] := by
  rw [natChars_eq]; exact Nat.toDigits_ne_nil

theorem natChars_isDigit (n : Nat) : ∀ c ∈ natChars n, isDigit c = true := by
  intro c hc
  rw [natChars_eq] at hc
  rw [isDigit_eq_core]
  exact Nat.isDigit_of_mem_toDigits (by omega) (by omega) hc

theorem natChars_injective {m n : Nat} (h : natChars m = natChars n) : m = n := by
  rw [← natChars_toNat m, ← natChars_toNat n, h]

/-! ### `takeDigits` -/

/-- `s` does not start with a digit -/
def NoDigitHead : List Char → Prop
  | [] => True
  | c :: _ => isDigit c = false

theorem takeDigits_fst_digits : ∀ s, ∀ c ∈ (takeDigits s).1, isDigit c = true
  | [] => by simp [takeDigits]
  | x :: s => by
    unfold takeDigits
    by_cases hx : isDigit x = true
    · have ih := takeDigits_fst_digits s
      simp only [hx, if_true]
      intro c hc
      simp only [List.mem_cons] at hc
      rcases hc with rfl | hc
      · exact hx
      · exact ih c hc
    · simp [hx]

theorem takeDigits_append_eq : ∀ s, (takeDigits s).1 ++ (takeDigits s).2 = s
  | [] => by simp [takeDigits]
  | x :: s => by
    unfold takeDigits
    by_cases hx : isDigit x = true
    · have ih := takeDigits_append_eq s
      simp [hx, ih]
    · simp [hx]

theorem takeDigits_snd_noDigitHead : ∀ s, NoDigitHead (takeDigits s).2
  | [] => by simp [takeDigits, NoDigitHead]
  | x :: s => by
    unfold takeDigits
    by_cases hx : isDigit x = true
    · have ih := takeDigits_snd_noDigitHead s
      simpa [hx] using ih
    · simp [hx, NoDigitHead]

/-- greedy `\d+` on a digit list followed by a non-digit consumes exactly the digit list -/
theorem takeDigits_digits_append : ∀ (ds t : List Char), (∀ c ∈ ds, isDigit c = true) → NoDigitHead t →
    takeDigits (ds ++ t) = (ds, t)
  | [], t, _, ht => by
    cases t with
    | nil => simp [takeDigits]
    | cons c t => simp only [NoDigitHead] at ht; simp [takeDigits, ht]
  | x :: ds, t, hds, ht => by
    have hx : isDigit x = true := hds x (by simp)
    have ih := takeDigits_digits_append ds t (fun c hc => hds c (by simp [hc])) ht
    simp [takeDigits, hx, ih]

/-- `takeDigits` of `a ++ b` when `b` does not start with a digit: the split of `a`, with `b` appended to the rest -/
theorem takeDigits_append (a b : List Char) (hb : NoDigitHead b) :
    takeDigits (a ++ b) = ((takeDigits a).1, (takeDigits a).2 ++ b) := by
  have h1 := takeDigits_append_eq a
  have h2 := takeDigits_fst_digits a
  have h3 := takeDigits_snd_noDigitHead a
  generalize (takeDigits a).1 = l at h1 h2 ⊢
  generalize (takeDigits a).2 = r at h1 h3 ⊢
  subst h1
  rw [List.append_assoc]
  apply takeDigits_digits_append _ _ h2
  cases r with
  | nil => simpa using hb
  | cons c r => simpa [NoDigitHead] using h3

theorem noDigitHead_colon (t : List Char) : NoDigitHead (':' :: t) := by
  simp [NoDigitHead, isDigit_colon]

end AL.Render
