import AL.Lemmas.SemaMonoBasic
/-
  C12: where a diagnostic with a given code can come from. `srcErrs Γ k e` collects, structurally, the
  diagnostics with code `k` of the two producers that matter for availability — the `.var` case of `check`
  and the overload resolution of a call — over the sub-expressions `check` visits; every other producer
  (`objDerefTy`, `arrDerefTy`, `indexTy`, `!`, comparison, undefined function) only uses the codes listed in
  `localCodes`. `keep k (check Γ e).errs = srcErrs Γ k e` for every code `k` outside that list.
-/
namespace AL.Sema
open AL

/-- the diagnostics with code `k`, in order -/
def keep (k : String) (l : List SemaErr) : List SemaErr := l.filter (fun x => x.code == k)

@[simp] theorem keep_nil (k : String) : keep k [] = [] := rfl
theorem keep_append (k : String) (a b : List SemaErr) : keep k (a ++ b) = keep k a ++ keep k b :=
  List.filter_append ..
theorem mem_keep {k : String} {l : List SemaErr} {x : SemaErr} : x ∈ keep k l ↔ x ∈ l ∧ x.code = k := by
  simp [keep]

theorem keep_eq_nil_of_codes {k : String} {l : List SemaErr} {codes : List String}
    (h : ∀ x ∈ l, x.code ∈ codes) (hk : k ∉ codes) : keep k l = [] := by
  apply List.filter_eq_nil_iff.2
  intro x hx hc
  have := h x hx
  rw [beq_iff_eq] at hc
  exact hk (hc ▸ this)

/-- codes used by the producers other than the `.var` case and `resolveCall` -/
def localCodes : List String :=
  ["prop-undefined", "deref-not-object", "filter-prop-undefined", "filter-not-object",
   "cfgvar-prefix", "cfgvar-chars", "cfgvar-empty", "cfgvar-undefined",
   "filter-elems-not-object", "filter-no-object-elem", "filter-bad-receiver",
   "index-not-number", "index-not-string", "index-bad-operand",
   "not-operand", "bad-compare", "undefined-function"]

/-- codes used by `resolveCall` besides those of `specialFuncErrs` -/
def callCodes : List String :=
  ["arg-count", "arg-type", "format-unused-arg", "format-surplus-holder", "broken-json"]

theorem checkConfigVar_codes (Γ : Env) (p : String) : ∀ x ∈ checkConfigVar Γ p, x.code ∈ localCodes := by
  intro x hx
  unfold checkConfigVar at hx
  repeat' split at hx
  all_goals first
    | (simp only [List.mem_singleton] at hx; subst hx; simp [err, localCodes])
    | simp only [List.not_mem_nil] at hx

theorem objDerefTy_codes (Γ : Env) (b : Bool) (p : String) (t : Ty) :
    ∀ x ∈ (objDerefTy Γ b p t).2, x.code ∈ localCodes := by
  intro x hx
  unfold objDerefTy at hx
  repeat' split at hx
  all_goals first
    | exact checkConfigVar_codes _ _ _ hx
    | (simp only [List.mem_singleton] at hx; subst hx; simp [err, localCodes])
    | simp only [List.not_mem_nil] at hx

theorem arrDerefTy_codes (t : Ty) : ∀ x ∈ (arrDerefTy t).2, x.code ∈ localCodes := by
  intro x hx
  unfold arrDerefTy at hx
  repeat' split at hx
  all_goals first
    | (simp only [List.mem_singleton] at hx; subst hx; simp [err, localCodes])
    | simp only [List.not_mem_nil] at hx

theorem indexTy_codes (Γ : Env) (lit : Option String) (i t : Ty) :
    ∀ x ∈ (indexTy Γ lit i t).2, x.code ∈ localCodes := by
  intro x hx
  unfold indexTy at hx
  repeat' split at hx
  all_goals first
    | (simp only [List.mem_singleton] at hx; subst hx; simp [err, localCodes])
    | simp only [List.not_mem_nil] at hx

/-! ### `resolveCall` -/

theorem checkSig_codes (s : Sig) (tys : List Ty) (e : SemaErr) (h : checkSig s tys = some e) :
    e.code ∈ callCodes := by
  unfold checkSig at h
  simp only at h
  by_cases hc : (s.variadic && decide (s.params.length > tys.length) ||
      !s.variadic && decide (s.params.length ≠ tys.length)) = true
  · rw [if_pos hc] at h; cases h; simp [err, callCodes]
  · rw [if_neg hc] at h
    split at h
    · cases h; simp [err, callCodes]
    · cases h

theorem formatErrs_codes (fmt : String) (n : Nat) : ∀ x ∈ formatErrs fmt n, x.code ∈ callCodes := by
  intro x hx
  simp only [formatErrs, List.mem_append, List.mem_map] at hx
  rcases hx with ⟨_, _, rfl⟩ | ⟨_, _, rfl⟩ <;> simp [err, callCodes]

theorem builtinCall_src (Γ : Env) (c : String) (s : Sig) (fl : Option String) (n : Nat) :
    ∀ x ∈ (builtinCall Γ c s fl n).2, x ∈ specialFuncErrs Γ c ∨ x.code ∈ callCodes := by
  intro x hx
  simp only [builtinCall] at hx
  repeat' split at hx
  all_goals first
    | exact Or.inl hx
    | (rcases List.mem_append.1 hx with h | h
       · exact Or.inl h
       · first
         | exact Or.inr (formatErrs_codes _ _ _ h)
         | (simp only [List.mem_singleton] at h; subst h; exact Or.inr (by simp [err, callCodes])))

theorem resolveCall_go_src (Γ : Env) (c : String) (fl : Option String) (tys : List Ty) :
    ∀ (sigs : List Sig) (errs : List SemaErr), (∀ x ∈ errs, x.code ∈ callCodes) →
      ∀ x ∈ (resolveCall.go Γ c fl tys sigs errs).2, x ∈ specialFuncErrs Γ c ∨ x.code ∈ callCodes := by
  intro sigs
  induction sigs with
  | nil => intro errs h x hx; exact Or.inr (h x hx)
  | cons s rest ih =>
    intro errs h x hx
    unfold resolveCall.go at hx
    split at hx
    · exact builtinCall_src _ _ _ _ _ _ hx
    · next e he =>
      refine ih (errs ++ [e]) ?_ x hx
      intro y hy
      rcases List.mem_append.1 hy with hy | hy
      · exact h y hy
      · rw [List.mem_singleton.1 hy]; exact checkSig_codes _ _ _ he

/-- a diagnostic of the overload resolution is one of `specialFuncErrs` or has one of `callCodes` -/
theorem resolveCall_src (Γ : Env) (c : String) (sigs : List Sig) (fl : Option String) (tys : List Ty) :
    ∀ x ∈ (resolveCall Γ c sigs fl tys).2, x ∈ specialFuncErrs Γ c ∨ x.code ∈ callCodes :=
  resolveCall_go_src Γ c fl tys sigs [] (fun _ h => nomatch h)

theorem specialFuncErrs_mem (Γ : Env) (c : String) (x : SemaErr) (h : x ∈ specialFuncErrs Γ c) :
    x = err "special-func-not-allowed" [c] ∧ Γ.specialFuncs.contains (Γ.lower c) = true ∧
      Γ.availSpecial.contains (Γ.lower c) = false := by
  unfold specialFuncErrs at h
  simp only at h
  split at h
  · cases h
  · next h1 =>
    split at h
    · cases h
    · next h2 =>
      refine ⟨List.mem_singleton.1 h, ?_, ?_⟩
      · simpa using h1
      · simpa using h2

/-! ### the structural collector -/

mutual
/-- diagnostics with code `k` of the `.var` cases and of the calls that `check` visits, in order -/
def srcErrs (Γ : Env) (k : String) : E → List SemaErr
  | .var n => keep k (check Γ (.var n)).errs
  | .objDeref r _ => srcErrs Γ k r
  | .arrDeref r => srcErrs Γ k r
  | .index r i => srcErrs Γ k i ++ srcErrs Γ k r
  | .not e => srcErrs Γ k e
  | .cmp _ l r => srcErrs Γ k l ++ srcErrs Γ k r
  | .logical _ l r => srcErrs Γ k l ++ srcErrs Γ k r
  | .call c args =>
    match lookupFuncs (Γ.lower c) Γ.funcs with
    | none => []
    | some sigs =>
      srcErrsList Γ k args ++ keep k (resolveCall Γ c sigs (args.head?.bind strLit?) (checkArgs Γ args).1).2
  | _ => []
def srcErrsList (Γ : Env) (k : String) : List E → List SemaErr
  | [] => []
  | e :: es => srcErrs Γ k e ++ srcErrsList Γ k es
end

theorem keep_errs_all (Γ : Env) (k : String) (hk : k ∉ localCodes) :
    (∀ e, keep k (check Γ e).errs = srcErrs Γ k e) ∧
    (∀ e b, keep k (narrow Γ e b).errs = srcErrs Γ k e) ∧
    (∀ es, keep k (checkArgs Γ es).2.1 = srcErrsList Γ k es) := by
  apply check.mutual_induct Γ (motive1 := fun e => keep k (check Γ e).errs = srcErrs Γ k e)
    (motive2 := fun e b => keep k (narrow Γ e b).errs = srcErrs Γ k e)
    (motive3 := fun es => keep k (checkArgs Γ es).2.1 = srcErrsList Γ k es)
  case case1 => rw [check_null]; rfl
  case case2 => rw [check_bool]; rfl
  case case3 => rw [check_num]; rfl
  case case4 => intro v; rw [check_str]; rfl
  case case5 => intro name; rw [srcErrs]
  case case6 =>
    intro recv prop r isVars t es _ ih
    rw [check_objDeref, srcErrs]
    simp only [wrap_errs, keep_append, ih, keep_eq_nil_of_codes (objDerefTy_codes _ _ _ _) hk, List.append_nil]
  case case7 =>
    intro recv r t es _ ih
    rw [check_arrDeref, srcErrs]
    simp only [wrap_errs, keep_append, ih, keep_eq_nil_of_codes (arrDerefTy_codes _) hk, List.append_nil]
  case case8 =>
    intro operand idx ri ro t es _ ihi iho
    rw [check_index, srcErrs]
    simp only [wrap_errs, keep_append, ihi, iho, keep_eq_nil_of_codes (indexTy_codes _ _ _ _) hk, List.append_nil]
  case case9 =>
    intro callee args ih
    rw [check_call, srcErrs]
    cases lookupFuncs (Γ.lower callee) Γ.funcs with
    | none =>
      simp only [wrap_errs]
      exact keep_eq_nil_of_codes (codes := localCodes)
        (fun x hx => by rw [List.mem_singleton.1 hx]; simp [err, localCodes]) hk
    | some sigs => simp only [wrap_errs, keep_append, ih]
  case case10 =>
    intro operand ih
    rw [check_not, srcErrs]
    simp only [wrap_errs, keep_append, ih]
    rw [keep_eq_nil_of_codes (codes := localCodes) _ hk, List.append_nil]
    intro x hx
    split at hx
    · cases hx
    · rw [List.mem_singleton.1 hx]; simp [err, localCodes]
  case case11 =>
    intro op l r ihl ihr
    rw [check_cmp, srcErrs]
    simp only [wrap_errs, keep_append, ihl, ihr]
    rw [keep_eq_nil_of_codes (codes := localCodes) _ hk, List.append_nil]
    intro x hx
    split at hx
    · cases hx
    · rw [List.mem_singleton.1 hx]; simp [err, localCodes]
  case case12 =>
    intro op l r ihl ihr
    rw [check_logical, srcErrs]
    have ihl' : keep k (narrow Γ l (opTruthy op)).errs = srcErrs Γ k l := by cases op <;> exact ihl
    simp only [wrap_errs, keep_append, ihl', ihr]
  case case13 => intro l r ihl ihr; rw [narrow_and_true, srcErrs]; simp only [keep_append, ihl, ihr]
  case case14 => intro l r ihl ihr; rw [narrow_or_false, srcErrs]; simp only [keep_append, ihl, ihr]
  case case15 =>
    intro op l r x h1 h2 ihl ihr
    cases op <;> cases x
    · rw [narrow_and_false, srcErrs]; simp only [keep_append, ihl, ihr]
    · exact (h1 rfl rfl).elim
    · exact (h2 rfl rfl).elim
    · rw [narrow_or_true, srcErrs]; simp only [keep_append, ihl, ihr]
  case case16 => intro operand t ih; rw [narrow_not, srcErrs]; exact ih
  case case17 => intro e x _ _ h3 h4 ih; rw [narrow_other Γ e x h3 h4]; exact ih
  case case18 => rw [checkArgs_nil]; rfl
  case case19 =>
    intro a rest iha ihr
    rw [checkArgs_cons, srcErrsList]
    simp only [keep_append, iha, ihr]

/-- the diagnostics with code `k ∉ localCodes` of `check Γ e` are exactly `srcErrs Γ k e` -/
theorem keep_errs (Γ : Env) (k : String) (hk : k ∉ localCodes) (e : E) :
    keep k (check Γ e).errs = srcErrs Γ k e := (keep_errs_all Γ k hk).1 e

theorem mem_errs_iff (Γ : Env) (e : E) (x : SemaErr) (hk : x.code ∉ localCodes) :
    x ∈ (check Γ e).errs ↔ x ∈ srcErrs Γ x.code e := by
  rw [← keep_errs Γ x.code hk e, mem_keep]
  exact ⟨fun h => ⟨h, rfl⟩, fun h => h.1⟩

/-! ### the two producers, per code -/

theorem mem_var_errs_ctx (Γ : Env) (m n : String) :
    (⟨"context-not-allowed", [n]⟩ : SemaErr) ∈ keep "context-not-allowed" (check Γ (.var m)).errs ↔
      n = m ∧ (Ty.lookup n Γ.vars).isSome = true ∧ Γ.availCtx.contains (Γ.lower n) = false := by
  rw [check_var, mem_keep]
  simp only [wrap_errs, and_true]
  cases hl : Ty.lookup m Γ.vars with
  | none =>
    simp only [List.mem_singleton, err, SemaErr.mk.injEq]
    constructor
    · intro h; exact absurd h.1 (by decide)
    · rintro ⟨rfl, h, _⟩; rw [hl] at h; cases h
  | some t =>
    simp only
    cases ha : Γ.availCtx.contains (Γ.lower m) with
    | true =>
      simp only [if_true]
      constructor
      · intro h; cases h
      · rintro ⟨rfl, _, h⟩; rw [ha] at h; cases h
    | false =>
      simp only [Bool.false_eq_true, if_false, List.mem_singleton, err, SemaErr.mk.injEq, true_and, List.cons.injEq, and_true]
      constructor
      · rintro rfl; exact ⟨rfl, by rw [hl]; rfl, ha⟩
      · rintro ⟨rfl, _, _⟩; rfl

theorem keep_var_special (Γ : Env) (m : String) :
    keep "special-func-not-allowed" (check Γ (.var m)).errs = [] := by
  apply keep_eq_nil_of_codes (codes := ["undefined-variable", "context-not-allowed"]) _ (by decide)
  intro x hx
  rw [check_var] at hx
  simp only [wrap_errs] at hx
  split at hx
  · rw [List.mem_singleton.1 hx]; simp [err]
  · split at hx
    · cases hx
    · rw [List.mem_singleton.1 hx]; simp [err]

theorem keep_resolveCall_ctx (Γ : Env) (c : String) (sigs : List Sig) (fl : Option String) (tys : List Ty) :
    keep "context-not-allowed" (resolveCall Γ c sigs fl tys).2 = [] := by
  apply keep_eq_nil_of_codes (codes := "special-func-not-allowed" :: callCodes) _ (by decide)
  intro x hx
  rcases resolveCall_src Γ c sigs fl tys x hx with h | h
  · rw [(specialFuncErrs_mem Γ c x h).1]; simp [err]
  · exact List.mem_cons_of_mem _ h

theorem mem_keep_resolveCall_special (Γ : Env) (c : String) (sigs : List Sig) (fl : Option String)
    (tys : List Ty) (x : SemaErr) (hx : x ∈ keep "special-func-not-allowed" (resolveCall Γ c sigs fl tys).2) :
    x = err "special-func-not-allowed" [c] ∧ Γ.specialFuncs.contains (Γ.lower c) = true ∧
      Γ.availSpecial.contains (Γ.lower c) = false := by
  obtain ⟨hx, hc⟩ := mem_keep.1 hx
  rcases resolveCall_src Γ c sigs fl tys x hx with h | h
  · exact specialFuncErrs_mem Γ c x h
  · rw [hc] at h; exact absurd h (by decide)

end AL.Sema
