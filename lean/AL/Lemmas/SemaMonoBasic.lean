import AL.Model.Sema
import AL.Lemmas.TyMerge
import AL.Lemmas.SemaMonoCompare
/-
  C06: unfolding lemmas for `check`/`narrow`/`checkArgs` (they are compiled by well-founded recursion, so
  `rfl`/`decide` do not unfold them), environments that differ only in `vars`, and the well-formedness
  of environments.
-/
namespace AL.Sema
open AL AL.Ty AL.Spec

def isVarsVar : E → Bool
  | .var "vars" => true
  | _ => false

@[simp] theorem wrap_ty (l : String → String) (e : E) (b : R) : (wrap l e b).ty = b.ty := rfl
@[simp] theorem wrap_errs (l : String → String) (e : E) (b : R) : (wrap l e b).errs = b.errs := rfl
@[simp] theorem wrap_evs (l : String → String) (e : E) (b : R) :
    (wrap l e b).evs = enterOf l e ++ b.evs ++ [.leave (leaveOf l e)] := rfl

section unfold
variable (Γ : Env)

theorem check_null : check Γ .null = wrap Γ.lower .null ⟨.null, [], []⟩ := by
  conv => lhs; unfold check
theorem check_bool : check Γ .bool = wrap Γ.lower .bool ⟨.bool, [], []⟩ := by
  conv => lhs; unfold check
theorem check_num : check Γ .num = wrap Γ.lower .num ⟨.number, [], []⟩ := by
  conv => lhs; unfold check
theorem check_str (v : String) : check Γ (.str v) = wrap Γ.lower (.str v) ⟨.string, [], []⟩ := by
  conv => lhs; unfold check

theorem check_var (name : String) :
    check Γ (.var name) = wrap Γ.lower (.var name)
      (match Ty.lookup name Γ.vars with
      | none => ⟨.any, [err "undefined-variable" [name]], []⟩
      | some t =>
        ⟨t, if Γ.availCtx.contains (Γ.lower name) then [] else [err "context-not-allowed" [name]], []⟩) := by
  conv => lhs; unfold check
  rfl

theorem check_objDeref (recv : E) (prop : String) :
    check Γ (.objDeref recv prop) = wrap Γ.lower (.objDeref recv prop)
      ⟨(objDerefTy Γ (isVarsVar recv) prop (check Γ recv).ty).1,
       (check Γ recv).errs ++ (objDerefTy Γ (isVarsVar recv) prop (check Γ recv).ty).2,
       (check Γ recv).evs⟩ := by
  conv => lhs; unfold check
  rfl

theorem check_arrDeref (recv : E) :
    check Γ (.arrDeref recv) = wrap Γ.lower (.arrDeref recv)
      ⟨(arrDerefTy (check Γ recv).ty).1, (check Γ recv).errs ++ (arrDerefTy (check Γ recv).ty).2,
       (check Γ recv).evs⟩ := by
  conv => lhs; unfold check

theorem check_index (operand idx : E) :
    check Γ (.index operand idx) = wrap Γ.lower (.index operand idx)
      ⟨(indexTy Γ (strLit? idx) (check Γ idx).ty (check Γ operand).ty).1,
       (check Γ idx).errs ++ (check Γ operand).errs ++
         (indexTy Γ (strLit? idx) (check Γ idx).ty (check Γ operand).ty).2,
       (check Γ idx).evs ++ (check Γ operand).evs⟩ := by
  conv => lhs; unfold check

theorem check_call (c : String) (args : List E) :
    check Γ (.call c args) = wrap Γ.lower (.call c args)
      (match lookupFuncs (Γ.lower c) Γ.funcs with
      | none => ⟨.any, [err "undefined-function" [c]], []⟩
      | some sigs =>
        ⟨(resolveCall Γ c sigs (args.head?.bind strLit?) (checkArgs Γ args).1).1,
         (checkArgs Γ args).2.1 ++ (resolveCall Γ c sigs (args.head?.bind strLit?) (checkArgs Γ args).1).2,
         (checkArgs Γ args).2.2⟩) := by
  conv => lhs; unfold check
  rfl

theorem check_not (operand : E) :
    check Γ (.not operand) = wrap Γ.lower (.not operand)
      ⟨.bool, (check Γ operand).errs ++
        (if Ty.assignable .bool (check Γ operand).ty then [] else [err "not-operand" [tyStr (check Γ operand).ty]]),
       (check Γ operand).evs⟩ := by
  conv => lhs; unfold check

theorem check_cmp (op : CmpOp) (l r : E) :
    check Γ (.cmp op l r) = wrap Γ.lower (.cmp op l r)
      ⟨.bool, (check Γ l).errs ++ (check Γ r).errs ++
        (if validCompare op (check Γ l).ty (check Γ r).ty then []
         else [err "bad-compare" [tyStr (check Γ l).ty, tyStr (check Γ r).ty, cmpStr op]]),
       (check Γ l).evs ++ (check Γ r).evs⟩ := by
  conv => lhs; unfold check

/-- the truthiness with which `&&`/`||` narrow their left operand -/
def opTruthy : LogOp → Bool
  | .and => false
  | .or => true

theorem check_logical (op : LogOp) (l r : E) :
    check Γ (.logical op l r) = wrap Γ.lower (.logical op l r)
      ⟨Ty.merge (narrow Γ l (opTruthy op)).ty (check Γ r).ty,
       (narrow Γ l (opTruthy op)).errs ++ (check Γ r).errs,
       (narrow Γ l (opTruthy op)).evs ++ (check Γ r).evs⟩ := by
  conv => lhs; unfold check
  cases op <;> rfl

theorem narrow_and_true (l r : E) :
    narrow Γ (.logical .and l r) true =
      ⟨(check Γ r).ty, (check Γ l).errs ++ (check Γ r).errs, (check Γ l).evs ++ (check Γ r).evs⟩ := by
  conv => lhs; unfold narrow

theorem narrow_or_false (l r : E) :
    narrow Γ (.logical .or l r) false =
      ⟨(check Γ r).ty, (check Γ l).errs ++ (check Γ r).errs, (check Γ l).evs ++ (check Γ r).evs⟩ := by
  conv => lhs; unfold narrow

theorem narrow_and_false (l r : E) :
    narrow Γ (.logical .and l r) false =
      ⟨Ty.merge (narrow Γ l false).ty (check Γ r).ty, (narrow Γ l false).errs ++ (check Γ r).errs,
       (narrow Γ l false).evs ++ (check Γ r).evs⟩ := by
  conv => lhs; unfold narrow

theorem narrow_or_true (l r : E) :
    narrow Γ (.logical .or l r) true =
      ⟨Ty.merge (narrow Γ l true).ty (check Γ r).ty, (narrow Γ l true).errs ++ (check Γ r).errs,
       (narrow Γ l true).evs ++ (check Γ r).evs⟩ := by
  conv => lhs; unfold narrow

theorem narrow_not (operand : E) (t : Bool) : narrow Γ (.not operand) t = narrow Γ operand (!t) := by
  conv => lhs; unfold narrow

theorem narrow_other (e : E) (x : Bool) (h1 : ∀ op l r, e = .logical op l r → False)
    (h2 : ∀ operand, e = .not operand → False) : narrow Γ e x = check Γ e := by
  cases e with
  | logical op l r => exact (h1 _ _ _ rfl).elim
  | not o => exact (h2 _ rfl).elim
  | _ => conv => lhs; unfold narrow

theorem checkArgs_nil : checkArgs Γ [] = ([], [], []) := by
  conv => lhs; unfold checkArgs

theorem checkArgs_cons (a : E) (rest : List E) :
    checkArgs Γ (a :: rest) =
      ((check Γ a).ty :: (checkArgs Γ rest).1, (check Γ a).errs ++ (checkArgs Γ rest).2.1,
       (check Γ a).evs ++ (checkArgs Γ rest).2.2) := by
  conv => lhs; unfold checkArgs

end unfold

/-! ### environments -/

/-- the same environment with other context types -/
def Env.setVars (Γ : Env) (vs : List (String × Ty)) : Env := { Γ with vars := vs }

@[simp] theorem setVars_vars (Γ : Env) (vs : List (String × Ty)) : (Γ.setVars vs).vars = vs := rfl
@[simp] theorem setVars_funcs (Γ : Env) (vs : List (String × Ty)) : (Γ.setVars vs).funcs = Γ.funcs := rfl
@[simp] theorem setVars_availCtx (Γ : Env) (vs : List (String × Ty)) : (Γ.setVars vs).availCtx = Γ.availCtx := rfl
@[simp] theorem setVars_lower (Γ : Env) (vs : List (String × Ty)) : (Γ.setVars vs).lower = Γ.lower := rfl

/-- `LooserEnv` for the deref-aware relation: the context types are `LooserD`-related, everything
else is equal. -/
structure LooserEnvD (Γ Γ' : Env) : Prop where
  vars         : LooserDProps Γ.vars Γ'.vars
  funcs        : Γ'.funcs = Γ.funcs
  specialFuncs : Γ'.specialFuncs = Γ.specialFuncs
  availCtx     : Γ'.availCtx = Γ.availCtx
  availSpecial : Γ'.availSpecial = Γ.availSpecial
  configVars   : Γ'.configVars = Γ.configVars
  lower        : Γ'.lower = Γ.lower
  fromJson     : Γ'.fromJson = Γ.fromJson

theorem LooserEnvD.eq_setVars {Γ Γ' : Env} (h : LooserEnvD Γ Γ') : Γ' = Γ.setVars Γ'.vars := by
  obtain ⟨_, h2, h3, h4, h5, h6, h7, h8⟩ := h
  cases Γ; cases Γ'
  simp only at h2 h3 h4 h5 h6 h7 h8
  simp [Env.setVars, h2, h3, h4, h5, h6, h7, h8]

theorem LooserEnv.eq_setVars {Γ Γ' : Env} (h : LooserEnv Γ Γ') : Γ' = Γ.setVars Γ'.vars := by
  obtain ⟨_, h2, h3, h4, h5, h6, h7, h8⟩ := h
  cases Γ; cases Γ'
  simp only at h2 h3 h4 h5 h6 h7 h8
  simp [Env.setVars, h2, h3, h4, h5, h6, h7, h8]

/-- every type the checker can get hold of is well formed: context types, function results and the
types of JSON literals. (True of every environment the driver builds: it sorts property lists, the
generated tables are sorted, and `typeOfJSONValue` is modelled with sorted lists.) -/
structure WfEnv (Γ : Env) : Prop where
  vars     : wfProps Γ.vars = true
  funcs    : ∀ n sigs, (n, sigs) ∈ Γ.funcs → ∀ s ∈ sigs, wf s.ret = true
  fromJson : ∀ s t, Γ.fromJson s = .ok t → wf t = true

theorem lookupFuncs_mem {k : String} {sigs : List Sig} :
    (fs : List (String × List Sig)) → lookupFuncs k fs = some sigs → (k, sigs) ∈ fs
  | [], h => by simp [lookupFuncs] at h
  | (k', v) :: rest, h => by
    simp only [lookupFuncs] at h
    split at h
    · next hk => cases h; simp [hk]
    · exact List.mem_cons_of_mem _ (lookupFuncs_mem rest h)

end AL.Sema
