import AL.Model.Lint
/-
  C15 lemmas, part 2: lexical paths.  `cleanComps` pushes proper components and pops on `..`;
  `rel` in closed form; `join base (rel base targ) = targ` for clean absolute paths; the result of
  `pathFromProjectRoot ∘ displayPath` is `rel root (absOf cwd p)`.
-/
namespace AL.Lint

/-- a proper path component: not empty, not `.`, not `..` -/
def Good (c : String) : Prop := c ≠ "" ∧ c ≠ "." ∧ c ≠ ".."

theorem cleanComps_nil (abs : Bool) (acc : List String) : cleanComps abs [] acc = acc.reverse := by
  simp [cleanComps]

theorem cleanComps_good_cons {abs : Bool} {c : String} (hc : Good c) (rest acc : List String) :
    cleanComps abs (c :: rest) acc = cleanComps abs rest (c :: acc) := by
  obtain ⟨h1, h2, h3⟩ := hc
  simp [cleanComps, h1, h2, h3]

/-- proper components are pushed -/
theorem cleanComps_good_append {abs : Bool} (l rest acc : List String) (hl : ∀ c ∈ l, Good c) :
    cleanComps abs (l ++ rest) acc = cleanComps abs rest (l.reverse ++ acc) := by
  induction l generalizing acc with
  | nil => simp
  | cons c cs ih =>
    rw [List.cons_append, cleanComps_good_cons (hl c (by simp)), ih _ (fun d hd => hl d (by simp [hd]))]
    simp

theorem cleanComps_dotdot_cons {abs : Bool} {top : String} (ht : top ≠ "..") (rest below : List String) :
    cleanComps abs (".." :: rest) (top :: below) = cleanComps abs rest below := by
  rw [cleanComps]; simp [ht]

/-- `k` times `..` pops `k` proper components -/
theorem cleanComps_dotdots {abs : Bool} (k : Nat) (rest acc : List String) (hk : k ≤ acc.length)
    (hacc : ∀ c ∈ acc, c ≠ "..") :
    cleanComps abs (List.replicate k ".." ++ rest) acc = cleanComps abs rest (acc.drop k) := by
  induction k generalizing acc with
  | zero => simp
  | succ k ih =>
    cases acc with
    | nil => simp at hk
    | cons top below =>
      rw [List.replicate_succ, List.cons_append, cleanComps_dotdot_cons (hacc top (by simp))]
      rw [ih below (by simpa using hk) (fun c hc => hacc c (by simp [hc]))]
      simp

/-- the result of cleaning an absolute path has proper components only -/
theorem cleanComps_abs_good (l acc : List String) (hacc : ∀ c ∈ acc, Good c) :
    ∀ c ∈ cleanComps true l acc, Good c := by
  fun_induction cleanComps true l acc with
  | case1 acc => simpa using hacc
  | case2 c rest acc h ih => exact ih hacc
  | case3 rest _ _ ih => exact ih hacc
  | case4 rest h => simp at h
  | case5 rest below _ ih => exact absurd rfl (hacc ".." (by simp)).2.2
  | case6 rest top below _ _ ih => exact ih (fun d hd => hacc d (by simp [hd]))
  | case7 c rest acc h1 h2 ih =>
    apply ih
    intro d hd
    rcases List.mem_cons.1 hd with rfl | hd
    · simp only [Bool.or_eq_true, decide_eq_true_eq, not_or] at h1
      exact ⟨h1.1, h1.2, h2⟩
    · exact hacc d hd

theorem commonPrefixLen_le_left (a b : List String) : commonPrefixLen a b ≤ a.length := by
  fun_induction commonPrefixLen a b <;> simp <;> omega

theorem commonPrefixLen_le_right (a b : List String) : commonPrefixLen a b ≤ b.length := by
  fun_induction commonPrefixLen a b <;> simp <;> omega

theorem commonPrefixLen_take (a b : List String) :
    a.take (commonPrefixLen a b) = b.take (commonPrefixLen a b) := by
  fun_induction commonPrefixLen a b <;> simp_all

theorem commonPrefixLen_of_prefix (a r : List String) : commonPrefixLen a (a ++ r) = a.length := by
  induction a with
  | nil => cases r <;> simp [commonPrefixLen]
  | cons x xs ih => simp [commonPrefixLen, ih]

/-- `rel` in closed form when it succeeds -/
theorem rel_eq_some (base targ : FPath) (habs : base.abs = targ.abs) (hb : ∀ c ∈ base.comps, c ≠ "..") :
    rel base targ = some
      { abs := false
        comps := List.replicate (base.comps.length - commonPrefixLen base.comps targ.comps) ".." ++
                 targ.comps.drop (commonPrefixLen base.comps targ.comps) } := by
  unfold rel
  have : (List.drop (commonPrefixLen base.comps targ.comps) base.comps).contains ".." = false := by
    rw [Bool.eq_false_iff]
    intro h
    have := List.mem_of_mem_drop (List.contains_iff_mem.1 h)
    exact hb _ this rfl
  rw [if_neg (by simp [habs])]
  simp only []
  rw [if_neg (by rw [this]; simp)]
  simp [List.map_const']

theorem rel_none_of_abs_ne (base targ : FPath) (habs : base.abs ≠ targ.abs) : rel base targ = none := by
  unfold rel; simp [habs]

/-- join base (..^(|base|-n) ++ targ.drop n) = targ -/
theorem cleanComps_rel (b t : List String) (hb : ∀ c ∈ b, Good c) (ht : ∀ c ∈ t, Good c) :
    cleanComps true (b ++ (List.replicate (b.length - commonPrefixLen b t) ".." ++ t.drop (commonPrefixLen b t))) [] = t := by
  have hn := commonPrefixLen_le_left b t
  have htk := commonPrefixLen_take b t
  generalize commonPrefixLen b t = n at *
  rw [cleanComps_good_append _ _ _ hb, List.append_nil,
    cleanComps_dotdots _ _ _ (by simp) (fun c hc => (hb c (by simpa using hc)).2.2)]
  have := cleanComps_good_append (abs := true) (t.drop n) [] (b.reverse.drop (b.length - n))
    (fun c hc => ht c (List.mem_of_mem_drop hc))
  rw [List.append_nil] at this
  rw [this, cleanComps_nil, List.reverse_append, List.reverse_reverse]
  have h2 : (List.drop (b.length - n) b.reverse).reverse = b.take n := by
    rw [List.drop_reverse, List.reverse_reverse]
    congr 1; omega
  rw [h2, htk, List.take_append_drop]

/-- clean absolute path (same as `AL.C15.CleanAbs`) -/
def CleanAbsL (p : FPath) : Prop := p.abs = true ∧ ∀ c ∈ p.comps, Good c

/-- (d) with the shape of the result -/
theorem rel_join (base targ : FPath) (hb : CleanAbsL base) (ht : CleanAbsL targ) :
    ∃ r, rel base targ = some r ∧ r.abs = false ∧ join base r = targ := by
  refine ⟨_, rel_eq_some base targ (hb.1.trans ht.1.symm) (fun c hc => (hb.2 c hc).2.2), rfl, ?_⟩
  obtain ⟨ta, tc⟩ := targ
  simp only [join, FPath.mk.injEq]
  exact ⟨hb.1.trans ht.1.symm, by rw [hb.1]; exact cleanComps_rel _ _ hb.2 ht.2⟩

theorem rel_isSome (base targ : FPath) (hb : CleanAbsL base) (ht : targ.abs = true) :
    ∃ r, rel base targ = some r :=
  ⟨_, rel_eq_some base targ (hb.1.trans ht.symm) (fun c hc => (hb.2 c hc).2.2)⟩

theorem join_cleanAbs (cwd p : FPath) (h : cwd.abs = true) : CleanAbsL (join cwd p) := by
  refine ⟨h, ?_⟩
  simp only [join, h]
  exact cleanComps_abs_good _ [] (by simp)

theorem absOf_cleanAbs (cwd p : FPath) (h : cwd.abs = true) (hp : p.abs = true → CleanAbsL p) :
    CleanAbsL (absOf cwd p) := by
  unfold absOf
  split
  next h' => exact hp h'
  next => exact join_cleanAbs cwd p h

/-- the path matched against the `paths` globs is `Rel(root, abs path of the file)`; the
`return path` fallback of `pathFromProjectRoot` is never taken -/
theorem pathFromProjectRoot_display (cwd root p : FPath) (hc : CleanAbsL cwd) (hr : CleanAbsL root)
    (hp : p.abs = true → CleanAbsL p) :
    rel root (absOf cwd p) = some (pathFromProjectRoot cwd root (displayPath cwd p)) := by
  obtain ⟨r', hr'⟩ := rel_isSome root (absOf cwd p) hr (absOf_cleanAbs cwd p hc.1 hp).1
  cases hpa : p.abs with
  | true =>
    obtain ⟨r, h1, h2, h3⟩ := rel_join cwd p hc (hp hpa)
    have habs : absOf cwd p = p := by simp [absOf, hpa]
    rw [habs] at hr' ⊢
    simp only [displayPath, h1, pathFromProjectRoot, h2, h3]
    simp [hr']
  | false =>
    have hn : rel cwd p = none := rel_none_of_abs_ne cwd p (by rw [hc.1, hpa]; simp)
    have habs : absOf cwd p = join cwd p := by simp [absOf, hpa]
    rw [habs] at hr' ⊢
    simp only [displayPath, hn, pathFromProjectRoot, hpa]
    simp [hr']

theorem knows_iff (root p : FPath) : knows root p = true ↔ ∃ rest, p.comps = root.comps ++ rest := by
  unfold knows
  rw [List.isPrefixOf_iff_prefix]
  constructor
  · rintro ⟨t, ht⟩; exact ⟨t, ht.symm⟩
  · rintro ⟨t, ht⟩; exact ⟨t, ht.symm⟩

/-- inside the project: the root-relative path has no `..` -/
theorem rel_of_knows (root a : FPath) (hr : CleanAbsL root) (ha : CleanAbsL a) (hk : knows root a = true) :
    ∃ r, rel root a = some r ∧ join root r = a ∧ ∀ c ∈ r.comps, c ≠ ".." := by
  obtain ⟨rest, hrest⟩ := (knows_iff root a).1 hk
  have h1 := rel_eq_some root a (hr.1.trans ha.1.symm) (fun c hc => (hr.2 c hc).2.2)
  obtain ⟨r, h2, _, h3⟩ := rel_join root a hr ha
  refine ⟨r, h2, h3, ?_⟩
  rw [h1] at h2
  cases h2
  simp only [hrest, commonPrefixLen_of_prefix, Nat.sub_self, List.replicate_zero, List.nil_append,
    List.drop_left]
  intro c hc
  exact (ha.2 c (by rw [hrest]; simp [hc])).2.2

end AL.Lint
