import AL.Model.Visit
/-
  Lemmas about the scope bookkeeping model (AL/Model/Visit.lean): `Ty.lookup` after `Ty.setProp`, the state and
  output of `runSteps`, the accumulator of `needsTyOf`, the shape of the `steps` object.
-/
namespace AL.Visit
open AL AL.Sema

/-! ### `Ty.lookup` / `Ty.setProp` -/

/-- holds for every list (sorted or not, with or without repeated keys) -/
theorem lookup_setProp (k : String) (v : Ty) (x : String) :
    (ps : List (String × Ty)) →
      Ty.lookup x (Ty.setProp k v ps) = if x = k then some v else Ty.lookup x ps
  | [] => by
    by_cases h : x = k
    · subst h; simp [Ty.setProp, Ty.lookup]
    · have h' : ¬ k = x := fun e => h e.symm
      simp [Ty.setProp, Ty.lookup, h, h']
  | (k', v') :: rest => by
    simp only [Ty.setProp]
    by_cases h1 : k' = k
    · subst h1
      by_cases h : x = k'
      · subst h; simp [Ty.lookup]
      · have h' : ¬ k' = x := fun e => h e.symm
        simp [Ty.lookup, h, h']
    · simp only [h1, if_false]
      by_cases h2 : k < k'
      · simp only [h2, if_true]
        by_cases h : x = k
        · subst h; simp [Ty.lookup]
        · have h' : ¬ k = x := fun e => h e.symm
          simp [Ty.lookup, h, h']
      · simp only [h2, if_false]
        by_cases h : x = k
        · subst h
          simp [Ty.lookup, h1, lookup_setProp x v x rest]
        · simp [Ty.lookup, h, lookup_setProp k v x rest]

theorem lookup_setProp_self (k : String) (v : Ty) (ps : List (String × Ty)) :
    Ty.lookup k (Ty.setProp k v ps) = some v := by
  simp [lookup_setProp]

theorem lookup_setProp_ne {k x : String} (h : x ≠ k) (v : Ty) (ps : List (String × Ty)) :
    Ty.lookup x (Ty.setProp k v ps) = Ty.lookup x ps := by
  simp [lookup_setProp, h]

/-! ### jobs -/

theorem runJob_fst (lower : String → String) (hdr : Header) (jobs : List JobM) (st : St) (j : JobM) :
    (runJob lower hdr jobs st j).1 = St.init := rfl

theorem runJobs_cons (lower : String → String) (hdr : Header) (jobs : List JobM) (st : St) (j : JobM)
    (js : List JobM) :
    runJobs lower hdr jobs st (j :: js) =
      ((runJobs lower hdr jobs (runJob lower hdr jobs st j).1 js).1,
       (runJob lower hdr jobs st j).2 ++ (runJobs lower hdr jobs (runJob lower hdr jobs st j).1 js).2) := rfl

theorem runJobs_snd_init (lower : String → String) (hdr : Header) (jobs : List JobM) :
    (js : List JobM) →
      (runJobs lower hdr jobs St.init js).2 = js.flatMap (fun j => (runJob lower hdr jobs St.init j).2)
  | [] => rfl
  | j :: js => by
    rw [runJobs_cons, runJob_fst]
    simp only [List.flatMap_cons]
    rw [runJobs_snd_init lower hdr jobs js]

/-- the step function of `calcNeedsType` -/
def needsStep (lower : String → String) (jobs : List JobM) (self : String)
    (ps : List (String × Ty)) (n : String) : List (String × Ty) :=
  let i := lower n
  if i = self then ps
  else if (Ty.lookup i ps).isSome then ps
  else match lookupJob i jobs with
    | none => ps
    | some j => Ty.setProp i (.obj [("outputs", jobOutputsTy j), ("result", .string)] none) ps

theorem needsTyOf_eq (lower : String → String) (jobs : List JobM) (self : String) (needs : List String) :
    needsTyOf lower jobs self needs = .obj (needs.foldl (needsStep lower jobs self) []) none := rfl

theorem needsStep_congr (lower : String → String) (jobs jobs' : List JobM) (self : String)
    (ps : List (String × Ty)) (n : String) (h : lookupJob (lower n) jobs = lookupJob (lower n) jobs') :
    needsStep lower jobs self ps n = needsStep lower jobs' self ps n := by
  simp only [needsStep, h]

theorem needsFold_congr (lower : String → String) (jobs jobs' : List JobM) (self : String) :
    (needs : List String) → (acc : List (String × Ty)) →
    (∀ n ∈ needs, lookupJob (lower n) jobs = lookupJob (lower n) jobs') →
      needs.foldl (needsStep lower jobs self) acc = needs.foldl (needsStep lower jobs' self) acc
  | [], _, _ => rfl
  | n :: ns, acc, h => by
    simp only [List.foldl_cons]
    rw [needsStep_congr lower jobs jobs' self acc n (h n (List.mem_cons_self ..))]
    exact needsFold_congr lower jobs jobs' self ns _ (fun m hm => h m (List.mem_cons_of_mem _ hm))

theorem needsTyOf_congr (lower : String → String) (jobs jobs' : List JobM) (self : String)
    (needs : List String) (h : ∀ n ∈ needs, lookupJob (lower n) jobs = lookupJob (lower n) jobs') :
    needsTyOf lower jobs self needs = needsTyOf lower jobs' self needs := by
  rw [needsTyOf_eq, needsTyOf_eq, needsFold_congr lower jobs jobs' self needs [] h]

theorem runJob_congr_needs (lower : String → String) (hdr : Header) (jobs jobs' : List JobM) (st : St)
    (j : JobM) (h : needsTyOf lower jobs j.id j.needs = needsTyOf lower jobs' j.id j.needs) :
    runJob lower hdr jobs st j = runJob lower hdr jobs' st j := by
  simp only [runJob, h]

/-- which keys one step of `calcNeedsType` leaves in the accumulator -/
theorem needsStep_isSome (lower : String → String) (jobs : List JobM) (self : String)
    (ps : List (String × Ty)) (n i : String) :
    (Ty.lookup i (needsStep lower jobs self ps n)).isSome = true ↔
      ((Ty.lookup i ps).isSome = true ∨ (i = lower n ∧ i ≠ self ∧ (lookupJob i jobs).isSome = true)) := by
  unfold needsStep
  simp only
  by_cases h1 : lower n = self
  · simp only [h1, if_true]
    constructor
    · exact Or.inl
    · rintro (h | ⟨h, h', _⟩)
      · exact h
      · exact absurd h h'
  · simp only [h1, if_false]
    by_cases h2 : (Ty.lookup (lower n) ps).isSome = true
    · simp only [h2, if_true]
      constructor
      · exact Or.inl
      · rintro (h | ⟨h, _, _⟩)
        · exact h
        · rw [h]; exact h2
    · simp only [h2]
      cases hj : lookupJob (lower n) jobs with
      | none =>
        simp only [Bool.false_eq_true, if_false]
        constructor
        · exact Or.inl
        · rintro (h | ⟨h, _, h3⟩)
          · exact h
          · rw [h, hj] at h3; simp at h3
      | some j =>
        simp only [Bool.false_eq_true, if_false]
        rw [lookup_setProp]
        by_cases h : i = lower n
        · subst h; simp [h1, hj]
        · simp [h]

theorem needsFold_isSome (lower : String → String) (jobs : List JobM) (self : String) (i : String) :
    (needs : List String) → (acc : List (String × Ty)) →
    ((Ty.lookup i (needs.foldl (needsStep lower jobs self) acc)).isSome = true ↔
      ((Ty.lookup i acc).isSome = true ∨
        (i ∈ needs.map lower ∧ i ≠ self ∧ (lookupJob i jobs).isSome = true)))
  | [], acc => by simp
  | n :: ns, acc => by
    simp only [List.foldl_cons, List.map_cons, List.mem_cons]
    rw [needsFold_isSome lower jobs self i ns _, needsStep_isSome]
    constructor
    · rintro ((h | ⟨h, h', h''⟩) | ⟨h, h', h''⟩)
      · exact Or.inl h
      · exact Or.inr ⟨Or.inl h, h', h''⟩
      · exact Or.inr ⟨Or.inr h, h', h''⟩
    · rintro (h | ⟨h | h, h', h''⟩)
      · exact Or.inl (Or.inl h)
      · exact Or.inl (Or.inr ⟨h, h', h''⟩)
      · exact Or.inr ⟨h, h', h''⟩

/-- every entry of `needs` is `{outputs: <that job's outputs>, result: string}` of an existing job -/
def NeedsOk (jobs : List JobM) (ps : List (String × Ty)) : Prop :=
  ∀ i t, Ty.lookup i ps = some t →
    ∃ j, lookupJob i jobs = some j ∧ t = .obj [("outputs", jobOutputsTy j), ("result", .string)] none

theorem needsStep_ok (lower : String → String) (jobs : List JobM) (self : String)
    (ps : List (String × Ty)) (n : String) (h : NeedsOk jobs ps) :
    NeedsOk jobs (needsStep lower jobs self ps n) := by
  unfold needsStep
  simp only
  split
  · exact h
  · split
    · exact h
    · split
      · exact h
      · rename_i j hj
        intro i t ht
        rw [lookup_setProp] at ht
        by_cases hi : i = lower n
        · subst hi
          simp only [if_true, Option.some.injEq] at ht
          exact ⟨j, hj, ht.symm⟩
        · simp only [hi, if_false] at ht
          exact h i t ht

theorem needsFold_ok (lower : String → String) (jobs : List JobM) (self : String) :
    (needs : List String) → (acc : List (String × Ty)) → NeedsOk jobs acc →
      NeedsOk jobs (needs.foldl (needsStep lower jobs self) acc)
  | [], _, h => h
  | n :: ns, acc, h => by
    simp only [List.foldl_cons]
    exact needsFold_ok lower jobs self ns _ (needsStep_ok lower jobs self acc n h)

/-! ### steps -/

theorem runSteps_cons (lower : String → String) (hdr : Header) (st : St) (s : StepM) (ss : List StepM) :
    runSteps lower hdr st (s :: ss) =
      ((runSteps lower hdr { st with stepsTy := st.stepsTy.map (fun t => addStep lower t s) } ss).1,
       s.probes.map (checkProbe lower hdr none st) ++
         (runSteps lower hdr { st with stepsTy := st.stepsTy.map (fun t => addStep lower t s) } ss).2) := rfl

/-- the state after the steps: only `stepsTy` moved, by folding `addStep` -/
theorem runSteps_fst (lower : String → String) (hdr : Header) :
    (a : List StepM) → (st : St) →
      (runSteps lower hdr st a).1 = { st with stepsTy := st.stepsTy.map (fun t => a.foldl (addStep lower) t) }
  | [], st => by cases st with | mk m s n => cases s <;> rfl
  | s :: ss, st => by
    rw [runSteps_cons]
    simp only
    rw [runSteps_fst lower hdr ss]
    cases st with
    | mk m s' n => cases s' <;> rfl

theorem runSteps_append_snd (lower : String → String) (hdr : Header) :
    (a b : List StepM) → (st : St) →
      (runSteps lower hdr st (a ++ b)).2 =
        (runSteps lower hdr st a).2 ++ (runSteps lower hdr (runSteps lower hdr st a).1 b).2
  | [], b, st => rfl
  | s :: ss, b, st => by
    rw [List.cons_append, runSteps_cons, runSteps_cons]
    simp only
    rw [runSteps_append_snd lower hdr ss b, List.append_assoc]

theorem loosen_obj (ps : List (String × Ty)) (m : Option Ty) : loosen (.obj ps m) = .obj ps (some .any) := rfl

/-- `addStep` on an object: the props get the id (if any), the mapped type is loosened iff the id has a placeholder -/
theorem addStep_obj (lower : String → String) (ps : List (String × Ty)) (m : Option Ty) (s : StepM) :
    addStep lower (.obj ps m) s =
      match s.id with
      | none => .obj ps m
      | some id =>
        .obj (Ty.setProp (lower id)
          (.obj [("conclusion", .string), ("outcome", .string), ("outputs", s.outputs)] none) ps)
          (if s.idExpr then some .any else m) := by
  unfold addStep
  cases s.id with
  | none => rfl
  | some id =>
    cases s.idExpr <;> rfl

/-- the keys of the `steps` object after some steps -/
theorem stepsFold_isSome (lower : String → String) (x : String) :
    (ss : List StepM) → (ps : List (String × Ty)) → (m : Option Ty) →
      ∃ ps' m', ss.foldl (addStep lower) (.obj ps m) = .obj ps' m' ∧
        ((Ty.lookup x ps').isSome = true ↔
          ((Ty.lookup x ps).isSome = true ∨ ∃ s ∈ ss, ∃ id, s.id = some id ∧ lower id = x))
  | [], ps, m => ⟨ps, m, rfl, by simp⟩
  | s :: ss, ps, m => by
    simp only [List.foldl_cons]
    rw [addStep_obj]
    cases hid : s.id with
    | none =>
      simp only
      obtain ⟨ps', m', he, hiff⟩ := stepsFold_isSome lower x ss ps m
      refine ⟨ps', m', he, ?_⟩
      rw [hiff]
      constructor
      · rintro (h | ⟨s', hs', id, h1, h2⟩)
        · exact Or.inl h
        · exact Or.inr ⟨s', List.mem_cons_of_mem _ hs', id, h1, h2⟩
      · rintro (h | ⟨s', hs', id, h1, h2⟩)
        · exact Or.inl h
        · rcases List.mem_cons.1 hs' with e | hs'
          · subst e; rw [hid] at h1; cases h1
          · exact Or.inr ⟨s', hs', id, h1, h2⟩
    | some id0 =>
      simp only
      obtain ⟨ps', m', he, hiff⟩ := stepsFold_isSome lower x ss
        (Ty.setProp (lower id0)
          (.obj [("conclusion", .string), ("outcome", .string), ("outputs", s.outputs)] none) ps)
        (if s.idExpr then some .any else m)
      refine ⟨ps', m', he, ?_⟩
      rw [hiff, lookup_setProp]
      constructor
      · rintro (h | ⟨s', hs', id, h1, h2⟩)
        · by_cases hx : x = lower id0
          · exact Or.inr ⟨s, List.mem_cons_self .., id0, hid, hx.symm⟩
          · simp only [hx, if_false] at h; exact Or.inl h
        · exact Or.inr ⟨s', List.mem_cons_of_mem _ hs', id, h1, h2⟩
      · rintro (h | ⟨s', hs', id, h1, h2⟩)
        · by_cases hx : x = lower id0
          · simp [hx]
          · simp only [hx, if_false]; exact Or.inl h
        · rcases List.mem_cons.1 hs' with e | hs'
          · subst e
            rw [hid] at h1
            cases h1
            simp [h2]
          · exact Or.inr ⟨s', hs', id, h1, h2⟩

/-- a strict `steps` object stays strict when no id has a placeholder -/
theorem stepsFold_strict (lower : String → String) :
    (ss : List StepM) → (ps : List (String × Ty)) →
      (∀ s ∈ ss, s.id ≠ none → s.idExpr = false) →
      ∃ ps', ss.foldl (addStep lower) (.obj ps none) = .obj ps' none
  | [], ps, _ => ⟨ps, rfl⟩
  | s :: ss, ps, h => by
    simp only [List.foldl_cons]
    rw [addStep_obj]
    have hss : ∀ s' ∈ ss, s'.id ≠ none → s'.idExpr = false :=
      fun s' hs' => h s' (List.mem_cons_of_mem _ hs')
    cases hid : s.id with
    | none => exact stepsFold_strict lower ss ps hss
    | some id0 =>
      have he : s.idExpr = false := h s (List.mem_cons_self ..) (by rw [hid]; simp)
      simp only [he]
      exact stepsFold_strict lower ss _ hss

end AL.Visit
