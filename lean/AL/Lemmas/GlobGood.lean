import AL.Lemmas.GlobCol
/-
  Every report of the validator is well placed (`Good`): invariant `GInv` through all layers.
-/
namespace AL.Glob
open AL

theorem GInv.error_unexp {src : List Sym} {st : GState} (h : GInv src st) (o : Option Nat) (w : What) (y : Why)
    (hm : ∀ ch, o = some ch → LastIs src st.scan ch) : GInv src (st.error (.unexpected o w y)) := by
  refine h.error _ ?_
  intro ch hn
  cases o with
  | none => simp [namedChar] at hn
  | some x => simp only [namedChar, Option.some.injEq] at hn; subst hn; exact hm _ rfl

theorem GInv.error_ref {src : List Sym} {st : GState} (h : GInv src st) (o : Option Nat) (y : RefWhy)
    (hm : ∀ ch, o = some ch → LastIs src st.scan ch) : GInv src (st.error (.invalidRef o y)) := by
  refine h.error _ ?_
  intro ch hn
  cases o with
  | none => simp [namedChar] at hn
  | some x => simp only [namedChar, Option.some.injEq] at hn; subst hn; exact hm _ rfl

theorem classLoop_GInv (src : List Sym) (st : GState) (n : Nat) (h : GInv src st) :
    GInv src (classLoop st n).2.2 ∧
    ∀ last, (classLoop st n).1 = .closed last → last = some 93 ∧ LastIs src (classLoop st n).2.2.scan 93 := by
  have hN : ∀ s : GState, GInv src s → GInv src s.next.2 := fun s h => h.next
  have hL : ∀ (s : GState) (x : Nat), GInv src s → symRune s.next.1 = some x → LastIs src s.next.2.scan x := fun s x h => h.next_last
  have hP : ∀ (s : GState) (x : Nat), GInv src s → s.peek = some x → LastIs src s.next.2.scan x := fun s x h => h.peek_last
  have hU := @GInv.error_unexp src
  fun_induction classLoop st n with
  | case1 st n hch => exact ⟨(hN _ h).error_unexp _ _ _ (by simp), by simp⟩
  | case2 st n c0 hch st1 hlt h93 =>
    have h1 : symRune st.next.1 = some 93 := by
      have : st.next.1 = some c0 := by rw [← hch]; exact Scanner.next_fst_ch _
      rw [this, symRune, h93]
    exact ⟨hN _ h, fun last hl => ⟨by simpa using hl.symm, hL _ _ h h1⟩⟩
  | case3 st n c0 hch st1 hlt h93 hpk ih => exact ih (hN _ h)
  | case4 st n c0 hch st1 hlt h93 hpk st2 hle2 hp2 st3 =>
    have h3 : LastIs src st3.scan 93 := hP _ _ (hN _ (hN _ h)) hp2
    exact ⟨(hN _ (hN _ (hN _ h))).error_unexp _ _ _ (fun ch hc => by cases hc; exact h3),
      fun last hl => ⟨by simpa using hl.symm, h3⟩⟩
  | case5 st n c0 hch st1 hlt h93 hpk st2 hle2 hp2 ih => exact ih (hN _ (hN _ h))
  | case6 st n c0 hch st1 hlt h93 hpk st2 hle2 v hv hp2 r3 st3 hle3 e hgt ih =>
    exact ih ((hN _ (hN _ (hN _ h))).error_unexp _ _ _ (fun ch hc => hL _ _ (hN _ (hN _ h)) hc))
  | case7 st n c0 hch st1 hlt h93 hpk st2 hle2 v hv hp2 r3 st3 hle3 e hgt ih =>
    exact ih (hN _ (hN _ (hN _ h)))

/-- The value of the variable `c` after the switch. -/
def SwitchRes.cOf : SwitchRes → Option Nat
  | .ok (c, _, _) => c
  | .error _ => none

theorem switchBody_GInv (src : List Sym) (isRef prec0 : Bool) (c : Option Nat) (st0 : GState)
    (h : GInv src st0) (hc : ∀ x, c = some x → LastIs src st0.scan x) :
    GInv src (switchBody isRef prec0 c st0).state ∧
    ∀ x, (switchBody isRef prec0 c st0).cOf = some x → LastIs src (switchBody isRef prec0 c st0).state.scan x := by
  have hN : ∀ s : GState, GInv src s → GInv src s.next.2 := fun s h => h.next
  have hL : ∀ (s : GState), GInv src s → ∀ x : Nat, symRune s.next.1 = some x → LastIs src s.next.2.scan x := fun s h x => h.next_last
  have hP : ∀ (s : GState), GInv src s → ∀ x : Nat, s.peek = some x → LastIs src s.next.2.scan x := fun s h x => h.peek_last
  have hC := classLoop_GInv src st0 0 h
  unfold switchBody
  repeat' split
  all_goals (simp only [SwitchRes.state, SwitchRes.cOf, GState.error_scan] at *)
  all_goals (try (first
    | exact ⟨h, hc⟩
    | exact ⟨hN _ h, hL _ h⟩
    | exact ⟨(hN _ h).error_ref _ _ (hL _ h), hL _ h⟩
    | exact ⟨(hN _ h).error_unexp _ _ _ (hL _ h), hL _ h⟩
    | exact ⟨hN _ (h.error_ref _ _ hc), hL _ (h.error_ref _ _ hc)⟩
    | exact ⟨h.error_ref _ _ hc, hc⟩
    | exact ⟨h.error_unexp _ _ _ hc, hc⟩
    | exact ⟨(hN _ h).error_unexp _ _ _ (fun ch hc' => by cases hc'; exact hP _ h _ ‹_›), hL _ h⟩
    | (rename_i heq; rw [heq] at hC; exact ⟨hC.1, by simp⟩)
    | (rename_i heq _; rw [heq] at hC; simp only [] at hC; obtain ⟨hG, hl⟩ := hC; obtain ⟨rfl, hl2⟩ := hl _ rfl
       first
       | exact ⟨hG.error_unexp _ _ _ (fun ch hc' => by cases hc'; exact hl2), fun x hx => by cases hx; exact hl2⟩
       | exact ⟨hG, fun x hx => by cases hx; exact hl2⟩)))

theorem GInv.with_prec {src : List Sym} {st : GState} (h : GInv src st) (p : Bool) : GInv src { st with prec := p } := h

theorem finishNext_GInv (src : List Sym) (isRef : Bool) (r : SwitchRes) (h : GInv src r.state)
    (hc : ∀ x, r.cOf = some x → LastIs src r.state.scan x) : GInv src (finishNext isRef r).2 := by
  unfold finishNext
  split
  · exact h
  · simp only [SwitchRes.state, SwitchRes.cOf] at h hc
    rename_i pr st1
    simp only []
    split
    · split
      · exact (h.with_prec pr).error_ref _ _ hc
      · exact h.with_prec pr
    · exact h.with_prec pr

theorem validateNext_GInv (src : List Sym) (isRef : Bool) (st : GState) (h : GInv src st) :
    GInv src (validateNext isRef st).2 := by
  unfold validateNext
  obtain ⟨h1, h2⟩ := switchBody_GInv src isRef st.prec (symRune st.next.1) st.next.2 h.next (fun x => h.next_last)
  exact finishNext_GInv src isRef _ h1 h2

theorem loop_GInv (src : List Sym) (isRef : Bool) (st : GState) (h : GInv src st) : GInv src (loop isRef st) := by
  fun_induction loop isRef st with
  | case1 st r hch => exact validateNext_GInv src isRef st h
  | case2 st r hch hr ih => exact ih (validateNext_GInv src isRef st h)
  | case3 st r hch hr => exact validateNext_GInv src isRef st h

theorem validate_good (isRef : Bool) (src : List Sym) : ∀ e ∈ validate isRef src, Good src e := by
  unfold validate
  simp only []
  cases src with
  | nil => 
    intro e he
    simp only [List.isEmpty_nil, if_true, List.mem_singleton] at he
    subst he
    exact ⟨Nat.le_refl _, by simp [namedChar]⟩
  | cons c t =>
    simp only [List.isEmpty_cons, Bool.false_eq_true, if_false]
    obtain ⟨hS, hG⟩ := init_SInv c t
    generalize hst : ({ scan := (Scanner.init (c :: t)).1, errs := scanErrs (Scanner.init (c :: t)).2 } : GState) = st
    have h : GInv (c :: t) st := by subst hst; exact ⟨hS, hG⟩
    split
    · rename_i h47
      split
      · exact (loop_GInv _ _ _ ((h.next.error_ref (some 47) .startsWith (fun x hx => by cases hx; exact h.peek_last h47)).with_prec true)).2
      · exact (loop_GInv _ _ _ h).2
    · rename_i h33
      split
      · exact (h.next.error_unexp (some 33) .neg .follow (fun x hx => by cases hx; exact h.peek_last h33)).2
      · exact (loop_GInv _ _ _ (h.next.with_prec false)).2
    · exact (loop_GInv _ _ _ h).2
end AL.Glob
