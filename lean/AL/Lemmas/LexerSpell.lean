import AL.Lemmas.LexerInv
import AL.Spec.ExprLexical
/-
  What each helper of `ExprLexer.Next` returns: either the empty END pseudo-token together with a
  recorded error (`IsFail`), or `st1.token k` where `st1` is reached by consuming the characters `x`
  and `x` is spelled as the lexical grammar prescribes for `k` (`Outcome.tok`).
-/
namespace AL.Lex
open AL AL.Spec

@[simp] theorem runes_nil : runes [] = [] := rfl
@[simp] theorem runes_cons (c : Sym) (l : List Sym) : runes (c :: l) = c.r :: runes l := rfl
@[simp] theorem runes_append (a b : List Sym) : runes (a ++ b) = runes a ++ runes b := by simp [runes]

theorem mem_runes {l : List Sym} {p : Nat → Bool} (h : ∀ c ∈ l, p c.r = true) : ∀ x ∈ runes l, p x = true := by
  intro x hx; simp [runes] at hx; obtain ⟨c, hc, rfl⟩ := hx; exact h c hc

/-- the result of `lex.unexpected…`: empty END token, error recorded -/
def IsFail (R : Tok × LexState) : Prop := R.1.kind = .end ∧ R.1.val = [] ∧ R.2.err ≠ none

theorem isFail_unexpected (st : LexState) (r : Option Nat) (wh : Where) : IsFail (st.unexpected r wh) :=
  ⟨rfl, rfl, error_err_ne_none _ _⟩

inductive Outcome (st : LexState) (R : Tok × LexState) : Prop
  | fail : IsFail R → Outcome st R
  | tok (st1 : LexState) (x : List Sym) (k : TokKind) :
      Steps st x st1 → R = st1.token k → x ≠ [] → Spelling k x → Outcome st R

/-! ### identifiers, punctuation, operators -/

theorem ident_outcome {st : LexState} {r : Nat} (h : st.peek = some r) (hr : isAlpha r = true ∨ r = 95) :
    Outcome st ((eatWhile isIdentChar st.next).token .ident) := by
  obtain ⟨c, hc, rfl⟩ := peek_some h
  obtain ⟨x, hx, hall, -⟩ := eatWhile_spec isIdentChar st.next
  refine .tok _ (c :: x) .ident (.next hc hx) rfl (by simp) ?_
  exact ⟨c.r, runes x, rfl, hr, mem_runes hall⟩

theorem lexChar_outcome {st : LexState} {r : Nat} {k : TokKind} (h : st.peek = some r)
    (hs : ∀ c : Sym, c.r = r → Spelling k [c]) : Outcome st (lexChar st k) := by
  obtain ⟨c, hc, rfl⟩ := peek_some h
  exact .tok _ [c] k (.one hc) rfl (by simp) (hs c rfl)

theorem lexPair_outcome {st : LexState} {r second : Nat} {k : TokKind} {wh : Where} (h : st.peek = some r)
    (hs : ∀ c d : Sym, c.r = r → d.r = second → Spelling k [c, d]) : Outcome st (lexPair st second k wh) := by
  obtain ⟨c, hc, rfl⟩ := peek_some h
  unfold lexPair
  dsimp only
  split
  · exact .fail (isFail_unexpected _ _ _)
  · rename_i h2
    simp only [ne_eq, Decidable.not_not] at h2
    obtain ⟨d, hd, hdr⟩ := peek_some h2
    exact .tok _ [c, d] k (.next hc (.one hd)) rfl (by simp) (hs c d rfl hdr)

theorem lexOptEq_outcome {st : LexState} {r : Nat} {k kEq : TokKind} (h : st.peek = some r)
    (hs1 : ∀ c : Sym, c.r = r → Spelling k [c])
    (hs2 : ∀ c d : Sym, c.r = r → d.r = 61 → Spelling kEq [c, d]) : Outcome st (lexOptEq st k kEq) := by
  obtain ⟨c, hc, rfl⟩ := peek_some h
  unfold lexOptEq
  dsimp only
  split
  · rename_i h2
    obtain ⟨d, hd, hdr⟩ := peek_some h2
    exact .tok _ [c, d] kEq (.next hc (.one hd)) rfl (by simp) (hs2 c d rfl hdr)
  · exact .tok _ [c] k (.one hc) rfl (by simp) (hs1 c rfl)

/-! ### strings -/

theorem lexString_aux (st : LexState) :
    IsFail (lexString st) ∨
    ∃ st1 c0 body q, st.scan.ch = some c0 ∧ Steps st (c0 :: body ++ [q]) st1 ∧
      lexString st = st1.token .string ∧ q.r = 39 ∧ StrBody (runes body) := by
  fun_induction lexString st with
  | case1 st h => exact .inl (isFail_unexpected _ _ _)
  | case2 st c0 h st1 h1 => exact .inl (isFail_unexpected _ _ _)
  | case3 st c0 h st1 c h1 hq st2 hne =>
    refine .inr ⟨st2.token .string |>.2 |> fun _ => st2, c0, [], c, h, ?_, rfl, hq, .nil⟩
    exact .next h (.one h1)
  | case4 st c0 h st1 c h1 hq st2 hne ih =>
    rcases ih with ih | ⟨st3, c2, body, q, hc2, hsteps, heq, hqr, hbody⟩
    · exact .inl ih
    · refine .inr ⟨st3, c0, c :: c2 :: body, q, h, ?_, heq, hqr, ?_⟩
      · exact .next h (.next h1 hsteps)
      · simp only [ne_eq, Decidable.not_not] at hne
        obtain ⟨d, hd, hdr⟩ := peek_some hne
        have : d = c2 := by rw [hc2] at hd; cases hd; rfl
        subst this
        simp only [runes_cons, hq, hdr]
        exact .esc _ hbody
  | case5 st c0 h st1 c h1 hq ih =>
    rcases ih with ih | ⟨st3, c2, body, q, hc2, hsteps, heq, hqr, hbody⟩
    · exact .inl ih
    · have : c = c2 := by rw [hc2] at h1; cases h1; rfl
      subst this
      refine .inr ⟨st3, c0, c :: body, q, h, .next h hsteps, heq, hqr, ?_⟩
      simp only [runes_cons]
      exact .char _ _ hq hbody

theorem lexString_outcome {st : LexState} (h : st.peek = some 39) : Outcome st (lexString st) := by
  rcases lexString_aux st with hf | ⟨st1, c0, body, q, hc0, hsteps, heq, hq, hbody⟩
  · exact .fail hf
  · obtain ⟨c, hc, hcr⟩ := peek_some h
    have : c = c0 := by rw [hc0] at hc; cases hc; rfl
    subst this
    refine .tok st1 _ .string hsteps heq (by simp) ⟨runes body, ?_, hbody⟩
    simp [hcr, hq]

/-! ### numbers -/

theorem finishNum_spec (st : LexState) (k : TokKind) (wh : Where) :
    IsFail (finishNum st k wh) ∨ finishNum st k wh = st.token k := by
  unfold finishNum
  split
  · split
    · exact .inl (isFail_unexpected _ _ _)
    · exact .inr rfl
  · exact .inr rfl

/-- `for { r = eat(); if !isNum(r) break }` entered with a digit as current character -/
theorem eatDigits_spec {st : LexState} {r : Nat} (h : st.peek = some r) :
    ∃ c x, c.r = r ∧ Steps st (c :: x) (eatDigits st) ∧ ∀ y ∈ runes x, isNum y = true := by
  obtain ⟨c, hc, hcr⟩ := peek_some h
  obtain ⟨x, hx, hall, -⟩ := eatWhile_spec isNum st.next
  exact ⟨c, x, hcr, .next hc hx, mem_runes hall⟩

theorem isNum_ne_zero {r : Nat} (h : isNum r = true) (h0 : r ≠ 48) : 49 ≤ r ∧ r ≤ 57 := by
  simp [isNum] at h; omega

theorem lexHexInt_spec (st : LexState) :
    IsFail (lexHexInt st) ∨ ∃ st1 y, Steps st y st1 ∧ lexHexInt st = st1.token .int ∧
      (runes y = [48] ∨ ∃ d ds, runes y = d :: ds ∧ isHexNum d = true ∧ d ≠ 48 ∧ ∀ x ∈ ds, isHexNum x = true) := by
  unfold lexHexInt
  split
  · rename_i h
    obtain ⟨c, hc, hcr⟩ := peek_some h
    rcases finishNum_spec st.next .int .afterHex with hf | he
    · exact .inl hf
    · exact .inr ⟨st.next, [c], .one hc, he, .inl (by simp [hcr])⟩
  · rename_i hne
    cases hp : st.peek with
    | none => simp only [Bool.not_false, if_true]; exact .inl (isFail_unexpected _ _ _)
    | some r =>
      simp only
      split
      · exact .inl (isFail_unexpected _ _ _)
      · rename_i hh
        have hh : isHexNum r = true := by simpa using hh
        obtain ⟨c, hc, hcr⟩ := peek_some hp
        obtain ⟨x, hx, hall, -⟩ := eatWhile_spec isHexNum st.next
        rcases finishNum_spec (eatWhile isHexNum st.next) .int .afterHex with hf | he
        · exact .inl hf
        · refine .inr ⟨_, c :: x, .next hc hx, he, .inr ⟨r, runes x, by simp [hcr], hh, ?_, mem_runes hall⟩⟩
          intro h48; subst h48; exact hne hp

/-- integer part of `lexNum` (after the optional sign) -/
def numInt (st1 : LexState) : Except (Tok × LexState) (LexState × Bool) :=
  match st1.peek with
  | some 48 =>
    let st2 := st1.next
    if st2.peek = some 120 then .ok (st2.next, true) else .ok (st2, false)
  | r =>
    if !(match r with | some x => isNum x | none => false) then .error (st1.unexpected r .intPart)
    else .ok (eatDigits st1, false)

/-- fraction part of `lexNum` -/
def numFrac (st2 : LexState) : Except (Tok × LexState) (LexState × TokKind) :=
  if st2.peek = some 46 then
    let st3 := st2.next
    if !(match st3.peek with | some x => isNum x | none => false) then .error (st3.unexpected st3.peek .fracPart)
    else .ok (eatDigits st3, .float)
  else .ok (st2, .int)

/-- exponent part and tail of `lexNum` -/
def numTail (st3 : LexState) (k : TokKind) : Tok × LexState :=
  if st3.peek = some 101 || st3.peek = some 69 then
    match lexExponent st3 with
    | .error e => e
    | .ok st4 => finishNum st4 .float .afterNumber
  else finishNum st3 k .afterNumber

theorem lexNum_eq (st : LexState) : lexNum st =
    match numInt (if st.peek = some 45 then st.next else st) with
    | .error e => e
    | .ok (st2, true) => lexHexInt st2
    | .ok (st2, false) =>
      match numFrac st2 with
      | .error e => e
      | .ok (st3, k) => numTail st3 k := rfl

def NumIntPost (st1 : LexState) : Except (Tok × LexState) (LexState × Bool) → Prop
  | .error e => IsFail e
  | .ok (st2, true) => ∃ x, Steps st1 x st2 ∧ runes x = [48, 120]
  | .ok (st2, false) => ∃ x, Steps st1 x st2 ∧ DecInt (runes x)

theorem numInt_spec (st1 : LexState) : NumIntPost st1 (numInt st1) := by
  unfold numInt
  split
  · rename_i h
    obtain ⟨c, hc, hcr⟩ := peek_some h
    dsimp only
    split
    · rename_i h2
      obtain ⟨d, hd, hdr⟩ := peek_some h2
      exact ⟨[c, d], .next hc (.one hd), by simp [hcr, hdr]⟩
    · exact ⟨[c], .one hc, .inl (by simp [hcr])⟩
  · rename_i hne
    cases hp : st1.peek with
    | none => simp only [Bool.not_false, if_true]; exact isFail_unexpected _ _ _
    | some r =>
      simp only
      split
      · exact isFail_unexpected _ _ _
      · rename_i hh
        have hh : isNum r = true := by simpa using hh
        obtain ⟨c, x, hcr, hsteps, hall⟩ := eatDigits_spec hp
        refine ⟨c :: x, hsteps, .inr ⟨r, runes x, by simp [hcr], ?_⟩⟩
        have := isNum_ne_zero hh (by intro h48; subst h48; exact hne hp)
        exact ⟨this.1, this.2, hall⟩

def NumFracPost (st2 : LexState) : Except (Tok × LexState) (LexState × TokKind) → Prop
  | .error e => IsFail e
  | .ok (st3, k) => ∃ y, Steps st2 y st3 ∧
      ((k = .int ∧ y = []) ∨ (k = .float ∧ ∃ ds, runes y = 46 :: ds ∧ Digits1 ds))

theorem numFrac_spec (st2 : LexState) : NumFracPost st2 (numFrac st2) := by
  unfold numFrac
  split
  · rename_i h
    obtain ⟨c, hc, hcr⟩ := peek_some h
    dsimp only
    cases hp : st2.next.peek with
    | none => simp only [Bool.not_false, if_true]; exact isFail_unexpected _ _ _
    | some r =>
      simp only
      split
      · exact isFail_unexpected _ _ _
      · rename_i hh
        have hh : isNum r = true := by simpa using hh
        obtain ⟨d, x, hdr, hsteps, hall⟩ := eatDigits_spec hp
        refine ⟨c :: d :: x, .next hc hsteps, .inr ⟨rfl, r :: runes x, by simp [hcr, hdr], by simp, ?_⟩⟩
        intro y hy; simp at hy; rcases hy with rfl | hy
        · exact hh
        · exact hall y hy
  · exact ⟨[], .refl _, .inl ⟨rfl, rfl⟩⟩

def ExpPost (st : LexState) (e : Nat) : Except (Tok × LexState) LexState → Prop
  | .error R => IsFail R
  | .ok st4 => ∃ z, Steps st z st4 ∧ ∃ ds, runes z = e :: ds ∧ optMinus DecInt ds

theorem lexExponent_spec {st : LexState} {e : Nat} (h : st.peek = some e) : ExpPost st e (lexExponent st) := by
  obtain ⟨c, hc, hcr⟩ := peek_some h
  unfold lexExponent
  dsimp only
  -- the optional sign
  have hsign : ∃ m, Steps st.next m (if st.next.peek = some 45 then st.next.next else st.next) ∧
      (runes m = [] ∨ runes m = [45]) := by
    split
    · rename_i hm
      obtain ⟨d, hd, hdr⟩ := peek_some hm
      exact ⟨[d], .one hd, .inr (by simp [hdr])⟩
    · exact ⟨[], .refl _, .inl rfl⟩
  obtain ⟨m, hm, hmr⟩ := hsign
  generalize (if st.next.peek = some 45 then st.next.next else st.next) = st2 at hm
  have hopt : ∀ ds, DecInt ds → optMinus DecInt (runes m ++ ds) := by
    intro ds hds
    rcases hmr with hmr | hmr
    · rw [hmr]; exact .inl hds
    · rw [hmr]; exact .inr ⟨ds, rfl, hds⟩
  split
  · rename_i h0
    obtain ⟨d, hd, hdr⟩ := peek_some h0
    exact ⟨c :: (m ++ [d]), .next hc (hm.trans (.one hd)), runes m ++ [48], by simp [hcr, hdr], hopt _ (.inl rfl)⟩
  · rename_i hne
    cases hp : st2.peek with
    | none => simp only [Bool.not_false, if_true]; exact isFail_unexpected _ _ _
    | some r =>
      simp only
      split
      · exact isFail_unexpected _ _ _
      · rename_i hh
        have hh : isNum r = true := by simpa using hh
        obtain ⟨d, x, hdr, hsteps, hall⟩ := eatDigits_spec hp
        refine ⟨c :: (m ++ d :: x), .next hc (hm.trans hsteps), runes m ++ r :: runes x, by simp [hcr, hdr],
          hopt _ (.inr ⟨r, runes x, rfl, ?_⟩)⟩
        have := isNum_ne_zero hh (by intro h48; subst h48; exact hne hp)
        exact ⟨this.1, this.2, hall⟩

/-- what `numTail` is given: the state after integer part and optional fraction -/
theorem numTail_spec (st3 : LexState) (k : TokKind) :
    IsFail (numTail st3 k) ∨ ∃ st4 z k', Steps st3 z st4 ∧ numTail st3 k = st4.token k' ∧
      ((z = [] ∧ k' = k) ∨ (k' = .float ∧ ∃ e ds, runes z = e :: ds ∧ (e = 101 ∨ e = 69) ∧ optMinus DecInt ds)) := by
  unfold numTail
  split
  · rename_i he
    have he' : ∃ e, st3.peek = some e ∧ (e = 101 ∨ e = 69) := by
      simp only [Bool.or_eq_true, decide_eq_true_eq] at he
      rcases he with he | he
      · exact ⟨101, he, .inl rfl⟩
      · exact ⟨69, he, .inr rfl⟩
    obtain ⟨e, hpe, hee⟩ := he'
    have := lexExponent_spec hpe
    split
    · rename_i R hR; rw [hR] at this; exact .inl this
    · rename_i st4 hR
      rw [hR] at this
      obtain ⟨z, hz, ds, hzr, hds⟩ := this
      rcases finishNum_spec st4 .float .afterNumber with hf | hf
      · exact .inl hf
      · exact .inr ⟨st4, z, .float, hz, hf, .inr ⟨rfl, e, ds, hzr, hee, hds⟩⟩
  · rcases finishNum_spec st3 k .afterNumber with hf | hf
    · exact .inl hf
    · exact .inr ⟨st3, [], k, .refl _, hf, .inl ⟨rfl, rfl⟩⟩

theorem optMinus_append_of {P : List Nat → Prop} {m : List Nat} (hm : m = [] ∨ m = [45]) {l : List Nat} (h : P l) :
    optMinus P (m ++ l) := by
  rcases hm with rfl | rfl
  · exact .inl h
  · exact .inr ⟨l, rfl, h⟩

theorem lexNum_outcome (st : LexState) : Outcome st (lexNum st) := by
  rw [lexNum_eq]
  -- optional sign
  have hsign : ∃ m, Steps st m (if st.peek = some 45 then st.next else st) ∧ (runes m = [] ∨ runes m = [45]) := by
    split
    · rename_i hm
      obtain ⟨d, hd, hdr⟩ := peek_some hm
      exact ⟨[d], .one hd, .inr (by simp [hdr])⟩
    · exact ⟨[], .refl _, .inl rfl⟩
  obtain ⟨m, hm, hmr⟩ := hsign
  generalize (if st.peek = some 45 then st.next else st) = st1 at hm
  have hI := numInt_spec st1
  split
  · rename_i e he; rw [he] at hI; exact .fail hI
  · rename_i st2 he; rw [he] at hI
    obtain ⟨x, hx, hxr⟩ := hI
    rcases lexHexInt_spec st2 with hf | ⟨st3, y, hy, heq, hyr⟩
    · exact .fail hf
    · refine .tok st3 (m ++ x ++ y) .int ((hm.trans hx).trans hy) heq ?_ ?_
      · intro h0; have : runes (m ++ x ++ y) = [] := by rw [h0]; rfl
        simp [hxr] at this
      · refine .inr ?_
        have : runes (m ++ x ++ y) = runes m ++ (48 :: 120 :: runes y) := by simp [hxr]
        show optMinus HexInt (runes (m ++ x ++ y))
        rw [this]
        exact optMinus_append_of hmr ⟨runes y, rfl, hyr⟩
  · rename_i st2 he; rw [he] at hI
    obtain ⟨x, hx, hxr⟩ := hI
    have hx0 : runes x ≠ [] := by
      rcases hxr with h1 | ⟨d, ds, h1, _⟩ <;> simp [h1]
    have hF := numFrac_spec st2
    split
    · rename_i e he2; rw [he2] at hF; exact .fail hF
    · rename_i st3 k he2; rw [he2] at hF
      obtain ⟨y, hy, hyk⟩ := hF
      rcases numTail_spec st3 k with hf | ⟨st4, z, k', hz, heq, hzk⟩
      · exact .fail hf
      · refine .tok st4 (m ++ x ++ y ++ z) k' (((hm.trans hx).trans hy).trans hz) heq ?_ ?_
        · intro h0
          have hx' : x = [] := by simp at h0; exact h0.2.1
          exact hx0 (by rw [hx']; rfl)
        · have hip : optMinus DecInt (runes (m ++ x)) := by
            rw [runes_append]; exact optMinus_append_of hmr hxr
          rcases hyk with ⟨rfl, rfl⟩ | ⟨rfl, ds, hyr, hds⟩
          · rcases hzk with ⟨rfl, rfl⟩ | ⟨rfl, e, es, hzr, hee, hes⟩
            · show optMinus DecInt _ ∨ _
              left; simpa using hip
            · show FloatLit _
              refine ⟨runes (m ++ x), [], e :: es, hip, .inl rfl, .inr ⟨e, es, rfl, hee, hes⟩, .inr (by simp), ?_⟩
              simp [hzr]
          · have hk' : k' = .float := by
              rcases hzk with ⟨_, rfl⟩ | ⟨rfl, _⟩ <;> rfl
            subst hk'
            show FloatLit _
            rcases hzk with ⟨rfl, _⟩ | ⟨_, e, es, hzr, hee, hes⟩
            · refine ⟨runes (m ++ x), 46 :: ds, [], hip, .inr ⟨ds, rfl, hds⟩, .inl rfl, .inl (by simp), ?_⟩
              simp [hyr]
            · refine ⟨runes (m ++ x), 46 :: ds, e :: es, hip, .inr ⟨ds, rfl, hds⟩, .inr ⟨e, es, rfl, hee, hes⟩, .inl (by simp), ?_⟩
              simp [hyr, hzr]

/-! ### `Next` -/

theorem lexNext_outcome (st0 : LexState) : Outcome (skipWhite st0) (lexNext st0) := by
  unfold lexNext
  simp only
  generalize skipWhite st0 = st
  split
  · exact .fail ⟨rfl, rfl, error_err_ne_none _ _⟩
  · rename_i r h
    split
    · rename_i hr
      exact ident_outcome h (by simpa using hr)
    · split
      · exact lexNum_outcome _
      · split
        · exact lexString_outcome h
        · exact lexPair_outcome h (fun c d hc hd => .inl (by simp [hc, hd]))
        · exact lexOptEq_outcome h (fun c hc => by simp [Spelling, hc]) (fun c d hc hd => by simp [Spelling, hc, hd])
        · exact lexOptEq_outcome h (fun c hc => by simp [Spelling, hc]) (fun c d hc hd => by simp [Spelling, hc, hd])
        · exact lexOptEq_outcome h (fun c hc => by simp [Spelling, hc]) (fun c d hc hd => by simp [Spelling, hc, hd])
        · exact lexPair_outcome h (fun c d hc hd => by simp [Spelling, hc, hd])
        · exact lexPair_outcome h (fun c d hc hd => by simp [Spelling, hc, hd])
        · exact lexPair_outcome h (fun c d hc hd => by simp [Spelling, hc, hd])
        · exact lexChar_outcome h (fun c hc => by simp [Spelling, hc])
        · exact lexChar_outcome h (fun c hc => by simp [Spelling, hc])
        · exact lexChar_outcome h (fun c hc => by simp [Spelling, hc])
        · exact lexChar_outcome h (fun c hc => by simp [Spelling, hc])
        · exact lexChar_outcome h (fun c hc => by simp [Spelling, hc])
        · exact lexChar_outcome h (fun c hc => by simp [Spelling, hc])
        · exact lexChar_outcome h (fun c hc => by simp [Spelling, hc])
        · exact .fail (isFail_unexpected _ _ _)

end AL.Lex
