import AL.Lemmas.TyLooser
/-
  C06 (a), (b): `any` is assignable both ways, and `assignable` is monotone in its right argument for
  `LooserW` (hence for `Looser` and `LooserD`).
-/
namespace AL.Ty
open AL AL.Spec

theorem assignable_any_right (t : Ty) : assignable t .any = true := by
  cases t <;> simp [assignable]

theorem assignable_any_left (t : Ty) : assignable .any t = true := by
  simp [assignable]

theorem propsAssignableTo_any : (ps : List (String × Ty)) → propsAssignableTo ps .any = true
  | [] => by simp [propsAssignableTo]
  | (_, t) :: rest => by simp [propsAssignableTo, assignable_any_right, propsAssignableTo_any rest]

theorem propsAssignableTo_mono {m m' : Ty} (h : ∀ p, assignable p m = true → assignable p m' = true) :
    (ps : List (String × Ty)) → propsAssignableTo ps m = true → propsAssignableTo ps m' = true
  | [], _ => by simp [propsAssignableTo]
  | (_, t) :: rest, hp => by
    simp only [propsAssignableTo, Bool.and_eq_true] at hp ⊢
    exact ⟨h _ hp.1, propsAssignableTo_mono h rest hp.2⟩

theorem lookupAssignable_mono {r r' : Ty} (h : ∀ p, assignable p r = true → assignable p r' = true) (n : String) :
    (ps : List (String × Ty)) → lookupAssignable ps n r = true → lookupAssignable ps n r' = true
  | [], hp => by simp [lookupAssignable] at hp
  | (k, l) :: rest, hp => by
    simp only [lookupAssignable] at hp ⊢
    split
    · next hk => simp only [hk, if_true] at hp; exact h _ hp
    · next hk => simp only [hk, if_false] at hp; exact lookupAssignable_mono h n rest hp

mutual
theorem assignable_mono : {a a' : Ty} → LooserW a a' → ∀ p, assignable p a = true → assignable p a' = true
  | _, _, .any _ => fun p _ => assignable_any_right p
  | _, _, .null => fun _ h => h
  | _, _, .number => fun _ h => h
  | _, _, .bool => fun _ h => h
  | _, _, .string => fun _ h => h
  | _, _, .arr (e := e) (e' := e') h => fun p hp => by
    have ih := assignable_mono h
    cases p <;> simp_all [assignable]
  | _, _, .obj (ps := qs) (ps' := qs') (m := m) (m' := m') hps hm => fun p hp => by
    cases p with
    | obj ps pm =>
      cases pm with
      | some mt =>
        cases hm with
        | none =>
          simp only [assignable] at hp ⊢
          exact allAssignableFrom_mono hps mt hp
        | opened =>
          simp only [assignable] at hp ⊢
          exact assignable_any_right mt
        | some hmm =>
          simp only [assignable] at hp ⊢
          exact assignable_mono hmm mt hp
      | none =>
        cases hm with
        | none =>
          simp only [assignable] at hp ⊢
          exact propsCover_mono hps ps hp
        | opened =>
          simp only [assignable] at hp ⊢
          exact propsAssignableTo_any ps
        | some hmm =>
          simp only [assignable] at hp ⊢
          exact propsAssignableTo_mono (assignable_mono hmm) ps hp
    | _ => simp_all [assignable]
theorem allAssignableFrom_mono : {qs qs' : List (String × Ty)} → LooserWProps qs qs' →
    ∀ mt, allAssignableFrom mt qs = true → allAssignableFrom mt qs' = true
  | _, _, .nil => fun _ h => h
  | _, _, .cons h hr => fun mt hp => by
    simp only [allAssignableFrom, Bool.and_eq_true] at hp ⊢
    exact ⟨assignable_mono h mt hp.1, allAssignableFrom_mono hr mt hp.2⟩
theorem propsCover_mono : {qs qs' : List (String × Ty)} → LooserWProps qs qs' →
    ∀ ps, propsCover ps qs = true → propsCover ps qs' = true
  | _, _, .nil => fun _ h => h
  | _, _, .cons h hr => fun ps hp => by
    simp only [propsCover, Bool.and_eq_true] at hp ⊢
    exact ⟨lookupAssignable_mono (assignable_mono h) _ ps hp.1, propsCover_mono hr ps hp.2⟩
end

theorem assignable_mono_looser {p a a' : Ty} (h : Looser a a') (hp : assignable p a = true) :
    assignable p a' = true :=
  assignable_mono (LooserW.of_looser h) p hp

end AL.Ty
