import AL.Lemmas.GlobSound
/-
  Completeness: every pattern of the declarative syntax (loose class members) passes the validator.
-/
namespace AL.Glob
open AL AL.Spec

/-- An error-free validator state seen abstractly: pending characters (all fine) and `prec`. -/
def Abs (st : GState) (l : List Sym) (p : Bool) : Prop :=
  gp st = l ∧ st.prec = p ∧ st.errs = [] ∧ AllOk l

theorem Abs.next {st : GState} {c : Sym} {l : List Sym} {p : Bool} (h : Abs st (c :: l) p) :
    st.next.1 = some c ∧ Abs st.next.2 l p := by
  obtain ⟨hg, hp, he, hok⟩ := h
  refine ⟨by rw [GState.next_fst, hg]; rfl, by rw [GState.gp_next, hg]; rfl, hp, ?_, fun x hx => hok x (List.mem_cons_of_mem _ hx)⟩
  rw [GState.next_errs, he, List.nil_append, scanErrs_nil, next_errs_nil]
  intro d hd
  change (gp st)[1]? = some d at hd
  rw [hg] at hd
  exact hok d (List.mem_cons_of_mem _ (List.mem_of_getElem? (by simpa using hd)))

theorem Abs.peek {st : GState} {l : List Sym} {p : Bool} (h : Abs st l p) : st.peek = l.head?.map (·.r) := by
  rw [GState.peek_eq, h.1]

theorem Abs.ch {st : GState} {c : Sym} {l : List Sym} {p : Bool} (h : Abs st (c :: l) p) : st.scan.ch = some c := by
  have := h.1
  unfold gp pending at this
  cases hc : st.scan.ch with
  | none => simp [hc] at this
  | some d => simp [hc] at this; rw [this.1]

theorem Abs.with_prec {st : GState} {l : List Sym} {p : Bool} (h : Abs st l p) (q : Bool) :
    Abs { st with prec := q } l q := ⟨h.1, rfl, h.2.2.1, h.2.2.2⟩

theorem classLoop_complete (isRef : Bool) {l : List Sym} {items : List Item} {rest : List Sym}
    (hb : ClassBody false isRef l items rest) :
    ∀ (st : GState) (n : Nat) (p : Bool), Abs st l p →
      ∃ st', classLoop st n = (.closed (some 93), n + weight items, st') ∧ Abs st' rest p := by
  induction hb with
  | close c rest hc =>
    intro st n p ha
    obtain ⟨h1, h2⟩ := ha.next
    have hch := ha.ch
    refine ⟨st.next.2, ?_, h2⟩
    unfold classLoop
    split
    · rename_i h0; rw [hch] at h0; cases h0
    · rename_i c0 h0
      rw [hch] at h0; cases h0
      simp [hc, weight]
  | single c l items rest hm hh hb ih =>
    intro st n p ha
    obtain ⟨h1, h2⟩ := ha.next
    have hch := ha.ch
    obtain ⟨st', he, ha'⟩ := ih st.next.2 (n + 1) p h2
    refine ⟨st', ?_, ha'⟩
    unfold classLoop
    split
    · rename_i h0; rw [hch] at h0; cases h0
    · rename_i c0 h0
      rw [hch] at h0; cases h0
      have hpk : st.next.2.peek ≠ some 45 := by rw [h2.peek]; exact hh
      simp only [hm.1, if_false, hpk, ne_eq, not_false_eq_true, if_true]
      rw [he]; simp [weight]; omega
  | range lo d hi l items rest hm hd hm2 hle hb ih =>
    intro st n p ha
    obtain ⟨h1, h2⟩ := ha.next
    obtain ⟨h3, h4⟩ := h2.next
    obtain ⟨h5, h6⟩ := h4.next
    have hch := ha.ch
    obtain ⟨st', he, ha'⟩ := ih st.next.2.next.2.next.2 (n + 2) p h6
    refine ⟨st', ?_, ha'⟩
    unfold classLoop
    split
    · rename_i h0; rw [hch] at h0; cases h0
    · rename_i c0 h0
      rw [hch] at h0; cases h0
      have hpk : st.next.2.peek = some 45 := by rw [h2.peek]; simp [hd]
      have hpk2 : st.next.2.next.2.peek = some hi.r := by rw [h4.peek]; rfl
      simp only [hm.1, if_false, hpk, ne_eq, not_true_eq_false]
      split
      · rename_i h93; rw [hpk2] at h93; exact absurd (Option.some.inj h93) hm2.1
      · rename_i hn; rw [hpk2] at hn; cases hn
      · simp only [h5, symRune, Option.getD_some]
        have : ¬ lo.r > hi.r := by omega
        simp only [this, if_false]
        rw [he]; simp [weight]; omega

theorem switchBody_ord (isRef p : Bool) (c : Sym) (st0 : GState) (h : Ordinary isRef c) :
    switchBody isRef p (some c.r) st0 = .ok (some c.r, true, st0) := by
  unfold Ordinary LineBreak RefInvalid at h
  unfold switchBody
  split <;> simp_all

theorem switchBody_star (isRef p : Bool) (c : Sym) (st0 : GState) (h : c.r = 42) :
    switchBody isRef p (some c.r) st0 = .ok (some c.r, false, st0) := by
  rw [h]; rfl

theorem switchBody_opt (isRef : Bool) (c : Sym) (st0 : GState) (h : c.r = 63 ∨ c.r = 43) :
    switchBody isRef true (some c.r) st0 = .ok (some c.r, false, st0) := by
  rcases h with h | h <;> rw [h] <;> rfl

theorem switchBody_esc (isRef p : Bool) (b d : Sym) (st0 : GState) (rest : List Sym) (q : Bool)
    (hb : b.r = 92) (hd : Escapable isRef d.r) (ha : Abs st0 (d :: rest) q) :
    switchBody isRef p (some b.r) st0 = .ok (some d.r, true, st0.next.2) := by
  have hpk : st0.peek = some d.r := by rw [ha.peek]; rfl
  have hn := ha.next.1
  rw [hb]
  unfold switchBody
  simp only [hpk, hn, symRune]
  unfold Escapable at hd
  rcases hd with h | h | h | ⟨hr, h | h | h⟩ <;> simp [*]

theorem switchBody_bslash (p : Bool) (b : Sym) (st0 : GState) (l : List Sym) (q : Bool)
    (hb : b.r = 92) (hl : ∀ d, l.head? = some d → ¬ PathEscapable d.r) (ha : Abs st0 l q) :
    switchBody false p (some b.r) st0 = .ok (some b.r, true, st0) := by
  have hpk : st0.peek = l.head?.map (·.r) := ha.peek
  rw [hb]
  unfold switchBody
  simp only [hpk]
  cases hh : l.head? with
  | none => simp
  | some d =>
    have := hl d hh
    unfold PathEscapable at this
    simp only [Option.map_some]
    split <;> simp_all


theorem weight_ne_one {items : List Item} (h : ClassOK items) : weight items ≠ 1 := by
  intro hw
  obtain ⟨c, hc⟩ := weight_eq_one hw
  exact h.2 c hc

theorem switchBody_cls (isRef p : Bool) (o : Sym) (st0 : GState) (l : List Sym) (items : List Item)
    (rest : List Sym) (q : Bool) (ho : o.r = 91) (hb : ClassBody false isRef l items rest) (hok : ClassOK items)
    (ha : Abs st0 l q) :
    ∃ st', switchBody isRef p (some o.r) st0 = .ok (some 93, true, st') ∧ Abs st' rest q := by
  obtain ⟨st', he, ha'⟩ := classLoop_complete isRef hb st0 0 q ha
  refine ⟨st', ?_, ha'⟩
  have hpk : st0.peek ≠ some 93 := by
    rw [ha.peek]
    cases hb with
    | close c rest hc => exact absurd rfl hok.1
    | single c l items rest hm _ _ => simpa using hm.1
    | range lo d hi l items rest hm _ _ _ _ => simpa using hm.1
  rw [ho]
  unfold switchBody
  simp only [hpk, if_false, he, Nat.zero_add, weight_ne_one hok]

theorem finishNext_ok (isRef : Bool) (c' : Option Nat) (pr q : Bool) (st1 : GState) (rest : List Sym)
    (ha : Abs st1 rest q) (hend : rest = [] → isRef = true → c' ≠ some 47 ∧ c' ≠ some 46) :
    ∃ st', finishNext isRef (.ok (c', pr, st1)) = (!rest.isEmpty, st') ∧ Abs st' rest pr := by
  have hpk : ({ st1 with prec := pr } : GState).peek = rest.head?.map (·.r) := ha.peek
  unfold finishNext
  simp only [hpk]
  cases rest with
  | nil =>
    simp only [List.head?_nil, Option.map_none, if_true, List.isEmpty_nil, Bool.not_true]
    have : (isRef && (decide (c' = some 47) || decide (c' = some 46))) = false := by
      cases isRef with
      | false => rfl
      | true => have := hend rfl rfl; simp [this.1, this.2]
    simp only [this, Bool.false_eq_true, if_false]
    exact ⟨_, rfl, ha.with_prec pr⟩
  | cons a b =>
    simp only [List.head?_cons, Option.map_some, reduceCtorEq, if_false, List.isEmpty_cons, Bool.not_false]
    exact ⟨_, rfl, ha.with_prec pr⟩

/-- One step of the loop on an abstract state, given the outcome of the switch. -/
theorem validateNext_of_switch (isRef : Bool) (st : GState) (c : Sym) (l rest : List Sym) (p pr q : Bool)
    (c' : Option Nat) (st1 : GState) (ha : Abs st (c :: l) p)
    (hsw : switchBody isRef p (some c.r) st.next.2 = .ok (c', pr, st1)) (ha1 : Abs st1 rest q)
    (hend : rest = [] → isRef = true → c' ≠ some 47 ∧ c' ≠ some 46) :
    ∃ st', validateNext isRef st = (!rest.isEmpty, st') ∧ Abs st' rest pr := by
  unfold validateNext
  simp only [ha.next.1, symRune, ha.2.1, hsw]
  exact finishNext_ok isRef c' pr q st1 rest ha1 hend

theorem loop_step (isRef : Bool) (st st' : GState) (c : Sym) (l rest : List Sym) (p pr : Bool)
    (ha : Abs st (c :: l) p) (hv : validateNext isRef st = (!rest.isEmpty, st')) (ha' : Abs st' rest pr)
    (ih : rest ≠ [] → (loop isRef st').errs = []) : (loop isRef st).errs = [] := by
  rw [loop.eq_1]
  have hch : ¬ st.scan.ch = none := by rw [ha.ch]; simp
  simp only [hch, ↓reduceDIte, hv]
  cases rest with
  | nil => simpa using ha'.2.2.1
  | cons a b => simpa using ih (by simp)


theorem EndOK_tail {isRef : Bool} {c : Sym} {rest : List Sym} (h : EndOK isRef (c :: rest)) (hne : rest ≠ []) :
    EndOK isRef rest := by
  cases rest with
  | nil => exact absurd rfl hne
  | cons a b => intro hr; simpa [List.getLast?_cons_cons] using h hr

theorem EndOK_single {isRef : Bool} {c : Sym} (h : EndOK isRef [c]) :
    isRef = true → some c.r ≠ some 47 ∧ some c.r ≠ some 46 := by
  intro hr; simpa using h hr

theorem classBody_suffix {strict isRef : Bool} {l : List Sym} {items : List Item} {rest : List Sym}
    (h : ClassBody strict isRef l items rest) : rest <:+ l := by
  induction h with
  | close c rest hc => exact List.suffix_cons _ _
  | single c l items rest _ _ _ ih => exact ih.trans (List.suffix_cons _ _)
  | range lo d hi l items rest _ _ _ _ _ ih =>
    exact ih.trans ((List.suffix_cons _ _).trans ((List.suffix_cons _ _).trans (List.suffix_cons _ _)))

theorem EndOK_suffix {isRef : Bool} {l rest : List Sym} (h : EndOK isRef l) (hs : rest <:+ l) (hne : rest ≠ []) :
    EndOK isRef rest := by
  intro hr
  rw [← getLast_of_suffix hs hne]
  exact h hr

theorem loop_complete (isRef : Bool) {p : Bool} {l : List Sym} (hE : Elems false isRef p l) :
    ∀ st, Abs st l p → l ≠ [] → EndOK isRef l → (loop isRef st).errs = [] := by
  induction hE with
  | nil p => intro st _ hne; exact absurd rfl hne
  | ord p c rest hord _ ih =>
    intro st ha _ hend
    obtain ⟨st', hv, ha'⟩ := validateNext_of_switch isRef st c rest rest p true p (some c.r) st.next.2 ha
      (switchBody_ord isRef p c st.next.2 hord) ha.next.2 (fun hr => by subst hr; exact EndOK_single hend)
    exact loop_step isRef st st' c rest rest p true ha hv ha' (fun hr => ih st' ha' hr (EndOK_tail hend hr))
  | bslash p c rest hr hc hl _ ih =>
    intro st ha _ hend
    subst hr
    obtain ⟨st', hv, ha'⟩ := validateNext_of_switch false st c rest rest p true p (some c.r) st.next.2 ha
      (switchBody_bslash p c st.next.2 rest p hc hl ha.next.2) ha.next.2 (fun _ h => by cases h)
    exact loop_step false st st' c rest rest p true ha hv ha' (fun hr => ih st' ha' hr (EndOK_tail hend hr))
  | esc p b c rest hb hesc _ ih =>
    intro st ha _ hend
    obtain ⟨st', hv, ha'⟩ := validateNext_of_switch isRef st b (c :: rest) rest p true p (some c.r) st.next.2.next.2 ha
      (switchBody_esc isRef p b c st.next.2 rest p hb hesc ha.next.2) ha.next.2.next.2
      (fun _ hr => by
        unfold Escapable at hesc
        subst hr
        simp only [Option.some.injEq, ne_eq]
        omega)
    exact loop_step isRef st st' b (c :: rest) rest p true ha hv ha'
      (fun hr => ih st' ha' hr (EndOK_tail (EndOK_tail hend (by simp)) hr))
  | star p c rest hc _ ih =>
    intro st ha _ hend
    obtain ⟨st', hv, ha'⟩ := validateNext_of_switch isRef st c rest rest p false p (some c.r) st.next.2 ha
      (switchBody_star isRef p c st.next.2 hc) ha.next.2 (fun _ _ => by rw [hc]; simp)
    exact loop_step isRef st st' c rest rest p false ha hv ha' (fun hr => ih st' ha' hr (EndOK_tail hend hr))
  | opt c rest hc _ ih =>
    intro st ha _ hend
    obtain ⟨st', hv, ha'⟩ := validateNext_of_switch isRef st c rest rest true false true (some c.r) st.next.2 ha
      (switchBody_opt isRef c st.next.2 hc) ha.next.2 (fun _ _ => by simp only [Option.some.injEq, ne_eq]; omega)
    exact loop_step isRef st st' c rest rest true false ha hv ha' (fun hr => ih st' ha' hr (EndOK_tail hend hr))
  | cls p o l items rest ho hb hok _ ih =>
    intro st ha _ hend
    obtain ⟨st1, hsw, ha1⟩ := switchBody_cls isRef p o st.next.2 l items rest p ho hb hok ha.next.2
    obtain ⟨st', hv, ha'⟩ := validateNext_of_switch isRef st o l rest p true p (some 93) st1 ha hsw ha1
      (fun _ _ => by simp)
    exact loop_step isRef st st' o l rest p true ha hv ha'
      (fun hr => ih st' ha' hr (EndOK_suffix hend ((classBody_suffix hb).trans (List.suffix_cons _ _)) hr))


theorem init_Abs (src : List Sym) (hb : NoBOM src) (hne : src ≠ []) (hok : AllOk src) :
    Abs { scan := (Scanner.init src).1, errs := scanErrs (Scanner.init src).2 } src false := by
  obtain ⟨hgp, _⟩ := init_OkI src hb hne
  refine ⟨hgp, rfl, ?_, hok⟩
  cases src with
  | nil => exact absurd rfl hne
  | cons c t =>
    have hc : c.r ≠ 0xFEFF := by simpa [NoBOM] using hb
    simp only []
    rw [scanErrs_nil, init_noBOM c t hc, advance_errs_nil]
    exact hok c (List.mem_cons_self ..)

theorem validate_complete (isRef : Bool) (src : List Sym) (hb : NoBOM src) (h : ValidGlobLoose isRef src) :
    validate isRef src = [] := by
  obtain ⟨hok, hbne, hE, hends⟩ := h
  have hne : src ≠ [] := by
    intro h0; subst h0; simp [body] at hbne
  have hemp : src.isEmpty = false := by cases src <;> simp_all
  have ha := init_Abs src hb hne hok
  unfold validate
  simp only [hemp, Bool.false_eq_true, if_false]
  generalize ({ scan := (Scanner.init src).1, errs := scanErrs (Scanner.init src).2 } : GState) = st at ha
  have hpeek := ha.peek
  have hendOK : EndOK isRef src := fun hr => (hends hr).2
  split
  · -- '/'
    rename_i h47
    rw [hpeek] at h47
    have hr : isRef = false := by
      cases isRef with
      | false => rfl
      | true => exact absurd h47 (hends rfl).1
    subst hr
    have hbody : body src = src := by simp [body, h47]
    rw [hbody] at hE
    simpa using loop_complete false hE st ha hne hendOK
  · -- '!'
    rename_i h33
    rw [hpeek] at h33
    have hbody : body src = src.tail := by simp [body, h33]
    rw [hbody] at hE hbne
    cases src with
    | nil => exact absurd rfl hne
    | cons c t =>
      simp only [List.tail_cons] at hE hbne
      have ha1 := ha.next.2
      have hpk : st.next.2.peek ≠ none := by
        rw [ha1.peek]
        cases t with
        | nil => exact absurd rfl hbne
        | cons a b => simp
      simp only [hpk, if_false]
      exact loop_complete isRef hE _ (ha1.with_prec false) hbne (EndOK_tail hendOK hbne)
  · rename_i h47 h33
    rw [hpeek] at h33
    have hbody : body src = src := by unfold body; rw [if_neg h33]
    rw [hbody] at hE
    exact loop_complete isRef hE st ha hne hendOK

end AL.Glob
