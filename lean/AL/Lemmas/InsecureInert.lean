import AL.Lemmas.InsecureBasic
/-
  C11, smaller facts:
  * if no variable event names a trie root, the machine never has a cursor and never reports (b),
  * which leave kinds can be `.var`,
  * `chainReport` once the root lookup and the walk are known (d).
-/
namespace AL.Insecure
open AL AL.Sema AL.Spec

/-- a step keeps "no cursor, no report" as long as a variable event does not name a root -/
theorem step_inert (roots : List Trie) (st : State) (ev : Ev)
    (hc : st.cur = []) (hr : st.reports = [])
    (hev : ∀ n, ev = .leave (.var n) → roots.find? (·.name = n) = none) :
    (st.step roots ev).cur = [] ∧ (st.step roots ev).reports = [] := by
  cases ev with
  | enterSafeCall => simp [State.step, hc, hr]
  | leave k =>
    by_cases hs : st.safeCalls > 0
    · cases k <;> simp [State.step, hs, hc, hr]
      split <;> simp [finish_eq]
    · cases k with
      | var n => simp [State.step, hs, finish_eq, State.onVar, hev n rfl, hc, hr]
      | objDeref p => simp [State.step, hs, State.onPropAccess, hc, hr]
      | indexLit p => simp [State.step, hs, State.onPropAccess, hc, hr]
      | index => cases hf : st.filteringObject <;> simp [State.step, hs, State.onIndexAccess, hc, hr, hf]
      | arrDeref => simp [State.step, hs, State.onObjectFilter, hc, hr]
      | safeCall => simp [State.step, hs, finish_eq, hc, hr]
      | other => simp [State.step, hs, finish_eq, hc, hr]

theorem exec_inert (roots : List Trie) (evs : List Ev) :
    ∀ st : State, st.cur = [] → st.reports = [] →
      (∀ n, Ev.leave (.var n) ∈ evs → roots.find? (·.name = n) = none) →
      (exec roots st evs).cur = [] ∧ (exec roots st evs).reports = [] := by
  induction evs with
  | nil => intro st hc hr _; exact ⟨hc, hr⟩
  | cons ev rest ih =>
    intro st hc hr hev
    obtain ⟨h1, h2⟩ := step_inert roots st ev hc hr (fun n h => hev n (by simp [h]))
    exact ih _ h1 h2 (fun n h => hev n (by simp [h]))

theorem run_nil_of_no_root_events (roots : List Trie) (evs : List Ev)
    (hev : ∀ n, Ev.leave (.var n) ∈ evs → roots.find? (·.name = n) = none) : run roots evs = [] := by
  obtain ⟨h1, h2⟩ := exec_inert roots evs {} rfl rfl hev
  rw [run_eq, finish_eq]
  simp [h1, h2]

theorem not_mem_enterOf (lower : String → String) (e : E) (k : LeaveKind) : Ev.leave k ∉ enterOf lower e := by
  cases e with
  | call c args => simp only [enterOf]; split <;> simp
  | _ => simp [enterOf]

theorem leaveOf_index_ne_var (lower : String → String) (r i : E) (n : String) :
    leaveOf lower (.index r i) ≠ .var n := by
  cases i <;> simp [leaveOf]

theorem leaveOf_call_ne_var (lower : String → String) (c : String) (args : List E) (n : String) :
    leaveOf lower (.call c args) ≠ .var n := by
  simp only [leaveOf]; split <;> simp

/-! ### (d) -/

theorem find?_of_pairwise (roots : List Trie) (h : roots.Pairwise (fun a b => a.name ≠ b.name))
    (r : Trie) (hr : r ∈ roots) : roots.find? (·.name = r.name) = some r := by
  induction roots with
  | nil => simp at hr
  | cons x xs ih =>
    rw [List.pairwise_cons] at h
    by_cases hx : x.name = r.name
    · rcases List.mem_cons.mp hr with rfl | hmem
      · simp
      · exact absurd hx (h.1 r hmem)
    · have hmem : r ∈ xs := by
        rcases List.mem_cons.mp hr with rfl | hmem
        · exact absurd rfl hx
        · exact hmem
      simp [hx, ih h.2 hmem]

theorem chainReport_of_find (roots : List Trie) (root : String) (segs : List Seg) (r : Trie) (leaf : Cur)
    (hf : roots.find? (·.name = root) = some r)
    (hw : followAll [⟨[r.name], r⟩] false segs = [leaf]) (hl : leaf.node.isLeaf = true) :
    chainReport roots root segs = [[leaf.pathStr]] := by
  unfold chainReport
  rw [hf]
  simp [hw, hl, sortStrs, insertStr]

end AL.Insecure
