import AL.Lemmas.C17DRule
import AL.Lemmas.C05DEvents
/-
  AL.Props.C17Doc, the document side: readers of the yaml.Node tree for what is written under `on.<event>.<filter>`
  (`valueItems`, `itemsOfEvent`, `itemsOfOn`, `docFilterItems`; the scalars among them: `docFilterPatterns`) and the parser
  (AL.PW) on exactly that path: `parseWebhookEventFilter` → `webhookKey` loop → `eventOfKey` loop → `parseEvents` → `parse`.

  Only the HEADERS of the three mappings on the path (the workflow, `on:`, the event) have to be accepted by `parseMapping`
  (keys are non-empty scalars, no key twice): what the values elsewhere parse to — and whether the parser reports
  anything about them — plays no role.
-/
namespace AL.C17D
open AL AL.PW AL.Rules AL.Yaml AL.Ast AL.C03P AL.C05D

/-! ### the document side -/

/-- the filter keys with their kinds, in the order rule_glob.go checks them -/
def filterKeys : List (String × Kind) :=
  [("branches", .ref), ("branches-ignore", .ref), ("tags", .ref), ("tags-ignore", .ref), ("paths", .path), ("paths-ignore", .path)]

/-- the keys of `on:` that are NOT webhook events (parse.go gives them their own sections): every other key takes filters -/
def specialEvents : List String := ["schedule", "workflow_dispatch", "repository_dispatch", "workflow_call"]

def isSpecial (s : String) : Bool := specialEvents.contains s

theorem isSpecial_iff (s : String) :
    isSpecial s = true ↔ s = "schedule" ∨ s = "workflow_dispatch" ∨ s = "repository_dispatch" ∨ s = "workflow_call" := by
  simp [isSpecial, specialEvents]

theorem isSpecial_false (s : String) :
    isSpecial s = false ↔ s ≠ "schedule" ∧ s ≠ "workflow_dispatch" ∧ s ≠ "repository_dispatch" ∧ s ≠ "workflow_call" := by
  rw [← Bool.not_eq_true, isSpecial_iff]
  simp only [not_or, ne_eq]

/-- what is written as the value of a filter key: the node itself when it is a scalar, the elements when it is a sequence -/
def valueItems (v : Node) : List Node :=
  if v.kind = .scalar then [v] else if v.kind = .sequence then v.content else []

/-- the SCALARS written as the value of a filter key -/
def patternNodes (v : Node) : List Node := (valueItems v).filter fun c => c.kind = .scalar

/-- the items under the six filter keys of an event node, with their kinds -/
def itemsOfEvent (ev : Node) : List (Node × Kind) :=
  filterKeys.flatMap fun fk =>
    match mget ev fk.1 with
    | some v => (valueItems v).map fun c => (c, fk.2)
    | none => []

/-- the pairs of `on:` (written as a mapping) whose key is a webhook event -/
def eventsOfOn (on : Node) : List (Node × Node) :=
  if on.kind = .mapping then (pairs on.content).filter fun p => !isSpecial p.1.value else []

def itemsOfOn (on : Node) : List (Node × Kind) := (eventsOfOn on).flatMap fun p => itemsOfEvent p.2

/-- the webhook events of the document: key and value node -/
def docEvents (doc : Node) : List (Node × Node) :=
  match docOn doc with
  | some on => eventsOfOn on
  | none => []

/-- everything written under `on.<event>.<filter>` (a scalar, or the elements of a sequence), with its kind -/
def docFilterItems (doc : Node) : List (Node × Kind) := (docEvents doc).flatMap fun p => itemsOfEvent p.2

/-- **the filter patterns written in the document**: the scalars under `on.<event>.<filter>` (the value itself, or an element
of the sequence), `<event>` any key of `on:` but `schedule`, `workflow_dispatch`, `repository_dispatch`, `workflow_call`,
`<filter>` one of `branches`, `branches-ignore`, `tags`, `tags-ignore` (kind ref), `paths`, `paths-ignore` (kind path) -/
def docFilterPatterns (doc : Node) : List (Node × Kind) := (docFilterItems doc).filter fun p => p.1.kind = .scalar

/-- the string the parser makes of an item: `parseString`, which yields the empty string at the node's position for a
non-scalar or an empty scalar (and reports it) -/
def strOf (c : Node) : Str := (parseString c false).1

theorem strOf_scalar (c : Node) (hk : c.kind = .scalar) (hv : c.value ≠ "") : strOf c = newString c := by
  simp [strOf, parseString, checkString, hk, hv]

theorem strOf_value_ne (c : Node) (h : (strOf c).value ≠ "") : c.kind = .scalar ∧ c.value ≠ "" ∧ strOf c = newString c := by
  by_cases hk : c.kind = .scalar
  · by_cases hv : c.value = ""
    · exfalso; apply h; simp [strOf, parseString, checkString, hk, hv]
    · exact ⟨hk, hv, strOf_scalar c hk hv⟩
  · exfalso; apply h; simp [strOf, parseString, checkString, hk]

theorem strOf_clean (c : Node) (h : (parseString c false).2 = []) : c.kind = .scalar ∧ c.value ≠ "" ∧ strOf c = newString c := by
  by_cases hk : c.kind = .scalar
  · by_cases hv : c.value = ""
    · simp [parseString, checkString, hk, hv] at h
    · exact ⟨hk, hv, strOf_scalar c hk hv⟩
  · simp [parseString, checkString, hk] at h

/-! ### the value of a filter key -/

theorem parseStrings_fst (ae : Bool) : ∀ (cs : List Node), (parseStrings ae cs).1 = cs.map fun c => (parseString c ae).1
  | [] => rfl
  | c :: cs => by simp [parseStrings, parseStrings_fst ae cs]

theorem parseStrings_clean (ae : Bool) : ∀ (cs : List Node), (parseStrings ae cs).2 = [] → ∀ c ∈ cs, (parseString c ae).2 = []
  | [], _, c, hc => by cases hc
  | x :: cs, h, c, hc => by
    simp only [parseStrings, append_nil_iff] at h
    rcases List.mem_cons.1 hc with rfl | hc
    · exact h.1
    · exact parseStrings_clean ae cs h.2 c hc

/-- **the strings of a filter are the items written as its value**, each as `parseString` reads it — whatever is reported -/
theorem filter_values (name : Str) (v : Node) :
    (parseWebhookEventFilter name v).1.values.getD [] = (valueItems v).map strOf := by
  simp only [parseWebhookEventFilter, parseStringOrStringSequence, valueItems]
  by_cases hk : v.kind = .scalar
  · simp [hk, strOf]
  · simp only [hk, if_false, parseStringSequence, checkSequence]
    by_cases hs : v.kind = .sequence
    · simp only [hs, ne_eq, not_true_eq_false, if_false, Bool.false_eq_true, if_true, checkNotEmpty]
      by_cases hl : v.content.length = 0
      · have : v.content = [] := List.length_eq_zero_iff.mp hl
        simp [this]
      · simp only [hl, if_false, Bool.not_true, Bool.false_eq_true, Option.getD_some, parseStrings_fst]
        rfl
    · simp [hs]

/-- accepted without a diagnostic: every item is a non-empty scalar -/
theorem filter_clean (name : Str) (v : Node) (h : (parseWebhookEventFilter name v).2 = []) :
    ∀ c ∈ valueItems v, (parseString c false).2 = [] := by
  intro c hc
  simp only [parseWebhookEventFilter, parseStringOrStringSequence] at h
  simp only [valueItems] at hc
  by_cases hk : v.kind = .scalar
  · simp only [hk, if_true, List.mem_singleton] at hc
    subst hc
    simpa [hk] using h
  · simp only [hk, if_false] at hc h
    by_cases hs : v.kind = .sequence
    · simp only [hs, if_true] at hc
      simp only [parseStringSequence, checkSequence, hs, ne_eq, not_true_eq_false, if_false, Bool.false_eq_true, checkNotEmpty] at h
      by_cases hl : v.content.length = 0
      · simp [hl] at h
      · simp only [hl, if_false, Bool.not_true, Bool.false_eq_true, List.nil_append] at h
        exact parseStrings_clean false _ h c hc
    · simp [hs] at hc

/-! ### one webhook event -/

def hook0 (name : Str) : WebhookEvent := { hook := name, pos := name.pos }

/-- the state of `parseWebhookEvent` after its key loop -/
def hookLoop (cfg : Cfg) (name : Str) (n : Node) : WebhookEvent × List PErr :=
  loop (webhookKey name) (hook0 name) (parseMapping cfg (sectionWhat name.value) n true true).1

theorem parseWebhookEvent_eq (cfg : Cfg) (name : Str) (n : Node) :
    parseWebhookEvent cfg name n =
      (.webhook (hookLoop cfg name n).1, (parseMapping cfg (sectionWhat name.value) n true true).2 ++ (hookLoop cfg name n).2) := rfl

/-- a filter field of the loop state: the strings are the items under its key -/
theorem field_strs (cfg : Cfg) (name : Str) (n : Node) (hm : (parseMapping cfg (sectionWhat name.value) n true true).2 = [])
    (π : WebhookEvent → Option Filter) (k : String) (h0 : π (hook0 name) = none)
    (hne : ∀ st kv, kv.id ≠ k → π (webhookKey name st kv).1 = π st)
    (heq : ∀ st kv, kv.id = k → π (webhookKey name st kv).1 = some (parseWebhookEventFilter kv.key kv.val).1) :
    filterStrs (π (hookLoop cfg name n).1) = match mget n k with | some v => (valueItems v).map strOf | none => [] := by
  unfold hookLoop
  rw [sect_field cfg (sectionWhat name.value) n true (webhookKey name) (hook0 name) π k
    (fun kv => some (parseWebhookEventFilter kv.key kv.val).1) hne heq hm]
  simp only [mget]
  cases mpair n k with
  | none => simp [h0, filterStrs]
  | some p => simp only [Option.map_some, filterStrs, kvOf_true, filter_values]

theorem wk_branches_ne (name : Str) (st : WebhookEvent) (kv : KV) (h : kv.id ≠ "branches") :
    (webhookKey name st kv).1.branches = st.branches := by
  simp only [webhookKey]; split <;> first | rfl | exact absurd ‹_› h
theorem wk_branchesIgnore_ne (name : Str) (st : WebhookEvent) (kv : KV) (h : kv.id ≠ "branches-ignore") :
    (webhookKey name st kv).1.branchesIgnore = st.branchesIgnore := by
  simp only [webhookKey]; split <;> first | rfl | exact absurd ‹_› h
theorem wk_tags_ne (name : Str) (st : WebhookEvent) (kv : KV) (h : kv.id ≠ "tags") :
    (webhookKey name st kv).1.tags = st.tags := by
  simp only [webhookKey]; split <;> first | rfl | exact absurd ‹_› h
theorem wk_tagsIgnore_ne (name : Str) (st : WebhookEvent) (kv : KV) (h : kv.id ≠ "tags-ignore") :
    (webhookKey name st kv).1.tagsIgnore = st.tagsIgnore := by
  simp only [webhookKey]; split <;> first | rfl | exact absurd ‹_› h
theorem wk_paths_ne (name : Str) (st : WebhookEvent) (kv : KV) (h : kv.id ≠ "paths") :
    (webhookKey name st kv).1.paths = st.paths := by
  simp only [webhookKey]; split <;> first | rfl | exact absurd ‹_› h
theorem wk_pathsIgnore_ne (name : Str) (st : WebhookEvent) (kv : KV) (h : kv.id ≠ "paths-ignore") :
    (webhookKey name st kv).1.pathsIgnore = st.pathsIgnore := by
  simp only [webhookKey]; split <;> first | rfl | exact absurd ‹_› h

theorem wk_branches_eq (name : Str) (st : WebhookEvent) (kv : KV) (h : kv.id = "branches") :
    (webhookKey name st kv).1.branches = some (parseWebhookEventFilter kv.key kv.val).1 ∧
    (webhookKey name st kv).2 = (parseWebhookEventFilter kv.key kv.val).2 := by
  simp only [webhookKey]; split <;> first | exact ⟨rfl, rfl⟩ | (exfalso; simp_all)
theorem wk_branchesIgnore_eq (name : Str) (st : WebhookEvent) (kv : KV) (h : kv.id = "branches-ignore") :
    (webhookKey name st kv).1.branchesIgnore = some (parseWebhookEventFilter kv.key kv.val).1 ∧
    (webhookKey name st kv).2 = (parseWebhookEventFilter kv.key kv.val).2 := by
  simp only [webhookKey]; split <;> first | exact ⟨rfl, rfl⟩ | (exfalso; simp_all)
theorem wk_tags_eq (name : Str) (st : WebhookEvent) (kv : KV) (h : kv.id = "tags") :
    (webhookKey name st kv).1.tags = some (parseWebhookEventFilter kv.key kv.val).1 ∧
    (webhookKey name st kv).2 = (parseWebhookEventFilter kv.key kv.val).2 := by
  simp only [webhookKey]; split <;> first | exact ⟨rfl, rfl⟩ | (exfalso; simp_all)
theorem wk_tagsIgnore_eq (name : Str) (st : WebhookEvent) (kv : KV) (h : kv.id = "tags-ignore") :
    (webhookKey name st kv).1.tagsIgnore = some (parseWebhookEventFilter kv.key kv.val).1 ∧
    (webhookKey name st kv).2 = (parseWebhookEventFilter kv.key kv.val).2 := by
  simp only [webhookKey]; split <;> first | exact ⟨rfl, rfl⟩ | (exfalso; simp_all)
theorem wk_paths_eq (name : Str) (st : WebhookEvent) (kv : KV) (h : kv.id = "paths") :
    (webhookKey name st kv).1.paths = some (parseWebhookEventFilter kv.key kv.val).1 ∧
    (webhookKey name st kv).2 = (parseWebhookEventFilter kv.key kv.val).2 := by
  simp only [webhookKey]; split <;> first | exact ⟨rfl, rfl⟩ | (exfalso; simp_all)
theorem wk_pathsIgnore_eq (name : Str) (st : WebhookEvent) (kv : KV) (h : kv.id = "paths-ignore") :
    (webhookKey name st kv).1.pathsIgnore = some (parseWebhookEventFilter kv.key kv.val).1 ∧
    (webhookKey name st kv).2 = (parseWebhookEventFilter kv.key kv.val).2 := by
  simp only [webhookKey]; split <;> first | exact ⟨rfl, rfl⟩ | (exfalso; simp_all)

theorem key_items (o : Option Node) (k : Kind) :
    ((match o with | some v => (valueItems v).map strOf | none => []).map fun s => (s, k)) =
      (match o with | some v => (valueItems v).map fun c => (c, k) | none => []).map fun (p : Node × Kind) => (strOf p.1, p.2) := by
  cases o with
  | none => rfl
  | some v => simp only [List.map_map]; rfl

/-- **the patterns of a webhook event are the items under its six filter keys**, each as `parseString` reads it — when the
header of the event's mapping is accepted -/
theorem webhook_patterns (cfg : Cfg) (name : Str) (n : Node) (hm : (parseMapping cfg (sectionWhat name.value) n true true).2 = []) :
    eventPatterns (parseWebhookEvent cfg name n).1 = (itemsOfEvent n).map fun p => (strOf p.1, p.2) := by
  rw [parseWebhookEvent_eq]
  simp only [eventPatterns, filtersOf, itemsOfEvent, filterKeys, List.flatMap_cons, List.flatMap_nil, List.append_nil, List.map_append]
  rw [field_strs cfg name n hm (·.branches) "branches" rfl (wk_branches_ne name) (fun st kv h => (wk_branches_eq name st kv h).1),
    field_strs cfg name n hm (·.branchesIgnore) "branches-ignore" rfl (wk_branchesIgnore_ne name) (fun st kv h => (wk_branchesIgnore_eq name st kv h).1),
    field_strs cfg name n hm (·.tags) "tags" rfl (wk_tags_ne name) (fun st kv h => (wk_tags_eq name st kv h).1),
    field_strs cfg name n hm (·.tagsIgnore) "tags-ignore" rfl (wk_tagsIgnore_ne name) (fun st kv h => (wk_tagsIgnore_eq name st kv h).1),
    field_strs cfg name n hm (·.paths) "paths" rfl (wk_paths_ne name) (fun st kv h => (wk_paths_eq name st kv h).1),
    field_strs cfg name n hm (·.pathsIgnore) "paths-ignore" rfl (wk_pathsIgnore_ne name) (fun st kv h => (wk_pathsIgnore_eq name st kv h).1)]
  simp only [key_items]

/-- accepted without a diagnostic: every item under a filter key of the event is a non-empty scalar -/
theorem webhook_clean (cfg : Cfg) (name : Str) (n : Node) (h : (parseWebhookEvent cfg name n).2 = []) :
    (parseMapping cfg (sectionWhat name.value) n true true).2 = [] ∧ ∀ p ∈ itemsOfEvent n, (parseString p.1 false).2 = [] := by
  rw [parseWebhookEvent_eq] at h
  simp only [append_nil_iff] at h
  refine ⟨h.1, ?_⟩
  intro p hp
  simp only [itemsOfEvent, List.mem_flatMap] at hp
  obtain ⟨fk, hfk, hp⟩ := hp
  cases hg : mget n fk.1 with
  | none => rw [hg] at hp; cases hp
  | some v =>
    rw [hg] at hp
    simp only [List.mem_map] at hp
    obtain ⟨c, hc, rfl⟩ := hp
    simp only [mget] at hg
    cases hq : mpair n fk.1 with
    | none => rw [hq] at hg; cases hg
    | some q =>
      rw [hq] at hg
      simp only [Option.map_some, Option.some.injEq] at hg
      subst hg
      obtain ⟨hmem, hk⟩ := mpair_mem hq
      obtain ⟨st, hc'⟩ := sect_clean_at cfg _ n true true (webhookKey name) _ h.1 h.2 q hmem
      have hid : (kvOf cfg true q).id = fk.1 := by rw [kvOf_true]; exact hk
      have hf : (parseWebhookEventFilter (kvOf cfg true q).key (kvOf cfg true q).val).2 = [] := by
        simp only [filterKeys, List.mem_cons, List.not_mem_nil, or_false] at hfk
        rcases hfk with rfl | rfl | rfl | rfl | rfl | rfl
        · rw [← (wk_branches_eq name st _ hid).2]; exact hc'
        · rw [← (wk_branchesIgnore_eq name st _ hid).2]; exact hc'
        · rw [← (wk_tags_eq name st _ hid).2]; exact hc'
        · rw [← (wk_tagsIgnore_eq name st _ hid).2]; exact hc'
        · rw [← (wk_paths_eq name st _ hid).2]; exact hc'
        · rw [← (wk_pathsIgnore_eq name st _ hid).2]; exact hc'
      rw [kvOf_true] at hf
      exact filter_clean _ _ hf c hc

/-! ### the events of `on:` -/

/-- what one entry of `on:` contributes -/
def kvPatterns (cfg : Cfg) (kv : KV) : List (Str × Kind) :=
  if isSpecial kv.id then [] else eventPatterns (parseWebhookEvent cfg kv.key kv.val).1

theorem eventOfKey_patterns (cfg : Cfg) (st : List Event) (kv : KV) :
    (eventOfKey cfg st kv).1.flatMap eventPatterns = st.flatMap eventPatterns ++ kvPatterns cfg kv := by
  simp only [eventOfKey]
  split
  · rename_i hid
    have : kvPatterns cfg kv = [] := by
      have hsp : isSpecial kv.id = true := (isSpecial_iff kv.id).2 (by simp [hid])
      simp [kvPatterns, hsp]
    rw [this, List.append_nil]
    cases hs : (parseScheduleEvent cfg kv.key.pos kv.val).1 with
    | none => rfl
    | some ev =>
      simp only [parseScheduleEvent] at hs
      split at hs
      · cases hs
      · cases hs
        simp [eventPatterns]
  · rename_i hid
    have : kvPatterns cfg kv = [] := by
      have hsp : isSpecial kv.id = true := (isSpecial_iff kv.id).2 (by simp [hid])
      simp [kvPatterns, hsp]
    simp [this, parseWorkflowDispatchEvent, eventPatterns]
  · rename_i hid
    have : kvPatterns cfg kv = [] := by
      have hsp : isSpecial kv.id = true := (isSpecial_iff kv.id).2 (by simp [hid])
      simp [kvPatterns, hsp]
    simp [this, parseRepositoryDispatchEvent, eventPatterns]
  · rename_i hid
    have : kvPatterns cfg kv = [] := by
      have hsp : isSpecial kv.id = true := (isSpecial_iff kv.id).2 (by simp [hid])
      simp [kvPatterns, hsp]
    simp [this, parseWorkflowCallEvent, eventPatterns]
  · rename_i h1 h2 h3 h4
    have hsp : isSpecial kv.id = false := (isSpecial_false kv.id).2 ⟨h1, h2, h3, h4⟩
    have : kvPatterns cfg kv = eventPatterns (parseWebhookEvent cfg kv.key kv.val).1 := by
      simp [kvPatterns, hsp]
    simp [this]

theorem onLoop_patterns (cfg : Cfg) : ∀ (kvs : List KV) (init : List Event),
    (loop (eventOfKey cfg) init kvs).1.flatMap eventPatterns = init.flatMap eventPatterns ++ kvs.flatMap (kvPatterns cfg)
  | [], init => by simp [loop]
  | kv :: rest, init => by
    rw [loop_cons_fst, onLoop_patterns cfg rest, eventOfKey_patterns, List.flatMap_cons, List.append_assoc]

theorem eventsOfSeq_patterns : ∀ (cs : List Node), (eventsOfSeq cs).1.flatMap eventPatterns = []
  | [] => rfl
  | c :: cs => by
    have ih := eventsOfSeq_patterns cs
    simp only [eventsOfSeq]
    split <;> simp [ih, eventPatterns, filtersOf, filterStrs]

/-- the header conditions on the `on:` node: when it is a mapping, `parseMapping` accepts its header and the header of every
webhook event in it -/
def OnHeaders (cfg : Cfg) (on : Node) : Prop :=
  on.kind = .mapping →
    (parseMapping cfg (sectionWhat "on") on false true).2 = [] ∧
    ∀ p ∈ eventsOfOn on, (parseMapping cfg (sectionWhat p.1.value) p.2 true true).2 = []

theorem mem_eventsOfOn {on : Node} {p : Node × Node} (hk : on.kind = .mapping) :
    p ∈ eventsOfOn on ↔ p ∈ pairs on.content ∧ isSpecial p.1.value = false := by
  simp [eventsOfOn, hk]

/-- **the patterns of `Workflow.On` are the items written under `on.<event>.<filter>`**, each as `parseString` reads it -/
theorem parseEvents_patterns (cfg : Cfg) (pos : Yaml.Pos) (on : Node) (h : OnHeaders cfg on) :
    ((parseEvents cfg pos on).1.getD []).flatMap eventPatterns = (itemsOfOn on).map fun p => (strOf p.1, p.2) := by
  by_cases hk : on.kind = .mapping
  · obtain ⟨hm, hev⟩ := h hk
    rw [parseEvents_mapping cfg pos on hk]
    simp only [Option.getD_some, onLoop]
    rw [onLoop_patterns, parseMapping_clean_eq cfg _ on false true hm]
    simp only [List.flatMap_nil, List.nil_append, itemsOfOn, eventsOfOn, hk, if_true]
    have hev' : ∀ p ∈ pairs on.content, isSpecial p.1.value = false →
        (parseMapping cfg (sectionWhat p.1.value) p.2 true true).2 = [] :=
      fun p hp hs => hev p ((mem_eventsOfOn hk).2 ⟨hp, hs⟩)
    generalize pairs on.content = l at hev'
    induction l with
    | nil => rfl
    | cons q rest ih =>
      have ih' := ih fun p hp => hev' p (List.mem_cons_of_mem _ hp)
      simp only [List.map_cons, List.flatMap_cons, ih', List.filter_cons]
      by_cases hs : isSpecial q.1.value = true
      · simp [kvPatterns, kvOf_true, hs]
      · have hs' : isSpecial q.1.value = false := by simpa using hs
        have := webhook_patterns cfg (newString q.1) q.2 (hev' q (List.mem_cons_self ..) hs')
        simp only [hs', Bool.not_false, if_true, List.flatMap_cons, List.map_append]
        rw [← this]
        simp [kvPatterns, kvOf_true, hs']
  · have hr : itemsOfOn on = [] := by simp [itemsOfOn, eventsOfOn, hk]
    rw [hr]
    simp only [parseEvents]
    split
    · split
      · rfl
      · rfl
      · rfl
      · rfl
      · split <;> simp [eventPatterns, filtersOf, filterStrs]
    · exact absurd ‹_› hk
    · simp [eventsOfSeq_patterns]
    · rfl

/-- accepted without a diagnostic: the headers are, and every item is a non-empty scalar -/
theorem parseEvents_clean (cfg : Cfg) (pos : Yaml.Pos) (on : Node) (h : (parseEvents cfg pos on).2 = []) :
    OnHeaders cfg on ∧ ∀ p ∈ itemsOfOn on, (parseString p.1 false).2 = [] := by
  by_cases hk : on.kind = .mapping
  · rw [parseEvents_mapping cfg pos on hk] at h
    simp only [append_nil_iff] at h
    have key : ∀ p ∈ eventsOfOn on, (parseWebhookEvent cfg (newString p.1) p.2).2 = [] := by
      intro p hp
      obtain ⟨hmem, hs⟩ := (mem_eventsOfOn hk).1 hp
      obtain ⟨st, hc⟩ := sect_clean_at cfg _ on false true (eventOfKey cfg) _ h.1 h.2 p hmem
      rw [kvOf_true] at hc
      simp only [eventOfKey] at hc
      rw [isSpecial_false] at hs
      split at hc
      · rename_i he; exact absurd he hs.1
      · rename_i he; exact absurd he hs.2.1
      · rename_i he; exact absurd he hs.2.2.1
      · rename_i he; exact absurd he hs.2.2.2
      · exact hc
    refine ⟨fun _ => ⟨h.1, fun p hp => (webhook_clean cfg _ _ (key p hp)).1⟩, ?_⟩
    intro x hx
    simp only [itemsOfOn, List.mem_flatMap] at hx
    obtain ⟨p, hp, hx⟩ := hx
    exact (webhook_clean cfg _ _ (key p hp)).2 x hx
  · refine ⟨fun hk' => absurd hk' hk, ?_⟩
    intro x hx
    simp [itemsOfOn, eventsOfOn, hk] at hx

/-! ### the workflow -/

/-- **the header conditions**: `parseMapping` accepts the header of the workflow mapping (keys are non-empty scalars, none
twice) and, when `on:` is a mapping, its header and the header of every webhook event in it. Nothing is asked of any
value: not of `jobs:`, not of the other keys of the workflow, not of `schedule` / `workflow_dispatch` / …, not of the
values under the events' keys. -/
def HeadersClean (cfg : Cfg) (doc : Node) : Prop :=
  ∀ root, docRoot doc = some root →
    (parseMapping cfg "workflow" root false true).2 = [] ∧ ∀ on, mget root "on" = some on → OnHeaders cfg on

theorem parse_fst (cfg : Cfg) (doc root : Node) (h : docRoot doc = some root) :
    (parse cfg doc).1 = (loop (workflowKey cfg) {} (parseMapping cfg "workflow" root false true).1).1 := by
  unfold parse
  simp only [fixDocPos_content]
  unfold docRoot at h
  cases hc : doc.content with
  | nil => rw [hc] at h; cases h
  | cons r rest =>
    rw [hc] at h
    simp only [List.head?_cons, Option.some.injEq] at h
    subst h
    rfl

theorem parse_no_root (cfg : Cfg) (doc : Node) (h : docRoot doc = none) : (parse cfg doc).1 = {} := by
  unfold parse
  simp only [fixDocPos_content]
  unfold docRoot at h
  cases hc : doc.content with
  | nil => rfl
  | cons r rest => rw [hc] at h; cases h

/-- `Workflow.On` is `parseEvents` of the node under `on:` — when the header of the workflow mapping is accepted -/
theorem parse_on (cfg : Cfg) (doc root : Node) (hr : docRoot doc = some root)
    (hm : (parseMapping cfg "workflow" root false true).2 = []) :
    (parse cfg doc).1.on = match mpair root "on" with | some p => (parseEvents cfg p.1.pos p.2).1 | none => none := by
  rw [parse_fst cfg doc root hr,
    sect_field cfg "workflow" root false (workflowKey cfg) {} (fun w => w.on) "on"
      (fun kv => (parseEvents cfg kv.key.pos kv.val).1)
      (fun st kv hne => workflowKey_on_ne cfg st kv hne) (fun st kv he => (workflowKey_on_eq cfg st kv he).1) hm]
  cases mpair root "on" with
  | none => rfl
  | some p => simp only [kvOf_true]; rfl

/-- **the patterns of the AST are the items written under `on.<event>.<filter>`**, in order, each as `parseString` reads it -/
theorem parse_patterns (cfg : Cfg) (doc : Node) (h : HeadersClean cfg doc) :
    patternsOf (parse cfg doc).1 = (docFilterItems doc).map fun p => (strOf p.1, p.2) := by
  unfold patternsOf docFilterItems docEvents docOn
  cases hr : docRoot doc with
  | none => rw [parse_no_root cfg doc hr]; rfl
  | some root =>
    obtain ⟨hm, hon⟩ := h root hr
    rw [parse_on cfg doc root hr hm]
    simp only [Option.bind_some, mget]
    cases hp : mpair root "on" with
    | none => rfl
    | some p =>
      simp only [Option.map_some]
      exact parseEvents_patterns cfg p.1.pos p.2 (hon p.2 (by simp [mget, hp]))

/-- a document the parser accepts without a diagnostic satisfies the header conditions, and every item under
`on.<event>.<filter>` is a non-empty scalar -/
theorem clean_headers (cfg : Cfg) (doc : Node) (h : (parse cfg doc).2 = []) :
    HeadersClean cfg doc ∧ ∀ p ∈ docFilterItems doc, (parseString p.1 false).2 = [] := by
  obtain ⟨root, hroot, hm, hr, _, _, _⟩ := parse_clean cfg doc h
  have key : ∀ on, mget root "on" = some on → ∃ pos, (parseEvents cfg pos on).2 = [] := by
    intro on hon
    simp only [mget] at hon
    cases hp : mpair root "on" with
    | none => rw [hp] at hon; cases hon
    | some p =>
      rw [hp] at hon
      simp only [Option.map_some, Option.some.injEq] at hon
      subst hon
      obtain ⟨hmem, hk⟩ := mpair_mem hp
      obtain ⟨st, hc⟩ := sect_clean_at cfg _ root false true (workflowKey cfg) _ hm hr p hmem
      rw [(workflowKey_on_eq cfg st _ (by rw [kvOf_true]; exact hk)).2] at hc
      exact ⟨_, hc⟩
  refine ⟨?_, ?_⟩
  · intro root' hroot'
    rw [hroot] at hroot'
    cases hroot'
    refine ⟨hm, fun on hon => ?_⟩
    obtain ⟨pos, hc⟩ := key on hon
    exact (parseEvents_clean cfg pos on hc).1
  · intro x hx
    simp only [docFilterItems, docEvents, docOn, hroot, Option.bind_some] at hx
    cases hon : mget root "on" with
    | none => rw [hon] at hx; simp at hx
    | some on =>
      rw [hon] at hx
      obtain ⟨pos, hc⟩ := key on hon
      exact (parseEvents_clean cfg pos on hc).2 x hx

end AL.C17D
