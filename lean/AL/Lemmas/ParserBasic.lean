import AL.Model.Parser
import AL.Spec.ExprGrammar
/-
  Basic facts about the token cursor of the parser model (`cur`, `adv`) on streams that end with END,
  and small facts about the grammar relation `Der`.
-/
namespace AL.Parse
open AL AL.Lex AL.Spec

/-- the stream is non-empty and its last token is END -/
def endsEnd : Toks → Bool
  | [] => false
  | [t] => t.tok.kind = .end
  | _ :: rest => endsEnd rest

theorem endsEnd_ne_nil {ts : Toks} (h : endsEnd ts = true) : ts ≠ [] := by
  intro h0; subst h0; simp [endsEnd] at h

theorem endsEnd_append_singleton (init : Toks) (last : ATok) (h : last.tok.kind = .end) :
    endsEnd (init ++ [last]) = true := by
  induction init with
  | nil => simp [endsEnd, h]
  | cons a init ih =>
    cases init with
    | nil => simpa [endsEnd] using h
    | cons b init => simpa [endsEnd] using ih

theorem endsEnd_append {pre rest : Toks} (h : rest ≠ []) : endsEnd (pre ++ rest) = endsEnd rest := by
  induction pre with
  | nil => rfl
  | cons a pre ih =>
    cases hp : pre ++ rest with
    | nil => simp at hp; exact absurd hp.2 h
    | cons b l => rw [List.cons_append, hp, endsEnd, ← hp, ih]; simp

/-- the one fact about the cursor that everything else uses: if the current token is not END, the stream
(ending in END) has a proper tail, `adv` moves to it, and it still ends in END -/
theorem step_of_not_end {ts : Toks} (h : endsEnd ts = true) (hk : (cur ts).tok.kind ≠ .end) :
    ∃ t rest, ts = t :: rest ∧ adv ts = rest ∧ endsEnd rest = true ∧ rest ≠ [] := by
  match ts, h with
  | [t], h => simp [endsEnd] at h; simp [cur, h] at hk
  | t :: u :: rest, h => exact ⟨t, u :: rest, rfl, rfl, by simpa [endsEnd] using h, by simp⟩

theorem cur_cons (t : ATok) (rest : Toks) : cur (t :: rest) = t := rfl

theorem adv_cons {t : ATok} {rest : Toks} (h : rest ≠ []) : adv (t :: rest) = rest := by
  cases rest with
  | nil => exact absurd rfl h
  | cons u r => rfl

theorem adv_cons2 (t u : ATok) (rest : Toks) : adv (t :: u :: rest) = u :: rest := rfl

theorem cur_append_cons (t : ATok) (pre rest : Toks) : cur (t :: pre ++ rest) = t := rfl

theorem unescape_eq_strValue (l : List Sym) : parsePrimary.unescape l = strValue l := by
  fun_induction strValue l <;> simp_all [parsePrimary.unescape]

end AL.Parse
