import AL.Model.Positions
/-
  Lemmas about the placeholder loop `exprOffsets` of AL/Model/Positions.lean (used by Props/C07):
  a specification of `indexOf`, membership / ordering of the returned offsets, independence of the
  result from surplus fuel and from the running offset.
-/
namespace AL.Positions
open AL.Proc (indexOf open3 indexOf_le)

/-! ### `indexOf` -/

/-- what `indexOf` returns is a position at which `pat` occurs -/
theorem indexOf_spec (pat s : List Nat) (i k : Nat) (h : indexOf pat s i = some k) :
    i ≤ k ∧ pat.isPrefixOf (s.drop (k - i)) = true := by
  induction s generalizing i with
  | nil =>
    simp only [indexOf] at h
    split at h
    · rename_i hp
      simp only [Option.some.injEq] at h
      subst h
      simp only [List.isEmpty_iff] at hp
      subst hp
      simp
    · simp at h
  | cons c cs ih =>
    simp only [indexOf] at h
    split at h
    · rename_i hp
      simp only [Option.some.injEq] at h
      subst h
      simpa using hp
    · have ⟨h1, h2⟩ := ih (i + 1) h
      refine ⟨by omega, ?_⟩
      have e : k - i = (k - (i + 1)) + 1 := by omega
      rw [e, List.drop_succ_cons]
      exact h2

theorem indexOf_take (pat s : List Nat) (k : Nat) (h : indexOf pat s 0 = some k) :
    (s.drop k).take pat.length = pat := by
  have h2 := (indexOf_spec pat s 0 k h).2
  rw [Nat.sub_zero, List.isPrefixOf_iff_prefix, List.prefix_iff_eq_take] at h2
  exact h2.symm

theorem indexOf_len (pat s : List Nat) (k : Nat) (h : indexOf pat s 0 = some k) :
    k + pat.length ≤ s.length := by
  have h1 := indexOf_le pat s 0 k h
  have h2 := (indexOf_spec pat s 0 k h).2
  rw [Nat.sub_zero, List.isPrefixOf_iff_prefix] at h2
  have := h2.length_le
  simp only [List.length_drop] at this
  omega

theorem open3_take (s : List Nat) (k : Nat) (h : indexOf open3 s 0 = some k) :
    (s.drop k).take 3 = open3 := indexOf_take open3 s k h

theorem open3_len (s : List Nat) (k : Nat) (h : indexOf open3 s 0 = some k) :
    k + 3 ≤ s.length := indexOf_len open3 s k h

/-- a search in `pre ++ s` that is known to hit at `k + pre.length` -/
theorem drop_append_add (pre s : List Nat) (k : Nat) :
    (pre ++ s).drop (k + pre.length) = s.drop k := by
  rw [Nat.add_comm, ← List.drop_drop, List.drop_left]

/-! ### unfolding `exprOffsets` -/

theorem exprOffsets_none (consume : List Nat → Nat) (fuel : Nat) (s : List Nat) (offset : Nat)
    (h : indexOf open3 s 0 = none) : exprOffsets consume fuel s offset = [] := by
  cases fuel with
  | zero => rfl
  | succ f => simp only [exprOffsets, h]

theorem exprOffsets_some (consume : List Nat → Nat) (fuel : Nat) (s : List Nat) (offset idx : Nat)
    (h : indexOf open3 s 0 = some idx) :
    exprOffsets consume (fuel + 1) s offset =
      if consume (s.drop (idx + 3)) = 0 then [offset + (idx + 3)]
      else (offset + (idx + 3)) ::
        exprOffsets consume fuel ((s.drop (idx + 3)).drop (consume (s.drop (idx + 3))))
          (offset + (idx + 3) + consume (s.drop (idx + 3))) := by
  simp only [exprOffsets, h]

/-! ### (a), (b): what is returned -/

/-- every returned offset lies right after an occurrence of `${{` in the string searched -/
theorem exprOffsets_mem (consume : List Nat → Nat) (fuel : Nat) (s : List Nat) (offset o : Nat)
    (h : o ∈ exprOffsets consume fuel s offset) :
    offset + 3 ≤ o ∧ (s.drop (o - offset - 3)).take 3 = open3 := by
  induction fuel generalizing s offset with
  | zero => simp [exprOffsets] at h
  | succ f ih =>
    cases hidx : indexOf open3 s 0 with
    | none => rw [exprOffsets_none _ _ _ _ hidx] at h; simp at h
    | some idx =>
      have htk := open3_take s idx hidx
      have hhead : ∀ o, o = offset + (idx + 3) →
          offset + 3 ≤ o ∧ (s.drop (o - offset - 3)).take 3 = open3 := by
        intro o ho
        subst ho
        refine ⟨by omega, ?_⟩
        have e : offset + (idx + 3) - offset - 3 = idx := by omega
        rw [e]; exact htk
      rw [exprOffsets_some _ _ _ _ _ hidx] at h
      split at h
      · simp only [List.mem_singleton] at h
        exact hhead o h
      · simp only [List.mem_cons] at h
        rcases h with h | h
        · exact hhead o h
        · have ⟨h1, h2⟩ := ih _ _ h
          refine ⟨by omega, ?_⟩
          rw [List.drop_drop, List.drop_drop] at h2
          have e : idx + 3 + (consume (List.drop (idx + 3) s) +
              (o - (offset + (idx + 3) + consume (List.drop (idx + 3) s)) - 3)) = o - offset - 3 := by
            omega
          rw [e] at h2
          exact h2

/-- the returned offsets are strictly increasing -/
theorem exprOffsets_pairwise (consume : List Nat → Nat) (fuel : Nat) (s : List Nat) (offset : Nat) :
    List.Pairwise (· < ·) (exprOffsets consume fuel s offset) := by
  induction fuel generalizing s offset with
  | zero => simp [exprOffsets]
  | succ f ih =>
    cases hidx : indexOf open3 s 0 with
    | none => rw [exprOffsets_none _ _ _ _ hidx]; exact List.Pairwise.nil
    | some idx =>
      rw [exprOffsets_some _ _ _ _ _ hidx]
      split
      · simp
      · rw [List.pairwise_cons]
        refine ⟨?_, ih _ _⟩
        intro o ho
        have := (exprOffsets_mem _ _ _ _ _ ho).1
        omega

/-! ### (e): fuel and offset independence -/

/-- fuel beyond the length of the string does not matter -/
theorem exprOffsets_fuel (consume : List Nat → Nat) (f₁ f₂ : Nat) (s : List Nat) (offset : Nat)
    (h₁ : s.length ≤ f₁) (h₂ : s.length ≤ f₂) :
    exprOffsets consume f₁ s offset = exprOffsets consume f₂ s offset := by
  induction f₁ generalizing f₂ s offset with
  | zero =>
    have : s = [] := List.eq_nil_of_length_eq_zero (by omega)
    subst this
    rw [exprOffsets_none _ _ _ _ (by rfl), exprOffsets_none _ _ _ _ (by rfl)]
  | succ f ih =>
    cases hidx : indexOf open3 s 0 with
    | none => rw [exprOffsets_none _ _ _ _ hidx, exprOffsets_none _ _ _ _ hidx]
    | some idx =>
      have hl := open3_len s idx hidx
      obtain ⟨g, rfl⟩ : ∃ g, f₂ = g + 1 := ⟨f₂ - 1, by omega⟩
      rw [exprOffsets_some _ _ _ _ _ hidx, exprOffsets_some _ _ _ _ _ hidx]
      split
      · rfl
      · congr 1
        apply ih <;> simp only [List.length_drop] <;> omega

/-- the running offset is only added to the results -/
theorem exprOffsets_shift (consume : List Nat → Nat) (fuel : Nat) (s : List Nat) (offset k : Nat) :
    exprOffsets consume fuel s (offset + k) = (exprOffsets consume fuel s offset).map (· + k) := by
  induction fuel generalizing s offset with
  | zero => simp [exprOffsets]
  | succ f ih =>
    cases hidx : indexOf open3 s 0 with
    | none => rw [exprOffsets_none _ _ _ _ hidx, exprOffsets_none _ _ _ _ hidx]; rfl
    | some idx =>
      rw [exprOffsets_some _ _ _ _ _ hidx, exprOffsets_some _ _ _ _ _ hidx]
      split
      · simp only [List.map_cons, List.map_nil, List.cons.injEq, and_true]; omega
      · simp only [List.map_cons, List.cons.injEq]
        refine ⟨by omega, ?_⟩
        rw [← ih]
        congr 1
        omega

/-- prefixing with `pre`, when the first search is known to hit `pre.length` later, shifts every
offset by `pre.length` -/
theorem exprOffsets_prefix (consume : List Nat → Nat) (pre s : List Nat)
    (h : indexOf open3 (pre ++ s) 0 = (indexOf open3 s 0).map (· + pre.length)) :
    exprOffsets consume (pre ++ s).length (pre ++ s) 0 =
      (exprOffsets consume s.length s 0).map (· + pre.length) := by
  cases hidx : indexOf open3 s 0 with
  | none =>
    rw [hidx] at h
    rw [exprOffsets_none _ _ _ _ hidx, exprOffsets_none _ _ _ _ h]; rfl
  | some idx =>
    rw [hidx] at h
    simp only [Option.map_some] at h
    have hl := open3_len s idx hidx
    obtain ⟨g, hg⟩ : ∃ g, s.length = g + 1 := ⟨s.length - 1, by omega⟩
    obtain ⟨g', hg'⟩ : ∃ g', (pre ++ s).length = g' + 1 :=
      ⟨(pre ++ s).length - 1, by simp only [List.length_append]; omega⟩
    have hgg : g' = g + pre.length := by simp only [List.length_append] at hg'; omega
    rw [hg, hg', exprOffsets_some _ _ _ _ _ hidx, exprOffsets_some _ _ _ _ _ h]
    have e : idx + pre.length + 3 = (idx + 3) + pre.length := by omega
    rw [e, drop_append_add]
    split
    · simp only [List.map_cons, List.map_nil, List.cons.injEq, and_true]; omega
    · simp only [List.map_cons, List.cons.injEq]
      refine ⟨by omega, ?_⟩
      rw [← exprOffsets_shift]
      have e2 : 0 + (idx + 3 + pre.length) + consume (List.drop (idx + 3) s) =
          0 + (idx + 3) + consume (List.drop (idx + 3) s) + pre.length := by omega
      rw [e2]
      apply exprOffsets_fuel <;> simp only [List.length_drop] <;> omega

end AL.Positions
