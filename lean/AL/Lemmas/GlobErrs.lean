import AL.Lemmas.GlobBasic
/-
  "Errors only grow" for every layer of the validator, and: an error-free ref step is a path step.
-/
namespace AL.Glob
open AL

theorem switchBody_prefix (isRef prec0 : Bool) (c : Option Nat) (st0 : GState) :
    st0.errs <+: (switchBody isRef prec0 c st0).state.errs := by
  have hn : ∀ s : GState, s.errs <+: s.next.2.errs := GState.next_prefix
  have he : ∀ (s : GState) m, s.errs <+: (s.error m).errs := GState.error_prefix
  have hc := classLoop_prefix st0 0
  unfold switchBody
  repeat' split
  all_goals (simp only [SwitchRes.state] at *)
  all_goals (try grind [List.IsPrefix.trans, List.prefix_refl])

theorem finishNext_prefix (isRef : Bool) (r : SwitchRes) : r.state.errs <+: (finishNext isRef r).2.errs := by
  unfold finishNext
  split
  · exact List.prefix_refl _
  · simp only [SwitchRes.state]
    split
    · split
      · exact GState.error_prefix _ _
      · exact List.prefix_refl _
    · exact List.prefix_refl _

theorem validateNext_prefix (isRef : Bool) (st : GState) : st.errs <+: (validateNext isRef st).2.errs := by
  unfold validateNext
  exact (st.next_prefix.trans (switchBody_prefix ..)).trans (finishNext_prefix ..)

theorem loop_prefix (isRef : Bool) (st : GState) : st.errs <+: (loop isRef st).errs := by
  fun_induction loop isRef st
  all_goals grind [validateNext_prefix, List.IsPrefix.trans]

/-! ### An error-free ref step equals the path step -/

theorem switchBody_ref_eq (prec0 : Bool) (c : Option Nat) (st0 : GState)
    (h : (switchBody true prec0 c st0).state.errs = []) :
    switchBody false prec0 c st0 = switchBody true prec0 c st0 := by
  have hn : ∀ s : GState, s.errs <+: s.next.2.errs := GState.next_prefix
  have he : ∀ (s : GState) m, (s.error m).errs ≠ [] := GState.error_errs_ne_nil
  have hp : ∀ {a b : List GErr}, a <+: b → b = [] → a = [] := nil_of_prefix_nil
  unfold switchBody at h ⊢
  repeat' split
  all_goals (simp only [SwitchRes.state] at *)
  all_goals (try grind)

theorem finishNext_ref_eq (r : SwitchRes) (h : (finishNext true r).2.errs = []) :
    finishNext false r = finishNext true r := by
  have he : ∀ (s : GState) m, (s.error m).errs ≠ [] := GState.error_errs_ne_nil
  unfold finishNext at h ⊢
  repeat' split
  all_goals (simp only [] at *)
  all_goals (try grind)

theorem validateNext_ref_eq (st : GState) (h : (validateNext true st).2.errs = []) :
    validateNext false st = validateNext true st := by
  unfold validateNext at h ⊢
  simp only [] at h ⊢
  have h1 := nil_of_prefix_nil (finishNext_prefix ..) h
  rw [switchBody_ref_eq _ _ _ h1, finishNext_ref_eq _ h]

theorem loop_ref_eq (st : GState) (h : (loop true st).errs = []) :
    loop false st = loop true st := by
  fun_induction loop true st with
  | case1 st r hch =>
    rw [loop.eq_1]; simp +zetaDelta only [hch, ↓reduceDIte, validateNext_ref_eq st h]
  | case2 st r hch hr ih =>
    have h1 : (validateNext true st).2.errs = [] := nil_of_prefix_nil (loop_prefix ..) h
    rw [loop.eq_1]; simp +zetaDelta only [hch, ↓reduceDIte, validateNext_ref_eq st h1] at hr ⊢
    simp only [hr, if_true]
    exact ih h
  | case3 st r hch hr => 
    rw [loop.eq_1]; simp +zetaDelta only [hch, ↓reduceDIte, validateNext_ref_eq st h] at hr ⊢
    simp [hr]

theorem validate_ref_eq (src : List Sym) (h : validate true src = []) : validate false src = [] := by
  have he : ∀ (s : GState) m, (s.error m).errs ≠ [] := GState.error_errs_ne_nil
  unfold validate at h ⊢
  simp only [] at h ⊢
  split at h
  · simp at h
  · rename_i hne
    simp only [hne]
    split at h
    · simp only [if_true] at h
      have := nil_of_prefix_nil (loop_prefix ..) h
      exact absurd this (he _ _)
    · rename_i h33
      simp only [Bool.false_eq_true, if_false]
      split at h
      · exact absurd h (he _ _)
      · rename_i hp; simp only [hp, if_false]; rw [loop_ref_eq _ h]; exact h
    · rename_i h1 h2 
      simp only [Bool.false_eq_true, if_false]
      rw [loop_ref_eq _ h]; exact h

end AL.Glob
