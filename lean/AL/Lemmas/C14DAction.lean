import AL.Lemmas.C14DCallee
/-
  Lemmas for AL.Props.C14Doc, part 7: the interface of a LOCAL ACTION read from the document of its `action.yml`.
  There is no parser for this file in actionlint: `yaml.Unmarshal` (AL.ActionDecode.fromDoc) is the only reader, so the
  statement is about the decoder: when it succeeds, its inputs / outputs are `actionInputs` / `actionOutputs`, written
  with `attr` only.
-/
namespace AL.C14D
open AL.Yaml AL.PW AL.CallMeta

/-! ### the reader -/

/-- the node decodes to the Go bool `true`: the literal, or — yaml.v3 accepts YAML 1.1's words when the target is a bool —
one of `y Y yes Yes YES on On ON` resolved as a string -/
def yamlTrue (n : Node) : Bool :=
  n.kind = .scalar &&
    ((n.tag = "!!bool" && trueWords.contains n.value) ||
     (n.tag ≠ "!!null" && n.tag ≠ "!!bool" && n.tag ≠ "!!binary" && !nonStringTags.contains n.tag && yesWords.contains n.value))

def actRequiredTrue (v : Node) : Bool :=
  match attr "required" v with
  | some r => yamlTrue r
  | none => false

/-- an input of an action must be supplied: `required:` true and no (non-null) `default:` -/
def actInputRequired (v : Node) : Bool := actRequiredTrue v && !hasDefault v

/-- the entries of the top-level section `name` of `action.yml` -/
def actSection (name : String) (doc : Node) : List (Node × Node) :=
  match (rootOf doc).bind (attr name) with
  | some s => secEntries s
  | none => []

def actionInputs (cfg : Cfg) (doc : Node) : List (String × String × Bool) :=
  (actSection "inputs" doc).map fun q => (cfg.lower q.1.value, q.1.value, actInputRequired q.2)

def actionOutputs (cfg : Cfg) (doc : Node) : List (String × String) :=
  (actSection "outputs" doc).map fun q => (cfg.lower q.1.value, q.1.value)

/-- a key tagged `!!null` is spelled like a null (what yaml.v3 guarantees) -/
def KeyOk (k : Node) : Prop := k.tag = "!!null" → k.value ∈ nullWords

theorem KeyOk.of_sane {k : Node} (h : AL.C10M.Sane k) : KeyOk k := h.nullValue

/-- the keys the reader looks at are sound: the top-level keys and the keys of every entry of `inputs:` -/
def ActionSane (doc : Node) : Prop :=
  (∀ root, rootOf doc = some root → ∀ q ∈ pairs root.content, KeyOk q.1) ∧
  (∀ q ∈ actSection "inputs" doc, ∀ a ∈ pairs q.2.content, KeyOk a.1)

def keyOkB (k : Node) : Bool := k.tag != "!!null" || nullWords.contains k.value

def actionSaneB (doc : Node) : Bool :=
  (match rootOf doc with
   | some root => (pairs root.content).all fun q => keyOkB q.1
   | none => true) &&
  (actSection "inputs" doc).all fun q => (pairs q.2.content).all fun a => keyOkB a.1

theorem keyOkB_sound {k : Node} (h : keyOkB k = true) : KeyOk k := by
  intro ht
  simp only [keyOkB, Bool.or_eq_true, bne_iff_ne, ne_eq, List.contains_iff_mem] at h
  exact h.resolve_left (fun c => c ht)

theorem actionSaneB_sound (doc : Node) (h : actionSaneB doc = true) : ActionSane doc := by
  simp only [actionSaneB, Bool.and_eq_true, List.all_eq_true] at h
  refine ⟨?_, fun q hq a ha => keyOkB_sound (h.2 q hq a ha)⟩
  intro root hr q hq
  rw [hr] at h
  exact keyOkB_sound (List.all_eq_true.1 h.1 q hq)

/-! ### yaml.v3's struct decoding: one field -/

theorem decStr_key (k : Node) (hk : KeyOk k) (key : String) (hn : key ∉ nullWords) (s : String) (h : decStr k = .ok s) :
    s = key ↔ k.value = key := by
  simp only [decStr] at h
  split at h
  · cases h
  · split at h
    · rename_i ht
      simp only [Except.ok.injEq] at h
      subst h
      have hv := hk ht
      constructor
      · intro e; subst e; simp [nullWords] at hn
      · intro e; rw [e] at hv; exact absurd hv hn
    · split at h
      · cases h
      · simp only [Except.ok.injEq] at h; subst h; exact Iff.rfl
  · cases h

section Field
variable {σ α : Type} (fields : List String) (set : σ → String → Node → D σ) (get : σ → α) (key : String)
  (R : Node → α → Prop)
  (hset : ∀ st v st', set st key v = .ok st' → R v (get st'))
  (hkeep : ∀ st name v st', name ≠ key → set st name v = .ok st' → get st' = get st)
include hkeep

/-- once the field `key` has been set no later pair touches it -/
theorem structLoop_done : ∀ (l : List (Node × Node)) (done : List String) (st st' : σ), key ∈ done →
    structLoop fields set l done st = .ok st' → get st' = get st
  | [], _, st, st', _, h => by
    simp only [structLoop, Except.ok.injEq] at h
    subst h; rfl
  | (k, v) :: rest, done, st, st', hd, h => by
    simp only [structLoop] at h
    split at h
    · cases h
    · split at h
      · cases h
      · rename_i name _
        split at h
        · split at h
          · cases h
          · rename_i hnd
            split at h
            · cases h
            · rename_i st1 hs
              have hne : name ≠ key := fun e => hnd (e ▸ hd)
              rw [structLoop_done rest _ st1 st' (List.mem_cons_of_mem _ hd) h]
              exact hkeep st name v st1 hne hs
        · exact structLoop_done rest _ st st' hd h

include hset
/-- **the field `key` of a struct yaml.v3 fills from a mapping**: set from the value under the key `key` (and then `R`
holds of that value and the field), or left alone when the mapping has no such key -/
theorem structLoop_field (hkf : key ∈ fields) : ∀ (l : List (Node × Node)) (done : List String) (st st' : σ), key ∉ done →
    (∀ q ∈ l, ∀ s, decStr q.1 = .ok s → (s = key ↔ q.1.value = key)) →
    structLoop fields set l done st = .ok st' →
    (∀ v, valueOf key l = some v → R v (get st')) ∧ (valueOf key l = none → get st' = get st)
  | [], _, st, st', _, _, h => by
    simp only [structLoop, Except.ok.injEq] at h
    subst h
    exact ⟨fun v hv => by simp [valueOf] at hv, fun _ => rfl⟩
  | (k, v) :: rest, done, st, st', hd, hk, h => by
    simp only [structLoop] at h
    split at h
    · cases h
    · split at h
      · cases h
      · rename_i name hdec
        have hiff := hk (k, v) (List.mem_cons_self ..) name hdec
        have hk' : ∀ q ∈ rest, ∀ s, decStr q.1 = .ok s → (s = key ↔ q.1.value = key) :=
          fun q hq => hk q (List.mem_cons_of_mem _ hq)
        split at h
        · split at h
          · cases h
          · rename_i hnd
            split at h
            · cases h
            · rename_i st1 hs
              by_cases hne : name = key
              · subst hne
                have hkv : k.value = name := hiff.1 rfl
                have hkeepRest := structLoop_done fields set get name hkeep rest _ st1 st' (List.mem_cons_self ..) h
                simp only [valueOf, hkv, if_true, Option.some.injEq]
                refine ⟨fun v' hv' => ?_, fun hv' => by cases hv'⟩
                subst hv'
                rw [hkeepRest]
                exact hset st v st1 hs
              · have hkv : k.value ≠ key := fun e => hne (hiff.2 e)
                have hd' : key ∉ name :: done := by
                  intro hm
                  rcases List.mem_cons.1 hm with e | hm
                  · exact hne e.symm
                  · exact hd hm
                obtain ⟨ih1, ih2⟩ := structLoop_field hkf rest _ st1 st' hd' hk' h
                simp only [valueOf, hkv, if_false]
                have hg := hkeep st name v st1 hne hs
                exact ⟨ih1, fun hv => (ih2 hv).trans hg⟩
        · rename_i hnf
          have hne : name ≠ key := fun e => hnf (e ▸ hkf)
          have hkv : k.value ≠ key := fun e => hne (hiff.2 e)
          obtain ⟨ih1, ih2⟩ := structLoop_field hkf rest _ st st' hd hk' h
          simp only [valueOf, hkv, if_false]
          exact ⟨ih1, ih2⟩

theorem structDecode_field (hkf : key ∈ fields) (hn : key ∉ nullWords) (init : σ) (n : Node) (st' : σ)
    (hkeys : ∀ q ∈ pairs n.content, KeyOk q.1)
    (h : structDecode fields set init n = .ok st') :
    (∀ v, attr key n = some v → R v (get st')) ∧ (attr key n = none → get st' = get init) := by
  simp only [structDecode] at h
  split at h
  · cases h
  · rename_i hm
    split at h
    · cases h
    · simp only [attr, hm, if_true]
      exact structLoop_field fields set get key R hset hkeep hkf _ [] init st' (by simp)
        (fun q hq s hs => decStr_key q.1 (hkeys q hq) key hn s hs) h
  · rename_i hsc
    split at h
    · simp only [Except.ok.injEq] at h
      subst h
      simp [attr, hsc]
    · cases h
  · cases h

end Field

/-! ### one input of an action -/

theorem decBool_yamlTrue (n : Node) (b : Bool) (h : decBool n = .ok b) : b = yamlTrue n := by
  simp only [decBool] at h
  split at h
  · cases h
  · rename_i hk
    simp only [yamlTrue, hk, decide_true, Bool.true_and]
    split at h
    · rename_i ht
      simp only [Except.ok.injEq] at h
      subst h
      simp [ht]
    · rename_i hnn
      split at h
      · cases h
      · rename_i hnb
        split at h
        · rename_i hb
          split at h
          · rename_i hv
            simp only [Except.ok.injEq] at h
            subst h
            have hc : n.value ∈ trueWords := hv
            simp [hb, hc]
          · rename_i hv
            split at h
            · rename_i hv2
              simp only [Except.ok.injEq] at h
              subst h
              have hc : ¬ n.value ∈ trueWords := hv
              simp [hb, hc]
            · cases h
        · rename_i hb
          split at h
          · cases h
          · rename_i hns
            split at h
            · rename_i hy
              simp only [Except.ok.injEq] at h
              subst h
              simp [hb, hnn, hnb, hns, hy]
            · rename_i hy
              split at h
              · simp only [Except.ok.injEq] at h
                subst h
                simp [hb, hy]
              · cases h
  · cases h

theorem setIn_required_keep (st : AL.ActionDecode.InSt) (name : String) (v : Node) (st' : AL.ActionDecode.InSt)
    (hne : name ≠ "required") (h : AL.ActionDecode.setIn st name v = .ok st') : st'.required = st.required := by
  simp only [AL.ActionDecode.setIn] at h
  split at h
  · exact absurd rfl hne
  · obtain ⟨a, _, e⟩ := AL.C14W.map_ok h; rw [e]
  · simp only [Except.ok.injEq] at h; rw [← h]

theorem setIn_dflt_keep (st : AL.ActionDecode.InSt) (name : String) (v : Node) (st' : AL.ActionDecode.InSt)
    (hne : name ≠ "default") (h : AL.ActionDecode.setIn st name v = .ok st') : st'.dflt = st.dflt := by
  simp only [AL.ActionDecode.setIn] at h
  split at h
  · obtain ⟨a, _, e⟩ := AL.C14W.map_ok h; rw [e]
  · exact absurd rfl hne
  · simp only [Except.ok.injEq] at h; rw [← h]

/-- **one entry of `inputs:` of `action.yml`**: `Required` as yaml.v3 decodes it is `actInputRequired` of the entry's node -/
theorem action_decInput_read (v : Node) (hkeys : ∀ a ∈ pairs v.content, KeyOk a.1) (r : Bool)
    (h : AL.ActionDecode.decInput v = .ok r) : r = actInputRequired v := by
  simp only [AL.ActionDecode.decInput] at h
  obtain ⟨st, hst, hr⟩ := AL.C14W.map_ok h
  subst hr
  obtain ⟨r1, r2⟩ := structDecode_field ["required", "default"] AL.ActionDecode.setIn (fun s => s.required) "required"
    (fun n b => decBool n = .ok b)
    (by intro s n s' hs
        simp only [AL.ActionDecode.setIn] at hs
        obtain ⟨b, hb, e⟩ := AL.C14W.map_ok hs
        rw [e]; exact hb)
    (fun s name n s' hne hs => setIn_required_keep s name n s' hne hs)
    (by simp) (by simp [nullWords]) {} v st hkeys hst
  obtain ⟨d1, d2⟩ := structDecode_field ["required", "default"] AL.ActionDecode.setIn (fun s => s.dflt) "default"
    (fun n x => decStrPtr n = .ok x)
    (by intro s n s' hs
        simp only [AL.ActionDecode.setIn] at hs
        obtain ⟨b, hb, e⟩ := AL.C14W.map_ok hs
        rw [e]; exact hb)
    (fun s name n s' hne hs => setIn_dflt_keep s name n s' hne hs)
    (by simp) (by simp [nullWords]) {} v st hkeys hst
  have hreq : st.required = actRequiredTrue v := by
    simp only [actRequiredTrue]
    cases ha : attr "required" v with
    | none => exact r2 ha
    | some rn => exact decBool_yamlTrue rn _ (r1 rn ha)
  have hdf : st.dflt.isNone = !hasDefault v := by
    simp only [hasDefault]
    cases ha : attr "default" v with
    | none => rw [d2 ha]; rfl
    | some dn =>
      have := d1 dn ha
      simp only [decStrPtr] at this
      split at this
      · rename_i hn
        simp only [Except.ok.injEq] at this
        rw [← this]; simp [hn]
      · rename_i hn
        obtain ⟨a, _, e⟩ := AL.C14W.map_ok this
        rw [e]
        simp [hn]
  simp only [actInputRequired, hreq, hdf]

theorem action_decInputsLoop_read (cfg : Cfg) : ∀ (l : List (Node × Node)) (acc res : List (String × String × Bool)),
    (∀ q ∈ l, ∀ a ∈ pairs q.2.content, KeyOk a.1) →
    AL.ActionDecode.decInputsLoop cfg l acc = .ok res →
    res = acc ++ l.map fun q => (cfg.lower q.1.value, q.1.value, actInputRequired q.2)
  | [], acc, res, _, h => by
    simp only [AL.ActionDecode.decInputsLoop, Except.ok.injEq] at h
    simp [h]
  | (k, v) :: rest, acc, res, hk, h => by
    simp only [AL.ActionDecode.decInputsLoop] at h
    split at h
    · cases h
    · rename_i r hr
      split at h
      · cases h
      · have := action_decInputsLoop_read cfg rest _ res (fun q hq => hk q (List.mem_cons_of_mem _ hq)) h
        rw [this, action_decInput_read v (hk (k, v) (List.mem_cons_self ..)) r hr]
        simp

theorem action_decOutputsLoop_read (cfg : Cfg) : ∀ (l : List (Node × Node)) (acc res : List (String × String)),
    AL.ActionDecode.decOutputsLoop cfg l acc = .ok res →
    res = acc ++ l.map fun q => (cfg.lower q.1.value, q.1.value)
  | [], acc, res, h => by
    simp only [AL.ActionDecode.decOutputsLoop, Except.ok.injEq] at h
    simp [h]
  | (k, v) :: rest, acc, res, h => by
    simp only [AL.ActionDecode.decOutputsLoop] at h
    split at h
    · cases h
    · rw [action_decOutputsLoop_read cfg rest _ res h]
      simp

/-! ### the whole `action.yml` -/

theorem action_setMeta_inputs_keep (cfg : Cfg) (st : AL.ActionDecode.Decoded) (name : String) (v : Node) (st' : AL.ActionDecode.Decoded)
    (hne : name ≠ "inputs") (h : AL.ActionDecode.setMeta cfg st name v = .ok st') : st'.inputs = st.inputs := by
  simp only [AL.ActionDecode.setMeta] at h
  split at h
  · obtain ⟨a, _, e⟩ := AL.C14W.map_ok h; rw [e]
  · obtain ⟨a, _, e⟩ := AL.C14W.map_ok h; rw [e]
  · exact absurd rfl hne
  · obtain ⟨a, _, e⟩ := AL.C14W.map_ok h; rw [e]
  · obtain ⟨a, _, e⟩ := AL.C14W.map_ok h; rw [e]
  · obtain ⟨a, _, e⟩ := AL.C14W.map_ok h; rw [e]
  · simp only [Except.ok.injEq] at h; rw [← h]

theorem action_setMeta_outputs_keep (cfg : Cfg) (st : AL.ActionDecode.Decoded) (name : String) (v : Node) (st' : AL.ActionDecode.Decoded)
    (hne : name ≠ "outputs") (h : AL.ActionDecode.setMeta cfg st name v = .ok st') : st'.outputs = st.outputs := by
  simp only [AL.ActionDecode.setMeta] at h
  split at h
  · obtain ⟨a, _, e⟩ := AL.C14W.map_ok h; rw [e]
  · obtain ⟨a, _, e⟩ := AL.C14W.map_ok h; rw [e]
  · obtain ⟨a, _, e⟩ := AL.C14W.map_ok h; rw [e]
  · exact absurd rfl hne
  · obtain ⟨a, _, e⟩ := AL.C14W.map_ok h; rw [e]
  · obtain ⟨a, _, e⟩ := AL.C14W.map_ok h; rw [e]
  · simp only [Except.ok.injEq] at h; rw [← h]

/-- **`action.yml`**: when `yaml.Unmarshal` succeeds, the inputs and outputs of the metadata are the ones read from the
document -/
theorem action_fromDoc_read (cfg : Cfg) (doc : Node) (hs : ActionSane doc) (d : AL.ActionDecode.Decoded)
    (h : AL.ActionDecode.fromDoc cfg doc = .ok d) :
    d.inputs = actionInputs cfg doc ∧ d.outputs = actionOutputs cfg doc := by
  simp only [AL.ActionDecode.fromDoc] at h
  cases hd : doc.content with
  | nil =>
    simp only [hd, Except.ok.injEq] at h
    subst h
    simp [actionInputs, actionOutputs, actSection, rootOf, hd]
  | cons root rest =>
    simp only [hd] at h
    have hroot : rootOf doc = some root := by simp [rootOf, hd]
    have hkeys := hs.1 root hroot
    obtain ⟨i1, i2⟩ := structDecode_field ["name", "description", "inputs", "outputs", "runs", "branding"]
      (AL.ActionDecode.setMeta cfg) (fun s => s.inputs) "inputs"
      (fun n ins => viaUnmarshaler (AL.ActionDecode.decInputs cfg) n = .ok ins)
      (by intro s n s' hs'
          simp only [AL.ActionDecode.setMeta] at hs'
          obtain ⟨b, hb, e⟩ := AL.C14W.map_ok hs'
          rw [e]; exact hb)
      (fun s name n s' hne hs' => action_setMeta_inputs_keep cfg s name n s' hne hs')
      (by simp) (by simp [nullWords]) {} root d hkeys h
    obtain ⟨o1, o2⟩ := structDecode_field ["name", "description", "inputs", "outputs", "runs", "branding"]
      (AL.ActionDecode.setMeta cfg) (fun s => s.outputs) "outputs"
      (fun n outs => viaUnmarshaler (AL.ActionDecode.decOutputs cfg) n = .ok outs)
      (by intro s n s' hs'
          simp only [AL.ActionDecode.setMeta] at hs'
          obtain ⟨b, hb, e⟩ := AL.C14W.map_ok hs'
          rw [e]; exact hb)
      (fun s name n s' hne hs' => action_setMeta_outputs_keep cfg s name n s' hne hs')
      (by simp) (by simp [nullWords]) {} root d hkeys h
    refine ⟨?_, ?_⟩
    · have hsec : ∀ q ∈ actSection "inputs" doc, ∀ a ∈ pairs q.2.content, KeyOk a.1 := hs.2
      simp only [actionInputs]
      simp only [actSection, hroot, Option.bind_some] at hsec ⊢
      cases ha : attr "inputs" root with
      | none => rw [i2 ha]; rfl
      | some n =>
        rw [ha] at hsec
        have := i1 n ha
        simp only [viaUnmarshaler] at this
        split at this
        · rename_i hn
          simp only [Except.ok.injEq] at this
          have hk : n.kind = .scalar := (AL.C10M.null_tag n hn).1
          simp [← this, secEntries, hk]
        · simp only [AL.ActionDecode.decInputs] at this
          split at this
          · cases this
          · rename_i hm
            simp only [secEntries, hm, if_true] at hsec ⊢
            rw [action_decInputsLoop_read cfg _ [] _ hsec this, List.nil_append]
          · cases this
    · simp only [actionOutputs, actSection, hroot, Option.bind_some]
      cases ha : attr "outputs" root with
      | none => rw [o2 ha]; rfl
      | some n =>
        have := o1 n ha
        simp only [viaUnmarshaler] at this
        split at this
        · rename_i hn
          simp only [Except.ok.injEq] at this
          have hk : n.kind = .scalar := (AL.C10M.null_tag n hn).1
          simp [← this, secEntries, hk]
        · simp only [AL.ActionDecode.decOutputs] at this
          split at this
          · cases this
          · rename_i hm
            simp only [secEntries, hm, if_true]
            rw [action_decOutputsLoop_read cfg _ [] _ this, List.nil_append]
          · cases this

end AL.C14D
