import AL.Spec.GlobSyntax
import AL.Lemmas.GlobSpace
/-
  Soundness: an error-free run of the validator yields a derivation of the declarative syntax
  (with unrestricted class members).
-/
namespace AL.Glob
open AL AL.Spec

/-- The validator's `chars` counter in terms of items. -/
def weight : List Item → Nat
  | [] => 0
  | .single _ :: t => 1 + weight t
  | .range _ _ :: t => 2 + weight t

theorem classBody_ne_nil {strict isRef : Bool} {items : List Item} {rest : List Sym}
    (h : ClassBody strict isRef [] items rest) : False := by cases h

theorem classLoop_sound (isRef : Bool) (st : GState) (n : Nat) (h : (classLoop st n).2.2.errs = []) :
    ∃ items, (classLoop st n).1 = .closed (some 93) ∧ (classLoop st n).2.1 = n + weight items ∧
      ClassBody false isRef (gp st) items (gp (classLoop st n).2.2) ∧ (classLoop st n).2.2.prec = st.prec := by
  have he : ∀ (s : GState) m, (s.error m).errs ≠ [] := GState.error_errs_ne_nil
  fun_induction classLoop st n with
  | case1 st n hch => exact absurd h (he _ _)
  | case2 st n c0 hch st1 hlt h93 =>
    have hg := gp_of_ch hch
    exact ⟨[], rfl, rfl, by rw [hg]; exact .close c0 _ h93, rfl⟩
  | case3 st n c0 hch st1 hlt h93 hpk ih =>
    have hg := gp_of_ch hch
    obtain ⟨items, h1, h2, h3, h4⟩ := ih h
    refine ⟨.single c0 :: items, h1, by rw [h2]; simp [weight]; omega, ?_, h4⟩
    rw [hg]
    refine .single c0 _ _ _ ⟨h93, by simp⟩ ?_ h3
    rw [← GState.peek_eq]; exact hpk
  | case4 st n c0 hch st1 hlt h93 hpk st2 hle2 hp2 st3 => exact absurd h (he _ _)
  | case5 st n c0 hch st1 hlt h93 hpk st2 hle2 hp2 ih =>
    exfalso
    obtain ⟨items, h1, h2, h3, h4⟩ := ih h
    have : gp st2 = [] := by
      rw [GState.peek_eq] at hp2
      cases hg : gp st2 with
      | nil => rfl
      | cons a b => simp [hg] at hp2
    rw [this] at h3
    exact classBody_ne_nil h3
  | case6 st n c0 hch st1 hlt h93 hpk st2 hle2 v hv hp2 r3 st3 hle3 e hgt ih =>
    have h' := nil_of_prefix_nil (classLoop_prefix ..) h
    exact absurd h' (he _ _)
  | case7 st n c0 hch st1 hlt h93 hpk st2 hle2 v hv hp2 r3 st3 hle3 e hgt ih =>
    have hg := gp_of_ch hch
    have hpk' : st1.peek = some 45 := by simpa using hpk
    obtain ⟨d, hd, hg1⟩ := gp_cons_of_peek hpk'
    obtain ⟨d2, hd2, hg2⟩ := gp_cons_of_peek hp2
    obtain ⟨items, h1, h2, h3, h4⟩ := ih h
    refine ⟨.range c0 d2 :: items, h1, by rw [h2]; simp [weight]; omega, ?_, h4⟩
    rw [hg]
    simp +zetaDelta only [hg1, hg2]
    have he2 : e = some d2.r := by
      simp +zetaDelta only [GState.next_fst, hg2, List.head?_cons, symRune]
    refine .range c0 d d2 _ _ _ ⟨h93, by simp⟩ hd ⟨fun h93' => hv (by rw [← hd2]; exact h93'), by simp⟩ ?_ h3
    rw [he2] at hgt
    simpa using hgt

theorem not_pathEscapable_of_peek {st0 : GState}
    (h1 : st0.peek = some 91 → False) (h2 : st0.peek = some 63 → False) (h3 : st0.peek = some 42 → False)
    (h4 : st0.peek = some 43 → False) (h5 : st0.peek = some 92 → False) (h6 : st0.peek = some 33 → False) :
    ∀ d, (gp st0).head? = some d → ¬ PathEscapable d.r := by
  intro d hd hpe
  have : st0.peek = some d.r := by rw [GState.peek_eq, hd]; rfl
  rw [this] at h1 h2 h3 h4 h5 h6
  unfold PathEscapable at hpe
  rcases hpe with h | h | h | h | h | h <;> simp_all

theorem weight_eq_one {items : List Item} (h : weight items = 1) : ∃ c, items = [.single c] := by
  match items, h with
  | [.single c], _ => exact ⟨c, rfl⟩
  | .single _ :: .single _ :: _, h => simp [weight] at h <;> omega
  | .single _ :: .range _ _ :: _, h => simp [weight] at h <;> omega
  | .range _ _ :: _, h => simp [weight] at h <;> omega

theorem classBody_nil_items {strict isRef : Bool} {l rest : List Sym}
    (h : ClassBody strict isRef l [] rest) : ∃ c, l = c :: rest ∧ c.r = 93 := by
  cases h with
  | close c rest hc => exact ⟨c, rfl, hc⟩

theorem esc_case {isRef p : Bool} {c0 : Sym} {st0 : GState} {x : Nat} (hpk : st0.peek = some x) (hc : c0.r = 92)
    (hx : Escapable isRef x) (hE : Elems false isRef true (gp st0.next.2)) : Elems false isRef p (c0 :: gp st0) := by
  obtain ⟨d, hd, hg⟩ := gp_cons_of_peek hpk
  rw [hg]
  exact .esc _ c0 d _ hc (by rw [hd]; exact hx) hE

theorem esc_last {c0 : Sym} {st0 : GState} {x : Nat} (hpk : st0.peek = some x) (hnil : gp st0.next.2 = []) :
    symRune st0.next.1 = ((c0 :: gp st0).getLast?).map (·.r) := by
  obtain ⟨d, hd, hg⟩ := gp_cons_of_peek hpk
  rw [hg, hnil, GState.next_fst, hg]
  rfl

theorem classBody_last {strict isRef : Bool} {l : List Sym} {items : List Item} {rest : List Sym}
    (h : ClassBody strict isRef l items rest) (hr : rest = []) : l.getLast?.map (·.r) = some 93 := by
  induction h with
  | close c rest hc => subst hr; simp [hc]
  | single c l items rest hm hh hb ih =>
    have := ih hr
    cases l with
    | nil => exact absurd hb (fun h => classBody_ne_nil h)
    | cons a b => simpa [List.getLast?_cons_cons] using this
  | range lo d hi l items rest hm hd hm2 hle hb ih =>
    have := ih hr
    cases l with
    | nil => exact absurd hb (fun h => classBody_ne_nil h)
    | cons a b => simpa [List.getLast?_cons_cons] using this

theorem switchBody_sound (isRef p : Bool) (c0 : Sym) (st0 : GState)
    (h : (switchBody isRef p (some c0.r) st0).state.errs = []) :
    ∃ c' pr st1, switchBody isRef p (some c0.r) st0 = .ok (c', pr, st1) ∧
      (Elems false isRef pr (gp st1) → Elems false isRef p (c0 :: gp st0)) ∧
      (gp st1 = [] → c' = ((c0 :: gp st0).getLast?).map (·.r)) := by
  have he : ∀ (s : GState) m, (s.error m).errs ≠ [] := GState.error_errs_ne_nil
  have hp : ∀ {a b : List GErr}, a <+: b → b = [] → a = [] := nil_of_prefix_nil
  have hn : ∀ s : GState, s.errs <+: s.next.2.errs := GState.next_prefix
  have hcl := classLoop_sound isRef st0 0
  generalize hres : switchBody isRef p (some c0.r) st0 = res at h ⊢
  unfold switchBody at hres
  (repeat' split at hres) <;> subst hres <;> simp only [SwitchRes.state] at h
  all_goals (try (exfalso; grind))
  all_goals refine ⟨_, _, _, rfl, fun hE => ?_, fun hnil => ?_⟩
  all_goals (try simp only [Option.some.injEq] at *)
  all_goals first
    | exact esc_last (by assumption) hnil
    | (rw [hnil]; rfl)
    | exact esc_case (by assumption) (by assumption) (by unfold Escapable; simp_all) hE
    | exact .bslash _ c0 _ (by simp_all) (by assumption) (not_pathEscapable_of_peek (by assumption) (by assumption) (by assumption) (by assumption) (by assumption) (by assumption)) hE
    | (have : p = true := by simp_all
       subst this
       exact .opt c0 _ (by omega) hE)
    | exact .star _ c0 _ (by assumption) hE
    | exact .ord _ c0 _ (by unfold Ordinary LineBreak RefInvalid; simp_all) hE
    | (rename_i hpk _ _ _ _ heq hch1 _
       rw [heq] at hcl
       obtain ⟨items, h1, h2, h3, h4⟩ := hcl h
       simp only [Nat.zero_add] at h2 h3
       refine .cls _ c0 _ items _ (by assumption) h3 ⟨?_, ?_⟩ hE
       · intro h0
         subst h0
         obtain ⟨c, hgp, hc93⟩ := classBody_nil_items h3
         apply hpk
         rw [GState.peek_eq, hgp]
         simp [hc93]
       · intro c hcs
         subst hcs
         exact hch1 (by rw [h2]; rfl))
    | (rename_i hpk _ _ _ _ heq hch1 _
       rw [heq] at hcl
       obtain ⟨items, h1, h2, h3, h4⟩ := hcl h
       simp only [ClassEnd.closed.injEq] at h1
       subst h1
       have h5 := classBody_last h3 hnil
       cases hg : gp st0 with
       | nil => rw [hg] at h3; exact absurd h3 (fun h => classBody_ne_nil h)
       | cons a b => rw [hg] at h5; rw [List.getLast?_cons_cons]; exact h5.symm)


/-- For refs: the last character is neither `/` nor `.`. -/
def EndOK (isRef : Bool) (l : List Sym) : Prop :=
  isRef = true → l.getLast?.map (·.r) ≠ some 47 ∧ l.getLast?.map (·.r) ≠ some 46

theorem peek_none_iff (st : GState) : st.peek = none ↔ gp st = [] := by
  rw [GState.peek_eq]
  cases gp st <;> simp

theorem validateNext_sound (isRef : Bool) (st : GState) (hne : gp st ≠ [])
    (h : (validateNext isRef st).2.errs = []) :
    ((validateNext isRef st).1 = false ↔ gp (validateNext isRef st).2 = []) ∧
    (Elems false isRef (validateNext isRef st).2.prec (gp (validateNext isRef st).2) →
      Elems false isRef st.prec (gp st)) ∧
    (gp (validateNext isRef st).2 = [] → EndOK isRef (gp st)) := by
  have he : ∀ (s : GState) m, (s.error m).errs ≠ [] := GState.error_errs_ne_nil
  obtain ⟨c0, hc0, hg⟩ := gp_cons_of_ne_nil hne
  unfold validateNext at h ⊢
  simp only [] at h ⊢
  have h1 := nil_of_prefix_nil (finishNext_prefix ..) h
  rw [hc0] at h h1 ⊢
  simp only [symRune] at h h1 ⊢
  obtain ⟨c', pr, st1, heq, hE, hL⟩ := switchBody_sound isRef st.prec c0 st.next.2 h1
  rw [heq] at h ⊢
  rw [hg]
  simp only [finishNext] at h ⊢
  have hpk : ({ st1 with prec := pr } : GState).peek = st1.peek := rfl
  rw [hpk] at h ⊢
  by_cases hp : st1.peek = none
  · have hnil := (peek_none_iff st1).1 hp
    simp only [hp, if_true] at h ⊢
    split at h
    · exact absurd h (he _ _)
    · rename_i hcond
      simp only [hcond, Bool.false_eq_true, if_false]
      refine ⟨by simp [gp, hnil] , hE, fun _ hr => ?_⟩
      rw [← hL hnil]
      subst hr
      simp only [Bool.true_and, Bool.or_eq_true, decide_eq_true_eq, not_or] at hcond
      exact hcond
  · have hnn : gp st1 ≠ [] := fun h0 => hp ((peek_none_iff st1).2 h0)
    simp only [hp, if_false] at h ⊢
    exact ⟨by simpa [gp] using hnn, hE, fun h0 => absurd h0 hnn⟩

/-! ### Lifting an invariant of `next` / `error` / `prec :=` through the validator -/

section Lift
variable (I : GState → Prop) (hn : ∀ s, I s → I s.next.2) (he : ∀ s m, I s → I (s.error m))
  (hp : ∀ (s : GState) (p : Bool), I s → I { s with prec := p })
include hn he

theorem classLoop_lift (st : GState) (n : Nat) (h : I st) : I (classLoop st n).2.2 := by
  fun_induction classLoop st n
  all_goals (simp +zetaDelta only [] at *)
  all_goals grind

theorem switchBody_lift (isRef prec0 : Bool) (c : Option Nat) (st0 : GState) (h : I st0) :
    I (switchBody isRef prec0 c st0).state := by
  have hc := classLoop_lift I hn he st0 0 h
  unfold switchBody
  repeat' split
  all_goals (simp only [SwitchRes.state] at *)
  all_goals (try grind)

include hp

omit hn in
theorem finishNext_lift (isRef : Bool) (r : SwitchRes) (h : I r.state) : I (finishNext isRef r).2 := by
  unfold finishNext
  split
  · exact h
  · simp only [SwitchRes.state] at h
    simp only []
    split
    · split
      · exact he _ _ (hp _ _ h)
      · exact hp _ _ h
    · exact hp _ _ h

theorem validateNext_lift (isRef : Bool) (st : GState) (h : I st) : I (validateNext isRef st).2 := by
  unfold validateNext
  exact finishNext_lift I he hp isRef _ (switchBody_lift I hn he isRef _ _ _ (hn _ h))

theorem loop_lift (isRef : Bool) (st : GState) (h : I st) : I (loop isRef st) := by
  fun_induction loop isRef st with
  | case1 st r hch => exact validateNext_lift I hn he hp isRef st h
  | case2 st r hch hr ih => exact ih (validateNext_lift I hn he hp isRef st h)
  | case3 st r hch hr => exact validateNext_lift I hn he hp isRef st h

end Lift

/-! ### Suffix invariant -/

theorem gp_suffix_next (src : List Sym) (s : GState) (h : gp s <:+ src) : gp s.next.2 <:+ src := by
  rw [GState.gp_next]; exact (List.tail_suffix _).trans h

theorem loop_suffix (src : List Sym) (isRef : Bool) (st : GState) (h : gp st <:+ src) : gp (loop isRef st) <:+ src :=
  loop_lift (fun s => gp s <:+ src) (gp_suffix_next src) (fun _ _ h => h) (fun _ _ h => h) isRef st h

theorem validateNext_suffix (src : List Sym) (isRef : Bool) (st : GState) (h : gp st <:+ src) :
    gp (validateNext isRef st).2 <:+ src :=
  validateNext_lift (fun s => gp s <:+ src) (gp_suffix_next src) (fun _ _ h => h) (fun _ _ h => h) isRef st h

/-! ### The loop -/

theorem loop_sound (isRef : Bool) (st : GState) (h : (loop isRef st).errs = []) :
    Elems false isRef st.prec (gp st) ∧ gp (loop isRef st) = [] := by
  fun_induction loop isRef st with
  | case1 st r hch =>
    have hg : gp st = [] := (pending_eq_nil _).2 hch
    refine ⟨by rw [hg]; exact .nil _, ?_⟩
    have := validateNext_suffix (gp st) isRef st (List.suffix_refl _)
    rw [hg] at this
    exact List.suffix_nil.1 this
  | case2 st r hch hr ih =>
    have hne : gp st ≠ [] := fun h0 => hch ((pending_eq_nil _).1 h0)
    have h1 : (validateNext isRef st).2.errs = [] := nil_of_prefix_nil (loop_prefix ..) h
    obtain ⟨_, hb, _⟩ := validateNext_sound isRef st hne h1
    obtain ⟨ih1, ih2⟩ := ih h
    exact ⟨hb ih1, ih2⟩
  | case3 st r hch hr =>
    have hne : gp st ≠ [] := fun h0 => hch ((pending_eq_nil _).1 h0)
    obtain ⟨ha, hb, _⟩ := validateNext_sound isRef st hne h
    have hnil := ha.1 (by simpa using hr)
    refine ⟨hb ?_, hnil⟩
    rw [hnil]; exact .nil _

theorem getLast_of_suffix {l src : List Sym} (h : l <:+ src) (hne : l ≠ []) : src.getLast? = l.getLast? := by
  obtain ⟨pre, rfl⟩ := h
  rw [List.getLast?_append]
  cases hl : l.getLast? with
  | none => exact absurd (List.getLast?_eq_none_iff.1 hl) hne
  | some c => simp

theorem loop_endOK (src : List Sym) (isRef : Bool) (st : GState) (hs : gp st <:+ src) (hne : gp st ≠ [])
    (h : (loop isRef st).errs = []) : EndOK isRef src := by
  fun_induction loop isRef st with
  | case1 st r hch => exact absurd ((pending_eq_nil _).2 hch) hne
  | case2 st r hch hr ih =>
    have h1 : (validateNext isRef st).2.errs = [] := nil_of_prefix_nil (loop_prefix ..) h
    obtain ⟨ha, _, _⟩ := validateNext_sound isRef st hne h1
    refine ih (validateNext_suffix src isRef st hs) ?_ h
    intro h0
    have := ha.2 h0
    simp +zetaDelta [this] at hr
  | case3 st r hch hr =>
    obtain ⟨ha, _, hc⟩ := validateNext_sound isRef st hne h
    have hnil := ha.1 (by simpa using hr)
    have := hc hnil
    intro hr
    rw [getLast_of_suffix hs hne]
    exact this hr



/-! ### Scanner errors = characters that are NUL or invalid UTF-8 -/

theorem advance_errs_nil (s : Scanner) (d : Sym) (r : List Sym) : (s.advance d r).2 = [] ↔ OkSym d := by
  unfold Scanner.advance OkSym
  simp only []
  cases hb : d.bad <;> simp
  split
  · simp_all
  · split <;> simp_all

theorem next_errs_nil (s : Scanner) : s.next.2.2 = [] ↔ ∀ d, (pending s)[1]? = some d → OkSym d := by
  unfold Scanner.next
  cases hc : s.ch with
  | none => simp [pending, hc]
  | some c =>
    simp only [pending, hc, Scanner.read]
    cases hr : s.rest with
    | nil => simp
    | cons d r => simp [advance_errs_nil]

theorem scanErrs_nil (l : List ScanErr) : scanErrs l = [] ↔ l = [] := by
  unfold scanErrs; simp

/-- All characters already read are fine as long as no error was reported. -/
def OkI (src : List Sym) (st : GState) : Prop :=
  ∃ pre, src = pre ++ gp st ∧ (st.errs = [] → AllOk pre ∧ ∀ c, (gp st).head? = some c → OkSym c)

theorem OkI.next {src : List Sym} {st : GState} (h : OkI src st) : OkI src st.next.2 := by
  obtain ⟨pre, hsrc, hok⟩ := h
  cases hg : gp st with
  | nil =>
    refine ⟨pre, by rw [GState.gp_next, hg]; simpa [hg] using hsrc, fun he => ?_⟩
    rw [GState.gp_next, hg]
    have h0 := nil_of_prefix_nil st.next_prefix he
    exact ⟨(hok h0).1, by simp⟩
  | cons c t =>
    refine ⟨pre ++ [c], by rw [GState.gp_next, hg]; simpa [hg] using hsrc, fun he => ?_⟩
    have h0 := nil_of_prefix_nil st.next_prefix he
    obtain ⟨h1, h2⟩ := hok h0
    rw [GState.next_errs, h0, List.nil_append, scanErrs_nil, next_errs_nil] at he
    rw [GState.gp_next, hg]
    refine ⟨?_, ?_⟩
    · intro x hx
      rcases List.mem_append.1 hx with hx | hx
      · exact h1 x hx
      · simp only [List.mem_singleton] at hx; subst hx; exact h2 x (by rw [hg]; rfl)
    · intro d hd
      apply he d
      change (gp st)[1]? = some d
      rw [hg]
      cases t with
      | nil => simp at hd
      | cons a b => simpa using hd

theorem OkI.error {src : List Sym} {st : GState} (m : GMsg) (h : OkI src st) : OkI src (st.error m) := by
  obtain ⟨pre, hsrc, hok⟩ := h
  exact ⟨pre, hsrc, fun he => absurd he (GState.error_errs_ne_nil _ _)⟩

theorem loop_allOk (src : List Sym) (isRef : Bool) (st : GState) (h : OkI src st)
    (he : (loop isRef st).errs = []) : AllOk src := by
  have := loop_lift (OkI src) (fun _ h => h.next) (fun _ m h => h.error m) (fun _ _ h => h) isRef st h
  obtain ⟨pre, hsrc, hok⟩ := this
  rw [(loop_sound isRef st he).2, List.append_nil] at hsrc
  rw [hsrc]
  exact (hok he).1

/-- The pattern does not begin with a byte-order mark (which the scanner would drop silently). -/
def NoBOM (src : List Sym) : Prop := src.head?.map (·.r) ≠ some 0xFEFF

instance (src : List Sym) : Decidable (NoBOM src) := by unfold NoBOM; infer_instance

theorem init_noBOM (c : Sym) (t : List Sym) (h : c.r ≠ 0xFEFF) :
    Scanner.init (c :: t) = ({ rest := c :: t } : Scanner).advance c t := by
  simp only [Scanner.init, Scanner.read, Scanner.advance_ch]
  simp [h]

theorem init_OkI (src : List Sym) (hb : NoBOM src) (hne : src ≠ []) :
    let st : GState := { scan := (Scanner.init src).1, errs := scanErrs (Scanner.init src).2 }
    gp st = src ∧ OkI src st := by
  cases src with
  | nil => exact absurd rfl hne
  | cons c t =>
    have hc : c.r ≠ 0xFEFF := by simpa [NoBOM] using hb
    have hp := init_pending (c :: t)
    simp only [] at hp ⊢
    have hgp : pending (Scanner.init (c :: t)).1 = c :: t := by rw [hp]; simp [hc]
    refine ⟨hgp, [], by simp [gp, hgp], fun he => ⟨by intro x hx; simp at hx, ?_⟩⟩
    simp only [gp, hgp, List.head?_cons, Option.some.injEq]
    intro d hd
    subst hd
    simp only [] at he
    rw [scanErrs_nil, init_noBOM c t hc, advance_errs_nil] at he
    exact he

theorem validate_sound (isRef : Bool) (src : List Sym) (hb : NoBOM src) (h : validate isRef src = []) :
    ValidGlobLoose isRef src := by
  have he : ∀ (s : GState) m, (s.error m).errs ≠ [] := GState.error_errs_ne_nil
  unfold validate at h
  simp only [] at h
  split at h
  · simp at h
  · rename_i hemp
    have hne : src ≠ [] := by intro h0; subst h0; simp at hemp
    obtain ⟨hgp, hok⟩ := init_OkI src hb hne
    generalize hst : ({ scan := (Scanner.init src).1, errs := scanErrs (Scanner.init src).2 } : GState) = st at h hgp hok
    have hprec : st.prec = false := by subst hst; rfl
    have hpeek : st.peek = src.head?.map (·.r) := by rw [GState.peek_eq, hgp]
    unfold ValidGlobLoose ValidGlobGen body RefEnds
    split at h
    · -- '/'
      rename_i h47
      split at h
      · exact absurd (nil_of_prefix_nil (loop_prefix ..) h) (he _ _)
      · rename_i hr
        have hr' : isRef = false := by simpa using hr
        have h33 : ¬ src.head?.map (·.r) = some 33 := by rw [← hpeek, h47]; simp
        simp only [h33, if_false]
        have := (loop_sound isRef st h).1
        rw [hgp, hprec] at this
        exact ⟨loop_allOk src isRef st hok h, hne, this, by simp [hr']⟩
    · -- '!'
      rename_i h33
      have h33' : src.head?.map (·.r) = some 33 := by rw [← hpeek, h33]
      simp only [h33', if_true]
      split at h
      · exact absurd h (he _ _)
      · rename_i hpk
        have hg1 : gp st.next.2 = src.tail := by rw [GState.gp_next, hgp]
        have hne1 : src.tail ≠ [] := by
          rw [← hg1]; exact fun h0 => hpk ((peek_none_iff _).2 h0)
        have hs := loop_sound isRef { st.next.2 with prec := false } h
        have hE := hs.1
        simp only [] at hE
        change Elems false isRef false (gp st.next.2) at hE
        rw [hg1] at hE
        refine ⟨loop_allOk src isRef { st.next.2 with prec := false } hok.next h, hne1, hE, fun hr => ⟨by simp, ?_⟩⟩
        have := loop_endOK src isRef { st.next.2 with prec := false } (by change gp st.next.2 <:+ src; rw [hg1]; exact List.tail_suffix _) (by change gp st.next.2 ≠ []; rw [hg1]; exact hne1) h
        exact this hr
    · rename_i h47 h33
      have h33' : ¬ src.head?.map (·.r) = some 33 := by rw [← hpeek]; exact h33
      simp only [h33', if_false]
      have hs := (loop_sound isRef st h).1
      rw [hgp, hprec] at hs
      refine ⟨loop_allOk src isRef st hok h, hne, hs, fun hr => ⟨by rw [← hpeek]; exact h47, ?_⟩⟩
      exact loop_endOK src isRef st (by rw [hgp]; exact List.suffix_refl _) (by rw [hgp]; exact hne) h hr

end AL.Glob
