import AL.Spec.GlobSyntax
import AL.Lemmas.GlobSpace
/-
  Soundness: an error-free run of the validator yields a derivation of the declarative syntax
  (with unrestricted class members).
-/
namespace AL.Glob
open AL AL.Spec

/-- The validator's `chars` counter in terms of items. -/
def weight : List Item → Nat
  | [] => 0
  | .single _ :: t => 1 + weight t
  | .range _ _ :: t => 2 + weight t

theorem classBody_ne_nil {strict isRef : Bool} {items : List Item} {rest : List Sym}
    (h : ClassBody strict isRef [] items rest) : False := by cases h

theorem classLoop_sound (isRef : Bool) (st : GState) (n : Nat) (h : (classLoop st n).2.2.errs = []) :
    ∃ items, (classLoop st n).1 = .closed (some 93) ∧ (classLoop st n).2.1 = n + weight items ∧
      ClassBody false isRef (gp st) items (gp (classLoop st n).2.2) ∧ (classLoop st n).2.2.prec = st.prec := by
  have he : ∀ (s : GState) m, (s.error m).errs ≠ [] := GState.error_errs_ne_nil
  fun_induction classLoop st n with
  | case1 st n hch => exact absurd h (he _ _)
  | case2 st n c0 hch st1 hlt h93 =>
    have hg := gp_of_ch hch
    exact ⟨[], rfl, rfl, by rw [hg]; exact .close c0 _ h93, rfl⟩
  | case3 st n c0 hch st1 hlt h93 hpk ih =>
    have hg := gp_of_ch hch
    obtain ⟨items, h1, h2, h3, h4⟩ := ih h
    refine ⟨.single c0 :: items, h1, by rw [h2]; simp [weight]; omega, ?_, h4⟩
    rw [hg]
    refine .single c0 _ _ _ ⟨h93, by simp⟩ ?_ h3
    rw [← GState.peek_eq]; exact hpk
  | case4 st n c0 hch st1 hlt h93 hpk st2 hle2 hp2 st3 => exact absurd h (he _ _)
  | case5 st n c0 hch st1 hlt h93 hpk st2 hle2 hp2 ih =>
    exfalso
    obtain ⟨items, h1, h2, h3, h4⟩ := ih h
    have : gp st2 = [] := by
      rw [GState.peek_eq] at hp2
      cases hg : gp st2 with
      | nil => rfl
      | cons a b => simp [hg] at hp2
    rw [this] at h3
    exact classBody_ne_nil h3
  | case6 st n c0 hch st1 hlt h93 hpk st2 hle2 v hv hp2 r3 st3 hle3 e hgt ih =>
    have h' := nil_of_prefix_nil (classLoop_prefix ..) h
    exact absurd h' (he _ _)
  | case7 st n c0 hch st1 hlt h93 hpk st2 hle2 v hv hp2 r3 st3 hle3 e hgt ih =>
    have hg := gp_of_ch hch
    have hpk' : st1.peek = some 45 := by simpa using hpk
    obtain ⟨d, hd, hg1⟩ := gp_cons_of_peek hpk'
    obtain ⟨d2, hd2, hg2⟩ := gp_cons_of_peek hp2
    obtain ⟨items, h1, h2, h3, h4⟩ := ih h
    refine ⟨.range c0 d2 :: items, h1, by rw [h2]; simp [weight]; omega, ?_, h4⟩
    rw [hg]
    simp +zetaDelta only [hg1, hg2]
    have he2 : e = some d2.r := by
      simp +zetaDelta only [GState.next_fst, hg2, List.head?_cons, symRune]
    refine .range c0 d d2 _ _ _ ⟨h93, by simp⟩ hd ⟨fun h93' => hv (by rw [← hd2]; exact h93'), by simp⟩ ?_ h3
    rw [he2] at hgt
    simpa using hgt
end AL.Glob
