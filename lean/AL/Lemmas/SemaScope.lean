import AL.Lemmas.SemaMonoBasic
/-
  C05: what a scope type means to the checker — `ctx`, `ctx.name`, `ctx['name']` for a context variable that
  is defined and available.
-/
namespace AL.Sema
open AL

/-- a defined and available context variable: its type, no diagnostic -/
theorem check_var_ok (Γ : Env) (ctx : String) (t : Ty)
    (hl : Ty.lookup ctx Γ.vars = some t) (ha : Γ.availCtx.contains (Γ.lower ctx) = true) :
    (check Γ (.var ctx)).ty = t ∧ (check Γ (.var ctx)).errs = [] := by
  rw [check_var]
  simp only [wrap_ty, wrap_errs, hl, ha, if_true, and_self]

theorem isVarsVar_var (ctx : String) : isVarsVar (.var ctx) = decide (ctx = "vars") := by
  by_cases h : ctx = "vars"
  · subst h; rfl
  · simp only [h, decide_false]
    unfold isVarsVar
    split
    · next h' => cases h'; exact (h rfl).elim
    · rfl

/-- `ctx.name` -/
theorem check_ctx_prop (Γ : Env) (ctx name : String) (t : Ty)
    (hl : Ty.lookup ctx Γ.vars = some t) (ha : Γ.availCtx.contains (Γ.lower ctx) = true) :
    (check Γ (.objDeref (.var ctx) name)).ty = (objDerefTy Γ (decide (ctx = "vars")) name t).1 ∧
    (check Γ (.objDeref (.var ctx) name)).errs = (objDerefTy Γ (decide (ctx = "vars")) name t).2 := by
  obtain ⟨h1, h2⟩ := check_var_ok Γ ctx t hl ha
  rw [check_objDeref]
  simp only [wrap_ty, wrap_errs, h1, h2, isVarsVar_var, List.nil_append, and_self]

/-- `recv.name` when `recv` is not a bare variable and checks without diagnostics -/
theorem check_prop_of (Γ : Env) (recv : E) (name : String) (t : Ty) (hv : isVarsVar recv = false)
    (h1 : (check Γ recv).ty = t) (h2 : (check Γ recv).errs = []) :
    (check Γ (.objDeref recv name)).ty = (objDerefTy Γ false name t).1 ∧
    (check Γ (.objDeref recv name)).errs = (objDerefTy Γ false name t).2 := by
  rw [check_objDeref]
  simp only [wrap_ty, wrap_errs, h1, h2, hv, List.nil_append, and_self]

/-- `ctx['name']` -/
theorem check_ctx_index (Γ : Env) (ctx name : String) (t : Ty)
    (hl : Ty.lookup ctx Γ.vars = some t) (ha : Γ.availCtx.contains (Γ.lower ctx) = true) :
    (check Γ (.index (.var ctx) (.str name))).ty = (indexTy Γ (some name) .string t).1 ∧
    (check Γ (.index (.var ctx) (.str name))).errs = (indexTy Γ (some name) .string t).2 := by
  obtain ⟨h1, h2⟩ := check_var_ok Γ ctx t hl ha
  rw [check_index, check_str]
  simp only [wrap_ty, wrap_errs, h1, h2, strLit?, List.nil_append, and_self]

/-- strict object: found ⇒ the property type, silently -/
theorem objDerefTy_strict_some (Γ : Env) (b : Bool) (name : String) (ps : List (String × Ty)) (pt : Ty)
    (h : Ty.lookup name ps = some pt) : objDerefTy Γ b name (.obj ps none) = (pt, []) := by
  simp only [objDerefTy, h]

/-- strict object: not found ⇒ `prop-undefined` -/
theorem objDerefTy_strict_none (Γ : Env) (b : Bool) (name : String) (ps : List (String × Ty))
    (h : Ty.lookup name ps = none) :
    objDerefTy Γ b name (.obj ps none) = (.any, [err "prop-undefined" [name, tyStr (.obj ps none)]]) := by
  simp only [objDerefTy, h]

end AL.Sema
