import AL.Lemmas.GlobErrs
/-
  A space at either end of a pattern is always reported by ref validation; `ref_implies_path`.
-/
namespace AL.Glob
open AL

/-- The last character of `l` is a space. -/
def Sp (l : List Sym) : Prop := ∃ c, l.getLast? = some c ∧ c.r = 32

theorem Sp_nil : ¬ Sp [] := by simp [Sp]

theorem Sp_cons {c : Sym} {t : List Sym} (h : Sp (c :: t)) : (t = [] ∧ c.r = 32) ∨ Sp t := by
  cases t with
  | nil => left; simpa [Sp] using h
  | cons d t => right; simpa [Sp, List.getLast?_cons_cons] using h

theorem Sp_tail {c : Sym} {t : List Sym} (h : Sp (c :: t)) (ht : t ≠ []) : Sp t := by
  rcases Sp_cons h with h | h
  · exact absurd h.1 ht
  · exact h

theorem Sp_tail_r {c : Sym} {t : List Sym} (h : Sp (c :: t)) (hc : c.r ≠ 32) : Sp t := by
  rcases Sp_cons h with h | h
  · exact absurd h.2 hc
  · exact h

theorem gp_of_ch {st : GState} {c : Sym} (h : st.scan.ch = some c) : gp st = c :: gp st.next.2 := by
  rw [GState.gp_next]; simp [gp, pending, h]

theorem gp_cons_of_peek {st : GState} {x : Nat} (h : st.peek = some x) : ∃ c, c.r = x ∧ gp st = c :: gp st.next.2 := by
  rw [GState.peek_eq] at h
  rw [GState.gp_next]
  cases hg : gp st with
  | nil => simp [hg] at h
  | cons c t => refine ⟨c, ?_, by simp⟩; simpa [hg] using h

theorem classLoop_sp (st : GState) (n : Nat) (h : (classLoop st n).2.2.errs = []) :
    (∃ last, (classLoop st n).1 = .closed last) ∧ gp st ≠ [] ∧ (Sp (gp st) → Sp (gp (classLoop st n).2.2)) := by
  have he : ∀ (s : GState) m, (s.error m).errs ≠ [] := GState.error_errs_ne_nil
  fun_induction classLoop st n with
  | case1 st n hch => exact absurd h (he _ _)
  | case2 st n c0 hch st1 hlt h93 =>
    have hg := gp_of_ch hch
    refine ⟨⟨_, rfl⟩, by simp [hg], fun hs => ?_⟩
    rw [hg] at hs
    exact Sp_tail_r hs (by omega)
  | case3 st n c0 hch st1 hlt h93 hpk ih =>
    have hg := gp_of_ch hch
    obtain ⟨h1, h2, h3⟩ := ih h
    refine ⟨h1, by simp [hg], fun hs => h3 ?_⟩
    rw [hg] at hs
    exact Sp_tail hs h2
  | case4 st n c0 hch st1 hlt h93 hpk st2 hle2 hp2 st3 => exact absurd h (he _ _)
  | case5 st n c0 hch st1 hlt h93 hpk st2 hle2 hp2 ih =>
    have hg := gp_of_ch hch
    have hpk' : st1.peek = some 45 := by simpa using hpk
    obtain ⟨d, hd, hg1⟩ := gp_cons_of_peek hpk'
    obtain ⟨h1, h2, h3⟩ := ih h
    refine ⟨h1, by simp [hg], fun hs => h3 ?_⟩
    rw [hg] at hs
    have hs1 := Sp_tail hs (by simp +zetaDelta [hg1])
    simp +zetaDelta only [hg1] at hs1
    exact Sp_tail hs1 h2
  | case6 st n c0 hch st1 hlt h93 hpk st2 hle2 v hv hp2 r3 st3 hle3 e hgt ih =>
    have h' := nil_of_prefix_nil (classLoop_prefix ..) h
    exact absurd h' (he _ _)
  | case7 st n c0 hch st1 hlt h93 hpk st2 hle2 v hv hp2 r3 st3 hle3 e hgt ih =>
    have hg := gp_of_ch hch
    have hpk' : st1.peek = some 45 := by simpa using hpk
    obtain ⟨d, hd, hg1⟩ := gp_cons_of_peek hpk'
    obtain ⟨d2, hd2, hg2⟩ := gp_cons_of_peek hp2
    obtain ⟨h1, h2, h3⟩ := ih h
    refine ⟨h1, by simp [hg], fun hs => h3 ?_⟩
    rw [hg] at hs
    have hs1 := Sp_tail hs (by simp +zetaDelta [hg1])
    simp +zetaDelta only [hg1] at hs1
    have hs2 := Sp_tail hs1 (by simp +zetaDelta [hg2])
    simp +zetaDelta only [hg2] at hs2
    exact Sp_tail hs2 h2

theorem switchBody_sp (prec0 : Bool) (c : Option Nat) (st0 : GState) (hs : Sp (gp st0))
    (h : (switchBody true prec0 c st0).state.errs = []) :
    ∃ c' pr st1, switchBody true prec0 c st0 = .ok (c', pr, st1) ∧ Sp (gp st1) := by
  have he : ∀ (s : GState) m, (s.error m).errs ≠ [] := GState.error_errs_ne_nil
  have hp : ∀ {a b : List GErr}, a <+: b → b = [] → a = [] := nil_of_prefix_nil
  have hn : ∀ s : GState, s.errs <+: s.next.2.errs := GState.next_prefix
  have hnx : ∀ x, x ≠ 32 → st0.peek = some x → Sp (gp st0.next.2) := by
    intro x hx hpk
    obtain ⟨d, hd, hg⟩ := gp_cons_of_peek hpk
    rw [hg] at hs
    exact Sp_tail_r hs (by omega)
  have hcl := classLoop_sp st0 0
  unfold switchBody at h ⊢
  repeat' split
  all_goals (simp only [SwitchRes.state] at *)
  all_goals (try grind)


theorem gp_cons_of_ne_nil {st : GState} (h : gp st ≠ []) : ∃ c, st.next.1 = some c ∧ gp st = c :: gp st.next.2 := by
  rw [GState.gp_next, GState.next_fst]
  cases hg : gp st with
  | nil => exact absurd hg h
  | cons c t => exact ⟨c, by simp⟩

theorem Sp_ne_nil {l : List Sym} (h : Sp l) : l ≠ [] := by
  intro hl; subst hl; exact Sp_nil h

theorem validateNext_sp (st : GState) (hs : Sp (gp st)) (h : (validateNext true st).2.errs = []) :
    (validateNext true st).1 = true ∧ Sp (gp (validateNext true st).2) := by
  have he : ∀ (s : GState) m, (s.error m).errs ≠ [] := GState.error_errs_ne_nil
  unfold validateNext at h ⊢
  simp only [] at h ⊢
  obtain ⟨c0, hc0, hg⟩ := gp_cons_of_ne_nil (Sp_ne_nil hs)
  have h1 := nil_of_prefix_nil (finishNext_prefix ..) h
  rw [hc0] at h h1 ⊢
  rw [hg] at hs
  rcases Sp_cons hs with ⟨_, h32⟩ | hs'
  · exfalso
    simp only [symRune, h32] at h1
    unfold switchBody at h1
    simp only [SwitchRes.state, if_true] at h1
    exact he _ _ h1
  · obtain ⟨c', pr, st1, heq, hs1⟩ := switchBody_sp st.prec (symRune (some c0)) st.next.2 hs' h1
    rw [heq] at h ⊢
    have hpk : ({ st1 with prec := pr } : GState).peek ≠ none := by
      rw [GState.peek_eq]
      have := Sp_ne_nil hs1
      cases hg1 : gp st1 with
      | nil => exact absurd hg1 this
      | cons a b => simp
    simp only [finishNext, hpk, if_false]
    exact ⟨trivial, hs1⟩

theorem loop_sp (st : GState) (hs : Sp (gp st)) : (loop true st).errs ≠ [] := by
  intro h
  fun_induction loop true st with
  | case1 st r hch => exact Sp_ne_nil hs ((pending_eq_nil _).2 hch)
  | case2 st r hch hr ih =>
    have h1 : (validateNext true st).2.errs = [] := nil_of_prefix_nil (loop_prefix ..) h
    exact ih (validateNext_sp st hs h1).2 h
  | case3 st r hch hr =>
    have := (validateNext_sp st hs h).1
    simp +zetaDelta [this] at hr


theorem init_pending (src : List Sym) :
    pending (Scanner.init src).1 =
      match src with
      | [] => []
      | c :: t => if c.r = 0xFEFF && !c.bad then t else c :: t := by
  cases src with
  | nil => simp [Scanner.init, Scanner.read, pending]
  | cons c t =>
    simp only [Scanner.init, Scanner.read, Scanner.advance_ch]
    split
    · cases t with
      | nil => simp [pending]
      | cons d u => simp [pending]
    · simp [pending]

theorem loop_validateNext_prefix (isRef : Bool) (st : GState) :
    (validateNext isRef st).2.errs <+: (loop isRef st).errs := by
  rw [loop.eq_1]
  split
  · exact List.prefix_refl _
  · split
    · exact loop_prefix _ _
    · exact List.prefix_refl _

theorem loop_space_head (st : GState) (c : Sym) (t : List Sym) (hg : gp st = c :: t) (hc : c.r = 32) :
    (loop true st).errs ≠ [] := by
  intro h
  have h1 := nil_of_prefix_nil (loop_validateNext_prefix ..) h
  unfold validateNext at h1
  simp only [] at h1
  have h2 := nil_of_prefix_nil (finishNext_prefix ..) h1
  have : st.next.1 = some c := by rw [GState.next_fst, hg]; rfl
  simp only [this, symRune, hc] at h2
  unfold switchBody at h2
  simp only [SwitchRes.state, if_true] at h2
  exact GState.error_errs_ne_nil _ _ h2


theorem validate_ref_space_last (src : List Sym) (hs : Sp src) : validate true src ≠ [] := by
  have he : ∀ (s : GState) m, (s.error m).errs ≠ [] := GState.error_errs_ne_nil
  have hne := Sp_ne_nil hs
  have hp := init_pending src
  intro h
  unfold validate at h
  simp only [] at h
  have hemp : src.isEmpty = false := by cases src <;> simp_all
  simp only [hemp, Bool.false_eq_true, if_false, if_true] at h
  generalize hst : ({ scan := (Scanner.init src).1, errs := scanErrs (Scanner.init src).2 } : GState) = st at h
  have hgs : Sp (gp st) := by
    subst hst
    simp only [gp, hp]
    cases src with
    | nil => exact absurd rfl hne
    | cons c t =>
      simp only []
      split
      · rename_i hb
        simp only [Bool.and_eq_true, decide_eq_true_eq] at hb
        exact Sp_tail_r hs (by omega)
      · exact hs
  split at h
  · have := nil_of_prefix_nil (loop_prefix ..) h
    exact he _ _ this
  · rename_i h33
    obtain ⟨d, hd, hg⟩ := gp_cons_of_peek h33
    rw [hg] at hgs
    have hs1 := Sp_tail_r hgs (by omega)
    split at h
    · exact he _ _ h
    · exact loop_sp { st.next.2 with prec := false } hs1 h
  · exact loop_sp _ hgs h

theorem validate_ref_space_head (c : Sym) (t : List Sym) (hc : c.r = 32) : validate true (c :: t) ≠ [] := by
  have hp := init_pending (c :: t)
  intro h
  unfold validate at h
  simp only [] at h
  simp only [List.isEmpty_cons, Bool.false_eq_true, if_false, if_true] at h
  generalize hst : ({ scan := (Scanner.init (c :: t)).1, errs := scanErrs (Scanner.init (c :: t)).2 } : GState) = st at h
  have hgs : gp st = c :: t := by
    subst hst
    simp only [gp, hp]
    simp [hc]
  have hpk : st.peek = some 32 := by rw [GState.peek_eq, hgs]; simp [hc]
  rw [hpk] at h
  simp only [] at h
  exact loop_space_head st c t hgs hc h

theorem ref_implies_path (src : List Sym) (h : validateRef src = []) : validatePath src = [] := by
  unfold validateRef at h
  unfold validatePath
  simp only []
  split
  · rename_i hh
    cases src with
    | nil => simp at hh
    | cons c t => exact absurd h (validate_ref_space_head c t (by simpa using hh))
  · split
    · rename_i hl
      exfalso
      refine validate_ref_space_last src ?_ h
      cases hg : src.getLast? with
      | none => simp [hg] at hl
      | some c => exact ⟨c, hg, by simpa [hg] using hl⟩
    · exact validate_ref_eq src h

end AL.Glob
