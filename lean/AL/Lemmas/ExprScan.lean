import AL.Model.Positions
import AL.Lemmas.Positions
import AL.Lemmas.ProcSanitize
/-
  Lemmas for Props/C03Scan: the placeholder loop `exprOffsets` started with the caller's fuel `s.length`.
  Reused: `indexOf_le` (Model/Proc), `indexOf_shift` (Lemmas/ProcSanitize), `open3_len`, `exprOffsets_none`,
  `exprOffsets_some`, `exprOffsets_fuel` (Lemmas/Positions).
  New here: no occurrence in a string ⇒ none in any suffix; one unfolding step at fuel `s.length`.
-/
namespace AL.Positions
open AL.Proc (indexOf open3 indexOf_le indexOf_shift)

/-! ### `indexOf`: suffixes of a string without occurrence -/

theorem indexOf_none_tail (pat : List Nat) (c : Nat) (cs : List Nat)
    (h : indexOf pat (c :: cs) 0 = none) : indexOf pat cs 0 = none := by
  simp only [indexOf] at h
  split at h
  · simp at h
  · rw [indexOf_shift] at h
    cases hc : indexOf pat cs 0 with
    | none => rfl
    | some k => rw [hc] at h; simp at h

/-- no occurrence in the whole string ⇒ no occurrence in a suffix -/
theorem indexOf_none_drop (pat s : List Nat) (n : Nat) (h : indexOf pat s 0 = none) :
    indexOf pat (s.drop n) 0 = none := by
  induction n generalizing s with
  | zero => simpa using h
  | succ n ih =>
    cases s with
    | nil => simpa using h
    | cons c cs =>
      rw [List.drop_succ_cons]
      exact ih cs (indexOf_none_tail pat c cs h)

/-- a hit of `${{` means the string is not empty, so the caller's fuel is positive -/
theorem open3_fuel_pos (s : List Nat) (k : Nat) (h : indexOf open3 s 0 = some k) :
    ∃ g, s.length = g + 1 := ⟨s.length - 1, by have := open3_len s k h; omega⟩

/-! ### one step of the loop at the caller's fuel -/

/-- what is left after a placeholder is strictly shorter than the string (whatever `consume` returns) -/
theorem rest_length_lt (consume : List Nat → Nat) (s : List Nat) (idx : Nat)
    (h : indexOf open3 s 0 = some idx) :
    ((s.drop (idx + 3)).drop (consume (s.drop (idx + 3)))).length + 3 ≤ s.length := by
  have := open3_len s idx h
  simp only [List.length_drop]
  omega

/-- unfolding at fuel `s.length`; the recursive call is again at the fuel "length of what is left" -/
theorem exprOffsets_len_some (consume : List Nat → Nat) (s : List Nat) (offset idx : Nat)
    (h : indexOf open3 s 0 = some idx) :
    exprOffsets consume s.length s offset =
      if consume (s.drop (idx + 3)) = 0 then [offset + (idx + 3)]
      else (offset + (idx + 3)) ::
        exprOffsets consume ((s.drop (idx + 3)).drop (consume (s.drop (idx + 3)))).length
          ((s.drop (idx + 3)).drop (consume (s.drop (idx + 3))))
          (offset + (idx + 3) + consume (s.drop (idx + 3))) := by
  obtain ⟨g, hg⟩ := open3_fuel_pos s idx h
  have hr := rest_length_lt consume s idx h
  rw [exprOffsets_fuel consume s.length (g + 1) s offset (Nat.le_refl _) (by omega),
    exprOffsets_some _ _ _ _ _ h]
  split
  · rfl
  · congr 1
    apply exprOffsets_fuel <;> omega

end AL.Positions
