import AL.Lemmas.GlobErrs
/-
  Column invariants: while the scanner is on line 1 its `column` equals the number of characters read
  (look-ahead included; one more once EOF has been read), hence every reported column is inside the
  pattern and points at the character returned by the most recent `Next`.
-/
namespace AL.Glob
open AL

/-- Every character has a positive byte width (true for decoded UTF-8). -/
def PosW (src : List Sym) : Prop := ∀ c ∈ src, 0 < c.w

/-- Line > 1 and not "just after the first newline". -/
def Far (s : Scanner) : Prop := (2 ≤ s.line ∧ 0 < s.column) ∨ (3 ≤ s.line ∧ s.column = 0 ∧ 0 < s.lastLineLen)

/-- Position bookkeeping when `k` characters have been read and the last read was a character. -/
def PosA (k : Nat) (s : Scanner) : Prop :=
  (s.line = 1 ∧ s.column = k) ∨ (s.line = 2 ∧ s.column = 0 ∧ s.lastLineLen = k) ∨ Far s

/-- Position bookkeeping after EOF has been read (`k` = length of the source). -/
def PosE (W : Prop) (k : Nat) (s : Scanner) : Prop :=
  (s.line = 1 ∧ 0 < s.column ∧ s.column ≤ k + 1 ∧ (W → s.column = k + 1)) ∨
  (s.line = 2 ∧ s.column = 0 ∧ s.lastLineLen = k ∧ ¬ W) ∨ Far s

/-- Scanner invariant relative to the source it was initialised with. -/
def SInv (src : List Sym) (s : Scanner) : Prop :=
  ∃ pre, src = pre ++ s.rest ∧
    match s.ch with
    | some c => pre.getLast? = some c ∧ s.lastCharLen = c.w ∧ PosA pre.length s
    | none => s.rest = [] ∧ s.lastCharLen = 0 ∧ PosE (PosW src) pre.length s

theorem advance_posA (k : Nat) (s : Scanner) (d : Sym) (r : List Sym) (h : PosA k s) :
    PosA (k + 1) (s.advance d r).1 ∧ (s.advance d r).1.lastCharLen = d.w := by
  unfold Scanner.advance
  simp only []
  unfold PosA Far at *
  (repeat' split) <;> refine ⟨?_, rfl⟩ <;> simp only [true_and] <;> omega

/-- Column of a scanner error, as `scanErrs` computes it. -/
theorem advance_errs (k : Nat) (s : Scanner) (d : Sym) (r : List Sym) (h : PosA k s) :
    ∀ e ∈ scanErrs (s.advance d r).2, e.col ≤ k ∧ ∃ kd, e.msg = .scan kd := by
  unfold Scanner.advance
  simp only []
  unfold PosA Far at h
  (repeat' split) <;> simp only [scanErrs, Scanner.pos, List.map_cons, List.map_nil, List.mem_singleton, List.not_mem_nil] <;> intro e he
  · subst he
    simp only []
    refine ⟨?_, _, rfl⟩
    (repeat' split) <;> simp only [] at * <;> omega
  · subst he
    simp only []
    refine ⟨?_, _, rfl⟩
    (repeat' split) <;> simp only [] at * <;> omega
  · exact absurd he (by simp)
  · exact absurd he (by simp)

theorem errCol_posA (k : Nat) (s : Scanner) (h : PosA k s) (hk : 1 ≤ k) : errCol s = 0 ∨ errCol s = k - 1 := by
  unfold PosA Far at h
  unfold errCol Scanner.pos
  simp only []
  (repeat' split) <;> simp only [] at * <;> first | omega | simp

theorem errCol_posE (W : Prop) (k : Nat) (s : Scanner) (h : PosE W k s) :
    errCol s ≤ k ∧ (W → errCol s = 0 ∨ errCol s = k) := by
  unfold PosE Far at h
  unfold errCol Scanner.pos
  simp only []
  by_cases hW : W <;> simp only [hW, true_imp_iff, false_imp_iff, not_true, not_false_iff, and_true, and_false, false_or] at h ⊢
  all_goals ((repeat' split) <;> simp only [] at * <;> first | omega | simp | trace_state)

theorem getLast_getElem {pre t : List Sym} {c : Sym} (h : pre.getLast? = some c) :
    (pre ++ t)[pre.length - 1]? = some c := by
  have hne : pre ≠ [] := by intro h0; subst h0; simp at h
  have hl : 0 < pre.length := List.length_pos_iff.2 hne
  rw [List.getElem?_append_left (by omega), ← List.getLast?_eq_getElem?]
  exact h

/-- `errCol` (when not 0) is the 1-based column of a character with code point `x`. -/
def LastIs (src : List Sym) (s : Scanner) (x : Nat) : Prop :=
  PosW src → errCol s ≠ 0 → (src[errCol s - 1]?).map (·.r) = some x

theorem errCol_le (src : List Sym) (s : Scanner) (h : SInv src s) : errCol s ≤ src.length := by
  obtain ⟨pre, hsrc, h⟩ := h
  split at h
  · obtain ⟨hl, _, hp⟩ := h
    have hne : pre ≠ [] := by intro h0; subst h0; simp at hl
    have hl : 0 < pre.length := List.length_pos_iff.2 hne
    have := errCol_posA _ _ hp hl
    have : src.length = pre.length + s.rest.length := by rw [hsrc]; simp
    omega
  · obtain ⟨hr, _, hp⟩ := h
    have := (errCol_posE _ _ _ hp).1
    have : src.length = pre.length + s.rest.length := by rw [hsrc]; simp
    omega

theorem readEof_posE (W : Prop) (k : Nat) (s : Scanner) (hp : PosA k s) (hk : 0 < k) (hw : W → 0 < s.lastCharLen) :
    PosE W k { s with rest := [], ch := none, column := if s.lastCharLen > 0 then s.column + 1 else s.column, lastCharLen := 0 } := by
  unfold PosE PosA Far at *
  simp only []
  by_cases hW : W
  · have := hw hW
    simp only [hW, true_imp_iff, not_true, and_false, false_or]
    split <;> omega
  · simp only [hW, false_imp_iff, not_false_iff, and_true]
    split <;> omega

theorem read_SInv (src : List Sym) (s : Scanner) (c : Sym) (h : SInv src s) (hc : s.ch = some c) :
    SInv src s.read.1 ∧ (∀ e ∈ scanErrs s.read.2, e.col ≤ src.length ∧ ∃ kd, e.msg = .scan kd) ∧
    LastIs src s.read.1 c.r := by
  obtain ⟨pre, hsrc, h⟩ := h
  rw [hc] at h
  simp only [] at h
  obtain ⟨hl, hw, hp⟩ := h
  have hne : pre ≠ [] := by intro h0; subst h0; simp at hl
  have hk : 0 < pre.length := List.length_pos_iff.2 hne
  have hlen : src.length = pre.length + s.rest.length := by rw [hsrc]; simp
  have hcw : PosW src → 0 < s.lastCharLen := fun hW => by
    rw [hw]; exact hW c (by rw [hsrc]; exact List.mem_append_left _ (List.mem_of_getLast? hl))
  unfold Scanner.read
  cases hr : s.rest with
  | nil =>
    simp only []
    have hE := readEof_posE (PosW src) pre.length s hp hk hcw
    refine ⟨⟨pre, by simpa [hr] using hsrc, ?_⟩, by simp [scanErrs], ?_⟩
    · simp only []
      exact ⟨trivial, trivial, hE⟩
    · intro hW h0
      have := (errCol_posE _ _ _ hE).2 hW
      have h1 := this.resolve_left h0
      rw [h1, hsrc, getLast_getElem hl]; rfl
  | cons d r =>
    simp only []
    obtain ⟨hA, hlc⟩ := advance_posA pre.length s d r hp
    have hE := advance_errs pre.length s d r hp
    refine ⟨⟨pre ++ [d], by simp [hsrc, hr], ?_⟩, ?_, ?_⟩
    · simp only [Scanner.advance_ch, List.getLast?_append, List.getLast?_singleton, Option.some_or, List.length_append, List.length_singleton]
      exact ⟨trivial, hlc, hA⟩
    · intro e he
      have := hE e he
      rw [hr] at hlen
      simp only [List.length_cons] at hlen
      exact ⟨by omega, this.2⟩
    · intro hW h0
      have := errCol_posA _ _ hA (by omega)
      have h1 := this.resolve_left h0
      rw [h1, hsrc, Nat.add_sub_cancel, getLast_getElem hl]; rfl


/-- The character a message names, if any. -/
def namedChar : GMsg → Option Nat
  | .unexpected (some ch) _ _ => some ch
  | .invalidRef (some ch) _ => some ch
  | _ => none

/-- A report is well placed: its column is inside the pattern and, if it is not the fallback 0, the
character the message names is the character at that column. -/
def Good (src : List Sym) (e : GErr) : Prop :=
  e.col ≤ src.length ∧
  ∀ ch, namedChar e.msg = some ch → PosW src → e.col ≠ 0 → (src[e.col - 1]?).map (·.r) = some ch

theorem good_of_scan {src : List Sym} {e : GErr} (h : e.col ≤ src.length ∧ ∃ kd, e.msg = .scan kd) : Good src e := by
  obtain ⟨h1, kd, h2⟩ := h
  refine ⟨h1, fun ch hn => ?_⟩
  rw [h2] at hn; simp [namedChar] at hn

theorem init_SInv (c : Sym) (t : List Sym) :
    SInv (c :: t) (Scanner.init (c :: t)).1 ∧ ∀ e ∈ scanErrs (Scanner.init (c :: t)).2, Good (c :: t) e := by
  have h0 : PosA 0 ({ rest := c :: t } : Scanner) := Or.inl ⟨rfl, rfl⟩
  obtain ⟨hA, hlc⟩ := advance_posA 0 _ c t h0
  have hE := advance_errs 0 _ c t h0
  have hS1 : SInv (c :: t) (({ rest := c :: t } : Scanner).advance c t).1 := by
    refine ⟨[c], by simp, ?_⟩
    simp only [Scanner.advance_ch]
    exact ⟨rfl, hlc, hA⟩
  have hG1 : ∀ e ∈ scanErrs (({ rest := c :: t } : Scanner).advance c t).2, Good (c :: t) e := by
    intro e he
    have := hE e he
    exact good_of_scan ⟨by omega, this.2⟩
  simp only [Scanner.init, Scanner.read, Scanner.advance_ch]
  split
  · obtain ⟨hS2, hG2, _⟩ := read_SInv _ _ c hS1 (by simp)
    refine ⟨hS2, ?_⟩
    intro e he
    simp only [scanErrs, List.map_append, List.mem_append] at he
    rcases he with he | he
    · exact hG1 e he
    · exact good_of_scan (hG2 e he)
  · exact ⟨hS1, hG1⟩

/-- Validator-state invariant. -/
def GInv (src : List Sym) (st : GState) : Prop :=
  SInv src st.scan ∧ ∀ e ∈ st.errs, Good src e

theorem GInv.next {src : List Sym} {st : GState} (h : GInv src st) : GInv src st.next.2 := by
  obtain ⟨hS, hG⟩ := h
  unfold GState.next Scanner.next
  cases hc : st.scan.ch with
  | none => simpa [scanErrs] using ⟨hS, hG⟩
  | some c =>
    obtain ⟨h1, h2, _⟩ := read_SInv src st.scan c hS hc
    refine ⟨h1, ?_⟩
    intro e he
    simp only [List.mem_append] at he
    rcases he with he | he
    · exact hG e he
    · exact good_of_scan (h2 e he)

theorem GInv.next_last {src : List Sym} {st : GState} (h : GInv src st) {x : Nat}
    (hx : symRune st.next.1 = some x) : LastIs src st.next.2.scan x := by
  obtain ⟨hS, hG⟩ := h
  unfold GState.next Scanner.next at hx ⊢
  cases hc : st.scan.ch with
  | none => simp [hc, symRune] at hx
  | some c =>
    simp only [hc, symRune, Option.some.injEq] at hx ⊢
    subst hx
    exact (read_SInv src st.scan c hS hc).2.2

theorem GInv.peek_last {src : List Sym} {st : GState} (h : GInv src st) {x : Nat}
    (hx : st.peek = some x) : LastIs src st.next.2.scan x :=
  h.next_last (by rw [← GState.peek_eq_next]; exact hx)

theorem GInv.error {src : List Sym} {st : GState} (h : GInv src st) (m : GMsg)
    (hm : ∀ ch, namedChar m = some ch → LastIs src st.scan ch) : GInv src (st.error m) := by
  obtain ⟨hS, hG⟩ := h
  refine ⟨hS, ?_⟩
  intro e he
  simp only [GState.error, List.mem_append, List.mem_singleton] at he
  rcases he with he | he
  · exact hG e he
  · subst he
    exact ⟨errCol_le src _ hS, fun ch hn hW h0 => hm ch hn hW h0⟩

end AL.Glob
