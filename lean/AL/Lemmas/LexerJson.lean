import AL.Lemmas.LexerComplete
/-
  The JSON-number gap: which RFC 8259 numbers `Next` does not accept.
-/
namespace AL.Lex
open AL AL.Spec

/-- The parts of an RFC 8259 number `-? (0|[1-9][0-9]*) (\.[0-9]+)? ([eE][+-]?[0-9]+)?`, as runes. -/
structure JsonParts where
  sign    : List Nat   -- `[]` or `-`
  int     : List Nat   -- `0 | [1-9][0-9]*`
  frac    : List Nat   -- `[]` or `.` followed by at least one digit
  e       : List Nat   -- `[]` or `e` / `E`
  esign   : List Nat   -- `[]`, `+` or `-`
  edigits : List Nat   -- at least one digit (if `e` is present)

def JsonParts.WF (p : JsonParts) : Prop :=
  (p.sign = [] ∨ p.sign = [45]) ∧ DecInt p.int ∧
  (p.frac = [] ∨ ∃ ds, p.frac = 46 :: ds ∧ Digits1 ds) ∧
  ((p.e = [] ∧ p.esign = [] ∧ p.edigits = []) ∨
   ((p.e = [101] ∨ p.e = [69]) ∧ (p.esign = [] ∨ p.esign = [43] ∨ p.esign = [45]) ∧ Digits1 p.edigits))

def JsonParts.spell (p : JsonParts) : List Nat := p.sign ++ p.int ++ p.frac ++ p.e ++ p.esign ++ p.edigits

/-- RFC 8259 `number` -/
def JsonNumber (l : List Nat) : Prop := ∃ p : JsonParts, p.WF ∧ l = p.spell

/-- exponent with a `+` sign, e.g. `1e+5` -/
def JsonParts.expPlus (p : JsonParts) : Prop := p.esign = [43]
/-- exponent with a leading zero followed by more digits, e.g. `1e05` -/
def JsonParts.expLeadingZero (p : JsonParts) : Prop := ∃ d ds, p.edigits = 48 :: d :: ds
/-- the token kind of a number -/
def JsonParts.kind (p : JsonParts) : TokKind := if p.frac = [] ∧ p.e = [] then .int else .float

theorem numTail_plus {st : LexState} (k : TokKind) {ce cp : Sym} {w : List Sym}
    (h : st.scan.unread = ce :: cp :: w) (hce : ce.r = 101 ∨ ce.r = 69) (hcp : cp.r = 43) :
    IsFail (numTail st k) := by
  unfold numTail
  have hp : (st.peek = some 101 || st.peek = some 69) = true := by
    rw [peek_unread, h]; rcases hce with hce | hce <;> simp [hce]
  simp only [hp, if_true]
  unfold lexExponent
  have h1 := next_unread_cons h
  have hp1 : st.next.peek = some 43 := by rw [peek_unread, h1]; simp [hcp]
  simp only [hp1]
  simp only [Option.some.injEq, Nat.reduceEqDiff, if_false, hp1]
  exact isFail_unexpected _ _ _

theorem numTail_lz {st : LexState} (k : TokKind) {ce c0 d : Sym} {sg w : List Sym}
    (h : st.scan.unread = ce :: sg ++ c0 :: d :: w) (hce : ce.r = 101 ∨ ce.r = 69)
    (hsg : sg = [] ∨ ∃ cm, sg = [cm] ∧ cm.r = 45) (hc0 : c0.r = 48) (hd : isNum d.r = true) :
    IsFail (numTail st k) := by
  unfold numTail
  have hp : (st.peek = some 101 || st.peek = some 69) = true := by
    rw [peek_unread, h]; rcases hce with hce | hce <;> simp [hce]
  simp only [hp, if_true]
  have h' : st.scan.unread = ce :: sg ++ [c0] ++ d :: w := by simpa using h
  rw [lexExponent_complete h' hsg (.inl (by simp [hc0])) (fun hne => absurd (by simp [hc0]) hne)]
  dsimp only
  have hu := (adv_spec (ce :: sg ++ [c0]) st (d :: w) (by simpa using h)).2
  have hl : (ce :: sg ++ [c0]).length = 1 + sg.length + [c0].length := by simp; omega
  rw [hl] at hu
  unfold finishNum
  have : (adv st (1 + sg.length + [c0].length)).peek = some d.r := by rw [peek_unread, hu]; rfl
  rw [this]
  simp only [isNum_alnum hd, if_true]
  exact isFail_unexpected _ _ _

theorem json_split {l : List Sym} {p : JsonParts} (hl : runes l = p.spell) :
    ∃ vm vi vf ve vs vd, l = vm ++ vi ++ vf ++ ve ++ vs ++ vd ∧ runes vm = p.sign ∧ runes vi = p.int ∧
      runes vf = p.frac ∧ runes ve = p.e ∧ runes vs = p.esign ∧ runes vd = p.edigits := by
  unfold JsonParts.spell at hl
  obtain ⟨l5, vd, rfl, h5, hd⟩ := runes_eq_append hl
  obtain ⟨l4, vs, rfl, h4, hs⟩ := runes_eq_append h5
  obtain ⟨l3, ve, rfl, h3, he⟩ := runes_eq_append h4
  obtain ⟨l2, vf, rfl, h2, hf⟩ := runes_eq_append h3
  obtain ⟨vm, vi, rfl, hm, hi⟩ := runes_eq_append h2
  exact ⟨vm, vi, vf, ve, vs, vd, rfl, hm, hi, hf, he, hs, hd⟩

theorem sign_syms {vm : List Sym} {s : List Nat} (h : runes vm = s) (hs : s = [] ∨ s = [45]) :
    vm = [] ∨ ∃ c, vm = [c] ∧ c.r = 45 := by
  rcases hs with rfl | rfl
  · exact .inl (runes_eq_nil h)
  · obtain ⟨c, cs, rfl, hc, hcs⟩ := runes_eq_cons h
    rw [runes_eq_nil hcs]; exact .inr ⟨c, rfl, hc⟩

theorem frac_syms {vf : List Sym} {f : List Nat} (h : runes vf = f) (hf : f = [] ∨ ∃ ds, f = 46 :: ds ∧ Digits1 ds) :
    vf = [] ∨ ∃ c ds, vf = c :: ds ∧ c.r = 46 ∧ Digits1 (runes ds) := by
  rcases hf with rfl | ⟨ds, rfl, hds⟩
  · exact .inl (runes_eq_nil h)
  · obtain ⟨c, cs, rfl, hc, hcs⟩ := runes_eq_cons h
    subst hcs; exact .inr ⟨c, cs, rfl, hc, hds⟩

/-- a JSON number with `+` in the exponent or a leading zero in the exponent is rejected -/
theorem json_fail {p : JsonParts} (hp : p.WF) {l rest : List Sym} (hl : runes l = p.spell)
    (hgap : p.expPlus ∨ p.expLeadingZero) {st : LexState} (hu : st.scan.unread = l ++ rest) :
    IsFail (lexNext st) := by
  obtain ⟨hsign, hint, hfrac, hexp⟩ := hp
  obtain ⟨vm, vi, vf, ve, vs, vd, rfl, hvm, hvi, hvf, hve, hvs, hvd⟩ := json_split hl
  have hm := sign_syms hvm hsign
  have hf := frac_syms hvf hfrac
  rw [← hvi] at hint
  -- the exponent is present
  have hexp' : (p.e = [101] ∨ p.e = [69]) ∧ (p.esign = [] ∨ p.esign = [43] ∨ p.esign = [45]) ∧ Digits1 p.edigits := by
    rcases hexp with ⟨-, h2, h3⟩ | h
    · rcases hgap with hg | ⟨d, ds, hg⟩
      · rw [JsonParts.expPlus, h2] at hg; cases hg
      · rw [h3] at hg; cases hg
    · exact h
  obtain ⟨he, hes, hed⟩ := hexp'
  obtain ⟨ce, hce, hcer⟩ : ∃ ce, ve = [ce] ∧ (ce.r = 101 ∨ ce.r = 69) := by
    rcases he with he | he <;> rw [he] at hve <;> obtain ⟨c, cs, rfl, hc, hcs⟩ := runes_eq_cons hve <;>
      rw [runes_eq_nil hcs]
    · exact ⟨c, rfl, .inl hc⟩
    · exact ⟨c, rfl, .inr hc⟩
  subst hce
  -- no blank in front, dispatch to `lexNum`
  obtain ⟨r, hr, hr'⟩ := num_head hm (by simpa using decInt_head hint []) (vf ++ [ce] ++ vs ++ vd ++ rest)
  have hpk : st.peek = some r := by rw [peek_unread, hu]; simpa [List.append_assoc] using hr
  have hsk : skipWhite st = st := by
    apply skipWhite_id
    intro r' h'; rw [hpk] at h'; cases h'
    rcases hr' with hr' | rfl
    · simp [isNum, isWhitespace] at hr' ⊢; omega
    · rfl
  rw [lexNext_eq, hsk, lexBody_num hpk hr']
  obtain ⟨h1, h2⟩ := lexNum_prefix (st := st) (m := vm) (ip := vi) (frac := vf) (w := ce :: (vs ++ vd ++ rest))
    (by simpa [List.append_assoc] using hu) hm hint hf
    (by intro r hr; simp at hr; subst hr; rcases hcer with h | h <;> simp [h, isNum])
    (by intro _ h; simp at h; rcases hcer with h' | h' <;> omega)
  rw [h1]
  generalize adv st (vm ++ vi ++ vf).length = st3 at h2
  by_cases hplus : p.esign = [43]
  · rw [hplus] at hvs
    obtain ⟨cp, cs, rfl, hcp, hcs⟩ := runes_eq_cons hvs
    have := runes_eq_nil hcs; subst this
    exact numTail_plus _ (by simpa using h2) hcer hcp
  · have hlz : ∃ d ds, p.edigits = 48 :: d :: ds := by
      rcases hgap with hg | hg
      · exact absurd hg hplus
      · exact hg
    obtain ⟨d, ds, hlz⟩ := hlz
    rw [hlz] at hvd
    obtain ⟨c0, v1, rfl, hc0, hv1⟩ := runes_eq_cons hvd
    obtain ⟨cd, v2, rfl, hcd, hv2⟩ := runes_eq_cons hv1
    have hsg : vs = [] ∨ ∃ cm, vs = [cm] ∧ cm.r = 45 := by
      apply sign_syms hvs
      rcases hes with h | h | h
      · exact .inl h
      · exact absurd h hplus
      · exact .inr h
    have hdn : isNum cd.r = true := by
      rw [hcd]; apply hed.2; rw [hlz]; simp
    exact numTail_lz _ (w := v2 ++ rest) (by simpa [List.append_assoc] using h2) hcer hsg hc0 hdn

/-- a JSON number without the two gap forms is a number of the expression syntax -/
theorem json_spelling {p : JsonParts} (hp : p.WF) {l : List Sym} (hl : runes l = p.spell)
    (h1 : ¬ p.expPlus) (h2 : ¬ p.expLeadingZero) : Spelling p.kind l := by
  obtain ⟨hsign, hint, hfrac, hexp⟩ := hp
  have hip : optMinus DecInt (p.sign ++ p.int) := optMinus_append_of hsign hint
  unfold JsonParts.kind
  split
  · rename_i h
    have he : p.esign = [] ∧ p.edigits = [] := by
      rcases hexp with ⟨-, a, b⟩ | ⟨a, -, -⟩
      · exact ⟨a, b⟩
      · rw [h.2] at a; rcases a with a | a <;> cases a
    show optMinus DecInt (runes l) ∨ _
    left; rw [hl]; unfold JsonParts.spell
    simpa [h.1, h.2, he.1, he.2] using hip
  · rename_i h
    show FloatLit (runes l)
    refine ⟨p.sign ++ p.int, p.frac, p.e ++ p.esign ++ p.edigits, hip, hfrac, ?_, ?_, ?_⟩
    · rcases hexp with ⟨a, b, c⟩ | ⟨a, b, c⟩
      · left; simp [a, b, c]
      · right
        have hsg : p.esign = [] ∨ p.esign = [45] := by
          rcases b with b | b | b
          · exact .inl b
          · exact absurd b h1
          · exact .inr b
        have hdec : DecInt p.edigits := by
          obtain ⟨hne, hall⟩ := c
          cases hd : p.edigits with
          | nil => exact absurd hd hne
          | cons d ds =>
            have hdn : isNum d = true := hall d (by simp [hd])
            by_cases h48 : d = 48
            · cases ds with
              | nil => left; rw [h48]
              | cons d' ds' => exact absurd ⟨d', ds', by rw [hd, h48]⟩ h2
            · right
              have := isNum_ne_zero hdn h48
              exact ⟨d, ds, rfl, this.1, this.2, fun x hx => hall x (by simp [hd, hx])⟩
        rcases a with a | a
        · exact ⟨101, p.esign ++ p.edigits, by simp [a], .inl rfl, optMinus_append_of hsg hdec⟩
        · exact ⟨69, p.esign ++ p.edigits, by simp [a], .inr rfl, optMinus_append_of hsg hdec⟩
    · by_cases hf : p.frac = []
      · right
        intro he
        have : p.e = [] := by
          cases hpe : p.e with
          | nil => rfl
          | cons x xs => rw [hpe] at he; simp at he
        exact h ⟨hf, this⟩
      · exact .inl hf
    · rw [hl]; unfold JsonParts.spell; simp [List.append_assoc]

/-! ### at the level of `LexExpression` -/

theorem lexInit_unread {src : List Sym} (h : ¬ StartsWithBOM src) : (lexInit src).scan.unread = src := by
  have := (LInv.init src).split
  rw [lexInit_buf h] at this
  simpa using this.symm

theorem lexInit_err {src : List Sym} (h : ¬ StartsWithBOM src) (hc : ∀ c, src.head? = some c → Clean c) :
    (lexInit src).err = none := by
  unfold lexInit Scanner.init
  cases src with
  | nil => rfl
  | cons c r =>
    have hch : (({ rest := c :: r } : Scanner).read).1.ch = some c := by simp [Scanner.read]
    have hcl := hc c rfl
    have hes : (({ rest := c :: r } : Scanner).read).2 = [] := by
      simp [Scanner.read, Scanner.advance, hcl.1, hcl.2]
      split <;> rfl
    have hb : ¬ (c.r = 0xFEFF && !c.bad) = true := by
      intro hb; simp at hb; exact h ⟨c, r, rfl, hb.1, hb.2⟩
    simp only [hch, hb, hes]
    rfl

theorem lexExpression_fail {src : List Sym} (h : IsFail (lexNext (lexInit src))) :
    ∃ e, lexExpression src = .error e := by
  unfold lexExpression tokens
  rw [show src.length + 2 = (src.length + 1) + 1 from rfl, lexAll_succ]
  simp only [h.1, if_true, go_cons]
  cases he : (lexNext (lexInit src)).2.err with
  | none => exact absurd he h.2.2
  | some e => exact ⟨_, rfl⟩

/-- a blank and the end marker `}}` -/
def endMark : List Sym := [⟨32, 1, false⟩, ⟨125, 1, false⟩, ⟨125, 1, false⟩]

theorem json_head {p : JsonParts} (hp : p.WF) {l : List Sym} (hl : runes l = p.spell) :
    ∃ c cs, l = c :: cs ∧ (isNum c.r = true ∨ c.r = 45) := by
  obtain ⟨vm, vi, vf, ve, vs, vd, rfl, hvm, hvi, -⟩ := json_split hl
  have hm := sign_syms hvm hp.1
  have hint := hp.2.1; rw [← hvi] at hint
  obtain ⟨r, hr, hr'⟩ := num_head hm (by simpa using decInt_head hint []) (vf ++ ve ++ vs ++ vd)
  cases hh : vm ++ vi ++ (vf ++ ve ++ vs ++ vd) with
  | nil => rw [hh] at hr; simp at hr
  | cons c cs =>
    rw [hh] at hr; simp at hr; subst hr
    exact ⟨c, cs, by simpa [List.append_assoc] using hh, hr'⟩

theorem json_not_bom {p : JsonParts} (hp : p.WF) {l : List Sym} (hl : runes l = p.spell) (rest : List Sym) :
    ¬ StartsWithBOM (l ++ rest) := by
  obtain ⟨c, cs, rfl, hc⟩ := json_head hp hl
  rintro ⟨c', r', h, hr, -⟩
  simp at h; obtain ⟨rfl, -⟩ := h
  rcases hc with hc | hc
  · simp [isNum, hr] at hc
  · omega

/-- a JSON number in one of the two gap forms makes `LexExpression` fail, whatever follows -/
theorem json_gap_error {p : JsonParts} (hp : p.WF) {l : List Sym} (hl : runes l = p.spell)
    (hgap : p.expPlus ∨ p.expLeadingZero) (rest : List Sym) : ∃ e, lexExpression (l ++ rest) = .error e :=
  lexExpression_fail (json_fail hp hl hgap (lexInit_unread (json_not_bom hp hl rest)))

/-- all other JSON numbers, followed by ` }}`, are lexed as one INT or FLOAT token and END -/
theorem json_ok {p : JsonParts} (hp : p.WF) {l : List Sym} (hl : runes l = p.spell)
    (h1 : ¬ p.expPlus) (h2 : ¬ p.expLeadingZero) (hcl : ∀ d ∈ l, Clean d) :
    ∃ ts off, lexExpression (l ++ endMark) = .ok (ts, off) ∧
      ts.map (fun t => (t.kind, t.val)) = [(p.kind, l), (.end, [⟨125, 1, false⟩, ⟨125, 1, false⟩])] := by
  have hbom := json_not_bom hp hl endMark
  have hsp := json_spelling hp hl h1 h2
  obtain ⟨c, cs, hlc, hc⟩ := json_head hp hl
  have hne : l ≠ [] := by rw [hlc]; simp
  have hkind : p.kind = .int ∨ p.kind = .float := by unfold JsonParts.kind; split <;> simp
  -- first token
  obtain ⟨a1, a2, a3, a4, a5⟩ := lexNext_complete' (st := lexInit (l ++ endMark)) (gap := []) (rest := endMark)
    hsp hne (lexInit_buf hbom) (by simpa using lexInit_unread hbom) (by simp)
    (by rcases hkind with h | h <;> rw [h] <;> rfl)
  have e1 := a5 (lexInit_err hbom (by
      intro d hd; rw [hlc] at hd; simp at hd; subst hd; exact hcl _ (by rw [hlc]; simp)))
    (by
      intro d hd
      have : d ∈ l ++ [⟨32, 1, false⟩] := List.mem_of_mem_tail (by simpa [endMark] using hd)
      simp at this; rcases this with h | rfl
      · exact hcl d h
      · exact ⟨rfl, by decide⟩)
  -- second token
  obtain ⟨b1, b2, b3, b4, b5⟩ := lexNext_complete' (st := (lexNext (lexInit (l ++ endMark))).2)
    (k := .end) (gap := [⟨32, 1, false⟩]) (val := [⟨125, 1, false⟩, ⟨125, 1, false⟩]) (rest := [])
    (.inl rfl) (by simp) a4 (by simpa [endMark] using a3) (by simp [isWhitespace]) rfl
  have e2 := b5 e1 (by intro d hd; simp at hd; rcases hd with rfl | rfl <;> exact ⟨rfl, by decide⟩)
  refine ⟨[(lexNext (lexInit (l ++ endMark))).1, (lexNext (lexNext (lexInit (l ++ endMark))).2).1],
    (lexNext (lexNext (lexInit (l ++ endMark))).2).2.scan.pos.off, ?_, ?_⟩
  · unfold lexExpression tokens
    rw [show (l ++ endMark).length + 2 = ((l ++ endMark).length + 1) + 1 from rfl, lexAll_succ]
    have hk1 : (lexNext (lexInit (l ++ endMark))).1.kind ≠ .end := by
      rw [a1]; rcases hkind with h | h <;> rw [h] <;> simp
    simp only [hk1, if_false]
    rw [show (l ++ endMark).length + 1 = ((l ++ endMark).length) + 1 from rfl, lexAll_succ]
    simp only [b1, if_true, go_cons, e1, e2, hk1, if_false, List.nil_append, List.cons_append]
  · simp [a1, a2, b1, b2]

end AL.Lex
