import AL.Lemmas.C09DParse
import AL.Lemmas.C09DNeeds
import AL.Props.C09All
import AL.Props.C09Rules
import AL.Props.C09Expr
import AL.Props.C05Expr
/-
  Helper definitions and lemmas for AL.Props.C09Doc on the side of the rules: the names the statements use
  (`idsOf`, `needsDup`, `needsUndef`, `NoCyclicReport`, `Unneeded`, `headerCx`, `exprHeader`, `exprOutputs`, `stepsCx`,
  `jobHead`, `stepOwn` …) and the small facts about them.
-/
namespace AL.C09D
open AL.PW AL.Yaml AL.Ast AL.C13P AL.C13D AL.C13D3

/-! ### job-needs -/

section Rules
open AL.Rules AL.C09A AL.C18P

variable (lower : String → String) (isNum urlOk : String → Bool) (lc : LabelCfg)

/-- the workflow-level diagnostics do not look at the jobs -/
theorem header_withJobs (W : Workflow) (js js' : List (String × Job)) :
    header lower isNum (withJobs W js) lc = header lower isNum (withJobs W js') lc := rfl

/-- the jobs of a workflow as job-needs sees them -/
theorem jobsIn_withJobs (W : Workflow) (js : List (String × Job)) :
    jobsIn (withJobs W js) = js.map fun p => needsJobIn p.2 := by
  simp [jobsIn, jobsOf]

/-- the folded ids of the jobs -/
def idsOf (js : List (String × Job)) : List String := js.map fun p => lower p.2.id.value

theorem jobsIn_ids (W : Workflow) (js : List (String × Job)) :
    ((jobsIn (withJobs W js)).map fun j => lower j.idValue) = idsOf lower js := by
  simp [jobsIn_withJobs, idsOf, needsJobIn]

/-- the job's own `needs-duplicate` reports -/
def needsDup (j : Job) : List Diag := (dupOf lower (needsJobIn j)).map needsDiag

/-- the job's `needs-undefined` reports in a workflow whose jobs have the folded ids `ids` -/
def needsUndef (ids : List String) (j : Job) : List Diag := (undefOf lower ids (needsJobIn j)).map needsDiag

/-- no `needs-cyclic` report -/
def NoCyclicReport (w : Workflow) : Prop := ∀ d ∈ ruleJobNeeds lower w, d.code ≠ "needs-cyclic"

theorem noCyclic_check (w : Workflow) (h : NoCyclicReport lower w) :
    ∀ c, Needs.Diag.cyclic c ∉ Needs.check lower (jobsIn w) (List.range (jobsIn w).length) := by
  intro c hc
  exact h _ (by rw [ruleJobNeeds_eq]; exact List.mem_map.2 ⟨_, hc, rfl⟩) rfl

/-- nobody among `js` names the id `x` in `needs:` -/
def Unneeded (x : String) (js : List (String × Job)) : Prop :=
  ∀ p ∈ js, ∀ n ∈ p.2.needs.getD [], lower n.value ≠ x

theorem unneeded_normNeeds (x : String) (j : Job) (h : ∀ n ∈ j.needs.getD [], lower n.value ≠ x) :
    x ∉ (Needs.normNeeds lower (needsJobIn j).needs []).1 := by
  intro hm
  have := (normNeeds_mem lower x _ []).1 hm
  simp only [List.not_mem_nil, false_or, needsJobIn, List.mem_map] at this
  obtain ⟨_, nr, ⟨s, hs, rfl⟩, e⟩ := this
  exact h s hs e

/-- the new job names existing jobs only: it has no `needs-undefined` of its own -/
theorem needsUndef_nil (ids : List String) (j : Job) (h : ∀ n ∈ j.needs.getD [], lower n.value ∈ ids) :
    needsUndef lower ids j = [] := by
  simp only [needsUndef, undefOf]
  split
  · rfl
  · simp only [List.map_eq_nil_iff, List.filter_eq_nil_iff]
    intro dep hdep
    have := (normNeeds_mem lower dep _ []).1 hdep
    simp only [List.not_mem_nil, false_or, needsJobIn, List.mem_map] at this
    obtain ⟨_, nr, ⟨s, hs, rfl⟩, e⟩ := this
    simp [← e, h s hs]

/-- a job's `needs-undefined`s depend on the ids of the workflow's jobs as a set -/
theorem needsUndef_congr (ids ids' : List String) (j : Job) (h : ∀ x, x ∈ ids ↔ x ∈ ids') :
    needsUndef lower ids j = needsUndef lower ids' j := by
  simp only [needsUndef, undefOf]
  split
  · rfl
  · congr 2
    apply List.filter_congr
    intro dep _
    simp only [List.contains_eq_mem, Bool.not_eq_eq_eq_not, Bool.not_not]
    exact decide_eq_decide.2 (h dep)

end Rules

/-! ### the expression rule -/

section Expr
open AL.RuleExpr AL.C09E

theorem visitEvent_lower (cx : Cx) (e : Ast.Event) : (visitEvent cx e).1.lower = cx.lower := by
  cases e with
  | call inputs secrets outputs pos => simp only [visitEvent]; split <;> rfl
  | _ => rfl

theorem visitEvents_lower (es : List Ast.Event) : ∀ cx : Cx, (visitEvents cx es).1.lower = cx.lower := by
  induction es with
  | nil => intro cx; rfl
  | cons e rest ih => intro cx; simp only [visitEvents]; rw [ih, visitEvent_lower]

theorem lookupJob_insert (i k : String) (x : Job) (J₂ : List (String × Job)) (h : k ≠ i) :
    ∀ J₁ : List (String × Job), lookupJob i (J₁ ++ (k, x) :: J₂) = lookupJob i (J₁ ++ J₂)
  | [] => by simp [lookupJob, h]
  | (k', j') :: rest => by
    simp only [List.cons_append, lookupJob]
    split
    · rfl
    · exact lookupJob_insert i k x J₂ h rest

/-- the scope the workflow header leaves for the jobs -/
def headerCx (lower : String → String) (W : Workflow) (proj : ProjView) : Cx :=
  (visitEvents { lower := lower, proj := proj } (W.on.getD [])).1

/-- the workflow declares no `on.workflow_call.outputs` (the only place of the header that reads the `jobs` context) -/
def NoCallOutputs (W : Workflow) : Prop := (findCallOutputs (W.on.getD [])).getD [] = []

/-- what the rule reports before it visits the jobs: the workflow's name, `on:`, run-name, env, defaults, concurrency -/
def exprHeader (lower : String → String) (W : Workflow) (proj : ProjView) : List RuleExpr.Diag :=
  RuleExpr.checkString { lower := lower, proj := proj } W.name "" ++
  (visitEvents { lower := lower, proj := proj } (W.on.getD [])).2 ++
  (RuleExpr.checkString (headerCx lower W proj) W.runName "run-name" ++ RuleExpr.checkEnv (headerCx lower W proj) W.env "env" ++
    RuleExpr.checkDefaults (headerCx lower W proj) W.defaults "" ++
    RuleExpr.checkConcurrency (headerCx lower W proj) W.concurrency "concurrency")

/-- the last part of the rule: the values of `on.workflow_call.outputs`, checked with the `jobs` context of ALL jobs -/
def exprOutputs (lower : String → String) (W : Workflow) (js : List (String × Job)) (proj : ProjView) : List RuleExpr.Diag :=
  match findCallOutputs (W.on.getD []) with
  | some outs =>
    if outs.isEmpty || js.isEmpty then []
    else outs.flatMap fun kv =>
      RuleExpr.checkString { headerCx lower W proj with jobsTy := some (jobsTyOf js) } kv.2.value "on.workflow_call.outputs.<output_id>.value"
  | none => []

/-- the rule = header, one block per job, `workflow_call` outputs -/
theorem rule_eq (lower : String → String) (isNum : IsNumber) (proj : ProjView) (W : Workflow) (js : List (String × Job)) :
    rule lower isNum (withJobs W js) proj =
      exprHeader lower W proj ++ js.flatMap (fun kv => visitJob (headerCx lower W proj) isNum js kv.2) ++ exprOutputs lower W js proj := by
  simp only [rule, exprHeader, exprOutputs, headerCx, Option.getD_some, List.append_assoc]
  rfl

theorem exprOutputs_nil (lower : String → String) (W : Workflow) (js : List (String × Job)) (proj : ProjView)
    (h : NoCallOutputs W) : exprOutputs lower W js proj = [] := by
  simp only [NoCallOutputs] at h
  simp only [exprOutputs]
  cases hf : findCallOutputs (W.on.getD []) with
  | none => rfl
  | some outs =>
    rw [hf] at h
    simp only [Option.getD_some] at h
    subst h
    rfl

/-- the scope under which the first step of a job is checked -/
def stepsCx (cx0 : Cx) (isNum : IsNumber) (jobs : List (String × Job)) (n : Job) : Cx :=
  let view := cx0.proj.jobView n.id.value
  let cx1 : Cx := { cx0 with job := view, st := { cx0.st with needsTy := some (needsTy view.outs cx0.lower jobs n) } }
  let cx : Cx := match (jobMatrix cx1 isNum n).1 with
    | some t => { cx1 with st := { cx1.st with matrixTy := some t } }
    | none => cx1
  { cx with st := { cx.st with stepsTy := some AL.Visit.emptyStrict } }

/-- what the rule reports for a job before its steps -/
def jobHead (cx0 : Cx) (isNum : IsNumber) (jobs : List (String × Job)) (n : Job) : List RuleExpr.Diag :=
  let view := cx0.proj.jobView n.id.value
  let cx1 : Cx := { cx0 with job := view, st := { cx0.st with needsTy := some (needsTy view.outs cx0.lower jobs n) } }
  let cx : Cx := match (jobMatrix cx1 isNum n).1 with
    | some t => { cx1 with st := { cx1.st with matrixTy := some t } }
    | none => cx1
  (jobMatrix cx1 isNum n).2 ++ jobPre cx n

theorem visitJob_eq (cx0 : Cx) (isNum : IsNumber) (jobs : List (String × Job)) (n : Job) :
    visitJob cx0 isNum jobs n =
      jobHead cx0 isNum jobs n ++ (visitSteps (stepsCx cx0 isNum jobs n) (n.steps.getD [])).2 ++
        jobPost (visitSteps (stepsCx cx0 isNum jobs n) (n.steps.getD [])).1 n := rfl

/-- what the other jobs see of a job does not include its steps -/
theorem lookupJob_replace (i k : String) (a b : Job) (J₂ : List (String × Job)) (h : jobView a = jobView b) :
    ∀ J₁ : List (String × Job), (lookupJob i (J₁ ++ (k, a) :: J₂)).map jobView = (lookupJob i (J₁ ++ (k, b) :: J₂)).map jobView
  | [] => by
    simp only [List.nil_append, lookupJob]
    split
    · simp [h]
    · rfl
  | (k', j') :: rest => by
    simp only [List.cons_append, lookupJob]
    split
    · rfl
    · exact lookupJob_replace i k a b J₂ h rest

theorem jobsTyOf_steps (J₂ : List (String × Job)) (k : String) (Jb : Job) (S S' : Option (List Step)) :
    ∀ J₁ : List (String × Job), jobsTyOf (J₁ ++ (k, { Jb with steps := S }) :: J₂) = jobsTyOf (J₁ ++ (k, { Jb with steps := S' }) :: J₂) := by
  intro J₁
  simp only [jobsTyOf, List.foldl_append, List.foldl_cons]
  rfl

theorem needsTy_steps (outs : List (String × AL.Ty)) (lower : String → String) (J₁ J₂ : List (String × Job)) (k : String) (Jb : Job)
    (S S' : Option (List Step)) (n : Job) :
    needsTy outs lower (J₁ ++ (k, { Jb with steps := S }) :: J₂) n = needsTy outs lower (J₁ ++ (k, { Jb with steps := S' }) :: J₂) n :=
  needsTy_congr outs lower _ _ n (fun _ _ => lookupJob_replace _ k { Jb with steps := S } { Jb with steps := S' } J₂ rfl J₁)

theorem exprOutputs_steps (lower : String → String) (W : Workflow) (proj : ProjView) (J₁ J₂ : List (String × Job)) (k : String) (Jb : Job)
    (S S' : Option (List Step)) :
    exprOutputs lower W (J₁ ++ (k, { Jb with steps := S }) :: J₂) proj = exprOutputs lower W (J₁ ++ (k, { Jb with steps := S' }) :: J₂) proj := by
  have e : ∀ x : String × Job, (J₁ ++ x :: J₂).isEmpty = false := by intro x; cases J₁ <;> rfl
  simp only [exprOutputs, jobsTyOf_steps J₂ k Jb S S' J₁, e]

end Expr

/-! ### `lint` -/

section Lint
open AL.Rules AL.C09A AL.C18P

variable (cfg : Cfg) (isNum urlOk : String → Bool) (lc : LabelCfg)

theorem lint_perm (doc : Node) :
    (lint cfg isNum urlOk doc lc).Perm ((parse cfg doc).2.map ofPErr ++ rules cfg.lower isNum urlOk (parse cfg doc).1 lc) :=
  AL.C09R.stableSort_perm _

/-- the folded ids of the jobs of a parsed document are pairwise distinct (`C18P.parsed_job_ids_nodup`) -/
theorem parsed_idsOf_nodup (doc : Node) (W : Workflow) (js : List (String × Job)) (h : (parse cfg doc).1 = withJobs W js) :
    (idsOf cfg.lower js).Nodup := by
  have := parsed_job_ids_nodup cfg doc
  rw [h] at this
  simpa [jobsOf, idsOf, Function.comp_def] using this

/-- what job-needs reports is reported by the linter -/
theorem needs_mem_lint (doc : Node) (d : Diag) (h : d ∈ ruleJobNeeds cfg.lower (parse cfg doc).1) :
    d ∈ lint cfg isNum urlOk doc lc := by
  rw [(lint_perm cfg isNum urlOk lc doc).mem_iff]
  simp only [rules, List.mem_append, h, true_or, or_true]

/-- the (at most one) cycle report -/
def cycPart : Option Needs.CycleDiag → List Needs.Diag
  | some c => [Needs.Diag.cyclic c]
  | none => []

/-- the evaluation of job-needs on a concrete workflow, in the steps `C18P` uses (the cycle search is well-founded
recursive: it is evaluated on the literal graph with `cycle_eval`) -/
theorem ruleJobNeeds_of (lower : String → String) (w : Workflow) (d0 : List Needs.Diag) (g : Needs.Graph) (order : List Nat)
    (r : Option Needs.CycleDiag)
    (h1 : (Needs.resolve (nodesOf lower (jobsIn w))).2 = []) (h2 : (Needs.visitJobs lower (jobsIn w) []).2 = d0)
    (h3 : List.range (jobsIn w).length = order) (h4 : graphOf lower (jobsIn w) = g) (h5 : Needs.cycleDiag g order = r) :
    ruleJobNeeds lower w = (d0 ++ cycPart r).map needsDiag := by
  rw [ruleJobNeeds_eq, check_eq, h1, h2, h3, h4, h5]
  cases r <;> simp [cycPart]

end Lint

/-! ### the AST-only rules and the steps of a job -/

section StepRules
open AL.Rules AL.C09A

/-- the platform the steps of a job run on, as rule shell-name sees it -/
def jobPlatform (lower : String → String) (j : Job) : Platform :=
  match j.runsOn with | some r => platformOf lower r | none => Platform.any

def shellStep (lower : String → String) (pf : Platform) (st : Step) : List Diag :=
  match st.exec with
  | .run e => checkShellName lower pf e.shell
  | _ => []

def deprecatedStep (st : Step) : List Diag :=
  match st.exec with
  | .run e =>
    (match e.run with
     | some r => (findDeprecated (r.value.length + 1) r.value.toList).map fun cmd => ⟨r.pos, "deprecated-commands", "deprecated-command", [cmd]⟩
     | none => [])
  | _ => []

/-- `RuleID.seen` after the steps `S` -/
def idSeen (lower : String → String) : List Step → List (String × Rules.Pos) → List (String × Rules.Pos)
  | [], seen => seen
  | st :: rest, seen =>
    match st.id with
    | none => idSeen lower rest seen
    | some s =>
      match Rules.lookupSeen (lower s.value) seen with
      | some _ => idSeen lower rest seen
      | none => idSeen lower rest (seen ++ [(lower s.value, s.pos)])

theorem idSteps_append (lower : String → String) (b : List Step) : ∀ (a : List Step) (seen : List (String × Rules.Pos)),
    idSteps lower (a ++ b) seen = idSteps lower a seen ++ idSteps lower b (idSeen lower a seen)
  | [], seen => by simp [idSteps, idSeen]
  | st :: rest, seen => by
    simp only [List.cons_append, idSteps, idSeen]
    cases st.id with
    | none => exact idSteps_append lower b rest seen
    | some s =>
      simp only
      cases Rules.lookupSeen (lower s.value) seen with
      | some prev => simp only [idSteps_append lower b rest seen, List.append_assoc]
      | none => simp only [idSteps_append lower b rest, List.append_assoc]

/-- everything the AST-only rules report about ONE step: a function of the step, of the job's platform, and of the ids of
the earlier steps -/
def stepOwn (lower : String → String) (urlOk : String → Bool) (Jb : Job) (S : List Step) (st : Step) : List Diag :=
  shellStep lower (jobPlatform lower Jb) st ++ actionStep urlOk st ++ checkEnv st.env ++
  idSteps lower [st] (idSeen lower S []) ++ deprecatedStep st ++ checkIfCond st.cond

end StepRules

end AL.C09D
