/-
  Model-independent list lemmas used by the `parseMapping` theorems of AL/Props/C13.lean
  (the model itself — `dedup`, `handle`, `parseSection` — lives in that file, so the lemmas that mention it
  are proved there; this file cannot import it).
-/
namespace AL.ParseMapping

/-- an element inserted in the middle of the second block can be moved to the front -/
theorem perm_insert_right {α} (x : α) (d h₁ h₂ : List α) :
    (d ++ (h₁ ++ x :: h₂)).Perm (x :: (d ++ (h₁ ++ h₂))) := by
  rw [← List.append_assoc, ← List.append_assoc]
  exact List.perm_middle

/-- an element inserted in the middle of the first block can be moved to the front -/
theorem perm_insert_left {α} (x : α) (d₁ d₂ h : List α) :
    ((d₁ ++ x :: d₂) ++ h).Perm (x :: ((d₁ ++ d₂) ++ h)) := by
  rw [List.append_assoc, List.append_assoc]
  exact List.perm_middle

/-- `contains` on a list extended at the end by an element different from the one looked up -/
theorem contains_snoc_ne {seen : List String} {a b : String} (h : a ≠ b) :
    (seen ++ [b]).contains a = seen.contains a := by
  simp [List.contains_eq_mem, h]

end AL.ParseMapping
